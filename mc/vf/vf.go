// Package vf is the small framework shared by every check: run context,
// evidence file, violation reporting with known-findings filtering, replay
// artefacts, deadlines and a parallel-for helper.
package vf

import (
	"crypto/sha256"
	"encoding/hex"
	"encoding/json"
	"fmt"
	"os"
	"path/filepath"
	"runtime"
	"sort"
	"strconv"
	"sync"
	"sync/atomic"
	"time"
)

// Root is the /verif directory (overridable for tests).
var Root = func() string {
	if r := os.Getenv("VERIF_ROOT"); r != "" {
		return r
	}
	return "/verif"
}()

// A Check is one registered property check.
type Check struct {
	ID    string
	Level string // evidence level
	Run   func(c *Ctx)
	// Replay re-executes one recorded case through the same oracle.
	Replay func(c *Ctx, raw json.RawMessage)
}

var registry = map[string]*Check{}

// Register adds a check to the registry.
func Register(ch *Check) { registry[ch.ID] = ch }

// Lookup finds a check.
func Lookup(id string) *Check { return registry[id] }

// IDs lists registered checks.
func IDs() []string {
	var ids []string
	for id := range registry {
		ids = append(ids, id)
	}
	sort.Strings(ids)
	return ids
}

// Violation is one observed property violation.
type Violation struct {
	Signature string          `json:"signature"` // identifies the defect (entry point + failure class + trigger)
	Desc      string          `json:"description"`
	Case      json.RawMessage `json:"case"` // replayable descriptor
}

type knownFinding struct {
	Property    string `json:"property"`
	Signature   string `json:"signature"`
	Status      string `json:"status"` // "known" | "fixed"
	Description string `json:"description"`
	Commit      string `json:"commit,omitempty"`
}

// Ctx is the run context handed to a check.
type Ctx struct {
	// FullScope: the check is cheap enough to run its thorough scope in the quick tier too (set by the check).
	FullScope bool
	ID       string
	Tier     string
	Seed     int64
	Level    string
	start    time.Time
	deadline time.Time
	expired  atomic.Bool

	mu          sync.Mutex
	cov         map[string]any
	counters    map[string]*atomic.Int64
	samples     []any
	assumptions []string
	violations  map[string]*Violation // by signature (first occurrence kept)
	vcount      map[string]int
	harnessErr  []string
	distinct    map[[16]byte]struct{}
	exhaustive  bool
	capNotes    []string
}

// NewCtx builds a context. budget is the internal soft deadline.
func NewCtx(id, tier string, seed int64, level string) *Ctx {
	c := &Ctx{ID: id, Tier: tier, Seed: seed, Level: level, start: time.Now(),
		cov: map[string]any{}, counters: map[string]*atomic.Int64{}, violations: map[string]*Violation{},
		vcount: map[string]int{}, distinct: map[[16]byte]struct{}{}, exhaustive: true}
	budget := 150 * time.Second
	if tier == "thorough" {
		budget = 25 * time.Minute
	}
	if s := os.Getenv("VERIF_BUDGET_S"); s != "" {
		if n, err := strconv.Atoi(s); err == nil {
			budget = time.Duration(n) * time.Second
		}
	}
	c.deadline = c.start.Add(budget)
	return c
}

// Quick reports whether this is the quick tier.
func (c *Ctx) Quick() bool { return c.Tier != "thorough" && !c.FullScope }

// Pick returns q in the quick tier and t in the thorough tier.
func Pick[T any](c *Ctx, q, t T) T {
	if c.Quick() {
		return q
	}
	return t
}

// Expired reports whether the internal budget is used up. The first time it
// returns true the run is marked non-exhaustive.
func (c *Ctx) Expired() bool {
	if c.expired.Load() {
		return true
	}
	if time.Now().After(c.deadline) {
		c.expired.Store(true)
		c.NotExhaustive("internal time budget reached")
		return true
	}
	return false
}

// NotExhaustive marks the run as capped, with a note on what was capped.
func (c *Ctx) NotExhaustive(note string) {
	c.mu.Lock()
	defer c.mu.Unlock()
	c.exhaustive = false
	for _, n := range c.capNotes {
		if n == note {
			return
		}
	}
	c.capNotes = append(c.capNotes, note)
}

// Count adds n to a named coverage counter (thread-safe).
func (c *Ctx) Count(name string, n int64) {
	c.mu.Lock()
	ctr, ok := c.counters[name]
	if !ok {
		ctr = new(atomic.Int64)
		c.counters[name] = ctr
	}
	c.mu.Unlock()
	ctr.Add(n)
}

// Counter returns a pointer to a named counter for hot loops.
func (c *Ctx) Counter(name string) *atomic.Int64 {
	c.mu.Lock()
	defer c.mu.Unlock()
	ctr, ok := c.counters[name]
	if !ok {
		ctr = new(atomic.Int64)
		c.counters[name] = ctr
	}
	return ctr
}

// Get returns the value of a counter.
func (c *Ctx) Get(name string) int64 {
	c.mu.Lock()
	defer c.mu.Unlock()
	if ctr, ok := c.counters[name]; ok {
		return ctr.Load()
	}
	return 0
}

// Set records a coverage key.
func (c *Ctx) Set(key string, v any) {
	c.mu.Lock()
	defer c.mu.Unlock()
	c.cov[key] = v
}

// Sample records an actual explored case (bounded number kept).
func (c *Ctx) Sample(v any) {
	c.mu.Lock()
	defer c.mu.Unlock()
	if len(c.samples) < 12 {
		c.samples = append(c.samples, v)
	}
}

// Assume records an assumption for the evidence file.
func (c *Ctx) Assume(s string) {
	c.mu.Lock()
	defer c.mu.Unlock()
	for _, a := range c.assumptions {
		if a == s {
			return
		}
	}
	c.assumptions = append(c.assumptions, s)
}

// Distinct records a canonical descriptor of a non-trivial case; the number of
// distinct descriptors is reported as distinct_nontrivial.
func (c *Ctx) Distinct(desc ...any) {
	h := sha256.New()
	for _, d := range desc {
		fmt.Fprintf(h, "%v|", d)
	}
	var k [16]byte
	copy(k[:], h.Sum(nil))
	c.mu.Lock()
	c.distinct[k] = struct{}{}
	c.mu.Unlock()
}

// DistinctBytes is Distinct for a precomputed byte key.
func (c *Ctx) DistinctBytes(b []byte) {
	s := sha256.Sum256(b)
	var k [16]byte
	copy(k[:], s[:])
	c.mu.Lock()
	c.distinct[k] = struct{}{}
	c.mu.Unlock()
}

// Violate records a violation. sig identifies the defect; cs is a replayable
// descriptor (JSON-serialisable).
func (c *Ctx) Violate(sig, desc string, cs any) {
	raw, err := json.Marshal(cs)
	if err != nil {
		raw, _ = json.Marshal(fmt.Sprintf("%+v", cs))
	}
	c.mu.Lock()
	defer c.mu.Unlock()
	c.vcount[sig]++
	if _, ok := c.violations[sig]; !ok {
		c.violations[sig] = &Violation{Signature: sig, Desc: desc, Case: raw}
	}
}

// NumViolations returns the number of distinct violation signatures so far.
func (c *Ctx) NumViolations() int {
	c.mu.Lock()
	defer c.mu.Unlock()
	return len(c.violations)
}

// HarnessError records a problem of the harness itself (vacuous run, build
// drift); the run exits 2 without a VIOLATION line.
func (c *Ctx) HarnessError(format string, a ...any) {
	c.mu.Lock()
	defer c.mu.Unlock()
	c.harnessErr = append(c.harnessErr, fmt.Sprintf(format, a...))
}

// RequireFeature fails the run as vacuous if a mandatory feature counter is 0.
func (c *Ctx) RequireFeature(names ...string) {
	if c.expired.Load() {
		return // a capped run reports exhaustive:false and what it covered; it is not vacuous
	}
	for _, n := range names {
		if c.Get(n) == 0 {
			c.HarnessError("vacuous:%s", n)
		}
	}
}

func loadKnown() []knownFinding {
	b, err := os.ReadFile(filepath.Join(Root, "known_findings.json"))
	if err != nil {
		return nil
	}
	var ks []knownFinding
	if err := json.Unmarshal(b, &ks); err != nil {
		fmt.Fprintf(os.Stderr, "HARNESS-ERROR known_findings.json unreadable: %v\n", err)
		os.Exit(2)
	}
	return ks
}

// Finish writes the evidence file, prints KNOWN-FINDING / VIOLATION lines and
// returns the process exit code.
func (c *Ctx) Finish() int {
	c.mu.Lock()
	defer c.mu.Unlock()
	known := map[string]knownFinding{}
	for _, k := range loadKnown() {
		if k.Property == c.ID && k.Status == "known" {
			known[k.Signature] = k
		}
	}
	var sigs []string
	for s := range c.violations {
		sigs = append(sigs, s)
	}
	sort.Strings(sigs)
	exit := 0
	nviol := 0
	var knownSeen []string
	for _, s := range sigs {
		v := c.violations[s]
		if k, ok := known[s]; ok {
			fmt.Printf("KNOWN-FINDING: property=%s %s [%s] (%d occurrence(s))\n", c.ID, k.Description, s, c.vcount[s])
			knownSeen = append(knownSeen, s)
			continue
		}
		nviol++
		sum := sha256.Sum256([]byte(s))
		path := filepath.Join(Root, "replay", fmt.Sprintf("%s-%s.json", c.ID, hex.EncodeToString(sum[:6])))
		os.MkdirAll(filepath.Dir(path), 0o755)
		art, _ := json.MarshalIndent(map[string]any{
			"property": c.ID, "signature": v.Signature, "description": v.Desc,
			"tier": c.Tier, "seed": c.Seed, "occurrences": c.vcount[s], "case": v.Case,
		}, "", " ")
		os.WriteFile(path, art, 0o644)
		fmt.Printf("VIOLATION property=%s replay=%s\n", c.ID, path)
		fmt.Printf("  signature: %s\n  %s\n", v.Signature, v.Desc)
		exit = 1
	}
	// evidence
	cov := map[string]any{}
	for k, v := range c.cov {
		cov[k] = v
	}
	counters := map[string]int64{}
	for k, ctr := range c.counters {
		counters[k] = ctr.Load()
	}
	cov["counters"] = counters
	if _, ok := cov["evaluations"]; !ok {
		cov["evaluations"] = counters["evaluations"]
	}
	cov["distinct_nontrivial"] = len(c.distinct)
	if len(c.samples) == 0 {
		c.samples = append(c.samples, "no sample recorded")
	}
	cov["samples"] = c.samples
	cov["exhaustive"] = c.exhaustive && exit == 0 && len(c.harnessErr) == 0
	if len(c.capNotes) > 0 {
		cov["caps_hit"] = c.capNotes
	}
	if len(knownSeen) > 0 {
		cov["known_findings_observed"] = knownSeen
	}
	if c.Level == "model_checking" {
		for _, k := range []string{"states", "transitions", "traces_validated_against_impl"} {
			if _, ok := cov[k]; !ok {
				cov[k] = counters[k]
			}
		}
	}
	ev := map[string]any{
		"property_id": c.ID, "tier": c.Tier, "seed": c.Seed, "level": c.Level,
		"coverage": cov, "assumptions": c.assumptions,
		"wall_s": time.Since(c.start).Seconds(), "violations": nviol,
	}
	if c.assumptions == nil {
		ev["assumptions"] = []string{}
	}
	if len(c.harnessErr) > 0 {
		ev["harness_errors"] = c.harnessErr
	}
	b, _ := json.MarshalIndent(ev, "", " ")
	if os.Getenv("VERIF_NO_EVIDENCE") == "" {
		os.MkdirAll(filepath.Join(Root, "evidence"), 0o755)
		if err := os.WriteFile(filepath.Join(Root, "evidence", c.ID+".json"), b, 0o644); err != nil {
			fmt.Fprintf(os.Stderr, "HARNESS-ERROR cannot write evidence: %v\n", err)
			return 2
		}
	}
	for _, e := range c.harnessErr {
		fmt.Printf("HARNESS-ERROR property=%s %s\n", c.ID, e)
		if exit == 0 {
			exit = 2
		}
	}
	fmt.Printf("%s %s: evaluations=%v distinct=%d states=%v transitions=%v violations=%d known=%d exhaustive=%v wall=%.1fs\n",
		c.ID, c.Tier, cov["evaluations"], len(c.distinct), cov["states"], cov["transitions"], nviol, len(knownSeen), cov["exhaustive"], time.Since(c.start).Seconds())
	return exit
}

// Workers is the number of parallel workers to use.
func Workers() int {
	if s := os.Getenv("VERIF_WORKERS"); s != "" {
		if n, err := strconv.Atoi(s); err == nil && n > 0 {
			return n
		}
	}
	n := runtime.NumCPU()
	if n > 16 {
		n = 16
	}
	return n
}

// ParallelFor runs fn(i) for i in [0,n) on Workers() goroutines; a panic in fn
// is re-raised in the caller with the index.
func ParallelFor(n int, fn func(i int)) {
	w := Workers()
	if w > n {
		w = n
	}
	if w <= 1 {
		for i := 0; i < n; i++ {
			fn(i)
		}
		return
	}
	var next atomic.Int64
	var wg sync.WaitGroup
	var pmu sync.Mutex
	var pval any
	for k := 0; k < w; k++ {
		wg.Add(1)
		go func() {
			defer wg.Done()
			for {
				i := int(next.Add(1) - 1)
				if i >= n {
					return
				}
				func() {
					defer func() {
						if r := recover(); r != nil {
							pmu.Lock()
							if pval == nil {
								pval = fmt.Sprintf("panic in ParallelFor index %d: %v\n%s", i, r, stack())
							}
							pmu.Unlock()
						}
					}()
					fn(i)
				}()
			}
		}()
	}
	wg.Wait()
	if pval != nil {
		panic(pval)
	}
}

func stack() string {
	buf := make([]byte, 1<<14)
	return string(buf[:runtime.Stack(buf, false)])
}

// Try runs fn and returns the recovered panic value (nil if none) and stack.
func Try(fn func()) (p any, st string) {
	defer func() {
		if r := recover(); r != nil {
			p = r
			st = stack()
		}
	}()
	fn()
	return nil, ""
}
