package codec

import (
	"errors"
	"fmt"
	"math"
	"reflect"
	"time"

	rhp2 "go.sia.tech/core/rhp/v2"
	rhp3 "go.sia.tech/core/rhp/v3"
	"go.sia.tech/core/types"
)

// A Profile selects the scalar values and collection sizes of a generic base
// value.
type Profile int

// Profiles of the generic bases.
const (
	PZero    Profile = iota // all zero, nil slices and pointers
	POne                    // integers/currencies 1, one-element slices
	PTypical                // distinct small values in every leaf (detects swaps), two-element slices, sub-second times in a non-UTC zone
	PBig                    // integers 2^32+n, currencies 2^64+n
	PTop                    // integers 2^63+n, currencies 2^127+n, negative times
	PMax                    // integers 2^64-1, currencies 2^128-1, 0xFF bytes, two-element slices
	PEmpty                  // zero scalars, EMPTY (non-nil) slices and byte strings, non-nil pointers to zero values
	PLong1                  // profile "one" with every byte string 65537 bytes long
	PLong2                  // ... 131072 bytes
	PLong3                  // ... 150001 bytes
)

var profileNames = map[Profile]string{PZero: "zero", POne: "one", PTypical: "typical", PBig: "big(2^32,2^64)", PTop: "top(2^63,2^127)", PMax: "max", PEmpty: "empty(non-nil)", PLong1: "long-bytes(65537)", PLong2: "long-bytes(131072)", PLong3: "long-bytes(150001)"}

// LongByteProfiles: byte strings straddling the 64 KiB chunk size that streaming decoders read in (one byte more than
// one chunk; exactly two chunks; two chunks and a partial one). All other leaves as in profile "one".
var LongByteProfiles = map[Profile]int{PLong1: 65537, PLong2: 131072, PLong3: 150001}

// IsLongBytes reports whether a base label belongs to one of the long-byte-string profiles.
func IsLongBytes(label string) bool { return len(label) > 11 && label[:11] == "long-bytes(" }

// AllProfiles lists the generic profiles.
var AllProfiles = []Profile{PZero, POne, PTypical, PBig, PTop, PMax, PEmpty, PLong1, PLong2, PLong3}

var fixedZone = time.FixedZone("verif+0530", 5*3600+1800)

type filler struct {
	p          Profile
	longBytes  int // >0: every byte string gets this length (profiles PLong*); everything else as profile "one"
	n          uint64
	unassigned bool // every StateElement gets UnassignedLeafIndex (multiproof forms)
}

func (f *filler) next() uint64 { f.n++; return f.n }

func (f *filler) u64() uint64 {
	n := f.next()
	switch f.p {
	case PZero, PEmpty:
		return 0
	case POne:
		return 1
	case PTypical:
		return 0x100 + n
	case PBig:
		return 1<<32 | n
	case PTop:
		return 1<<63 | n
	}
	return math.MaxUint64
}

func (f *filler) u8() uint8 {
	n := f.next()
	switch f.p {
	case PZero, PEmpty:
		return 0
	case POne:
		return 1
	case PTypical:
		return uint8(2 + n%100)
	case PBig:
		return 0x7F
	case PTop:
		return 0x80
	}
	return 0xFF
}

func (f *filler) i64() int64 {
	n := int64(f.next())
	switch f.p {
	case PZero, PEmpty:
		return 0
	case POne:
		return 1
	case PTypical:
		return 0x100 + n
	case PBig:
		return 1<<32 | n
	case PTop:
		return -n
	}
	return math.MaxInt64
}

func (f *filler) currency() (lo, hi uint64) {
	n := f.next()
	switch f.p {
	case PZero, PEmpty:
		return 0, 0
	case POne:
		return 1, 0
	case PTypical:
		return 0x1000 + n, 0
	case PBig:
		return n, 1
	case PTop:
		return n, 1 << 63
	}
	return math.MaxUint64, math.MaxUint64
}

func (f *filler) time() time.Time {
	n := int64(f.next())
	switch f.p {
	case PZero, PEmpty:
		return time.Unix(0, 0)
	case POne:
		return time.Unix(1, 0)
	case PTypical:
		return time.Unix(1_600_000_000+n, 123_456_789).In(fixedZone)
	case PBig:
		return time.Unix(1<<32+n, 0)
	case PTop:
		return time.Time{} // negative Unix seconds: top bit set on the wire
	}
	return time.Unix(-1, 0) // 2^64-1 on the wire
}

func (f *filler) bytes(dst reflect.Value) {
	n := f.next()
	l := dst.Len()
	for i := 0; i < l; i++ {
		var b uint8
		switch f.p {
		case PZero, PEmpty:
			b = 0
		case POne:
			if i == 0 {
				b = 1
			}
		case PTypical:
			b = uint8(n*7 + uint64(i) + 1)
		case PBig:
			b = uint8(n*13+uint64(i)) | 0x40
		case PTop:
			b = uint8(n*11+uint64(i)) | 0x80
		default:
			b = 0xFF
		}
		dst.Index(i).SetUint(uint64(b))
	}
}

func (f *filler) scalarLen() int {
	switch f.p {
	case PZero, PEmpty:
		return 0
	case POne, PBig, PTop:
		return 1
	}
	return 2
}

func (f *filler) structLen(depth int) int {
	switch f.p {
	case PZero, PEmpty:
		return 0
	case PTypical, PMax:
		if depth <= 1 {
			return 2
		}
	}
	return 1
}

func (f *filler) byteSliceLen() int {
	if f.longBytes > 0 {
		return f.longBytes
	}
	switch f.p {
	case PZero, PEmpty:
		return 0
	case POne:
		return 1
	case PTypical:
		return 3
	case PBig:
		return 16
	case PTop:
		return 32
	}
	return 40
}

func (f *filler) str() string {
	n := f.next()
	switch f.p {
	case PZero, PEmpty:
		return ""
	case POne:
		return "a"
	case PTypical:
		return fmt.Sprintf("s%d", n)
	case PBig:
		return fmt.Sprintf("host-%d.example.com:9981", n)
	case PTop:
		return "\x00\xffé"
	}
	return "0123456789abcdef0123456789abcdef01234567"
}

// fill sets v (settable) according to the profile. depth counts enclosing
// struct-valued slices / structs below the entry's top level.
func (f *filler) fill(v reflect.Value, depth int) {
	v = settable(v)
	t := v.Type()
	switch {
	case isTime(t):
		setTime(v, f.time())
		return
	case isCurrency(t):
		lo, hi := f.currency()
		v.Field(0).SetUint(lo)
		v.Field(1).SetUint(hi)
		return
	case t == policyT:
		v.Set(reflect.ValueOf(f.policy()))
		return
	case t == networkPtrT:
		return // never transmitted; stays nil in bases
	case t == stateElemT:
		se := v.Addr().Interface().(*types.StateElement)
		se.LeafIndex = f.u64()
		if f.unassigned {
			se.LeafIndex = types.UnassignedLeafIndex
		}
		f.fill(v.FieldByName("MerkleProof"), depth+1)
		return
	case t == rpcResp2T || t == rpcResp3T:
		f.fill(v.FieldByName("data"), depth)
		return
	}
	switch v.Kind() {
	case reflect.Bool:
		n := f.next()
		v.SetBool(f.p == POne || f.p == PBig || f.p == PMax || (f.p == PTypical && n%2 == 0))
	case reflect.Uint8:
		v.SetUint(uint64(f.u8()))
	case reflect.Uint16, reflect.Uint32, reflect.Uint, reflect.Uint64:
		v.SetUint(f.u64())
	case reflect.Int64, reflect.Int:
		v.SetInt(f.i64())
	case reflect.String:
		v.SetString(f.str())
	case reflect.Array:
		if t.Elem().Kind() == reflect.Uint8 {
			f.bytes(v)
			return
		}
		for i := 0; i < v.Len(); i++ {
			f.fill(v.Index(i), depth)
		}
	case reflect.Slice:
		if t.Elem().Kind() == reflect.Uint8 {
			n := f.byteSliceLen()
			if n == 0 {
				if f.p == PEmpty {
					v.Set(reflect.MakeSlice(t, 0, 0))
				}
				return
			}
			s := reflect.MakeSlice(t, n, n)
			f.bytes(s)
			v.Set(s)
			return
		}
		n := f.scalarLen()
		ek := t.Elem().Kind()
		if ek == reflect.Struct && !isCurrency(t.Elem()) && !isTime(t.Elem()) || ek == reflect.Interface || ek == reflect.Slice && t.Elem().Elem().Kind() != reflect.Uint8 {
			n = f.structLen(depth)
		}
		if n == 0 {
			if f.p == PEmpty {
				v.Set(reflect.MakeSlice(t, 0, 0))
			}
			return
		}
		s := reflect.MakeSlice(t, n, n)
		for i := 0; i < n; i++ {
			f.fill(s.Index(i), depth+1)
		}
		v.Set(s)
	case reflect.Struct:
		for i := 0; i < v.NumField(); i++ {
			if t.Field(i).Name == "shared" {
				continue
			}
			f.fill(v.Field(i), depth+1)
		}
	case reflect.Pointer:
		if f.p == PZero {
			return
		}
		n := reflect.New(t.Elem())
		f.fill(n.Elem(), depth)
		v.Set(n)
	case reflect.Interface:
		f.iface(v, depth)
	default:
		panic(fmt.Sprintf("codec: cannot fill %v", t))
	}
}

func (f *filler) iface(v reflect.Value, depth int) {
	t := v.Type()
	set := func(p any) {
		pv := reflect.ValueOf(p)
		f.fill(pv.Elem(), depth)
		v.Set(pv)
	}
	switch t {
	case resolutionIT:
		switch f.p {
		case PZero, PTop, PEmpty:
			set(new(types.V2FileContractExpiration))
		case POne, PBig:
			set(new(types.V2StorageProof))
		default:
			set(new(types.V2FileContractRenewal))
		}
	case instructionIT:
		all := instructionCtors()
		set(all[int(f.next())%len(all)]())
	case errorIT:
		if f.p != PZero && f.p != PEmpty {
			v.Set(reflect.ValueOf(errors.New(f.str() + "!")))
		}
	case proto2IT:
		set(new(rhp2.RPCSettingsResponse))
	case proto3IT:
		set(new(rhp3.RPCUpdatePriceTableResponse))
	default:
		panic(fmt.Sprintf("codec: cannot fill interface %v", t))
	}
}

func instructionCtors() []func() any {
	return []func() any{
		func() any { return new(rhp3.InstrAppendSector) },
		func() any { return new(rhp3.InstrAppendSectorRoot) },
		func() any { return new(rhp3.InstrDropSectors) },
		func() any { return new(rhp3.InstrHasSector) },
		func() any { return new(rhp3.InstrReadOffset) },
		func() any { return new(rhp3.InstrReadSector) },
		func() any { return new(rhp3.InstrSwapSector) },
		func() any { return new(rhp3.InstrUpdateSector) },
		func() any { return new(rhp3.InstrStoreSector) },
		func() any { return new(rhp3.InstrRevision) },
		func() any { return new(rhp3.InstrReadRegistry) },
		func() any { return new(rhp3.InstrReadRegistryNoVersion) },
		func() any { return new(rhp3.InstrUpdateRegistry) },
		func() any { return new(rhp3.InstrUpdateRegistryNoType) },
	}
}

func (f *filler) hash() (h types.Hash256) {
	f.bytes(reflect.ValueOf(&h).Elem())
	return
}

func (f *filler) uc() types.UnlockConditions {
	var uc types.UnlockConditions
	f.fill(reflect.ValueOf(&uc).Elem(), 3)
	return uc
}

// leafPolicy returns the policy of the given kind (0..6, threshold = empty)
// with profile-dependent contents.
func (f *filler) leafPolicy(kind int) types.SpendPolicy {
	switch kind {
	case 0:
		return types.PolicyAbove(f.u64())
	case 1:
		return types.PolicyAfter(f.time())
	case 2:
		return types.PolicyPublicKey(types.PublicKey(f.hash()))
	case 3:
		return types.PolicyHash(f.hash())
	case 4:
		return types.PolicyThreshold(f.u8(), nil)
	case 5:
		return types.SpendPolicy{Type: types.PolicyTypeOpaque(f.hash())}
	default:
		return types.SpendPolicy{Type: types.PolicyTypeUnlockConditions(f.uc())}
	}
}

// PolicyKinds names the seven policy kinds in opcode order (opcode = index+1).
var PolicyKinds = []string{"above", "after", "pk", "h", "thresh", "opaque", "uc"}

func (f *filler) policy() types.SpendPolicy {
	switch f.p {
	case PZero:
		return types.PolicyAbove(0)
	case PEmpty:
		return types.PolicyThreshold(0, []types.SpendPolicy{})
	case POne:
		return f.leafPolicy(2)
	case PTypical:
		return types.PolicyThreshold(1, []types.SpendPolicy{f.leafPolicy(2), f.leafPolicy(3)})
	case PBig:
		return f.leafPolicy(6)
	case PTop:
		return f.leafPolicy(5)
	}
	return types.PolicyThreshold(255, []types.SpendPolicy{f.leafPolicy(1), types.PolicyThreshold(1, []types.SpendPolicy{f.leafPolicy(0), f.leafPolicy(2)}), f.leafPolicy(5)})
}

// Generic builds the generic base value of an entry for a profile.
func (e *Entry) Generic(p Profile) any {
	v := e.generic(p)
	if e.Fix != nil {
		e.Fix(v)
	}
	return v
}

func (e *Entry) generic(p Profile) any {
	v := e.New()
	f := &filler{p: p, unassigned: e.Multiproof}
	if n, ok := LongByteProfiles[p]; ok {
		f.p, f.longBytes = POne, n
	}
	rv := reflect.ValueOf(v).Elem()
	if rv.Kind() == reflect.Struct && e.Only != nil {
		for _, name := range e.Only {
			f.fill(rv.FieldByName(name), 1)
		}
		return v
	}
	if rv.Kind() == reflect.Struct && !isTime(rv.Type()) && !isCurrency(rv.Type()) && rv.Type() != policyT && rv.Type() != stateElemT && rv.Type() != rpcResp2T && rv.Type() != rpcResp3T {
		t := rv.Type()
		for i := 0; i < rv.NumField(); i++ {
			if t.Field(i).Name == "shared" {
				continue
			}
			f.fill(rv.Field(i), 1)
		}
		return v
	}
	f.fill(rv, 0)
	return v
}
