package codec

import (
	"go.sia.tech/core/consensus"
	"go.sia.tech/core/gateway"
	rhp2 "go.sia.tech/core/rhp/v2"
	rhp3 "go.sia.tech/core/rhp/v3"
	rhp4 "go.sia.tech/core/rhp/v4"
	"go.sia.tech/core/types"
)

// Excluded lists decoder methods of the source tree that are deliberately not
// inventory entries, with the reason.
var Excluded = map[string]string{
	"types:DecoderFunc.DecodeFrom":         "function adapter, not a codec",
	"gateway:emptyRequest.decodeRequest":   "embedded no-op half of RPC objects (zero bytes)",
	"gateway:emptyResponse.decodeResponse": "embedded no-op half of RPC objects (zero bytes)",
}

func init() {
	// ---------------------------------------------------------------- types
	const T = "types"
	std[types.Hash256](T, "types.Hash256", layout("Hash256"))
	std[types.BlockID](T, "types.BlockID", layout("Hash256"))
	std[types.TransactionID](T, "types.TransactionID", layout("Hash256"))
	std[types.AttestationID](T, "types.AttestationID", layout("Hash256"))
	std[types.Address](T, "types.Address", layout("Hash256"))
	std[types.PublicKey](T, "types.PublicKey", layout("Hash256"))
	std[types.SiacoinOutputID](T, "types.SiacoinOutputID", layout("Hash256"))
	std[types.SiafundOutputID](T, "types.SiafundOutputID", layout("Hash256"))
	std[types.FileContractID](T, "types.FileContractID", layout("Hash256"))
	std[types.Signature](T, "types.Signature", layout("Signature"))
	std[types.Specifier](T, "types.Specifier", layout("Specifier"))
	std[types.UnlockKey](T, "types.UnlockKey", layout("UnlockKey"))
	std[types.UnlockConditions](T, "types.UnlockConditions", layout("UnlockConditions"))
	std[types.V1Currency](T, "types.V1Currency", layout("V1Currency"), variants(currencyVariants[types.V1Currency]))
	std[types.V2Currency](T, "types.V2Currency", layout("V2Currency"), variants(currencyVariants[types.V2Currency]))
	std[types.ChainIndex](T, "types.ChainIndex", layout("ChainIndex"))
	std[types.V1SiacoinOutput](T, "types.V1SiacoinOutput", layout("V1SiacoinOutput"))
	std[types.V2SiacoinOutput](T, "types.V2SiacoinOutput", layout("V2SiacoinOutput"))
	std[types.V1SiafundOutput](T, "types.V1SiafundOutput", layout("V1SiafundOutput"))
	std[types.V2SiafundOutput](T, "types.V2SiafundOutput", layout("V2SiafundOutput"))
	std[types.SiacoinInput](T, "types.SiacoinInput", layout("SiacoinInput"))
	std[types.SiafundInput](T, "types.SiafundInput", layout("SiafundInput"))
	std[types.FileContract](T, "types.FileContract", layout("FileContract"))
	std[types.FileContractRevision](T, "types.FileContractRevision", layout("FileContractRevision"))
	std[types.StorageProof](T, "types.StorageProof", layout("StorageProof"))
	std[types.FoundationAddressUpdate](T, "types.FoundationAddressUpdate", layout("FoundationAddressUpdate"))
	std[types.CoveredFields](T, "types.CoveredFields", layout("CoveredFields"))
	std[types.TransactionSignature](T, "types.TransactionSignature", layout("TransactionSignature"))
	std[types.Transaction](T, "types.Transaction", layout("Transaction"), variants(v1TxnVariants))
	std[types.SpendPolicy](T, "types.SpendPolicy", layout("SpendPolicy"), variants(policyVariants))
	std[types.SatisfiedPolicy](T, "types.SatisfiedPolicy", layout("SatisfiedPolicy"), variants(satisfiedPolicyVariants))
	std[types.StateElement](T, "types.StateElement", layout("StateElement"))
	std[types.V2SiacoinInput](T, "types.V2SiacoinInput", layout("V2SiacoinInput"))
	std[types.ChainIndexElement](T, "types.ChainIndexElement", layout("ChainIndexElement"))
	std[types.SiacoinElement](T, "types.SiacoinElement", layout("SiacoinElement"))
	std[types.V2SiafundInput](T, "types.V2SiafundInput", layout("V2SiafundInput"))
	std[types.SiafundElement](T, "types.SiafundElement", layout("SiafundElement"))
	std[types.V2FileContract](T, "types.V2FileContract", layout("V2FileContract"))
	std[types.FileContractElement](T, "types.FileContractElement", layout("FileContractElement"))
	std[types.V2FileContractElement](T, "types.V2FileContractElement", layout("V2FileContractElement"))
	std[types.V2FileContractRevision](T, "types.V2FileContractRevision", layout("V2FileContractRevision"))
	std[types.V2FileContractRenewal](T, "types.V2FileContractRenewal", layout("V2FileContractRenewal"))
	std[types.V2StorageProof](T, "types.V2StorageProof", layout("V2StorageProof"))
	std[types.V2FileContractExpiration](T, "types.V2FileContractExpiration", layout("V2FileContractExpiration"))
	std[types.V2FileContractResolution](T, "types.V2FileContractResolution", layout("V2FileContractResolution"), variants(resolutionVariants))
	std[types.Attestation](T, "types.Attestation", layout("Attestation"))
	std[types.V2Transaction](T, "types.V2Transaction", layout("V2Transaction"), variants(v2TxnVariants))
	std[types.V2TransactionsMultiproof](T, "types.V2TransactionsMultiproof", layout("V2TransactionsMultiproof"), multiproof(), variants(multiproofVariants))
	std[types.V2BlockData](T, "types.V2BlockData", layout("V2BlockData"), multiproof(), variants(blockDataVariants))
	std[types.BlockHeader](T, "types.BlockHeader", layout("BlockHeader"), variants(headerVariants))
	std[types.V1Block](T, "types.V1Block", layout("V1Block"), variants(v1BlockVariants))
	std[types.V2Block](T, "types.V2Block", layout("V2Block"), multiproof(), variants(v2BlockVariants))

	// ------------------------------------------------------------ consensus
	const C = "consensus"
	std[consensus.State](C, "consensus.State", layout("State"), variants(stateVariants))
	std[consensus.V1StorageProofSupplement](C, "consensus.V1StorageProofSupplement", layout("V1StorageProofSupplement"))
	std[consensus.V1TransactionSupplement](C, "consensus.V1TransactionSupplement", layout("V1TransactionSupplement"))
	std[consensus.V1BlockSupplement](C, "consensus.V1BlockSupplement", layout("V1BlockSupplement"), variants(supplementVariants))
	std[consensus.ElementAccumulator](C, "consensus.ElementAccumulator", layout("ElementAccumulator"), variants(accumulatorVariants))
	std[consensus.Work](C, "consensus.Work", layout("Work"))

	// -------------------------------------------------------------- gateway
	const G = "gateway"
	fn(G, "gateway.Header", gateway.VerifEncodeHeader, gateway.VerifDecodeHeader, via("overlay"), src("gateway:Header.decodeFrom"))
	fn(G, "gateway.V2BlockOutline", func(ob *gateway.V2BlockOutline, e *types.Encoder) { gateway.VerifEncodeOutline(e, ob) }, func(ob *gateway.V2BlockOutline, d *types.Decoder) { gateway.VerifDecodeOutline(d, ob) }, via("overlay"), src("gateway:V2BlockOutline.decodeFrom"), multiproof(), variants(outlineVariants))
	gwReq[gateway.RPCSendHeaders]("RPCSendHeaders", only("Index", "Max"))
	gwResp[gateway.RPCSendHeaders]("RPCSendHeaders", only("Headers", "Remaining"))
	gwReq[gateway.RPCSendV2Blocks]("RPCSendV2Blocks", only("History", "Max"))
	gwResp[gateway.RPCSendV2Blocks]("RPCSendV2Blocks", only("Blocks", "Remaining"), multiproof(), variants(sendV2BlocksVariants))
	gwReq[gateway.RPCSendTransactions]("RPCSendTransactions", only("Index", "Hashes"))
	gwResp[gateway.RPCSendTransactions]("RPCSendTransactions", only("Transactions", "V2Transactions"))
	gwReq[gateway.RPCSendCheckpoint]("RPCSendCheckpoint", only("Index"))
	gwResp[gateway.RPCSendCheckpoint]("RPCSendCheckpoint", only("Block", "State"), multiproof(), variants(checkpointVariants))
	gwResp[gateway.RPCShareNodes]("RPCShareNodes", only("Peers"))
	gwResp[gateway.RPCDiscoverIP]("RPCDiscoverIP", only("IP"))
	gwReq[gateway.RPCRelayV2Header]("RPCRelayV2Header", only("Header"))
	gwReq[gateway.RPCRelayV2BlockOutline]("RPCRelayV2BlockOutline", only("Block"), multiproof(), variants(relayOutlineVariants))
	gwReq[gateway.RPCRelayV2TransactionSet]("RPCRelayV2TransactionSet", only("Index", "Transactions"))

	// --------------------------------------------------------------- rhp/v2
	const R2 = "rhp/v2"
	std[rhp2.Challenge](R2, "rhp/v2.Challenge")
	std[rhp2.RPCError](R2, "rhp/v2.RPCError")
	std[rhp2.VerifRPCResponse](R2, "rhp/v2.rpcResponse", via("overlay(alias)"), src("rhp/v2:rpcResponse.DecodeFrom"),
		newWith(func() any { return rhp2.VerifNewRPCResponse(nil, new(rhp2.RPCSettingsResponse)) }), variants(rpcResponse2Variants))
	std[rhp2.VerifLoopKeyExchangeRequest](R2, "rhp/v2.loopKeyExchangeRequest", via("overlay(alias)"), src("rhp/v2:loopKeyExchangeRequest.DecodeFrom"))
	std[rhp2.VerifLoopKeyExchangeResponse](R2, "rhp/v2.loopKeyExchangeResponse", via("overlay(alias)"), src("rhp/v2:loopKeyExchangeResponse.DecodeFrom"))
	std[rhp2.RPCFormContractRequest](R2, "rhp/v2.RPCFormContractRequest")
	std[rhp2.RPCFormContractAdditions](R2, "rhp/v2.RPCFormContractAdditions")
	std[rhp2.RPCFormContractSignatures](R2, "rhp/v2.RPCFormContractSignatures")
	std[rhp2.RPCRenewAndClearContractRequest](R2, "rhp/v2.RPCRenewAndClearContractRequest")
	std[rhp2.RPCRenewAndClearContractSignatures](R2, "rhp/v2.RPCRenewAndClearContractSignatures")
	std[rhp2.RPCLockRequest](R2, "rhp/v2.RPCLockRequest")
	std[rhp2.RPCLockResponse](R2, "rhp/v2.RPCLockResponse")
	std[rhp2.RPCReadRequest](R2, "rhp/v2.RPCReadRequest")
	std[rhp2.RPCReadResponse](R2, "rhp/v2.RPCReadResponse")
	std[rhp2.RPCSectorRootsRequest](R2, "rhp/v2.RPCSectorRootsRequest")
	std[rhp2.RPCSectorRootsResponse](R2, "rhp/v2.RPCSectorRootsResponse")
	std[rhp2.RPCSettingsResponse](R2, "rhp/v2.RPCSettingsResponse")
	std[rhp2.RPCWriteRequest](R2, "rhp/v2.RPCWriteRequest")
	std[rhp2.RPCWriteMerkleProof](R2, "rhp/v2.RPCWriteMerkleProof")
	std[rhp2.RPCWriteResponse](R2, "rhp/v2.RPCWriteResponse")

	// --------------------------------------------------------------- rhp/v3
	const R3 = "rhp/v3"
	std[rhp3.RPCError](R3, "rhp/v3.RPCError")
	std[rhp3.SettingsID](R3, "rhp/v3.SettingsID")
	std[rhp3.VerifRPCResponse](R3, "rhp/v3.rpcResponse", via("overlay(alias)"), src("rhp/v3:rpcResponse.DecodeFrom"),
		newWith(func() any { return rhp3.VerifNewRPCResponse(nil, new(rhp3.RPCUpdatePriceTableResponse)) }), variants(rpcResponse3Variants))
	std[rhp3.Account](R3, "rhp/v3.Account")
	std[rhp3.PayByEphemeralAccountRequest](R3, "rhp/v3.PayByEphemeralAccountRequest")
	std[rhp3.PayByContractRequest](R3, "rhp/v3.PayByContractRequest")
	std[rhp3.PaymentResponse](R3, "rhp/v3.PaymentResponse")
	std[rhp3.RPCPriceTableResponse](R3, "rhp/v3.RPCPriceTableResponse")
	std[rhp3.RPCUpdatePriceTableResponse](R3, "rhp/v3.RPCUpdatePriceTableResponse")
	std[rhp3.RPCFundAccountRequest](R3, "rhp/v3.RPCFundAccountRequest")
	std[rhp3.FundAccountReceipt](R3, "rhp/v3.FundAccountReceipt")
	std[rhp3.RPCFundAccountResponse](R3, "rhp/v3.RPCFundAccountResponse")
	std[rhp3.RPCAccountBalanceRequest](R3, "rhp/v3.RPCAccountBalanceRequest")
	std[rhp3.RPCAccountBalanceResponse](R3, "rhp/v3.RPCAccountBalanceResponse")
	std[rhp3.RPCExecuteProgramRequest](R3, "rhp/v3.RPCExecuteProgramRequest", variants(programVariants))
	std[rhp3.RPCExecuteProgramResponse](R3, "rhp/v3.RPCExecuteProgramResponse", valid(func(v any) bool {
		r := v.(*rhp3.RPCExecuteProgramResponse)
		// the encoder writes Output raw; its length travels in OutputLength. An
		// error with an empty message is indistinguishable from no error.
		return r.OutputLength == uint64(len(r.Output)) && (r.Error == nil || r.Error.Error() != "")
	}), fix(func(v any) {
		r := v.(*rhp3.RPCExecuteProgramResponse)
		r.OutputLength = uint64(len(r.Output))
	}))
	std[rhp3.RPCFinalizeProgramRequest](R3, "rhp/v3.RPCFinalizeProgramRequest")
	std[rhp3.RPCFinalizeProgramResponse](R3, "rhp/v3.RPCFinalizeProgramResponse")
	std[rhp3.RPCLatestRevisionRequest](R3, "rhp/v3.RPCLatestRevisionRequest")
	std[rhp3.RPCLatestRevisionResponse](R3, "rhp/v3.RPCLatestRevisionResponse")
	std[rhp3.RPCRenewContractRequest](R3, "rhp/v3.RPCRenewContractRequest")
	std[rhp3.RPCRenewContractHostAdditions](R3, "rhp/v3.RPCRenewContractHostAdditions")
	std[rhp3.RPCRenewSignatures](R3, "rhp/v3.RPCRenewSignatures")
	std[rhp3.InstrAppendSector](R3, "rhp/v3.InstrAppendSector")
	std[rhp3.InstrAppendSectorRoot](R3, "rhp/v3.InstrAppendSectorRoot")
	std[rhp3.InstrDropSectors](R3, "rhp/v3.InstrDropSectors")
	std[rhp3.InstrHasSector](R3, "rhp/v3.InstrHasSector")
	std[rhp3.InstrReadOffset](R3, "rhp/v3.InstrReadOffset")
	std[rhp3.InstrReadSector](R3, "rhp/v3.InstrReadSector")
	std[rhp3.InstrSwapSector](R3, "rhp/v3.InstrSwapSector")
	std[rhp3.InstrUpdateSector](R3, "rhp/v3.InstrUpdateSector")
	std[rhp3.InstrStoreSector](R3, "rhp/v3.InstrStoreSector")
	std[rhp3.InstrRevision](R3, "rhp/v3.InstrRevision")
	std[rhp3.InstrReadRegistry](R3, "rhp/v3.InstrReadRegistry")
	std[rhp3.InstrReadRegistryNoVersion](R3, "rhp/v3.InstrReadRegistryNoVersion")
	std[rhp3.InstrUpdateRegistry](R3, "rhp/v3.InstrUpdateRegistry")
	std[rhp3.InstrUpdateRegistryNoType](R3, "rhp/v3.InstrUpdateRegistryNoType")

	// --------------------------------------------------------------- rhp/v4
	const R4 = "rhp/v4"
	std[rhp4.AccountDeposit](R4, "rhp/v4.AccountDeposit")
	std[rhp4.HostPrices](R4, "rhp/v4.HostPrices")
	std[rhp4.HostSettings](R4, "rhp/v4.HostSettings")
	std[rhp4.Account](R4, "rhp/v4.Account")
	std[rhp4.PoolAttachment](R4, "rhp/v4.PoolAttachment")
	std[rhp4.PoolDetachment](R4, "rhp/v4.PoolDetachment")
	obj4[rhp4.AccountToken]("AccountToken")
	obj4[rhp4.RPCError]("RPCError")
	obj4[rhp4.RPCSettingsRequest]("RPCSettingsRequest")
	obj4[rhp4.RPCSettingsResponse]("RPCSettingsResponse")
	obj4[rhp4.RPCFormContractParams]("RPCFormContractParams")
	obj4[rhp4.RPCFormContractRequest]("RPCFormContractRequest")
	obj4[rhp4.RPCFormContractResponse]("RPCFormContractResponse")
	obj4[rhp4.RPCFormContractSecondResponse]("RPCFormContractSecondResponse")
	obj4[rhp4.RPCFormContractThirdResponse]("RPCFormContractThirdResponse")
	obj4[rhp4.RPCRenewContractParams]("RPCRenewContractParams")
	obj4[rhp4.RPCRenewContractRequest]("RPCRenewContractRequest")
	obj4[rhp4.RPCRenewContractResponse]("RPCRenewContractResponse")
	obj4[rhp4.RPCRenewContractSecondResponse]("RPCRenewContractSecondResponse")
	obj4[rhp4.RPCRenewContractThirdResponse]("RPCRenewContractThirdResponse")
	obj4[rhp4.RPCRefreshContractParams]("RPCRefreshContractParams")
	obj4[rhp4.RPCRefreshContractRequest]("RPCRefreshContractRequest")
	obj4[rhp4.RPCRefreshContractResponse]("RPCRefreshContractResponse")
	obj4[rhp4.RPCRefreshContractSecondResponse]("RPCRefreshContractSecondResponse")
	obj4[rhp4.RPCRefreshContractThirdResponse]("RPCRefreshContractThirdResponse")
	obj4[rhp4.RPCFreeSectorsRequest]("RPCFreeSectorsRequest")
	obj4[rhp4.RPCFreeSectorsResponse]("RPCFreeSectorsResponse")
	obj4[rhp4.RPCFreeSectorsSecondResponse]("RPCFreeSectorsSecondResponse")
	obj4[rhp4.RPCFreeSectorsThirdResponse]("RPCFreeSectorsThirdResponse")
	obj4[rhp4.RPCAppendSectorsRequest]("RPCAppendSectorsRequest")
	obj4[rhp4.RPCAppendSectorsResponse]("RPCAppendSectorsResponse")
	obj4[rhp4.RPCAppendSectorsSecondResponse]("RPCAppendSectorsSecondResponse")
	obj4[rhp4.RPCAppendSectorsThirdResponse]("RPCAppendSectorsThirdResponse")
	obj4[rhp4.RPCLatestRevisionRequest]("RPCLatestRevisionRequest")
	obj4[rhp4.RPCLatestRevisionResponse]("RPCLatestRevisionResponse")
	obj4[rhp4.RPCReadSectorRequest]("RPCReadSectorRequest")
	obj4[rhp4.RPCReadSectorResponse]("RPCReadSectorResponse")
	obj4[rhp4.RPCWriteSectorRequest]("RPCWriteSectorRequest")
	obj4[rhp4.RPCWriteSectorResponse]("RPCWriteSectorResponse")
	obj4[rhp4.RPCSectorRootsRequest]("RPCSectorRootsRequest")
	obj4[rhp4.RPCSectorRootsResponse]("RPCSectorRootsResponse")
	obj4[rhp4.RPCAccountBalanceRequest]("RPCAccountBalanceRequest")
	obj4[rhp4.RPCAccountBalanceResponse]("RPCAccountBalanceResponse")
	obj4[rhp4.RPCReplenishAccountsRequest]("RPCReplenishAccountsRequest")
	obj4[rhp4.RPCReplenishAccountsResponse]("RPCReplenishAccountsResponse")
	obj4[rhp4.RPCReplenishAccountsSecondResponse]("RPCReplenishAccountsSecondResponse")
	obj4[rhp4.RPCReplenishAccountsThirdResponse]("RPCReplenishAccountsThirdResponse")
	obj4[rhp4.RPCFundAccountsRequest]("RPCFundAccountsRequest")
	obj4[rhp4.RPCFundAccountsResponse]("RPCFundAccountsResponse")
	obj4[rhp4.RPCAttachPoolsRequest]("RPCAttachPoolsRequest")
	obj4[rhp4.RPCAttachPoolsResponse]("RPCAttachPoolsResponse")
	obj4[rhp4.RPCDetachPoolsRequest]("RPCDetachPoolsRequest")
	obj4[rhp4.RPCDetachPoolsResponse]("RPCDetachPoolsResponse")
	obj4[rhp4.RPCVerifySectorRequest]("RPCVerifySectorRequest")
	obj4[rhp4.RPCVerifySectorResponse]("RPCVerifySectorResponse")
}

func gwReq[T any, P interface {
	*T
	gateway.Object
}](name string, opts ...opt) *Entry {
	opts = append([]opt{via("overlay"), src("gateway:" + name + ".decodeRequest")}, opts...)
	return fn("gateway", "gateway."+name+".request",
		func(v *T, e *types.Encoder) { gateway.VerifEncodeRequest(P(v), e) },
		func(v *T, d *types.Decoder) { gateway.VerifDecodeRequest(P(v), d) }, opts...)
}

func gwResp[T any, P interface {
	*T
	gateway.Object
}](name string, opts ...opt) *Entry {
	opts = append([]opt{via("overlay"), src("gateway:" + name + ".decodeResponse")}, opts...)
	return fn("gateway", "gateway."+name+".response",
		func(v *T, e *types.Encoder) { gateway.VerifEncodeResponse(P(v), e) },
		func(v *T, d *types.Decoder) { gateway.VerifDecodeResponse(P(v), d) }, opts...)
}

func obj4[T any, P interface {
	*T
	rhp4.VerifCodec
}](name string, opts ...opt) *Entry {
	opts = append([]opt{via("overlay"), src("rhp/v4:" + name + ".decodeFrom")}, opts...)
	return fn("rhp/v4", "rhp/v4."+name,
		func(v *T, e *types.Encoder) { rhp4.VerifEncode(P(v), e) },
		func(v *T, d *types.Decoder) { rhp4.VerifDecode(P(v), d) }, opts...)
}
