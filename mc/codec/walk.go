package codec

import (
	"errors"
	"fmt"
	"math"
	"reflect"
	"strings"
	"time"

	"go.sia.tech/core/consensus"
	"go.sia.tech/core/gateway"
	rhp3 "go.sia.tech/core/rhp/v3"
	"go.sia.tech/core/types"
)

// A Mutation is a single-leaf change of a value, produced by a reflection walk
// so that fields added to a struct later are covered automatically.
type Mutation struct {
	Path  string // field path + mutation kind, e.g. ".SiacoinOutputs[1].Value.Lo+1"
	Field string // field path without the mutation kind
	// NT is the name of the documented not-transmitted rule that covers this
	// leaf ("" = the leaf must influence the encoding).
	NT string
	// NoRoundTrip: the mutated value is not a valid input for the round-trip
	// oracles (it breaks an encoder precondition such as Merkle-proof
	// consistency in multiproof forms); field-completeness still applies.
	NoRoundTrip bool
	Apply       func()
	Undo        func()
}

// NotTransmitted is the explicit table of documented not-transmitted fields
// (DESIGN Appendix D, derived from the code and its comments). Rule name ->
// justification. Every rule is asserted in BOTH directions by C11: leaves
// covered by a rule must NOT influence the bytes, all others must.
var NotTransmitted = map[string]string{
	"State.Network":                            "consensus/state.go: `Network *Network json:\"-\" // network parameters are not encoded`",
	"State.PrevTimestamps[i>=n]":               "consensus/state.go: only PrevTimestamps[:numTimestamps()] (n = min(height+1, 11)) is written",
	"ElementAccumulator.Trees[unused]":         "consensus/merkle.go: a tree root is written only if bit k of NumLeaves is set",
	"time.Time sub-second":                     "types/encoding.go WriteTime: uint64(t.Unix())",
	"time.Time location":                       "types/encoding.go WriteTime: uint64(t.Unix())",
	"StateElement.shared":                      "types/types.go: unexported in-memory aliasing guard",
	"FileContractRevision.Payout":              "types/types.go FileContractRevision docstring: Payout is not part of a revision; decoder sets the MaxCurrency sentinel",
	"V1Block.V2":                               "types/encoding.go V1Block: the v1 block form has no v2 data",
	"OutlineTransaction.Hash(present)":         "gateway/encoding.go: the hash is recomputed from the transaction when the transaction is present",
	"OutlineTransaction.V2(shadowed)":          "gateway/encoding.go: Transaction takes precedence over V2Transaction",
	"InstrReadRegistryNoVersion.Version":       "rhp/v3/program.go: pre-1.5.7 form has no version byte; decoder sets 1",
	"InstrUpdateRegistryNoType.EntryType":      "rhp/v3/program.go: pre-1.5.7 form has no type byte; decoder sets EntryTypeArbitrary",
	"rpcResponse.data(error)":                  "rhp/v2,v3 encoding.go: an error response carries no data",
	"RPC half (Only)":                          "gateway/encoding.go: request and response halves of an RPC object are separate codecs over one struct; the other half's fields are not walked",
	"multiproof: parent LeafIndex/MerkleProof": "types/multiproof.go: individual proofs are replaced by one multiproof (partly transmitted, partly recomputed); leaf positions must stay consistent with the proofs. Not mutated here; the exact multiproof bytes are asserted by WireSpec and losslessness by C18",
}

type frame struct {
	typ   reflect.Type
	field string
	index int
	val   reflect.Value // the enclosing struct / array value
}

type walker struct {
	e     *Entry
	real  bool
	out   []Mutation
	stack []frame
}

// Mutations enumerates the single-leaf mutations of base value b.V in place.
func (e *Entry) Mutations(b Base) []Mutation {
	w := &walker{e: e, real: b.Real}
	rv := reflect.ValueOf(b.V).Elem()
	if rv.Kind() == reflect.Struct && e.Only != nil {
		for _, name := range e.Only {
			w.stack = append(w.stack, frame{typ: rv.Type(), field: name, val: rv})
			w.walk(rv.FieldByName(name), "."+name, func() {})
			w.stack = w.stack[:0]
		}
		return w.out
	}
	w.walk(rv, "", func() {})
	return w.out
}

func stateNumTimestamps(s reflect.Value) int {
	h := s.FieldByName("Index").FieldByName("Height").Uint() + 1
	if h < 11 {
		return int(h)
	}
	return 11
}

// ntRule returns the not-transmitted rule covering the current position.
func (w *walker) ntRule(kind string) string {
	switch kind {
	case "+1ns":
		return "time.Time sub-second"
	case "@zone":
		return "time.Time location"
	}
	st := w.stack
	for k, f := range st {
		switch {
		case f.typ == v1BlockT && f.field == "V2":
			return "V1Block.V2"
		case f.typ == outlineTxnT && f.field == "Hash":
			ot := f.val.Addr().Interface().(*gateway.OutlineTransaction)
			if ot.Transaction != nil || ot.V2Transaction != nil {
				return "OutlineTransaction.Hash(present)"
			}
		case f.typ == outlineTxnT && f.field == "V2Transaction":
			ot := f.val.Addr().Interface().(*gateway.OutlineTransaction)
			if ot.Transaction != nil {
				return "OutlineTransaction.V2(shadowed)"
			}
		case f.typ == stateT && f.field == "Network":
			return "State.Network"
		case f.typ == stateT && f.field == "PrevTimestamps":
			if k+1 < len(st) && st[k+1].index >= stateNumTimestamps(f.val) {
				return "State.PrevTimestamps[i>=n]"
			}
		case f.typ == accT && f.field == "Trees":
			if k+1 < len(st) {
				n := f.val.FieldByName("NumLeaves").Uint()
				if n&(1<<uint(st[k+1].index)) == 0 {
					return "ElementAccumulator.Trees[unused]"
				}
			}
		case f.typ == stateElemT && f.field == "shared":
			return "StateElement.shared"
		case f.typ == fcrT && f.field == "FileContract":
			if k+1 < len(st) && st[k+1].typ == fcT && st[k+1].field == "Payout" {
				return "FileContractRevision.Payout"
			}
		case f.typ == noVersionT:
			if k+1 < len(st) && st[k+1].field == "Version" {
				return "InstrReadRegistryNoVersion.Version"
			}
		case f.typ == noTypeT:
			if k+1 < len(st) && st[k+1].field == "EntryType" {
				return "InstrUpdateRegistryNoType.EntryType"
			}
		case (f.typ == rpcResp2T || f.typ == rpcResp3T) && f.field == "data":
			if !f.val.FieldByName("err").IsNil() {
				return "rpcResponse.data(error)"
			}
		}
	}
	return ""
}

// inParent reports whether the current position is inside the parent element
// (or proof index element) of a v2 transaction input.
func (w *walker) inParent() bool {
	for _, f := range w.stack {
		if f.field == "Parent" || f.field == "ProofIndex" {
			return true
		}
	}
	return false
}

func (w *walker) emit(path, kind string, commit func(), apply, undo func()) {
	m := Mutation{Path: path + kind, Field: path, NT: w.ntRule(kind)}
	if w.e.Multiproof && w.real && w.inParent() {
		// changing the content of a parent element changes its leaf hash, so the
		// sibling proofs reconstructed by the decoder legitimately differ
		m.NoRoundTrip = true
	}
	m.Apply = func() { apply(); commit() }
	m.Undo = func() { undo(); commit() }
	w.out = append(w.out, m)
}

func (w *walker) walk(v reflect.Value, path string, commit func()) {
	v = settable(v)
	t := v.Type()
	switch {
	case isTime(t):
		old := getTime(v)
		w.emit(path, "+1s", commit, func() { setTime(v, old.Add(time.Second)) }, func() { setTime(v, old) })
		w.emit(path, "^2^63s", commit, func() {
			setTime(v, time.Unix(int64(uint64(old.Unix())^(1<<63)), int64(old.Nanosecond())).In(old.Location()))
		}, func() { setTime(v, old) })
		w.emit(path, "+1ns", commit, func() {
			if old.Nanosecond() == 999_999_999 {
				setTime(v, old.Add(-time.Nanosecond))
			} else {
				setTime(v, old.Add(time.Nanosecond))
			}
		}, func() { setTime(v, old) })
		w.emit(path, "@zone", commit, func() { setTime(v, old.In(time.FixedZone("verif-0215", -(2*3600+900)))) }, func() { setTime(v, old) })
		return
	case isCurrency(t):
		lo, hi := v.Field(0), v.Field(1)
		ol, oh := lo.Uint(), hi.Uint()
		w.emit(path, ".Lo+1", commit, func() { lo.SetUint(ol + 1) }, func() { lo.SetUint(ol) })
		w.emit(path, ".Lo^2^63", commit, func() { lo.SetUint(ol ^ 1<<63) }, func() { lo.SetUint(ol) })
		w.emit(path, ".Hi+1", commit, func() { hi.SetUint(oh + 1) }, func() { hi.SetUint(oh) })
		w.emit(path, ".Hi^2^63", commit, func() { hi.SetUint(oh ^ 1<<63) }, func() { hi.SetUint(oh) })
		return
	case t == networkPtrT:
		old := v.Interface()
		w.emit(path, "=&Network{}", commit, func() {
			if v.IsNil() {
				v.Set(reflect.ValueOf(&consensus.Network{Name: "verif"}))
			} else {
				v.Set(reflect.Zero(t))
			}
		}, func() { v.Set(reflect.ValueOf(old)) })
		return
	}
	switch v.Kind() {
	case reflect.Bool:
		old := v.Bool()
		w.emit(path, "!", commit, func() { v.SetBool(!old) }, func() { v.SetBool(old) })
	case reflect.Uint8, reflect.Uint16, reflect.Uint32, reflect.Uint, reflect.Uint64:
		old := v.Uint()
		bits := uint(t.Bits())
		mask := uint64(math.MaxUint64) >> (64 - bits)
		w.emit(path, "+1", commit, func() { v.SetUint((old + 1) & mask) }, func() { v.SetUint(old) })
		w.emit(path, fmt.Sprintf("^2^%d", bits-1), commit, func() { v.SetUint(old ^ 1<<(bits-1)) }, func() { v.SetUint(old) })
		if bits == 64 {
			w.emit(path, "^2^32", commit, func() { v.SetUint(old ^ 1<<32) }, func() { v.SetUint(old) })
		}
	case reflect.Int64, reflect.Int:
		old := v.Int()
		w.emit(path, "+1", commit, func() { v.SetInt(old + 1) }, func() { v.SetInt(old) })
		w.emit(path, "^sign", commit, func() { v.SetInt(old ^ math.MinInt64) }, func() { v.SetInt(old) })
		w.emit(path, "^2^32", commit, func() { v.SetInt(old ^ 1<<32) }, func() { v.SetInt(old) })
	case reflect.String:
		old := v.String()
		w.emit(path, "+x", commit, func() { v.SetString(old + "x") }, func() { v.SetString(old) })
		if len(old) > 0 {
			w.emit(path, "[flip first]", commit, func() { v.SetString(string(rune(old[0]^1)) + old[1:]) }, func() { v.SetString(old) })
			w.emit(path, "[drop last]", commit, func() { v.SetString(old[:len(old)-1]) }, func() { v.SetString(old) })
		}
	case reflect.Array:
		if t.Elem().Kind() == reflect.Uint8 {
			n := v.Len()
			idx := []int{0, n - 1}
			if n > 2 {
				idx = []int{0, n / 2, n - 1}
			}
			if n == 1 {
				idx = []int{0}
			}
			for _, i := range idx {
				el := v.Index(i)
				old := el.Uint()
				w.emit(path, fmt.Sprintf("[byte %d]^1", i), commit, func() { el.SetUint(old ^ 1) }, func() { el.SetUint(old) })
				w.emit(path, fmt.Sprintf("[byte %d]^0x80", i), commit, func() { el.SetUint(old ^ 0x80) }, func() { el.SetUint(old) })
			}
			return
		}
		for i := 0; i < v.Len(); i++ {
			w.stack = append(w.stack, frame{typ: t, index: i, val: v})
			w.walk(v.Index(i), fmt.Sprintf("%s[%d]", path, i), commit)
			w.stack = w.stack[:len(w.stack)-1]
		}
	case reflect.Slice:
		old := reflect.ValueOf(v.Interface())
		n := v.Len()
		if t.Elem().Kind() == reflect.Uint8 {
			// byte strings are leaves
			if n > 0 {
				w.emit(path, "[flip first]", commit, func() {
					nv := reflect.MakeSlice(t, n, n)
					reflect.Copy(nv, old)
					nv.Index(0).SetUint(old.Index(0).Uint() ^ 1)
					v.Set(nv)
				}, func() { v.Set(old) })
				w.emit(path, "[flip last]", commit, func() {
					nv := reflect.MakeSlice(t, n, n)
					reflect.Copy(nv, old)
					nv.Index(n - 1).SetUint(old.Index(n-1).Uint() ^ 0x80)
					v.Set(nv)
				}, func() { v.Set(old) })
				w.emit(path, "[drop last]", commit, func() { v.Set(old.Slice(0, n-1)) }, func() { v.Set(old) })
			}
			w.emit(path, "[append 0x00]", commit, func() {
				nv := reflect.MakeSlice(t, n+1, n+1)
				reflect.Copy(nv, old)
				v.Set(nv)
			}, func() { v.Set(old) })
			return
		}
		for i := 0; i < n; i++ {
			w.stack = append(w.stack, frame{typ: t, index: i, val: v})
			w.walk(v.Index(i), fmt.Sprintf("%s[%d]", path, i), commit)
			w.stack = w.stack[:len(w.stack)-1]
		}
		if n > 0 {
			w.emit(path, "[drop last]", commit, func() { v.Set(old.Slice(0, n-1)) }, func() { v.Set(old) })
			if !(t.Elem() == policyT && n >= 255) {
				w.emit(path, "[dup last]", commit, func() {
					nv := reflect.MakeSlice(t, n+1, n+1)
					reflect.Copy(nv, old)
					e := reflect.New(t.Elem()).Elem()
					deepCopy(e, old.Index(n-1))
					nv.Index(n).Set(e)
					v.Set(nv)
				}, func() { v.Set(old) })
			}
		} else if z, ok := zeroElem(t.Elem()); ok {
			if w.e.Multiproof {
				// appended elements are ephemeral: an assigned leaf needs a genuine proof
				unassign(z)
			}
			w.emit(path, "[append zero]", commit, func() {
				nv := reflect.MakeSlice(t, 1, 1)
				nv.Index(0).Set(z)
				v.Set(nv)
			}, func() { v.Set(old) })
		}
	case reflect.Struct:
		if t == stateElemT && w.e.Multiproof {
			// leaf positions and proofs of multiproof forms are not mutated (see table)
			w.stack = append(w.stack, frame{typ: t, field: "shared", val: v})
			w.walk(v.FieldByName("shared"), path+".shared", commit)
			w.stack = w.stack[:len(w.stack)-1]
			return
		}
		for i := 0; i < v.NumField(); i++ {
			name := t.Field(i).Name
			w.stack = append(w.stack, frame{typ: t, field: name, val: v})
			w.walk(v.Field(i), path+"."+name, commit)
			w.stack = w.stack[:len(w.stack)-1]
		}
	case reflect.Pointer:
		old := reflect.ValueOf(v.Interface())
		if v.IsNil() {
			w.emit(path, "=new", commit, func() { v.Set(reflect.New(t.Elem())) }, func() { v.Set(old) })
			return
		}
		w.emit(path, "=nil", commit, func() { v.Set(reflect.Zero(t)) }, func() { v.Set(old) })
		w.walk(v.Elem(), path, commit)
	case reflect.Interface:
		if t == errorIT {
			old := v.Interface()
			if v.IsNil() {
				w.emit(path, "=err", commit, func() { v.Set(reflect.ValueOf(errors.New("x"))) }, func() { v.Set(reflect.Zero(t)) })
			} else {
				msg := old.(error).Error()
				w.emit(path, "+x", commit, func() { v.Set(reflect.ValueOf(errors.New(msg + "x"))) }, func() { v.Set(reflect.ValueOf(old)) })
				w.emit(path, "=nil", commit, func() { v.Set(reflect.Zero(t)) }, func() { v.Set(reflect.ValueOf(old)) })
			}
			return
		}
		if v.IsNil() {
			return
		}
		el := v.Elem()
		if el.Kind() == reflect.Pointer {
			// pointer variants (resolutions, instructions, protocol objects): mutate through the pointer
			if !el.IsNil() {
				w.walk(el.Elem(), path+"("+el.Type().Elem().Name()+")", commit)
			}
			return
		}
		// value variants (policy kinds): mutate a copy and store it back
		tmp := reflect.New(el.Type()).Elem()
		tmp.Set(reflect.ValueOf(ifaceOf(v)))
		w.walk(tmp, path+"("+el.Type().Name()+")", func() { v.Set(tmp); commit() })
	default:
		panic(fmt.Sprintf("codec: cannot walk %v at %s", t, path))
	}
}

// zeroElem returns the element appended to an empty slice by the
// "[append zero]" mutation; sum types need a non-nil variant.
func zeroElem(t reflect.Type) (reflect.Value, bool) {
	z := reflect.New(t).Elem()
	switch {
	case t == policyT:
		z.Set(reflect.ValueOf(types.PolicyAbove(0)))
	case t == reflect.TypeOf(types.V2FileContractResolution{}):
		z.FieldByName("Resolution").Set(reflect.ValueOf(new(types.V2FileContractExpiration)))
	case t == instructionIT:
		z.Set(reflect.ValueOf(new(rhp3.InstrRevision)))
	case t.Kind() == reflect.Interface:
		return z, false
	default:
		// composite zero values containing sum types
		if !zeroEncodable(t) {
			fixZero(z)
		}
	}
	return z, true
}

// unassign gives every StateElement inside v the unassigned leaf index.
func unassign(v reflect.Value) {
	v = settable(v)
	if v.Type() == stateElemT {
		v.FieldByName("LeafIndex").SetUint(types.UnassignedLeafIndex)
		return
	}
	switch v.Kind() {
	case reflect.Struct:
		if isTime(v.Type()) {
			return
		}
		for i := 0; i < v.NumField(); i++ {
			unassign(v.Field(i))
		}
	case reflect.Pointer:
		if !v.IsNil() {
			unassign(v.Elem())
		}
	}
}

func zeroEncodable(t reflect.Type) bool {
	switch t.Kind() {
	case reflect.Struct:
		if t == policyT {
			return false
		}
		for i := 0; i < t.NumField(); i++ {
			if !zeroEncodable(t.Field(i).Type) {
				return false
			}
		}
	case reflect.Array:
		return zeroEncodable(t.Elem())
	case reflect.Interface:
		return t == errorIT
	}
	return true
}

// fixZero replaces nil sum-type members of a zero value by their simplest
// variant so that the encoder accepts it.
func fixZero(v reflect.Value) {
	v = settable(v)
	t := v.Type()
	switch {
	case t == policyT:
		v.Set(reflect.ValueOf(types.PolicyAbove(0)))
		return
	case t == resolutionIT:
		v.Set(reflect.ValueOf(new(types.V2FileContractExpiration)))
		return
	case t == instructionIT:
		v.Set(reflect.ValueOf(new(rhp3.InstrRevision)))
		return
	}
	switch v.Kind() {
	case reflect.Struct:
		if isTime(t) {
			return
		}
		for i := 0; i < v.NumField(); i++ {
			fixZero(v.Field(i))
		}
	case reflect.Array:
		if t.Elem().Kind() != reflect.Uint8 {
			for i := 0; i < v.Len(); i++ {
				fixZero(v.Index(i))
			}
		}
	}
}

// Canon returns the value that decoding the encoding of v is expected to
// produce: a deep copy of v with exactly the documented type-specific
// normalisations applied (see NotTransmitted). The two type-independent
// normalisations (nil vs empty slice, time to seconds/UTC) are part of Equal.
func (e *Entry) Canon(v any) any {
	c := DeepCopy(v)
	rv := reflect.ValueOf(c).Elem()
	if rv.Kind() == reflect.Struct && e.Only != nil {
		keep := map[string]bool{}
		for _, n := range e.Only {
			keep[n] = true
		}
		for i := 0; i < rv.NumField(); i++ {
			if !keep[rv.Type().Field(i).Name] {
				f := settable(rv.Field(i))
				f.Set(reflect.Zero(f.Type()))
			}
		}
	}
	canon(rv)
	return c
}

func canon(v reflect.Value) {
	v = settable(v)
	t := v.Type()
	if isTime(t) || isCurrency(t) || t == networkPtrT {
		return
	}
	switch v.Kind() {
	case reflect.Pointer, reflect.Interface:
		if v.IsNil() || t == errorIT {
			return
		}
		el := v.Elem()
		if el.Kind() == reflect.Pointer {
			if !el.IsNil() {
				canon(el.Elem())
			}
			return
		}
		if v.Kind() == reflect.Pointer {
			canon(el)
			return
		}
		tmp := reflect.New(el.Type()).Elem()
		tmp.Set(reflect.ValueOf(ifaceOf(v)))
		canon(tmp)
		v.Set(tmp)
	case reflect.Slice:
		if t.Elem().Kind() == reflect.Uint8 {
			return
		}
		for i := 0; i < v.Len(); i++ {
			canon(v.Index(i))
		}
	case reflect.Array:
		if t.Elem().Kind() == reflect.Uint8 {
			return
		}
		for i := 0; i < v.Len(); i++ {
			canon(v.Index(i))
		}
	case reflect.Struct:
		switch t {
		case fcrT:
			rev := v.Addr().Interface().(*types.FileContractRevision)
			rev.FileContract.Payout = types.NewCurrency(math.MaxUint64, math.MaxUint64)
		case stateT:
			s := v.Addr().Interface().(*consensus.State)
			s.Network = nil
			for i := stateNumTimestamps(v); i < len(s.PrevTimestamps); i++ {
				s.PrevTimestamps[i] = time.Time{}
			}
		case accT:
			acc := v.Addr().Interface().(*consensus.ElementAccumulator)
			for k := range acc.Trees {
				if acc.NumLeaves&(1<<uint(k)) == 0 {
					acc.Trees[k] = types.Hash256{}
				}
			}
		case stateElemT:
			settable(v.FieldByName("shared")).SetBool(false)
		case v1BlockT:
			b := v.Addr().Interface().(*types.V1Block)
			b.V2 = nil
		case outlineTxnT:
			ot := v.Addr().Interface().(*gateway.OutlineTransaction)
			if ot.Transaction != nil {
				ot.V2Transaction = nil
			}
		case noVersionT:
			v.Addr().Interface().(*rhp3.InstrReadRegistryNoVersion).Version = 1
		case noTypeT:
			v.Addr().Interface().(*rhp3.InstrUpdateRegistryNoType).EntryType = rhp3.EntryTypeArbitrary
		case rpcResp2T, rpcResp3T:
			if !v.FieldByName("err").IsNil() {
				d := settable(v.FieldByName("data"))
				if !d.IsNil() {
					d.Set(reflect.New(d.Elem().Type().Elem()))
				}
			}
		}
		for i := 0; i < v.NumField(); i++ {
			canon(v.Field(i))
		}
		if t == outlineTxnT {
			// the decoder recomputes the hash of present transactions; the
			// (canonicalised) transaction is hashed with the repository's own
			// MerkleLeafHash, which is outside the codec under test
			ot := v.Addr().Interface().(*gateway.OutlineTransaction)
			if ot.Transaction != nil {
				ot.Hash = ot.Transaction.MerkleLeafHash()
			} else if ot.V2Transaction != nil {
				ot.Hash = ot.V2Transaction.MerkleLeafHash()
			}
		}
	}
}

// FindMutation returns the mutation with the given path (for replay).
func FindMutation(ms []Mutation, path string) *Mutation {
	for i := range ms {
		if ms[i].Path == path {
			return &ms[i]
		}
	}
	return nil
}

// BaseByLabel returns the base with the given label (for replay).
func (e *Entry) BaseByLabel(label string) (Base, bool) {
	for _, b := range e.Bases() {
		if b.Label == label {
			return b, true
		}
	}
	return Base{}, false
}

// ShortPath trims a mutation path for use in violation signatures: indices are
// replaced by [] so that the signature names the field, not the position.
func ShortPath(p string) string {
	var sb strings.Builder
	in := false
	for _, r := range p {
		switch {
		case r == '[':
			in = true
			sb.WriteRune(r)
		case r == ']':
			in = false
			sb.WriteRune(r)
		case in && r >= '0' && r <= '9':
		default:
			sb.WriteRune(r)
		}
	}
	return sb.String()
}
