package codec

import (
	"fmt"
	"sort"
	"sync"

	"go.sia.tech/core/consensus"
	"go.sia.tech/core/types"
	"verifmc/chain"
)

// ChainValues are wire objects taken from reachable states of real chains
// (E1 engine): their Merkle proofs are genuine, which the multiproof forms
// need.
type ChainValues struct {
	V1Txns   []types.Transaction
	V1Names  []string
	V2Txns   []types.V2Transaction
	V2Names  []string
	Blocks   []types.Block     // every applied block (v1 and v2)
	V2Blocks []types.Block     // blocks carrying v2 data
	V2States []consensus.State // state after the corresponding V2Blocks entry
	States   []consensus.State
	Supps    []consensus.V1BlockSupplement
	Applies  []consensus.ApplyUpdate
	Reverts  []consensus.RevertUpdate
	Log      []string
}

var (
	cvOnce sync.Once
	cv     *ChainValues
	cvErr  error
)

func chainVals() *ChainValues {
	cvOnce.Do(func() {
		defer func() {
			if r := recover(); r != nil {
				cvErr = fmt.Errorf("building chain values panicked: %v", r)
				cv = &ChainValues{}
			}
		}()
		cv = buildChainValues()
	})
	return cv
}

// ChainVals returns the chain-derived corpus and the error (if any) met while
// building it.
func ChainVals() (*ChainValues, error) {
	v := chainVals()
	return v, cvErr
}

func (c *ChainValues) record(w *chain.World, b types.Block, bs consensus.V1BlockSupplement, names []string) {
	c.Blocks = append(c.Blocks, b)
	c.Supps = append(c.Supps, bs)
	c.States = append(c.States, w.CS)
	if a := w.Hist[len(w.Hist)-1]; len(c.Applies) < 8 && (len(b.Transactions) > 0 || len(b.V2Transactions()) > 0) {
		c.Applies = append(c.Applies, a.AU)
		c.Reverts = append(c.Reverts, consensus.RevertBlock(a.PrevCS, b, bs))
	}
	if b.V2 != nil {
		c.V2Blocks = append(c.V2Blocks, b)
		c.V2States = append(c.V2States, w.CS)
	}
	name := func(i int) string {
		if i < len(names) {
			return names[i]
		}
		return "txn"
	}
	for i, t := range b.Transactions {
		if len(c.V1Txns) < 24 {
			c.V1Txns = append(c.V1Txns, t)
			c.V1Names = append(c.V1Names, fmt.Sprintf("%s h=%d #%d %s", w.Spec.Name, w.Height(), i, name(i)))
		}
	}
	for i, t := range b.V2Transactions() {
		if len(c.V2Txns) < 40 {
			c.V2Txns = append(c.V2Txns, t)
			c.V2Names = append(c.V2Names, fmt.Sprintf("%s h=%d #%d", w.Spec.Name, w.Height(), i))
		}
	}
}

// greedy advances the world by n blocks; every block takes as many honest
// actions of the union alphabet as apply (falling back to single actions and
// finally to the empty block if the combined block is rejected).
func (c *ChainValues) greedy(w *chain.World, n int) *chain.World {
	for i := 0; i < n; i++ {
		try := func(pick func(k int) bool) (*chain.World, bool) {
			nw := w.Clone()
			bc := nw.NewBlockCtx()
			var names []string
			for k, a := range chain.AlphaUnion(nw) {
				if pick(k) && a.Do(bc) {
					names = append(names, a.Name)
				}
			}
			b, bs := nw.BuildBlock(bc.V1, bc.V2, chain.BlockOpts{})
			err, p := nw.Apply(b, bs)
			if err != nil || p != nil {
				c.Log = append(c.Log, fmt.Sprintf("%s h=%d block %v not applied: %v %v", w.Spec.Name, nw.ChildHeight(), names, err, p))
				return nil, false
			}
			c.record(nw, b, bs, bc.Names)
			return nw, true
		}
		nw, ok := try(func(int) bool { return true })
		for k := 0; !ok && k < 32; k++ {
			kk := k
			nw, ok = try(func(j int) bool { return j == kk })
		}
		if !ok {
			nw, ok = try(func(int) bool { return false })
		}
		if !ok {
			panic("cannot extend chain " + w.Spec.Name)
		}
		w = nw
	}
	return w
}

func buildChainValues() *ChainValues {
	c := &ChainValues{}
	keys := chain.NewKeys(Seed)
	opt := chain.Options{HasAtt: true}
	for _, net := range []struct {
		name string
		n    int
	}{{"mixed", 12}, {"v2-only", 7}} {
		w, p := chain.NewWorld(chain.Spec(net.name), keys, chain.DefaultAlloc(keys), opt)
		if p != nil {
			panic(p.Error())
		}
		c.record(w, w.Hist[0].B, w.Hist[0].BS, nil)
		c.greedy(w, net.n)
	}
	// accumulator network: anyone-can-spend outputs, several leaves of the same
	// and of different trees spent by one block (shared multiproof nodes)
	{
		var alloc chain.GenesisAlloc
		for i := 0; i < 11; i++ {
			alloc.SC = append(alloc.SC, types.SiacoinOutput{Value: types.Siacoins(uint32(100 + i)), Address: keys.Addr(chain.AddrACS)})
		}
		w, p := chain.NewWorld(chain.Spec("acc"), keys, alloc, opt)
		if p != nil {
			panic(p.Error())
		}
		spend := func(groups [][]int, outs int) {
			var live []types.SiacoinElement
			for _, e := range w.Store.SC {
				live = append(live, e)
			}
			sort.Slice(live, func(i, j int) bool { return live[i].StateElement.LeafIndex < live[j].StateElement.LeafIndex })
			var txns []types.V2Transaction
			for _, g := range groups {
				var txn types.V2Transaction
				var sum types.Currency
				for _, i := range g {
					if i >= len(live) {
						continue
					}
					txn.SiacoinInputs = append(txn.SiacoinInputs, types.V2SiacoinInput{Parent: live[i].Copy(), SatisfiedPolicy: types.SatisfiedPolicy{Policy: types.AnyoneCanSpend()}})
					sum = sum.Add(live[i].SiacoinOutput.Value)
				}
				if len(txn.SiacoinInputs) == 0 {
					continue
				}
				per := sum.Div64(uint64(outs + 1))
				for k := 0; k < outs; k++ {
					txn.SiacoinOutputs = append(txn.SiacoinOutputs, types.SiacoinOutput{Value: per, Address: keys.Addr(chain.AddrACS)})
				}
				txn.MinerFee = sum.Sub(per.Mul64(uint64(outs)))
				txns = append(txns, txn)
			}
			b, bs := w.BuildBlock(nil, txns, chain.BlockOpts{})
			if err, p := w.Apply(b, bs); err != nil || p != nil {
				panic(fmt.Sprintf("accumulator block rejected: %v %v", err, p))
			}
			c.record(w, b, bs, nil)
		}
		spend([][]int{{0, 1, 4}, {6}}, 2)
		spend([][]int{{0, 2, 3, 7}, {9, 10}}, 1)
		spend([][]int{{1}, {5, 6}}, 3)
	}
	return c
}
