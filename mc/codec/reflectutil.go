package codec

import (
	"fmt"
	"reflect"
	"time"
	"unsafe"

	"go.sia.tech/core/consensus"
	"go.sia.tech/core/gateway"
	rhp2 "go.sia.tech/core/rhp/v2"
	rhp3 "go.sia.tech/core/rhp/v3"
	"go.sia.tech/core/types"
)

var (
	timeT         = reflect.TypeOf(time.Time{})
	policyAfterT  = reflect.TypeOf(types.PolicyTypeAfter{})
	currencyT     = reflect.TypeOf(types.Currency{})
	v1CurrencyT   = reflect.TypeOf(types.V1Currency{})
	v2CurrencyT   = reflect.TypeOf(types.V2Currency{})
	policyT       = reflect.TypeOf(types.SpendPolicy{})
	stateElemT    = reflect.TypeOf(types.StateElement{})
	stateT        = reflect.TypeOf(consensus.State{})
	networkPtrT   = reflect.TypeOf((*consensus.Network)(nil))
	accT          = reflect.TypeOf(consensus.ElementAccumulator{})
	workT         = reflect.TypeOf(consensus.Work{})
	fcrT          = reflect.TypeOf(types.FileContractRevision{})
	fcT           = reflect.TypeOf(types.FileContract{})
	v1BlockT      = reflect.TypeOf(types.V1Block{})
	outlineTxnT   = reflect.TypeOf(gateway.OutlineTransaction{})
	noVersionT    = reflect.TypeOf(rhp3.InstrReadRegistryNoVersion{})
	noTypeT       = reflect.TypeOf(rhp3.InstrUpdateRegistryNoType{})
	rpcResp2T     = reflect.TypeOf(rhp2.VerifRPCResponse{})
	rpcResp3T     = reflect.TypeOf(rhp3.VerifRPCResponse{})
	resolutionIT  = reflect.TypeOf((*types.V2FileContractResolutionType)(nil)).Elem()
	instructionIT = reflect.TypeOf((*rhp3.Instruction)(nil)).Elem()
	errorIT       = reflect.TypeOf((*error)(nil)).Elem()
	proto2IT      = reflect.TypeOf((*rhp2.ProtocolObject)(nil)).Elem()
	proto3IT      = reflect.TypeOf((*rhp3.ProtocolObject)(nil)).Elem()
	v2TxnT        = reflect.TypeOf(types.V2Transaction{})
)

func isTime(t reflect.Type) bool     { return t == timeT || t == policyAfterT }
func isCurrency(t reflect.Type) bool { return t == currencyT || t == v1CurrencyT || t == v2CurrencyT }

// settable returns a settable view of v even if it was reached through an
// unexported field (v must be addressable).
func settable(v reflect.Value) reflect.Value {
	if v.CanSet() {
		return v
	}
	if !v.CanAddr() {
		panic(fmt.Sprintf("codec: value of type %v is not addressable", v.Type()))
	}
	return reflect.NewAt(v.Type(), unsafe.Pointer(v.UnsafeAddr())).Elem()
}

func getTime(v reflect.Value) time.Time {
	return settable(v).Convert(timeT).Interface().(time.Time)
}

func setTime(v reflect.Value, t time.Time) {
	settable(v).Set(reflect.ValueOf(t).Convert(v.Type()))
}

// DeepCopy returns a deep copy of the value pointed to by ptr (a pointer, as
// returned by Entry.New). time.Time values and *consensus.Network pointers are
// copied shallowly.
func DeepCopy(ptr any) any {
	src := reflect.ValueOf(ptr)
	dst := reflect.New(src.Type().Elem())
	deepCopy(dst.Elem(), src.Elem())
	return dst.Interface()
}

func deepCopy(dst, src reflect.Value) {
	dst = settable(dst)
	t := src.Type()
	if isTime(t) || t == networkPtrT {
		if src.CanInterface() {
			dst.Set(src)
		} else {
			dst.Set(settable(addressable(src)))
		}
		return
	}
	switch src.Kind() {
	case reflect.Pointer:
		if src.IsNil() {
			dst.Set(reflect.Zero(t))
			return
		}
		n := reflect.New(t.Elem())
		deepCopy(n.Elem(), src.Elem())
		dst.Set(n)
	case reflect.Interface:
		if src.IsNil() {
			dst.Set(reflect.Zero(t))
			return
		}
		e := src.Elem()
		n := reflect.New(e.Type()).Elem()
		deepCopy(n, e)
		dst.Set(n)
	case reflect.Slice:
		if src.IsNil() {
			dst.Set(reflect.Zero(t))
			return
		}
		n := reflect.MakeSlice(t, src.Len(), src.Len())
		for i := 0; i < src.Len(); i++ {
			deepCopy(n.Index(i), src.Index(i))
		}
		dst.Set(n)
	case reflect.Array:
		for i := 0; i < src.Len(); i++ {
			deepCopy(dst.Index(i), src.Index(i))
		}
	case reflect.Struct:
		for i := 0; i < src.NumField(); i++ {
			deepCopy(dst.Field(i), src.Field(i))
		}
	default:
		if src.CanInterface() {
			dst.Set(src)
		} else {
			// unexported scalar: read through kind-specific accessors
			switch src.Kind() {
			case reflect.Bool:
				dst.SetBool(src.Bool())
			case reflect.Int, reflect.Int8, reflect.Int16, reflect.Int32, reflect.Int64:
				dst.SetInt(src.Int())
			case reflect.Uint, reflect.Uint8, reflect.Uint16, reflect.Uint32, reflect.Uint64:
				dst.SetUint(src.Uint())
			case reflect.String:
				dst.SetString(src.String())
			default:
				panic(fmt.Sprintf("codec: cannot copy unexported %v", src.Type()))
			}
		}
	}
}

// addressable returns an addressable copy holder for a non-interfaceable value
// (only used for time values reached through unexported fields, which do not
// occur in the inventory; kept for completeness).
func addressable(v reflect.Value) reflect.Value {
	if v.CanAddr() {
		return v
	}
	n := reflect.New(v.Type()).Elem()
	return n
}

// Equal compares two values of the same type structurally with the two
// type-independent documented normalisations: nil and empty slices are equal,
// and time.Time values are equal if their Unix seconds are equal (sub-second
// part and location are not transmitted). Errors compare by message. It
// returns the path of the first difference ("" if equal).
func Equal(a, b any) string {
	va, vb := reflect.ValueOf(a), reflect.ValueOf(b)
	if same(va, vb) {
		return ""
	}
	d := equal(va, vb, "")
	if d == "" {
		panic("codec.Equal: fast and slow comparison disagree")
	}
	return d
}

// same is the fast path of Equal (same rules, no diff path).
func same(a, b reflect.Value) bool {
	if a.Type() != b.Type() {
		return false
	}
	t := a.Type()
	if isTime(t) {
		return getTimeRO(a).Unix() == getTimeRO(b).Unix()
	}
	if t == networkPtrT {
		return a.Pointer() == b.Pointer()
	}
	switch a.Kind() {
	case reflect.Pointer:
		if a.IsNil() || b.IsNil() {
			return a.IsNil() == b.IsNil()
		}
		return same(a.Elem(), b.Elem())
	case reflect.Interface:
		if a.IsNil() || b.IsNil() {
			return a.IsNil() == b.IsNil()
		}
		if t == errorIT {
			return ifaceOf(a).(error).Error() == ifaceOf(b).(error).Error()
		}
		return same(a.Elem(), b.Elem())
	case reflect.Slice:
		if a.Len() != b.Len() {
			return false
		}
		if t.Elem().Kind() == reflect.Uint8 {
			return string(a.Bytes()) == string(b.Bytes())
		}
		for i := 0; i < a.Len(); i++ {
			if !same(a.Index(i), b.Index(i)) {
				return false
			}
		}
		return true
	case reflect.Array:
		if t.Elem().Kind() == reflect.Uint8 && a.CanAddr() && b.CanAddr() {
			return string(a.Bytes()) == string(b.Bytes())
		}
		for i := 0; i < a.Len(); i++ {
			if !same(a.Index(i), b.Index(i)) {
				return false
			}
		}
		return true
	case reflect.Struct:
		for i := 0; i < a.NumField(); i++ {
			if !same(a.Field(i), b.Field(i)) {
				return false
			}
		}
		return true
	case reflect.Bool:
		return a.Bool() == b.Bool()
	case reflect.Int, reflect.Int8, reflect.Int16, reflect.Int32, reflect.Int64:
		return a.Int() == b.Int()
	case reflect.Uint, reflect.Uint8, reflect.Uint16, reflect.Uint32, reflect.Uint64:
		return a.Uint() == b.Uint()
	case reflect.String:
		return a.String() == b.String()
	}
	panic("codec.Equal: unsupported kind " + a.Kind().String())
}

func equal(a, b reflect.Value, path string) string {
	if a.Type() != b.Type() {
		return path + ": type " + a.Type().String() + " vs " + b.Type().String()
	}
	t := a.Type()
	if isTime(t) {
		ta, tb := getTimeRO(a), getTimeRO(b)
		if ta.Unix() != tb.Unix() {
			return fmt.Sprintf("%s: time %d vs %d", path, ta.Unix(), tb.Unix())
		}
		return ""
	}
	if t == networkPtrT {
		if a.Pointer() != b.Pointer() {
			return path + ": network pointer differs"
		}
		return ""
	}
	switch a.Kind() {
	case reflect.Pointer:
		if a.IsNil() != b.IsNil() {
			return fmt.Sprintf("%s: nil=%v vs nil=%v", path, a.IsNil(), b.IsNil())
		}
		if a.IsNil() {
			return ""
		}
		return equal(a.Elem(), b.Elem(), path)
	case reflect.Interface:
		if a.IsNil() != b.IsNil() {
			return fmt.Sprintf("%s: nil=%v vs nil=%v", path, a.IsNil(), b.IsNil())
		}
		if a.IsNil() {
			return ""
		}
		if t == errorIT {
			ea, eb := ifaceOf(a).(error), ifaceOf(b).(error)
			if ea.Error() != eb.Error() {
				return fmt.Sprintf("%s: error %q vs %q", path, ea.Error(), eb.Error())
			}
			return ""
		}
		return equal(a.Elem(), b.Elem(), path)
	case reflect.Slice:
		if a.Len() != b.Len() {
			return fmt.Sprintf("%s: len %d vs %d", path, a.Len(), b.Len())
		}
		for i := 0; i < a.Len(); i++ {
			if d := equal(a.Index(i), b.Index(i), fmt.Sprintf("%s[%d]", path, i)); d != "" {
				return d
			}
		}
		return ""
	case reflect.Array:
		for i := 0; i < a.Len(); i++ {
			if d := equal(a.Index(i), b.Index(i), fmt.Sprintf("%s[%d]", path, i)); d != "" {
				return d
			}
		}
		return ""
	case reflect.Struct:
		for i := 0; i < a.NumField(); i++ {
			if d := equal(a.Field(i), b.Field(i), path+"."+t.Field(i).Name); d != "" {
				return d
			}
		}
		return ""
	case reflect.Bool:
		if a.Bool() != b.Bool() {
			return fmt.Sprintf("%s: %v vs %v", path, a.Bool(), b.Bool())
		}
	case reflect.Int, reflect.Int8, reflect.Int16, reflect.Int32, reflect.Int64:
		if a.Int() != b.Int() {
			return fmt.Sprintf("%s: %d vs %d", path, a.Int(), b.Int())
		}
	case reflect.Uint, reflect.Uint8, reflect.Uint16, reflect.Uint32, reflect.Uint64:
		if a.Uint() != b.Uint() {
			return fmt.Sprintf("%s: %d vs %d", path, a.Uint(), b.Uint())
		}
	case reflect.String:
		if a.String() != b.String() {
			return fmt.Sprintf("%s: %q vs %q", path, a.String(), b.String())
		}
	default:
		panic("codec.Equal: unsupported kind " + a.Kind().String())
	}
	return ""
}

func getTimeRO(v reflect.Value) time.Time {
	if v.CanInterface() {
		return v.Convert(timeT).Interface().(time.Time)
	}
	return getTime(v)
}

func ifaceOf(v reflect.Value) any {
	if v.CanInterface() {
		return v.Interface()
	}
	return settable(v).Interface()
}

// AssignedLeaves counts the state elements inside the value pointed to by ptr
// that carry an assigned leaf index (i.e. take part in multiproofs).
func AssignedLeaves(ptr any) int {
	n := 0
	var walk func(v reflect.Value)
	walk = func(v reflect.Value) {
		t := v.Type()
		if t == stateElemT {
			if v.FieldByName("LeafIndex").Uint() != types.UnassignedLeafIndex {
				n++
			}
			return
		}
		if isTime(t) || t == networkPtrT {
			return
		}
		switch v.Kind() {
		case reflect.Pointer, reflect.Interface:
			if !v.IsNil() {
				walk(v.Elem())
			}
		case reflect.Slice, reflect.Array:
			if t.Elem().Kind() == reflect.Uint8 {
				return
			}
			for i := 0; i < v.Len(); i++ {
				walk(v.Index(i))
			}
		case reflect.Struct:
			for i := 0; i < v.NumField(); i++ {
				walk(v.Field(i))
			}
		}
	}
	walk(reflect.ValueOf(ptr).Elem())
	return n
}
