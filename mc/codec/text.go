package codec

import (
	"encoding/json"
	"fmt"
	"reflect"
	"sort"

	"go.sia.tech/core/consensus"
	rhp2 "go.sia.tech/core/rhp/v2"
	rhp3 "go.sia.tech/core/rhp/v3"
	rhp4 "go.sia.tech/core/rhp/v4"
	"go.sia.tech/core/types"
	"verifmc/chain"
)

// A TextEntry is one text / JSON entry point (UnmarshalText, UnmarshalJSON,
// Parse*) with valid sample texts.
type TextEntry struct {
	Name  string
	Parse func(b []byte) error
	Texts func() []string
}

var textEntries []*TextEntry

// TextEntries returns the text entry points sorted by name.
func TextEntries() []*TextEntry {
	out := append([]*TextEntry(nil), textEntries...)
	sort.Slice(out, func(i, j int) bool { return out[i].Name < out[j].Name })
	return out
}

// LookupText finds a text entry by name.
func LookupText(name string) *TextEntry {
	for _, t := range textEntries {
		if t.Name == name {
			return t
		}
	}
	return nil
}

type textUnmarshaler interface{ UnmarshalText([]byte) error }
type textMarshaler interface{ MarshalText() ([]byte, error) }
type jsonUnmarshaler interface{ UnmarshalJSON([]byte) error }

// textValues returns a few values of T (typical, max, zero profile).
func textValues[T any]() []*T {
	var out []*T
	for _, p := range []Profile{PTypical, PMax, PZero} {
		v := new(T)
		f := &filler{p: p}
		f.fill(reflect.ValueOf(v).Elem(), 1)
		out = append(out, v)
	}
	return out
}

func dedupe(ss []string) []string {
	seen := map[string]bool{}
	var out []string
	for _, s := range ss {
		if !seen[s] {
			seen[s] = true
			out = append(out, s)
		}
	}
	return out
}

// utext registers T.UnmarshalText with the MarshalText forms of sample values.
func utext[T any, P interface {
	*T
	textUnmarshaler
}](name string, extra ...string) {
	textEntries = append(textEntries, &TextEntry{Name: name + ".UnmarshalText",
		Parse: func(b []byte) error { return P(new(T)).UnmarshalText(b) },
		Texts: func() []string {
			var ts []string
			for _, v := range textValues[T]() {
				if m, ok := any(*v).(textMarshaler); ok {
					if b, err := m.MarshalText(); err == nil {
						ts = append(ts, string(b))
					}
				}
			}
			return dedupe(append(ts, extra...))
		}})
}

// ujson registers json.Unmarshal into *T (custom UnmarshalJSON methods of T
// and of everything nested in it) with the json.Marshal forms of the values.
func ujson[T any](name string, vals func() []*T, extra ...string) {
	textEntries = append(textEntries, &TextEntry{Name: name + " (json.Unmarshal)",
		Parse: func(b []byte) error { return json.Unmarshal(b, new(T)) },
		Texts: func() []string {
			var ts []string
			for _, v := range vals() {
				if b, err := safeMarshal(v); err == nil {
					ts = append(ts, string(b))
				}
			}
			return dedupe(append(ts, extra...))
		}})
}

func safeMarshal(v any) (b []byte, err error) {
	defer func() {
		if r := recover(); r != nil {
			err = fmt.Errorf("marshal panicked: %v", r)
		}
	}()
	return json.Marshal(v)
}

func pfunc(name string, parse func(s string) error, texts func() []string) {
	textEntries = append(textEntries, &TextEntry{Name: name, Parse: func(b []byte) error { return parse(string(b)) }, Texts: texts})
}

func textsOf[T any, P interface {
	*T
	textMarshaler
}]() func() []string {
	return func() []string {
		var ts []string
		for _, v := range textValues[T]() {
			if b, err := P(v).MarshalText(); err == nil {
				ts = append(ts, string(b))
			}
		}
		return dedupe(ts)
	}
}

func chainTake[T any](all []T, n int) []*T {
	var out []*T
	for i := range all {
		if len(out) < n {
			v := all[i]
			out = append(out, &v)
		}
	}
	return out
}

func init() {
	utext[types.Hash256]("types.Hash256")
	utext[types.BlockID]("types.BlockID")
	utext[types.TransactionID]("types.TransactionID")
	utext[types.FileContractID]("types.FileContractID")
	utext[types.SiacoinOutputID]("types.SiacoinOutputID")
	utext[types.SiafundOutputID]("types.SiafundOutputID")
	utext[types.AttestationID]("types.AttestationID")
	utext[types.Signature]("types.Signature")
	utext[types.PublicKey]("types.PublicKey")
	utext[types.Address]("types.Address")
	utext[types.Specifier]("types.Specifier", `"a b"`, "ed25519")
	utext[types.UnlockKey]("types.UnlockKey")
	utext[types.ChainIndex]("types.ChainIndex")
	utext[types.Currency]("types.Currency", "1 SC", "1.5 KS", "123 H", "0.000001 pS")
	utext[consensus.Work]("consensus.Work")
	utext[rhp3.Account]("rhp/v3.Account")
	utext[rhp4.Account]("rhp/v4.Account")
	utext[rhp4.ProtocolVersion]("rhp/v4.ProtocolVersion")

	pfunc("types.ParseChainIndex", func(s string) error { _, err := types.ParseChainIndex(s); return err }, textsOf[types.ChainIndex]())
	pfunc("types.ParseAddress", func(s string) error { _, err := types.ParseAddress(s); return err }, textsOf[types.Address]())
	pfunc("types.ParseCurrency", func(s string) error { _, err := types.ParseCurrency(s); return err }, func() []string {
		return append(textsOf[types.Currency]()(), "1 SC", "1.5 KS", "123 H", "0.000001 pS", "340282366920938463463.374607431768211455 TS")
	})
	policyTexts := func() []string {
		_, ps := PolicyVariantList()
		var ts []string
		for i, p := range ps {
			if i < 30 && i%2 == 0 || i >= len(ps)-3 {
				ts = append(ts, p.String())
			}
		}
		return dedupe(ts)
	}
	pfunc("types.ParseSpendPolicy", func(s string) error { _, err := types.ParseSpendPolicy(s); return err }, policyTexts)
	pfunc("rhp/v3.SettingsID.LoadString", func(s string) error { return new(rhp3.SettingsID).LoadString(s) }, func() []string {
		return []string{textValues[rhp3.SettingsID]()[0].String()}
	})

	ujson("types.ChainIndex", textValues[types.ChainIndex])
	ujson("types.SpendPolicy", func() []*types.SpendPolicy {
		_, ps := PolicyVariantList()
		var out []*types.SpendPolicy
		for i := range ps {
			if i < 28 && i%3 == 0 {
				out = append(out, &ps[i])
			}
		}
		return out
	})
	ujson("types.SatisfiedPolicy", textValues[types.SatisfiedPolicy])
	ujson("types.FileContractRevision", textValues[types.FileContractRevision])
	ujson("types.StorageProof", textValues[types.StorageProof])
	ujson("types.V2StorageProof", textValues[types.V2StorageProof])
	ujson("types.V2FileContractResolution", func() []*types.V2FileContractResolution {
		var out []*types.V2FileContractResolution
		for _, b := range resolutionVariants()[:3] {
			out = append(out, b.V.(*types.V2FileContractResolution))
		}
		return out
	})
	ujson("types.Transaction", func() []*types.Transaction { return chainTake(chainVals().V1Txns, 3) })
	ujson("types.V2Transaction", func() []*types.V2Transaction {
		v := textValues[types.V2Transaction]()[:1]
		return append(v, chainTake(chainVals().V2Txns, 2)...)
	})
	ujson("types.Block", func() []*types.Block {
		var out []*types.Block
		for _, b := range chainVals().V2Blocks {
			if len(b.V2.Transactions) > 1 && len(out) < 1 {
				b := b
				out = append(out, &b)
			}
		}
		return out
	})
	ujson("consensus.Work", textValues[consensus.Work])
	ujson("consensus.ElementAccumulator", func() []*consensus.ElementAccumulator {
		var out []*consensus.ElementAccumulator
		for _, b := range accumulatorVariants()[:6] {
			out = append(out, b.V.(*consensus.ElementAccumulator))
		}
		return out
	})
	ujson("consensus.State", func() []*consensus.State { return chainTake(chainVals().States, 2) })
	ujson("consensus.Network", func() []*consensus.Network {
		return []*consensus.Network{chain.Spec("mixed").Network(chain.NewKeys(Seed))}
	})
	ujson("consensus.V2FileContractElementDiff", textValues[consensus.V2FileContractElementDiff])
	// compact hand-written updates carry the integer-keyed maps (tree heights) that short chains leave empty
	ujson("consensus.ApplyUpdate", func() []*consensus.ApplyUpdate { return chainTake(chainVals().Applies, 2) },
		`{"siacoinElements":null,"chainIndexElement":{"id":"36bf12182ae15d914ee5cd194bdd375769c97f564b9bcf882826bf6a9587fc81","stateElement":{"leafIndex":2},"chainIndex":{"height":1,"id":"36bf12182ae15d914ee5cd194bdd375769c97f564b9bcf882826bf6a9587fc81"}},"updatedLeaves":{"0":[],"1":[{"leafIndex":0,"merkleProof":[],"elementHash":"3f40e8405e1fff0720e0c5f64e0cd948763f7c2a33b889df688450306e6251b5","spent":true}]},"treeGrowth":{"0":["62468e31975a2b39883b99aa3a9c6daf5e7ffae6999e930a5bad6f3c82a4957a"],"1":[]},"oldNumLeaves":2,"numLeaves":3}`)
	ujson("consensus.RevertUpdate", func() []*consensus.RevertUpdate { return chainTake(chainVals().Reverts, 1) },
		`{"siacoinElements":null,"chainIndexElement":{"id":"36bf12182ae15d914ee5cd194bdd375769c97f564b9bcf882826bf6a9587fc81","stateElement":{"leafIndex":2},"chainIndex":{"height":1,"id":"36bf12182ae15d914ee5cd194bdd375769c97f564b9bcf882826bf6a9587fc81"}},"updatedLeaves":{"0":[],"1":[{"leafIndex":0,"merkleProof":[],"elementHash":"3f40e8405e1fff0720e0c5f64e0cd948763f7c2a33b889df688450306e6251b5","spent":false}]},"numLeaves":2}`)
	ujson("rhp/v2.HostSettings", textValues[rhp2.HostSettings])
	ujson("rhp/v3.SettingsID", textValues[rhp3.SettingsID])
	ujson("rhp/v3.HostPriceTable", textValues[rhp3.HostPriceTable])
	ujson("rhp/v4.ProtocolVersion", textValues[rhp4.ProtocolVersion], "[1,2,3]")
	ujson("rhp/v4.HostSettings", textValues[rhp4.HostSettings])
	ujson("rhp/v4.AccountToken", textValues[rhp4.AccountToken])
}
