package codec

import (
	"fmt"
	"math"
	"reflect"
	"time"

	"go.sia.tech/core/consensus"
	"go.sia.tech/core/gateway"
	rhp2 "go.sia.tech/core/rhp/v2"
	rhp3 "go.sia.tech/core/rhp/v3"
	"go.sia.tech/core/types"
)

// Seed salts the key material of the chain-derived values (data independence
// only; it never selects what is explored). Set it before the first call of
// Bases.
var Seed int64 = 1

// Bases returns fresh base values of the entry's domain: the generic profiles
// followed by the hand-made variants, de-duplicated by encoding.
func (e *Entry) Bases() []Base {
	var out []Base
	seen := map[string]bool{}
	addBase := func(b Base) {
		kb, pv := e.SafeEncode(b.V)
		if pv != nil {
			out = append(out, b) // kept: C11 reports the encoder panic on this base, C10 skips it
			return
		}
		k := string(kb)
		if seen[k] && !b.Real {
			return
		}
		seen[k] = true
		out = append(out, b)
	}
	for _, p := range AllProfiles {
		b := Base{Label: profileNames[p], V: e.Generic(p)}
		if p == PEmpty && !reflect.DeepEqual(b.V, e.Generic(PZero)) {
			// same bytes as the zero profile, but a different Go value: kept
			// to exercise the nil-vs-empty normalisation
			out = append(out, b)
			continue
		}
		addBase(b)
	}
	if e.Variants != nil {
		for _, b := range e.Variants() {
			addBase(b)
		}
	}
	return out
}

func mk[T any](label string, v T) Base { return Base{Label: label, V: &v} }

func cur(lo, hi uint64) types.Currency { return types.NewCurrency(lo, hi) }

// CurrencyBoundaries: 0, 1, byte and word boundaries, 2^64, 2^128-1.
var CurrencyBoundaries = []types.Currency{
	cur(0, 0), cur(1, 0), cur(255, 0), cur(256, 0), cur(1<<32, 0), cur(1<<63, 0), cur(math.MaxUint64, 0),
	cur(0, 1), cur(1, 1), cur(0, 1<<56), cur(0, 1<<63), cur(math.MaxUint64, math.MaxUint64),
}

func currencyVariants[T ~struct{ Lo, Hi uint64 }]() []Base {
	var out []Base
	for _, c := range CurrencyBoundaries {
		out = append(out, mk(fmt.Sprintf("boundary(lo=%#x,hi=%#x)", c.Lo, c.Hi), T(c)))
	}
	return out
}

// PolicyVariantList builds every policy kind at nesting depth 0..3 (the kind
// is the innermost policy; outer levels are thresholds with a sibling), plus
// empty and 255-child thresholds.
func PolicyVariantList() (labels []string, ps []types.SpendPolicy) {
	f := &filler{p: PTypical}
	for depth := 0; depth <= 3; depth++ {
		for kind := range PolicyKinds {
			p := f.leafPolicy(kind)
			if kind == 4 && depth < 3 {
				p = types.PolicyThreshold(1, []types.SpendPolicy{f.leafPolicy(0)})
			}
			for d := 0; d < depth; d++ {
				p = types.PolicyThreshold(uint8(d+1), []types.SpendPolicy{f.leafPolicy(3), p})
			}
			labels = append(labels, fmt.Sprintf("policy(%s@depth%d)", PolicyKinds[kind], depth))
			ps = append(ps, p)
		}
	}
	labels = append(labels, "policy(thresh 0-of-0)")
	ps = append(ps, types.AnyoneCanSpend())
	of := make([]types.SpendPolicy, 255)
	for i := range of {
		of[i] = types.PolicyAbove(uint64(i))
	}
	labels = append(labels, "policy(thresh 255-of-255)")
	ps = append(ps, types.PolicyThreshold(255, of))
	// boundary contents for every scalar-carrying kind
	for _, h := range []uint64{0, 1, 1 << 32, 1 << 63, math.MaxUint64} {
		labels = append(labels, fmt.Sprintf("policy(above %#x)", h))
		ps = append(ps, types.PolicyAbove(h))
		labels = append(labels, fmt.Sprintf("policy(after %#x)", h))
		ps = append(ps, types.PolicyAfter(time.Unix(int64(h), 0)))
	}
	return
}

func policyVariants() []Base {
	labels, ps := PolicyVariantList()
	var out []Base
	for i := range ps {
		out = append(out, mk(labels[i], ps[i]))
	}
	return out
}

func satisfiedPolicyVariants() []Base {
	labels, ps := PolicyVariantList()
	f := &filler{p: PTypical}
	var out []Base
	for i := range ps {
		sp := types.SatisfiedPolicy{Policy: ps[i]}
		for k := 0; k < i%3; k++ {
			var sig types.Signature
			f.bytes(reflect.ValueOf(&sig).Elem())
			sp.Signatures = append(sp.Signatures, sig)
			sp.Preimages = append(sp.Preimages, f.hash())
		}
		out = append(out, mk("satisfied "+labels[i], sp))
	}
	return out
}

func resolutionVariants() []Base {
	var out []Base
	for _, p := range []Profile{PTypical, PMax} {
		f := &filler{p: p}
		mkRes := func(r types.V2FileContractResolutionType) types.V2FileContractResolution {
			var res types.V2FileContractResolution
			f.fill(reflect.ValueOf(&res.Parent).Elem(), 1)
			f.fill(reflect.ValueOf(r).Elem(), 1)
			res.Resolution = r
			return res
		}
		out = append(out,
			mk("resolution(renewal,"+profileNames[p]+")", mkRes(new(types.V2FileContractRenewal))),
			mk("resolution(storage proof,"+profileNames[p]+")", mkRes(new(types.V2StorageProof))),
			mk("resolution(expiration,"+profileNames[p]+")", mkRes(new(types.V2FileContractExpiration))))
	}
	return out
}

// V2TxnFieldNames lists the v2 transaction fields in bitmap-bit order.
var V2TxnFieldNames = []string{"SiacoinInputs", "SiacoinOutputs", "SiafundInputs", "SiafundOutputs", "FileContracts",
	"FileContractRevisions", "FileContractResolutions", "Attestations", "ArbitraryData", "NewFoundationAddress", "MinerFee"}

func v2TxnVariants() []Base {
	var out []Base
	// exactly one bitmap bit set
	for _, name := range V2TxnFieldNames {
		var txn types.V2Transaction
		f := &filler{p: PTypical}
		f.fill(reflect.ValueOf(&txn).Elem().FieldByName(name), 2)
		out = append(out, mk("only "+name, txn))
	}
	// every resolution kind inside a transaction
	for _, rb := range resolutionVariants()[:3] {
		txn := types.V2Transaction{FileContractResolutions: []types.V2FileContractResolution{*rb.V.(*types.V2FileContractResolution)}}
		out = append(out, mk("txn with "+rb.Label, txn))
	}
	cv := chainVals()
	for i, t := range cv.V2Txns {
		out = append(out, Base{Label: fmt.Sprintf("chain v2 txn %d (%s)", i, cv.V2Names[i]), V: DeepCopy(&t), Real: true})
	}
	return out
}

func v1TxnVariants() []Base {
	var out []Base
	cv := chainVals()
	for i, t := range cv.V1Txns {
		out = append(out, Base{Label: fmt.Sprintf("chain v1 txn %d (%s)", i, cv.V1Names[i]), V: DeepCopy(&t), Real: true})
	}
	return out
}

func multiproofVariants() []Base {
	var out []Base
	for i, b := range chainVals().V2Blocks {
		txns := types.V2TransactionsMultiproof(b.V2.Transactions)
		out = append(out, Base{Label: fmt.Sprintf("chain block %d txns", i), V: DeepCopy(&txns), Real: true})
	}
	return out
}

func blockDataVariants() []Base {
	var out []Base
	for i, b := range chainVals().V2Blocks {
		out = append(out, Base{Label: fmt.Sprintf("chain block %d v2 data", i), V: DeepCopy(b.V2), Real: true})
	}
	return out
}

func headerVariants() []Base {
	var out []Base
	for i, b := range chainVals().Blocks {
		if i%3 == 0 {
			h := b.Header()
			out = append(out, Base{Label: fmt.Sprintf("chain block %d header", i), V: &h, Real: true})
		}
	}
	return out
}

func v1BlockVariants() []Base {
	var out []Base
	for i, b := range chainVals().Blocks {
		if b.V2 == nil {
			vb := types.V1Block(b)
			out = append(out, Base{Label: fmt.Sprintf("chain block %d (v1)", i), V: DeepCopy(&vb), Real: true})
		}
	}
	return out
}

func v2BlockVariants() []Base {
	var out []Base
	for i, b := range chainVals().V2Blocks {
		vb := types.V2Block(b)
		out = append(out, Base{Label: fmt.Sprintf("chain v2 block %d", i), V: DeepCopy(&vb), Real: true})
	}
	for i, b := range chainVals().Blocks {
		if b.V2 == nil && i%2 == 0 {
			vb := types.V2Block(b)
			out = append(out, Base{Label: fmt.Sprintf("chain block %d (v1 block in v2 form)", i), V: DeepCopy(&vb), Real: true})
		}
	}
	return out
}

func stateVariants() []Base {
	var out []Base
	for _, h := range []uint64{math.MaxUint64, 0, 1, 5, 9, 10, 11, 1 << 32, 1 << 63, math.MaxUint64 - 1} {
		v := new(consensus.State)
		f := &filler{p: PTypical}
		rv := reflect.ValueOf(v).Elem()
		for i := 0; i < rv.NumField(); i++ {
			f.fill(rv.Field(i), 1)
		}
		v.Index.Height = h
		v.Elements.NumLeaves = h ^ 0x5
		out = append(out, Base{Label: fmt.Sprintf("state(height=%#x)", h), V: v})
	}
	for i, cs := range chainVals().States {
		cs := cs
		out = append(out, Base{Label: fmt.Sprintf("chain state %d", i), V: DeepCopy(&cs), Real: true})
	}
	return out
}

func accumulatorVariants() []Base {
	var out []Base
	for _, n := range []uint64{0, 1, 2, 3, 0b101, 1 << 31, 1 << 32, 1 << 63, 1<<63 | 1, math.MaxUint64} {
		v := new(consensus.ElementAccumulator)
		f := &filler{p: PTypical}
		f.fill(reflect.ValueOf(v).Elem().FieldByName("Trees"), 1)
		v.NumLeaves = n
		out = append(out, Base{Label: fmt.Sprintf("accumulator(numLeaves=%#x)", n), V: v})
	}
	for i, cs := range chainVals().States {
		if i%4 == 0 {
			acc := cs.Elements
			out = append(out, Base{Label: fmt.Sprintf("chain accumulator %d", i), V: &acc, Real: true})
		}
	}
	return out
}

func supplementVariants() []Base {
	var out []Base
	for i, bs := range chainVals().Supps {
		if len(bs.Transactions) == 0 && len(bs.ExpiringFileContracts) == 0 {
			continue
		}
		bs := bs
		out = append(out, Base{Label: fmt.Sprintf("chain supplement %d", i), V: DeepCopy(&bs), Real: true})
	}
	return out
}

func outlineValues() (labels []string, outs []gateway.V2BlockOutline) {
	cv := chainVals()
	for i, b := range cv.V2Blocks {
		// complete outline, outline with every other transaction omitted, outline with all omitted
		full := gateway.OutlineBlock(b, nil, nil)
		labels = append(labels, fmt.Sprintf("outline of chain v2 block %d (complete)", i))
		outs = append(outs, full)
		var dropV1 []types.Transaction
		var dropV2 []types.V2Transaction
		for k, t := range b.Transactions {
			if k%2 == 0 {
				dropV1 = append(dropV1, t)
			}
		}
		for k, t := range b.V2Transactions() {
			if k%2 == 1 {
				dropV2 = append(dropV2, t)
			}
		}
		if len(dropV1)+len(dropV2) > 0 {
			labels = append(labels, fmt.Sprintf("outline of chain v2 block %d (alternate txns omitted)", i))
			outs = append(outs, gateway.OutlineBlock(b, dropV1, dropV2))
			labels = append(labels, fmt.Sprintf("outline of chain v2 block %d (all txns omitted)", i))
			outs = append(outs, gateway.OutlineBlock(b, b.Transactions, b.V2Transactions()))
		}
	}
	return
}

func outlineVariants() []Base {
	labels, outs := outlineValues()
	var out []Base
	for i := range outs {
		out = append(out, Base{Label: labels[i], V: DeepCopy(&outs[i]), Real: true})
	}
	return out
}

func relayOutlineVariants() []Base {
	labels, outs := outlineValues()
	var out []Base
	for i := range outs {
		r := gateway.RPCRelayV2BlockOutline{Block: outs[i]}
		out = append(out, Base{Label: "relay " + labels[i], V: DeepCopy(&r), Real: true})
	}
	return out
}

func sendV2BlocksVariants() []Base {
	cv := chainVals()
	var out []Base
	var three []types.Block
	for _, b := range cv.V2Blocks {
		if len(b.V2.Transactions) > 0 && len(three) < 3 {
			three = append(three, b)
		}
	}
	r := gateway.RPCSendV2Blocks{Blocks: three, Remaining: 7}
	out = append(out, Base{Label: "first three non-empty chain v2 blocks", V: DeepCopy(&r), Real: true})
	for i, b := range cv.V2Blocks {
		if len(b.V2.Transactions) > 0 {
			r := gateway.RPCSendV2Blocks{Blocks: []types.Block{b}, Remaining: uint64(i)}
			out = append(out, Base{Label: fmt.Sprintf("chain v2 block %d", i), V: DeepCopy(&r), Real: true})
		}
	}
	return out
}

func checkpointVariants() []Base {
	cv := chainVals()
	var out []Base
	for i, b := range cv.V2Blocks {
		if len(b.V2.Transactions) == 0 && i > 0 {
			continue
		}
		r := gateway.RPCSendCheckpoint{Block: b, State: cv.V2States[i]}
		out = append(out, Base{Label: fmt.Sprintf("checkpoint at chain v2 block %d", i), V: DeepCopy(&r), Real: true})
	}
	return out
}

func programVariants() []Base {
	var out []Base
	ctors := instructionCtors()
	for _, p := range []Profile{PTypical, PMax} {
		f := &filler{p: p}
		var all []rhp3.Instruction
		for _, c := range ctors {
			in := c()
			f.fill(reflect.ValueOf(in).Elem(), 1)
			all = append(all, in.(rhp3.Instruction))
			one := rhp3.RPCExecuteProgramRequest{Program: []rhp3.Instruction{in.(rhp3.Instruction)}, ProgramData: []byte{1, 2, 3}}
			f.fill(reflect.ValueOf(&one.FileContractID).Elem(), 1)
			out = append(out, mk(fmt.Sprintf("program(%s,%s)", reflect.TypeOf(in).Elem().Name(), profileNames[p]), one))
		}
		out = append(out, mk("program(all 14 instructions,"+profileNames[p]+")", rhp3.RPCExecuteProgramRequest{Program: all, ProgramData: []byte("data")}))
	}
	return out
}

func rpcResponse2Variants() []Base {
	f := &filler{p: PTypical}
	var e rhp2.RPCError
	f.fill(reflect.ValueOf(&e).Elem(), 1)
	return []Base{
		{Label: "error response", V: rhp2.VerifNewRPCResponse(&e, new(rhp2.RPCSettingsResponse))},
		{Label: "error response (zero error)", V: rhp2.VerifNewRPCResponse(new(rhp2.RPCError), new(rhp2.RPCSettingsResponse))},
	}
}

func rpcResponse3Variants() []Base {
	f := &filler{p: PTypical}
	var e rhp3.RPCError
	f.fill(reflect.ValueOf(&e).Elem(), 1)
	return []Base{
		{Label: "error response", V: rhp3.VerifNewRPCResponse(&e, new(rhp3.RPCUpdatePriceTableResponse))},
		{Label: "error response (zero error)", V: rhp3.VerifNewRPCResponse(new(rhp3.RPCError), new(rhp3.RPCUpdatePriceTableResponse))},
	}
}
