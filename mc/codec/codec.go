// Package codec is the shared inventory of binary codecs (types, consensus,
// gateway, rhp/v2, rhp/v3, rhp/v4) used by checks C11 (round trip, canonical,
// field-complete, wire-exact) and C10 (decoder totality). For every codec it
// offers a uniform Encode/Decode pair and a structured value domain: base
// values (zero / one / typical / big / max, every variant of every sum type,
// values taken from real chains) plus reflection-generated single-field
// deviations.
package codec

import (
	"bytes"
	"errors"
	"fmt"
	"io"
	"reflect"
	"sort"
	"sync"

	"go.sia.tech/core/types"
)

// ErrLeftover is returned by Decode when the decoder succeeded but did not
// consume the whole input.
var ErrLeftover = errors.New("leftover bytes after decoding")

// A Base is one named base value of an entry's domain.
type Base struct {
	Label string
	V     any  // pointer, as returned by Entry.New
	Real  bool // taken from a real chain (Merkle proofs are genuine)
}

// An Entry is one codec of the inventory.
type Entry struct {
	// DecodeInto decodes b into an EXISTING value of the entry's type (a receiver that has been used before).
	DecodeInto func(recv any, b []byte) error
	Pkg  string // types, consensus, gateway, rhp/v2, rhp/v3, rhp/v4
	Name string // e.g. "types.V2Transaction", "gateway.RPCSendHeaders.request"
	T    reflect.Type

	New    func() any
	Encode func(v any) []byte
	// Decode decodes b completely: error = decoder error or leftover bytes. It
	// may panic if the code under test panics (callers recover).
	Decode func(b []byte) (any, error)

	// Only lists the top-level fields this codec transmits (nil = all). Used
	// for objects whose request and response halves live in one struct.
	Only []string
	// Multiproof: the encoding contains v2 transactions in multiproof form.
	Multiproof bool
	// Variants returns extra hand-made base values (sum-type variants,
	// boundary shapes).
	Variants func() []Base
	// Valid reports whether a (mutated) value satisfies the encoder's
	// preconditions; nil = always.
	Valid func(v any) bool
	// Fix adjusts a generically filled value so that it satisfies the
	// encoder's preconditions (dependent fields).
	Fix func(v any)
	// Layout names the WireSpec layout of consensus-critical types ("" = none).
	Layout string
	// Via says how the codec is reached ("exported" or "overlay").
	Via string
	// Src identifies the decoder method in the source tree:
	// "<pkgdir>:<Receiver>.<method>", used for the mechanical cross-check of
	// the inventory against the repository.
	Src string
}

var (
	regMu   sync.Mutex
	entries []*Entry
	byName  = map[string]*Entry{}
)

func add(e *Entry) *Entry {
	regMu.Lock()
	defer regMu.Unlock()
	if _, dup := byName[e.Name]; dup {
		panic("codec: duplicate entry " + e.Name)
	}
	if e.Via == "" {
		e.Via = "exported"
	}
	if e.Src == "" {
		e.Src = e.Pkg + ":" + e.T.Name() + ".DecodeFrom"
	}
	entries = append(entries, e)
	byName[e.Name] = e
	return e
}

// Entries returns the inventory sorted by package and name.
func Entries() []*Entry {
	regMu.Lock()
	defer regMu.Unlock()
	out := append([]*Entry(nil), entries...)
	sort.SliceStable(out, func(i, j int) bool {
		if out[i].Pkg != out[j].Pkg {
			return pkgOrder(out[i].Pkg) < pkgOrder(out[j].Pkg)
		}
		return out[i].Name < out[j].Name
	})
	return out
}

// Lookup finds an entry by name.
func Lookup(name string) *Entry {
	regMu.Lock()
	defer regMu.Unlock()
	return byName[name]
}

func pkgOrder(p string) int {
	for i, q := range Packages {
		if p == q {
			return i
		}
	}
	return 99
}

// Packages lists the covered packages in report order.
var Packages = []string{"types", "consensus", "gateway", "rhp/v2", "rhp/v3", "rhp/v4"}

// Enc runs fn on a fresh encoder and returns the bytes.
func Enc(fn func(e *types.Encoder)) []byte {
	var buf bytes.Buffer
	e := types.NewEncoder(&buf)
	fn(e)
	if err := e.Flush(); err != nil {
		panic(err)
	}
	return buf.Bytes()
}

// SafeEncode is Encode under recover: p is the panic value if the encoder of the code under test panicked.
func (e *Entry) SafeEncode(v any) (b []byte, p any) {
	defer func() {
		if r := recover(); r != nil {
			b, p = nil, r
		}
	}()
	return e.Encode(v), nil
}

// Dec runs fn on a decoder over b and reports the decoder error or leftover
// bytes. The Decoder reads exactly what it needs from the underlying reader
// (no read-ahead), so the reader's remaining length is the leftover.
func Dec(b []byte, fn func(d *types.Decoder)) error {
	r := bytes.NewReader(b)
	d := types.NewDecoder(io.LimitedReader{R: r, N: int64(len(b))})
	fn(d)
	if err := d.Err(); err != nil {
		return err
	}
	if r.Len() != 0 {
		return fmt.Errorf("%w (%d of %d)", ErrLeftover, r.Len(), len(b))
	}
	return nil
}

type opt func(*Entry)

func layout(name string) opt        { return func(e *Entry) { e.Layout = name } }
func multiproof() opt               { return func(e *Entry) { e.Multiproof = true } }
func variants(fn func() []Base) opt { return func(e *Entry) { e.Variants = fn } }
func valid(fn func(v any) bool) opt { return func(e *Entry) { e.Valid = fn } }
func only(fields ...string) opt     { return func(e *Entry) { e.Only = fields } }
func fix(fn func(v any)) opt        { return func(e *Entry) { e.Fix = fn } }
func via(s string) opt              { return func(e *Entry) { e.Via = s } }
func src(s string) opt              { return func(e *Entry) { e.Src = s } }
func newWith(fn func() any) opt     { return func(e *Entry) { e.New = fn } }

// std registers a type with exported EncodeTo/DecodeFrom methods.
func std[T any, P interface {
	*T
	types.EncoderTo
	types.DecoderFrom
}](pkg, name string, opts ...opt) *Entry {
	e := &Entry{Pkg: pkg, Name: name, T: reflect.TypeOf((*T)(nil)).Elem()}
	e.New = func() any { return P(new(T)) }
	e.Encode = func(v any) []byte { return Enc(v.(P).EncodeTo) }
	for _, o := range opts {
		o(e)
	}
	e.Decode = func(b []byte) (any, error) {
		p := e.New().(P)
		err := Dec(b, p.DecodeFrom)
		return p, err
	}
	e.DecodeInto = func(recv any, b []byte) error { return Dec(b, recv.(P).DecodeFrom) }
	return add(e)
}

// fn registers a codec given by explicit encode/decode functions on *T.
func fn[T any](pkg, name string, enc func(*T, *types.Encoder), dec func(*T, *types.Decoder), opts ...opt) *Entry {
	e := &Entry{Pkg: pkg, Name: name, T: reflect.TypeOf((*T)(nil)).Elem()}
	e.New = func() any { return new(T) }
	e.Encode = func(v any) []byte { return Enc(func(en *types.Encoder) { enc(v.(*T), en) }) }
	for _, o := range opts {
		o(e)
	}
	e.Decode = func(b []byte) (any, error) {
		p := e.New().(*T)
		err := Dec(b, func(d *types.Decoder) { dec(p, d) })
		return p, err
	}
	e.DecodeInto = func(recv any, b []byte) error { return Dec(b, func(d *types.Decoder) { dec(recv.(*T), d) }) }
	return add(e)
}
