// Package sched is engine E3: a cooperative controlled scheduler with
// stateless depth-first exploration of choice sequences under an iterative
// deviation bound (preemptions and non-default data choices).
package sched

import (
	"fmt"
	"runtime"
)

// Point is one recorded choice point of an execution.
type Point struct {
	Options    int  // number of options (>=1)
	Chosen     int  // option taken
	RunEnabled bool // for scheduling points: the running thread was still enabled (option 0 = continue it)
	Data       bool // data choice (pool object) rather than a scheduling choice
	Kind       string
}

type thread struct {
	id     int
	resume chan struct{}
	done   bool
}

// Exec is one controlled execution.
type Exec struct {
	prefix  []int
	Points  []Point
	threads []*thread
	cur     *thread
	yield   chan struct{} // running thread -> scheduler
	Panic   any
	PanicStack string
	Diverged bool
	lastKind string
}

// Current returns the id of the running thread (valid while a body runs).
func (e *Exec) Current() int {
	if e.cur == nil {
		return -1
	}
	return e.cur.id
}

// Yield is a scheduling point; it must be called by the running thread.
func (e *Exec) Yield(kind string) {
	t := e.cur
	e.lastKind = kind
	e.yield <- struct{}{}
	<-t.resume
}

// Choose is a data choice point (no thread switch).
func (e *Exec) Choose(n int, kind string) int {
	if n <= 1 {
		return 0
	}
	c := e.next(n, false, true, kind)
	return c
}

func (e *Exec) next(n int, runEnabled, data bool, kind string) int {
	c := 0
	if i := len(e.Points); i < len(e.prefix) {
		c = e.prefix[i]
		if c >= n {
			e.Diverged = true
			c = 0
		}
	}
	e.Points = append(e.Points, Point{Options: n, Chosen: c, RunEnabled: runEnabled, Data: data, Kind: kind})
	return c
}

// lastKind is written by the running thread just before yielding.
func (e *Exec) setKind(k string) { e.lastKind = k }

// Run executes bodies under the scheduler replaying prefix and taking option 0 afterwards.
func Run(prefix []int, install func(e *Exec), bodies []func()) *Exec {
	e := &Exec{prefix: prefix, yield: make(chan struct{})}
	for i := range bodies {
		e.threads = append(e.threads, &thread{id: i, resume: make(chan struct{})})
	}
	install(e)
	for i, body := range bodies {
		t := e.threads[i]
		body := body
		go func() {
			<-t.resume
			defer func() {
				if r := recover(); r != nil && e.Panic == nil {
					e.Panic = r
					buf := make([]byte, 1<<13)
					e.PanicStack = string(buf[:runtime.Stack(buf, false)])
				}
				t.done = true
				e.yield <- struct{}{}
			}()
			body()
		}()
	}
	var running *thread
	for {
		var enabled []*thread
		runEnabled := running != nil && !running.done
		if runEnabled {
			enabled = append(enabled, running)
		}
		for _, t := range e.threads {
			if !t.done && t != running {
				enabled = append(enabled, t)
			}
		}
		if len(enabled) == 0 {
			return e
		}
		c := 0
		if len(enabled) > 1 {
			c = e.next(len(enabled), runEnabled, false, e.lastKind)
		}
		running = enabled[c]
		e.cur = running
		running.resume <- struct{}{}
		<-e.yield
	}
}

// Cost of the choice sequence of an execution up to (not including) point i, split into preemptions and data deviations.
func (e *Exec) cost(upto int) (preempt, data int) {
	for _, p := range e.Points[:upto] {
		if p.Chosen == 0 {
			continue
		}
		if p.Data {
			data++
		} else if p.RunEnabled {
			preempt++
		}
	}
	return
}

// Explorer enumerates executions.
type Explorer struct {
	MaxPreempt int
	MaxData    int
	Install    func(e *Exec)
	Bodies     func() []func() // fresh bodies (and fresh shared inputs) per execution
	Check      func(e *Exec) bool // returns false to stop
	Executions int
	MaxPoints  int
	Stop       func() bool
	stopped    bool
}

// Explore runs the DFS.
func (x *Explorer) Explore() { x.explore(nil) }

func (x *Explorer) explore(prefix []int) {
	if x.stopped || (x.Stop != nil && x.Stop()) {
		x.stopped = true
		return
	}
	e := Run(prefix, x.Install, x.Bodies())
	x.Executions++
	if len(e.Points) > x.MaxPoints {
		x.MaxPoints = len(e.Points)
	}
	if e.Diverged {
		panic(fmt.Sprintf("sched: divergence while replaying prefix %v", prefix))
	}
	if !x.Check(e) {
		x.stopped = true
		return
	}
	for i := len(prefix); i < len(e.Points); i++ {
		p := e.Points[i]
		pre, dat := e.cost(i)
		for alt := 1; alt < p.Options; alt++ {
			np, nd := pre, dat
			if p.Data {
				nd++
			} else if p.RunEnabled {
				np++
			}
			if np > x.MaxPreempt || nd > x.MaxData {
				continue
			}
			choices := make([]int, i+1)
			for j := 0; j < i; j++ {
				choices[j] = e.Points[j].Chosen
			}
			choices[i] = alt
			x.explore(choices)
			if x.stopped {
				return
			}
		}
	}
}
