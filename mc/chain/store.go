package chain

import (
	"encoding/json"
	"fmt"

	"go.sia.tech/core/consensus"
	"go.sia.tech/core/types"
)

// Store is the user's view of the chain: elements with proofs, built ONLY
// from ApplyUpdate / RevertUpdate diffs and UpdateElementProof, the way a
// wallet or node database (coreutils) would.
type Store struct {
	SC   map[types.SiacoinOutputID]types.SiacoinElement
	SF   map[types.SiafundOutputID]types.SiafundElement
	FC   map[types.FileContractID]types.FileContractElement
	V2FC map[types.FileContractID]types.V2FileContractElement
	CI   []types.ChainIndexElement // by height
	Att  []types.AttestationElement

	// Dead keeps spent / resolved elements whose proofs are still maintained
	// (C05: "tracked elements (old, updated, newly added, spent)").
	DeadSC   map[types.SiacoinOutputID]types.SiacoinElement
	DeadSF   map[types.SiafundOutputID]types.SiafundElement
	DeadFC   map[types.FileContractID]types.FileContractElement
	DeadV2FC map[types.FileContractID]types.V2FileContractElement
	TrackDead bool
}

// NewStore returns an empty store.
func NewStore(trackDead bool) *Store {
	return &Store{
		SC: map[types.SiacoinOutputID]types.SiacoinElement{}, SF: map[types.SiafundOutputID]types.SiafundElement{},
		FC: map[types.FileContractID]types.FileContractElement{}, V2FC: map[types.FileContractID]types.V2FileContractElement{},
		DeadSC: map[types.SiacoinOutputID]types.SiacoinElement{}, DeadSF: map[types.SiafundOutputID]types.SiafundElement{},
		DeadFC: map[types.FileContractID]types.FileContractElement{}, DeadV2FC: map[types.FileContractID]types.V2FileContractElement{},
		TrackDead: trackDead,
	}
}

func cloneMap[K comparable, V any](m map[K]V, cp func(V) V) map[K]V {
	c := make(map[K]V, len(m))
	for k, v := range m {
		c[k] = cp(v)
	}
	return c
}

// Clone deep-copies the store (no shared proof memory).
func (s *Store) Clone() *Store {
	c := &Store{TrackDead: s.TrackDead}
	c.SC = cloneMap(s.SC, types.SiacoinElement.Copy)
	c.SF = cloneMap(s.SF, types.SiafundElement.Copy)
	c.FC = cloneMap(s.FC, copyFCE)
	c.V2FC = cloneMap(s.V2FC, types.V2FileContractElement.Copy)
	c.DeadSC = cloneMap(s.DeadSC, types.SiacoinElement.Copy)
	c.DeadSF = cloneMap(s.DeadSF, types.SiafundElement.Copy)
	c.DeadFC = cloneMap(s.DeadFC, copyFCE)
	c.DeadV2FC = cloneMap(s.DeadV2FC, types.V2FileContractElement.Copy)
	c.CI = make([]types.ChainIndexElement, len(s.CI))
	for i := range s.CI {
		c.CI[i] = s.CI[i].Copy()
	}
	c.Att = make([]types.AttestationElement, len(s.Att))
	for i := range s.Att {
		c.Att[i] = s.Att[i].Copy()
	}
	return c
}

// copyFCE deep-copies a v1 contract element including its output slices.
func copyFCE(e types.FileContractElement) types.FileContractElement {
	e = e.Copy()
	e.FileContract.ValidProofOutputs = append([]types.SiacoinOutput(nil), e.FileContract.ValidProofOutputs...)
	e.FileContract.MissedProofOutputs = append([]types.SiacoinOutput(nil), e.FileContract.MissedProofOutputs...)
	return e
}

type proofUpdater interface {
	UpdateElementProof(e *types.StateElement)
}

// updateAll refreshes every tracked proof with u. skip reports elements that
// must not be passed to the updater (created by a block being reverted).
func (s *Store) updateAll(u proofUpdater, limit uint64, useLimit bool) {
	ok := func(se *types.StateElement) bool { return !useLimit || se.LeafIndex < limit }
	for id, e := range s.SC {
		if ok(&e.StateElement) {
			u.UpdateElementProof(&e.StateElement)
			s.SC[id] = e
		}
	}
	for id, e := range s.SF {
		if ok(&e.StateElement) {
			u.UpdateElementProof(&e.StateElement)
			s.SF[id] = e
		}
	}
	for id, e := range s.FC {
		if ok(&e.StateElement) {
			u.UpdateElementProof(&e.StateElement)
			s.FC[id] = e
		}
	}
	for id, e := range s.V2FC {
		if ok(&e.StateElement) {
			u.UpdateElementProof(&e.StateElement)
			s.V2FC[id] = e
		}
	}
	for id, e := range s.DeadSC {
		if ok(&e.StateElement) {
			u.UpdateElementProof(&e.StateElement)
			s.DeadSC[id] = e
		}
	}
	for id, e := range s.DeadSF {
		if ok(&e.StateElement) {
			u.UpdateElementProof(&e.StateElement)
			s.DeadSF[id] = e
		}
	}
	for id, e := range s.DeadFC {
		if ok(&e.StateElement) {
			u.UpdateElementProof(&e.StateElement)
			s.DeadFC[id] = e
		}
	}
	for id, e := range s.DeadV2FC {
		if ok(&e.StateElement) {
			u.UpdateElementProof(&e.StateElement)
			s.DeadV2FC[id] = e
		}
	}
	for i := range s.CI {
		if ok(&s.CI[i].StateElement) {
			u.UpdateElementProof(&s.CI[i].StateElement)
		}
	}
	for i := range s.Att {
		if ok(&s.Att[i].StateElement) {
			u.UpdateElementProof(&s.Att[i].StateElement)
		}
	}
}

// attestationElements extracts the attestation elements of an update through
// its exported JSON form (there is no accessor).
func attestationElements(u json.Marshaler) ([]types.AttestationElement, error) {
	b, err := u.MarshalJSON()
	if err != nil {
		return nil, err
	}
	var v struct {
		AttestationElements []types.AttestationElement `json:"attestationElements"`
	}
	if err := json.Unmarshal(b, &v); err != nil {
		return nil, err
	}
	return v.AttestationElements, nil
}

// Apply folds an ApplyUpdate into the store.
func (s *Store) Apply(au consensus.ApplyUpdate, hasAtt bool) error {
	s.updateAll(au, 0, false)
	for _, d := range au.SiacoinElementDiffs() {
		id := d.SiacoinElement.ID
		switch {
		case d.Spent:
			delete(s.SC, id)
			if s.TrackDead {
				s.DeadSC[id] = d.SiacoinElement.Copy()
			}
		case d.Created:
			if _, dup := s.SC[id]; dup {
				return fmt.Errorf("siacoin element %v created twice", id)
			}
			s.SC[id] = d.SiacoinElement.Copy()
		}
	}
	for _, d := range au.SiafundElementDiffs() {
		id := d.SiafundElement.ID
		switch {
		case d.Spent:
			delete(s.SF, id)
			if s.TrackDead {
				s.DeadSF[id] = d.SiafundElement.Copy()
			}
		case d.Created:
			if _, dup := s.SF[id]; dup {
				return fmt.Errorf("siafund element %v created twice", id)
			}
			s.SF[id] = d.SiafundElement.Copy()
		}
	}
	for _, d := range au.FileContractElementDiffs() {
		id := d.FileContractElement.ID
		e := copyFCE(d.FileContractElement)
		if d.Revision != nil {
			e.FileContract = *d.Revision
			e.FileContract.ValidProofOutputs = append([]types.SiacoinOutput(nil), d.Revision.ValidProofOutputs...)
			e.FileContract.MissedProofOutputs = append([]types.SiacoinOutput(nil), d.Revision.MissedProofOutputs...)
		}
		switch {
		case d.Resolved:
			delete(s.FC, id)
			if s.TrackDead {
				s.DeadFC[id] = e
			}
		case d.Created, d.Revision != nil:
			s.FC[id] = e
		}
	}
	for _, d := range au.V2FileContractElementDiffs() {
		id := d.V2FileContractElement.ID
		e := d.V2FileContractElement.Copy()
		if d.Revision != nil {
			e.V2FileContract = *d.Revision
		}
		switch {
		case d.Resolution != nil:
			delete(s.V2FC, id)
			if s.TrackDead {
				s.DeadV2FC[id] = e
			}
		case d.Created, d.Revision != nil:
			s.V2FC[id] = e
		}
	}
	s.CI = append(s.CI, au.ChainIndexElement().Copy())
	// the other legal client order: insert the block's new elements first, then refresh EVERYTHING with the update -
	// elements the block itself created are already up to date and must come out unchanged
	sameProof := func(a, b types.StateElement) bool {
		if a.LeafIndex != b.LeafIndex || len(a.MerkleProof) != len(b.MerkleProof) {
			return false
		}
		for i := range a.MerkleProof {
			if a.MerkleProof[i] != b.MerkleProof[i] {
				return false
			}
		}
		return true
	}
	refreshed := func(kind string, se types.StateElement) error {
		c := se.Copy()
		au.UpdateElementProof(&c)
		if !sameProof(c, se) {
			return fmt.Errorf("%s element created by the block (leaf %d, %d-hash proof) is changed by refreshing it with the update that created it (leaf %d, %d hashes)", kind, se.LeafIndex, len(se.MerkleProof), c.LeafIndex, len(c.MerkleProof))
		}
		return nil
	}
	for _, d := range au.SiacoinElementDiffs() {
		if d.Created && !d.Spent {
			if err := refreshed("siacoin", d.SiacoinElement.StateElement); err != nil {
				return err
			}
		}
	}
	for _, d := range au.SiafundElementDiffs() {
		if d.Created && !d.Spent {
			if err := refreshed("siafund", d.SiafundElement.StateElement); err != nil {
				return err
			}
		}
	}
	for _, d := range au.FileContractElementDiffs() {
		if d.Created && !d.Resolved {
			if err := refreshed("file contract", d.FileContractElement.StateElement); err != nil {
				return err
			}
		}
	}
	for _, d := range au.V2FileContractElementDiffs() {
		if d.Created && d.Resolution == nil {
			if err := refreshed("v2 file contract", d.V2FileContractElement.StateElement); err != nil {
				return err
			}
		}
	}
	if err := refreshed("chain index", au.ChainIndexElement().StateElement); err != nil {
		return err
	}
	if hasAtt {
		aes, err := attestationElements(au)
		if err != nil {
			return err
		}
		for _, ae := range aes {
			s.Att = append(s.Att, ae.Copy())
		}
	}
	return nil
}

// Revert folds a RevertUpdate into the store (inverse of Apply). parentLeaves
// is the leaf count of the state reverted to.
func (s *Store) Revert(ru consensus.RevertUpdate, parentLeaves uint64) {
	for _, d := range ru.SiacoinElementDiffs() {
		id := d.SiacoinElement.ID
		delete(s.DeadSC, id)
		if d.Created {
			delete(s.SC, id)
		} else if d.Spent {
			s.SC[id] = d.SiacoinElement.Copy()
		}
	}
	for _, d := range ru.SiafundElementDiffs() {
		id := d.SiafundElement.ID
		delete(s.DeadSF, id)
		if d.Created {
			delete(s.SF, id)
		} else if d.Spent {
			s.SF[id] = d.SiafundElement.Copy()
		}
	}
	for _, d := range ru.FileContractElementDiffs() {
		id := d.FileContractElement.ID
		delete(s.DeadFC, id)
		if d.Created {
			delete(s.FC, id)
		} else if d.Revision != nil || d.Resolved {
			s.FC[id] = copyFCE(d.FileContractElement)
		}
	}
	for _, d := range ru.V2FileContractElementDiffs() {
		id := d.V2FileContractElement.ID
		delete(s.DeadV2FC, id)
		if d.Created {
			delete(s.V2FC, id)
		} else if d.Revision != nil || d.Resolution != nil {
			s.V2FC[id] = d.V2FileContractElement.Copy()
		}
	}
	s.CI = s.CI[:len(s.CI)-1]
	for len(s.Att) > 0 && s.Att[len(s.Att)-1].StateElement.LeafIndex >= parentLeaves {
		s.Att = s.Att[:len(s.Att)-1]
	}
	s.updateAll(ru, parentLeaves, true)
}
