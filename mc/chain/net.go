// Package chain is engine E1: compact networks, a block builder, a user-view
// Store fed only by update diffs, an independent reference ledger fed only by
// block contents, an independent reference forest, and an explicit-state
// explorer that drives the REAL ValidateBlock / ApplyBlock / RevertBlock.
package chain

import (
	"crypto/sha256"
	"encoding/binary"
	"fmt"
	"time"

	"go.sia.tech/core/consensus"
	"go.sia.tech/core/types"
)

// Keys holds deterministic key pairs (renter, host, third party, foundation).
type Keys struct {
	Priv [4]types.PrivateKey
	Pub  [4]types.PublicKey
	Seed int64
}

// NewKeys derives keys from the seed (data independence: only hashes change).
func NewKeys(seed int64) *Keys {
	k := &Keys{Seed: seed}
	for i := range k.Priv {
		var b [16]byte
		binary.LittleEndian.PutUint64(b[:], uint64(seed))
		binary.LittleEndian.PutUint64(b[8:], uint64(i))
		s := sha256.Sum256(b[:])
		k.Priv[i] = types.NewPrivateKeyFromSeed(s[:])
		k.Pub[i] = k.Priv[i].PublicKey()
	}
	return k
}

// Address classes used by the models.
const (
	AddrV1   = iota // standard v1 unlock conditions 1-of-1 (key 0); spendable by v1 and (as uc policy) by v2
	AddrV2          // v2 pk(key 0) policy
	AddrACS         // anyone-can-spend (v2 only)
	AddrV1b         // standard v1 unlock conditions for key 1
	AddrV2b         // v2 pk(key 1)
	AddrVoid        // void
	AddrFnd         // foundation key (key 3) v1 standard address
	AddrFndV2       // foundation key (key 3) v2 pk address
	AddrNoSig       // v1 unlock conditions requiring ZERO signatures (spendable by anyone, v1 or v2 legacy policy)
	AddrThresh      // v2 threshold policy 2-of-3: pk(key 0), pk(key 1), opaque(above(2^40))
	numAddr
)

// Addr returns the address of a class.
func (k *Keys) Addr(class int) types.Address {
	switch class {
	case AddrV1:
		return types.StandardUnlockHash(k.Pub[0])
	case AddrV2:
		return types.StandardAddress(k.Pub[0])
	case AddrACS:
		return types.AnyoneCanSpend().Address()
	case AddrV1b:
		return types.StandardUnlockHash(k.Pub[1])
	case AddrV2b:
		return types.StandardAddress(k.Pub[1])
	case AddrVoid:
		return types.VoidAddress
	case AddrFnd:
		return types.StandardUnlockHash(k.Pub[3])
	case AddrFndV2:
		return types.StandardAddress(k.Pub[3])
	case AddrNoSig:
		return types.UnlockConditions{}.UnlockHash()
	case AddrThresh:
		return k.ThreshPolicy().Address()
	}
	panic("bad address class")
}

// ThreshPolicy is the 2-of-3 threshold policy of class AddrThresh, as its spender presents it (third branch opaque).
func (k *Keys) ThreshPolicy() types.SpendPolicy {
	return types.PolicyThreshold(2, []types.SpendPolicy{types.PolicyPublicKey(k.Pub[0]), types.PolicyPublicKey(k.Pub[1]), types.PolicyOpaque(types.PolicyAbove(1 << 40))})
}

// ClassOf returns the class of an address, or -1.
func (k *Keys) ClassOf(a types.Address) int {
	for c := 0; c < numAddr; c++ {
		if k.Addr(c) == a {
			return c
		}
	}
	return -1
}

// KeyOf returns the key index controlling a class.
func KeyOf(class int) int {
	switch class {
	case AddrV1, AddrV2:
		return 0
	case AddrV1b, AddrV2b:
		return 1
	case AddrFnd, AddrFndV2:
		return 3
	}
	return -1
}

// NetSpec describes a compact network.
type NetSpec struct {
	Name                                              string
	DevAddr, Tax, StorageProof, Oak, OakFix, ASIC, Fnd uint64
	Allow, Require, FinalCut, Ephemeral               uint64
	Maturity                                          uint64
	Interval                                          time.Duration
	NoSubsidy                                         bool // foundation subsidy address = void
}

const far = 1 << 40

// GenesisTime is the genesis timestamp of every compact network.
var GenesisTime = time.Unix(1618033988, 0)

// SubsidyInterval: 365 days / 36 blocks per year => Foundation subsidy every 3 blocks.
const SubsidyInterval = 365 * 24 * time.Hour / 36

// Specs of the base family (DESIGN 2.4).
func Specs() []NetSpec {
	return []NetSpec{
		{Name: "v1-eras", DevAddr: 1, Tax: 2, StorageProof: 3, Oak: 4, OakFix: 5, ASIC: 6, Fnd: 7, Allow: far, Require: far + 1, FinalCut: far + 2, Maturity: 2, Interval: SubsidyInterval},
		{Name: "v1-early", DevAddr: 3, Tax: 8, StorageProof: 12, Oak: 4, OakFix: 5, ASIC: 6, Fnd: 100, Allow: far, Require: far + 1, FinalCut: far + 2, Maturity: 1, Interval: SubsidyInterval},
		{Name: "v1-mid", DevAddr: 1, Tax: 2, StorageProof: 12, Oak: 3, OakFix: 3, ASIC: 4, Fnd: 3, Allow: far, Require: far + 1, FinalCut: far + 2, Maturity: 0, Interval: SubsidyInterval},
		{Name: "mixed", DevAddr: 1, Tax: 1, StorageProof: 1, Oak: 2, OakFix: 2, ASIC: 2, Fnd: 3, Allow: 4, Require: 9, FinalCut: 11, Ephemeral: 0, Maturity: 1, Interval: SubsidyInterval},
		{Name: "v2-only", DevAddr: 1, Tax: 1, StorageProof: 1, Oak: 1, OakFix: 1, ASIC: 1, Fnd: 1, Allow: 1, Require: 1, FinalCut: 6, Ephemeral: 0, Maturity: 1, Interval: SubsidyInterval},
		{Name: "acc", DevAddr: 1, Tax: 1, StorageProof: 1, Oak: 1, OakFix: 1, ASIC: 1, Fnd: 1, Allow: 1, Require: 1, FinalCut: far, Maturity: 0, Interval: SubsidyInterval, NoSubsidy: true},
		{Name: "v2-eph5", DevAddr: 1, Tax: 1, StorageProof: 1, Oak: 1, OakFix: 1, ASIC: 1, Fnd: 1, Allow: 1, Require: 1, FinalCut: 8, Ephemeral: 5, Maturity: 2, Interval: SubsidyInterval},
	}
}

// Spec returns a named spec.
func Spec(name string) NetSpec {
	for _, s := range Specs() {
		if s.Name == name {
			return s
		}
	}
	panic("unknown network " + name)
}

// Network builds the consensus.Network for a spec.
func (s NetSpec) Network(k *Keys) *consensus.Network {
	n := &consensus.Network{
		Name:            s.Name,
		InitialCoinbase: types.Siacoins(300000),
		MinimumCoinbase: types.Siacoins(299990),
		InitialTarget:   types.BlockID{0xFF, 0xFF},
		BlockInterval:   s.Interval,
		MaturityDelay:   s.Maturity,
	}
	n.HardforkDevAddr.Height = s.DevAddr
	n.HardforkDevAddr.OldAddress = k.Addr(AddrV1b)
	n.HardforkDevAddr.NewAddress = k.Addr(AddrV1)
	n.HardforkTax.Height = s.Tax
	n.HardforkStorageProof.Height = s.StorageProof
	n.HardforkOak.Height = s.Oak
	n.HardforkOak.FixHeight = s.OakFix
	n.HardforkOak.GenesisTimestamp = GenesisTime
	n.HardforkASIC.Height = s.ASIC
	n.HardforkASIC.OakTime = 10000 * time.Second
	n.HardforkASIC.OakTarget = n.InitialTarget
	n.HardforkASIC.NonceFactor = 7
	n.HardforkFoundation.Height = s.Fnd
	n.HardforkFoundation.PrimaryAddress = k.Addr(AddrFnd)
	n.HardforkFoundation.FailsafeAddress = k.Addr(AddrFndV2)
	if s.NoSubsidy {
		n.HardforkFoundation.PrimaryAddress = types.VoidAddress
	}
	n.HardforkV2.AllowHeight = s.Allow
	n.HardforkV2.RequireHeight = s.Require
	n.HardforkV2.FinalCutHeight = s.FinalCut
	n.HardforkV2.EphemeralOutputHeight = s.Ephemeral
	return n
}

func (s NetSpec) String() string { return fmt.Sprintf("%s(m=%d)", s.Name, s.Maturity) }
