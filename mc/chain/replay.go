package chain

import (
	"encoding/json"
	"fmt"
	"strings"

	"verifmc/vf"
)

// TraceCase is the replayable descriptor of an E1 violation.
type TraceCase struct {
	Model   string   `json:"model"`
	Network string   `json:"network"`
	Seed    int64    `json:"seed"`
	Trace   []string `json:"trace"`
}

// ReplayTrace re-executes a recorded trace (without the explorer) through the
// same world oracles. Steps: "empty", "block[a + b]", "revert(k)".
func ReplayTrace(c *vf.Ctx, raw json.RawMessage, menus func(model string) func(w *World) []Action, prop string, opt Options) {
	ReplayTraceWorld(c, raw, menus, prop, opt)
}

// ReplayTraceWorld is ReplayTrace returning the final world (nil on failure).
func ReplayTraceWorld(c *vf.Ctx, raw json.RawMessage, menus func(model string) func(w *World) []Action, prop string, opt Options) *World {
	var tc TraceCase
	if err := json.Unmarshal(raw, &tc); err != nil {
		c.HarnessError("bad trace case: %v", err)
		return nil
	}
	menu := menus(tc.Model)
	// the shared combinatorics models carry their own menus
	switch tc.Model {
	case "combo":
		menu = ComboMenu
	case "merged":
		menu = MergedMenu3
	case "expiry":
		menu = ExpiryMenu
	case "v1inblock":
		menu = V1InBlockMenu
	}
	if menu == nil {
		c.HarnessError("unknown model %q", tc.Model)
		return nil
	}
	keys := NewKeys(tc.Seed)
	w, p := NewWorld(Spec(tc.Network), keys, DefaultAlloc(keys), opt)
	if p != nil {
		c.Violate(prop+"|genesis|"+p.Sig, p.Desc, tc)
		return nil
	}
	for i, step := range tc.Trace {
		c.Count("evaluations", 1)
		switch {
		case step == "empty":
			b, bs := w.BuildBlock(nil, nil, BlockOpts{})
			if err, p := w.Apply(b, bs); p != nil {
				c.Violate(prop+"|"+p.Sig, p.Desc, tc)
				return nil
			} else if err != nil {
				c.Violate(prop+"|honest-rejected|empty", err.Error(), tc)
				return nil
			}
		case strings.HasPrefix(step, "revert("):
			var k int
			fmt.Sscanf(step, "revert(%d)", &k)
			for j := 0; j < k; j++ {
				if p := w.Revert(); p != nil {
					c.Violate(prop+"|"+p.Sig, p.Desc, tc)
					return nil
				}
			}
		case strings.HasPrefix(step, "block["):
			names := strings.Split(strings.TrimSuffix(strings.TrimPrefix(step, "block["), "]"), " + ")
			bc := w.NewBlockCtx()
			bc.AllowStaleResolve = true
			for _, n := range names {
				found := false
				for _, a := range menu(w) {
					if a.Name == n {
						found = true
						if !a.Do(bc) {
							c.HarnessError("step %d: action %s not applicable on replay", i, n)
							return nil
						}
						break
					}
				}
				if !found {
					c.HarnessError("step %d: unknown action %s", i, n)
					return nil
				}
			}
			b, bs := w.BuildBlock(bc.V1, bc.V2, BlockOpts{})
			if err, p := w.Apply(b, bs); p != nil {
				c.Violate(prop+"|"+p.Sig, p.Desc, tc)
				return nil
			} else if err != nil {
				c.Violate(prop+"|honest-rejected|"+lastName([]string{step}), err.Error(), tc)
				return nil
			}
		default:
			c.HarnessError("step %d: cannot replay %q", i, step)
			return nil
		}
	}
	c.Sample(tc)
	return w
}
