package chain

import (
	"go.sia.tech/core/consensus"
	"go.sia.tech/core/types"
)

// A Use is one transaction that consumes a specific element (spend / revise /
// resolve). It is the unit from which the C02 second-use attacks, the C04
// membership doors and the C08 boundary probes are assembled.
type Use struct {
	Name string
	V1   *types.Transaction
	V2   *types.V2Transaction
	// Resolves reports whether the use spends/resolves the element (true) or
	// merely revises it (false).
	Resolves bool
	// Stale v1 parents to be supplied through the block supplement.
	SuppSC []types.SiacoinElement
	SuppSF []types.SiafundElement
	SuppFC []types.FileContractElement
	// ForceSupp makes the supplied (possibly mutated) parents REPLACE what the
	// store would supply for the same IDs (C04 door 3).
	ForceSupp bool
	// Before: uses placed in the same block BEFORE this one (same-block interactions for single-use templates).
	Before []Use
	// EarlyWindowID: supply this block ID as the storage-proof window ID when the real window block does not exist yet.
	EarlyWindowID *types.BlockID
}

// UseV1SC spends p with a v1 transaction (p must carry a v1-class address).
func (w *World) UseV1SC(p types.SiacoinElement, tag byte) Use {
	c := w.Keys.ClassOf(p.SiacoinOutput.Address)
	txn := types.Transaction{SiacoinInputs: []types.SiacoinInput{{ParentID: p.ID, UnlockConditions: w.Keys.UCFor(c)}},
		SiacoinOutputs: []types.SiacoinOutput{{Value: p.SiacoinOutput.Value, Address: w.Keys.Addr(AddrV1)}}, ArbitraryData: [][]byte{{'u', tag}}}
	w.SignV1Whole(&txn)
	return Use{Name: "v1spend", V1: &txn, Resolves: true, SuppSC: []types.SiacoinElement{p.Copy()}}
}

// UseV2SC spends p with a v2 transaction.
func (w *World) UseV2SC(p types.SiacoinElement, tag byte) Use {
	txn := types.V2Transaction{SiacoinInputs: []types.V2SiacoinInput{{Parent: p.Copy()}},
		SiacoinOutputs: []types.SiacoinOutput{{Value: p.SiacoinOutput.Value, Address: w.Keys.Addr(AddrV2)}}, ArbitraryData: []byte{'u', tag}}
	w.SignV2(&txn)
	return Use{Name: "v2spend", V2: &txn, Resolves: true}
}

// UseV1SF spends a siafund element with a v1 transaction.
func (w *World) UseV1SF(p types.SiafundElement, tag byte) Use {
	c := w.Keys.ClassOf(p.SiafundOutput.Address)
	txn := types.Transaction{SiafundInputs: []types.SiafundInput{{ParentID: p.ID, UnlockConditions: w.Keys.UCFor(c), ClaimAddress: w.Keys.Addr(AddrV1)}},
		SiafundOutputs: []types.SiafundOutput{{Value: p.SiafundOutput.Value, Address: w.Keys.Addr(AddrV1)}}, ArbitraryData: [][]byte{{'u', tag}}}
	w.SignV1Whole(&txn)
	return Use{Name: "v1sfspend", V1: &txn, Resolves: true, SuppSF: []types.SiafundElement{p.Copy()}}
}

// UseV2SF spends a siafund element with a v2 transaction.
func (w *World) UseV2SF(p types.SiafundElement, tag byte) Use {
	txn := types.V2Transaction{SiafundInputs: []types.V2SiafundInput{{Parent: p.Copy(), ClaimAddress: w.Keys.Addr(AddrV2)}},
		SiafundOutputs: []types.SiafundOutput{{Value: p.SiafundOutput.Value, Address: w.Keys.Addr(AddrV2)}}, ArbitraryData: []byte{'u', tag}}
	w.SignV2(&txn)
	return Use{Name: "v2sfspend", V2: &txn, Resolves: true}
}

// UseV1Revise revises contract fce (current terms cur) by bumping the revision number by delta.
func (w *World) UseV1Revise(fce types.FileContractElement, cur types.FileContract, delta uint64) Use {
	rev := cur
	rev.ValidProofOutputs = append([]types.SiacoinOutput(nil), cur.ValidProofOutputs...)
	rev.MissedProofOutputs = append([]types.SiacoinOutput(nil), cur.MissedProofOutputs...)
	rev.RevisionNumber += delta
	txn := types.Transaction{FileContractRevisions: []types.FileContractRevision{{ParentID: fce.ID, UnlockConditions: w.Keys.UCForHash(cur.UnlockHash), FileContract: rev}}}
	w.SignV1Whole(&txn)
	return Use{Name: "v1revise", V1: &txn, SuppFC: []types.FileContractElement{copyFCE(fce)}}
}

// UseV1Proof proves contract fce; ok is false if the window-start block does not exist yet.
func (w *World) UseV1Proof(fce types.FileContractElement, cur types.FileContract) (Use, bool) {
	if cur.WindowStart < 1 || cur.WindowStart-1 >= uint64(len(w.Hist)) {
		return Use{}, false
	}
	txn := w.V1ProofTxn(fce.ID, cur, w.Hist[cur.WindowStart-1].B.ID())
	return Use{Name: "v1proof", V1: &txn, Resolves: true, SuppFC: []types.FileContractElement{copyFCE(fce)}}, true
}

// UseV1SCAsProofFee spends p entirely as the miner fee of a storage proof transaction for contract fce (a proof
// transaction may carry inputs and fees, nothing else).
func (w *World) UseV1SCAsProofFee(p types.SiacoinElement, fce types.FileContractElement, cur types.FileContract) (Use, bool) {
	u, ok := w.UseV1Proof(fce, cur)
	if !ok {
		return Use{}, false
	}
	c := w.Keys.ClassOf(p.SiacoinOutput.Address)
	u.V1.SiacoinInputs = []types.SiacoinInput{{ParentID: p.ID, UnlockConditions: w.Keys.UCFor(c)}}
	u.V1.MinerFees = []types.Currency{p.SiacoinOutput.Value}
	u.V1.Signatures = nil
	w.SignV1Whole(u.V1)
	u.Name = "v1spend-as-proof-fee"
	u.SuppSC = []types.SiacoinElement{p.Copy()}
	return u, true
}

// UseV2Revise revises a v2 contract by bumping the revision number by delta.
func (w *World) UseV2Revise(fce types.V2FileContractElement, cur types.V2FileContract, delta uint64) Use {
	rev := cur
	rev.RevisionNumber += delta
	w.SignContract(&rev, w.Keys.keyIndexOr0(cur.RenterPublicKey), w.Keys.keyIndexOr0(cur.HostPublicKey))
	txn := types.V2Transaction{FileContractRevisions: []types.V2FileContractRevision{{Parent: fce.Copy(), Revision: rev}}}
	return Use{Name: "v2revise", V2: &txn}
}

// UseV2Renew renews a v2 contract with full rollover topped up by a funding input.
func (w *World) UseV2Renew(fce types.V2FileContractElement, funding types.SiacoinElement) (Use, bool) {
	cur := fce.V2FileContract
	nc := w.NewV2Contract(w.ChildHeight(), 2, 2, cur.Filesize)
	nc.RenterPublicKey, nc.HostPublicKey = cur.RenterPublicKey, cur.HostPublicKey
	cost := nc.RenterOutput.Value.Add(nc.HostOutput.Value).Add(cur2(RefTaxV2(nc)))
	rn := types.V2FileContractRenewal{NewContract: nc,
		FinalRenterOutput: types.SiacoinOutput{Value: cur.RenterOutput.Value, Address: cur.RenterOutput.Address},
		FinalHostOutput:   types.SiacoinOutput{Value: cur.HostOutput.Value, Address: cur.HostOutput.Address}}
	if funding.SiacoinOutput.Value.Cmp(cost) < 0 {
		return Use{}, false
	}
	w.SignRenewal(&rn, w.Keys.keyIndexOr0(cur.RenterPublicKey), w.Keys.keyIndexOr0(cur.HostPublicKey))
	txn := types.V2Transaction{SiacoinInputs: []types.V2SiacoinInput{{Parent: funding.Copy()}},
		FileContractResolutions: []types.V2FileContractResolution{{Parent: fce.Copy(), Resolution: &rn}}}
	if change := funding.SiacoinOutput.Value.Sub(cost); !change.IsZero() {
		txn.SiacoinOutputs = []types.SiacoinOutput{{Value: change, Address: w.Keys.Addr(AddrV2)}}
	}
	w.SignV2(&txn)
	return Use{Name: "v2renew", V2: &txn, Resolves: true}, true
}

// UseV2Proof resolves a v2 contract with an honest storage proof.
func (w *World) UseV2Proof(fce types.V2FileContractElement) (Use, bool) {
	res, ok := w.V2ProofRes(fce.Copy())
	if !ok {
		return Use{}, false
	}
	txn := types.V2Transaction{FileContractResolutions: []types.V2FileContractResolution{res}}
	return Use{Name: "v2proof", V2: &txn, Resolves: true}, true
}

// UseV2Expire resolves a v2 contract by expiration.
func (w *World) UseV2Expire(fce types.V2FileContractElement) Use {
	txn := types.V2Transaction{FileContractResolutions: []types.V2FileContractResolution{{Parent: fce.Copy(), Resolution: &types.V2FileContractExpiration{}}}}
	return Use{Name: "v2expire", V2: &txn, Resolves: true}
}

// BlockOfUses builds a sealed block from uses (v1 transactions first, as the block format dictates).
// Stale v1 parents listed in the uses are supplied through the supplement when the store no longer has them.
func (w *World) BlockOfUses(uses ...Use) (types.Block, consensus.V1BlockSupplement) {
	return w.BlockOfUsesOpts(BlockOpts{}, uses...)
}

// BlockOfUsesOpts is BlockOfUses with block options.
func (w *World) BlockOfUsesOpts(o BlockOpts, uses0 ...Use) (types.Block, consensus.V1BlockSupplement) {
	var uses []Use
	for _, u := range uses0 {
		uses = append(uses, u.Before...)
		uses = append(uses, u)
	}
	var v1 []types.Transaction
	var v2 []types.V2Transaction
	var v1uses []Use
	for _, u := range uses {
		if u.V1 != nil {
			v1 = append(v1, *u.V1)
			v1uses = append(v1uses, u)
		}
		if u.V2 != nil {
			v2 = append(v2, u.V2.DeepCopy())
		}
	}
	if len(v2) > 0 {
		o.ForceV2 = true
	}
	b, bs := w.BuildBlock(v1, v2, o)
	for i, u := range v1uses {
		ts := &bs.Transactions[i]
		if u.ForceSupp {
			for _, e := range u.SuppSC {
				ts.SiacoinInputs = dropSC(ts.SiacoinInputs, e.ID)
			}
			for _, e := range u.SuppSF {
				ts.SiafundInputs = dropSF(ts.SiafundInputs, e.ID)
			}
			for _, e := range u.SuppFC {
				ts.RevisedFileContracts = dropFC(ts.RevisedFileContracts, e.ID)
				var sps []consensus.V1StorageProofSupplement
				for _, sp := range ts.StorageProofs {
					if sp.FileContract.ID != e.ID {
						sps = append(sps, sp)
					}
				}
				ts.StorageProofs = sps
			}
		}
		for _, e := range u.SuppSC {
			if !hasSC(ts.SiacoinInputs, e.ID) && txSpendsSC(v1[i], e.ID) {
				ts.SiacoinInputs = append(ts.SiacoinInputs, e.Copy())
			}
		}
		for _, e := range u.SuppSF {
			if !hasSF(ts.SiafundInputs, e.ID) {
				ts.SiafundInputs = append(ts.SiafundInputs, e.Copy())
			}
		}
		for _, e := range u.SuppFC {
			if len(v1[i].FileContractRevisions) > 0 && !hasFC(ts.RevisedFileContracts, e.ID) {
				ts.RevisedFileContracts = append(ts.RevisedFileContracts, copyFCE(e))
			}
			if len(v1[i].StorageProofs) > 0 {
				found := false
				for _, sp := range ts.StorageProofs {
					found = found || sp.FileContract.ID == e.ID
				}
				ws := e.FileContract.WindowStart
				if !found && ws >= 1 && ws-1 < uint64(len(w.Hist)) {
					ts.StorageProofs = append(ts.StorageProofs, consensus.V1StorageProofSupplement{FileContract: copyFCE(e), WindowID: w.Hist[ws-1].B.ID()})
				} else if !found && u.EarlyWindowID != nil {
					ts.StorageProofs = append(ts.StorageProofs, consensus.V1StorageProofSupplement{FileContract: copyFCE(e), WindowID: *u.EarlyWindowID})
				}
			}
		}
	}
	return b, bs
}

func txSpendsSC(t types.Transaction, id types.SiacoinOutputID) bool {
	for _, in := range t.SiacoinInputs {
		if in.ParentID == id {
			return true
		}
	}
	return false
}

func hasSC(l []types.SiacoinElement, id types.SiacoinOutputID) bool {
	for _, e := range l {
		if e.ID == id {
			return true
		}
	}
	return false
}

func hasSF(l []types.SiafundElement, id types.SiafundOutputID) bool {
	for _, e := range l {
		if e.ID == id {
			return true
		}
	}
	return false
}

func hasFC(l []types.FileContractElement, id types.FileContractID) bool {
	for _, e := range l {
		if e.ID == id {
			return true
		}
	}
	return false
}

func dropSC(l []types.SiacoinElement, id types.SiacoinOutputID) (out []types.SiacoinElement) {
	for _, e := range l {
		if e.ID != id {
			out = append(out, e)
		}
	}
	return
}

func dropSF(l []types.SiafundElement, id types.SiafundOutputID) (out []types.SiafundElement) {
	for _, e := range l {
		if e.ID != id {
			out = append(out, e)
		}
	}
	return
}

func dropFC(l []types.FileContractElement, id types.FileContractID) (out []types.FileContractElement) {
	for _, e := range l {
		if e.ID != id {
			out = append(out, e)
		}
	}
	return
}
