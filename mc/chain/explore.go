package chain

import (
	"crypto/sha256"
	"encoding/binary"
	"fmt"
	"sort"
	"strings"
	"sync"
	"sync/atomic"

	"go.sia.tech/core/consensus"
	"go.sia.tech/core/types"
	"verifmc/vf"
)

// Model describes one E1 exploration (DESIGN 2.1).
type Model struct {
	Name  string
	Spec  NetSpec
	Alloc func(k *Keys) GenesisAlloc
	Opt   Options
	Menu  func(w *World) []Action // honest actions, canonical order
	H     uint64                  // horizon (max height)
	D     int                     // max deviations (non-empty blocks and reverts)
	K     int                     // max actions per block
	R     int                     // max revert depth (0 = no reverts)
	// LeafKey: include accumulator positions in the canonical key (accumulator models).
	LeafKey bool
	// OnState is the model oracle / attack menu, run once per distinct state.
	OnState func(x *Explorer, w *World, path []string)
	// OnTransition runs after every accepted honest block (w is the successor).
	OnTransition func(x *Explorer, prev, w *World, path []string)
	// StopWhenSpent ends a trace as soon as the deviation budget is used up (no empty blocks up to the horizon):
	// for "block combinatorics" models whose subject is the last non-empty block itself.
	StopWhenSpent bool
	// StaleResolve enables same-block revise->resolve tuples (C07).
	StaleResolve bool
	// SkipStart: number of initial empty blocks mined before exploration starts.
	SkipStart uint64
}

// Explorer runs a model.
type Explorer struct {
	C     *vf.Ctx
	M     *Model
	Keys  *Keys
	Prop  string // property id prefix for violation signatures
	mu    [64]sync.Mutex
	seen  [64]map[[20]byte]int8 // key -> max remaining budget explored
	States, Transitions, Accepted, Rejected, Traces atomic.Int64
	MaxDepth atomic.Int64
	stop  atomic.Bool
	sem   chan struct{}
	wg    sync.WaitGroup
	pmu   sync.Mutex
	panicVal any
	rejectHist sync.Map // reason class -> *atomic.Int64
	feat       sync.Map // feature -> *atomic.Int64
}

// NewExplorer creates an explorer.
func NewExplorer(c *vf.Ctx, m *Model, prop string) *Explorer {
	x := &Explorer{C: c, M: m, Keys: NewKeys(c.Seed), Prop: prop}
	for i := range x.seen {
		x.seen[i] = map[[20]byte]int8{}
	}
	return x
}

// Violate records a violation with a replayable trace.
func (x *Explorer) Violate(sig, desc string, path []string) {
	x.C.Violate(x.Prop+"|"+sig, fmt.Sprintf("[model %s, network %s] %s\n  trace: %s", x.M.Name, x.M.Spec.Name, desc, strings.Join(path, " ; ")),
		map[string]any{"model": x.M.Name, "network": x.M.Spec.Name, "seed": x.C.Seed, "trace": path})
}

// Key is the canonical ID-free state key (DESIGN 2.3).
func (x *Explorer) Key(w *World) [20]byte {
	h := sha256.New()
	var b8 [8]byte
	put := func(v uint64) { binary.LittleEndian.PutUint64(b8[:], v); h.Write(b8[:]) }
	put(w.Height())
	put(w.CS.SiafundTaxRevenue.Lo)
	put(w.CS.SiafundTaxRevenue.Hi)
	put(w.CS.Attestations)
	put(w.CS.Elements.NumLeaves)
	put(uint64(w.Keys.ClassOf(w.CS.FoundationSubsidyAddress) + 1))
	put(uint64(w.Keys.ClassOf(w.CS.FoundationManagementAddress) + 1))
	ht := w.Height()
	var items []string
	for _, id := range w.Ref.Order {
		e := w.Ref.Elems[id]
		if e.Dead && !x.M.LeafKey {
			continue
		}
		leaf := uint64(0)
		if x.M.LeafKey {
			leaf = e.Leaf + 1
		}
		rel := func(v uint64) int64 { return int64(v) - int64(ht) }
		switch e.Kind {
		case KSC:
			m := rel(e.Maturity)
			if m < 0 {
				m = -1
			}
			items = append(items, fmt.Sprintf("sc|%v|%d|%d|%d|%v", e.SC.Value, m, w.Keys.ClassOf(e.SC.Address), leaf, e.Dead))
		case KSF:
			items = append(items, fmt.Sprintf("sf|%d|%v|%d|%d|%v", e.SF.Value, e.Claim, w.Keys.ClassOf(e.SF.Address), leaf, e.Dead))
		case KFC:
			fc := e.FC
			items = append(items, fmt.Sprintf("fc|%d|%d|%d|%v|%v|%v|%d|%d|%v", fc.Filesize, rel(fc.WindowStart), rel(fc.WindowEnd), fc.Payout, fc.ValidProofOutputs, fc.MissedProofOutputs, fc.RevisionNumber, leaf, e.Dead))
		case KV2FC:
			fc := e.V2FC
			items = append(items, fmt.Sprintf("v2|%d|%d|%d|%d|%v|%v|%v|%v|%d|%d|%d|%d|%v", fc.Capacity, fc.Filesize, rel(fc.ProofHeight), rel(fc.ExpirationHeight), fc.RenterOutput.Value, fc.HostOutput.Value,
				fc.MissedHostValue, fc.TotalCollateral, w.Keys.keyIndex(fc.RenterPublicKey), w.Keys.keyIndex(fc.HostPublicKey), fc.RevisionNumber, leaf, e.Dead))
		}
	}
	if !x.M.LeafKey {
		sort.Strings(items)
	}
	for _, it := range items {
		h.Write([]byte(it))
		h.Write([]byte{0})
	}
	var k [20]byte
	copy(k[:], h.Sum(nil))
	return k
}

// visit reports whether the state must be expanded with this budget and whether it is new.
func (x *Explorer) visit(k [20]byte, budget int) (expand, isNew bool) {
	s := int(k[0]) % len(x.seen)
	x.mu[s].Lock()
	defer x.mu[s].Unlock()
	old, ok := x.seen[s][k]
	if ok && int(old) >= budget {
		return false, false
	}
	if !ok {
		x.C.DistinctBytes(k[:])
	}
	x.seen[s][k] = int8(budget)
	return true, !ok
}

// Tuples enumerates all ordered tuples of 1..K menu actions (v1 actions never after v2 ones).
func tuples(n, k int, fn func(idx []int)) {
	var rec func(cur []int)
	rec = func(cur []int) {
		if len(cur) > 0 {
			fn(cur)
		}
		if len(cur) == k {
			return
		}
		for i := 0; i < n; i++ {
			rec(append(cur, i))
		}
	}
	rec(nil)
}

func rejectClass(err error) string {
	s := err.Error()
	for _, kw := range []string{"commitment", "double-spend", "already", "not present in the accumulator", "invalid signature", "failed to satisfy", "immature", "timelock", "nonexistent", "miner payout", "do not equal", "proof", "window", "height", "weight", "not allowed", "zero"} {
		if strings.Contains(s, kw) {
			return kw
		}
	}
	return "other"
}

// CountReject histograms rejection reasons (never compared, only reported).
func (x *Explorer) CountReject(err error) {
	c, _ := x.rejectHist.LoadOrStore(rejectClass(err), new(atomic.Int64))
	c.(*atomic.Int64).Add(1)
}

// TryBlock validates a block (counted as a transition) without applying it.
func (x *Explorer) TryBlock(w *World, b types.Block, bs consensus.V1BlockSupplement) (err error, panicked any) {
	x.Transitions.Add(1)
	panicked, _ = try(func() { err = consensus.ValidateBlock(w.CS, b, bs) })
	if panicked == nil {
		if err != nil {
			x.Rejected.Add(1)
			x.CountReject(err)
		} else {
			x.Accepted.Add(1)
		}
	}
	return
}

// Run explores the model exhaustively within its bounds, iterating the deviation bound 0..D.
func (x *Explorer) Run() {
	m := x.M
	alloc := DefaultAlloc
	if m.Alloc != nil {
		alloc = m.Alloc
	}
	w0, p := NewWorld(m.Spec, x.Keys, alloc(x.Keys), m.Opt)
	if p != nil {
		x.Violate("genesis|"+p.Sig, p.Desc, []string{"genesis"})
		return
	}
	path0 := []string{}
	for w0.Height() < m.SkipStart {
		b, bs := w0.BuildBlock(nil, nil, BlockOpts{})
		if err, p := w0.Apply(b, bs); err != nil || p != nil {
			x.Violate("prefix", fmt.Sprintf("empty prefix block rejected: %v %v", err, p), path0)
			return
		}
		path0 = append(path0, "empty")
	}
	// Parallel DFS: a successor is explored in a new goroutine whenever a
	// worker slot is free, inline otherwise (balances lopsided subtrees).
	x.sem = make(chan struct{}, vf.Workers())
	x.sem <- struct{}{}
	x.wg.Add(1)
	go func() {
		defer x.wg.Done()
		defer func() { <-x.sem }()
		x.dfs(w0, m.D, path0)
	}()
	x.wg.Wait()
	if x.panicVal != nil {
		panic(x.panicVal)
	}
}

func (x *Explorer) dfs(w *World, d int, path []string) {
	x.expand(w, d, path, func(nw *World, np []string, nd int) {
		select {
		case x.sem <- struct{}{}:
			x.wg.Add(1)
			go func() {
				defer x.wg.Done()
				defer func() { <-x.sem }()
				defer func() {
					if r := recover(); r != nil {
						x.pmu.Lock()
						if x.panicVal == nil {
							x.panicVal = fmt.Sprintf("explorer panic: %v\n%s", r, stackTrace())
						}
						x.pmu.Unlock()
						x.stop.Store(true)
					}
				}()
				x.dfs(nw, nd, np)
			}()
		default:
			x.dfs(nw, nd, np)
		}
	})
}

// expand visits state w (oracle + attacks) and calls next for every successor.
func (x *Explorer) expand(w *World, d int, path []string, next func(w *World, path []string, d int)) {
	if x.stop.Load() || x.C.Expired() {
		x.stop.Store(true)
		return
	}
	m := x.M
	expand, isNew := x.visit(x.Key(w), d)
	if !expand {
		return
	}
	if int64(len(path)) > x.MaxDepth.Load() {
		x.MaxDepth.Store(int64(len(path)))
	}
	if isNew {
		x.States.Add(1)
		if m.OnState != nil {
			m.OnState(x, w, path)
		}
	}
	if w.Height() >= m.H {
		x.Traces.Add(1)
		return
	}
	if m.StopWhenSpent && d <= 0 {
		x.Traces.Add(1)
		return
	}
	// default move: empty block (no deviation)
	{
		nw := w.Clone()
		b, bs := nw.BuildBlock(nil, nil, BlockOpts{})
		np := append(append([]string(nil), path...), "empty")
		if x.step(w, nw, b, bs, np, true) {
			next(nw, np, d)
		}
	}
	if d <= 0 {
		return
	}
	menu := m.Menu(w)
	tuples(len(menu), m.K, func(idx []int) {
		if x.stop.Load() {
			return
		}
		nw := w.Clone()
		bc := nw.NewBlockCtx()
		bc.AllowStaleResolve = true // a renewal may follow a revision of the same contract in one block (it presents the pre-block parent)
		var names []string
		for _, i := range idx {
			if !menu[i].Do(bc) {
				return // precondition fails: tuple not applicable in this state
			}
			names = append(names, menu[i].Name)
		}
		b, bs := nw.BuildBlock(bc.V1, bc.V2, BlockOpts{})
		np := append(append([]string(nil), path...), "block["+strings.Join(names, " + ")+"]")
		if x.step(w, nw, b, bs, np, !bc.ExpectReject) {
			next(nw, np, d-1)
		} else if bc.ExpectReject {
			x.Feat("legacy_only_action_rejected")
		}
	})
	// reverts
	for k := 1; k <= m.R && k < len(w.Hist)-int(m.SkipStart); k++ {
		nw := w.Clone()
		np := append(append([]string(nil), path...), fmt.Sprintf("revert(%d)", k))
		ok := true
		for i := 0; i < k; i++ {
			if p := nw.Revert(); p != nil {
				x.Violate(p.Sig, p.Desc, np)
				ok = false
				break
			}
		}
		if ok {
			x.Feat(fmt.Sprintf("revert_depth_%d", k))
			next(nw, np, d-1)
		}
	}
}

// step validates+applies an honest block on nw (a clone of w). It reports a
// violation if the honest block is rejected or an oracle fails.
func (x *Explorer) step(w, nw *World, b types.Block, bs consensus.V1BlockSupplement, path []string, honest bool) bool {
	x.Transitions.Add(1)
	err, p := nw.ApplyFrom(w, b, bs)
	if p != nil {
		x.Violate(p.Sig, p.Desc, path)
		return false
	}
	if err != nil {
		x.Rejected.Add(1)
		x.CountReject(err)
		if honest {
			x.Violate("honest-rejected|"+lastName(path), fmt.Sprintf("honest block rejected at height %d: %v", w.ChildHeight(), err), path)
		}
		return false
	}
	x.Accepted.Add(1)
	x.features(nw, b)
	if x.M.OnTransition != nil {
		x.M.OnTransition(x, w, nw, path)
	}
	return true
}

// Feat counts a feature exercised by the exploration (vacuity guard).
func (x *Explorer) Feat(name string) {
	c, _ := x.feat.LoadOrStore(name, new(atomic.Int64))
	c.(*atomic.Int64).Add(1)
}

// features records which ledger features an accepted block exercised.
func (x *Explorer) features(nw *World, b types.Block) {
	for _, t := range b.Transactions {
		if len(t.SiacoinInputs) > 0 {
			x.Feat("v1_sc_spend")
		}
		if len(t.SiafundInputs) > 0 {
			x.Feat("v1_sf_spend_claim")
		}
		if len(t.FileContracts) > 0 {
			x.Feat("v1_fc_form")
		}
		if len(t.FileContractRevisions) > 0 {
			x.Feat("v1_fc_revise")
		}
		if len(t.StorageProofs) > 0 {
			x.Feat("v1_fc_proof")
		}
		if len(t.MinerFees) > 0 {
			x.Feat("v1_fee")
		}
	}
	for _, t := range b.V2Transactions() {
		for _, in := range t.SiacoinInputs {
			if in.Parent.StateElement.LeafIndex == types.UnassignedLeafIndex {
				x.Feat("v2_ephemeral_spend")
			} else {
				x.Feat("v2_sc_spend")
			}
		}
		if len(t.SiafundInputs) > 0 {
			x.Feat("v2_sf_spend_claim")
		}
		if len(t.FileContracts) > 0 {
			x.Feat("v2_fc_form")
		}
		if len(t.FileContractRevisions) > 0 {
			x.Feat("v2_fc_revise")
		}
		for _, r := range t.FileContractResolutions {
			switch r.Resolution.(type) {
			case *types.V2FileContractRenewal:
				x.Feat("v2_fc_renew")
			case *types.V2StorageProof:
				x.Feat("v2_fc_proof")
			case *types.V2FileContractExpiration:
				x.Feat("v2_fc_expire")
			}
		}
		if len(t.Attestations) > 0 {
			x.Feat("v2_attestation")
		}
		if t.NewFoundationAddress != nil {
			x.Feat("v2_foundation_update")
		}
		if !t.MinerFee.IsZero() {
			x.Feat("v2_fee")
		}
	}
	a := nw.Hist[len(nw.Hist)-1]
	for _, id := range a.Eff.Spent {
		if e := nw.Ref.Elems[id]; e.Kind == KFC && !e.Valid {
			x.Feat("v1_fc_expire")
		}
	}
	if len(a.Eff.Created) > 2 && len(b.Transactions)+len(b.V2Transactions()) == 0 {
		x.Feat("subsidy_or_expiry_in_empty_block")
	}
	if len(b.Transactions) > 0 && len(b.V2Transactions()) > 0 {
		x.Feat("mixed_v1_v2_block")
	}
}

func lastName(path []string) string {
	if len(path) == 0 {
		return ""
	}
	s := path[len(path)-1]
	// strip parameters for a stable signature
	out := []rune{}
	depth := 0
	for _, r := range s {
		switch r {
		case '(':
			depth++
		case ')':
			depth--
		default:
			if depth == 0 {
				out = append(out, r)
			}
		}
	}
	return string(out)
}

// Report copies the exploration counters into the evidence.
func (x *Explorer) Report(prefix string) {
	c := x.C
	c.Count("states", x.States.Load())
	c.Count("transitions", x.Transitions.Load())
	c.Count("traces_validated_against_impl", x.Traces.Load())
	c.Count("evaluations", x.Transitions.Load())
	c.Count("accepted_blocks", x.Accepted.Load())
	c.Count("rejected_blocks", x.Rejected.Load())
	hist := map[string]int64{}
	x.rejectHist.Range(func(k, v any) bool { hist[k.(string)] = v.(*atomic.Int64).Load(); return true })
	c.Set(prefix+"reject_reasons", hist)
	feats := map[string]int64{}
	x.feat.Range(func(k, v any) bool {
		feats[k.(string)] = v.(*atomic.Int64).Load()
		c.Count("feature:"+k.(string), v.(*atomic.Int64).Load())
		return true
	})
	c.Set(prefix+"features", feats)
	c.Set(prefix+"bounds", map[string]any{"network": x.M.Spec.Name, "H": x.M.H, "D": x.M.D, "K": x.M.K, "R": x.M.R, "max_depth_reached": x.MaxDepth.Load(),
		"states": x.States.Load(), "transitions": x.Transitions.Load(), "complete_traces": x.Traces.Load()})
}
