package chain

import (
	"bytes"
	"fmt"
	"math/big"
	"sort"
	"time"

	"go.sia.tech/core/consensus"
	"go.sia.tech/core/types"
	"verifmc/spec"
)

// The reference ledger is built ONLY from block contents, with its own
// arithmetic (math/big for the supply equation, the tax and the claims).
// Element IDs are obtained from the exported ID derivation methods (their
// binding properties are C12's business).

// Kind of a ledger element.
const (
	KSC = iota
	KSF
	KFC
	KV2FC
	KAtt
	KCI
)

// RefElem is one element known to the reference ledger.
type RefElem struct {
	Kind     int
	ID       types.Hash256
	Leaf     uint64 // accumulator position (taken from the implementation's diffs, range-checked)
	Seq      int    // creation sequence number
	Created  uint64 // height of creating block
	Dead     bool   // spent / resolved
	DeadAt   uint64
	SC       types.SiacoinOutput
	Maturity uint64
	SF       types.SiafundOutput
	Claim    types.Currency // claim start
	FC       types.FileContract
	V2FC     types.V2FileContract
	RevAt    uint64 // height of the block that accepted the latest v2 revision (creation height if never revised)
	Att      types.Attestation
	CI       types.ChainIndex
	Valid    bool // v1 resolution kind
}

// ElemHash computes the reference element hash for the current contents.
func (e *RefElem) ElemHash() types.Hash256 {
	switch e.Kind {
	case KSC:
		return spec.SiacoinElemHash(types.SiacoinOutputID(e.ID), e.SC, e.Maturity)
	case KSF:
		return spec.SiafundElemHash(types.SiafundOutputID(e.ID), e.SF, e.Claim)
	case KFC:
		return spec.FileContractElemHash(types.FileContractID(e.ID), e.FC)
	case KV2FC:
		return spec.V2FileContractElemHash(types.FileContractID(e.ID), e.V2FC)
	case KAtt:
		return spec.AttestationElemHash(types.AttestationID(e.ID), e.Att)
	case KCI:
		return spec.ChainIndexElemHash(types.BlockID(e.ID), e.CI)
	}
	panic("kind")
}

// RefLedger is the independent bookkeeper.
type RefLedger struct {
	Elems map[types.Hash256]*RefElem
	Order []types.Hash256 // creation order

	Height    uint64 // height of the tip (genesis = 0)
	HasTip    bool
	TaxPool   *big.Int // cumulative tax collected
	Claims    *big.Int // cumulative claims paid
	Forfeited *big.Int // v2 expirations: host - missedHost
	// Overpaid: v2 expirations that paid MORE than the contract held (missed host value above the host output);
	// OverpaidCurrent is set if one of them stems from a revision accepted at or above the ephemeral-output height.
	Overpaid        *big.Int
	OverpaidCurrent bool
	Minted    *big.Int // block rewards + foundation subsidies (incl. genesis payouts)
	Genesis   *big.Int // siacoins allocated by genesis transactions
	GenesisSF uint64
	FndPrimary, FndFailsafe types.Address

	Net  *consensus.Network
	seq  int
}

// NewRefLedger creates an empty ledger.
func NewRefLedger(n *consensus.Network) *RefLedger {
	return &RefLedger{Elems: map[types.Hash256]*RefElem{}, TaxPool: new(big.Int), Claims: new(big.Int),
		Forfeited: new(big.Int), Overpaid: new(big.Int), Minted: new(big.Int), Genesis: new(big.Int), Net: n,
		FndPrimary: n.HardforkFoundation.PrimaryAddress, FndFailsafe: n.HardforkFoundation.FailsafeAddress}
}

// Clone deep-copies the ledger.
func (r *RefLedger) Clone() *RefLedger {
	c := *r
	// copy-on-write: element records are shared between clones and never
	// mutated in place (every mutation goes through mut, which copies first).
	c.Elems = make(map[types.Hash256]*RefElem, len(r.Elems))
	for id, e := range r.Elems {
		c.Elems[id] = e
	}
	c.Order = append([]types.Hash256(nil), r.Order...)
	c.TaxPool = new(big.Int).Set(r.TaxPool)
	c.Claims = new(big.Int).Set(r.Claims)
	c.Forfeited = new(big.Int).Set(r.Forfeited)
	c.Overpaid = new(big.Int).Set(r.Overpaid)
	c.Minted = new(big.Int).Set(r.Minted)
	c.Genesis = new(big.Int).Set(r.Genesis)
	return &c
}

// Mut returns a private, mutable copy of element id (copy-on-write).
func (r *RefLedger) Mut(id types.Hash256) *RefElem {
	e := r.Elems[id]
	ce := *e
	r.Elems[id] = &ce
	return &ce
}

func cur(b *big.Int) types.Currency {
	if b.Sign() < 0 || b.BitLen() > 128 {
		panic(fmt.Sprintf("reference value out of currency range: %v", b))
	}
	lo := new(big.Int).And(b, new(big.Int).SetUint64(^uint64(0))).Uint64()
	hi := new(big.Int).Rsh(b, 64).Uint64()
	return types.NewCurrency(lo, hi)
}

// RefTaxV1 is the v1 contract tax at child height h.
func RefTaxV1(n *consensus.Network, h uint64, payout types.Currency) *big.Int {
	p := payout.Big()
	var t *big.Int
	if h < n.HardforkTax.Height {
		r := new(big.Rat).SetInt(p)
		r.Mul(r, new(big.Rat).SetFloat64(0.039))
		t = new(big.Int).Quo(r.Num(), r.Denom())
	} else {
		t = new(big.Int).Mul(p, big.NewInt(39))
		t.Quo(t, big.NewInt(1000))
	}
	t.Sub(t, new(big.Int).Mod(t, big.NewInt(10000)))
	return t
}

// RefTaxV2 is the v2 contract tax: (renter+host)/25.
func RefTaxV2(fc types.V2FileContract) *big.Int {
	s := new(big.Int).Add(fc.RenterOutput.Value.Big(), fc.HostOutput.Value.Big())
	return s.Quo(s, big.NewInt(25))
}

// RefReward is the block reward for child height h.
func RefReward(n *consensus.Network, h uint64) *big.Int {
	sc := new(big.Int).Exp(big.NewInt(10), big.NewInt(24), nil)
	r := new(big.Int).Sub(n.InitialCoinbase.Big(), new(big.Int).Mul(sc, new(big.Int).SetUint64(h)))
	if r.Cmp(n.MinimumCoinbase.Big()) < 0 {
		return n.MinimumCoinbase.Big()
	}
	return r
}

// RefSubsidy is the foundation subsidy for child height h (nil if none).
func RefSubsidy(n *consensus.Network, h uint64, primary types.Address) *big.Int {
	if primary == types.VoidAddress {
		return nil
	}
	perYear := uint64(365 * 24 * time.Hour / n.BlockInterval)
	perMonth := perYear / 12
	fh := n.HardforkFoundation.Height
	if h < fh || (h-fh)%perMonth != 0 {
		return nil
	}
	sc := new(big.Int).Exp(big.NewInt(10), big.NewInt(24), nil)
	per := new(big.Int).Mul(sc, big.NewInt(30000))
	if h == fh {
		return per.Mul(per, new(big.Int).SetUint64(perYear))
	}
	return per.Mul(per, new(big.Int).SetUint64(perMonth))
}

// Effects lists what a block did, in the reference's view.
type Effects struct {
	Created []types.Hash256 // ids of elements created by the block (incl. ephemeral ones)
	Touched []types.Hash256 // ids of pre-existing elements whose leaf changed (spent / revised / resolved)
	Spent   []types.Hash256 // every spend/resolution event in order (for the no-repeat oracle)
	ClaimsPaid []ClaimCheck
	Fees    *big.Int
}

// ClaimCheck records one siafund claim for the exact-share oracle.
type ClaimCheck struct {
	OutputID types.SiacoinOutputID
	Want     types.Currency
}

func (r *RefLedger) add(e *RefElem) {
	e.Seq = r.seq
	r.seq++
	if _, dup := r.Elems[e.ID]; dup {
		panic(fmt.Sprintf("reference ledger: duplicate element id %x (kind %d)", e.ID[:4], e.Kind))
	}
	r.Elems[e.ID] = e
	r.Order = append(r.Order, e.ID)
}

// ApplyBlock folds a block (already accepted by the implementation) into the
// ledger. It panics with a descriptive message if the block does something the
// reference considers impossible (unknown parent, double spend) - the caller
// turns that into a violation, since the implementation accepted it.
func (r *RefLedger) ApplyBlock(b types.Block) (eff Effects) {
	h := uint64(0)
	if r.HasTip {
		h = r.Height + 1
	}
	genesis := !r.HasTip
	eff.Fees = new(big.Int)
	created := map[types.Hash256]bool{}
	touched := map[types.Hash256]bool{}
	create := func(e *RefElem) {
		e.Created = h
		e.RevAt = h
		r.add(e)
		created[e.ID] = true
		eff.Created = append(eff.Created, e.ID)
	}
	touch := func(id types.Hash256) {
		if !created[id] && !touched[id] {
			touched[id] = true
			eff.Touched = append(eff.Touched, id)
		}
	}
	kill := func(id types.Hash256, kind int, what string) *RefElem {
		e, ok := r.Elems[id]
		if !ok || e.Kind != kind {
			panic(fmt.Sprintf("reference: %s of unknown element %x", what, id[:4]))
		}
		if e.Dead {
			panic(fmt.Sprintf("reference: %s of already spent/resolved element %x (dead at height %d)", what, id[:4], e.DeadAt))
		}
		e = r.Mut(id)
		e.Dead, e.DeadAt = true, h
		touch(id)
		eff.Spent = append(eff.Spent, id)
		return e
	}
	maturity := h + r.Net.MaturityDelay
	payClaim := func(sf *RefElem, outID types.SiacoinOutputID, addr types.Address) {
		share := new(big.Int).Sub(r.TaxPool, sf.Claim.Big())
		share.Quo(share, big.NewInt(10000))
		share.Mul(share, new(big.Int).SetUint64(sf.SF.Value))
		r.Claims.Add(r.Claims, share)
		create(&RefElem{Kind: KSC, ID: types.Hash256(outID), SC: types.SiacoinOutput{Value: cur(share), Address: addr}, Maturity: maturity})
		eff.ClaimsPaid = append(eff.ClaimsPaid, ClaimCheck{outID, cur(share)})
	}

	for ti := range b.Transactions {
		txn := &b.Transactions[ti]
		for _, in := range txn.SiacoinInputs {
			kill(types.Hash256(in.ParentID), KSC, "v1 spend")
		}
		for i, o := range txn.SiacoinOutputs {
			create(&RefElem{Kind: KSC, ID: types.Hash256(txn.SiacoinOutputID(i)), SC: o})
			if genesis {
				r.Genesis.Add(r.Genesis, o.Value.Big())
			}
		}
		for _, in := range txn.SiafundInputs {
			sf := kill(types.Hash256(in.ParentID), KSF, "v1 siafund spend")
			payClaim(sf, in.ParentID.ClaimOutputID(), in.ClaimAddress)
		}
		for i, o := range txn.SiafundOutputs {
			create(&RefElem{Kind: KSF, ID: types.Hash256(txn.SiafundOutputID(i)), SF: o, Claim: cur(r.TaxPool)})
			if genesis {
				r.GenesisSF += o.Value
			}
		}
		for i, fc := range txn.FileContracts {
			create(&RefElem{Kind: KFC, ID: types.Hash256(txn.FileContractID(i)), FC: fc})
			r.TaxPool.Add(r.TaxPool, RefTaxV1(r.Net, h, fc.Payout))
			if genesis {
				r.Genesis.Add(r.Genesis, fc.Payout.Big())
			}
		}
		for _, rev := range txn.FileContractRevisions {
			e, ok := r.Elems[types.Hash256(rev.ParentID)]
			if !ok || e.Kind != KFC || e.Dead {
				panic(fmt.Sprintf("reference: v1 revision of unknown/resolved contract %x", rev.ParentID[:4]))
			}
			nfc := rev.FileContract
			nfc.Payout = e.FC.Payout
			e = r.Mut(e.ID)
			e.FC = nfc
			touch(e.ID)
		}
		for _, sp := range txn.StorageProofs {
			e := kill(types.Hash256(sp.ParentID), KFC, "v1 storage proof")
			e.Valid = true
			for i, o := range e.FC.ValidProofOutputs {
				create(&RefElem{Kind: KSC, ID: types.Hash256(sp.ParentID.ValidOutputID(i)), SC: o, Maturity: maturity})
			}
		}
		for _, fee := range txn.MinerFees {
			eff.Fees.Add(eff.Fees, fee.Big())
		}
		if r.HasTip && r.Height >= r.Net.HardforkFoundation.Height {
			for _, arb := range txn.ArbitraryData {
				if bytes.HasPrefix(arb, types.SpecifierFoundation[:]) && len(arb) >= 16+64 {
					copy(r.FndPrimary[:], arb[16:48])
					copy(r.FndFailsafe[:], arb[48:80])
				}
			}
		}
	}
	for ti := range b.V2Transactions() {
		txn := &b.V2.Transactions[ti]
		txid := txn.ID()
		for _, in := range txn.SiacoinInputs {
			kill(types.Hash256(in.Parent.ID), KSC, "v2 spend")
		}
		for i, o := range txn.SiacoinOutputs {
			create(&RefElem{Kind: KSC, ID: types.Hash256(txn.SiacoinOutputID(txid, i)), SC: o})
		}
		for _, in := range txn.SiafundInputs {
			sf := kill(types.Hash256(in.Parent.ID), KSF, "v2 siafund spend")
			payClaim(sf, in.Parent.ID.V2ClaimOutputID(), in.ClaimAddress)
		}
		for i, o := range txn.SiafundOutputs {
			create(&RefElem{Kind: KSF, ID: types.Hash256(txn.SiafundOutputID(txid, i)), SF: o, Claim: cur(r.TaxPool)})
		}
		for i, fc := range txn.FileContracts {
			create(&RefElem{Kind: KV2FC, ID: types.Hash256(txn.V2FileContractID(txid, i)), V2FC: fc})
			r.TaxPool.Add(r.TaxPool, RefTaxV2(fc))
		}
		for _, rev := range txn.FileContractRevisions {
			e, ok := r.Elems[types.Hash256(rev.Parent.ID)]
			if !ok || e.Kind != KV2FC || e.Dead {
				panic(fmt.Sprintf("reference: v2 revision of unknown/resolved contract %x", rev.Parent.ID[:4]))
			}
			e = r.Mut(e.ID)
			e.V2FC = rev.Revision
			e.RevAt = h
			touch(e.ID)
		}
		for _, res := range txn.FileContractResolutions {
			e := kill(types.Hash256(res.Parent.ID), KV2FC, "v2 resolution")
			fc := e.V2FC // latest accepted revision
			var renter, host types.SiacoinOutput
			switch rr := res.Resolution.(type) {
			case *types.V2FileContractRenewal:
				renter, host = rr.FinalRenterOutput, rr.FinalHostOutput
				create(&RefElem{Kind: KV2FC, ID: types.Hash256(res.Parent.ID.V2RenewalID()), V2FC: rr.NewContract})
				r.TaxPool.Add(r.TaxPool, RefTaxV2(rr.NewContract))
			case *types.V2StorageProof:
				renter, host = fc.RenterOutput, fc.HostOutput
			case *types.V2FileContractExpiration:
				renter, host = fc.RenterOutput, types.SiacoinOutput{Value: fc.MissedHostValue, Address: fc.HostOutput.Address}
				if d := new(big.Int).Sub(fc.HostOutput.Value.Big(), fc.MissedHostValue.Big()); d.Sign() >= 0 {
					r.Forfeited.Add(r.Forfeited, d)
				} else {
					r.Overpaid.Sub(r.Overpaid, d)
					if e.RevAt >= r.Net.HardforkV2.EphemeralOutputHeight {
						r.OverpaidCurrent = true
					}
				}
			}
			create(&RefElem{Kind: KSC, ID: types.Hash256(res.Parent.ID.V2RenterOutputID()), SC: renter, Maturity: maturity})
			create(&RefElem{Kind: KSC, ID: types.Hash256(res.Parent.ID.V2HostOutputID()), SC: host, Maturity: maturity})
		}
		for i, a := range txn.Attestations {
			create(&RefElem{Kind: KAtt, ID: types.Hash256(txn.AttestationID(txid, i)), Att: a})
		}
		if txn.NewFoundationAddress != nil {
			r.FndPrimary = *txn.NewFoundationAddress
			if *txn.NewFoundationAddress != types.VoidAddress {
				r.FndFailsafe = *txn.NewFoundationAddress
			}
		}
		eff.Fees.Add(eff.Fees, txn.MinerFee.Big())
	}
	bid := b.ID()
	for i, mp := range b.MinerPayouts {
		create(&RefElem{Kind: KSC, ID: types.Hash256(bid.MinerOutputID(i)), SC: mp, Maturity: maturity})
	}
	if !genesis {
		r.Minted.Add(r.Minted, RefReward(r.Net, h))
	} else {
		for _, mp := range b.MinerPayouts {
			r.Genesis.Add(r.Genesis, mp.Value.Big())
		}
	}
	// NOTE: the subsidy address is the one in force BEFORE this block (the
	// parent state's), as the statement "each block's scheduled subsidy" implies.
	return eff
}

// ApplySubsidyAndExpiry finishes a block: foundation subsidy (address as of the
// parent state) and v1 contracts whose window ends at this height.
func (r *RefLedger) ApplySubsidyAndExpiry(b types.Block, eff *Effects, parentPrimary types.Address) {
	h := uint64(0)
	if r.HasTip {
		h = r.Height + 1
	}
	maturity := h + r.Net.MaturityDelay
	bid := b.ID()
	created := map[types.Hash256]bool{}
	for _, id := range eff.Created {
		created[id] = true
	}
	touchedSet := map[types.Hash256]bool{}
	for _, id := range eff.Touched {
		touchedSet[id] = true
	}
	create := func(e *RefElem) {
		e.Created = h
		r.add(e)
		eff.Created = append(eff.Created, e.ID)
	}
	if sub := RefSubsidy(r.Net, h, parentPrimary); sub != nil {
		create(&RefElem{Kind: KSC, ID: types.Hash256(bid.FoundationOutputID()), SC: types.SiacoinOutput{Value: cur(sub), Address: parentPrimary}, Maturity: maturity})
		r.Minted.Add(r.Minted, sub)
	}
	// v1 expirations: unresolved contracts whose window ends at this height
	for _, id := range r.ExpiringAt(h) {
		e := r.Mut(id)
		e.Dead, e.DeadAt, e.Valid = true, h, false
		if !created[id] && !touchedSet[id] {
			eff.Touched = append(eff.Touched, id)
		}
		eff.Spent = append(eff.Spent, id)
		fcid := types.FileContractID(id)
		for i, o := range e.FC.MissedProofOutputs {
			create(&RefElem{Kind: KSC, ID: types.Hash256(fcid.MissedOutputID(i)), SC: o, Maturity: maturity})
		}
	}
	create(&RefElem{Kind: KCI, ID: types.Hash256(bid), CI: types.ChainIndex{Height: h, ID: bid}})
	r.Height, r.HasTip = h, true
}

// ExpiringAt lists (in creation order) the unresolved v1 contracts whose
// WindowEnd equals h.
func (r *RefLedger) ExpiringAt(h uint64) (ids []types.Hash256) {
	if h >= r.Net.HardforkV2.RequireHeight {
		// v1 block supplements (and with them v1 expirations) are not allowed
		// from the v2 require height on: such contracts stay unresolved.
		return nil
	}
	for _, id := range r.Order {
		e := r.Elems[id]
		if e.Kind == KFC && !e.Dead && e.FC.WindowEnd == h {
			ids = append(ids, id)
		}
	}
	return
}

// Live returns the live elements of a kind in creation order.
func (r *RefLedger) Live(kind int) (out []*RefElem) {
	for _, id := range r.Order {
		if e := r.Elems[id]; e.Kind == kind && !e.Dead {
			out = append(out, e)
		}
	}
	return
}

// All returns every element of a kind in creation order.
func (r *RefLedger) All(kind int) (out []*RefElem) {
	for _, id := range r.Order {
		if e := r.Elems[id]; e.Kind == kind {
			out = append(out, e)
		}
	}
	return
}

// Supply computes both sides of the conservation equation from the ledger.
func (r *RefLedger) Supply() (lhs, rhs *big.Int) {
	lhs = new(big.Int)
	for _, e := range r.Elems {
		if e.Dead {
			continue
		}
		switch e.Kind {
		case KSC:
			lhs.Add(lhs, e.SC.Value.Big())
		case KFC:
			// payout - tax = sum of valid outputs (checked at formation by consensus)
			for _, o := range e.FC.ValidProofOutputs {
				lhs.Add(lhs, o.Value.Big())
			}
		case KV2FC:
			lhs.Add(lhs, e.V2FC.RenterOutput.Value.Big())
			lhs.Add(lhs, e.V2FC.HostOutput.Value.Big())
		}
	}
	lhs.Add(lhs, new(big.Int).Sub(r.TaxPool, r.Claims))
	lhs.Add(lhs, r.Forfeited)
	rhs = new(big.Int).Add(r.Genesis, r.Minted)
	rhs.Add(rhs, r.Overpaid) // reported separately (checkSupply), so that the cause is named
	return
}

// SiafundTotal sums live siafund outputs.
func (r *RefLedger) SiafundTotal() (n uint64) {
	for _, e := range r.Elems {
		if e.Kind == KSF && !e.Dead {
			n += e.SF.Value
		}
	}
	return
}

// SortedIDs returns the keys of a map keyed by any 32-byte ID type, sorted bytewise, as Hash256 values.
func SortedIDs[K ~[32]byte, V any](m map[K]V) []types.Hash256 {
	ids := make([]types.Hash256, 0, len(m))
	for id := range m {
		ids = append(ids, types.Hash256(id))
	}
	sort.Slice(ids, func(i, j int) bool { return bytes.Compare(ids[i][:], ids[j][:]) < 0 })
	return ids
}

// CurOf converts a non-negative big integer below 2^128 to a Currency (exported for checks).
func CurOf(b *big.Int) types.Currency { return cur(b) }
