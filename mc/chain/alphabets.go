package chain

// Focused alphabets of DESIGN C01 (Appendix A). Each returns a finite,
// canonically ordered honest menu; actions whose preconditions fail in a state
// are skipped by the explorer.

// AlphaPayments: v1/v2 payments, in-block chains, v1 outputs spent by v2 transactions.
func AlphaPayments(w *World) []Action {
	return []Action{
		V1Pay(false, 1), V1Pay(true, 2), V1Chain(),
		V2Pay(AddrV2, true, 2), V2Pay(AddrV1, false, 1), V2Pay(AddrACS, true, 1), V2Chain(AddrV2), V2Chain(AddrACS),
	}
}

// AlphaSiafunds: contract formation (moves the tax pool) and siafund spends with claims.
func AlphaSiafunds(w *World) []Action {
	return []Action{
		V1Form(2, 2, 100), V1SF(false), V1SF(true), V1SFChain(),
		V2Form(2, 2, 100), V2SF(false), V2SF(true), V2SFChain(), V2Pay(AddrV2, false, 1),
	}
}

// AlphaV1Contracts: v1 contract life cycle.
func AlphaV1Contracts(w *World) []Action {
	return []Action{
		V1Form(1, 2, 100), V1Form(0, 1, 10), V1Revise("pay"), V1Revise("grow"), V1Revise("window"), V1Revise("max"), V1Proof(false), V1Proof(true), V1Pay(true, 1),
	}
}

// AlphaV2Contracts: v2 contract life cycle.
func AlphaV2Contracts(w *World) []Action {
	return []Action{
		V2Form(1, 2, 100), V2Form(0, 1, 0), V2Revise("pay"), V2Revise("risk"), V2Revise("grow"), V2Revise("keys"), V2Revise("heights"), V2Revise("refund"),
		V2Renew("none"), V2Renew("partial"), V2Renew("full"), V2Proof(), V2Expire(), V2Pay(AddrV2, true, 1),
	}
}

// AlphaUnion is the union alphabet (one honest use of each element kind).
func AlphaUnion(w *World) []Action {
	return []Action{
		V1Pay(true, 2), V1Chain(), V1SF(true), V1Form(1, 2, 100), V1Revise("pay"), V1Proof(false),
		V2Pay(AddrV2, true, 2), V2Pay(AddrV1, false, 1), V2Chain(AddrV2), MixedChain(), V2SF(true), V2Form(1, 2, 100), V2Revise("pay"), V2Renew("partial"), V2Proof(), V2Expire(), V2Attest(),
	}
}

// ComboMenu serves "block combinatorics" models (K = 3): while the ledger holds no contract it offers ONE setup block
// (a v1 and a v2 contract formed, where the era allows); afterwards a small set of actions that touch the same few
// elements in different ways, so that every ordered triple of them inside one block is explored: several MidState code
// paths for one element (revise, revise again, resolve, renew), ephemeral chains within and across transaction
// versions, siafund claims around contract formations.
func ComboMenu(w *World) []Action {
	if len(w.Ref.Live(KFC))+len(w.Ref.Live(KV2FC)) == 0 {
		return []Action{
			Seq("setup(v1+v2 contracts)", V1Form(1, 2, 100), V2Form(1, 2, 100)),
			Seq("setup(v1 contract)", V1Form(1, 2, 100)),
			Seq("setup(v2 contract)", V2Form(1, 2, 100)),
		}
	}
	return []Action{
		V1Pay(true, 2), V1Revise("pay"), V1Revise("grow"), V1Proof(false),
		MixedChain(), V2Chain(AddrV2), V2SF(true),
		V2Revise("pay"), V2Revise("keys"), V2Renew("partial"),
	}
}
