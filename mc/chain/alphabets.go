package chain

// Focused alphabets of DESIGN C01 (Appendix A). Each returns a finite,
// canonically ordered honest menu; actions whose preconditions fail in a state
// are skipped by the explorer.

// AlphaPayments: v1/v2 payments, in-block chains, v1 outputs spent by v2 transactions.
func AlphaPayments(w *World) []Action {
	return []Action{
		V1Pay(false, 1), V1Pay(true, 2), V1Chain(),
		V2Pay(AddrV2, true, 2), V2Pay(AddrV1, false, 1), V2Pay(AddrACS, true, 1), V2Chain(AddrV2), V2Chain(AddrACS),
	}
}

// AlphaPaymentsThorough adds the threshold-policy class (thorough tiers).
func AlphaPaymentsThorough(w *World) []Action {
	return append(AlphaPayments(w), V2Pay(AddrThresh, true, 2))
}

// AlphaSiafunds: contract formation (moves the tax pool) and siafund spends with claims.
func AlphaSiafunds(w *World) []Action {
	return []Action{
		V1Form(2, 2, 100), V1SF(false), V1SF(true), V1SFChain(),
		V2Form(2, 2, 100), V2SF(false), V2SF(true), V2SFChain(), V2Pay(AddrV2, false, 1),
	}
}

// AlphaV1Contracts: v1 contract life cycle.
func AlphaV1Contracts(w *World) []Action {
	return []Action{
		V1Form(1, 2, 100), V1Form(0, 1, 10), V1Revise("pay"), V1Revise("grow"), V1Revise("window"), V1Revise("max"), V1Proof(false), V1ProofFee(), V1Proof(true), V1Pay(true, 1),
	}
}

// AlphaV2Contracts: v2 contract life cycle.
func AlphaV2Contracts(w *World) []Action {
	return []Action{
		V2Form(1, 2, 100), V2Form(0, 1, 0), V2Revise("pay"), V2Revise("risk"), V2Revise("grow"), V2Revise("keys"), V2Revise("heights"), V2Revise("refund"),
		V2Renew("none"), V2Renew("partial"), V2Renew("full"), V2Proof(), V2Expire(), V2Pay(AddrV2, true, 1),
	}
}

// AlphaUnion is the union alphabet (one honest use of each element kind).
func AlphaUnion(w *World) []Action {
	return []Action{
		V1Pay(true, 2), V1Chain(), V1SF(true), V1Form(1, 2, 100), V1Revise("pay"), V1Proof(false),
		V2Pay(AddrV2, true, 2), V2Pay(AddrV1, false, 1), V2Chain(AddrV2), MixedChain(), V2SF(true), V2Form(1, 2, 100), V2Revise("pay"), V2Renew("partial"), V2Proof(), V2Expire(), V2Attest(),
	}
}

// ComboMenu serves "block combinatorics" models (K = 3): while the ledger holds no contract it offers ONE setup block
// (a v1 and a v2 contract formed, where the era allows); afterwards a small set of actions that touch the same few
// elements in different ways, so that every ordered triple of them inside one block is explored: several MidState code
// paths for one element (revise, revise again, resolve, renew), ephemeral chains within and across transaction
// versions, siafund claims around contract formations.
func ComboMenu(w *World) []Action {
	if len(w.Ref.Live(KFC))+len(w.Ref.Live(KV2FC)) == 0 {
		return []Action{
			Seq("setup(v1+v2 contracts)", V1Form(1, 2, 100), V2Form(1, 2, 100)),
			Seq("setup(v1 contract)", V1Form(1, 2, 100)),
			Seq("setup(v2 contract)", V2Form(1, 2, 100)),
		}
	}
	return []Action{
		V1Pay(true, 2), V1Revise("pay"), V1Revise("grow"), V1Proof(false),
		MixedChain(), V2Chain(AddrV2), V2SF(true),
		V2Revise("pay"), V2Revise("keys"), V2Renew("partial"),
	}
}

func mergedSetup() []Action {
	return []Action{
		// the two contracts of a version differ in everything a rule looks at: amounts (salt), file size and root,
		// proof height / window (overlapping, so that both can be proven - or one proven and one expired - in one block)
		Seq("setup(2 v1 + 2 v2 contracts)", V1FormSalted(1, 2, 100, 1), V1FormSalted(2, 2, 10, 2), V2FormSalted(1, 2, 100, 1), V2FormSalted(2, 2, 10, 2)),
		Seq("setup(2 v1 contracts)", V1FormSalted(1, 2, 100, 1), V1FormSalted(2, 2, 10, 2)),
		Seq("setup(2 v2 contracts)", V2FormSalted(1, 2, 100, 1), V2FormSalted(2, 2, 10, 2)),
	}
}

func mergedBase() (v1, v2 []Action) {
	return []Action{V1Pay(true, 2), V1SF(true), V1Form(1, 2, 100), V1Revise("pay"), V1Proof(false), V1Foundation()},
		[]Action{V2Pay(AddrV2, true, 2), V2Pay(AddrACS, false, 1), V2SF(true), V2Form(1, 2, 100), V2Revise("pay"), V2Renew("partial"), V2Proof(), V2Expire(), V2Attest(), V2Foundation(false)}
}

// MergedMenu serves "transaction combinatorics" models (K = 1): while the ledger holds no contract it offers ONE setup
// block (two v1 and two v2 contracts, where the era allows); afterwards every ordered pair of same-version actions
// merged into ONE transaction: two inputs, two contracts, two revisions, two storage proofs, a proof and an expiration,
// a renewal and a payment, ... - the per-transaction loops of validation and application with more than one element
// and with elements of several kinds.
func MergedMenu(w *World) []Action {
	if len(w.Ref.Live(KFC))+len(w.Ref.Live(KV2FC)) == 0 {
		return mergedSetup()
	}
	var out []Action
	v1, v2 := mergedBase()
	for _, set := range [][]Action{v1, v2} {
		for _, a := range set {
			for _, b := range set {
				out = append(out, Merge(a, b))
			}
		}
	}
	return out
}

// MergedMenu3 adds every ordered triple (thorough tiers).
func MergedMenu3(w *World) []Action {
	out := MergedMenu(w)
	if len(w.Ref.Live(KFC))+len(w.Ref.Live(KV2FC)) == 0 {
		return out
	}
	v1, v2 := mergedBase()
	for _, set := range [][]Action{v1, v2} {
		for _, a := range set {
			for _, b := range set {
				for _, c := range set {
					out = append(out, Merge(Merge(a, b), c))
				}
			}
		}
	}
	return out
}

// ExpiryMenu serves models about the end of a v1 proof window: one setup block forming three v1 contracts with the SAME
// window, afterwards storage proofs (inside the window and in the very block in which it ends, where the supplement
// lists all three contracts as expiring) and a payment.
func ExpiryMenu(w *World) []Action {
	if len(w.Ref.Live(KFC)) == 0 {
		return []Action{Seq("setup(3 v1 contracts, one window)", V1FormSalted(1, 2, 100, 1), V1FormSalted(1, 2, 10, 2), V1FormSalted(1, 2, 65, 3))}
	}
	return []Action{V1Proof(true), Seq("two proofs at window end", V1Proof(true), V1Proof(true)), V1Proof(false), V1ProofFee(), V1Pay(true, 1)}
}

// V1InBlockMenu: a v1 contract formed and revised (twice) inside one block - the revision's parent exists only among the
// block's own creations - followed by what can happen to it afterwards.
func V1InBlockMenu(w *World) []Action {
	return []Action{V1FormRevise(true), V1FormRevise(false), V1FormProve(false), V1FormProve(true), V1Revise("pay"), V1Proof(false), V1SF(true)}
}
