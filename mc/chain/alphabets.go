package chain

// Focused alphabets of DESIGN C01 (Appendix A). Each returns a finite,
// canonically ordered honest menu; actions whose preconditions fail in a state
// are skipped by the explorer.

// AlphaPayments: v1/v2 payments, in-block chains, v1 outputs spent by v2 transactions.
func AlphaPayments(w *World) []Action {
	return []Action{
		V1Pay(false, 1), V1Pay(true, 2), V1Chain(),
		V2Pay(AddrV2, true, 2), V2Pay(AddrV1, false, 1), V2Pay(AddrACS, true, 1), V2Chain(AddrV2), V2Chain(AddrACS),
	}
}

// AlphaSiafunds: contract formation (moves the tax pool) and siafund spends with claims.
func AlphaSiafunds(w *World) []Action {
	return []Action{
		V1Form(2, 2, 100), V1SF(false), V1SF(true),
		V2Form(2, 2, 100), V2SF(false), V2SF(true), V2Pay(AddrV2, false, 1),
	}
}

// AlphaV1Contracts: v1 contract life cycle.
func AlphaV1Contracts(w *World) []Action {
	return []Action{
		V1Form(1, 2, 100), V1Form(0, 1, 10), V1Revise("pay"), V1Revise("grow"), V1Revise("window"), V1Revise("max"), V1Proof(false), V1Proof(true), V1Pay(true, 1),
	}
}

// AlphaV2Contracts: v2 contract life cycle.
func AlphaV2Contracts(w *World) []Action {
	return []Action{
		V2Form(1, 2, 100), V2Form(0, 1, 0), V2Revise("pay"), V2Revise("risk"), V2Revise("grow"), V2Revise("keys"), V2Revise("heights"), V2Revise("refund"),
		V2Renew("none"), V2Renew("partial"), V2Renew("full"), V2Proof(), V2Expire(), V2Pay(AddrV2, true, 1),
	}
}

// AlphaUnion is the union alphabet (one honest use of each element kind).
func AlphaUnion(w *World) []Action {
	return []Action{
		V1Pay(true, 2), V1Chain(), V1SF(true), V1Form(1, 2, 100), V1Revise("pay"), V1Proof(false),
		V2Pay(AddrV2, true, 2), V2Pay(AddrV1, false, 1), V2Chain(AddrV2), MixedChain(), V2SF(true), V2Form(1, 2, 100), V2Revise("pay"), V2Renew("partial"), V2Proof(), V2Expire(), V2Attest(),
	}
}
