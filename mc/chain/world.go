package chain

import (
	"strings"
	"bytes"
	"fmt"
	"reflect"
	"sort"
	"time"

	"go.sia.tech/core/consensus"
	"go.sia.tech/core/types"
	"verifmc/spec"
)

// Options select which (costly) invariants World.Apply / Revert evaluate.
type Options struct {
	TrackDead    bool // keep proofs of spent elements up to date (C05)
	CheckForest  bool // roots / leaf count == reference forest after every block
	CheckProofs  bool // every tracked proof == reference path
	CheckLedger  bool // store == reference ledger element by element
	CheckSupply  bool // conservation equation, siafund total, claims
	CheckTreeNodes bool // ForEachTreeNode reports exactly the touched paths with reference hashes
	HasAtt       bool // blocks may contain attestations (JSON extraction of attestation elements)
}

// AllChecks enables every base invariant.
func AllChecks() Options {
	return Options{TrackDead: true, CheckForest: true, CheckProofs: true, CheckLedger: true, CheckSupply: true, CheckTreeNodes: true, HasAtt: true}
}

// Applied is one applied block with what is needed to revert it.
type Applied struct {
	B       types.Block
	BS      consensus.V1BlockSupplement
	PrevCS  consensus.State
	Snap    *Snapshot // state before the block
	Digest  types.Hash256 // canonical digest of the ApplyUpdate
	Eff     Effects
	AU      consensus.ApplyUpdate
	CSBytes []byte // encoding of the state after the block
}

// Snapshot is a deep copy of the mutable parts of a World.
type Snapshot struct {
	Store  *Store
	Ref    *RefLedger
	Forest spec.Forest
}

// World = real state + user store + independent ledger + independent forest.
type World struct {
	Spec   NetSpec
	Net    *consensus.Network
	Keys   *Keys
	CS     consensus.State
	Store  *Store
	Ref    *RefLedger
	Forest spec.Forest
	Hist   []*Applied  // Hist[h] = block at height h
	Times  []time.Time // timestamps by height
	Opt    Options
	Nonce  uint64 // salt for otherwise identical transactions (arbitrary data)
}

// Problem is an oracle failure detected by the world.
type Problem struct {
	Sig  string // violation signature suffix
	Desc string
}

func (p *Problem) Error() string { return p.Sig + ": " + p.Desc }

func problem(sig, format string, a ...any) *Problem {
	return &Problem{Sig: sig, Desc: fmt.Sprintf(format, a...)}
}

// GenesisAlloc describes the genesis transaction.
type GenesisAlloc struct {
	SC []types.SiacoinOutput
	SF []types.SiafundOutput
}

// DefaultAlloc is the genesis allocation used by the ledger models: several
// siacoin outputs per address class and 10000 siafunds in three outputs.
func DefaultAlloc(k *Keys) GenesisAlloc {
	var g GenesisAlloc
	v := uint32(1000)
	for _, c := range []int{AddrV1, AddrV2, AddrV1, AddrV2, AddrV1b, AddrV2b, AddrFnd, AddrFndV2, AddrV1, AddrV2, AddrACS, AddrACS, AddrNoSig, AddrNoSig, AddrThresh, AddrThresh} {
		g.SC = append(g.SC, types.SiacoinOutput{Value: types.Siacoins(v), Address: k.Addr(c)})
		v += 100
	}
	g.SF = []types.SiafundOutput{{Value: 6000, Address: k.Addr(AddrV1)}, {Value: 2500, Address: k.Addr(AddrV2)}, {Value: 1000, Address: k.Addr(AddrV1b)}, {Value: 500, Address: k.Addr(AddrNoSig)}}
	return g
}

// NewWorld creates a world with the genesis block applied.
func NewWorld(sp NetSpec, k *Keys, alloc GenesisAlloc, opt Options) (*World, *Problem) {
	n := sp.Network(k)
	w := &World{Spec: sp, Net: n, Keys: k, Opt: opt, Store: NewStore(opt.TrackDead), Ref: NewRefLedger(n)}
	genesis := types.Block{Timestamp: GenesisTime}
	bs := consensus.V1BlockSupplement{}
	if len(alloc.SC)+len(alloc.SF) > 0 {
		genesis.Transactions = []types.Transaction{{SiacoinOutputs: alloc.SC, SiafundOutputs: alloc.SF}}
		bs.Transactions = make([]consensus.V1TransactionSupplement, 1)
	}
	w.CS = n.GenesisState()
	if p := w.applyUnchecked(nil, genesis, bs); p != nil {
		return nil, p
	}
	return w, nil
}

// Clone deep-copies the world.
func (w *World) Clone() *World {
	c := *w
	c.Store = w.Store.Clone()
	c.Ref = w.Ref.Clone()
	c.Forest = w.Forest.Clone()
	c.Hist = append([]*Applied(nil), w.Hist...)
	c.Times = append([]time.Time(nil), w.Times...)
	return &c
}

// Height of the tip.
func (w *World) Height() uint64 { return w.CS.Index.Height }

// ChildHeight is the height of the next block.
func (w *World) ChildHeight() uint64 { return w.CS.Index.Height + 1 }

// TargetTimestamp supplies the ancestor timestamp a node's store would supply
// to ApplyBlock (block at height max(0, child-1000)).
func (w *World) TargetTimestamp() time.Time {
	if len(w.Times) == 0 {
		return time.Time{}
	}
	child := uint64(len(w.Times))
	depth := uint64(1000)
	if depth > child {
		depth = child
	}
	return w.Times[child-depth]
}

// Validate runs the real ValidateBlock.
func (w *World) Validate(b types.Block, bs consensus.V1BlockSupplement) error {
	return consensus.ValidateBlock(w.CS, b, bs)
}

// Apply validates and applies a block. It returns (validation error, nil) if
// the block is rejected, and (nil, problem) if an oracle fails.
func (w *World) Apply(b types.Block, bs consensus.V1BlockSupplement) (error, *Problem) {
	return w.ApplyFrom(nil, b, bs)
}

// ApplyFrom is Apply for a world that was just cloned from prev: prev is not
// mutated afterwards, so its store / ledger / forest serve as the pre-block
// snapshot without another deep copy.
func (w *World) ApplyFrom(prev *World, b types.Block, bs consensus.V1BlockSupplement) (error, *Problem) {
	var verr error
	if p, st := try(func() { verr = consensus.ValidateBlock(w.CS, b, bs) }); p != nil {
		return nil, problem("validate|panic", "ValidateBlock panicked: %v\n%s", p, st)
	}
	if verr != nil {
		return verr, nil
	}
	return nil, w.applyUnchecked(prev, b, bs)
}

func try(fn func()) (p any, st string) {
	defer func() {
		if r := recover(); r != nil {
			p = r
			st = stackTrace()
		}
	}()
	fn()
	return
}

func (w *World) applyUnchecked(prev *World, b types.Block, bs consensus.V1BlockSupplement) *Problem {
	var snap *Snapshot
	if prev != nil {
		snap = &Snapshot{Store: prev.Store, Ref: prev.Ref, Forest: prev.Forest}
	} else {
		snap = &Snapshot{Store: w.Store.Clone(), Ref: w.Ref.Clone(), Forest: w.Forest.Clone()}
	}
	prevCS := w.CS
	parentPrimary := w.Ref.FndPrimary
	var cs consensus.State
	var au consensus.ApplyUpdate
	if p, st := try(func() { cs, au = consensus.ApplyBlock(w.CS, b, bs, w.TargetTimestamp()) }); p != nil {
		return problem("apply|panic", "ApplyBlock panicked on a block accepted by ValidateBlock: %v\n%s", p, st)
	}
	oldLeaves := prevCS.Elements.NumLeaves
	var serr error
	hasAtt := false
	for _, t := range b.V2Transactions() {
		hasAtt = hasAtt || len(t.Attestations) > 0
	}
	if p, st := try(func() { serr = w.Store.Apply(au, hasAtt) }); p != nil {
		return problem("proof|update-panic", "folding the ApplyUpdate into a store with up-to-date proofs panicked: %v\n%s", p, st)
	}
	if serr != nil {
		if strings.Contains(serr.Error(), "is changed by refreshing it") {
			return problem("proof|created-element-refreshed", "%v", serr)
		}
		return problem("store|diffs", "update diffs inconsistent: %v", serr)
	}
	// reference ledger from block contents
	var eff Effects
	if p, _ := try(func() {
		eff = w.Ref.ApplyBlock(b)
		w.Ref.ApplySubsidyAndExpiry(b, &eff, parentPrimary)
	}); p != nil {
		return problem("ledger|impossible", "accepted block does something the reference ledger considers impossible: %v", p)
	}
	w.CS = cs
	w.Hist = append(w.Hist, &Applied{B: b, BS: bs, PrevCS: prevCS, Snap: snap, Eff: eff})
	w.Times = append(w.Times, b.Timestamp)
	// no element spent/resolved twice
	seen := map[types.Hash256]bool{}
	for _, id := range eff.Spent {
		if seen[id] {
			return problem("ledger|double-use", "element %x spent/resolved twice in one block", id[:4])
		}
		seen[id] = true
	}
	// leaf positions: created elements must fill [oldLeaves, newLeaves) exactly
	if p := w.placeLeaves(au, eff, oldLeaves); p != nil {
		return p
	}
	a := w.Hist[len(w.Hist)-1]
	a.Digest = UpdateDigest(au)
	a.AU = au
	a.CSBytes = StateBytes(cs)
	return w.CheckInvariants(&au)
}

// leafIndexOf finds the accumulator position the implementation assigned.
func (w *World) leafIndexOf(au consensus.ApplyUpdate, e *RefElem) (uint64, bool) {
	switch e.Kind {
	case KSC:
		for _, d := range au.SiacoinElementDiffs() {
			if types.Hash256(d.SiacoinElement.ID) == e.ID {
				return d.SiacoinElement.StateElement.LeafIndex, true
			}
		}
	case KSF:
		for _, d := range au.SiafundElementDiffs() {
			if types.Hash256(d.SiafundElement.ID) == e.ID {
				return d.SiafundElement.StateElement.LeafIndex, true
			}
		}
	case KFC:
		for _, d := range au.FileContractElementDiffs() {
			if types.Hash256(d.FileContractElement.ID) == e.ID {
				return d.FileContractElement.StateElement.LeafIndex, true
			}
		}
	case KV2FC:
		for _, d := range au.V2FileContractElementDiffs() {
			if types.Hash256(d.V2FileContractElement.ID) == e.ID {
				return d.V2FileContractElement.StateElement.LeafIndex, true
			}
		}
	case KCI:
		cie := au.ChainIndexElement()
		if types.Hash256(cie.ID) == e.ID {
			return cie.StateElement.LeafIndex, true
		}
	case KAtt:
		for _, ae := range w.Store.Att {
			if types.Hash256(ae.ID) == e.ID {
				return ae.StateElement.LeafIndex, true
			}
		}
	}
	return 0, false
}

func (w *World) placeLeaves(au consensus.ApplyUpdate, eff Effects, oldLeaves uint64) *Problem {
	newLeaves := w.CS.Elements.NumLeaves
	if newLeaves < oldLeaves || newLeaves-oldLeaves != uint64(len(eff.Created)) {
		return problem("forest|leafcount", "block created %d elements per reference, accumulator grew %d -> %d", len(eff.Created), oldLeaves, newLeaves)
	}
	if uint64(len(w.Forest.Leaves)) != oldLeaves {
		return problem("forest|leafcount", "reference forest has %d leaves, parent state %d", len(w.Forest.Leaves), oldLeaves)
	}
	w.Forest.Leaves = append(w.Forest.Leaves, make([]spec.Leaf, newLeaves-oldLeaves)...)
	used := map[uint64]bool{}
	for _, id := range eff.Created {
		e := w.Ref.Elems[id]
		idx, ok := w.leafIndexOf(au, e)
		if !ok {
			return problem("diffs|missing-created", "element %x (kind %d) created per reference is not reported by the update", id[:4], e.Kind)
		}
		if idx < oldLeaves || idx >= newLeaves || used[idx] {
			return problem("forest|leafindex", "element %x assigned leaf %d outside [%d,%d) or twice", id[:4], idx, oldLeaves, newLeaves)
		}
		used[idx] = true
		e = w.Ref.Mut(id)
		e.Leaf = idx
		w.Forest.Leaves[idx] = spec.Leaf{Elem: e.ElemHash(), Spent: e.Dead}
	}
	for _, id := range eff.Touched {
		e := w.Ref.Elems[id]
		if e.Leaf >= oldLeaves {
			return problem("forest|leafindex", "touched element %x has leaf %d >= old count %d", id[:4], e.Leaf, oldLeaves)
		}
		w.Forest.Leaves[e.Leaf] = spec.Leaf{Elem: e.ElemHash(), Spent: e.Dead}
	}
	w.Forest.Build()
	return nil
}

// CheckInvariants evaluates the enabled base invariants on the current state.
func (w *World) CheckInvariants(au *consensus.ApplyUpdate) *Problem {
	if w.Opt.CheckLedger {
		if p := w.checkLedger(); p != nil {
			return p
		}
	}
	if w.Opt.CheckSupply {
		if p := w.checkSupply(); p != nil {
			return p
		}
	}
	if w.Opt.CheckForest {
		if p := w.checkForest(); p != nil {
			return p
		}
	}
	if w.Opt.CheckProofs {
		if p := w.checkProofs(); p != nil {
			return p
		}
	}
	if w.Opt.CheckTreeNodes && au != nil {
		if p := w.checkTreeNodes(*au); p != nil {
			return p
		}
	}
	return nil
}

func (w *World) checkForest() *Problem {
	n := w.Forest.N()
	if w.CS.Elements.NumLeaves != n {
		return problem("forest|leafcount", "state has %d leaves, reference forest %d", w.CS.Elements.NumLeaves, n)
	}
	for h := 0; h < 64; h++ {
		if n&(1<<uint(h)) == 0 {
			continue
		}
		if w.Forest.Root(h) != w.CS.Elements.Trees[h] {
			return problem("forest|root", "root of tree height %d differs from the naive forest (n=%d, height %d)", h, n, w.Height())
		}
	}
	return nil
}

func proofEq(a, b []types.Hash256) bool {
	if len(a) != len(b) {
		return false
	}
	for i := range a {
		if a[i] != b[i] {
			return false
		}
	}
	return true
}

// checkProofs: every tracked proof equals the reference path, and the leaf
// recomputed by the reference from the element's contents sits at that index.
func (w *World) checkProofs() *Problem {
	chk := func(kind string, id types.Hash256, se types.StateElement, elem types.Hash256, spent bool) *Problem {
		if se.LeafIndex >= w.Forest.N() {
			return problem("proof|"+kind+"|index", "%s %x has leaf index %d >= %d", kind, id[:4], se.LeafIndex, w.Forest.N())
		}
		if got := w.Forest.Leaves[se.LeafIndex]; got.Elem != elem || got.Spent != spent {
			return problem("proof|"+kind+"|leaf", "%s %x: store contents/status (spent=%v) do not match forest leaf %d (spent=%v)", kind, id[:4], spent, se.LeafIndex, got.Spent)
		}
		if want := w.Forest.Proof(se.LeafIndex); !proofEq(want, se.MerkleProof) {
			return problem("proof|"+kind+"|path", "%s %x (leaf %d of %d, spent=%v): maintained proof (len %d) differs from reference path (len %d)", kind, id[:4], se.LeafIndex, w.Forest.N(), spent, len(se.MerkleProof), len(want))
		}
		return nil
	}
	s := w.Store
	for _, id := range SortedIDs(s.SC) {
		e := s.SC[types.SiacoinOutputID(id)]
		if p := chk("siacoin", id, e.StateElement, spec.SiacoinElemHash(e.ID, e.SiacoinOutput, e.MaturityHeight), false); p != nil {
			return p
		}
	}
	for _, id := range SortedIDs(s.DeadSC) {
		e := s.DeadSC[types.SiacoinOutputID(id)]
		if p := chk("siacoin", id, e.StateElement, spec.SiacoinElemHash(e.ID, e.SiacoinOutput, e.MaturityHeight), true); p != nil {
			return p
		}
	}
	for _, id := range SortedIDs(s.SF) {
		e := s.SF[types.SiafundOutputID(id)]
		if p := chk("siafund", id, e.StateElement, spec.SiafundElemHash(e.ID, e.SiafundOutput, e.ClaimStart), false); p != nil {
			return p
		}
	}
	for _, id := range SortedIDs(s.DeadSF) {
		e := s.DeadSF[types.SiafundOutputID(id)]
		if p := chk("siafund", id, e.StateElement, spec.SiafundElemHash(e.ID, e.SiafundOutput, e.ClaimStart), true); p != nil {
			return p
		}
	}
	for _, id := range SortedIDs(s.FC) {
		e := s.FC[types.FileContractID(id)]
		if p := chk("filecontract", id, e.StateElement, spec.FileContractElemHash(e.ID, e.FileContract), false); p != nil {
			return p
		}
	}
	for _, id := range SortedIDs(s.DeadFC) {
		e := s.DeadFC[types.FileContractID(id)]
		if p := chk("filecontract", id, e.StateElement, spec.FileContractElemHash(e.ID, e.FileContract), true); p != nil {
			return p
		}
	}
	for _, id := range SortedIDs(s.V2FC) {
		e := s.V2FC[types.FileContractID(id)]
		if p := chk("v2filecontract", id, e.StateElement, spec.V2FileContractElemHash(e.ID, e.V2FileContract), false); p != nil {
			return p
		}
	}
	for _, id := range SortedIDs(s.DeadV2FC) {
		e := s.DeadV2FC[types.FileContractID(id)]
		if p := chk("v2filecontract", id, e.StateElement, spec.V2FileContractElemHash(e.ID, e.V2FileContract), true); p != nil {
			return p
		}
	}
	for _, e := range s.CI {
		if p := chk("chainindex", types.Hash256(e.ID), e.StateElement, spec.ChainIndexElemHash(e.ID, e.ChainIndex), false); p != nil {
			return p
		}
	}
	for _, e := range s.Att {
		if p := chk("attestation", types.Hash256(e.ID), e.StateElement, spec.AttestationElemHash(e.ID, e.Attestation), false); p != nil {
			return p
		}
	}
	return nil
}

// checkLedger: the user's store equals the reference ledger, element by element.
func (w *World) checkLedger() *Problem {
	s, r := w.Store, w.Ref
	var nSC, nSF, nFC, nV2 int
	for _, id := range r.Order {
		e := r.Elems[id]
		if e.Dead {
			switch e.Kind {
			case KSC:
				if _, ok := s.SC[types.SiacoinOutputID(id)]; ok {
					return problem("ledger|siacoin|zombie", "siacoin output %x is spent per reference but live in the store", id[:4])
				}
			case KSF:
				if _, ok := s.SF[types.SiafundOutputID(id)]; ok {
					return problem("ledger|siafund|zombie", "siafund output %x is spent per reference but live in the store", id[:4])
				}
			case KFC:
				if _, ok := s.FC[types.FileContractID(id)]; ok {
					return problem("ledger|filecontract|zombie", "contract %x is resolved per reference but live in the store", id[:4])
				}
			case KV2FC:
				if _, ok := s.V2FC[types.FileContractID(id)]; ok {
					return problem("ledger|v2filecontract|zombie", "v2 contract %x is resolved per reference but live in the store", id[:4])
				}
			}
			continue
		}
		switch e.Kind {
		case KSC:
			nSC++
			se, ok := s.SC[types.SiacoinOutputID(id)]
			if !ok {
				return problem("ledger|siacoin|missing", "siacoin output %x (created at %d) live per reference but not in the store", id[:4], e.Created)
			}
			if se.SiacoinOutput != e.SC {
				return problem("ledger|siacoin|value", "siacoin output %x: store has %v to %x, reference %v to %x (created at height %d)", id[:4], se.SiacoinOutput.Value, se.SiacoinOutput.Address[:4], e.SC.Value, e.SC.Address[:4], e.Created)
			}
			if se.MaturityHeight != e.Maturity {
				return problem("ledger|siacoin|maturity", "siacoin output %x: maturity height %d, reference %d", id[:4], se.MaturityHeight, e.Maturity)
			}
		case KSF:
			nSF++
			se, ok := s.SF[types.SiafundOutputID(id)]
			if !ok {
				return problem("ledger|siafund|missing", "siafund output %x live per reference but not in the store", id[:4])
			}
			if se.SiafundOutput != e.SF || se.ClaimStart != e.Claim {
				return problem("ledger|siafund|value", "siafund output %x differs: store %+v claimStart %v, reference %+v claimStart %v", id[:4], se.SiafundOutput, se.ClaimStart, e.SF, e.Claim)
			}
		case KFC:
			nFC++
			se, ok := s.FC[types.FileContractID(id)]
			if !ok {
				return problem("ledger|filecontract|missing", "contract %x unresolved per reference but not in the store", id[:4])
			}
			if !reflect.DeepEqual(normFC(se.FileContract), normFC(e.FC)) {
				return problem("ledger|filecontract|value", "contract %x: store revision %d differs from reference latest revision %d", id[:4], se.FileContract.RevisionNumber, e.FC.RevisionNumber)
			}
		case KV2FC:
			nV2++
			se, ok := s.V2FC[types.FileContractID(id)]
			if !ok {
				return problem("ledger|v2filecontract|missing", "v2 contract %x unresolved per reference but not in the store", id[:4])
			}
			if se.V2FileContract != e.V2FC {
				return problem("ledger|v2filecontract|value", "v2 contract %x: store revision %d differs from reference latest revision %d", id[:4], se.V2FileContract.RevisionNumber, e.V2FC.RevisionNumber)
			}
		}
	}
	if nSC != len(s.SC) || nSF != len(s.SF) || nFC != len(s.FC) || nV2 != len(s.V2FC) {
		return problem("ledger|extra", "store has elements unknown to the reference: sc %d/%d sf %d/%d fc %d/%d v2fc %d/%d", len(s.SC), nSC, len(s.SF), nSF, len(s.FC), nFC, len(s.V2FC), nV2)
	}
	if w.CS.FoundationSubsidyAddress != r.FndPrimary || w.CS.FoundationManagementAddress != r.FndFailsafe {
		return problem("ledger|foundation", "foundation addresses in state differ from reference")
	}
	return nil
}

func normFC(fc types.FileContract) types.FileContract {
	if len(fc.ValidProofOutputs) == 0 {
		fc.ValidProofOutputs = nil
	}
	if len(fc.MissedProofOutputs) == 0 {
		fc.MissedProofOutputs = nil
	}
	return fc
}

// checkSupply: conservation equation (store side vs reference side), constant
// siafunds, exact claims, fees reappear in the miner payout.
func (w *World) checkSupply() *Problem {
	r := w.Ref
	lhs, rhs := r.Supply()
	if r.Overpaid.Sign() > 0 {
		era := "revision accepted below the ephemeral-output height (legacy rule)"
		if r.OverpaidCurrent {
			era = "revision accepted under the current rules"
		}
		return problem("supply|v2-expiration-pays-more-than-locked|"+era, "height %d: v2 contract expirations paid %v more than the contracts held (missed host value above the host output; %s): siacoins created from nothing", w.Height(), r.Overpaid, era)
	}
	if p := w.overpayWitness(); p != nil {
		return p
	}
	if lhs.Cmp(rhs) != 0 {
		return problem("supply|equation", "height %d: unspent+locked+pool+forfeited = %v but genesis+subsidies = %v (difference %v)", w.Height(), lhs, rhs, lhs.Sub(lhs, rhs))
	}
	if got := cur(r.TaxPool); got != w.CS.SiafundTaxRevenue {
		return problem("supply|taxpool", "height %d: state tax pool %v, reference %v", w.Height(), w.CS.SiafundTaxRevenue, got)
	}
	sf := new(bigInt) // arbitrary precision: a uint64 sum would wrap exactly where a fixed-width validator does
	for _, e := range w.Store.SF {
		sf.Add(sf, new(bigInt).SetUint64(e.SiafundOutput.Value))
	}
	if sf.Cmp(new(bigInt).SetUint64(r.GenesisSF)) != 0 {
		return problem("supply|siafunds", "height %d: %v siafunds in unspent outputs, genesis allocated %d", w.Height(), sf, r.GenesisSF)
	}
	if len(w.Hist) > 0 {
		a := w.Hist[len(w.Hist)-1]
		for _, cc := range a.Eff.ClaimsPaid {
			// claim outputs may have been spent already only if maturity 0 and same block; look in both
			if e, ok := w.Store.SC[cc.OutputID]; ok {
				if e.SiacoinOutput.Value != cc.Want {
					return problem("supply|claim", "claim output %v pays %v, exact share is %v", cc.OutputID, e.SiacoinOutput.Value, cc.Want)
				}
			}
		}
		if len(w.Hist) > 1 {
			var sum = new(bigInt)
			for _, mp := range a.B.MinerPayouts {
				sum.Add(sum, mp.Value.Big())
			}
			want := new(bigInt).Add(RefReward(w.Net, w.Height()), a.Eff.Fees)
			if sum.Cmp(want) != 0 {
				return problem("supply|fees", "miner payouts %v != reward + fees %v", sum, want)
			}
		}
	}
	return nil
}

// overpayWitness: the supply equation is not inductive by itself - a live v2 contract whose missed host value exceeds
// its host output pays more than it holds when it expires. Whenever such a contract exists in an accepted state, the
// expiry is actually played out on a clone (empty blocks up to the expiration height, then the expiration
// transaction); a violation is reported only if the real code accepts that block and the payouts exceed the locked
// value, with the continuation named in the description.
func (w *World) overpayWitness() *Problem {
	for _, e := range w.Ref.Live(KV2FC) {
		fc := e.V2FC
		if fc.MissedHostValue.Cmp(fc.HostOutput.Value) <= 0 {
			continue
		}
		c := w.Clone()
		c.Opt = Options{CheckLedger: true}
		for c.ChildHeight() <= fc.ExpirationHeight {
			b, bs := c.BuildBlock(nil, nil, BlockOpts{})
			if err, p := c.Apply(b, bs); err != nil || p != nil {
				return nil // cannot extend (not a supply matter; other oracles look at it)
			}
		}
		fce, ok := c.Store.V2FC[types.FileContractID(e.ID)]
		if !ok {
			continue
		}
		b, bs := c.BlockOfUses(c.UseV2Expire(fce))
		if err, p := c.Apply(b, bs); err != nil || p != nil {
			continue
		}
		if c.Ref.Overpaid.Sign() > 0 {
			era := "revision accepted below the ephemeral-output height (legacy rule)"
			if c.Ref.OverpaidCurrent {
				era = "revision accepted under the current rules"
			}
			return problem("supply|v2-expiration-pays-more-than-locked|"+era, "height %d: live v2 contract %x has missed host value %v above its host output %v (%s); continuation played out: %d empty blocks, then its expiration at height %d was ACCEPTED and paid %v more than the contract held: siacoins created from nothing",
				w.Height(), e.ID[:4], fc.MissedHostValue, fc.HostOutput.Value, era, c.Height()-1-w.Height(), c.Height(), c.Ref.Overpaid)
		}
	}
	return nil
}

// checkTreeNodes: ForEachTreeNode reports only nodes of the new forest, with
// the reference hashes, and covers every leaf the block touched or added.
func (w *World) checkTreeNodes(au consensus.ApplyUpdate) *Problem {
	a := w.Hist[len(w.Hist)-1]
	want := map[uint64]bool{}
	for _, id := range a.Eff.Created {
		want[w.Ref.Elems[id].Leaf] = true
	}
	for _, id := range a.Eff.Touched {
		want[w.Ref.Elems[id].Leaf] = true
	}
	var p *Problem
	seenLeaf := map[uint64]bool{}
	seenNode := map[[2]uint64]bool{}
	au.ForEachTreeNode(func(row, col uint64, h types.Hash256) {
		seenNode[[2]uint64{row, col}] = true
		if p != nil {
			return
		}
		ref, ok := w.Forest.NodeAt(row, col)
		if !ok {
			p = problem("treenodes|range", "ForEachTreeNode reported node (%d,%d) which is not a complete subtree of the forest (n=%d)", row, col, w.Forest.N())
			return
		}
		if ref != h {
			p = problem("treenodes|hash", "ForEachTreeNode node (%d,%d) hash differs from reference forest", row, col)
			return
		}
		if row == 0 {
			seenLeaf[col] = true
		}
	})
	if p != nil {
		return p
	}
	for l := range want {
		if !seenLeaf[l] {
			return problem("treenodes|missing", "ForEachTreeNode did not report changed leaf %d", l)
		}
	}
	for l := range seenLeaf {
		if !want[l] {
			return problem("treenodes|extra", "ForEachTreeNode reported leaf %d which the block did not change", l)
		}
	}
	// every ancestor of a changed leaf changed too: a client mirroring the forest from the reported nodes needs them all
	for l := range want {
		for row := uint64(1); row < 64; row++ {
			if _, ok := w.Forest.NodeAt(row, l>>row); !ok {
				break
			}
			if !seenNode[[2]uint64{row, l >> row}] {
				return problem("treenodes|missing-ancestor", "ForEachTreeNode did not report node (%d,%d), an ancestor of changed leaf %d", row, l>>row, l)
			}
		}
	}
	return nil
}

// Revert reverts the tip block through the real RevertBlock and checks the
// C06 oracle: diffs mirror the apply diffs, the store returns to the snapshot
// taken before the block and every element verifies against the parent state.
func (w *World) Revert() *Problem {
	if len(w.Hist) < 2 {
		return problem("harness", "cannot revert genesis")
	}
	a := w.Hist[len(w.Hist)-1]
	var ru consensus.RevertUpdate
	if p, st := try(func() { ru = consensus.RevertBlock(a.PrevCS, a.B, a.BS) }); p != nil {
		return problem("revert|panic", "RevertBlock panicked: %v\n%s", p, st)
	}
	if p := diffsMirror(a.AU, ru); p != nil {
		return p
	}
	if p, st := try(func() { w.Store.Revert(ru, a.PrevCS.Elements.NumLeaves) }); p != nil {
		return problem("revert|panic", "applying the RevertUpdate to the store panicked: %v\n%s", p, st)
	}
	w.CS = a.PrevCS
	w.Ref = a.Snap.Ref.Clone()
	w.Forest = a.Snap.Forest.Clone()
	w.Forest.Build()
	w.Hist = w.Hist[:len(w.Hist)-1]
	w.Times = w.Times[:len(w.Times)-1]
	if p := compareStores(w.Store, a.Snap.Store); p != nil {
		return p
	}
	return w.CheckInvariants(nil)
}

// compareStores checks set equality of (id, fields, leaf index, proof).
func compareStores(got, want *Store) *Problem {
	if len(got.SC) != len(want.SC) || len(got.SF) != len(want.SF) || len(got.FC) != len(want.FC) || len(got.V2FC) != len(want.V2FC) || len(got.CI) != len(want.CI) {
		return problem("revert|store-set", "store after revert has sc/sf/fc/v2fc/ci = %d/%d/%d/%d/%d, before apply %d/%d/%d/%d/%d",
			len(got.SC), len(got.SF), len(got.FC), len(got.V2FC), len(got.CI), len(want.SC), len(want.SF), len(want.FC), len(want.V2FC), len(want.CI))
	}
	seq := func(a, b types.StateElement) bool { return a.LeafIndex == b.LeafIndex && proofEq(a.MerkleProof, b.MerkleProof) }
	for id, e := range want.SC {
		g, ok := got.SC[id]
		if !ok || g.SiacoinOutput != e.SiacoinOutput || g.MaturityHeight != e.MaturityHeight || g.StateElement.LeafIndex != e.StateElement.LeafIndex {
			return problem("revert|store-siacoin", "siacoin element %v differs after revert (present=%v)", id, ok)
		}
		if !seq(g.StateElement, e.StateElement) {
			return problem("revert|store-proof", "siacoin element %v proof after revert differs from proof before apply", id)
		}
	}
	for id, e := range want.SF {
		g, ok := got.SF[id]
		if !ok || g.SiafundOutput != e.SiafundOutput || g.ClaimStart != e.ClaimStart || g.StateElement.LeafIndex != e.StateElement.LeafIndex {
			return problem("revert|store-siafund", "siafund element %v differs after revert (present=%v)", id, ok)
		}
		if !seq(g.StateElement, e.StateElement) {
			return problem("revert|store-proof", "siafund element %v proof after revert differs from proof before apply", id)
		}
	}
	for id, e := range want.FC {
		g, ok := got.FC[id]
		if !ok || !reflect.DeepEqual(normFC(g.FileContract), normFC(e.FileContract)) || g.StateElement.LeafIndex != e.StateElement.LeafIndex {
			return problem("revert|store-filecontract", "contract %v differs after revert (present=%v)", id, ok)
		}
		if !seq(g.StateElement, e.StateElement) {
			return problem("revert|store-proof", "contract %v proof after revert differs from proof before apply", id)
		}
	}
	for id, e := range want.V2FC {
		g, ok := got.V2FC[id]
		if !ok || g.V2FileContract != e.V2FileContract || g.StateElement.LeafIndex != e.StateElement.LeafIndex {
			return problem("revert|store-v2filecontract", "v2 contract %v differs after revert (present=%v)", id, ok)
		}
		if !seq(g.StateElement, e.StateElement) {
			return problem("revert|store-proof", "v2 contract %v proof after revert differs from proof before apply", id)
		}
	}
	for i := range want.CI {
		if got.CI[i].ID != want.CI[i].ID || !seq(got.CI[i].StateElement, want.CI[i].StateElement) {
			return problem("revert|store-chainindex", "chain index element %d differs after revert", i)
		}
	}
	return nil
}

// UpdateDigest is a canonical digest of an ApplyUpdate: diffs (with flags and
// proofs) and tree nodes, in the order reported.
func UpdateDigest(au consensus.ApplyUpdate) types.Hash256 {
	var buf bytes.Buffer
	e := types.NewEncoder(&buf)
	for _, d := range au.SiacoinElementDiffs() {
		d.SiacoinElement.EncodeTo(e)
		e.WriteBool(d.Created)
		e.WriteBool(d.Spent)
	}
	e.WriteUint8(0xA1)
	for _, d := range au.SiafundElementDiffs() {
		d.SiafundElement.EncodeTo(e)
		e.WriteBool(d.Created)
		e.WriteBool(d.Spent)
	}
	e.WriteUint8(0xA2)
	for _, d := range au.FileContractElementDiffs() {
		d.FileContractElement.EncodeTo(e)
		e.WriteBool(d.Created)
		e.WriteBool(d.Revision != nil)
		if d.Revision != nil {
			d.Revision.EncodeTo(e)
		}
		e.WriteBool(d.Resolved)
		e.WriteBool(d.Valid)
	}
	e.WriteUint8(0xA3)
	for _, d := range au.V2FileContractElementDiffs() {
		d.V2FileContractElement.EncodeTo(e)
		e.WriteBool(d.Created)
		e.WriteBool(d.Revision != nil)
		if d.Revision != nil {
			d.Revision.EncodeTo(e)
		}
		switch r := d.Resolution.(type) {
		case nil:
			e.WriteUint8(9)
		case *types.V2FileContractRenewal:
			e.WriteUint8(0)
			r.EncodeTo(e)
		case *types.V2StorageProof:
			e.WriteUint8(1)
			r.EncodeTo(e)
		case *types.V2FileContractExpiration:
			e.WriteUint8(2)
		}
	}
	e.WriteUint8(0xA4)
	au.ChainIndexElement().EncodeTo(e)
	type node struct {
		r, c uint64
		h    types.Hash256
	}
	var nodes []node
	au.ForEachTreeNode(func(row, col uint64, h types.Hash256) { nodes = append(nodes, node{row, col, h}) })
	sort.Slice(nodes, func(i, j int) bool {
		if nodes[i].r != nodes[j].r {
			return nodes[i].r < nodes[j].r
		}
		return nodes[i].c < nodes[j].c
	})
	for _, n := range nodes {
		e.WriteUint64(n.r)
		e.WriteUint64(n.c)
		n.h.EncodeTo(e)
	}
	e.Flush()
	return spec.H(buf.Bytes())
}

// StateBytes is the binary encoding of a consensus state.
func StateBytes(cs consensus.State) []byte {
	var buf bytes.Buffer
	e := types.NewEncoder(&buf)
	cs.EncodeTo(e)
	e.Flush()
	return buf.Bytes()
}

func seEqNoProof(a, b types.StateElement) bool { return a.LeafIndex == b.LeafIndex }

// diffsMirror: the RevertUpdate reports precisely the elements the ApplyUpdate
// reported, with the same flags and contents, in reverse order.
func diffsMirror(au consensus.ApplyUpdate, ru consensus.RevertUpdate) *Problem {
	{
		a, r := au.SiacoinElementDiffs(), ru.SiacoinElementDiffs()
		if len(a) != len(r) {
			return problem("revert|diffs-count", "siacoin diffs: apply reported %d, revert %d", len(a), len(r))
		}
		for i := range a {
			x, y := a[i], r[len(r)-1-i]
			if x.SiacoinElement.ID != y.SiacoinElement.ID || x.Created != y.Created || x.Spent != y.Spent || x.SiacoinElement.SiacoinOutput != y.SiacoinElement.SiacoinOutput ||
				x.SiacoinElement.MaturityHeight != y.SiacoinElement.MaturityHeight || !seEqNoProof(x.SiacoinElement.StateElement, y.SiacoinElement.StateElement) {
				return problem("revert|diffs-siacoin", "siacoin diff %d of apply is not mirrored by revert diff %d (id/flags/contents/leaf index differ)", i, len(r)-1-i)
			}
		}
	}
	{
		a, r := au.SiafundElementDiffs(), ru.SiafundElementDiffs()
		if len(a) != len(r) {
			return problem("revert|diffs-count", "siafund diffs: apply reported %d, revert %d", len(a), len(r))
		}
		for i := range a {
			x, y := a[i], r[len(r)-1-i]
			if x.SiafundElement.ID != y.SiafundElement.ID || x.Created != y.Created || x.Spent != y.Spent || x.SiafundElement.SiafundOutput != y.SiafundElement.SiafundOutput ||
				x.SiafundElement.ClaimStart != y.SiafundElement.ClaimStart || !seEqNoProof(x.SiafundElement.StateElement, y.SiafundElement.StateElement) {
				return problem("revert|diffs-siafund", "siafund diff %d of apply is not mirrored by revert", i)
			}
		}
	}
	{
		a, r := au.FileContractElementDiffs(), ru.FileContractElementDiffs()
		if len(a) != len(r) {
			return problem("revert|diffs-count", "file contract diffs: apply reported %d, revert %d", len(a), len(r))
		}
		for i := range a {
			x, y := a[i], r[len(r)-1-i]
			same := x.FileContractElement.ID == y.FileContractElement.ID && x.Created == y.Created && x.Resolved == y.Resolved && x.Valid == y.Valid &&
				(x.Revision == nil) == (y.Revision == nil) && reflect.DeepEqual(normFC(x.FileContractElement.FileContract), normFC(y.FileContractElement.FileContract)) &&
				seEqNoProof(x.FileContractElement.StateElement, y.FileContractElement.StateElement)
			if same && x.Revision != nil {
				same = reflect.DeepEqual(normFC(*x.Revision), normFC(*y.Revision))
			}
			if !same {
				return problem("revert|diffs-filecontract", "file contract diff %d of apply is not mirrored by revert", i)
			}
		}
	}
	{
		a, r := au.V2FileContractElementDiffs(), ru.V2FileContractElementDiffs()
		if len(a) != len(r) {
			return problem("revert|diffs-count", "v2 contract diffs: apply reported %d, revert %d", len(a), len(r))
		}
		for i := range a {
			x, y := a[i], r[len(r)-1-i]
			same := x.V2FileContractElement.ID == y.V2FileContractElement.ID && x.Created == y.Created && (x.Revision == nil) == (y.Revision == nil) &&
				(x.Resolution == nil) == (y.Resolution == nil) && x.V2FileContractElement.V2FileContract == y.V2FileContractElement.V2FileContract &&
				seEqNoProof(x.V2FileContractElement.StateElement, y.V2FileContractElement.StateElement)
			if same && x.Revision != nil {
				same = *x.Revision == *y.Revision
			}
			if same && x.Resolution != nil {
				same = reflect.TypeOf(x.Resolution) == reflect.TypeOf(y.Resolution)
			}
			if !same {
				return problem("revert|diffs-v2filecontract", "v2 contract diff %d of apply is not mirrored by revert", i)
			}
		}
	}
	if au.ChainIndexElement().ID != ru.ChainIndexElement().ID || au.ChainIndexElement().ChainIndex != ru.ChainIndexElement().ChainIndex {
		return problem("revert|diffs-chainindex", "chain index element of revert differs from apply")
	}
	return nil
}

// ReorgRoundTrip reverts the k tip blocks of a clone of w one by one (checking
// the revert oracle at each step) and re-applies the same blocks, requiring
// byte-identical states and update digests, and the original store.
func (w *World) ReorgRoundTrip(k int) *Problem {
	if k >= len(w.Hist) {
		return nil
	}
	c := w.Clone()
	orig := append([]*Applied(nil), w.Hist[len(w.Hist)-k:]...)
	for i := 0; i < k; i++ {
		if p := c.Revert(); p != nil {
			return p
		}
	}
	for _, a := range orig {
		err, p := c.Apply(a.B, a.BS)
		if p != nil {
			return p
		}
		if err != nil {
			return problem("reorg|reapply-rejected", "block at height %d rejected when re-applied after a revert: %v", a.PrevCS.Index.Height+1, err)
		}
		n := c.Hist[len(c.Hist)-1]
		if !bytes.Equal(n.CSBytes, a.CSBytes) {
			return problem("reorg|state-differs", "state after re-applying block at height %d is not byte-identical to the first apply", a.PrevCS.Index.Height+1)
		}
		if n.Digest != a.Digest {
			return problem("reorg|update-differs", "update (diffs + tree nodes) after re-applying block at height %d differs from the first apply", a.PrevCS.Index.Height+1)
		}
	}
	return compareStores(c.Store, w.Store)
}
