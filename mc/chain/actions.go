package chain

import (
	"fmt"
	"math"
	"time"

	"go.sia.tech/core/types"
	"verifmc/spec"
)

// BlockCtx accumulates the transactions of a block under construction and
// remembers which elements are already used, so that tuples of honest actions
// never collide unintentionally.
type BlockCtx struct {
	W     *World
	H     uint64 // child height
	Used  map[types.Hash256]bool
	V1    []types.Transaction
	V2    []types.V2Transaction
	Names []string
	// latest in-block revision of contracts (for revision chains inside a block)
	RevFC   map[types.FileContractID]types.FileContract
	RevV2FC map[types.FileContractID]types.V2FileContract
	// AllowStaleResolve lets a v2 contract revised in this block be resolved in this block (C07 model).
	AllowStaleResolve bool
	// ExpectReject is set by menu actions that are legal only under a legacy rule: the explorer does not treat the
	// block's rejection as a violation (its acceptance is judged by the state oracles).
	ExpectReject bool
	RevisedInBlock    map[types.Hash256]bool
	// Avoid: contracts the pickers skip (set by Merge while it runs its second action: one transaction may touch a
	// contract only once).
	Avoid map[types.Hash256]bool
}

// NewBlockCtx starts a block on the world's tip.
func (w *World) NewBlockCtx() *BlockCtx {
	return &BlockCtx{W: w, H: w.ChildHeight(), Used: map[types.Hash256]bool{}, RevFC: map[types.FileContractID]types.FileContract{},
		RevV2FC: map[types.FileContractID]types.V2FileContract{}, RevisedInBlock: map[types.Hash256]bool{}}
}

// V1OK / V2OK: is that transaction version admissible at this height?
func (bc *BlockCtx) V1OK() bool { return bc.H < bc.W.Net.HardforkV2.RequireHeight }
func (bc *BlockCtx) V2OK() bool { return bc.H >= bc.W.Net.HardforkV2.AllowHeight }

// Fee used by fee-paying actions.
var Fee = types.Siacoins(1).Add(types.NewCurrency64(7))

func v1Class(c int) bool { return c == AddrV1 || c == AddrV1b || c == AddrFnd }
// V1FormNoSig forms a v1 contract whose unlock conditions require zero signatures (anyone can revise it).
func V1FormNoSig(a, b, F uint64) Action {
	return Action{fmt.Sprintf("v1form-nosig(a=%d,b=%d,F=%d)", a, b, F), func(bc *BlockCtx) bool {
		n := len(bc.V1)
		if !v1form(bc, bc.H+a, bc.H+a+b, F, -1) {
			return false
		}
		t := &bc.V1[n]
		t.FileContracts[0].UnlockHash = types.UnlockConditions{}.UnlockHash()
		t.Signatures = nil
		bc.W.SignV1Whole(t)
		return true
	}}
}

func v2Spendable(c int) bool {
	return c == AddrV1 || c == AddrV1b || c == AddrFnd || c == AddrV2 || c == AddrV2b || c == AddrFndV2 || c == AddrACS
}

// PickSC returns the oldest unspent, mature, unused siacoin element whose
// address class satisfies ok and whose value is at least min.
func (bc *BlockCtx) PickSC(ok func(class int) bool, min types.Currency) (types.SiacoinElement, bool) {
	w := bc.W
	for _, e := range w.Ref.Live(KSC) {
		if bc.Used[e.ID] || e.Maturity > bc.H || e.SC.Value.Cmp(min) < 0 {
			continue
		}
		if c := w.Keys.ClassOf(e.SC.Address); c < 0 || !ok(c) {
			continue
		}
		se, found := w.Store.SC[types.SiacoinOutputID(e.ID)]
		if !found {
			continue
		}
		return se.Copy(), true
	}
	return types.SiacoinElement{}, false
}

// PickSF returns the oldest unspent unused siafund element of an admissible class.
func (bc *BlockCtx) PickSF(ok func(class int) bool) (types.SiafundElement, bool) {
	w := bc.W
	for _, e := range w.Ref.Live(KSF) {
		if bc.Used[e.ID] {
			continue
		}
		if c := w.Keys.ClassOf(e.SF.Address); c < 0 || !ok(c) {
			continue
		}
		if se, found := w.Store.SF[types.SiafundOutputID(e.ID)]; found {
			return se.Copy(), true
		}
	}
	return types.SiafundElement{}, false
}

func (bc *BlockCtx) salt() []byte {
	bc.W.Nonce++
	return []byte(fmt.Sprintf("n%d/%d", bc.W.Keys.Seed, bc.W.Nonce))
}

func (bc *BlockCtx) addV1(name string, txns ...types.Transaction) {
	bc.V1 = append(bc.V1, txns...)
	bc.Names = append(bc.Names, name)
}

func (bc *BlockCtx) addV2(name string, txns ...types.V2Transaction) {
	bc.V2 = append(bc.V2, txns...)
	bc.Names = append(bc.Names, name)
}

// An Action appends transactions to a block context; it returns false (and
// leaves the context untouched) when its precondition does not hold.
type Action struct {
	Name string
	Do   func(bc *BlockCtx) bool
}

// Seq combines actions into one (all or nothing): same-block interactions without raising the tuple bound K.
func Seq(name string, acts ...Action) Action {
	return Action{name, func(bc *BlockCtx) bool {
		save, nonce := bc.snapshot()
		for _, a := range acts {
			if !a.Do(bc) {
				*bc = save
				bc.W.Nonce = nonce
				return false
			}
		}
		// present the combination under one name
		bc.Names = append(save.Names, name)
		return true
	}}
}

// snapshot copies the context (maps deep) so that a composite action can be undone.
func (bc *BlockCtx) snapshot() (BlockCtx, uint64) {
	save := *bc
	save.Used = map[types.Hash256]bool{}
	for k, v := range bc.Used {
		save.Used[k] = v
	}
	save.RevFC = map[types.FileContractID]types.FileContract{}
	for k, v := range bc.RevFC {
		save.RevFC[k] = v
	}
	save.RevV2FC = map[types.FileContractID]types.V2FileContract{}
	for k, v := range bc.RevV2FC {
		save.RevV2FC[k] = v
	}
	save.RevisedInBlock = map[types.Hash256]bool{}
	for k, v := range bc.RevisedInBlock {
		save.RevisedInBlock[k] = v
	}
	save.V1 = bc.V1[:len(bc.V1):len(bc.V1)]
	save.V2 = bc.V2[:len(bc.V2):len(bc.V2)]
	save.Names = bc.Names[:len(bc.Names):len(bc.Names)]
	return save, bc.W.Nonce
}

// Merge runs a and then b and replaces their two transactions (same version, one each, b not depending on anything
// a creates, no contract touched by both) by ONE re-signed transaction carrying both element lists: several inputs,
// contracts, revisions, resolutions, proofs, attestations inside one transaction. Not applicable otherwise.
func Merge(a, b Action) Action {
	return Action{"merge(" + a.Name + " & " + b.Name + ")", func(bc *BlockCtx) bool {
		save, nonce := bc.snapshot()
		fail := func() bool {
			*bc = save
			bc.W.Nonce = nonce
			return false
		}
		n1, n2 := len(bc.V1), len(bc.V2)
		if !a.Do(bc) {
			return fail()
		}
		created, touched := map[types.Hash256]bool{}, map[types.Hash256]bool{}
		switch {
		case len(bc.V1) == n1+1 && len(bc.V2) == n2:
			t := bc.V1[n1]
			created[types.Hash256(t.ID())] = true
			for i := range t.SiacoinOutputs {
				created[types.Hash256(t.SiacoinOutputID(i))] = true
			}
			for i := range t.SiafundOutputs {
				created[types.Hash256(t.SiafundOutputID(i))] = true
			}
			for i := range t.FileContracts {
				created[types.Hash256(t.FileContractID(i))] = true
			}
			for _, r := range t.FileContractRevisions {
				touched[types.Hash256(r.ParentID)] = true
			}
			for _, p := range t.StorageProofs {
				touched[types.Hash256(p.ParentID)] = true
			}
		case len(bc.V2) == n2+1 && len(bc.V1) == n1:
			t := bc.V2[n2]
			id := t.ID()
			for i := range t.SiacoinOutputs {
				created[types.Hash256(t.SiacoinOutputID(id, i))] = true
			}
			for i := range t.SiafundOutputs {
				created[types.Hash256(t.SiafundOutputID(id, i))] = true
			}
			for i := range t.FileContracts {
				created[types.Hash256(t.V2FileContractID(id, i))] = true
			}
			for _, r := range t.FileContractRevisions {
				touched[types.Hash256(r.Parent.ID)] = true
			}
			for _, r := range t.FileContractResolutions {
				touched[types.Hash256(r.Parent.ID)] = true
				created[types.Hash256(r.Parent.ID.V2RenewalID())] = true
			}
		default:
			return fail()
		}
		bc.Avoid = touched
		ok := b.Do(bc)
		bc.Avoid = nil
		if !ok {
			return fail()
		}
		dep := func(id types.Hash256) bool { return created[id] || touched[id] }
		switch {
		case len(bc.V1) == n1+2 && len(bc.V2) == n2:
			ta, tb := bc.V1[n1], bc.V1[n1+1]
			for _, in := range tb.SiacoinInputs {
				if dep(types.Hash256(in.ParentID)) {
					return fail()
				}
			}
			for _, in := range tb.SiafundInputs {
				if dep(types.Hash256(in.ParentID)) {
					return fail()
				}
			}
			for _, r := range tb.FileContractRevisions {
				if dep(types.Hash256(r.ParentID)) {
					return fail()
				}
			}
			for _, p := range tb.StorageProofs {
				if dep(types.Hash256(p.ParentID)) {
					return fail()
				}
			}
			// a v1 transaction with storage proofs may carry nothing that creates outputs
			if (len(ta.StorageProofs) > 0) != (len(tb.StorageProofs) > 0) {
				return fail()
			}
			m := types.Transaction{
				SiacoinInputs:         append(append([]types.SiacoinInput(nil), ta.SiacoinInputs...), tb.SiacoinInputs...),
				SiacoinOutputs:        append(append([]types.SiacoinOutput(nil), ta.SiacoinOutputs...), tb.SiacoinOutputs...),
				FileContracts:         append(append([]types.FileContract(nil), ta.FileContracts...), tb.FileContracts...),
				FileContractRevisions: append(append([]types.FileContractRevision(nil), ta.FileContractRevisions...), tb.FileContractRevisions...),
				StorageProofs:         append(append([]types.StorageProof(nil), ta.StorageProofs...), tb.StorageProofs...),
				SiafundInputs:         append(append([]types.SiafundInput(nil), ta.SiafundInputs...), tb.SiafundInputs...),
				SiafundOutputs:        append(append([]types.SiafundOutput(nil), ta.SiafundOutputs...), tb.SiafundOutputs...),
				MinerFees:             append(append([]types.Currency(nil), ta.MinerFees...), tb.MinerFees...),
				ArbitraryData:         append(append([][]byte(nil), ta.ArbitraryData...), tb.ArbitraryData...),
			}
			bc.W.SignV1Whole(&m)
			bc.V1 = append(bc.V1[:n1:n1], m)
		case len(bc.V2) == n2+2 && len(bc.V1) == n1:
			ta, tb := bc.V2[n2], bc.V2[n2+1]
			for _, in := range tb.SiacoinInputs {
				if dep(types.Hash256(in.Parent.ID)) {
					return fail()
				}
			}
			for _, in := range tb.SiafundInputs {
				if dep(types.Hash256(in.Parent.ID)) {
					return fail()
				}
			}
			for _, r := range tb.FileContractRevisions {
				if dep(types.Hash256(r.Parent.ID)) {
					return fail()
				}
			}
			for _, r := range tb.FileContractResolutions {
				if dep(types.Hash256(r.Parent.ID)) {
					return fail()
				}
			}
			if ta.NewFoundationAddress != nil && tb.NewFoundationAddress != nil {
				return fail()
			}
			m := types.V2Transaction{
				SiacoinInputs:           append(append([]types.V2SiacoinInput(nil), ta.SiacoinInputs...), tb.SiacoinInputs...),
				SiacoinOutputs:          append(append([]types.SiacoinOutput(nil), ta.SiacoinOutputs...), tb.SiacoinOutputs...),
				SiafundInputs:           append(append([]types.V2SiafundInput(nil), ta.SiafundInputs...), tb.SiafundInputs...),
				SiafundOutputs:          append(append([]types.SiafundOutput(nil), ta.SiafundOutputs...), tb.SiafundOutputs...),
				FileContracts:           append(append([]types.V2FileContract(nil), ta.FileContracts...), tb.FileContracts...),
				FileContractRevisions:   append(append([]types.V2FileContractRevision(nil), ta.FileContractRevisions...), tb.FileContractRevisions...),
				FileContractResolutions: append(append([]types.V2FileContractResolution(nil), ta.FileContractResolutions...), tb.FileContractResolutions...),
				Attestations:            append(append([]types.Attestation(nil), ta.Attestations...), tb.Attestations...),
				ArbitraryData:           append(append([]byte(nil), ta.ArbitraryData...), tb.ArbitraryData...),
				NewFoundationAddress:    ta.NewFoundationAddress,
				MinerFee:                ta.MinerFee.Add(tb.MinerFee),
			}
			if m.NewFoundationAddress == nil {
				m.NewFoundationAddress = tb.NewFoundationAddress
			}
			bc.W.SignV2(&m)
			bc.V2 = append(bc.V2[:n2:n2], m)
		default:
			return fail()
		}
		bc.Names = append(save.Names, "merge("+a.Name+" & "+b.Name+")")
		return true
	}}
}

// ---------------- v1 actions ----------------

// V1Pay spends one siacoin output of a v1 class.
func V1Pay(fee bool, outs int) Action {
	return Action{fmt.Sprintf("v1pay(fee=%v,outs=%d)", fee, outs), func(bc *BlockCtx) bool {
		if !bc.V1OK() {
			return false
		}
		w := bc.W
		p, ok := bc.PickSC(func(c int) bool { return c == AddrV1 || c == AddrV1b }, types.Siacoins(10))
		if !ok {
			return false
		}
		c := w.Keys.ClassOf(p.SiacoinOutput.Address)
		txn := types.Transaction{SiacoinInputs: []types.SiacoinInput{{ParentID: p.ID, UnlockConditions: w.Keys.StdUC(KeyOf(c))}}}
		v := p.SiacoinOutput.Value
		if fee {
			// two fee entries: v1 transactions carry a LIST of miner fees
			txn.MinerFees = []types.Currency{Fee, types.NewCurrency64(3)}
			v = v.Sub(Fee).Sub(types.NewCurrency64(3))
		}
		if outs == 2 {
			half := v.Div64(2)
			txn.SiacoinOutputs = []types.SiacoinOutput{{Value: half, Address: w.Keys.Addr(AddrV1)}, {Value: v.Sub(half), Address: w.Keys.Addr(AddrV2)}}
		} else {
			txn.SiacoinOutputs = []types.SiacoinOutput{{Value: v, Address: w.Keys.Addr(AddrV1)}}
		}
		w.SignV1Whole(&txn)
		bc.Used[types.Hash256(p.ID)] = true
		bc.addV1("v1pay", txn)
		return true
	}}
}

// V1Gather consolidates three outputs into one (more inputs than outputs; no fee).
func V1Gather() Action {
	return Action{"v1gather", func(bc *BlockCtx) bool {
		if !bc.V1OK() {
			return false
		}
		w := bc.W
		save, nonce := bc.snapshot()
		var txn types.Transaction
		var sum types.Currency
		for i := 0; i < 3; i++ {
			p, ok := bc.PickSC(func(c int) bool { return c == AddrV1 || c == AddrV1b }, types.Siacoins(1))
			if !ok {
				*bc = save
				bc.W.Nonce = nonce
				return false
			}
			bc.Used[types.Hash256(p.ID)] = true
			c := w.Keys.ClassOf(p.SiacoinOutput.Address)
			txn.SiacoinInputs = append(txn.SiacoinInputs, types.SiacoinInput{ParentID: p.ID, UnlockConditions: w.Keys.StdUC(KeyOf(c))})
			sum = sum.Add(p.SiacoinOutput.Value)
		}
		txn.SiacoinOutputs = []types.SiacoinOutput{{Value: sum, Address: w.Keys.Addr(AddrV1)}}
		w.SignV1Whole(&txn)
		bc.addV1("v1gather", txn)
		return true
	}}
}

// V1Chain: a payment whose output is spent by the next transaction of the block.
func V1Chain() Action {
	return Action{"v1chain", func(bc *BlockCtx) bool {
		if !bc.V1OK() {
			return false
		}
		w := bc.W
		p, ok := bc.PickSC(func(c int) bool { return c == AddrV1 || c == AddrV1b }, types.Siacoins(10))
		if !ok {
			return false
		}
		c := w.Keys.ClassOf(p.SiacoinOutput.Address)
		t1 := types.Transaction{SiacoinInputs: []types.SiacoinInput{{ParentID: p.ID, UnlockConditions: w.Keys.StdUC(KeyOf(c))}},
			SiacoinOutputs: []types.SiacoinOutput{{Value: p.SiacoinOutput.Value, Address: w.Keys.Addr(AddrV1)}}}
		w.SignV1Whole(&t1)
		t2 := types.Transaction{SiacoinInputs: []types.SiacoinInput{{ParentID: t1.SiacoinOutputID(0), UnlockConditions: w.Keys.StdUC(0)}},
			SiacoinOutputs: []types.SiacoinOutput{{Value: p.SiacoinOutput.Value.Sub(Fee), Address: w.Keys.Addr(AddrV2)}}, MinerFees: []types.Currency{Fee}}
		w.SignV1Whole(&t2)
		bc.Used[types.Hash256(p.ID)] = true
		bc.addV1("v1chain", t1, t2)
		return true
	}}
}

// V1SF spends one siafund output (whole or split) and pays the claim.
func V1SF(split bool) Action {
	return Action{fmt.Sprintf("v1sf(split=%v)", split), func(bc *BlockCtx) bool {
		if !bc.V1OK() {
			return false
		}
		w := bc.W
		p, ok := bc.PickSF(func(c int) bool { return c == AddrV1 || (c == AddrV1b) })
		if !ok {
			return false
		}
		c := w.Keys.ClassOf(p.SiafundOutput.Address)
		key := KeyOf(c)
		if c == AddrV1b && bc.H >= w.Net.HardforkDevAddr.Height {
			key = KeyOf(c) // the original key still works after the dev-address fork
		}
		txn := types.Transaction{SiafundInputs: []types.SiafundInput{{ParentID: p.ID, UnlockConditions: w.Keys.StdUC(key), ClaimAddress: w.Keys.Addr(AddrV1)}}}
		v := p.SiafundOutput.Value
		if split && v >= 2 {
			a := v * 6 / 10
			txn.SiafundOutputs = []types.SiafundOutput{{Value: a, Address: w.Keys.Addr(AddrV1)}, {Value: v - a, Address: w.Keys.Addr(AddrV2)}}
		} else {
			txn.SiafundOutputs = []types.SiafundOutput{{Value: v, Address: w.Keys.Addr(AddrV1)}}
		}
		txn.ArbitraryData = [][]byte{bc.salt()}
		w.SignV1Whole(&txn)
		bc.Used[types.Hash256(p.ID)] = true
		bc.addV1("v1sf", txn)
		return true
	}}
}

// ContractUC is the 2-of-2 unlock conditions of v1 contracts.
func (k *Keys) ContractUC() types.UnlockConditions {
	return types.UnlockConditions{PublicKeys: []types.UnlockKey{k.Pub[0].UnlockKey(), k.Pub[1].UnlockKey()}, SignaturesRequired: 2}
}

// V1Form forms a v1 contract with WindowStart=h+a, WindowEnd=WindowStart+b, file size F.
func V1Form(a, b uint64, F uint64) Action { return V1FormSalted(a, b, F, -1) }

// V1FormAbs forms a v1 contract with absolute window heights (may violate the formation rule: C08 probes).
func V1FormAbs(ws, we, F uint64) Action {
	return Action{fmt.Sprintf("v1form-abs(ws=%d,we=%d)", ws, we), func(bc *BlockCtx) bool { return v1form(bc, ws, we, F, -1) }}
}

// V2FormAbs forms a v2 contract with absolute proof/expiration heights.
func V2FormAbs(ph, eh, F uint64) Action {
	return Action{fmt.Sprintf("v2form-abs(ph=%d,eh=%d)", ph, eh), func(bc *BlockCtx) bool { return v2form(bc, ph, eh, F, -1) }}
}

// V1FormSalted is V1Form with a salt in the arbitrary data (changes the contract ID and hence the challenged leaf).
func V1FormSalted(a, b uint64, F uint64, salt int) Action {
	return Action{fmt.Sprintf("v1form(a=%d,b=%d,F=%d)", a, b, F), func(bc *BlockCtx) bool { return v1form(bc, bc.H+a, bc.H+a+b, F, salt) }}
}

func v1form(bc *BlockCtx, ws, we, F uint64, salt int) bool {
	{
		if !bc.V1OK() {
			return false
		}
		w := bc.W
		payout := types.Siacoins(200).Add(types.NewCurrency64(12345))
		if salt > 0 {
			payout = payout.Add(types.Siacoins(uint32(10 * (salt % 9)))) // salted contracts also differ in their amounts
		}
		p, ok := bc.PickSC(func(c int) bool { return c == AddrV1 || c == AddrV1b }, payout.Add(Fee))
		if !ok {
			return false
		}
		tax := cur(RefTaxV1(w.Net, bc.H, payout))
		valid := payout.Sub(tax)
		r := valid.Div64(3).Mul64(2)
		s := valid.Sub(r)
		x := s.Div64(4)
		fc := types.FileContract{
			Filesize: F, FileMerkleRoot: spec.FileRoot(spec.FileData(int(F), byte(F%251))),
			WindowStart: ws, WindowEnd: we, Payout: payout,
			ValidProofOutputs:  []types.SiacoinOutput{{Value: r, Address: w.Keys.Addr(AddrV1)}, {Value: s, Address: w.Keys.Addr(AddrV1b)}},
			MissedProofOutputs: []types.SiacoinOutput{{Value: r, Address: w.Keys.Addr(AddrV1)}, {Value: s.Sub(x), Address: w.Keys.Addr(AddrV1b)}, {Value: x, Address: types.VoidAddress}},
			UnlockHash:         w.Keys.ContractUC().UnlockHash(),
		}
		c := w.Keys.ClassOf(p.SiacoinOutput.Address)
		txn := types.Transaction{
			SiacoinInputs:  []types.SiacoinInput{{ParentID: p.ID, UnlockConditions: w.Keys.StdUC(KeyOf(c))}},
			SiacoinOutputs: []types.SiacoinOutput{{Value: p.SiacoinOutput.Value.Sub(payout).Sub(Fee), Address: w.Keys.Addr(AddrV1)}},
			FileContracts:  []types.FileContract{fc}, MinerFees: []types.Currency{Fee},
		}
		if salt >= 0 {
			txn.ArbitraryData = [][]byte{[]byte(fmt.Sprintf("salt-%d", salt))}
		}
		w.SignV1Whole(&txn)
		bc.Used[types.Hash256(p.ID)] = true
		bc.addV1("v1form", txn)
		return true
	}
}

// pickFC returns the oldest unresolved unused v1 contract satisfying ok (on its latest revision, incl. in-block).
func (bc *BlockCtx) pickFC(ok func(fc types.FileContract) bool) (types.FileContractElement, types.FileContract, bool) {
	w := bc.W
	for _, e := range w.Ref.Live(KFC) {
		if bc.Used[e.ID] || bc.Avoid[e.ID] {
			continue
		}
		fce, found := w.Store.FC[types.FileContractID(e.ID)]
		if !found {
			continue
		}
		cur := fce.FileContract
		if rev, ok := bc.RevFC[fce.ID]; ok {
			cur = rev
		}
		if ok(cur) {
			return copyFCE(fce), cur, true
		}
	}
	return types.FileContractElement{}, types.FileContract{}, false
}

// V1Revise revises the oldest revisable v1 contract.
func V1Revise(kind string) Action {
	return Action{"v1revise(" + kind + ")", func(bc *BlockCtx) bool {
		if !bc.V1OK() {
			return false
		}
		w := bc.W
		fce, cur, ok := bc.pickFC(func(fc types.FileContract) bool {
			return fc.WindowStart >= bc.H && fc.RevisionNumber < math.MaxUint64 && fc.ValidProofOutputs[0].Value.Cmp(types.Siacoins(2)) > 0
		})
		if !ok {
			return false
		}
		rev := cur
		rev.ValidProofOutputs = append([]types.SiacoinOutput(nil), cur.ValidProofOutputs...)
		rev.MissedProofOutputs = append([]types.SiacoinOutput(nil), cur.MissedProofOutputs...)
		rev.RevisionNumber++
		switch kind {
		case "pay":
			one := types.Siacoins(1)
			rev.ValidProofOutputs[0].Value = rev.ValidProofOutputs[0].Value.Sub(one)
			rev.ValidProofOutputs[1].Value = rev.ValidProofOutputs[1].Value.Add(one)
			rev.MissedProofOutputs[0].Value = rev.MissedProofOutputs[0].Value.Sub(one)
			rev.MissedProofOutputs[1].Value = rev.MissedProofOutputs[1].Value.Add(one)
		case "max":
			rev.RevisionNumber = math.MaxUint64
		case "grow":
			rev.Filesize = cur.Filesize + 64
			rev.FileMerkleRoot = spec.FileRoot(spec.FileData(int(rev.Filesize), byte(rev.Filesize%251)))
		case "window":
			rev.WindowStart++
			rev.WindowEnd++
		}
		txn := types.Transaction{FileContractRevisions: []types.FileContractRevision{{ParentID: fce.ID, UnlockConditions: w.Keys.UCForHash(cur.UnlockHash), FileContract: rev}}}
		w.SignV1Whole(&txn)
		rev.Payout = cur.Payout
		bc.RevFC[fce.ID] = rev
		bc.RevisedInBlock[types.Hash256(fce.ID)] = true
		bc.addV1("v1revise", txn)
		return true
	}}
}

// V1ProofTxn builds the honest storage proof transaction for a contract.
func (w *World) V1ProofTxn(id types.FileContractID, fc types.FileContract, windowID types.BlockID) types.Transaction {
	if fc.Filesize > 1<<24 {
		// only reached with deliberately corrupted contract elements (membership attacks): the file cannot be
		// materialised; an empty proof stands in (the block must be rejected for the corrupted element anyway)
		return types.Transaction{StorageProofs: []types.StorageProof{{ParentID: id}}}
	}
	idx := w.CS.StorageProofLeafIndex(fc.Filesize, windowID, id)
	leaf, proof := spec.FileProof(spec.FileData(int(fc.Filesize), byte(fc.Filesize%251)), int(idx))
	return types.Transaction{StorageProofs: []types.StorageProof{{ParentID: id, Leaf: leaf, Proof: proof}}}
}

// V1FormRevise forms a v1 contract and revises THAT contract in the next transaction of the same block (twice if
// twice is set): the revision's parent exists only among the block's own creations.
func V1FormRevise(twice bool) Action {
	name := "v1form+revise-in-block"
	if twice {
		name = "v1form+revise-twice-in-block"
	}
	return Action{name, func(bc *BlockCtx) bool {
		save, nonce := bc.snapshot()
		n := len(bc.V1)
		if !v1form(bc, bc.H+1, bc.H+3, 100, 7) || len(bc.V1) != n+1 {
			*bc = save
			bc.W.Nonce = nonce
			return false
		}
		w := bc.W
		t1 := bc.V1[n]
		fcid := t1.FileContractID(0)
		cur := t1.FileContracts[0]
		times := 1
		if twice {
			times = 2
		}
		for i := 0; i < times; i++ {
			rev := cur
			rev.ValidProofOutputs = append([]types.SiacoinOutput(nil), cur.ValidProofOutputs...)
			rev.MissedProofOutputs = append([]types.SiacoinOutput(nil), cur.MissedProofOutputs...)
			rev.RevisionNumber++
			one := types.Siacoins(1)
			rev.ValidProofOutputs[0].Value = rev.ValidProofOutputs[0].Value.Sub(one)
			rev.ValidProofOutputs[1].Value = rev.ValidProofOutputs[1].Value.Add(one)
			rev.MissedProofOutputs[0].Value = rev.MissedProofOutputs[0].Value.Sub(one)
			rev.MissedProofOutputs[1].Value = rev.MissedProofOutputs[1].Value.Add(one)
			txn := types.Transaction{FileContractRevisions: []types.FileContractRevision{{ParentID: fcid, UnlockConditions: w.Keys.UCForHash(cur.UnlockHash), FileContract: rev}}}
			w.SignV1Whole(&txn)
			bc.V1 = append(bc.V1, txn)
			cur = rev
		}
		bc.Names = append(save.Names, name)
		return true
	}}
}

// V1FormProve: a v1 contract whose window opens at this very block is formed (optionally revised) and proven by a later
// transaction of the same block: created and resolved in one block (its diff is Created AND Resolved; a revert must
// not bring it back).
func V1FormProve(revise bool) Action {
	name := "v1form+prove-in-block"
	if revise {
		name = "v1form+revise+prove-in-block"
	}
	return Action{name, func(bc *BlockCtx) bool {
		save, nonce := bc.snapshot()
		n := len(bc.V1)
		if bc.H < 1 || !v1form(bc, bc.H, bc.H+2, 100, 5) || len(bc.V1) != n+1 {
			*bc = save
			bc.W.Nonce = nonce
			return false
		}
		w := bc.W
		t1 := bc.V1[n]
		fcid := t1.FileContractID(0)
		cur := t1.FileContracts[0]
		if revise {
			rev := cur
			rev.ValidProofOutputs = append([]types.SiacoinOutput(nil), cur.ValidProofOutputs...)
			rev.MissedProofOutputs = append([]types.SiacoinOutput(nil), cur.MissedProofOutputs...)
			rev.RevisionNumber++
			one := types.Siacoins(1)
			rev.ValidProofOutputs[0].Value = rev.ValidProofOutputs[0].Value.Sub(one)
			rev.ValidProofOutputs[1].Value = rev.ValidProofOutputs[1].Value.Add(one)
			rev.MissedProofOutputs[0].Value = rev.MissedProofOutputs[0].Value.Sub(one)
			rev.MissedProofOutputs[1].Value = rev.MissedProofOutputs[1].Value.Add(one)
			txn := types.Transaction{FileContractRevisions: []types.FileContractRevision{{ParentID: fcid, UnlockConditions: w.Keys.UCForHash(cur.UnlockHash), FileContract: rev}}}
			w.SignV1Whole(&txn)
			bc.V1 = append(bc.V1, txn)
			cur = rev
		}
		bc.V1 = append(bc.V1, w.V1ProofTxn(fcid, cur, w.CS.Index.ID))
		bc.Names = append(save.Names, name)
		return true
	}}
}

// V1ProofFee is V1Proof(false) whose transaction also spends a siacoin output entirely as miner fees (a storage proof
// transaction may carry no outputs, but it may carry inputs and fees).
func V1ProofFee() Action {
	return Action{"v1proof+fee", func(bc *BlockCtx) bool {
		save, nonce := bc.snapshot()
		n := len(bc.V1)
		if !V1Proof(false).Do(bc) || len(bc.V1) != n+1 {
			*bc = save
			bc.W.Nonce = nonce
			return false
		}
		w := bc.W
		p, ok := bc.PickSC(func(c int) bool { return c == AddrV1 || c == AddrV1b }, types.Siacoins(1))
		if !ok {
			*bc = save
			bc.W.Nonce = nonce
			return false
		}
		t := &bc.V1[n]
		c := w.Keys.ClassOf(p.SiacoinOutput.Address)
		t.SiacoinInputs = []types.SiacoinInput{{ParentID: p.ID, UnlockConditions: w.Keys.StdUC(KeyOf(c))}}
		t.MinerFees = []types.Currency{p.SiacoinOutput.Value}
		t.Signatures = nil
		w.SignV1Whole(t)
		bc.Used[types.Hash256(p.ID)] = true
		bc.Names = append(save.Names, "v1proof+fee")
		return true
	}}
}

// V1Proof proves the oldest provable v1 contract (window open, not yet ended unless atEnd).
func V1Proof(atEnd bool) Action {
	name := "v1proof"
	if atEnd {
		name = "v1proof(at-window-end)"
	}
	return Action{name, func(bc *BlockCtx) bool {
		if !bc.V1OK() {
			return false
		}
		w := bc.W
		fce, cur, ok := bc.pickFC(func(fc types.FileContract) bool {
			if bc.RevisedInBlockFC(fc) {
				return false
			}
			if atEnd {
				return fc.WindowStart <= bc.H && fc.WindowEnd == bc.H
			}
			return fc.WindowStart <= bc.H && bc.H < fc.WindowEnd
		})
		if !ok {
			return false
		}
		windowID := w.Hist[cur.WindowStart-1].B.ID()
		txn := w.V1ProofTxn(fce.ID, cur, windowID)
		bc.Used[types.Hash256(fce.ID)] = true
		bc.addV1(name, txn)
		return true
	}}
}

// RevisedInBlockFC is a hook kept for symmetry (v1 proofs of contracts revised in this block are excluded by id).
func (bc *BlockCtx) RevisedInBlockFC(types.FileContract) bool { return false }

// V1Foundation updates the foundation addresses through arbitrary data, signed by the current primary key.
func V1Foundation() Action {
	return Action{"v1foundation", func(bc *BlockCtx) bool {
		w := bc.W
		if !bc.V1OK() || bc.H < w.Net.HardforkFoundation.Height || w.Height() < w.Net.HardforkFoundation.Height {
			return false
		}
		// spend an output controlled by the current subsidy (primary) address if it is the v1 foundation class
		if w.Ref.FndPrimary != w.Keys.Addr(AddrFnd) {
			return false
		}
		p, ok := bc.PickSC(func(c int) bool { return c == AddrFnd }, types.Siacoins(5))
		if !ok {
			return false
		}
		var e types.Encoder
		_ = e
		arb := append([]byte(nil), types.SpecifierFoundation[:]...)
		np, nf := w.Keys.Addr(AddrFnd), w.Keys.Addr(AddrFndV2)
		// rotate: swap primary to the v1b address once, keep failsafe
		np = w.Keys.Addr(AddrV1b)
		arb = append(arb, np[:]...)
		arb = append(arb, nf[:]...)
		txn := types.Transaction{SiacoinInputs: []types.SiacoinInput{{ParentID: p.ID, UnlockConditions: w.Keys.StdUC(3)}},
			SiacoinOutputs: []types.SiacoinOutput{{Value: p.SiacoinOutput.Value, Address: w.Keys.Addr(AddrFnd)}}, ArbitraryData: [][]byte{arb}}
		w.SignV1Whole(&txn)
		bc.Used[types.Hash256(p.ID)] = true
		bc.addV1("v1foundation", txn)
		return true
	}}
}

// ---------------- v2 actions ----------------

// V2Pay spends one siacoin output with a v2 transaction. class selects the parent's address class
// (AddrV2: pk policy, AddrV1: legacy unlock-conditions policy, AddrACS: no signatures).
func V2Pay(class int, fee bool, outs int) Action {
	return Action{fmt.Sprintf("v2pay(class=%d,fee=%v,outs=%d)", class, fee, outs), func(bc *BlockCtx) bool {
		if !bc.V2OK() {
			return false
		}
		w := bc.W
		p, ok := bc.PickSC(func(c int) bool { return c == class }, types.Siacoins(10))
		if !ok {
			return false
		}
		txn := types.V2Transaction{SiacoinInputs: []types.V2SiacoinInput{{Parent: p}}}
		v := p.SiacoinOutput.Value
		if fee {
			txn.MinerFee = Fee
			v = v.Sub(Fee)
		}
		dst := class
		if outs == 2 {
			half := v.Div64(2)
			txn.SiacoinOutputs = []types.SiacoinOutput{{Value: half, Address: w.Keys.Addr(dst)}, {Value: v.Sub(half), Address: w.Keys.Addr(AddrV2)}}
		} else {
			txn.SiacoinOutputs = []types.SiacoinOutput{{Value: v, Address: w.Keys.Addr(dst)}}
		}
		w.SignV2(&txn)
		bc.Used[types.Hash256(p.ID)] = true
		bc.addV2("v2pay", txn)
		return true
	}}
}

// V2Chain: a payment whose output is spent as an ephemeral parent by the next transaction.
func V2Chain(class int) Action {
	return Action{fmt.Sprintf("v2chain(class=%d)", class), func(bc *BlockCtx) bool {
		if !bc.V2OK() {
			return false
		}
		w := bc.W
		p, ok := bc.PickSC(func(c int) bool { return c == class }, types.Siacoins(10))
		if !ok {
			return false
		}
		t1 := types.V2Transaction{SiacoinInputs: []types.V2SiacoinInput{{Parent: p}},
			SiacoinOutputs: []types.SiacoinOutput{{Value: p.SiacoinOutput.Value, Address: w.Keys.Addr(class)}}}
		w.SignV2(&t1)
		t2 := types.V2Transaction{SiacoinInputs: []types.V2SiacoinInput{{Parent: t1.EphemeralSiacoinOutput(0)}},
			SiacoinOutputs: []types.SiacoinOutput{{Value: p.SiacoinOutput.Value.Sub(Fee), Address: w.Keys.Addr(AddrV2)}}, MinerFee: Fee}
		w.SignV2(&t2)
		bc.Used[types.Hash256(p.ID)] = true
		bc.addV2("v2chain", t1, t2)
		return true
	}}
}

// MixedChain: a v1 transaction creates an output and a v2 transaction of the SAME block spends it as an ephemeral
// parent (only possible between the v2 allow and require heights; a block's v1 transactions precede its v2 ones).
func MixedChain() Action {
	return Action{"mixedchain(v1->v2)", func(bc *BlockCtx) bool {
		if !bc.V1OK() || !bc.V2OK() {
			return false
		}
		w := bc.W
		p, ok := bc.PickSC(func(c int) bool { return c == AddrV1 || c == AddrV1b }, types.Siacoins(10))
		if !ok {
			return false
		}
		c := w.Keys.ClassOf(p.SiacoinOutput.Address)
		t1 := types.Transaction{SiacoinInputs: []types.SiacoinInput{{ParentID: p.ID, UnlockConditions: w.Keys.StdUC(KeyOf(c))}},
			SiacoinOutputs: []types.SiacoinOutput{{Value: p.SiacoinOutput.Value, Address: w.Keys.Addr(AddrV1)}}}
		w.SignV1Whole(&t1)
		eph := types.SiacoinElement{ID: t1.SiacoinOutputID(0), SiacoinOutput: t1.SiacoinOutputs[0], StateElement: types.StateElement{LeafIndex: types.UnassignedLeafIndex}}
		t2 := types.V2Transaction{SiacoinInputs: []types.V2SiacoinInput{{Parent: eph}},
			SiacoinOutputs: []types.SiacoinOutput{{Value: p.SiacoinOutput.Value.Sub(Fee), Address: w.Keys.Addr(AddrV2)}}, MinerFee: Fee}
		w.SignV2(&t2)
		bc.Used[types.Hash256(p.ID)] = true
		bc.V1 = append(bc.V1, t1)
		bc.V2 = append(bc.V2, t2)
		bc.Names = append(bc.Names, "mixedchain")
		return true
	}}
}

// V2Chain2: like V2Chain, but the second transaction spends the ephemeral output TOGETHER with an ordinary input.
func V2Chain2(class int) Action {
	return Action{fmt.Sprintf("v2chain2(class=%d)", class), func(bc *BlockCtx) bool {
		if !bc.V2OK() {
			return false
		}
		w := bc.W
		p, ok := bc.PickSC(func(c int) bool { return c == class }, types.Siacoins(10))
		if !ok {
			return false
		}
		bc.Used[types.Hash256(p.ID)] = true
		q, ok := bc.PickSC(func(c int) bool { return c == class }, types.Siacoins(10))
		if !ok {
			delete(bc.Used, types.Hash256(p.ID))
			return false
		}
		bc.Used[types.Hash256(q.ID)] = true
		t1 := types.V2Transaction{SiacoinInputs: []types.V2SiacoinInput{{Parent: p}},
			SiacoinOutputs: []types.SiacoinOutput{{Value: p.SiacoinOutput.Value, Address: w.Keys.Addr(class)}}}
		w.SignV2(&t1)
		t2 := types.V2Transaction{SiacoinInputs: []types.V2SiacoinInput{{Parent: t1.EphemeralSiacoinOutput(0)}, {Parent: q}},
			SiacoinOutputs: []types.SiacoinOutput{{Value: p.SiacoinOutput.Value.Add(q.SiacoinOutput.Value).Sub(Fee), Address: w.Keys.Addr(AddrV2)}}, MinerFee: Fee}
		w.SignV2(&t2)
		bc.addV2("v2chain2", t1, t2)
		return true
	}}
}

// V2SF spends a siafund output with a v2 transaction.
func V2SF(split bool) Action {
	return Action{fmt.Sprintf("v2sf(split=%v)", split), func(bc *BlockCtx) bool {
		if !bc.V2OK() {
			return false
		}
		w := bc.W
		p, ok := bc.PickSF(func(c int) bool { return c == AddrV1 || c == AddrV2 || c == AddrV1b })
		if !ok {
			return false
		}
		txn := types.V2Transaction{SiafundInputs: []types.V2SiafundInput{{Parent: p, ClaimAddress: w.Keys.Addr(AddrV2)}}, ArbitraryData: bc.salt()}
		v := p.SiafundOutput.Value
		if split && v >= 2 {
			a := v * 6 / 10
			txn.SiafundOutputs = []types.SiafundOutput{{Value: a, Address: w.Keys.Addr(AddrV2)}, {Value: v - a, Address: w.Keys.Addr(AddrV1)}}
		} else {
			txn.SiafundOutputs = []types.SiafundOutput{{Value: v, Address: w.Keys.Addr(AddrV2)}}
		}
		w.SignV2(&txn)
		bc.Used[types.Hash256(p.ID)] = true
		bc.addV2("v2sf", txn)
		return true
	}}
}

// V2SFChain: a siafund transfer whose output is spent again (as an ephemeral parent) by the next transaction.
// Only admissible below the network's ephemeral-output fix height.
func V2SFChain() Action {
	return Action{"v2sfchain", func(bc *BlockCtx) bool {
		w := bc.W
		if !bc.V2OK() || bc.H >= w.Net.HardforkV2.EphemeralOutputHeight {
			return false
		}
		// the claim start stated for the in-block parent below is the pool at the START of the block; that is the honest
		// value only if nothing earlier in this block pays into the pool (below the ephemeral-output height the
		// stated value is not checked, so a stale one would be a dishonest action)
		for _, t := range bc.V1 {
			if len(t.FileContracts) > 0 {
				return false
			}
		}
		for _, t := range bc.V2 {
			if len(t.FileContracts) > 0 || len(t.FileContractResolutions) > 0 {
				return false
			}
		}
		p, ok := bc.PickSF(func(c int) bool { return c == AddrV1 || c == AddrV2 || c == AddrV1b })
		if !ok {
			return false
		}
		t1 := types.V2Transaction{SiafundInputs: []types.V2SiafundInput{{Parent: p, ClaimAddress: w.Keys.Addr(AddrV2)}},
			SiafundOutputs: []types.SiafundOutput{{Value: p.SiafundOutput.Value, Address: w.Keys.Addr(AddrV2)}}, ArbitraryData: bc.salt()}
		w.SignV2(&t1)
		eph := t1.EphemeralSiafundOutput(0)
		eph.ClaimStart = w.CS.SiafundTaxRevenue // the honest value: nothing was collected in between
		t2 := types.V2Transaction{SiafundInputs: []types.V2SiafundInput{{Parent: eph, ClaimAddress: w.Keys.Addr(AddrV2)}},
			SiafundOutputs: []types.SiafundOutput{{Value: p.SiafundOutput.Value, Address: w.Keys.Addr(AddrV1)}}}
		w.SignV2(&t2)
		bc.Used[types.Hash256(p.ID)] = true
		bc.addV2("v2sfchain", t1, t2)
		return true
	}}
}

// V1SFChain: a v1 transaction splits a siafund output and a second v1 transaction of the same block spends one of the
// new outputs (siafund outputs created and spent inside one block; always legal for v1 transactions).
func V1SFChain() Action {
	return Action{"v1sfchain", func(bc *BlockCtx) bool {
		if !bc.V1OK() {
			return false
		}
		w := bc.W
		p, ok := bc.PickSF(func(c int) bool { return c == AddrV1 })
		if !ok || p.SiafundOutput.Value < 2 {
			return false
		}
		t1 := types.Transaction{SiafundInputs: []types.SiafundInput{{ParentID: p.ID, UnlockConditions: w.Keys.StdUC(0), ClaimAddress: w.Keys.Addr(AddrV1)}},
			SiafundOutputs: []types.SiafundOutput{{Value: 1, Address: w.Keys.Addr(AddrV1)}, {Value: p.SiafundOutput.Value - 1, Address: w.Keys.Addr(AddrV1)}}}
		w.SignV1Whole(&t1)
		t2 := types.Transaction{SiafundInputs: []types.SiafundInput{{ParentID: t1.SiafundOutputID(0), UnlockConditions: w.Keys.StdUC(0), ClaimAddress: w.Keys.Addr(AddrV1)}},
			SiafundOutputs: []types.SiafundOutput{{Value: 1, Address: w.Keys.Addr(AddrV1)}}}
		w.SignV1Whole(&t2)
		bc.Used[types.Hash256(p.ID)] = true
		bc.addV1("v1sfchain", t1, t2)
		return true
	}}
}

// V2Attest publishes an attestation.
func V2Attest() Action {
	return Action{"v2attest", func(bc *BlockCtx) bool {
		if !bc.V2OK() {
			return false
		}
		w := bc.W
		a := types.Attestation{PublicKey: w.Keys.Pub[1], Key: "HostAnnouncement", Value: bc.salt()}
		a.Signature = w.Keys.Priv[1].SignHash(w.CS.AttestationSigHash(a))
		bc.addV2("v2attest", types.V2Transaction{Attestations: []types.Attestation{a}})
		return true
	}}
}

// V2Foundation changes the foundation address, authorised by the management (failsafe) key.
func V2Foundation(toVoid bool) Action {
	return Action{fmt.Sprintf("v2foundation(void=%v)", toVoid), func(bc *BlockCtx) bool {
		w := bc.W
		if !bc.V2OK() || w.Ref.FndFailsafe != w.Keys.Addr(AddrFndV2) {
			return false
		}
		p, ok := bc.PickSC(func(c int) bool { return c == AddrFndV2 }, types.Siacoins(5))
		if !ok {
			return false
		}
		na := w.Keys.Addr(AddrFndV2)
		if toVoid {
			na = types.VoidAddress
		}
		txn := types.V2Transaction{SiacoinInputs: []types.V2SiacoinInput{{Parent: p}},
			SiacoinOutputs:       []types.SiacoinOutput{{Value: p.SiacoinOutput.Value, Address: w.Keys.Addr(AddrFndV2)}},
			NewFoundationAddress: &na}
		w.SignV2(&txn)
		bc.Used[types.Hash256(p.ID)] = true
		bc.addV2("v2foundation", txn)
		return true
	}}
}

func (k *Keys) keyIndex(pk types.PublicKey) int {
	for i := range k.Pub {
		if k.Pub[i] == pk {
			return i
		}
	}
	return -1
}

func (k *Keys) keyIndexOr0(pk types.PublicKey) int {
	if i := k.keyIndex(pk); i >= 0 {
		return i
	}
	return 0
}

// NewV2Contract returns an unsigned contract with ProofHeight=h+a, ExpirationHeight=ProofHeight+b and file size F.
func (w *World) NewV2Contract(h, a, b, F uint64) types.V2FileContract {
	capacity := (F + 63) / 64 * 64
	var root types.Hash256
	if F <= 1<<24 { // larger sizes only arise from deliberately corrupted parents (membership attacks): no file is materialised
		root = spec.FileRoot(spec.FileData(int(F), byte(F%251)))
	}
	return types.V2FileContract{
		Capacity: capacity, Filesize: F, FileMerkleRoot: root,
		ProofHeight: h + a, ExpirationHeight: h + a + b,
		RenterOutput:    types.SiacoinOutput{Value: types.Siacoins(100).Add(types.NewCurrency64(123457)), Address: w.Keys.Addr(AddrV2)},
		HostOutput:      types.SiacoinOutput{Value: types.Siacoins(60), Address: w.Keys.Addr(AddrV2b)},
		MissedHostValue: types.Siacoins(40), TotalCollateral: types.Siacoins(50),
		RenterPublicKey: w.Keys.Pub[0], HostPublicKey: w.Keys.Pub[1],
	}
}

// V2Form forms a v2 contract.
func V2Form(a, b, F uint64) Action { return V2FormSalted(a, b, F, -1) }

// V2FormSalted is V2Form with a salt in the arbitrary data.
func V2FormSalted(a, b, F uint64, salt int) Action {
	return Action{fmt.Sprintf("v2form(a=%d,b=%d,F=%d)", a, b, F), func(bc *BlockCtx) bool { return v2form(bc, bc.H+a, bc.H+a+b, F, salt) }}
}

func v2form(bc *BlockCtx, ph, eh, F uint64, salt int) bool {
	{
		if !bc.V2OK() {
			return false
		}
		w := bc.W
		fc := w.NewV2Contract(ph, 0, eh-ph, F)
		if salt > 0 { // salted contracts also differ in their amounts
			fc.RenterOutput.Value = fc.RenterOutput.Value.Add(types.Siacoins(uint32(10 * (salt % 9))))
			fc.HostOutput.Value = fc.HostOutput.Value.Add(types.Siacoins(uint32(3 * (salt % 9))))
			fc.MissedHostValue = fc.MissedHostValue.Add(types.Siacoins(uint32(salt % 9)))
		}
		cost := fc.RenterOutput.Value.Add(fc.HostOutput.Value).Add(cur(RefTaxV2(fc)))
		p, ok := bc.PickSC(func(c int) bool { return c == AddrV2 || c == AddrACS || c == AddrV1 }, cost.Add(Fee))
		if !ok {
			return false
		}
		w.SignContract(&fc, 0, 1)
		txn := types.V2Transaction{SiacoinInputs: []types.V2SiacoinInput{{Parent: p}},
			SiacoinOutputs: []types.SiacoinOutput{{Value: p.SiacoinOutput.Value.Sub(cost).Sub(Fee), Address: w.Keys.Addr(AddrV2)}},
			FileContracts:  []types.V2FileContract{fc}, MinerFee: Fee}
		if salt >= 0 {
			txn.ArbitraryData = []byte(fmt.Sprintf("salt-%d", salt))
		}
		w.SignV2(&txn)
		bc.Used[types.Hash256(p.ID)] = true
		bc.addV2("v2form", txn)
		return true
	}
}

// pickV2FC returns the oldest unresolved unused v2 contract satisfying ok on its latest revision.
func (bc *BlockCtx) pickV2FC(ok func(fc types.V2FileContract) bool) (types.V2FileContractElement, types.V2FileContract, bool) {
	w := bc.W
	for _, e := range w.Ref.Live(KV2FC) {
		if bc.Used[e.ID] || bc.Avoid[e.ID] {
			continue
		}
		fce, found := w.Store.V2FC[types.FileContractID(e.ID)]
		if !found {
			continue
		}
		cur := fce.V2FileContract
		if rev, ok := bc.RevV2FC[fce.ID]; ok {
			cur = rev
		}
		if ok(cur) {
			return fce.Copy(), cur, true
		}
	}
	return types.V2FileContractElement{}, types.V2FileContract{}, false
}

// V2Revise revises the oldest revisable v2 contract.
func V2Revise(kind string) Action {
	return Action{"v2revise(" + kind + ")", func(bc *BlockCtx) bool {
		if !bc.V2OK() {
			return false
		}
		w := bc.W
		fce, cur, ok := bc.pickV2FC(func(fc types.V2FileContract) bool {
			// contracts left with a missed host value above their host output by a legacy-era revision cannot be revised
			// any further once the rule is in force: not a subject of honest actions
			return fc.ProofHeight >= bc.H && fc.RevisionNumber < math.MaxUint64 && fc.RenterOutput.Value.Cmp(types.Siacoins(2)) > 0 &&
				fc.MissedHostValue.Cmp(fc.HostOutput.Value) <= 0
		})
		if !ok {
			return false
		}
		rev := cur
		rev.RevisionNumber++
		switch kind {
		case "pay":
			rev.RenterOutput.Value = rev.RenterOutput.Value.Sub(types.Siacoins(1))
			rev.HostOutput.Value = rev.HostOutput.Value.Add(types.Siacoins(1))
		case "refund":
			// host -> renter, leaving the host output BELOW the unchanged missed host value (an expiry would then pay
			// more than the contract holds); must be rejected from the ephemeral-output height on
			if rev.HostOutput.Value.Cmp(rev.MissedHostValue) < 0 || rev.MissedHostValue.Cmp(types.Siacoins(1)) < 0 {
				return false
			}
			if bc.H >= w.Net.HardforkV2.EphemeralOutputHeight {
				bc.ExpectReject = true
			}
			d := rev.HostOutput.Value.Sub(rev.MissedHostValue).Add(types.Siacoins(1))
			rev.HostOutput.Value = rev.HostOutput.Value.Sub(d)
			rev.RenterOutput.Value = rev.RenterOutput.Value.Add(d)
		case "risk":
			if rev.MissedHostValue.Cmp(types.Siacoins(1)) >= 0 {
				rev.MissedHostValue = rev.MissedHostValue.Sub(types.Siacoins(1))
			}
		case "grow":
			rev.Filesize = cur.Filesize + 64
			rev.Capacity = (rev.Filesize + 63) / 64 * 64
			if rev.Capacity < cur.Capacity {
				rev.Capacity = cur.Capacity
			}
			rev.FileMerkleRoot = spec.FileRoot(spec.FileData(int(rev.Filesize), byte(rev.Filesize%251)))
		case "keys":
			if rev.RenterPublicKey == w.Keys.Pub[0] {
				rev.RenterPublicKey = w.Keys.Pub[2]
			} else {
				rev.RenterPublicKey = w.Keys.Pub[0]
			}
		case "heights":
			rev.ProofHeight++
			rev.ExpirationHeight++
		case "max":
			rev.RevisionNumber = math.MaxUint64
		}
		w.SignContract(&rev, w.Keys.keyIndex(cur.RenterPublicKey), w.Keys.keyIndex(cur.HostPublicKey))
		txn := types.V2Transaction{FileContractRevisions: []types.V2FileContractRevision{{Parent: fce, Revision: rev}}}
		bc.RevV2FC[fce.ID] = rev
		bc.RevisedInBlock[types.Hash256(fce.ID)] = true
		bc.addV2("v2revise", txn)
		return true
	}}
}

// V2Renew renews the oldest renewable contract. shape: "none", "partial", "full" rollover.
func V2Renew(shape string) Action {
	return Action{"v2renew(" + shape + ")", func(bc *BlockCtx) bool {
		if !bc.V2OK() {
			return false
		}
		w := bc.W
		fce, cur, ok := bc.pickV2FC(func(fc types.V2FileContract) bool { return fc.ProofHeight >= bc.H })
		if !ok || (bc.RevisedInBlock[types.Hash256(fce.ID)] && !bc.AllowStaleResolve) {
			return false
		}
		if bc.RevisedInBlock[types.Hash256(fce.ID)] {
			cur = fce.V2FileContract // the resolution must present the accumulator version
		}
		nc := w.NewV2Contract(bc.H, 2, 2, cur.Filesize)
		nc.RenterPublicKey, nc.HostPublicKey = cur.RenterPublicKey, cur.HostPublicKey
		cost := nc.RenterOutput.Value.Add(nc.HostOutput.Value).Add(cur2(RefTaxV2(nc)))
		rn := types.V2FileContractRenewal{NewContract: nc,
			FinalRenterOutput: types.SiacoinOutput{Value: cur.RenterOutput.Value, Address: cur.RenterOutput.Address},
			FinalHostOutput:   types.SiacoinOutput{Value: cur.HostOutput.Value, Address: cur.HostOutput.Address}}
		switch shape {
		case "partial":
			rr := cur.RenterOutput.Value.Div64(2)
			rn.RenterRollover = rr
			rn.FinalRenterOutput.Value = cur.RenterOutput.Value.Sub(rr)
		case "full":
			rn.RenterRollover, rn.HostRollover = cur.RenterOutput.Value, cur.HostOutput.Value
			rn.FinalRenterOutput.Value, rn.FinalHostOutput.Value = types.ZeroCurrency, types.ZeroCurrency
		}
		roll := rn.RenterRollover.Add(rn.HostRollover)
		if roll.Cmp(cost) > 0 {
			return false
		}
		need := cost.Sub(roll).Add(Fee)
		p, ok := bc.PickSC(func(c int) bool { return c == AddrV2 || c == AddrACS || c == AddrV1 }, need.Add(types.Siacoins(1)))
		if !ok {
			return false
		}
		w.SignRenewal(&rn, w.Keys.keyIndex(cur.RenterPublicKey), w.Keys.keyIndex(cur.HostPublicKey))
		txn := types.V2Transaction{SiacoinInputs: []types.V2SiacoinInput{{Parent: p}},
			SiacoinOutputs:          []types.SiacoinOutput{{Value: p.SiacoinOutput.Value.Sub(need), Address: w.Keys.Addr(AddrV2)}},
			FileContractResolutions: []types.V2FileContractResolution{{Parent: fce, Resolution: &rn}}, MinerFee: Fee}
		w.SignV2(&txn)
		bc.Used[types.Hash256(p.ID)] = true
		bc.Used[types.Hash256(fce.ID)] = true
		bc.addV2("v2renew", txn)
		return true
	}}
}

func cur2(b *bigInt) types.Currency { return cur(b) }

// V2ProofRes builds the honest storage proof resolution for a contract.
func (w *World) V2ProofRes(fce types.V2FileContractElement) (types.V2FileContractResolution, bool) {
	fc := fce.V2FileContract
	if fc.ProofHeight >= uint64(len(w.Store.CI)) {
		return types.V2FileContractResolution{}, false
	}
	ci := w.Store.CI[fc.ProofHeight].Copy()
	if fc.Filesize > 1<<24 {
		// corrupted element (membership attacks): see V1ProofTxn
		return types.V2FileContractResolution{Parent: fce, Resolution: &types.V2StorageProof{ProofIndex: ci}}, true
	}
	idx := w.CS.StorageProofLeafIndex(fc.Filesize, ci.ChainIndex.ID, fce.ID)
	leaf, proof := spec.FileProof(spec.FileData(int(fc.Filesize), byte(fc.Filesize%251)), int(idx))
	return types.V2FileContractResolution{Parent: fce, Resolution: &types.V2StorageProof{ProofIndex: ci, Leaf: leaf, Proof: proof}}, true
}

// V2Proof resolves the oldest provable contract with a storage proof.
func V2Proof() Action {
	return Action{"v2proof", func(bc *BlockCtx) bool {
		if !bc.V2OK() {
			return false
		}
		w := bc.W
		fce, _, ok := bc.pickV2FC(func(fc types.V2FileContract) bool { return bc.H >= fc.ProofHeight+1 })
		if !ok || (bc.RevisedInBlock[types.Hash256(fce.ID)]) {
			return false
		}
		res, ok := w.V2ProofRes(fce)
		if !ok {
			return false
		}
		bc.Used[types.Hash256(fce.ID)] = true
		bc.addV2("v2proof", types.V2Transaction{FileContractResolutions: []types.V2FileContractResolution{res}})
		return true
	}}
}

// V2Expire resolves the oldest expired contract.
func V2Expire() Action {
	return Action{"v2expire", func(bc *BlockCtx) bool {
		if !bc.V2OK() {
			return false
		}
		fce, _, ok := bc.pickV2FC(func(fc types.V2FileContract) bool { return bc.H > fc.ExpirationHeight })
		if !ok || bc.RevisedInBlock[types.Hash256(fce.ID)] {
			return false
		}
		bc.Used[types.Hash256(fce.ID)] = true
		bc.addV2("v2expire", types.V2Transaction{FileContractResolutions: []types.V2FileContractResolution{{Parent: fce, Resolution: &types.V2FileContractExpiration{}}}})
		return true
	}}
}

var _ = time.Second
