package chain

import (
	"math/big"
	"runtime"
	"time"

	"go.sia.tech/core/consensus"
	"go.sia.tech/core/types"
)

type bigInt = big.Int

func stackTrace() string {
	buf := make([]byte, 1<<13)
	return string(buf[:runtime.Stack(buf, false)])
}

// BlockOpts tweak the block builder (attacks on the block itself).
type BlockOpts struct {
	TimeDelta   time.Duration // timestamp = parent + TimeDelta (default: block interval)
	AbsTime     *time.Time    // absolute timestamp (overrides TimeDelta; may be earlier than the parent's)
	PayoutDelta int64         // add to the miner payout (hastings); 0 = correct
	MinerAddr   *types.Address
	ForceV1     bool // build a v1 block even when v2 is allowed (no V2 data)
	ForceV2     bool // attach v2 block data even below the allow height (so that v2 transactions are actually submitted)
	NoSeal      bool // skip nonce search
}

// MinerAddrDefault is where miner payouts go (a v2-spendable, signature-free address keeps models cheap).
func (w *World) minerAddr() types.Address { return w.Keys.Addr(AddrACS) }

// Supplement assembles the v1 block supplement from the store, the way a node would.
func (w *World) Supplement(b types.Block) consensus.V1BlockSupplement {
	bs := consensus.V1BlockSupplement{Transactions: make([]consensus.V1TransactionSupplement, len(b.Transactions))}
	s := w.Store
	for i, txn := range b.Transactions {
		ts := &bs.Transactions[i]
		for _, sci := range txn.SiacoinInputs {
			if e, ok := s.SC[sci.ParentID]; ok {
				ts.SiacoinInputs = append(ts.SiacoinInputs, e.Copy())
			}
		}
		for _, sfi := range txn.SiafundInputs {
			if e, ok := s.SF[sfi.ParentID]; ok {
				ts.SiafundInputs = append(ts.SiafundInputs, e.Copy())
			}
		}
		for _, fcr := range txn.FileContractRevisions {
			if e, ok := s.FC[fcr.ParentID]; ok {
				ts.RevisedFileContracts = append(ts.RevisedFileContracts, copyFCE(e))
			}
		}
		for _, sp := range txn.StorageProofs {
			if e, ok := s.FC[sp.ParentID]; ok {
				ws := e.FileContract.WindowStart
				if ws >= 1 && ws-1 < uint64(len(w.Hist)) {
					ts.StorageProofs = append(ts.StorageProofs, consensus.V1StorageProofSupplement{FileContract: copyFCE(e), WindowID: w.Hist[ws-1].B.ID()})
				}
			}
		}
	}
	child := w.ChildHeight()
	if child < w.Net.HardforkV2.RequireHeight {
		for _, id := range SortedIDs(s.FC) {
			e := s.FC[types.FileContractID(id)]
			if e.FileContract.WindowEnd == child {
				bs.ExpiringFileContracts = append(bs.ExpiringFileContracts, copyFCE(e))
			}
		}
		// canonical order: by leaf index
		for i := 1; i < len(bs.ExpiringFileContracts); i++ {
			for j := i; j > 0 && bs.ExpiringFileContracts[j].StateElement.LeafIndex < bs.ExpiringFileContracts[j-1].StateElement.LeafIndex; j-- {
				bs.ExpiringFileContracts[j], bs.ExpiringFileContracts[j-1] = bs.ExpiringFileContracts[j-1], bs.ExpiringFileContracts[j]
			}
		}
	}
	return bs
}

// BuildBlock builds and seals a block on the current tip.
func (w *World) BuildBlock(v1 []types.Transaction, v2 []types.V2Transaction, o BlockOpts) (types.Block, consensus.V1BlockSupplement) {
	cs := w.CS
	child := w.ChildHeight()
	dt := o.TimeDelta
	if dt == 0 {
		dt = w.Net.BlockInterval
	}
	reward := cs.BlockReward()
	for _, t := range v1 {
		for _, f := range t.MinerFees {
			reward, _ = reward.AddWithOverflow(f)
		}
	}
	for _, t := range v2 {
		reward, _ = reward.AddWithOverflow(t.MinerFee)
	}
	if o.PayoutDelta > 0 {
		reward, _ = reward.AddWithOverflow(types.NewCurrency64(uint64(o.PayoutDelta)))
	} else if o.PayoutDelta < 0 {
		reward, _ = reward.SubWithUnderflow(types.NewCurrency64(uint64(-o.PayoutDelta)))
	}
	addr := w.minerAddr()
	if o.MinerAddr != nil {
		addr = *o.MinerAddr
	}
	ts := cs.PrevTimestamps[0].Add(dt)
	if o.AbsTime != nil {
		ts = *o.AbsTime
	}
	b := types.Block{
		ParentID:     cs.Index.ID,
		Timestamp:    ts,
		MinerPayouts: []types.SiacoinOutput{{Value: reward, Address: addr}},
		Transactions: v1,
	}
	v2format := (child >= w.Net.HardforkV2.AllowHeight || o.ForceV2) && !o.ForceV1
	if !v2format && child%2 == 1 && reward.Cmp(types.NewCurrency64(15)) >= 0 {
		// v1-format blocks may split reward + fees over several payouts: odd heights pay three unequal outputs to
		// two addresses (v2-format blocks must carry exactly one)
		a, c := reward.Div64(3), reward.Div64(5)
		b.MinerPayouts = []types.SiacoinOutput{{Value: a, Address: addr}, {Value: c, Address: w.Keys.Addr(AddrV1)}, {Value: reward.Sub(a).Sub(c), Address: addr}}
	}
	if v2format {
		b.V2 = &types.V2BlockData{Height: child, Transactions: v2}
		b.V2.Commitment = cs.Commitment(addr, b.Transactions, b.V2.Transactions)
	}
	if !o.NoSeal {
		Seal(cs, &b)
	}
	return b, w.Supplement(b)
}

// Seal searches a nonce satisfying the nonce factor and the PoW target.
func Seal(cs consensus.State, b *types.Block) {
	f := cs.NonceFactor()
	b.Nonce -= b.Nonce % f
	target := cs.PoWTarget()
	if b.V2 == nil {
		// header commitment for v1 blocks is expensive to recompute; go through Header once per nonce anyway (small blocks)
	}
	h := b.Header()
	for i := 0; i < 1<<22; i++ {
		h.Nonce = b.Nonce
		if h.ID().CmpWork(target) >= 0 {
			return
		}
		b.Nonce += f
	}
	panic("chain: could not seal block (target too hard for the harness)")
}

// ---------- signing helpers ----------

// StdUC returns the standard unlock conditions of key i.
func (k *Keys) StdUC(i int) types.UnlockConditions { return types.StandardUnlockConditions(k.Pub[i]) }

// SignV1Whole appends whole-transaction signatures for every siacoin input,
// siafund input and revision whose unlock conditions are standard 1-of-1 or
// n-of-m over harness keys.
func (w *World) SignV1Whole(txn *types.Transaction) {
	sign := func(parent types.Hash256, uc types.UnlockConditions) {
		need := uc.SignaturesRequired
		for ki, uk := range uc.PublicKeys {
			if need == 0 {
				break
			}
			for j := range w.Keys.Pub {
				if uk.Algorithm == types.SpecifierEd25519 && string(uk.Key) == string(w.Keys.Pub[j][:]) {
					txn.Signatures = append(txn.Signatures, types.TransactionSignature{
						ParentID: parent, PublicKeyIndex: uint64(ki), CoveredFields: types.CoveredFields{WholeTransaction: true},
					})
					need--
					break
				}
			}
		}
	}
	for _, in := range txn.SiacoinInputs {
		sign(types.Hash256(in.ParentID), in.UnlockConditions)
	}
	for _, in := range txn.SiafundInputs {
		sign(types.Hash256(in.ParentID), in.UnlockConditions)
	}
	for _, rev := range txn.FileContractRevisions {
		sign(types.Hash256(rev.ParentID), rev.UnlockConditions)
	}
	w.FillV1Signatures(txn)
}

// FillV1Signatures computes the signature bytes of every whole-transaction signature entry.
func (w *World) FillV1Signatures(txn *types.Transaction) {
	ucOf := func(parent types.Hash256) (types.UnlockConditions, bool) {
		for _, in := range txn.SiacoinInputs {
			if types.Hash256(in.ParentID) == parent {
				return in.UnlockConditions, true
			}
		}
		for _, in := range txn.SiafundInputs {
			if types.Hash256(in.ParentID) == parent {
				return in.UnlockConditions, true
			}
		}
		for _, rev := range txn.FileContractRevisions {
			if types.Hash256(rev.ParentID) == parent {
				return rev.UnlockConditions, true
			}
		}
		return types.UnlockConditions{}, false
	}
	for i := range txn.Signatures {
		sig := &txn.Signatures[i]
		uc, ok := ucOf(sig.ParentID)
		if !ok || sig.PublicKeyIndex >= uint64(len(uc.PublicKeys)) {
			continue
		}
		uk := uc.PublicKeys[sig.PublicKeyIndex]
		for j := range w.Keys.Pub {
			if string(uk.Key) == string(w.Keys.Pub[j][:]) {
				var h types.Hash256
				if sig.CoveredFields.WholeTransaction {
					h = w.CS.WholeSigHash(*txn, sig.ParentID, sig.PublicKeyIndex, sig.Timelock, sig.CoveredFields.Signatures)
				} else {
					h = w.CS.PartialSigHash(*txn, sig.CoveredFields)
				}
				s := w.Keys.Priv[j].SignHash(h)
				sig.Signature = s[:]
			}
		}
	}
}

// UCFor returns the v1 unlock conditions for an address class.
func (k *Keys) UCFor(class int) types.UnlockConditions {
	if class == AddrNoSig {
		return types.UnlockConditions{}
	}
	return k.StdUC(KeyOf(class))
}

// UCForHash returns the known unlock conditions hashing to a (contract) unlock hash.
func (k *Keys) UCForHash(a types.Address) types.UnlockConditions {
	if a == (types.UnlockConditions{}).UnlockHash() {
		return types.UnlockConditions{}
	}
	for i := range k.Pub {
		if k.StdUC(i).UnlockHash() == a {
			return k.StdUC(i)
		}
	}
	return k.ContractUC()
}

// PolicyFor returns the spend policy (v2) for an address class.
func (k *Keys) PolicyFor(class int) types.SpendPolicy {
	switch class {
	case AddrNoSig:
		return types.SpendPolicy{Type: types.PolicyTypeUnlockConditions(types.UnlockConditions{})}
	case AddrV1, AddrV1b, AddrFnd:
		return types.SpendPolicy{Type: types.PolicyTypeUnlockConditions(k.StdUC(KeyOf(class)))}
	case AddrV2, AddrV2b, AddrFndV2:
		return types.PolicyPublicKey(k.Pub[KeyOf(class)])
	case AddrACS:
		return types.AnyoneCanSpend()
	case AddrThresh:
		return k.ThreshPolicy()
	}
	panic("no policy for class")
}

// SignV2 fills policies and signatures of every input whose parent address is a known class.
func (w *World) SignV2(txn *types.V2Transaction) {
	for i := range txn.SiacoinInputs {
		c := w.Keys.ClassOf(txn.SiacoinInputs[i].Parent.SiacoinOutput.Address)
		if c >= 0 && c != AddrVoid {
			txn.SiacoinInputs[i].SatisfiedPolicy = types.SatisfiedPolicy{Policy: w.Keys.PolicyFor(c)}
		}
	}
	for i := range txn.SiafundInputs {
		c := w.Keys.ClassOf(txn.SiafundInputs[i].Parent.SiafundOutput.Address)
		if c >= 0 && c != AddrVoid {
			txn.SiafundInputs[i].SatisfiedPolicy = types.SatisfiedPolicy{Policy: w.Keys.PolicyFor(c)}
		}
	}
	sh := w.CS.InputSigHash(*txn)
	for i := range txn.SiacoinInputs {
		c := w.Keys.ClassOf(txn.SiacoinInputs[i].Parent.SiacoinOutput.Address)
		if k := KeyOf(c); c >= 0 && k >= 0 {
			txn.SiacoinInputs[i].SatisfiedPolicy.Signatures = []types.Signature{w.Keys.Priv[k].SignHash(sh)}
		} else if c == AddrThresh {
			txn.SiacoinInputs[i].SatisfiedPolicy.Signatures = []types.Signature{w.Keys.Priv[0].SignHash(sh), w.Keys.Priv[1].SignHash(sh)}
		}
	}
	for i := range txn.SiafundInputs {
		c := w.Keys.ClassOf(txn.SiafundInputs[i].Parent.SiafundOutput.Address)
		if k := KeyOf(c); c >= 0 && k >= 0 {
			txn.SiafundInputs[i].SatisfiedPolicy.Signatures = []types.Signature{w.Keys.Priv[k].SignHash(sh)}
		} else if c == AddrThresh {
			txn.SiafundInputs[i].SatisfiedPolicy.Signatures = []types.Signature{w.Keys.Priv[0].SignHash(sh), w.Keys.Priv[1].SignHash(sh)}
		}
	}
}

// SignContract signs a v2 contract with renter key r and host key h.
func (w *World) SignContract(fc *types.V2FileContract, r, h int) {
	sh := w.CS.ContractSigHash(*fc)
	fc.RenterSignature = w.Keys.Priv[r].SignHash(sh)
	fc.HostSignature = w.Keys.Priv[h].SignHash(sh)
}

// SignRenewal signs a renewal (new contract + renewal itself).
func (w *World) SignRenewal(rn *types.V2FileContractRenewal, r, h int) {
	w.SignContract(&rn.NewContract, r, h)
	sh := w.CS.RenewalSigHash(*rn)
	rn.RenterSignature = w.Keys.Priv[r].SignHash(sh)
	rn.HostSignature = w.Keys.Priv[h].SignHash(sh)
}

// JunkEphemeralProofs returns b with every ephemeral parent (unassigned leaf index: created earlier in the block) of its
// v2 transactions carrying n arbitrary hashes as Merkle proof. Nothing binds the proof of an ephemeral parent - the
// block stays valid - so whatever the block reports afterwards must not depend on it. ok is false if b has no such
// parent. The commitment is recomputed and the block re-sealed.
func JunkEphemeralProofs(cs consensus.State, b types.Block, n int) (types.Block, bool) {
	if b.V2 == nil || len(b.MinerPayouts) != 1 {
		return b, false
	}
	junk := make([]types.Hash256, n)
	for i := range junk {
		junk[i] = types.Hash256{0xBA, 0xD0, byte(i)}
	}
	found := false
	v2 := *b.V2
	v2.Transactions = append([]types.V2Transaction(nil), b.V2.Transactions...)
	for ti := range v2.Transactions {
		t := v2.Transactions[ti]
		t.SiacoinInputs = append([]types.V2SiacoinInput(nil), t.SiacoinInputs...)
		for i := range t.SiacoinInputs {
			if t.SiacoinInputs[i].Parent.StateElement.LeafIndex == types.UnassignedLeafIndex {
				t.SiacoinInputs[i].Parent = t.SiacoinInputs[i].Parent.Copy()
				t.SiacoinInputs[i].Parent.StateElement.MerkleProof = append([]types.Hash256(nil), junk...)
				found = true
			}
		}
		t.SiafundInputs = append([]types.V2SiafundInput(nil), t.SiafundInputs...)
		for i := range t.SiafundInputs {
			if t.SiafundInputs[i].Parent.StateElement.LeafIndex == types.UnassignedLeafIndex {
				t.SiafundInputs[i].Parent = t.SiafundInputs[i].Parent.Copy()
				t.SiafundInputs[i].Parent.StateElement.MerkleProof = append([]types.Hash256(nil), junk...)
				found = true
			}
		}
		v2.Transactions[ti] = t
	}
	if !found {
		return b, false
	}
	nb := b
	nb.V2 = &v2
	nb.V2.Commitment = cs.Commitment(nb.MinerPayouts[0].Address, nb.Transactions, nb.V2.Transactions)
	Seal(cs, &nb)
	return nb, true
}

// ShareAll returns the block and supplement with every element replaced by its Share()d form (the memory-ownership
// mark the library's Move/Share/Copy discipline puts on intentionally aliased elements). Contents are identical.
func ShareAll(b types.Block, bs consensus.V1BlockSupplement) (types.Block, consensus.V1BlockSupplement) {
	if b.V2 != nil {
		v2 := *b.V2
		v2.Transactions = append([]types.V2Transaction(nil), b.V2.Transactions...)
		for ti := range v2.Transactions {
			t := v2.Transactions[ti]
			t.SiacoinInputs = append([]types.V2SiacoinInput(nil), t.SiacoinInputs...)
			for i := range t.SiacoinInputs {
				t.SiacoinInputs[i].Parent = t.SiacoinInputs[i].Parent.Share()
			}
			t.SiafundInputs = append([]types.V2SiafundInput(nil), t.SiafundInputs...)
			for i := range t.SiafundInputs {
				t.SiafundInputs[i].Parent = t.SiafundInputs[i].Parent.Share()
			}
			t.FileContractRevisions = append([]types.V2FileContractRevision(nil), t.FileContractRevisions...)
			for i := range t.FileContractRevisions {
				t.FileContractRevisions[i].Parent = t.FileContractRevisions[i].Parent.Share()
			}
			t.FileContractResolutions = append([]types.V2FileContractResolution(nil), t.FileContractResolutions...)
			for i := range t.FileContractResolutions {
				t.FileContractResolutions[i].Parent = t.FileContractResolutions[i].Parent.Share()
				if sp, ok := t.FileContractResolutions[i].Resolution.(*types.V2StorageProof); ok {
					cp := *sp
					cp.ProofIndex = sp.ProofIndex.Share()
					t.FileContractResolutions[i].Resolution = &cp
				}
			}
			v2.Transactions[ti] = t
		}
		b.V2 = &v2
	}
	nbs := consensus.V1BlockSupplement{Transactions: make([]consensus.V1TransactionSupplement, len(bs.Transactions))}
	for i, ts := range bs.Transactions {
		var n consensus.V1TransactionSupplement
		for _, e := range ts.SiacoinInputs {
			n.SiacoinInputs = append(n.SiacoinInputs, e.Share())
		}
		for _, e := range ts.SiafundInputs {
			n.SiafundInputs = append(n.SiafundInputs, e.Share())
		}
		for _, e := range ts.RevisedFileContracts {
			n.RevisedFileContracts = append(n.RevisedFileContracts, e.Share())
		}
		for _, sp := range ts.StorageProofs {
			n.StorageProofs = append(n.StorageProofs, consensus.V1StorageProofSupplement{FileContract: sp.FileContract.Share(), WindowID: sp.WindowID})
		}
		nbs.Transactions[i] = n
	}
	for _, e := range bs.ExpiringFileContracts {
		nbs.ExpiringFileContracts = append(nbs.ExpiringFileContracts, e.Share())
	}
	return b, nbs
}
