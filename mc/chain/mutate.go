package chain

import (
	"fmt"
	"reflect"

	"go.sia.tech/core/types"
)

// A Mutation is a single-point change of a value, produced by a reflection
// walk so that fields added to a struct later are covered automatically.
type Mutation struct {
	Path  string
	Apply func() // mutates the walked value in place
	Undo  func()
}

// Mutations enumerates single-field mutations of the value pointed to by ptr:
// integers +1/-1, every fixed-size byte array (hashes, keys, addresses,
// signatures) with its first and last byte flipped, currencies lo+1 / hi+1,
// slices: each element recursively, drop last, duplicate last; 64-bit integers additionally with bit 63 / bit 32
// flipped and set to the maximum; hash lists (Merkle proofs) extended to 63/64/65 entries.
// skip(path) prunes subtrees.
func Mutations(ptr any, skip func(path string) bool) []Mutation {
	var out []Mutation
	var walk func(v reflect.Value, path string)
	walk = func(v reflect.Value, path string) {
		if skip != nil && skip(path) {
			return
		}
		switch v.Kind() {
		case reflect.Uint64, reflect.Uint8, reflect.Uint32, reflect.Uint, reflect.Uint16:
			if !v.CanSet() {
				return
			}
			old := v.Uint()
			out = append(out, Mutation{path + "+1", func() { v.SetUint(old + 1) }, func() { v.SetUint(old) }})
			if old > 0 {
				out = append(out, Mutation{path + "-1", func() { v.SetUint(old - 1) }, func() { v.SetUint(old) }})
			}
			if v.Kind() == reflect.Uint64 {
				// far values: comparisons through a signed difference or a narrower integer see these as small
				out = append(out, Mutation{path + "^bit63", func() { v.SetUint(old ^ 1<<63) }, func() { v.SetUint(old) }})
				out = append(out, Mutation{path + "^bit32", func() { v.SetUint(old ^ 1<<32) }, func() { v.SetUint(old) }})
				if old != ^uint64(0) {
					out = append(out, Mutation{path + "=max", func() { v.SetUint(^uint64(0)) }, func() { v.SetUint(old) }})
				}
			}
		case reflect.Int64, reflect.Int:
			if !v.CanSet() {
				return
			}
			old := v.Int()
			out = append(out, Mutation{path + "+1", func() { v.SetInt(old + 1) }, func() { v.SetInt(old) }})
		case reflect.Bool:
			if !v.CanSet() {
				return
			}
			old := v.Bool()
			out = append(out, Mutation{path + "!", func() { v.SetBool(!old) }, func() { v.SetBool(old) }})
		case reflect.String:
			if !v.CanSet() {
				return
			}
			old := v.String()
			out = append(out, Mutation{path + "+x", func() { v.SetString(old + "x") }, func() { v.SetString(old) }})
		case reflect.Array:
			if v.Type().Elem().Kind() == reflect.Uint8 {
				if !v.CanSet() || v.Len() == 0 {
					return
				}
				for _, i := range []int{0, v.Len() - 1} {
					i := i
					e := v.Index(i)
					old := e.Uint()
					out = append(out, Mutation{fmt.Sprintf("%s[byte %d]^1", path, i), func() { e.SetUint(old ^ 1) }, func() { e.SetUint(old) }})
				}
				return
			}
			for i := 0; i < v.Len(); i++ {
				walk(v.Index(i), fmt.Sprintf("%s[%d]", path, i))
			}
		case reflect.Struct:
			if v.Type() == reflect.TypeOf(types.Currency{}) {
				lo, hi := v.Field(0), v.Field(1)
				if !lo.CanSet() {
					return
				}
				ol, oh := lo.Uint(), hi.Uint()
				out = append(out, Mutation{path + ".Lo+1", func() { lo.SetUint(ol + 1) }, func() { lo.SetUint(ol) }})
				out = append(out, Mutation{path + ".Hi+1", func() { hi.SetUint(oh + 1) }, func() { hi.SetUint(oh) }})
				return
			}
			for i := 0; i < v.NumField(); i++ {
				f := v.Type().Field(i)
				if !f.IsExported() {
					continue
				}
				walk(v.Field(i), path+"."+f.Name)
			}
		case reflect.Slice:
			if !v.CanSet() {
				return
			}
			for i := 0; i < v.Len(); i++ {
				walk(v.Index(i), fmt.Sprintf("%s[%d]", path, i))
			}
			old := reflect.ValueOf(v.Interface())
			n := v.Len()
			if n > 0 {
				out = append(out, Mutation{path + "[drop last]", func() { v.Set(old.Slice(0, n-1)) }, func() { v.Set(old) }})
				out = append(out, Mutation{path + "[dup last]", func() {
					nv := reflect.MakeSlice(v.Type(), n+1, n+1)
					reflect.Copy(nv, old)
					nv.Index(n).Set(old.Index(n - 1))
					v.Set(nv)
				}, func() { v.Set(old) }})
			} else if v.Type().Elem().Kind() == reflect.Array {
				out = append(out, Mutation{path + "[append zero]", func() { v.Set(reflect.MakeSlice(v.Type(), 1, 1)) }, func() { v.Set(old) }})
			}
			if v.Type().Elem() == reflect.TypeOf(types.Hash256{}) {
				// Merkle proofs: lengths at and beyond the accumulator's tree limit
				for _, m := range []int{63, 64, 65} {
					m := m
					if m <= n {
						continue
					}
					out = append(out, Mutation{fmt.Sprintf("%s[extend to %d]", path, m), func() {
						nv := reflect.MakeSlice(v.Type(), m, m)
						reflect.Copy(nv, old)
						v.Set(nv)
					}, func() { v.Set(old) }})
				}
			}
		case reflect.Pointer:
			if !v.IsNil() {
				walk(v.Elem(), path)
			}
		case reflect.Interface:
			if !v.IsNil() {
				walk(v.Elem(), path)
			}
		}
	}
	walk(reflect.ValueOf(ptr).Elem(), "")
	return out
}
