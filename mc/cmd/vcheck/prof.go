package main

import (
	"os"
	"runtime/pprof"
)

func init() {
	if p := os.Getenv("VERIF_CPUPROFILE"); p != "" {
		f, _ := os.Create(p)
		pprof.StartCPUProfile(f)
		profStop = func() { pprof.StopCPUProfile(); f.Close() }
	}
}

var profStop = func() {}
