// Command vcheck runs one property check: vcheck <ID> [--tier quick|thorough] [--replay file]
package main

import (
	"encoding/json"
	"runtime/debug"
	"fmt"
	"os"
	"strconv"

	"verifmc/vf"

	_ "verifmc/checks"
)

func main() {
	debug.SetGCPercent(3000)
	if len(os.Args) < 2 {
		fmt.Println("usage: vcheck <ID>|list [--tier quick|thorough] [--replay file]")
		os.Exit(2)
	}
	id := os.Args[1]
	if id == "list" {
		for _, i := range vf.IDs() {
			fmt.Println(i)
		}
		return
	}
	tier := os.Getenv("VERIF_TIER")
	if tier == "" {
		tier = "quick"
	}
	replay := ""
	for i := 2; i < len(os.Args); i++ {
		switch os.Args[i] {
		case "--tier":
			i++
			tier = os.Args[i]
		case "quick", "thorough":
			tier = os.Args[i]
		case "--replay":
			i++
			replay = os.Args[i]
		}
	}
	var seed int64 = 1
	if s := os.Getenv("VERIF_SEED"); s != "" {
		if n, err := strconv.ParseInt(s, 10, 64); err == nil {
			seed = n
		}
	}
	ch := vf.Lookup(id)
	if ch == nil {
		fmt.Printf("HARNESS-ERROR unknown check %q\n", id)
		os.Exit(2)
	}
	c := vf.NewCtx(id, tier, seed, ch.Level)
	if replay != "" {
		b, err := os.ReadFile(replay)
		if err != nil {
			fmt.Printf("HARNESS-ERROR cannot read replay file: %v\n", err)
			os.Exit(2)
		}
		var art struct {
			Case json.RawMessage `json:"case"`
		}
		if err := json.Unmarshal(b, &art); err != nil {
			fmt.Printf("HARNESS-ERROR bad replay file: %v\n", err)
			os.Exit(2)
		}
		if ch.Replay == nil {
			fmt.Printf("HARNESS-ERROR check %s has no replay entry\n", id)
			os.Exit(2)
		}
		os.Setenv("VERIF_NO_EVIDENCE", "1")
		ch.Replay(c, art.Case)
		os.Exit(c.Finish())
	}
	ch.Run(c)
	profStop()
	os.Exit(c.Finish())
}
