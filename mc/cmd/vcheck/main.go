// Command vcheck runs one property check: vcheck <ID> [--tier quick|thorough] [--replay file]
package main

import (
	"encoding/json"
	"runtime/debug"
	"fmt"
	"os"
	"strconv"
	"strings"

	"verifmc/vf"

	_ "verifmc/checks"
)

func main() {
	debug.SetGCPercent(3000)
	// the generous GC percentage trades memory for speed; a soft memory limit (quick tier 12%, thorough tier 35% of RAM, at least 2 GiB) makes the
	// collector work harder long before the machine runs out of memory (the sandbox has no memory cgroup)
	debug.SetMemoryLimit(memoryLimit())
	if len(os.Args) < 2 {
		fmt.Println("usage: vcheck <ID>|list [--tier quick|thorough] [--replay file]")
		os.Exit(2)
	}
	id := os.Args[1]
	if id == "list" {
		for _, i := range vf.IDs() {
			fmt.Println(i)
		}
		return
	}
	tier := os.Getenv("VERIF_TIER")
	if tier == "" {
		tier = "quick"
	}
	replay := ""
	for i := 2; i < len(os.Args); i++ {
		switch os.Args[i] {
		case "--tier":
			i++
			tier = os.Args[i]
		case "quick", "thorough":
			tier = os.Args[i]
		case "--replay":
			i++
			replay = os.Args[i]
		}
	}
	var seed int64 = 1
	if s := os.Getenv("VERIF_SEED"); s != "" {
		if n, err := strconv.ParseInt(s, 10, 64); err == nil {
			seed = n
		}
	}
	ch := vf.Lookup(id)
	if ch == nil {
		fmt.Printf("HARNESS-ERROR unknown check %q\n", id)
		os.Exit(2)
	}
	c := vf.NewCtx(id, tier, seed, ch.Level)
	if replay != "" {
		b, err := os.ReadFile(replay)
		if err != nil {
			fmt.Printf("HARNESS-ERROR cannot read replay file: %v\n", err)
			os.Exit(2)
		}
		var art struct {
			Case json.RawMessage `json:"case"`
		}
		if err := json.Unmarshal(b, &art); err != nil {
			fmt.Printf("HARNESS-ERROR bad replay file: %v\n", err)
			os.Exit(2)
		}
		if ch.Replay == nil {
			fmt.Printf("HARNESS-ERROR check %s has no replay entry\n", id)
			os.Exit(2)
		}
		os.Setenv("VERIF_NO_EVIDENCE", "1")
		var generic struct {
			Panic string `json:"panic_in_code_under_test"`
		}
		if json.Unmarshal(art.Case, &generic) == nil && generic.Panic != "" {
			// not tied to one input of the check's own case format: replay = run the check again
			guarded(c, func() { ch.Run(c) })
			os.Exit(c.Finish())
		}
		guarded(c, func() { ch.Replay(c, art.Case) })
		os.Exit(c.Finish())
	}
	guarded(c, func() { ch.Run(c) })
	profStop()
	os.Exit(c.Finish())
}

func memoryLimit() int64 {
	// quick tier (anything but an explicit "thorough" argument): 12% of RAM, so that several quick checks can run side by
	// side without the kernel's OOM killer stepping in (observed with five parallel runs at 35%); thorough: 35%
	pct := int64(12)
	for _, a := range os.Args[1:] {
		if a == "thorough" {
			pct = 35
		}
	}
	limit := int64(8) << 30
	if b, err := os.ReadFile("/proc/meminfo"); err == nil {
		for _, l := range strings.Split(string(b), "\n") {
			if strings.HasPrefix(l, "MemTotal:") {
				f := strings.Fields(l)
				if len(f) >= 2 {
					if kb, err := strconv.ParseInt(f[1], 10, 64); err == nil {
						limit = kb * 1024 * pct / 100
					}
				}
			}
		}
	}
	if limit < 2<<30 {
		limit = 2 << 30
	}
	return limit
}

// guarded runs f; a panic that escapes the check is classified by its innermost non-runtime frame: inside the
// library under test (go.sia.tech/core/...) the check was driving it with the inputs of its stated exploration and the
// library failed to compute a result at all - reported as a violation of the property being checked; anywhere else
// it is a harness error (exit 2).
func guarded(c *vf.Ctx, f func()) {
	defer func() {
		r := recover()
		if r == nil {
			return
		}
		text := fmt.Sprint(r) + "\n" + string(debug.Stack())
		if fn := innermostFrameAtPanic(text); strings.HasPrefix(fn, "go.sia.tech/core/") && !strings.HasPrefix(fn, "go.sia.tech/core/vsync") {
			first := text
			if i := strings.IndexByte(first, '\n'); i >= 0 {
				first = first[:i]
			}
			c.Violate("panic-in-code-under-test|"+fn, fmt.Sprintf("the library panicked in %s while the check was driving it (no result computed): %s", fn, first),
				map[string]string{"panic_in_code_under_test": fn, "panic": first, "trace": text})
			os.Exit(c.Finish())
		}
		fmt.Printf("HARNESS-ERROR panic: %s\n", text)
		os.Exit(2)
	}()
	f()
}

// innermostFrameAtPanic returns the function of the first non-runtime frame below the first "panic(" line of a Go
// stack trace (the frame that was executing when the panic was raised).
func innermostFrameAtPanic(trace string) string {
	lines := strings.Split(trace, "\n")
	for i, l := range lines {
		if !strings.HasPrefix(strings.TrimSpace(l), "panic(") {
			continue
		}
		for _, m := range lines[i+1:] {
			if strings.HasPrefix(m, "\t") && strings.Contains(m, ".go:") {
				continue // file:line of the previous frame
			}
			fn := strings.TrimSpace(m)
			if fn == "" {
				break
			}
			if j := strings.LastIndex(fn, "("); j > 0 {
				fn = fn[:j]
			}
			if strings.HasPrefix(fn, "runtime.") || strings.HasPrefix(fn, "runtime/") || strings.HasPrefix(fn, "reflect.") || strings.HasPrefix(fn, "sort.") || strings.HasPrefix(fn, "slices.") {
				continue
			}
			return fn
		}
	}
	return ""
}
