package spec

import (
	"go.sia.tech/core/types"
)

// Naive binary Merkle tree (RFC 6962 shape): leaf = H(0x00 || 64 bytes),
// node = H(0x01 || l || r), unbalanced trees split at the largest power of two
// strictly smaller than n.

// SegLeaf hashes one 64-byte segment.
func SegLeaf(seg []byte) types.Hash256 {
	var buf [65]byte
	copy(buf[1:], seg)
	return H(buf[:])
}

// Segments splits data into 64-byte segments, the last one zero padded.
func Segments(data []byte) [][]byte {
	var segs [][]byte
	for len(data) > 0 {
		n := 64
		if len(data) < n {
			n = len(data)
		}
		seg := make([]byte, 64)
		copy(seg, data[:n])
		segs = append(segs, seg)
		data = data[n:]
	}
	return segs
}

func split(n int) int {
	k := 1
	for k*2 < n {
		k *= 2
	}
	return k
}

// TreeRoot is the root over leaf hashes (zero hash for no leaves).
func TreeRoot(leaves []types.Hash256) types.Hash256 {
	switch len(leaves) {
	case 0:
		return types.Hash256{}
	case 1:
		return leaves[0]
	}
	k := split(len(leaves))
	return Node(TreeRoot(leaves[:k]), TreeRoot(leaves[k:]))
}

// TreeProof is the bottom-up sibling list for leaf i.
func TreeProof(leaves []types.Hash256, i int) []types.Hash256 {
	if len(leaves) <= 1 {
		return nil
	}
	k := split(len(leaves))
	if i < k {
		return append(TreeProof(leaves[:k], i), TreeRoot(leaves[k:]))
	}
	return append(TreeProof(leaves[k:], i-k), TreeRoot(leaves[:k]))
}

// FileRoot is the Merkle root of file data split into 64-byte segments.
func FileRoot(data []byte) types.Hash256 {
	segs := Segments(data)
	leaves := make([]types.Hash256, len(segs))
	for i, s := range segs {
		leaves[i] = SegLeaf(s)
	}
	return TreeRoot(leaves)
}

// FileProof returns the 64-byte (zero padded) segment i and its proof.
func FileProof(data []byte, i int) (leaf [64]byte, proof []types.Hash256) {
	segs := Segments(data)
	leaves := make([]types.Hash256, len(segs))
	for j, s := range segs {
		leaves[j] = SegLeaf(s)
	}
	if i < len(segs) {
		copy(leaf[:], segs[i])
	}
	if len(segs) > 0 && i < len(segs) {
		proof = TreeProof(leaves, i)
	}
	return
}

// FileData is deterministic file content of the given size (every segment distinct, no zero segment).
func FileData(size int, salt byte) []byte {
	d := make([]byte, size)
	for i := range d {
		d[i] = byte(1 + (i*7+int(salt)*13+i/64*31)%251)
	}
	return d
}
