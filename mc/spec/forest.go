// Package spec holds the independent reference models: a naive Merkle forest
// with its own leaf hashing (written from the commitment format, not by
// calling the code under test), a naive binary Merkle tree, and a small byte
// writer used by both.
package spec

import (
	"encoding/binary"

	xblake "golang.org/x/crypto/blake2b"

	"go.sia.tech/core/types"
)

// H is blake2b-256 from x/crypto (not the repository's wrapper).
func H(b []byte) types.Hash256 { return xblake.Sum256(b) }

// Node is the RFC 6962 interior node hash.
func Node(l, r types.Hash256) types.Hash256 {
	var buf [65]byte
	buf[0] = 1
	copy(buf[1:], l[:])
	copy(buf[33:], r[:])
	return xblake.Sum256(buf[:])
}

// W is a trivial byte writer mirroring the wire primitives.
type W struct{ B []byte }

func (w *W) U8(v uint8)    { w.B = append(w.B, v) }
func (w *W) Raw(b []byte)  { w.B = append(w.B, b...) }
func (w *W) Str(s string)  { w.B = append(w.B, s...) }
func (w *W) U64(v uint64)  { w.B = binary.LittleEndian.AppendUint64(w.B, v) }
func (w *W) Bytes(b []byte) { w.U64(uint64(len(b))); w.Raw(b) }
func (w *W) Bool(b bool) {
	if b {
		w.U8(1)
	} else {
		w.U8(0)
	}
}

// CurV2 writes a currency in v2 layout (lo, hi little endian).
func (w *W) CurV2(c types.Currency) { w.U64(c.Lo); w.U64(c.Hi) }

// CurV1 writes a currency in v1 layout: length-prefixed big-endian bytes with
// leading zeros trimmed.
func (w *W) CurV1(c types.Currency) {
	var buf [16]byte
	binary.BigEndian.PutUint64(buf[:8], c.Hi)
	binary.BigEndian.PutUint64(buf[8:], c.Lo)
	i := 0
	for i < 16 && buf[i] == 0 {
		i++
	}
	w.Bytes(buf[i:])
}

func (w *W) ScoV2(o types.SiacoinOutput) { w.CurV2(o.Value); w.Raw(o.Address[:]) }
func (w *W) ScoV1(o types.SiacoinOutput) { w.CurV1(o.Value); w.Raw(o.Address[:]) }

// FileContractV1 writes a v1 file contract.
func (w *W) FileContractV1(fc types.FileContract) {
	w.U64(fc.Filesize)
	w.Raw(fc.FileMerkleRoot[:])
	w.U64(fc.WindowStart)
	w.U64(fc.WindowEnd)
	w.CurV1(fc.Payout)
	w.U64(uint64(len(fc.ValidProofOutputs)))
	for _, o := range fc.ValidProofOutputs {
		w.ScoV1(o)
	}
	w.U64(uint64(len(fc.MissedProofOutputs)))
	for _, o := range fc.MissedProofOutputs {
		w.ScoV1(o)
	}
	w.Raw(fc.UnlockHash[:])
	w.U64(fc.RevisionNumber)
}

// FileContractV2 writes a v2 file contract (signatures included).
func (w *W) FileContractV2(fc types.V2FileContract) {
	w.U64(fc.Capacity)
	w.U64(fc.Filesize)
	w.Raw(fc.FileMerkleRoot[:])
	w.U64(fc.ProofHeight)
	w.U64(fc.ExpirationHeight)
	w.ScoV2(fc.RenterOutput)
	w.ScoV2(fc.HostOutput)
	w.CurV2(fc.MissedHostValue)
	w.CurV2(fc.TotalCollateral)
	w.Raw(fc.RenterPublicKey[:])
	w.Raw(fc.HostPublicKey[:])
	w.U64(fc.RevisionNumber)
	w.Raw(fc.RenterSignature[:])
	w.Raw(fc.HostSignature[:])
}

// Element hashes: H("sia/leaf/<kind>|" || id || fields...).

func SiacoinElemHash(id types.SiacoinOutputID, o types.SiacoinOutput, maturity uint64) types.Hash256 {
	var w W
	w.Str("sia/leaf/siacoin|")
	w.Raw(id[:])
	w.ScoV2(o)
	w.U64(maturity)
	return H(w.B)
}

func SiafundElemHash(id types.SiafundOutputID, o types.SiafundOutput, claimStart types.Currency) types.Hash256 {
	var w W
	w.Str("sia/leaf/siafund|")
	w.Raw(id[:])
	w.U64(o.Value)
	w.Raw(o.Address[:])
	w.CurV2(claimStart)
	return H(w.B)
}

func FileContractElemHash(id types.FileContractID, fc types.FileContract) types.Hash256 {
	var w W
	w.Str("sia/leaf/filecontract|")
	w.Raw(id[:])
	w.FileContractV1(fc)
	return H(w.B)
}

func V2FileContractElemHash(id types.FileContractID, fc types.V2FileContract) types.Hash256 {
	var w W
	w.Str("sia/leaf/v2filecontract|")
	w.Raw(id[:])
	w.FileContractV2(fc)
	return H(w.B)
}

func ChainIndexElemHash(id types.BlockID, ci types.ChainIndex) types.Hash256 {
	var w W
	w.Str("sia/leaf/chainindex|")
	w.Raw(id[:])
	w.U64(ci.Height)
	w.Raw(ci.ID[:])
	return H(w.B)
}

func AttestationElemHash(id types.AttestationID, a types.Attestation) types.Hash256 {
	var w W
	w.Str("sia/leaf/attestation|")
	w.Raw(id[:])
	w.Raw(a.PublicKey[:])
	w.Bytes([]byte(a.Key))
	w.Bytes(a.Value)
	w.Raw(a.Signature[:])
	return H(w.B)
}

// Leaf is one accumulator leaf of the reference forest.
type Leaf struct {
	Elem  types.Hash256
	Spent bool
}

// LeafHash = H(0x00 || elemHash || LE64(index) || spent).
func LeafHash(l Leaf, index uint64) types.Hash256 {
	var buf [42]byte
	copy(buf[1:], l.Elem[:])
	binary.LittleEndian.PutUint64(buf[33:], index)
	if l.Spent {
		buf[41] = 1
	}
	return H(buf[:])
}

// Forest is the list of all leaves ever added. Levels is a cache of all
// complete aligned subtree hashes (level k, node i covers leaves
// [i<<k,(i+1)<<k)); it is rebuilt by Build.
type Forest struct {
	Leaves []Leaf
	levels [][]types.Hash256
}

// Clone copies the leaves (the cache is dropped).
func (f *Forest) Clone() Forest {
	return Forest{Leaves: append([]Leaf(nil), f.Leaves...)}
}

// Build recomputes the level cache naively from the leaves.
func (f *Forest) Build() {
	n := len(f.Leaves)
	f.levels = f.levels[:0]
	l0 := make([]types.Hash256, n)
	for i := range l0 {
		l0[i] = LeafHash(f.Leaves[i], uint64(i))
	}
	f.levels = append(f.levels, l0)
	for len(f.levels[len(f.levels)-1]) >= 2 {
		prev := f.levels[len(f.levels)-1]
		next := make([]types.Hash256, len(prev)/2)
		for i := range next {
			next[i] = Node(prev[2*i], prev[2*i+1])
		}
		f.levels = append(f.levels, next)
	}
}

// N is the number of leaves.
func (f *Forest) N() uint64 { return uint64(len(f.Leaves)) }

// TreeHeight returns the height of the tree containing leaf idx.
func (f *Forest) TreeHeight(idx uint64) int {
	n := f.N()
	start := uint64(0)
	for h := 63; h >= 0; h-- {
		if n&(1<<uint(h)) == 0 {
			continue
		}
		size := uint64(1) << uint(h)
		if idx < start+size {
			return h
		}
		start += size
	}
	return -1
}

// Root returns the root of the tree of height h (which must exist).
func (f *Forest) Root(h int) types.Hash256 {
	n := f.N()
	start := uint64(0)
	for k := 63; k > h; k-- {
		if n&(1<<uint(k)) != 0 {
			start += 1 << uint(k)
		}
	}
	return f.levels[h][start>>uint(h)]
}

// Proof returns the sibling path of leaf idx (Build must have been called).
func (f *Forest) Proof(idx uint64) []types.Hash256 {
	h := f.TreeHeight(idx)
	if h < 0 {
		return nil
	}
	proof := make([]types.Hash256, h)
	for k := 0; k < h; k++ {
		proof[k] = f.levels[k][(idx>>uint(k))^1]
	}
	return proof
}

// NodeAt returns the hash of node (row, col) if that complete subtree exists.
func (f *Forest) NodeAt(row, col uint64) (types.Hash256, bool) {
	if int(row) >= len(f.levels) || col >= uint64(len(f.levels[row])) {
		return types.Hash256{}, false
	}
	return f.levels[row][col], true
}
