module verifmc

go 1.26.0

require go.sia.tech/core v0.0.0

replace go.sia.tech/core => /repo
require go.sia.tech/mux v1.5.3
require golang.org/x/crypto v0.55.0
require golang.org/x/sys v0.47.0
require lukechampine.com/frand v1.5.1
require golang.org/x/mod v0.39.0
require golang.org/x/sync v0.22.0
require golang.org/x/tools v0.49.0
