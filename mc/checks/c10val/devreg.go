package c10val

import (
	"encoding/json"

	"verifmc/vf"
)

// temporary development registration (the real C10 check calls Run from package c10)
func init() {
	vf.Register(&vf.Check{ID: "C10V", Level: "exploration", Run: func(c *vf.Ctx) { c.Set("rule", "dev"); Run(c); c.Sample("dev") }, Replay: func(c *vf.Ctx, raw json.RawMessage) {
		var cs Case
		json.Unmarshal(raw, &cs)
		Replay(c, cs)
	}})
}
