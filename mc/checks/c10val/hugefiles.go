package c10val

import (
	"fmt"
	"math"

	"go.sia.tech/core/consensus"
	"go.sia.tech/core/types"
	"verifmc/chain"
	"verifmc/vf"
)

// hugeFiles: states that a structural mutation of ONE block cannot reach - a contract with an extreme file size is
// part of the accepted history (consensus puts no upper bound on Filesize), and later blocks present storage proofs,
// revisions and expirations for it. Every Validate* entry point must return; accepted blocks must apply and revert.
var hugeSizes = []uint64{math.MaxUint64, math.MaxUint64 - 62, math.MaxUint64 - 63, math.MaxUint64 - 64, 1 << 63, 1<<63 - 1, 1 << 62, 1 << 32}

func hugeFiles(c *vf.Ctx, only *Case) {
	for _, net := range []string{"v2-only", "v1-eras", "mixed"} {
		for _, F := range hugeSizes {
			if only != nil && (only.Network != net || only.Path != fmt.Sprintf("F=%d", F)) {
				continue
			}
			if c.Expired() {
				return
			}
			hugeFile(c, net, F)
		}
	}
}

func hugeFile(c *vf.Ctx, net string, F uint64) {
	keys := chain.NewKeys(c.Seed)
	sp := chain.Spec(net)
	w, p := chain.NewWorld(sp, keys, chain.DefaultAlloc(keys), chain.Options{})
	if p != nil {
		c.HarnessError("huge files: genesis: %v", p)
		return
	}
	report := func(entry string, pv any, st string, h uint64, what string) {
		cse := Case{Half: "validation", Network: net, Seed: c.Seed, Target: "huge-file", Path: fmt.Sprintf("F=%d", F), Entry: entry}
		c.Violate("validate|"+entry+"|panic:"+panicClass(pv)+"|contract with an extreme file size in the history|"+what, fmt.Sprintf("[%s height %d, contract file size %d] %s panicked on %s: %v\n%s", net, h, F, entry, what, pv, firstLines(st, 14)), cse)
	}
	try := func(what string, v1 []types.Transaction, v2 []types.V2Transaction) (accepted bool) {
		b, bs := w.BuildBlock(v1, v2, chain.BlockOpts{})
		h := w.ChildHeight()
		c.Count("evaluations", 1)
		c.Count("huge_file_probes", 1)
		c.Distinct(net, "huge", F, what, h)
		var verr error
		if pv, st := vf.Try(func() { verr = consensus.ValidateBlock(w.CS, b, bs) }); pv != nil {
			report("ValidateBlock", pv, st, h, what)
			return false
		}
		for i, t := range v1 {
			if pv, st := vf.Try(func() { _ = consensus.ValidateTransaction(consensus.NewMidState(w.CS), t, bs.Transactions[i]) }); pv != nil {
				report("ValidateTransaction", pv, st, h, what)
			}
		}
		for _, t := range v2 {
			if pv, st := vf.Try(func() { _ = consensus.ValidateV2Transaction(consensus.NewMidState(w.CS), t) }); pv != nil {
				report("ValidateV2Transaction", pv, st, h, what)
			}
		}
		if verr != nil {
			c.Count("mutant_rejected", 1)
			return false
		}
		c.Count("mutant_accepted", 1)
		if pv, st := vf.Try(func() {
			_, _ = consensus.ApplyBlock(w.CS, deepCopyBlock(b), deepCopySupp(bs), w.TargetTimestamp())
			_ = consensus.RevertBlock(w.CS, deepCopyBlock(b), deepCopySupp(bs))
		}); pv != nil {
			report("ApplyBlock/RevertBlock-after-accept", pv, st, h, what)
			return false
		}
		if err, pr := w.Apply(b, bs); err != nil || pr != nil {
			return false
		}
		return true
	}
	formed := false
	for w.ChildHeight() <= 9 {
		h := w.ChildHeight()
		v1ok, v2ok := h < sp.Require, h >= sp.Allow
		if !formed {
			bc := w.NewBlockCtx()
			var v1 []types.Transaction
			var v2 []types.V2Transaction
			if v1ok && chain.V1FormAbs(h+1, h+3, 100).Do(bc) {
				t := bc.V1[len(bc.V1)-1]
				t.FileContracts = append([]types.FileContract(nil), t.FileContracts...)
				t.FileContracts[0].Filesize = F
				t.Signatures = nil
				w.SignV1Whole(&t)
				v1 = append(v1, t)
			}
			if v2ok && chain.V2FormAbs(h+1, h+3, 100).Do(bc) {
				t := bc.V2[len(bc.V2)-1]
				t.FileContracts = append([]types.V2FileContract(nil), t.FileContracts...)
				fc := &t.FileContracts[0]
				fc.Filesize, fc.Capacity = F, math.MaxUint64
				w.SignContract(fc, 0, 1)
				w.SignV2(&t)
				v2 = append(v2, t)
			}
			if len(v1)+len(v2) > 0 && try("formation", v1, v2) {
				formed = true
				c.Count("huge_file_contracts_formed", 1)
				continue
			}
		} else {
			// storage proofs (stand-in leaf and path: the file cannot be materialised), revisions, expirations
			for _, id := range chain.SortedIDs(w.Store.FC) {
				fce := w.Store.FC[types.FileContractID(id)]
				if v1ok && fce.FileContract.WindowStart >= 1 && fce.FileContract.WindowStart <= h {
					t := types.Transaction{StorageProofs: []types.StorageProof{{ParentID: fce.ID, Proof: make([]types.Hash256, 3)}}}
					try("v1 storage proof", []types.Transaction{t}, nil)
				}
			}
			for _, id := range chain.SortedIDs(w.Store.V2FC) {
				fce := w.Store.V2FC[types.FileContractID(id)]
				if !v2ok {
					continue
				}
				if res, ok := w.V2ProofRes(fce.Copy()); ok {
					for _, n := range []int{0, 3, 58, 64} {
						r := res
						spf := *res.Resolution.(*types.V2StorageProof)
						spf.Proof = make([]types.Hash256, n)
						r.Resolution = &spf
						try(fmt.Sprintf("v2 storage proof with %d hashes", n), nil, []types.V2Transaction{{FileContractResolutions: []types.V2FileContractResolution{r}}})
					}
				}
				try("v2 revision", nil, []types.V2Transaction{*w.UseV2Revise(fce.Copy(), fce.V2FileContract, 1).V2})
				try("v2 expiration", nil, []types.V2Transaction{*w.UseV2Expire(fce.Copy()).V2})
			}
		}
		b, bs := w.BuildBlock(nil, nil, chain.BlockOpts{})
		if err, pr := w.Apply(b, bs); err != nil || pr != nil {
			// the expiry of the contract itself may be what fails: report a panic, otherwise stop
			if pr != nil {
				c.Violate("validate|ApplyBlock|panic|contract with an extreme file size in the history|empty block", fmt.Sprintf("[%s height %d, file size %d] %s", net, h, F, pr.Desc), Case{Half: "validation", Network: net, Seed: c.Seed, Target: "huge-file", Path: fmt.Sprintf("F=%d", F)})
			}
			return
		}
	}
}

// legacySiafunds: below the ephemeral-output height the value a v2 transaction claims for a siafund parent created
// earlier in the block is not compared with the created element. On a network whose ephemeral-output height lies above
// the allow height, every height below it is probed with an in-block siafund chain whose second transaction claims an
// extreme parent value (outputs equal to it, so only arithmetic can object). A tax pool is built up first (a contract
// formation), since the claim computation multiplies by the claimed value.
func legacySiafunds(c *vf.Ctx, only *Case) {
	net := "v2-eph5"
	keys := chain.NewKeys(c.Seed)
	sp := chain.Spec(net)
	w, p := chain.NewWorld(sp, keys, chain.DefaultAlloc(keys), chain.Options{})
	if p != nil {
		c.HarnessError("legacy siafunds: genesis: %v", p)
		return
	}
	for w.ChildHeight() < sp.Ephemeral {
		h := w.ChildHeight()
		bc := w.NewBlockCtx()
		if pp, ok := bc.PickSF(func(cl int) bool { return cl == chain.AddrV2 || cl == chain.AddrV1 }); ok && h >= sp.Allow && pp.SiafundOutput.Value > 2 {
			// t1 splits a siafund output in two; t2 spends both new outputs as in-block parents under claimed values whose
			// 64-bit sum wraps around to a small number (its single output), claiming the whole pool (claim start 0)
			t1 := types.V2Transaction{SiafundInputs: []types.V2SiafundInput{{Parent: pp, ClaimAddress: keys.Addr(chain.AddrV2)}},
				SiafundOutputs: []types.SiafundOutput{{Value: pp.SiafundOutput.Value - 1, Address: keys.Addr(chain.AddrV2)}, {Value: 1, Address: keys.Addr(chain.AddrV2)}}}
			w.SignV2(&t1)
			for _, pair := range [][2]uint64{{math.MaxUint64, 2}, {1 << 63, 1<<63 + 5000}, {math.MaxUint64 - 9999, 10000}, {1 << 62, 3<<62 + 7}} {
				what := fmt.Sprintf("claimed=%d+%d", pair[0], pair[1])
				if only != nil && only.Path != what {
					continue
				}
				e0, e1 := t1.EphemeralSiafundOutput(0), t1.EphemeralSiafundOutput(1)
				e0.SiafundOutput.Value, e1.SiafundOutput.Value = pair[0], pair[1]
				e0.ClaimStart, e1.ClaimStart = types.ZeroCurrency, types.ZeroCurrency
				t2 := types.V2Transaction{SiafundInputs: []types.V2SiafundInput{{Parent: e0, ClaimAddress: keys.Addr(chain.AddrV2)}, {Parent: e1, ClaimAddress: keys.Addr(chain.AddrV2)}},
					SiafundOutputs: []types.SiafundOutput{{Value: pair[0] + pair[1], Address: keys.Addr(chain.AddrV2)}}}
				w.SignV2(&t2)
				b, bs := w.BuildBlock(nil, []types.V2Transaction{t1, t2}, chain.BlockOpts{})
				c.Count("evaluations", 1)
				c.Count("legacy_siafund_probes", 1)
				c.Distinct(net, "legacy-sf", what, h)
				if pv, st := vf.Try(func() { _ = consensus.ValidateBlock(w.CS, b, bs) }); pv != nil {
					c.Violate("validate|ValidateBlock|panic:"+panicClass(pv)+"|in-block siafund parents claimed with values whose sum wraps, below the ephemeral-output height",
						fmt.Sprintf("[%s height %d] ValidateBlock panicked on a block whose second transaction claims in-block siafund parents worth %d and %d SF (64-bit sum %d): %v\n%s", net, h, pair[0], pair[1], pair[0]+pair[1], pv, firstLines(st, 14)),
						Case{Half: "validation", Network: net, Seed: c.Seed, Target: "legacy-siafunds", Path: what})
				}
			}
		}
		// history: a contract formation first (tax pool), then empty blocks
		bc2 := w.NewBlockCtx()
		if h >= sp.Allow && len(w.Store.V2FC) == 0 {
			chain.V2Form(3, 2, 100).Do(bc2)
		}
		b, bs := w.BuildBlock(bc2.V1, bc2.V2, chain.BlockOpts{})
		if err, pr := w.Apply(b, bs); err != nil || pr != nil {
			c.HarnessError("legacy siafunds: history block rejected: %v %v", err, pr)
			return
		}
	}
}

// legacyMint: the same legacy rule lets a v2 transaction claim ANY value for a siacoin parent created earlier in the
// block, so below the ephemeral-output height sums can exceed what 128 bits hold although every single transaction is
// within bounds. (1) v2 only (network v2-eph5): one block in which 30 transactions each claim an in-block parent worth
// almost 2^128 H and form a contract with it - the siafund tax pool is the sum of their taxes; (2) a network that still
// admits v1 transactions below its ephemeral-output height: block N mints two outputs of 2^127 H to a v1 address, a v1
// transaction of block N+1 spends both (v1 input sum). Each block is legal by the rules of that era; validation must
// return a verdict.
func legacyMint(c *vf.Ctx, only *Case) {
	keys := chain.NewKeys(c.Seed)
	try := func(net, what string, h uint64, w *chain.World, b types.Block, bs consensus.V1BlockSupplement) (accepted bool) {
		c.Count("evaluations", 1)
		c.Count("legacy_mint_probes", 1)
		c.Distinct(net, "legacy-mint", what, h)
		var err error
		if pv, st := vf.Try(func() { err = consensus.ValidateBlock(w.CS, b, bs) }); pv != nil {
			c.Violate("validate|ValidateBlock|panic:"+panicClass(pv)+"|"+what+", below the ephemeral-output height",
				fmt.Sprintf("[%s height %d] ValidateBlock panicked (%s): %v\n%s", net, h, what, pv, firstLines(st, 14)),
				Case{Half: "validation", Network: net, Seed: c.Seed, Target: "legacy-mint", Path: what})
			return false
		}
		return err == nil
	}
	// (1)
	if what := "in-block parents claimed with almost 2^128 H each fund 30 contracts: tax pool sum"; only == nil || only.Path == what {
		sp := chain.Spec("v2-eph5")
		w, p := chain.NewWorld(sp, keys, chain.DefaultAlloc(keys), chain.Options{})
		if p != nil {
			c.HarnessError("legacy mint: genesis: %v", p)
			return
		}
		for w.ChildHeight() < sp.Ephemeral {
			h := w.ChildHeight()
			bc := w.NewBlockCtx()
			if pp, ok := bc.PickSC(func(cl int) bool { return cl == chain.AddrV2 }, types.Siacoins(100)); ok && h >= sp.Allow {
				const n = 30
				t1 := types.V2Transaction{SiacoinInputs: []types.V2SiacoinInput{{Parent: pp}}}
				for i := 0; i < n; i++ {
					v := pp.SiacoinOutput.Value.Div64(n)
					if i == 0 {
						v = pp.SiacoinOutput.Value.Sub(v.Mul64(n - 1))
					}
					t1.SiacoinOutputs = append(t1.SiacoinOutputs, types.SiacoinOutput{Value: v, Address: keys.Addr(chain.AddrV2)})
				}
				w.SignV2(&t1)
				txns := []types.V2Transaction{t1}
				big := types.NewCurrency(0, 1<<63).Add(types.NewCurrency(0, 1<<62)).Add(types.NewCurrency(0, 1<<61)) // 0.875 * 2^128
				for i := 0; i < n; i++ {
					e := t1.EphemeralSiacoinOutput(i)
					e.SiacoinOutput.Value = big
					fc := w.NewV2Contract(h, 3, 2, 100)
					fc.RenterOutput.Value = big.Div64(26).Mul64(25)
					fc.HostOutput.Value, fc.MissedHostValue, fc.TotalCollateral = types.ZeroCurrency, types.ZeroCurrency, types.ZeroCurrency
					w.SignContract(&fc, 0, 1)
					cost := fc.RenterOutput.Value.Add(w.CS.V2FileContractTax(fc))
					t := types.V2Transaction{SiacoinInputs: []types.V2SiacoinInput{{Parent: e}}, SiacoinOutputs: []types.SiacoinOutput{{Value: big.Sub(cost), Address: keys.Addr(chain.AddrV2)}},
						FileContracts: []types.V2FileContract{fc}, ArbitraryData: []byte{byte(i)}}
					w.SignV2(&t)
					txns = append(txns, t)
				}
				b, bs := w.BuildBlock(nil, txns, chain.BlockOpts{})
				try("v2-eph5", what, h, w, b, bs)
				// control: the same block with a single minting transaction is legal in this era
				b1, bs1 := w.BuildBlock(nil, txns[:2], chain.BlockOpts{})
				if try("v2-eph5", what+" (control: one of them)", h, w, b1, bs1) {
					c.Count("legacy_mint_control_accepted", 1)
				}
			}
			b, bs := w.BuildBlock(nil, nil, chain.BlockOpts{})
			if err, pr := w.Apply(b, bs); err != nil || pr != nil {
				c.HarnessError("legacy mint: history block rejected: %v %v", err, pr)
				return
			}
		}
	}
	// (2)
	if what := "two outputs of 2^127 H minted to a v1 address in the previous block are spent by one v1 transaction: input sum"; only == nil || only.Path == what {
		sp := chain.Spec("mixed")
		sp.Ephemeral = sp.Require - 1
		w, p := chain.NewWorld(sp, keys, chain.DefaultAlloc(keys), chain.Options{})
		if p != nil {
			c.HarnessError("legacy mint: genesis: %v", p)
			return
		}
		for w.ChildHeight()+1 < sp.Ephemeral {
			h := w.ChildHeight()
			bc := w.NewBlockCtx()
			if pp, ok := bc.PickSC(func(cl int) bool { return cl == chain.AddrV2 }, types.Siacoins(100)); ok && h >= sp.Allow {
				half := types.NewCurrency(0, 1<<63)
				t1 := types.V2Transaction{SiacoinInputs: []types.V2SiacoinInput{{Parent: pp}}, SiacoinOutputs: []types.SiacoinOutput{
					{Value: pp.SiacoinOutput.Value.Div64(2), Address: keys.Addr(chain.AddrV2)}, {Value: pp.SiacoinOutput.Value.Sub(pp.SiacoinOutput.Value.Div64(2)), Address: keys.Addr(chain.AddrV2)}}}
				w.SignV2(&t1)
				txns := []types.V2Transaction{t1}
				for i := 0; i < 2; i++ {
					e := t1.EphemeralSiacoinOutput(i)
					e.SiacoinOutput.Value = half
					t := types.V2Transaction{SiacoinInputs: []types.V2SiacoinInput{{Parent: e}}, SiacoinOutputs: []types.SiacoinOutput{{Value: half, Address: keys.Addr(chain.AddrV1)}}, ArbitraryData: []byte{byte(i)}}
					w.SignV2(&t)
					txns = append(txns, t)
				}
				w1 := w.Clone()
				w1.Opt = chain.Options{}
				b, bs := w1.BuildBlock(nil, txns, chain.BlockOpts{})
				if try("mixed(ephemeral=require-1)", what+" (minting block)", h, w1, b, bs) {
					cs1, au := consensus.ApplyBlock(w1.CS, b, bs, w1.TargetTimestamp())
					var minted []types.SiacoinElement
					for _, d := range au.SiacoinElementDiffs() {
						if d.Created && !d.Spent && d.SiacoinElement.SiacoinOutput.Value == half {
							minted = append(minted, d.SiacoinElement.Copy())
						}
					}
					if len(minted) == 2 && cs1.Index.Height+1 < sp.Require {
						c.Count("legacy_mint_control_accepted", 1)
						v1 := types.Transaction{SiacoinOutputs: []types.SiacoinOutput{{Value: half, Address: keys.Addr(chain.AddrV1)}}}
						for _, m := range minted {
							v1.SiacoinInputs = append(v1.SiacoinInputs, types.SiacoinInput{ParentID: m.ID, UnlockConditions: keys.StdUC(0)})
						}
						w1.CS = cs1
						w1.SignV1Whole(&v1)
						nb := types.Block{ParentID: cs1.Index.ID, Timestamp: cs1.PrevTimestamps[0].Add(cs1.Network.BlockInterval), Transactions: []types.Transaction{v1},
							MinerPayouts: []types.SiacoinOutput{{Value: cs1.BlockReward(), Address: types.VoidAddress}}}
						chain.Seal(cs1, &nb)
						nbs := consensus.V1BlockSupplement{Transactions: []consensus.V1TransactionSupplement{{SiacoinInputs: minted}}}
						try("mixed(ephemeral=require-1)", what, h+1, w1, nb, nbs)
					}
				}
			}
			b, bs := w.BuildBlock(nil, nil, chain.BlockOpts{})
			if err, pr := w.Apply(b, bs); err != nil || pr != nil {
				c.HarnessError("legacy mint: history block rejected: %v %v", err, pr)
				return
			}
		}
	}
}
