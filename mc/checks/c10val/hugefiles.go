package c10val

import (
	"fmt"
	"math"

	"go.sia.tech/core/consensus"
	"go.sia.tech/core/types"
	"verifmc/chain"
	"verifmc/vf"
)

// hugeFiles: states that a structural mutation of ONE block cannot reach - a contract with an extreme file size is
// part of the accepted history (consensus puts no upper bound on Filesize), and later blocks present storage proofs,
// revisions and expirations for it. Every Validate* entry point must return; accepted blocks must apply and revert.
var hugeSizes = []uint64{math.MaxUint64, math.MaxUint64 - 62, math.MaxUint64 - 63, math.MaxUint64 - 64, 1 << 63, 1<<63 - 1, 1 << 62, 1 << 32}

func hugeFiles(c *vf.Ctx, only *Case) {
	for _, net := range []string{"v2-only", "v1-eras", "mixed"} {
		for _, F := range hugeSizes {
			if only != nil && (only.Network != net || only.Path != fmt.Sprintf("F=%d", F)) {
				continue
			}
			if c.Expired() {
				return
			}
			hugeFile(c, net, F)
		}
	}
}

func hugeFile(c *vf.Ctx, net string, F uint64) {
	keys := chain.NewKeys(c.Seed)
	sp := chain.Spec(net)
	w, p := chain.NewWorld(sp, keys, chain.DefaultAlloc(keys), chain.Options{})
	if p != nil {
		c.HarnessError("huge files: genesis: %v", p)
		return
	}
	report := func(entry string, pv any, st string, h uint64, what string) {
		cse := Case{Half: "validation", Network: net, Seed: c.Seed, Target: "huge-file", Path: fmt.Sprintf("F=%d", F), Entry: entry}
		c.Violate("validate|"+entry+"|panic:"+panicClass(pv)+"|contract with an extreme file size in the history|"+what, fmt.Sprintf("[%s height %d, contract file size %d] %s panicked on %s: %v\n%s", net, h, F, entry, what, pv, firstLines(st, 14)), cse)
	}
	try := func(what string, v1 []types.Transaction, v2 []types.V2Transaction) (accepted bool) {
		b, bs := w.BuildBlock(v1, v2, chain.BlockOpts{})
		h := w.ChildHeight()
		c.Count("evaluations", 1)
		c.Count("huge_file_probes", 1)
		c.Distinct(net, "huge", F, what, h)
		var verr error
		if pv, st := vf.Try(func() { verr = consensus.ValidateBlock(w.CS, b, bs) }); pv != nil {
			report("ValidateBlock", pv, st, h, what)
			return false
		}
		for i, t := range v1 {
			if pv, st := vf.Try(func() { _ = consensus.ValidateTransaction(consensus.NewMidState(w.CS), t, bs.Transactions[i]) }); pv != nil {
				report("ValidateTransaction", pv, st, h, what)
			}
		}
		for _, t := range v2 {
			if pv, st := vf.Try(func() { _ = consensus.ValidateV2Transaction(consensus.NewMidState(w.CS), t) }); pv != nil {
				report("ValidateV2Transaction", pv, st, h, what)
			}
		}
		if verr != nil {
			c.Count("mutant_rejected", 1)
			return false
		}
		c.Count("mutant_accepted", 1)
		if pv, st := vf.Try(func() {
			_, _ = consensus.ApplyBlock(w.CS, deepCopyBlock(b), deepCopySupp(bs), w.TargetTimestamp())
			_ = consensus.RevertBlock(w.CS, deepCopyBlock(b), deepCopySupp(bs))
		}); pv != nil {
			report("ApplyBlock/RevertBlock-after-accept", pv, st, h, what)
			return false
		}
		if err, pr := w.Apply(b, bs); err != nil || pr != nil {
			return false
		}
		return true
	}
	formed := false
	for w.ChildHeight() <= 9 {
		h := w.ChildHeight()
		v1ok, v2ok := h < sp.Require, h >= sp.Allow
		if !formed {
			bc := w.NewBlockCtx()
			var v1 []types.Transaction
			var v2 []types.V2Transaction
			if v1ok && chain.V1FormAbs(h+1, h+3, 100).Do(bc) {
				t := bc.V1[len(bc.V1)-1]
				t.FileContracts = append([]types.FileContract(nil), t.FileContracts...)
				t.FileContracts[0].Filesize = F
				t.Signatures = nil
				w.SignV1Whole(&t)
				v1 = append(v1, t)
			}
			if v2ok && chain.V2FormAbs(h+1, h+3, 100).Do(bc) {
				t := bc.V2[len(bc.V2)-1]
				t.FileContracts = append([]types.V2FileContract(nil), t.FileContracts...)
				fc := &t.FileContracts[0]
				fc.Filesize, fc.Capacity = F, math.MaxUint64
				w.SignContract(fc, 0, 1)
				w.SignV2(&t)
				v2 = append(v2, t)
			}
			if len(v1)+len(v2) > 0 && try("formation", v1, v2) {
				formed = true
				c.Count("huge_file_contracts_formed", 1)
				continue
			}
		} else {
			// storage proofs (stand-in leaf and path: the file cannot be materialised), revisions, expirations
			for _, id := range chain.SortedIDs(w.Store.FC) {
				fce := w.Store.FC[types.FileContractID(id)]
				if v1ok && fce.FileContract.WindowStart >= 1 && fce.FileContract.WindowStart <= h {
					t := types.Transaction{StorageProofs: []types.StorageProof{{ParentID: fce.ID, Proof: make([]types.Hash256, 3)}}}
					try("v1 storage proof", []types.Transaction{t}, nil)
				}
			}
			for _, id := range chain.SortedIDs(w.Store.V2FC) {
				fce := w.Store.V2FC[types.FileContractID(id)]
				if !v2ok {
					continue
				}
				if res, ok := w.V2ProofRes(fce.Copy()); ok {
					for _, n := range []int{0, 3, 58, 64} {
						r := res
						spf := *res.Resolution.(*types.V2StorageProof)
						spf.Proof = make([]types.Hash256, n)
						r.Resolution = &spf
						try(fmt.Sprintf("v2 storage proof with %d hashes", n), nil, []types.V2Transaction{{FileContractResolutions: []types.V2FileContractResolution{r}}})
					}
				}
				try("v2 revision", nil, []types.V2Transaction{*w.UseV2Revise(fce.Copy(), fce.V2FileContract, 1).V2})
				try("v2 expiration", nil, []types.V2Transaction{*w.UseV2Expire(fce.Copy()).V2})
			}
		}
		b, bs := w.BuildBlock(nil, nil, chain.BlockOpts{})
		if err, pr := w.Apply(b, bs); err != nil || pr != nil {
			// the expiry of the contract itself may be what fails: report a panic, otherwise stop
			if pr != nil {
				c.Violate("validate|ApplyBlock|panic|contract with an extreme file size in the history|empty block", fmt.Sprintf("[%s height %d, file size %d] %s", net, h, F, pr.Desc), Case{Half: "validation", Network: net, Seed: c.Seed, Target: "huge-file", Path: fmt.Sprintf("F=%d", F)})
			}
			return
		}
	}
}
