// Package c10val is the validation half of C10: validating any decodable block,
// transaction or transaction set, however malformed, against any reachable state
// terminates with a value or an error - it never panics - and any block that
// passes validation can be applied and reverted without panic.
package c10val

import (
	"time"
	"sync/atomic"
	"encoding/json"
	"fmt"
	"reflect"
	"regexp"
	"strings"

	"go.sia.tech/core/consensus"
	"go.sia.tech/core/gateway"
	"go.sia.tech/core/types"
	"verifmc/chain"
	"verifmc/vf"
)

// Case is the replayable descriptor of one structural mutation.
type Case struct {
	Half    string   `json:"half"` // always "validation" (routes the replay inside package c10)
	Network string   `json:"network"`
	Trace   []string `json:"trace"`
	Seed    int64    `json:"seed"`
	Target  string   `json:"target"` // "block" or "supplement"
	Path    string   `json:"mutation_path"`
	Entry   string   `json:"entry_point"`
}

func menu(w *chain.World) []chain.Action {
	return []chain.Action{
		chain.V1Pay(true, 2), chain.V1Chain(), chain.V1SF(true), chain.V1Form(1, 2, 100), chain.V1Revise("pay"), chain.V1Proof(false), chain.V1ProofFee(),
		chain.V2Pay(chain.AddrV2, true, 2), chain.V2Pay(chain.AddrV1, false, 1), chain.V2Pay(chain.AddrThresh, false, 1), chain.V2Chain(chain.AddrV2), chain.V2Chain2(chain.AddrACS), chain.V2SF(true), chain.V2SFChain(), chain.V2Form(1, 2, 100), chain.V2Form(0, 1, 10),
		chain.V2Revise("pay"), chain.V2Renew("partial"), chain.V2Proof(), chain.V2Expire(), chain.V2Attest(),
		// transactions whose lists have different lengths / several elements and kinds per transaction
		chain.V1Gather(), chain.Merge(chain.V1Pay(true, 2), chain.V1SF(true)), chain.Merge(chain.V1Form(1, 2, 100), chain.V1Pay(false, 1)),
		chain.Merge(chain.V2Pay(chain.AddrV2, true, 2), chain.V2SF(true)), chain.Merge(chain.V2Form(1, 2, 100), chain.V2Attest()), chain.Merge(chain.V2Pay(chain.AddrACS, false, 1), chain.V2Revise("pay")),
		// the siafund pool grows in mid-block (contract tax) before a siafund output is created and spent in the same block
		chain.Seq("v1form;v1sfchain", chain.V1Form(1, 2, 100), chain.V1SFChain()), chain.Seq("v2form;v2sfchain", chain.V2Form(1, 2, 100), chain.V2SFChain()),
	}
}

// coveredSweep: for every v1 signature of the block, the covered fields are replaced by {one list: [k]} for each of the
// ten index lists and every k from 0 to one past the LONGEST list of the transaction - in particular every index that
// lies between the lengths of two lists (an index checked against the wrong list's length).
func coveredSweep(b *types.Block) []chain.Mutation {
	var out []chain.Mutation
	for ti := range b.Transactions {
		t := &b.Transactions[ti]
		maxLen := 0
		for _, n := range []int{len(t.SiacoinInputs), len(t.SiacoinOutputs), len(t.FileContracts), len(t.FileContractRevisions), len(t.StorageProofs), len(t.SiafundInputs), len(t.SiafundOutputs), len(t.MinerFees), len(t.ArbitraryData), len(t.Signatures)} {
			if n > maxLen {
				maxLen = n
			}
		}
		for si := range t.Signatures {
			sg := &t.Signatures[si]
			old := sg.CoveredFields
			for li, name := range []string{"SiacoinInputs", "SiacoinOutputs", "FileContracts", "FileContractRevisions", "StorageProofs", "SiafundInputs", "SiafundOutputs", "MinerFees", "ArbitraryData", "Signatures"} {
				for k := 0; k <= maxLen+1; k++ {
					li, k := li, uint64(k)
					out = append(out, chain.Mutation{Path: fmt.Sprintf(".Transactions[%d].Signatures[%d].CoveredFields={%s:[%d]}", ti, si, name, k), Apply: func() {
						cf := types.CoveredFields{}
						*[]*[]uint64{&cf.SiacoinInputs, &cf.SiacoinOutputs, &cf.FileContracts, &cf.FileContractRevisions, &cf.StorageProofs, &cf.SiafundInputs, &cf.SiafundOutputs, &cf.MinerFees, &cf.ArbitraryData, &cf.Signatures}[li] = []uint64{k}
						sg.CoveredFields = cf
					}, Undo: func() { sg.CoveredFields = old }})
				}
			}
		}
	}
	return out
}

// setupActions: one block that puts a v1 and a v2 contract into the state (where the era allows).
func setupActions() []chain.Action {
	return []chain.Action{
		chain.Seq("setup(v1+v2 contracts)", chain.V1Form(1, 2, 100), chain.V2Form(1, 2, 100)),
		chain.Seq("setup(v1 contract)", chain.V1Form(1, 2, 100)),
		chain.Seq("setup(v2 contract)", chain.V2Form(1, 2, 100)),
	}
}

// menuQuick: the quick tier spends its first non-empty block on the setup, so that its second one can be ANY action of
// the menu, including everything that needs an existing contract (revision, renewal, proof, expiration).
func menuQuick(w *chain.World) []chain.Action {
	if len(w.Ref.Live(chain.KFC))+len(w.Ref.Live(chain.KV2FC)) == 0 {
		return setupActions()
	}
	return menu(w)
}

// menuAll resolves the action names of both tiers (replay).
func menuAll(w *chain.World) []chain.Action { return append(setupActions(), menu(w)...) }

// extremes enumerates structural mutations: everything the generic walker produces plus extreme values for
// integers and currencies, extreme proof lengths, nil pointers / interfaces and deep / wide policies.
func extremes(ptr any) []chain.Mutation {
	out := chain.Mutations(ptr, nil)
	var walk func(v reflect.Value, path string)
	walk = func(v reflect.Value, path string) {
		switch v.Kind() {
		case reflect.Uint64:
			if v.CanSet() {
				old := v.Uint()
				for _, x := range []uint64{0, 1, 1 << 63, ^uint64(0), ^uint64(0) - 1, types.UnassignedLeafIndex} {
					x := x
					if x != old {
						out = append(out, chain.Mutation{Path: fmt.Sprintf("%s=%#x", path, x), Apply: func() { v.SetUint(x) }, Undo: func() { v.SetUint(old) }})
					}
				}
			}
		case reflect.Uint8:
			if v.CanSet() {
				old := v.Uint()
				for _, x := range []uint64{0, 255} {
					x := x
					if x != old {
						out = append(out, chain.Mutation{Path: fmt.Sprintf("%s=%d", path, x), Apply: func() { v.SetUint(x) }, Undo: func() { v.SetUint(old) }})
					}
				}
			}
		case reflect.Struct:
			if v.Type() == reflect.TypeOf(types.Currency{}) {
				if v.CanSet() {
					old := v.Interface().(types.Currency)
					for _, x := range []types.Currency{types.ZeroCurrency, types.NewCurrency64(1), types.NewCurrency(0, 1), types.NewCurrency(^uint64(0)-1, ^uint64(0)), types.MaxCurrency} {
						x := x
						if x != old {
							out = append(out, chain.Mutation{Path: fmt.Sprintf("%s=%v", path, x.ExactString()), Apply: func() { v.Set(reflect.ValueOf(x)) }, Undo: func() { v.Set(reflect.ValueOf(old)) }})
						}
					}
				}
				return
			}
			if v.Type() == reflect.TypeOf(types.SpendPolicy{}) {
				if v.CanSet() {
					old := v.Interface().(types.SpendPolicy)
					set := func(name string, p types.SpendPolicy) {
						out = append(out, chain.Mutation{Path: path + "=" + name, Apply: func() { v.Set(reflect.ValueOf(p)) }, Undo: func() { v.Set(reflect.ValueOf(old)) }})
					}
					set("nil-policy", types.SpendPolicy{})
					for _, d := range []int{31, 32, 33, 200} {
						set(fmt.Sprintf("nested-depth-%d", d), nested(d))
					}
					for _, n := range []int{255, 256, 1024, 1025} {
						set(fmt.Sprintf("wide-%d", n), wide(n))
					}
					set("total-1025", total(1025))
				}
				// also walk inside
			}
			for i := 0; i < v.NumField(); i++ {
				if v.Type().Field(i).IsExported() {
					walk(v.Field(i), path+"."+v.Type().Field(i).Name)
				}
			}
		case reflect.Slice:
			if !v.CanSet() {
				return
			}
			old := reflect.ValueOf(v.Interface())
			if v.Type().Elem() == reflect.TypeOf(types.Hash256{}) {
				for _, n := range []int{0, 63, 64, 65} {
					n := n
					if n != v.Len() {
						out = append(out, chain.Mutation{Path: fmt.Sprintf("%s[len=%d]", path, n), Apply: func() {
							nv := reflect.MakeSlice(v.Type(), n, n)
							reflect.Copy(nv, old)
							v.Set(nv)
						}, Undo: func() { v.Set(old) }})
					}
				}
			}
			if v.Type().Elem().Kind() == reflect.Uint64 {
				// index lists (covered fields): out-of-range indices
				for _, x := range []uint64{uint64(v.Len()), uint64(v.Len()) + 1, 1000, 1 << 63, ^uint64(0)} {
					x := x
					out = append(out, chain.Mutation{Path: fmt.Sprintf("%s[append %#x]", path, x), Apply: func() {
						nv := reflect.MakeSlice(v.Type(), v.Len()+1, v.Len()+1)
						reflect.Copy(nv, old)
						nv.Index(old.Len()).SetUint(x)
						v.Set(nv)
					}, Undo: func() { v.Set(old) }})
				}
			}
			if v.Len() >= 2 {
				out = append(out, chain.Mutation{Path: path + "[swap 0,1]", Apply: func() {
					nv := reflect.MakeSlice(v.Type(), v.Len(), v.Len())
					reflect.Copy(nv, old)
					t := reflect.New(v.Type().Elem()).Elem()
					t.Set(nv.Index(0))
					nv.Index(0).Set(nv.Index(1))
					nv.Index(1).Set(t)
					v.Set(nv)
				}, Undo: func() { v.Set(old) }})
			}
			if v.Len() > 0 {
				out = append(out, chain.Mutation{Path: path + "[empty]", Apply: func() { v.Set(reflect.Zero(v.Type())) }, Undo: func() { v.Set(old) }})
			}
			for i := 0; i < v.Len(); i++ {
				walk(v.Index(i), fmt.Sprintf("%s[%d]", path, i))
			}
		case reflect.Array:
			if v.Type().Elem().Kind() != reflect.Uint8 {
				for i := 0; i < v.Len(); i++ {
					walk(v.Index(i), fmt.Sprintf("%s[%d]", path, i))
				}
			}
		case reflect.Pointer:
			if !v.IsNil() {
				if v.CanSet() {
					old := reflect.ValueOf(v.Interface())
					out = append(out, chain.Mutation{Path: path + "=nil", Apply: func() { v.Set(reflect.Zero(v.Type())) }, Undo: func() { v.Set(old) }})
				}
				walk(v.Elem(), path)
			}
		case reflect.Interface:
			if !v.IsNil() {
				if v.CanSet() {
					old := reflect.ValueOf(v.Interface())
					out = append(out, chain.Mutation{Path: path + "=nil-interface", Apply: func() { v.Set(reflect.Zero(v.Type())) }, Undo: func() { v.Set(old) }})
					// wrong resolution types for the parent
					if v.Type() == reflect.TypeOf((*types.V2FileContractResolutionType)(nil)).Elem() {
						for name, r := range map[string]types.V2FileContractResolutionType{"expiration": &types.V2FileContractExpiration{}, "empty-renewal": &types.V2FileContractRenewal{}, "empty-storage-proof": &types.V2StorageProof{}, "nil-renewal-pointer": (*types.V2FileContractRenewal)(nil), "nil-proof-pointer": (*types.V2StorageProof)(nil)} {
							r := r
							out = append(out, chain.Mutation{Path: path + "=" + name, Apply: func() { v.Set(reflect.ValueOf(r)) }, Undo: func() { v.Set(old) }})
						}
					}
				}
				walk(v.Elem(), path)
			}
		}
	}
	walk(reflect.ValueOf(ptr).Elem(), "")
	return out
}

func nested(d int) types.SpendPolicy {
	p := types.PolicyAbove(0)
	for i := 0; i < d; i++ {
		p = types.PolicyThreshold(1, []types.SpendPolicy{p})
	}
	return p
}

func wide(n int) types.SpendPolicy {
	of := make([]types.SpendPolicy, n)
	for i := range of {
		of[i] = types.PolicyAbove(0)
	}
	return types.PolicyThreshold(0, of)
}

func total(n int) types.SpendPolicy {
	// n sub-policies in groups of 200
	var groups []types.SpendPolicy
	for n > 0 {
		k := 200
		if n < k {
			k = n
		}
		groups = append(groups, wide(k-1))
		n -= k
	}
	return types.PolicyThreshold(0, groups)
}

// asIs: mutations that are (also) probed without re-sealing - those that the header / payout / weight checks see.
func asIs(path string) bool {
	return strings.HasPrefix(path, ".MinerPayouts") || strings.HasPrefix(path, ".Nonce") || strings.HasPrefix(path, ".Timestamp") || strings.HasPrefix(path, ".ParentID") ||
		strings.HasPrefix(path, ".V2.Height") || strings.HasPrefix(path, ".V2.Commitment") || strings.Contains(path, "MinerFee") || strings.HasPrefix(path, ".V2=")
}

// notDecodable: values that neither the binary decoder nor the JSON decoder can produce (nil interfaces below the
// top level of a satisfied policy, nil or typed-nil resolutions) are outside the property ("any DECODABLE block").
func notDecodable(path string) bool {
	if strings.Contains(path, ".Resolution=nil") || strings.HasSuffix(path, "-pointer") {
		return true
	}
	if strings.Contains(path, ".Of[") && (strings.HasSuffix(path, "=nil-interface") || strings.HasSuffix(path, "=nil-policy")) {
		return true
	}
	return false
}

var idx = regexp.MustCompile(`\[\d+\]`)

// stable turns a mutation path into a defect signature component (indices stripped, values kept).
func stable(p string) string {
	p = idx.ReplaceAllString(p, "[*]")
	p = valueSuffix.ReplaceAllString(p, "")
	return p
}

var valueSuffix = regexp.MustCompile(`(=.*|[+-]1|\[byte \d+\]\^1|\[append 0x[0-9a-f]+\]|\[len=\d+\])$`)

// panicClass groups panics by kind so that a signature names the defect, not the triggering value.
func panicClass(p any) string {
	m := fmt.Sprint(p)
	for _, k := range []string{"overflow", "underflow", "index out of range", "slice bounds out of range", "nil pointer", "invalid memory address", "unhandled", "division by zero", "makeslice"} {
		if strings.Contains(m, k) {
			return strings.ReplaceAll(k, " ", "-")
		}
	}
	return "other"
}

func deepCopyBlock(b types.Block) types.Block {
	c := b
	c.MinerPayouts = append([]types.SiacoinOutput(nil), b.MinerPayouts...)
	c.Transactions = make([]types.Transaction, len(b.Transactions))
	for i, t := range b.Transactions {
		c.Transactions[i] = copyV1(t)
	}
	if b.V2 != nil {
		v := *b.V2
		v.Transactions = make([]types.V2Transaction, len(b.V2.Transactions))
		for i := range v.Transactions {
			v.Transactions[i] = b.V2.Transactions[i].DeepCopy()
		}
		c.V2 = &v
	}
	return c
}

func copyV1(t types.Transaction) types.Transaction {
	c := t
	c.SiacoinInputs = append([]types.SiacoinInput(nil), t.SiacoinInputs...)
	for i := range c.SiacoinInputs {
		c.SiacoinInputs[i].UnlockConditions.PublicKeys = append([]types.UnlockKey(nil), t.SiacoinInputs[i].UnlockConditions.PublicKeys...)
	}
	c.SiacoinOutputs = append([]types.SiacoinOutput(nil), t.SiacoinOutputs...)
	c.FileContracts = append([]types.FileContract(nil), t.FileContracts...)
	for i := range c.FileContracts {
		c.FileContracts[i].ValidProofOutputs = append([]types.SiacoinOutput(nil), t.FileContracts[i].ValidProofOutputs...)
		c.FileContracts[i].MissedProofOutputs = append([]types.SiacoinOutput(nil), t.FileContracts[i].MissedProofOutputs...)
	}
	c.FileContractRevisions = append([]types.FileContractRevision(nil), t.FileContractRevisions...)
	for i := range c.FileContractRevisions {
		c.FileContractRevisions[i].ValidProofOutputs = append([]types.SiacoinOutput(nil), t.FileContractRevisions[i].ValidProofOutputs...)
		c.FileContractRevisions[i].MissedProofOutputs = append([]types.SiacoinOutput(nil), t.FileContractRevisions[i].MissedProofOutputs...)
		c.FileContractRevisions[i].UnlockConditions.PublicKeys = append([]types.UnlockKey(nil), t.FileContractRevisions[i].UnlockConditions.PublicKeys...)
	}
	c.StorageProofs = append([]types.StorageProof(nil), t.StorageProofs...)
	for i := range c.StorageProofs {
		c.StorageProofs[i].Proof = append([]types.Hash256(nil), t.StorageProofs[i].Proof...)
	}
	c.SiafundInputs = append([]types.SiafundInput(nil), t.SiafundInputs...)
	c.SiafundOutputs = append([]types.SiafundOutput(nil), t.SiafundOutputs...)
	c.MinerFees = append([]types.Currency(nil), t.MinerFees...)
	c.ArbitraryData = append([][]byte(nil), t.ArbitraryData...)
	c.Signatures = append([]types.TransactionSignature(nil), t.Signatures...)
	for i := range c.Signatures {
		cf := &c.Signatures[i].CoveredFields
		o := t.Signatures[i].CoveredFields
		cf.SiacoinInputs = append([]uint64(nil), o.SiacoinInputs...)
		cf.SiacoinOutputs = append([]uint64(nil), o.SiacoinOutputs...)
		cf.FileContracts = append([]uint64(nil), o.FileContracts...)
		cf.FileContractRevisions = append([]uint64(nil), o.FileContractRevisions...)
		cf.StorageProofs = append([]uint64(nil), o.StorageProofs...)
		cf.SiafundInputs = append([]uint64(nil), o.SiafundInputs...)
		cf.SiafundOutputs = append([]uint64(nil), o.SiafundOutputs...)
		cf.MinerFees = append([]uint64(nil), o.MinerFees...)
		cf.ArbitraryData = append([]uint64(nil), o.ArbitraryData...)
		cf.Signatures = append([]uint64(nil), o.Signatures...)
		c.Signatures[i].Signature = append([]byte(nil), t.Signatures[i].Signature...)
	}
	return c
}

func deepCopySupp(bs consensus.V1BlockSupplement) consensus.V1BlockSupplement {
	var c consensus.V1BlockSupplement
	for _, ts := range bs.Transactions {
		var t consensus.V1TransactionSupplement
		for _, e := range ts.SiacoinInputs {
			t.SiacoinInputs = append(t.SiacoinInputs, e.Copy())
		}
		for _, e := range ts.SiafundInputs {
			t.SiafundInputs = append(t.SiafundInputs, e.Copy())
		}
		for _, e := range ts.RevisedFileContracts {
			t.RevisedFileContracts = append(t.RevisedFileContracts, e.Copy())
		}
		for _, e := range ts.StorageProofs {
			t.StorageProofs = append(t.StorageProofs, consensus.V1StorageProofSupplement{FileContract: e.FileContract.Copy(), WindowID: e.WindowID})
		}
		c.Transactions = append(c.Transactions, t)
	}
	for _, e := range bs.ExpiringFileContracts {
		c.ExpiringFileContracts = append(c.ExpiringFileContracts, e.Copy())
	}
	return c
}

// probe runs every validation entry point on (b, bs) under recover.
func probe(c *vf.Ctx, x *chain.Explorer, prev *chain.World, b types.Block, bs consensus.V1BlockSupplement, target, path string, trace []string, reseal bool) {
	cs := prev.CS
	report := func(entry string, p any, st string) {
		cse := Case{Half: "validation", Network: prev.Spec.Name, Trace: trace, Seed: c.Seed, Target: target, Path: path, Entry: entry}
		c.Violate("validate|"+entry+"|panic:"+panicClass(p)+"|"+target+stable(path), fmt.Sprintf("[%s height %d] %s panicked on a block mutated at %s%s: %v\n%s", prev.Spec.Name, prev.ChildHeight(), entry, target, path, p, firstLines(st, 14)), cse)
	}
	if reseal {
		// make the mutated block reach the transaction checks: recompute payout / commitment / nonce when possible
		vf.Try(func() { resealBlock(cs, &b) })
	}
	c.Count("evaluations", 1)
	var verr error
	if p, st := vf.Try(func() { verr = consensus.ValidateBlock(cs, b, bs) }); p != nil {
		report("ValidateBlock", p, st)
		return
	}
	if p, st := vf.Try(func() { _ = consensus.ValidateOrphan(cs, b) }); p != nil {
		report("ValidateOrphan", p, st)
	}
	if p, st := vf.Try(func() { _ = consensus.ValidateHeader(cs, b.Header()) }); p != nil {
		report("ValidateHeader", p, st)
	}
	// transactions one at a time against a fresh MidState (as a transaction pool would). Not for supplement mutations:
	// the supplement is assembled by the node from its own validated store; a corrupted supplement reaches validation
	// from outside only through ValidateBlock (which checks it against the accumulator first), so
	// ValidateTransaction(ms, txn, corrupted supplement) is outside the property (false alarm corrected 2026-09-26:
	// three inputs whose supplement values were set near 2^128 overflowed the unchecked input sum).
	for i, t := range b.Transactions {
		if target == "supplement" {
			break
		}
		var ts consensus.V1TransactionSupplement
		if i < len(bs.Transactions) {
			ts = bs.Transactions[i]
		}
		if p, st := vf.Try(func() { _ = consensus.ValidateTransaction(consensus.NewMidState(cs), t, ts) }); p != nil {
			report("ValidateTransaction", p, st)
			break
		}
	}
	for _, t := range b.V2Transactions() {
		if p, st := vf.Try(func() { _ = consensus.ValidateV2Transaction(consensus.NewMidState(cs), t) }); p != nil {
			report("ValidateV2Transaction", p, st)
			break
		}
		acc := cs.Elements
		if p, st := vf.Try(func() { _ = acc.ValidateTransactionElements(t) }); p != nil {
			report("ValidateTransactionElements", p, st)
			break
		}
	}
	// compact relay: a node rebuilds a relayed v2 block from its outline BEFORE it can validate it
	if b.V2 != nil && target == "block" && len(b.MinerPayouts) == 1 && !strings.Contains(path, "nil") { // (outlines are binary only: unset policies / nil pointers, which only JSON can produce, cannot arrive in one; outlining needs the one payout a v2 block has; the OUTLINE is what a peer controls)
		if p, st := vf.Try(func() {
			o := gateway.OutlineBlock(b, nil, nil)
			_, _ = o.Complete(cs, nil, nil)
		}); p != nil {
			report("gateway.V2BlockOutline.Complete", p, st)
		}
	}
	if verr != nil {
		c.Count("mutant_rejected", 1)
		return
	}
	c.Count("mutant_accepted", 1)
	// accepted: must apply and revert without panic
	if p, st := vf.Try(func() {
		_, au := consensus.ApplyBlock(cs, deepCopyBlock(b), deepCopySupp(bs), prev.TargetTimestamp())
		_ = au
		_ = consensus.RevertBlock(cs, deepCopyBlock(b), deepCopySupp(bs))
	}); p != nil {
		report("ApplyBlock/RevertBlock-after-accept", p, st)
	}
}

func firstLines(s string, n int) string {
	l := strings.Split(s, "\n")
	if len(l) > n {
		l = l[:n]
	}
	return strings.Join(l, "\n")
}

// resealBlock recomputes the miner payout, the v2 commitment and the nonce so that a mutated block is judged on its transactions.
func resealBlock(cs consensus.State, b *types.Block) {
	if len(b.MinerPayouts) == 0 {
		return
	}
	reward := cs.BlockReward()
	over := false
	for _, t := range b.Transactions {
		for _, f := range t.MinerFees {
			var o bool
			reward, o = reward.AddWithOverflow(f)
			over = over || o
		}
	}
	for _, t := range b.V2Transactions() {
		var o bool
		reward, o = reward.AddWithOverflow(t.MinerFee)
		over = over || o
	}
	if !over {
		// the first payout absorbs the difference (v1-format blocks may carry several payouts)
		rest, under := reward, false
		for _, mp := range b.MinerPayouts[1:] {
			var u bool
			rest, u = rest.SubWithUnderflow(mp.Value)
			under = under || u
		}
		if !under {
			b.MinerPayouts[0].Value = rest
		}
	}
	if b.V2 != nil {
		b.V2.Commitment = cs.Commitment(b.MinerPayouts[0].Address, b.Transactions, b.V2.Transactions)
	}
	chain.Seal(cs, b)
}

// Run is the validation half of C10.
func Run(c *vf.Ctx) {
	c.Set("validation_rule", "at every accepted block of a small union-alphabet DFS on every network family (quick: a setup block forming a v1 and a v2 contract, then every single action (mixed network: every ordered pair) of the alphabet at every height; thorough: all ordered tuples of <=2 actions, two non-empty blocks): every single structural mutation of the block and of its supplement (reflection walk: every field +-1 / byte flips / list drop, dup, swap, empty; integers and currencies set to 0, 1, 2^63, 2^64-1, 2^128-1, the unassigned-leaf sentinel; proofs resized to 0/63/64/65 hashes; out-of-range indices appended to every index list; pointers and interfaces set to nil; wrong / empty resolution types; policies nil, nested 31/32/33/200 deep, 255/256/1024/1025 wide; for every v1 signature the covered fields replaced by {one index list: [k]} for each of the ten lists and every k up to one past the transaction's longest list) is fed - as is and re-sealed (payout, commitment, nonce recomputed) - to ValidateBlock, ValidateOrphan, ValidateHeader, ValidateTransaction, ValidateV2Transaction, ValidateTransactionElements and (v2 blocks: the block is outlined and rebuilt with gateway.V2BlockOutline.Complete, as a relaying node does before it can validate) under recover; accepted mutants are applied and reverted; for a subset of block shapes (quick: 10 per network, thorough: all) additionally every PAIR of value-setting mutations on different leaves (at most 80 - thorough 120 - per block, evenly thinned); plus histories that contain a contract with an extreme file size (2^64-1, 2^64-63.., 2^63, ...; v1 and v2), followed at every height by storage proofs of several lengths, revisions and expirations for it")
	nets := []string{"mixed", "v1-eras", "v2-only", "v2-eph5"}
	for _, n := range nets {
		if c.Expired() {
			break
		}
		sp := chain.Spec(n)
		m := &chain.Model{Name: "union", Spec: sp, Menu: menu, Opt: chain.Options{},
			H: vf.Pick[uint64](c, 7, 9), D: vf.Pick(c, 1, 2), K: vf.Pick(c, 2, 2), R: 0}
		if c.Quick() {
			m.Menu, m.D, m.K = menuQuick, 2, 1
			if n == "mixed" {
				m.K = 2 // two-action blocks on the network that has both transaction versions
			}
		}
		if sp.Name == "mixed" {
			m.SkipStart = 3
			m.H += 3
		}
		var pairShapes atomic.Int64
		seenShape := map[string]bool{}
		var mu = make(chan struct{}, 1)
		m.OnTransition = func(x *chain.Explorer, prev, w *chain.World, path []string) {
			a := w.Hist[len(w.Hist)-1]
			if len(a.B.Transactions)+len(a.B.V2Transactions()) == 0 && len(a.BS.ExpiringFileContracts) == 0 {
				return
			}
			// one representative per (height, block shape) keeps the sweep finite and non-redundant
			h := prev.ChildHeight()
			era := fmt.Sprintf("%v%v%v%v", h >= sp.Allow, h >= sp.Require, h >= sp.Ephemeral, h >= sp.Fnd)
			shape := era + "|" + path[len(path)-1]
			mu <- struct{}{}
			dup := seenShape[shape]
			seenShape[shape] = true
			<-mu
			if dup {
				return
			}
			c.Count("blocks_mutated", 1)
			b := deepCopyBlock(a.B)
			for _, mt := range append(extremes(&b), coveredSweep(&b)...) {
				if notDecodable(mt.Path) {
					c.Count("skipped_not_decodable", 1)
					continue
				}
				mt.Apply()
				if asIs(mt.Path) {
					probe(c, x, prev, b, a.BS, "block", mt.Path, path, false)
				}
				probe(c, x, prev, deepCopyBlock(b), a.BS, "block", mt.Path, path, true)
				mt.Undo()
				c.Distinct(n, stable(mt.Path))
			}
			// pairs: crashes that need TWO unusual values at once (a sum that overflows only when two addends are extreme,
			// an index that is out of range only for a shortened list, ...): every pair of value-setting mutations
			// (integers / currencies to extreme values, proofs resized, index lists extended) on different leaves
			if pairShapes.Add(1) <= int64(vf.Pick(c, 10, 1<<30)) {
				var num []chain.Mutation
				for _, mt := range extremes(&b) {
					if !notDecodable(mt.Path) && (strings.Contains(mt.Path, "=") || strings.Contains(mt.Path, "[len=") || strings.Contains(mt.Path, "[append ")) && !strings.Contains(mt.Path, "-policy") && !strings.Contains(mt.Path, "nested-") && !strings.Contains(mt.Path, "wide-") && !strings.Contains(mt.Path, "total-") {
						num = append(num, mt)
					}
				}
				capN := vf.Pick(c, 80, 120)
				if step := (len(num) + capN - 1) / capN; step > 1 {
					var thin []chain.Mutation
					for i := 0; i < len(num); i += step {
						thin = append(thin, num[i])
					}
					num = thin
					c.Count("pair_mutation_sets_thinned", 1)
				}
				leafOf := func(p string) string {
					if i := strings.LastIndexAny(p, "=["); i > 0 {
						return p[:i]
					}
					return p
				}
				for i := range num {
					for j := i + 1; j < len(num); j++ {
						if leafOf(num[i].Path) == leafOf(num[j].Path) {
							continue
						}
						num[i].Apply()
						num[j].Apply()
						probe(c, x, prev, deepCopyBlock(b), a.BS, "block", num[i].Path+" & "+num[j].Path, path, true)
						num[j].Undo()
						num[i].Undo()
						c.Count("pair_mutations", 1)
					}
				}
			}
			bs := deepCopySupp(a.BS)
			for _, mt := range extremes(&bs) {
				mt.Apply()
				probe(c, x, prev, a.B, bs, "supplement", mt.Path, path, false)
				mt.Undo()
				c.Distinct(n, "supp"+stable(mt.Path))
			}
		}
		tn := time.Now()
		x := chain.NewExplorer(c, m, "C10")
		x.Run()
		c.Set("validation_net_wall_s:"+n, time.Since(tn).Seconds())
	}
	th := time.Now()
	defer func() { c.Set("validation_histories_wall_s", time.Since(th).Seconds()) }()
	hugeFiles(c, nil)
	legacySiafunds(c, nil)
	legacyMint(c, nil)
	c.RequireFeature("blocks_mutated", "mutant_rejected", "mutant_accepted", "huge_file_contracts_formed", "huge_file_probes", "legacy_siafund_probes", "legacy_mint_probes", "legacy_mint_control_accepted")
}

// Replay re-executes one recorded mutation.
func Replay(c *vf.Ctx, cs Case) {
	if cs.Target == "huge-file" {
		hugeFiles(c, &cs)
		return
	}
	if cs.Target == "legacy-siafunds" {
		legacySiafunds(c, &cs)
		return
	}
	if cs.Target == "legacy-mint" {
		cs.Path = strings.TrimSuffix(strings.TrimSuffix(cs.Path, " (minting block)"), " (control: one of them)")
		legacyMint(c, &cs)
		return
	}
	tc := chain.TraceCase{Model: "union", Network: cs.Network, Seed: cs.Seed, Trace: cs.Trace}
	raw := mustJSON(tc)
	w := chain.ReplayTraceWorld(c, raw, func(string) func(w *chain.World) []chain.Action { return menuAll }, "C10", chain.Options{})
	if w == nil || len(w.Hist) < 2 {
		return
	}
	a := w.Hist[len(w.Hist)-1]
	prev := *w
	prev.CS = a.PrevCS
	prev.Times = w.Times[:len(w.Times)-1]
	x := chain.NewExplorer(c, &chain.Model{Name: "union", Spec: chain.Spec(cs.Network), Menu: menuAll}, "C10")
	if parts := strings.Split(cs.Path, " & "); cs.Target == "block" && len(parts) == 2 {
		b := deepCopyBlock(a.B)
		var pair []chain.Mutation
		for _, want := range parts {
			for _, mt := range extremes(&b) {
				if mt.Path == want {
					pair = append(pair, mt)
					break
				}
			}
		}
		if len(pair) != 2 {
			c.HarnessError("pair mutation %q not found on replay", cs.Path)
			return
		}
		pair[0].Apply()
		pair[1].Apply()
		probe(c, x, &prev, deepCopyBlock(b), a.BS, "block", cs.Path, cs.Trace, true)
		pair[1].Undo()
		pair[0].Undo()
		return
	}
	if cs.Target == "block" {
		b := deepCopyBlock(a.B)
		for _, mt := range append(extremes(&b), coveredSweep(&b)...) {
			if mt.Path == cs.Path {
				mt.Apply()
				probe(c, x, &prev, b, a.BS, "block", mt.Path, cs.Trace, false)
				probe(c, x, &prev, deepCopyBlock(b), a.BS, "block", mt.Path, cs.Trace, true)
				mt.Undo()
			}
		}
	} else {
		bs := deepCopySupp(a.BS)
		for _, mt := range extremes(&bs) {
			if mt.Path == cs.Path {
				mt.Apply()
				probe(c, x, &prev, a.B, bs, "supplement", mt.Path, cs.Trace, false)
				mt.Undo()
			}
		}
	}
}

func mustJSON(v any) []byte {
	b, err := json.Marshal(v)
	if err != nil {
		panic(err)
	}
	return b
}
