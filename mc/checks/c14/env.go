package c14

import (
	"crypto/ed25519"
	"crypto/sha256"
	"fmt"
	"time"

	"go.sia.tech/core/types"
)

// signature symbols (witness alphabet). The first four are the enumeration
// alphabet; the flipped ones are only used by the corruption sub-check.
const (
	sV1    uint8 = iota // valid signature of sigHash by k1
	sV2                 // valid signature of sigHash by k2
	sWrong              // signature by k1 over a different hash
	sZero               // all-zero signature
	sFlip1              // sV1 with one bit flipped
	sFlip2              // sV2 with one bit flipped
	sFlipW              // sWrong with one bit flipped
	nSigSym
)

var sigNames = [...]string{"sig(k1)", "sig(k2)", "sig(k1,otherhash)", "zero", "flip(sig(k1))", "flip(sig(k2))", "flip(sig(k1,otherhash))"}

// preimage symbols.
const (
	pP1 uint8 = iota
	pP2
	pWrong
	pFlip1
	pFlip2
	pFlipW
	nPreSym
)

var preNames = [...]string{"p1", "p2", "wrong", "flip(p1)", "flip(p2)", "flip(wrong)"}

// env is the key material and lock points of a run; derived from VERIF_SEED
// only (data independence: the seed never selects what is explored).
type env struct {
	seed       int64
	sk         [2]ed25519.PrivateKey
	pk         [2]types.PublicKey
	sigHash    types.Hash256
	otherHash  types.Hash256
	sigs       [nSigSym]types.Signature
	pres       [nPreSym][32]byte
	hash       [2]types.Hash256
	h          uint64
	t          time.Time
	opaqueAddr types.Address

	// reference tables computed with the standard library only
	sigValid [2][nSigSym]bool // [key][symbol]
	// ed25519 unlock keys shorter than 32 bytes ("e1s": empty, "e1p": first 16 bytes of k1): the key an
	// implementation can possibly mean is the zero-padded one; validity from crypto/ed25519 (never k1 itself)
	shortValid map[string][nSigSym]bool
	preValid [2][nPreSym]bool // [hash leaf][symbol]
}

func derive(seed int64, label string, i int) [32]byte {
	return sha256.Sum256([]byte(fmt.Sprintf("verif/c14|%d|%s|%d", seed, label, i)))
}

func newEnv(seed int64) (*env, error) {
	e := &env{seed: seed}
	for i := range e.sk {
		s := derive(seed, "key", i)
		e.sk[i] = ed25519.NewKeyFromSeed(s[:])
		copy(e.pk[i][:], e.sk[i].Public().(ed25519.PublicKey))
	}
	e.sigHash = derive(seed, "sighash", 0)
	e.otherHash = derive(seed, "sighash", 1)
	copy(e.sigs[sV1][:], ed25519.Sign(e.sk[0], e.sigHash[:]))
	copy(e.sigs[sV2][:], ed25519.Sign(e.sk[1], e.sigHash[:]))
	copy(e.sigs[sWrong][:], ed25519.Sign(e.sk[0], e.otherHash[:]))
	e.sigs[sFlip1] = e.sigs[sV1]
	e.sigs[sFlip1][7] ^= 0x10
	e.sigs[sFlip2] = e.sigs[sV2]
	e.sigs[sFlip2][40] ^= 0x01
	e.sigs[sFlipW] = e.sigs[sWrong]
	e.sigs[sFlipW][3] ^= 0x80
	e.pres[pP1] = derive(seed, "preimage", 1)
	e.pres[pP2] = derive(seed, "preimage", 2)
	e.pres[pWrong] = derive(seed, "preimage", 3)
	e.pres[pFlip1] = e.pres[pP1]
	e.pres[pFlip1][31] ^= 0x01
	e.pres[pFlip2] = e.pres[pP2]
	e.pres[pFlip2][0] ^= 0x80
	e.pres[pFlipW] = e.pres[pWrong]
	e.pres[pFlipW][5] ^= 0x04
	e.hash[0] = sha256.Sum256(e.pres[pP1][:])
	e.hash[1] = sha256.Sum256(e.pres[pP2][:])
	m := seed % 97
	if m < 0 {
		m = -m
	}
	e.h = 1000 + uint64(m)
	e.t = time.Unix(1_700_000_000+m*13, 0)

	// memoised reference verification (crypto/ed25519 and crypto/sha256 of
	// the standard library, not the code under test)
	for k := 0; k < 2; k++ {
		for s := uint8(0); s < nSigSym; s++ {
			e.sigValid[k][s] = ed25519.Verify(e.sk[k].Public().(ed25519.PublicKey), e.sigHash[:], e.sigs[s][:])
			want := (k == 0 && s == sV1) || (k == 1 && s == sV2)
			if e.sigValid[k][s] != want {
				return nil, fmt.Errorf("signature material unusable: key %d symbol %s valid=%v", k, sigNames[s], e.sigValid[k][s])
			}
		}
		for p := uint8(0); p < nPreSym; p++ {
			e.preValid[k][p] = sha256.Sum256(e.pres[p][:]) == e.hash[k]
			want := (k == 0 && p == pP1) || (k == 1 && p == pP2)
			if e.preValid[k][p] != want {
				return nil, fmt.Errorf("preimage material unusable")
			}
		}
	}
	e.shortValid = map[string][nSigSym]bool{}
	for kind, n := range map[string]int{"e1s": 0, "e1p": 16} {
		var padded [32]byte
		copy(padded[:], e.pk[0][:n])
		var tab [nSigSym]bool
		for s := uint8(0); s < nSigSym; s++ {
			tab[s] = ed25519.Verify(padded[:], e.sigHash[:], e.sigs[s][:])
		}
		e.shortValid[kind] = tab
	}
	e.opaqueAddr = types.Address(e.refAddress(leafNodes[kPK1]))
	return e, nil
}

func (e *env) height(off int) uint64 { return uint64(int64(e.h) + int64(off)) }

func (e *env) median(off int) time.Time { return time.Unix(e.t.Unix()+int64(off), 0) }

func (e *env) sigList(sym []uint8) []types.Signature {
	if len(sym) == 0 {
		return nil
	}
	out := make([]types.Signature, len(sym))
	for i, s := range sym {
		out[i] = e.sigs[s]
	}
	return out
}

func (e *env) preList(sym []uint8) [][32]byte {
	if len(sym) == 0 {
		return nil
	}
	out := make([][32]byte, len(sym))
	for i, s := range sym {
		out[i] = e.pres[s]
	}
	return out
}
