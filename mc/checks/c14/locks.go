package c14

import (
	"fmt"
	"math"
	"time"

	"go.sia.tech/core/types"
	"verifmc/vf"
)

// lockSweep: height and time locks over the WHOLE value range, not only next to the lock: every ordered pair
// (lock value, supplied height) of a boundary set of uint64 and every ordered pair (lock time, supplied median time) of
// a boundary set of instants, in five embeddings (root, 1-of-1 threshold, 2-of-2 with a signed key, 1-of-2 beside an
// opaque sibling, top-level unlock-conditions timelock). Oracle: above(L) holds iff height >= L; after(T) holds
// iff the median is strictly later than T (arithmetic on math/big-free plain comparisons, written independently).
func (r *runner) lockSweep() {
	e := r.e
	cases := r.c.Counter("lock_sweep_cases")
	hs := []uint64{0, 1, 2, e.h - 1, e.h, e.h + 1, 1<<31 - 1, 1 << 31, 1<<32 - 1, 1 << 32, 1<<62 - 1, 1 << 62, 1<<63 - 1, 1 << 63, 1<<63 + 1, 1<<63 + e.h, math.MaxUint64 - e.h, math.MaxUint64 - 1, math.MaxUint64}
	verify := func(name string, p types.SpendPolicy, height uint64, median time.Time, sigs []types.Signature, want bool) {
		cases.Add(1)
		r.evals.Add(1)
		var err error
		pv, _ := vf.Try(func() { err = p.Verify(height, median, e.sigHash, sigs, nil) })
		if pv != nil {
			r.violate("SpendPolicy.Verify|panic|lock-sweep:"+name, fmt.Sprintf("Verify panicked on %s: %v", name, pv), vcase{Kind: "lock", Name: name})
			return
		}
		if (err == nil) != want {
			cls := "lock-not-yet-reached-accepted"
			if want {
				cls = "lock-reached-rejected"
			}
			r.violate("SpendPolicy.Verify|"+cls+"|"+name, fmt.Sprintf("%s: Verify error = %v, expected accept=%v", name, err, want),
				vcase{Kind: "lock", Name: name, Expect: fmt.Sprint(want), Got: fmt.Sprint(err == nil)})
		}
	}
	never := types.SpendPolicy{Type: types.PolicyTypeOpaque(e.opaqueAddr)} // an unrevealed sibling
	embed := func(kind string, leaf types.SpendPolicy) (types.SpendPolicy, []types.Signature) {
		switch kind {
		case "root":
			return leaf, nil
		case "thresh(1,[lock])":
			return types.PolicyThreshold(1, []types.SpendPolicy{leaf}), nil
		case "thresh(2,[lock,pk])":
			return types.PolicyThreshold(2, []types.SpendPolicy{leaf, types.PolicyPublicKey(e.pk[0])}), []types.Signature{e.sigs[sV1]}
		case "thresh(1,[opaque,lock])":
			return types.PolicyThreshold(1, []types.SpendPolicy{never, leaf}), nil
		}
		panic(kind)
	}
	kinds := []string{"root", "thresh(1,[lock])", "thresh(2,[lock,pk])", "thresh(1,[opaque,lock])"}
	for _, L := range hs {
		for _, h := range hs {
			want := h >= L
			for _, k := range kinds {
				p, sigs := embed(k, types.PolicyAbove(L))
				verify(fmt.Sprintf("above(%d) at height %d as %s", L, h, k), p, h, e.t, sigs, want)
			}
			uc := types.UnlockConditions{Timelock: L, PublicKeys: []types.UnlockKey{e.pk[0].UnlockKey()}, SignaturesRequired: 1}
			verify(fmt.Sprintf("uc(timelock %d) at height %d", L, h), types.SpendPolicy{Type: types.PolicyTypeUnlockConditions(uc)}, h, e.t, []types.Signature{e.sigs[sV1]}, want)
		}
	}
	// instants: the statement quantifies over years 0..9999; Unix seconds are signed
	var ts []time.Time
	for _, s := range []int64{-62167219200 /* year 0 */, -62135596800 /* zero time.Time */, -(1 << 32), -1, 0, 1, e.t.Unix() - 1, e.t.Unix(), e.t.Unix() + 1, 1<<31 - 1, 1 << 31, 1<<32 - 1, 1 << 32, 253402300799 /* 9999-12-31T23:59:59 */} {
		ts = append(ts, time.Unix(s, 0))
	}
	// medians of an even number of timestamps are midpoints and may carry half a second
	meds := append([]time.Time(nil), ts...)
	for _, T := range ts {
		meds = append(meds, T.Add(500*time.Millisecond), T.Add(-500*time.Millisecond))
	}
	for _, T := range ts {
		for _, m := range meds {
			want := m.After(T)
			for _, k := range kinds {
				p, sigs := embed(k, types.PolicyAfter(T))
				verify(fmt.Sprintf("after(%d) at median %d.%03d as %s", T.Unix(), m.Unix(), m.Nanosecond()/1e6, k), p, e.h, m, sigs, want)
			}
		}
	}
	r.c.Set("lock_sweep", fmt.Sprintf("%d height values x %d heights, %d instants x %d medians, %d embeddings (+ unlock-conditions timelock)", len(hs), len(hs), len(ts), len(ts), len(kinds)))
}
