// Package c14: spend policy verification matches the policy's meaning and
// address commitment. Bounded exhaustive enumeration of policy trees x witness
// vectors x lock points, compared against an independent evaluator (RefPolicy)
// and an independent address derivation (RefAddress / RefMerkle).
package c14

import (
	"encoding/json"
	"fmt"
	"os"
	"runtime/debug"
	"sort"
	"strings"
	"sync"
	"sync/atomic"

	"go.sia.tech/core/types"
	"verifmc/vf"
)

func init() {
	vf.Register(&vf.Check{ID: "C14", Level: "exploration", Run: run, Replay: replay})
}

// vcase is the replayable descriptor of one case.
type vcase struct {
	Kind   string  `json:"kind"` // verify | address | limit | standard
	Tree   *node   `json:"tree,omitempty"`
	Mask   uint64  `json:"opaque_mask,omitempty"` // non-root nodes (pre-order) replaced by PolicyOpaque(node)
	Sigs   syms    `json:"sigs,omitempty"` // indices into the signature symbols (see env.go)
	Pres   syms    `json:"preimages,omitempty"`
	HOff   int     `json:"height_offset"`
	TOff   int     `json:"median_offset_s"`
	Name   string  `json:"name,omitempty"` // limit / standard sub-case
	Text   string  `json:"text,omitempty"` // human readable form
	Expect string  `json:"expected,omitempty"`
	Got    string  `json:"observed,omitempty"`
}

// syms is a list of witness symbols, written to JSON as a list of numbers.
type syms []uint8

// MarshalJSON implements json.Marshaler.
func (s syms) MarshalJSON() ([]byte, error) {
	out := make([]int, len(s))
	for i, v := range s {
		out[i] = int(v)
	}
	return json.Marshal(out)
}

// UnmarshalJSON implements json.Unmarshaler.
func (s *syms) UnmarshalJSON(b []byte) error {
	var in []int
	if err := json.Unmarshal(b, &in); err != nil {
		return err
	}
	*s = nil
	for _, v := range in {
		if v < 0 || v >= int(nSigSym) {
			return fmt.Errorf("bad witness symbol %d", v)
		}
		*s = append(*s, uint8(v))
	}
	return nil
}

func (e *env) caseText(v *vcase) string {
	var sb strings.Builder
	if v.Tree != nil {
		sb.WriteString(v.Tree.String())
	}
	if v.Mask != 0 {
		fmt.Fprintf(&sb, " opaque-mask=%b", v.Mask)
	}
	sb.WriteString(" sigs=[")
	for i, s := range v.Sigs {
		if i > 0 {
			sb.WriteByte(',')
		}
		sb.WriteString(sigNames[s])
	}
	sb.WriteString("] preimages=[")
	for i, p := range v.Pres {
		if i > 0 {
			sb.WriteByte(',')
		}
		sb.WriteString(preNames[p])
	}
	fmt.Fprintf(&sb, "] height=h%+d median=t%+ds", v.HOff, v.TOff)
	return sb.String()
}

// runner carries the shared state of a run.
type runner struct {
	c *vf.Ctx
	e *env

	evals, accepting, rejecting, unspecified   *atomic.Int64
	unspecImplAccept, unspecImplReject         *atomic.Int64
	addrEvals, neededOpaque, corruptions       *atomic.Int64
	ucChildRejected, surplusRejected, panicked *atomic.Int64

	mu       sync.Mutex
	reasons  map[string]int64
	viol     map[string]*violRec
	accepted map[int]*vcase // largest accepting case per stratum (sample)
	unspec   *vcase
}

type violRec struct {
	desc   string
	cs     vcase
	weight int
	count  int
}

func newRunner(c *vf.Ctx, e *env) *runner {
	return &runner{c: c, e: e,
		evals: c.Counter("evaluations"), accepting: c.Counter("accepting"), rejecting: c.Counter("rejecting"),
		unspecified: c.Counter("unspecified"), unspecImplAccept: c.Counter("unspecified_impl_accepts"),
		unspecImplReject: c.Counter("unspecified_impl_rejects"), addrEvals: c.Counter("address_evaluations"),
		neededOpaque: c.Counter("needed_child_made_opaque"), corruptions: c.Counter("witness_corruptions"),
		ucChildRejected: c.Counter("uc_as_child_rejected"), surplusRejected: c.Counter("surplus_witness_rejected"),
		panicked: c.Counter("panics"),
		reasons:  map[string]int64{}, viol: map[string]*violRec{}, accepted: map[int]*vcase{}}
}

func (r *runner) violate(sig, desc string, cs vcase) {
	w := len(cs.Sigs) + len(cs.Pres)
	if cs.Tree != nil {
		w += 100 * (cs.Tree.size() + len(cs.Tree.Keys))
	}
	cs.Text = r.e.caseText(&cs)
	r.mu.Lock()
	defer r.mu.Unlock()
	v, ok := r.viol[sig]
	if !ok {
		r.viol[sig] = &violRec{desc: desc, cs: cs, weight: w, count: 1}
		return
	}
	v.count++
	if w < v.weight || (w == v.weight && cs.Text < v.cs.Text) {
		v.desc, v.cs, v.weight = desc, cs, w
	}
}

func (r *runner) flush() {
	r.mu.Lock()
	defer r.mu.Unlock()
	sigs := make([]string, 0, len(r.viol))
	for s := range r.viol {
		sigs = append(sigs, s)
	}
	sort.Strings(sigs)
	for _, s := range sigs {
		v := r.viol[s]
		r.c.Violate(s, fmt.Sprintf("%s (smallest of %d failing cases: %s)", v.desc, v.count, v.cs.Text), v.cs)
	}
}

// verifyOnce runs the real Verify and RefPolicy on one case and compares.
// It returns the reference verdict and whether the implementation accepted.
func (r *runner) verifyOnce(tree *node, p types.SpendPolicy, mask uint64, sigs, pres []uint8, hOff, tOff int) (verdict, string, bool) {
	e := r.e
	r.evals.Add(1)
	var err error
	func() {
		defer func() {
			if rec := recover(); rec != nil {
				r.panicked.Add(1)
				err = fmt.Errorf("panic: %v", rec)
				r.violate("SpendPolicy.Verify|panic|root="+tree.K.String(), fmt.Sprintf("Verify panicked: %v", rec),
					vcase{Kind: "verify", Tree: tree, Mask: mask, Sigs: cp(sigs), Pres: cp(pres), HOff: hOff, TOff: tOff})
			}
		}()
		err = p.Verify(e.height(hOff), e.median(tOff), e.sigHash, e.sigList(sigs), e.preList(pres))
	}()
	impl := err == nil
	rt := tree
	if mask != 0 {
		i := 0
		rt = applyMask(tree, mask, &i)
	}
	ref, why := e.refVerify(rt, e.height(hOff), e.median(tOff).Unix(), sigs, pres)
	switch ref {
	case vUnspecified:
		r.unspecified.Add(1)
		if impl {
			r.unspecImplAccept.Add(1)
		} else {
			r.unspecImplReject.Add(1)
		}
		return ref, why, impl
	case vAccept:
		r.accepting.Add(1)
		if !impl {
			lock := ""
			var f feat
			tree.features(&f)
			if f.above || f.after {
				lock = fmt.Sprintf("|at=h%+d,t%+d", hOff, tOff)
			}
			r.violate("SpendPolicy.Verify|rejects-satisfied-policy|root="+tree.K.String()+lock,
				fmt.Sprintf("Verify rejected (%v) a policy whose meaning holds", err),
				vcase{Kind: "verify", Tree: tree, Mask: mask, Sigs: cp(sigs), Pres: cp(pres), HOff: hOff, TOff: tOff, Expect: "accept", Got: "reject"})
		}
	case vReject:
		r.rejecting.Add(1)
		if impl {
			r.violate("SpendPolicy.Verify|accepts-unsatisfied-policy|"+why+"|root="+tree.K.String(),
				"Verify accepted a policy whose meaning does not hold: "+why,
				vcase{Kind: "verify", Tree: tree, Mask: mask, Sigs: cp(sigs), Pres: cp(pres), HOff: hOff, TOff: tOff, Expect: "reject:" + why, Got: "accept"})
		}
		switch why {
		case rUCChild:
			r.ucChildRejected.Add(1)
		case rSurplusSig, rSurplusPre:
			r.surplusRejected.Add(1)
		}
	}
	return ref, why, impl
}

// sampleLess orders accepting cases: larger first, then by text.
func sampleLess(a, b *vcase) bool {
	sa, sb := a.Tree.size()+len(a.Sigs)+len(a.Pres), b.Tree.size()+len(b.Sigs)+len(b.Pres)
	if sa != sb {
		return sa > sb
	}
	return a.Text < b.Text
}

func cp(b []uint8) syms { return append(syms(nil), b...) }

// forVectors calls f for every list of length 0..maxLen over alpha.
func forVectors(alpha []uint8, maxLen int, f func([]uint8)) {
	buf := make([]uint8, 0, maxLen)
	var rec func()
	rec = func() {
		f(buf)
		if len(buf) == maxLen {
			return
		}
		for _, a := range alpha {
			buf = append(buf, a)
			rec()
			buf = buf[:len(buf)-1]
		}
	}
	rec()
}

type job struct {
	tree     *node
	sigAlpha []uint8
	preAlpha []uint8
	cost     int64
	f        feat
	stratum  int
}

func (j *job) lockPoints() (hs, ts []int) {
	hs, ts = []int{0}, []int{0}
	if j.f.above {
		hs = []int{-1, 0, 1}
	}
	if j.f.after {
		ts = []int{-1, 0, 1}
	}
	return
}

func newJob(tree *node, sigAlpha, preAlpha []uint8, stratum int) *job {
	j := &job{tree: tree, sigAlpha: sigAlpha, preAlpha: preAlpha, stratum: stratum}
	tree.features(&j.f)
	hs, ts := j.lockPoints()
	j.cost = geomSum(len(sigAlpha), j.f.sigLeaves+1) * geomSum(len(preAlpha), j.f.hashLeaves+1) * int64(len(hs)*len(ts))
	return j
}

// maskLimit: trees with at most this many non-root nodes get every subset of
// nodes made opaque; larger trees get every subset of size <= 2 plus the subset
// of all root children.
const maskLimit = 8

// evalTree runs every oracle on one tree.
func (r *runner) evalTree(j *job) {
	e := r.e
	tree := j.tree
	p := e.build(tree)
	local := map[string]int64{}

	// ---- Oracle 2a: address commitment
	r.addressOracle(tree, p)

	// ---- Oracle 1: Verify == RefPolicy on every witness vector and lock point
	hs, ts := j.lockPoints()
	var revealed []int
	if tree.K == kThr {
		i := 0
		revealedNodes(tree, &i, &revealed)
	}
	forVectors(j.sigAlpha, j.f.sigLeaves+1, func(sigs []uint8) {
		forVectors(j.preAlpha, j.f.hashLeaves+1, func(pres []uint8) {
			for _, ho := range hs {
				for _, to := range ts {
					ref, why, impl := r.verifyOnce(tree, p, 0, sigs, pres, ho, to)
					if ref == vReject {
						local[why]++
					}
					if ref == vUnspecified {
						v := &vcase{Kind: "verify", Tree: tree, Sigs: cp(sigs), Pres: cp(pres), HOff: ho, TOff: to, Expect: "unspecified", Got: map[bool]string{true: "accept", false: "reject"}[impl]}
						v.Text = e.caseText(v)
						r.mu.Lock()
						if r.unspec == nil || v.Text < r.unspec.Text {
							r.unspec = v
						}
						r.mu.Unlock()
					}
					if ref != vAccept || !impl {
						continue
					}
					r.c.Distinct("acc", tree.String(), fmt.Sprint(sigs), fmt.Sprint(pres), ho, to)
					av := &vcase{Kind: "verify", Tree: tree, Sigs: cp(sigs), Pres: cp(pres), HOff: ho, TOff: to, Expect: "accept", Got: "accept"}
					av.Text = e.caseText(av)
					r.mu.Lock()
					if b := r.accepted[j.stratum]; b == nil || sampleLess(av, b) {
						r.accepted[j.stratum] = av
					}
					r.mu.Unlock()
					// ---- Oracle 2b: a needed (revealed, counted) sub-policy made opaque => rejection
					for _, idx := range revealed {
						mask := uint64(1) << uint(idx)
						k := 0
						pm := e.buildMasked(tree, mask, &k)
						r.neededOpaque.Add(1)
						mref, _, mimpl := r.verifyOnce(tree, pm, mask, sigs, pres, ho, to)
						if mref != vReject {
							r.c.HarnessError("reference accepts %s with a needed child opaque (mask %b)", tree, mask)
						}
						if mimpl {
							r.violate("SpendPolicy.Verify|accepts-after-needed-subpolicy-made-opaque|root="+tree.K.String(),
								"an accepting assignment still verifies after a revealed, counted sub-policy was replaced by its opaque form",
								vcase{Kind: "verify", Tree: tree, Mask: mask, Sigs: cp(sigs), Pres: cp(pres), HOff: ho, TOff: to, Expect: "reject", Got: "accept"})
						}
					}
					// ---- Oracle 1b: corrupting one witness (bit flip) of an accepting assignment
					for i := range sigs {
						s2 := cp(sigs)
						switch s2[i] {
						case sV1:
							s2[i] = sFlip1
						case sV2:
							s2[i] = sFlip2
						default:
							s2[i] = sFlipW
						}
						r.corruptions.Add(1)
						r.verifyOnce(tree, p, 0, s2, pres, ho, to)
					}
					for i := range pres {
						p2 := cp(pres)
						p2[i] += pFlip1 - pP1
						r.corruptions.Add(1)
						r.verifyOnce(tree, p, 0, sigs, p2, ho, to)
					}
				}
			}
		})
	})
	r.mu.Lock()
	for k, v := range local {
		r.reasons[k] += v
	}
	r.mu.Unlock()
}

// addressOracle: Address(p) equals the independent derivation and does not
// change when any subset of sub-policies is replaced by its opaque form.
func (r *runner) addressOracle(tree *node, p types.SpendPolicy) {
	e := r.e
	var a0 types.Address
	if pv, _ := vf.Try(func() { a0 = p.Address() }); pv != nil {
		r.violate("SpendPolicy.Address|panic|root="+tree.K.String(), fmt.Sprintf("Address panicked: %v", pv), vcase{Kind: "address", Tree: tree})
		return
	}
	r.addrEvals.Add(1)
	r.evals.Add(1)
	if want := types.Address(e.refAddress(tree)); a0 != want {
		r.violate("SpendPolicy.Address|differs-from-independent-derivation|root="+tree.K.String(),
			fmt.Sprintf("Address() = %v, independent derivation %v", a0, want), vcase{Kind: "address", Tree: tree, Expect: want.String(), Got: a0.String()})
	}
	if tree.K != kThr {
		return
	}
	nn := tree.size() - 1
	check := func(mask uint64) {
		k := 0
		pm := e.buildMasked(tree, mask, &k)
		r.addrEvals.Add(1)
		r.evals.Add(1)
		if am := pm.Address(); am != a0 {
			r.violate("SpendPolicy.Address|changes-when-subpolicies-made-opaque",
				fmt.Sprintf("Address() = %v but %v after replacing sub-policies by PolicyOpaque", a0, am),
				vcase{Kind: "address", Tree: tree, Mask: mask, Expect: a0.String(), Got: am.String()})
		}
	}
	if nn <= maskLimit {
		for mask := uint64(1); mask < uint64(1)<<uint(nn); mask++ {
			check(mask)
		}
		return
	}
	for i := 0; i < nn; i++ {
		check(uint64(1) << uint(i))
		for k := i + 1; k < nn; k++ {
			check(uint64(1)<<uint(i) | uint64(1)<<uint(k))
		}
	}
	var all uint64
	idx := 0
	for _, c := range tree.Of {
		all |= uint64(1) << uint(idx)
		idx += c.size()
	}
	check(all)
}

// ---------------------------------------------------------------------------

var (
	sigFull = []uint8{sV1, sV2, sWrong, sZero}
	sig3    = []uint8{sV1, sV2, sWrong}
	sig2    = []uint8{sV1, sWrong}
	preFull = []uint8{pP1, pP2, pWrong}
	pre2    = []uint8{pP1, pWrong}
)

func alphaNames(a []uint8, names []string) string {
	var out []string
	for _, s := range a {
		out = append(out, names[s])
	}
	return "{" + strings.Join(out, ", ") + "}"
}

func kindList(ks []kind) string {
	var out []string
	for _, k := range ks {
		out = append(out, k.String())
	}
	return "{" + strings.Join(out, ",") + "}"
}

func mkStratum(name string, depth, arity, budget int, leaves [][]kind, sa, pa []uint8) *stratum {
	st := &stratum{Name: name, DepthMax: depth, ArityMax: arity, NodeBudget: budget, Leaves: leaves, SigAlpha: sa, PreAlpha: pa,
		SigNames: alphaNames(sa, sigNames[:]), PreNames: alphaNames(pa, preNames[:])}
	for _, l := range leaves {
		st.LeafNames = append(st.LeafNames, kindList(l))
	}
	return st
}

var (
	fullLeaves = []kind{kAbove, kAfter, kPK1, kPK2, kH1, kH2, kOpaque, kUC}
	midLeaves  = []kind{kAbove, kPK1, kPK2, kH1, kOpaque, kUC}
	mid5Leaves = []kind{kAbove, kPK1, kPK2, kH1, kOpaque}
	smallLeafs = []kind{kPK1, kH1, kOpaque}
	tinyLeaves = []kind{kPK1, kOpaque}
)

func strata(c *vf.Ctx) []*stratum {
	if spec := os.Getenv("C14_STRATA"); spec != "" { // experiments only
		var out []*stratum
		for _, s := range strings.Split(spec, ";") {
			var d, a, b, sg, pr int
			var lv string
			fmt.Sscanf(strings.ReplaceAll(s, ":", " "), "%d %d %d %s %d %d", &d, &a, &b, &lv, &sg, &pr)
			leaves := map[string][]kind{"full": fullLeaves, "mid": midLeaves, "mid5": mid5Leaves, "small": smallLeafs, "tiny": tinyLeaves}[lv]
			sa := map[int][]uint8{4: sigFull, 3: sig3, 2: sig2}[sg]
			pa := map[int][]uint8{3: preFull, 2: pre2}[pr]
			out = append(out, mkStratum("experiment "+s, d, a, b, [][]kind{leaves}, sa, pa))
		}
		c.NotExhaustive("C14_STRATA experiment override")
		return out
	}
	quick := []*stratum{
		mkStratum("flat-3: depth 1, arity<=3, full leaf alphabet", 1, 3, 0, [][]kind{fullLeaves}, sigFull, preFull),
		mkStratum("nested-3-full: depth<=2, arity<=3, <=3 non-root nodes, full leaf alphabet", 2, 3, 3, [][]kind{fullLeaves}, sigFull, preFull),
		mkStratum("nested-4-mid: depth<=2, arity<=3, <=4 non-root nodes, medium leaf alphabet", 2, 3, 4, [][]kind{mid5Leaves}, sig3, pre2),
		mkStratum("nested-5-small: depth<=2, arity<=3, <=5 non-root nodes, small leaf alphabet", 2, 3, 5, [][]kind{smallLeafs}, sig2, pre2),
	}
	if c.Quick() {
		return quick
	}
	// thorough is a superset of quick
	return append(quick,
		mkStratum("nested-4-mid-uc: depth<=2, arity<=3, <=4 non-root nodes, medium leaf alphabet plus uc as (illegal) sub-policy", 2, 3, 4, [][]kind{midLeaves}, sig3, pre2),
		mkStratum("flat-4: depth 1, arity<=4, full leaf alphabet", 1, 4, 0, [][]kind{fullLeaves}, sig3, preFull),
		mkStratum("deep-4-full: depth<=3, arity<=4, <=4 non-root nodes, full leaf alphabet", 3, 4, 4, [][]kind{fullLeaves}, sig3, pre2),
		mkStratum("deep-5-small: depth<=3, arity<=4, <=5 non-root nodes, small leaf alphabet", 3, 4, 5, [][]kind{smallLeafs}, sig2, pre2),
		mkStratum("deep-6-tiny: depth<=3, arity<=4, <=6 non-root nodes, tiny leaf alphabet", 3, 4, 6, [][]kind{tinyLeaves}, sig2, pre2),
	)
}

func run(c *vf.Ctx) {
	e, err := newEnv(c.Seed)
	if err != nil {
		c.HarnessError("%v", err)
		return
	}
	r := newRunner(c, e)
	defer debug.SetGCPercent(debug.SetGCPercent(200)) // allocation-heavy, tiny live heap

	// ---- build the job list
	var jobs []*job
	seen := map[string]bool{}
	countOnly := os.Getenv("C14_COUNT_ONLY") != ""
	add := func(t *node, sa, pa []uint8, si int) bool {
		k := t.String()
		if seen[k] {
			return false
		}
		seen[k] = true
		if countOnly {
			jobs = append(jobs[:0], newJob(t, sa, pa, si))
			return true
		}
		jobs = append(jobs, newJob(t, sa, pa, si))
		return true
	}
	type stInfo struct {
		Stratum     *stratum `json:"stratum"`
		Trees       int      `json:"trees_new"`
		Generated   int      `json:"trees_generated"`
		Evaluations int64    `json:"verify_evaluations_planned"`
		MaxDepth    int      `json:"max_depth_reached"`
		MaxNodes    int      `json:"max_nodes"`
	}
	var infos []*stInfo
	// stratum 0: non-threshold roots
	rootsInfo := &stInfo{Stratum: &stratum{Name: "roots: every leaf kind alone; every unlock conditions root (keys: lists of length 0..3 over {ed25519 k1, ed25519 k2, entropy, unknown algorithm}, m in 0..n+1, timelock in {0,h})",
		SigNames: alphaNames(sigFull, sigNames[:]), PreNames: alphaNames(preFull, preNames[:])}}
	infos = append(infos, rootsInfo)
	for _, k := range []kind{kAbove, kAfter, kPK1, kPK2, kH1, kH2, kOpaque} {
		add(leafNodes[k], sigFull, preFull, 0)
		rootsInfo.Evaluations += jobs[len(jobs)-1].cost
		rootsInfo.Trees++
		rootsInfo.Generated++
	}
	ucRoots(3, func(t *node) {
		rootsInfo.Generated++
		if add(t, sigFull, preFull, 0) {
			rootsInfo.Trees++
			rootsInfo.Evaluations += jobs[len(jobs)-1].cost
		}
	})
	sts := strata(c)
	for si, st := range sts {
		info := &stInfo{Stratum: st}
		infos = append(infos, info)
		st.roots(func(t *node) {
			info.Generated++
			if add(t, st.SigAlpha, st.PreAlpha, si+1) {
				info.Trees++
				j := jobs[len(jobs)-1]
				info.Evaluations += j.cost
				if d := t.depth(); d > info.MaxDepth {
					info.MaxDepth = d
				}
				if n := t.size(); n > info.MaxNodes {
					info.MaxNodes = n
				}
			}
		})
	}
	seen = nil
	var planned int64
	ntrees := 0
	for _, in := range infos {
		planned += in.Evaluations
		ntrees += in.Trees
	}
	c.Set("strata", infos)
	c.Set("trees_enumerated", ntrees)
	c.Set("verify_evaluations_planned", planned)
	if os.Getenv("C14_COUNT_ONLY") != "" {
		for _, in := range infos {
			fmt.Printf("%-90s trees=%8d (generated %8d) evals=%12d maxdepth=%d maxnodes=%d\n", in.Stratum.Name, in.Trees, in.Generated, in.Evaluations, in.MaxDepth, in.MaxNodes)
		}
		fmt.Printf("total trees=%d planned verify evaluations=%d\n", ntrees, planned)
		c.Count("evaluations", 1)
		c.Sample("count only")
		return
	}

	// ---- run: most expensive trees first for load balance
	order := make([]int, len(jobs))
	for i := range order {
		order[i] = i
	}
	sort.SliceStable(order, func(a, b int) bool { return jobs[order[a]].cost > jobs[order[b]].cost })
	var done, skipped atomic.Int64
	vf.ParallelFor(len(order), func(i int) {
		j := jobs[order[i]]
		if c.Expired() {
			skipped.Add(1)
			return
		}
		r.evalTree(j)
		done.Add(1)
	})
	c.Set("trees_completed", done.Load())
	if skipped.Load() > 0 {
		c.Set("trees_skipped_by_time_budget", skipped.Load())
	}
	c.Set("stated_space_completed", skipped.Load() == 0)
	for _, j := range jobs {
		c.Distinct("tree", j.tree.String())
	}

	// ---- Oracle 3 and 4
	r.limits()
	r.standard()
	r.lockSweep()

	r.flush()

	// ---- evidence
	c.Set("rule", "Every policy tree of each stratum listed under 'strata' (threshold-rooted trees: all shapes within the arity/depth/node bounds x all leaf labellings from the stratum's alphabet x every threshold count N in 0..arity+1; plus every leaf kind and every unlock-conditions variant as root; trees are deduplicated across strata by canonical text) x every signature list of length 0..(signature-consuming leaves+1) over the stratum's signature alphabet x every preimage list of length 0..(hash leaves+1) over the preimage alphabet x heights {h-1,h,h+1} (only for trees with above(h)/uc timelock h) x median times {t-1s,t,t+1s} (only for trees with after(t)). Each (tree, witness lists, height, time) tuple is one evaluation of the real Verify against RefPolicy; every accepting tuple additionally gets one evaluation per revealed sub-policy made opaque and one per witness bit-flip; every tree gets Address() compared with an independent derivation and with Address() of the tree with subsets of nodes replaced by PolicyOpaque (all subsets for <=8 non-root nodes, else all subsets of size <=2 and the set of all root children). Additionally (lock sweep) every ordered pair (lock value, supplied height) of a 19-value boundary set of uint64 (0 .. 2^64-1) and every ordered pair (lock instant, median) of a 14-value set of instants (years 0..9999) in four tree embeddings and as an unlock-conditions timelock. Distinct non-trivial = distinct trees + distinct accepting (tree, witnesses, height, time) tuples; all evaluated tuples are distinct by construction.")
	c.Set("lock_points", map[string]any{"h": e.h, "t_unix": e.t.Unix()})
	c.Set("outcomes", map[string]int64{"accepting": r.accepting.Load(), "rejecting": r.rejecting.Load(), "unspecified": r.unspecified.Load()})
	c.Set("reference_reject_reasons", r.reasons)
	c.Set("distinct_reference_outcomes", len(r.reasons)+2)
	c.NotExhaustive("relative to DESIGN C14 ('all trees of arity<=3, depth<=2 over the full alphabet' is ~1e11 trees): nested trees are enumerated exhaustively only within the node budgets / reduced alphabets listed under 'strata'; depth-1 trees and all root kinds are complete over the full alphabet")
	for si := 0; si <= len(sts); si++ {
		if v := r.accepted[si]; v != nil {
			c.Sample(*v)
		}
	}
	if r.unspec != nil {
		c.Sample(*r.unspec)
	}
	if len(jobs) > 0 {
		j := jobs[len(jobs)/2]
		v := vcase{Kind: "verify", Tree: j.tree, Sigs: syms{sV1}, HOff: 0, TOff: 0}
		ref, why := e.refVerify(j.tree, e.h, e.t.Unix(), v.Sigs, nil)
		v.Text, v.Expect = e.caseText(&v), ref.String()+":"+why
		c.Sample(v)
	}
	c.Assume("Ed25519 and SHA-256/BLAKE2b are trusted (standard library / x/crypto); signatures are treated symbolically by the reference: a signature symbol is valid for a key iff crypto/ed25519.Verify says so (table computed once per run)")
	c.Assume("keys, preimages, signature hash and lock values are derived from VERIF_SEED; the explored space does not depend on the seed (data independence)")
	c.Assume("unlock conditions that list an entropy key which never has to be examined are outside the statement: evaluated, counted as unspecified, not asserted")
	c.Assume("sub-second median timestamps are explored in the lock sweep only (half seconds); ed25519 unlock keys of a length other than 32 are explored only as the empty key and a 16-byte prefix (judged as the zero-padded key)")
	c.RequireFeature("accepting", "rejecting", "unspecified", "address_evaluations", "needed_child_made_opaque", "witness_corruptions",
		"uc_as_child_rejected", "surplus_witness_rejected", "limit_cases", "standard_address_cases")
}

func replay(c *vf.Ctx, raw json.RawMessage) {
	var v vcase
	if err := json.Unmarshal(raw, &v); err != nil {
		c.HarnessError("bad case: %v", err)
		return
	}
	e, err := newEnv(c.Seed)
	if err != nil {
		c.HarnessError("%v", err)
		return
	}
	r := newRunner(c, e)
	switch v.Kind {
	case "verify":
		if v.Tree == nil {
			c.HarnessError("verify case without tree")
			return
		}
		k := 0
		p := e.buildMasked(v.Tree, v.Mask, &k)
		if v.Mask != 0 {
			r.neededOpaque.Add(1)
			_, _, impl := r.verifyOnce(v.Tree, p, v.Mask, v.Sigs, v.Pres, v.HOff, v.TOff)
			if impl {
				r.violate("SpendPolicy.Verify|accepts-after-needed-subpolicy-made-opaque|root="+v.Tree.K.String(),
					"an accepting assignment still verifies after a revealed, counted sub-policy was replaced by its opaque form", v)
			}
		} else {
			r.verifyOnce(v.Tree, p, 0, v.Sigs, v.Pres, v.HOff, v.TOff)
		}
	case "address":
		if v.Tree == nil {
			c.HarnessError("address case without tree")
			return
		}
		r.addressOracle(v.Tree, e.build(v.Tree))
	case "limit":
		r.limits()
	case "lock":
		r.lockSweep()
	case "standard":
		r.standard()
	default:
		c.HarnessError("unknown case kind %q", v.Kind)
	}
	r.flush()
}
