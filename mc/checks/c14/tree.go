package c14

import (
	"fmt"
	"strings"

	"go.sia.tech/core/types"
)

// kind of a policy node in the harness' own tree description.
type kind uint8

const (
	kAbove  kind = iota // above(h)
	kAfter              // after(t)
	kPK1                // pk(k1)
	kPK2                // pk(k2)
	kH1                 // hash(sha256(p1))
	kH2                 // hash(sha256(p2))
	kOpaque             // opaque(address of pk(k1))
	kUC                 // legacy unlock conditions
	kThr                // threshold
)

var kindNames = [...]string{"above", "after", "pk1", "pk2", "h1", "h2", "opaque", "uc", "thr"}

func (k kind) String() string { return kindNames[k] }

// MarshalText implements encoding.TextMarshaler.
func (k kind) MarshalText() ([]byte, error) { return []byte(kindNames[k]), nil }

// UnmarshalText implements encoding.TextUnmarshaler.
func (k *kind) UnmarshalText(b []byte) error {
	for i, n := range kindNames {
		if n == string(b) {
			*k = kind(i)
			return nil
		}
	}
	return fmt.Errorf("unknown node kind %q", b)
}

// node is a policy tree. Nodes are immutable once built and may be shared
// between trees.
type node struct {
	K  kind    `json:"k"`
	N  int     `json:"n,omitempty"`  // threshold: required count
	Of []*node `json:"of,omitempty"` // threshold: children
	// unlock conditions
	TL   int      `json:"tl,omitempty"`   // 0: timelock 0, 1: timelock h
	Keys []string `json:"keys,omitempty"` // "e1","e2" (ed25519 k1/k2), "ent" (entropy), "unk" (unknown algorithm)
	M    int      `json:"m,omitempty"`    // signatures required
}

func (n *node) String() string {
	var sb strings.Builder
	n.write(&sb)
	return sb.String()
}

func (n *node) write(sb *strings.Builder) {
	switch n.K {
	case kThr:
		fmt.Fprintf(sb, "thr(%d;[", n.N)
		for i, c := range n.Of {
			if i > 0 {
				sb.WriteByte(',')
			}
			c.write(sb)
		}
		sb.WriteString("])")
	case kUC:
		tl := "0"
		if n.TL == 1 {
			tl = "h"
		}
		fmt.Fprintf(sb, "uc(tl=%s;[%s];m=%d)", tl, strings.Join(n.Keys, ","), n.M)
	default:
		sb.WriteString(kindNames[n.K])
	}
}

// size is the number of nodes of the tree including n.
func (n *node) size() int {
	s := 1
	for _, c := range n.Of {
		s += c.size()
	}
	return s
}

// depth: a leaf (or uc) is 0, a threshold is 1 + max depth of its children
// (an empty threshold is 1).
func (n *node) depth() int {
	if n.K != kThr {
		return 0
	}
	d := 0
	for _, c := range n.Of {
		if cd := c.depth(); cd > d {
			d = cd
		}
	}
	return d + 1
}

// features of a tree relevant to the witness space.
type feat struct {
	sigLeaves, hashLeaves int
	above, after          bool
	ucChild               bool
	thresholds            int
}

func (n *node) features(f *feat) {
	switch n.K {
	case kAbove:
		f.above = true
	case kAfter:
		f.after = true
	case kPK1, kPK2:
		f.sigLeaves++
	case kH1, kH2:
		f.hashLeaves++
	case kUC:
		f.sigLeaves += len(n.Keys)
		if n.TL == 1 {
			f.above = true
		}
	case kThr:
		f.thresholds++
		for _, c := range n.Of {
			if c.K == kUC {
				f.ucChild = true
			}
			c.features(f)
		}
	}
}

// build turns a tree into the real policy type.
func (e *env) build(n *node) types.SpendPolicy {
	switch n.K {
	case kAbove:
		return types.PolicyAbove(e.h)
	case kAfter:
		return types.PolicyAfter(e.t)
	case kPK1:
		return types.PolicyPublicKey(e.pk[0])
	case kPK2:
		return types.PolicyPublicKey(e.pk[1])
	case kH1:
		return types.PolicyHash(e.hash[0])
	case kH2:
		return types.PolicyHash(e.hash[1])
	case kOpaque:
		return types.SpendPolicy{Type: types.PolicyTypeOpaque(e.opaqueAddr)}
	case kUC:
		return types.SpendPolicy{Type: types.PolicyTypeUnlockConditions(e.buildUC(n))}
	case kThr:
		var of []types.SpendPolicy
		if n.Of != nil {
			of = make([]types.SpendPolicy, len(n.Of))
			for i, c := range n.Of {
				of[i] = e.build(c)
			}
		}
		return types.PolicyThreshold(uint8(n.N), of)
	}
	panic("bad node kind")
}

func (e *env) buildUC(n *node) types.UnlockConditions {
	uc := types.UnlockConditions{SignaturesRequired: uint64(n.M)}
	if n.TL == 1 {
		uc.Timelock = e.h
	}
	for _, k := range n.Keys {
		uc.PublicKeys = append(uc.PublicKeys, e.unlockKey(k))
	}
	return uc
}

func (e *env) unlockKey(k string) types.UnlockKey {
	// NOTE: the entropy and unknown-algorithm keys carry the bytes of k1, so
	// that an implementation treating them as Ed25519 keys would be seen
	// accepting exactly the k1 signature.
	switch k {
	case "e1":
		return types.UnlockKey{Algorithm: types.SpecifierEd25519, Key: append([]byte(nil), e.pk[0][:]...)}
	case "e2":
		return types.UnlockKey{Algorithm: types.SpecifierEd25519, Key: append([]byte(nil), e.pk[1][:]...)}
	case "e1s": // an ed25519 key of 0 bytes (legal to build, encode and hash; nobody can sign for it)
		return types.UnlockKey{Algorithm: types.SpecifierEd25519, Key: []byte{}}
	case "e1p": // an ed25519 key that is only the first 16 bytes of k1
		return types.UnlockKey{Algorithm: types.SpecifierEd25519, Key: append([]byte(nil), e.pk[0][:16]...)}
	case "ent":
		return types.UnlockKey{Algorithm: types.SpecifierEntropy, Key: append([]byte(nil), e.pk[0][:]...)}
	case "unk":
		return types.UnlockKey{Algorithm: types.NewSpecifier("verif-unknown"), Key: append([]byte(nil), e.pk[0][:]...)}
	}
	panic("bad key kind " + k)
}

// buildMasked builds the policy with the non-root nodes selected by mask
// (pre-order numbering of non-root nodes, bit i = node i) replaced by
// types.PolicyOpaque(node). idx must point at 0 for the root call.
func (e *env) buildMasked(n *node, mask uint64, idx *int) types.SpendPolicy {
	if n.K != kThr {
		return e.build(n)
	}
	var of []types.SpendPolicy
	if n.Of != nil {
		of = make([]types.SpendPolicy, len(n.Of))
	}
	for i, c := range n.Of {
		my := *idx
		*idx++
		if mask>>uint(my)&1 == 1 {
			of[i] = types.PolicyOpaque(e.build(c))
			*idx += c.size() - 1
		} else {
			of[i] = e.buildMasked(c, mask, idx)
		}
	}
	return types.PolicyThreshold(uint8(n.N), of)
}

// applyMask is the harness-side counterpart of buildMasked: hidden nodes become
// opaque leaves of the description tree.
func applyMask(n *node, mask uint64, idx *int) *node {
	if n.K != kThr {
		return n
	}
	out := &node{K: kThr, N: n.N}
	if n.Of != nil {
		out.Of = make([]*node, len(n.Of))
	}
	for i, c := range n.Of {
		my := *idx
		*idx++
		if mask>>uint(my)&1 == 1 {
			out.Of[i] = &node{K: kOpaque}
			*idx += c.size() - 1
		} else {
			out.Of[i] = applyMask(c, mask, idx)
		}
	}
	return out
}

// revealedNodes lists the pre-order indices (non-root numbering) of nodes that
// are reachable without passing an opaque leaf and are not opaque themselves.
func revealedNodes(n *node, idx *int, out *[]int) {
	for _, c := range n.Of {
		my := *idx
		*idx++
		if c.K == kOpaque {
			continue
		}
		*out = append(*out, my)
		if c.K == kThr {
			revealedNodes(c, idx, out)
		}
	}
}

// ---------------------------------------------------------------------------
// enumeration

// A stratum is one exhaustively enumerated family of threshold-rooted trees:
// every tree whose thresholds have at most arityMax children, whose nesting
// depth is at most depthMax, whose number of non-root nodes is at most
// nodeBudget, whose leaves at nesting level L (children of the root are level
// 1) are drawn from leaves[min(L, len(leaves))-1], with every threshold count
// N in 0..arity+1.
type stratum struct {
	Name       string   `json:"name"`
	DepthMax   int      `json:"depth_max"`
	ArityMax   int      `json:"arity_max"`
	NodeBudget int      `json:"node_budget"` // non-root nodes; 0 = unbounded
	Leaves     [][]kind `json:"-"`
	LeafNames  []string `json:"leaf_alphabet_by_level"`
	SigAlpha   []uint8  `json:"-"`
	PreAlpha   []uint8  `json:"-"`
	SigNames   string   `json:"signature_alphabet"`
	PreNames   string   `json:"preimage_alphabet"`
}

type sized struct {
	n    *node
	size int
}

type gen struct {
	st   *stratum
	memo map[[2]int][]sized
}

func (g *gen) leavesAt(level int) []kind {
	i := level
	if i > len(g.st.Leaves) {
		i = len(g.st.Leaves)
	}
	return g.st.Leaves[i-1]
}

// nodesAt returns every subtree that can stand at the given level with at most
// budget nodes.
func (g *gen) nodesAt(level, budget int) []sized {
	if budget <= 0 {
		return nil
	}
	key := [2]int{level, budget}
	if r, ok := g.memo[key]; ok {
		return r
	}
	var out []sized
	for _, k := range g.leavesAt(level) {
		if k == kUC {
			out = append(out, sized{ucChildNode, 1})
		} else {
			out = append(out, sized{leafNodes[k], 1})
		}
	}
	if level < g.st.DepthMax {
		g.seqs(level+1, g.st.ArityMax, budget-1, nil, 0, func(ch []*node, sz int) {
			for N := 0; N <= len(ch)+1; N++ {
				out = append(out, sized{&node{K: kThr, N: N, Of: append([]*node(nil), ch...)}, sz + 1})
			}
		})
	}
	g.memo[key] = out
	return out
}

// seqs calls f for every sequence of at most k nodes at the given level whose
// total size is at most budget.
func (g *gen) seqs(level, k, budget int, prefix []*node, used int, f func([]*node, int)) {
	f(prefix, used)
	if k == 0 || budget <= 0 {
		return
	}
	for _, s := range g.nodesAt(level, budget) {
		g.seqs(level, k-1, budget-s.size, append(prefix, s.n), used+s.size, f)
	}
}

var leafNodes = func() (m [kThr]*node) {
	for k := kAbove; k < kThr; k++ {
		m[k] = &node{K: k}
	}
	return
}()

// the unlock conditions used where uc is (illegally) a threshold child:
// 1-of-1 ed25519(k1), no timelock — satisfiable if it were at the root.
var ucChildNode = &node{K: kUC, Keys: []string{"e1"}, M: 1}

// roots enumerates every threshold-rooted tree of the stratum.
func (st *stratum) roots(f func(*node)) {
	g := &gen{st: st, memo: map[[2]int][]sized{}}
	budget := st.NodeBudget
	if budget == 0 {
		budget = 1 << 20
	}
	g.seqs(1, st.ArityMax, budget, nil, 0, func(ch []*node, sz int) {
		for N := 0; N <= len(ch)+1; N++ {
			f(&node{K: kThr, N: N, Of: append([]*node(nil), ch...)})
		}
	})
}

// ucRoots enumerates every unlock-conditions root: key lists of length 0..nMax
// over {e1,e2,ent,unk}, m in 0..n+1, timelock in {0,h}.
func ucRoots(nMax int, f func(*node)) {
	kinds := []string{"e1", "e2", "ent", "unk", "e1s", "e1p"}
	var rec func(keys []string)
	rec = func(keys []string) {
		for m := 0; m <= len(keys)+1; m++ {
			for tl := 0; tl <= 1; tl++ {
				f(&node{K: kUC, TL: tl, Keys: append([]string(nil), keys...), M: m})
			}
		}
		if len(keys) == nMax {
			return
		}
		for _, k := range kinds {
			rec(append(keys, k))
		}
	}
	rec(nil)
}

func geomSum(base, maxLen int) int64 {
	var s, p int64 = 0, 1
	for l := 0; l <= maxLen; l++ {
		s += p
		p *= int64(base)
	}
	return s
}
