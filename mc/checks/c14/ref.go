package c14

import (
	"encoding/binary"

	"golang.org/x/crypto/blake2b"
)

// ---------------------------------------------------------------------------
// RefPolicy: the meaning of a satisfied policy, written from the statement of
// C14. It works on symbols (which key signed what, which preimage) using the
// tables of env, so it never touches the code under test.

type verdict uint8

const (
	vReject verdict = iota
	vAccept
	vUnspecified
)

func (v verdict) String() string { return [...]string{"reject", "accept", "unspecified"}[v] }

// reasons (only used to label violation signatures and histograms)
const (
	rOK            = "ok"
	rHeight        = "height-below-lock"
	rTime          = "median-not-after-lock"
	rNoSig         = "signature-missing"
	rBadSig        = "signature-invalid"
	rNoPre         = "preimage-missing"
	rBadPre        = "preimage-wrong"
	rOpaque        = "opaque-not-satisfiable"
	rCount         = "threshold-revealed-count-differs-from-n"
	rUCChild       = "unlock-conditions-as-sub-policy"
	rArity         = "more-than-255-children"
	rSurplusSig    = "signature-left-over"
	rSurplusPre    = "preimage-left-over"
	rUCTimelock    = "uc-height-below-timelock"
	rUCTooMany     = "uc-requires-more-keys-than-listed"
	rUCFew         = "uc-fewer-signatures-than-required"
	rUCMismatch    = "uc-signatures-do-not-match-distinct-listed-keys-in-order"
	rUCEntropy     = "uc-entropy-key-has-to-be-examined"
	rUCUnspecified = "uc-entropy-key-listed-but-never-examined"
)

// refEval evaluates one node: does it hold, and which witnesses remain. When
// ok is false the remaining witnesses are meaningless (a failing revealed
// sub-policy makes the whole policy fail).
func (e *env) refEval(n *node, height uint64, medianUnix int64, sigs, pres []uint8) (ok bool, restSigs, restPres []uint8, reason string) {
	switch n.K {
	case kAbove:
		// above(h): the supplied height has reached h
		if height >= e.h {
			return true, sigs, pres, rOK
		}
		return false, nil, nil, rHeight
	case kAfter:
		// after(t): the median timestamp is strictly later than t
		if medianUnix > e.t.Unix() {
			return true, sigs, pres, rOK
		}
		return false, nil, nil, rTime
	case kPK1, kPK2:
		// consumes the next signature, which must be valid for this key
		if len(sigs) == 0 {
			return false, nil, nil, rNoSig
		}
		if !e.sigValid[n.K-kPK1][sigs[0]] {
			return false, nil, nil, rBadSig
		}
		return true, sigs[1:], pres, rOK
	case kH1, kH2:
		// consumes the next preimage, whose SHA-256 must be the committed hash
		if len(pres) == 0 {
			return false, nil, nil, rNoPre
		}
		if !e.preValid[n.K-kH1][pres[0]] {
			return false, nil, nil, rBadPre
		}
		return true, sigs, pres[1:], rOK
	case kOpaque:
		return false, nil, nil, rOpaque
	case kUC:
		// only meaningful at the root (refVerify); anywhere else it is illegal
		return false, nil, nil, rUCChild
	case kThr:
		if len(n.Of) > 255 {
			return false, nil, nil, rArity
		}
		revealed := 0
		for _, c := range n.Of {
			if c.K == kUC {
				return false, nil, nil, rUCChild
			}
			if c.K != kOpaque {
				revealed++
			}
		}
		// exactly N revealed sub-policies, all others opaque
		if revealed != n.N {
			return false, nil, nil, rCount
		}
		// ... and every revealed one holds, consuming witnesses in order
		for _, c := range n.Of {
			if c.K == kOpaque {
				continue
			}
			var cok bool
			var why string
			cok, sigs, pres, why = e.refEval(c, height, medianUnix, sigs, pres)
			if !cok {
				return false, nil, nil, why
			}
		}
		return true, sigs, pres, rOK
	}
	panic("bad node kind")
}

// refVerify is the meaning of SpendPolicy.Verify == nil.
func (e *env) refVerify(root *node, height uint64, medianUnix int64, sigs, pres []uint8) (verdict, string) {
	if root.K == kUC {
		return e.refUC(root, height, sigs, pres)
	}
	ok, rs, rp, why := e.refEval(root, height, medianUnix, sigs, pres)
	if !ok {
		return vReject, why
	}
	if len(rs) > 0 {
		return vReject, rSurplusSig
	}
	if len(rp) > 0 {
		return vReject, rSurplusPre
	}
	return vAccept, rOK
}

// refUC: legacy unlock conditions (root only). The height must have reached
// the timelock; exactly m signatures are supplied (fewer cannot reach the
// count, more would be left over); there must be m DISTINCT listed keys
// i1 < ... < im (signatures are in key order) such that signature j is
// acceptable for key ij — an ed25519 key accepts a valid signature, a key of an
// unknown algorithm accepts any signature, an entropy key accepts nothing.
// Entropy keys additionally make the conditions unusable when one has to be
// examined, i.e. when every possible assignment has an entropy key listed
// before its last key. When an entropy key is listed but some assignment never
// has to look at it the statement is silent: unspecified.
func (e *env) refUC(n *node, height uint64, sigs, pres []uint8) (verdict, string) {
	if n.TL == 1 && height < e.h {
		return vReject, rUCTimelock
	}
	if len(pres) > 0 {
		return vReject, rSurplusPre
	}
	if n.M > len(n.Keys) {
		return vReject, rUCTooMany
	}
	if len(sigs) < n.M {
		return vReject, rUCFew
	}
	if len(sigs) > n.M {
		return vReject, rSurplusSig
	}
	accepts := func(key string, sig uint8) bool {
		switch key {
		case "e1":
			return e.sigValid[0][sig]
		case "e2":
			return e.sigValid[1][sig]
		case "unk":
			return true
		case "e1s", "e1p":
			return e.shortValid[key][sig]
		}
		return false // entropy
	}
	anyEntropy := false
	for _, k := range n.Keys {
		if k == "ent" {
			anyEntropy = true
		}
	}
	// brute force over all increasing index tuples of length m
	found, foundClean := false, false
	idx := make([]int, n.M)
	var rec func(j, from int)
	rec = func(j, from int) {
		if j == n.M {
			found = true
			clean := true
			if n.M > 0 {
				for i := 0; i < idx[n.M-1]; i++ {
					if n.Keys[i] == "ent" {
						clean = false
					}
				}
			}
			if clean {
				foundClean = true
			}
			return
		}
		for i := from; i < len(n.Keys); i++ {
			if accepts(n.Keys[i], sigs[j]) {
				idx[j] = i
				rec(j+1, i+1)
			}
		}
	}
	rec(0, 0)
	switch {
	case !found:
		return vReject, rUCMismatch
	case !anyEntropy:
		return vAccept, rOK
	case foundClean:
		return vUnspecified, rUCUnspecified
	default:
		return vReject, rUCEntropy
	}
}

// ---------------------------------------------------------------------------
// RefAddress: independent derivation of the address commitment.
//   uc:        Merkle root of (timelock, keys..., signatures required)
//   otherwise: BLAKE2b-256("sia/address|" ‖ 0x01 ‖ opcode form), where the
//              children of a threshold are committed by their opaque form
//              (0x06 ‖ address of the child).

func b2(parts ...[]byte) [32]byte {
	h, _ := blake2b.New256(nil)
	for _, p := range parts {
		h.Write(p)
	}
	var out [32]byte
	h.Sum(out[:0])
	return out
}

func le64(v uint64) []byte {
	var b [8]byte
	binary.LittleEndian.PutUint64(b[:], v)
	return b[:]
}

func (e *env) refAddress(n *node) [32]byte {
	if n.K == kUC {
		var tl uint64
		if n.TL == 1 {
			tl = e.h
		}
		var keys [][2][]byte
		for _, k := range n.Keys {
			uk := e.unlockKey(k)
			keys = append(keys, [2][]byte{uk.Algorithm[:], uk.Key})
		}
		return refUnlockHash(tl, keys, uint64(n.M))
	}
	return b2([]byte("sia/address|"), []byte{1}, e.refEncode(n, true))
}

// refEncode is the opcode form of a policy; when top is set the children of a
// threshold are replaced by their opaque form.
func (e *env) refEncode(n *node, top bool) []byte {
	switch n.K {
	case kAbove:
		return append([]byte{1}, le64(e.h)...)
	case kAfter:
		return append([]byte{2}, le64(uint64(e.t.Unix()))...)
	case kPK1, kPK2:
		return append([]byte{3}, e.pk[n.K-kPK1][:]...)
	case kH1, kH2:
		return append([]byte{4}, e.hash[n.K-kH1][:]...)
	case kOpaque:
		return append([]byte{6}, e.opaqueAddr[:]...)
	case kThr:
		out := []byte{5, byte(n.N), byte(len(n.Of))}
		for _, c := range n.Of {
			if top {
				if c.K == kOpaque {
					out = append(out, e.refEncode(c, false)...)
				} else {
					a := e.refAddress(c)
					out = append(out, 6)
					out = append(out, a[:]...)
				}
			} else {
				out = append(out, e.refEncode(c, false)...)
			}
		}
		return out
	case kUC:
		uc := e.buildUC(n)
		out := append([]byte{7}, le64(uc.Timelock)...)
		out = append(out, le64(uint64(len(uc.PublicKeys)))...)
		for _, k := range uc.PublicKeys {
			out = append(out, k.Algorithm[:]...)
			out = append(out, le64(uint64(len(k.Key)))...)
			out = append(out, k.Key...)
		}
		return append(out, le64(uc.SignaturesRequired)...)
	}
	panic("bad node kind")
}

// refUnlockHash: naive v1 unlock-conditions Merkle root. Leaves are
// H(0x00 ‖ data) for data = LE64(timelock), each key as
// (16-byte algorithm ‖ LE64(len key) ‖ key), LE64(signatures required);
// interior nodes H(0x01 ‖ left ‖ right); an unbalanced list splits at the
// largest power of two smaller than its length (RFC 6962).
func refUnlockHash(timelock uint64, keys [][2][]byte, sigsRequired uint64) [32]byte {
	var leaves [][32]byte
	leaves = append(leaves, b2([]byte{0}, le64(timelock)))
	for _, k := range keys {
		leaves = append(leaves, b2([]byte{0}, k[0], le64(uint64(len(k[1]))), k[1]))
	}
	leaves = append(leaves, b2([]byte{0}, le64(sigsRequired)))
	return refMerkle(leaves)
}

func refMerkle(leaves [][32]byte) [32]byte {
	if len(leaves) == 1 {
		return leaves[0]
	}
	k := 1
	for k*2 < len(leaves) {
		k *= 2
	}
	l, r := refMerkle(leaves[:k]), refMerkle(leaves[k:])
	return b2([]byte{1}, l[:], r[:])
}
