package c14

import (
	"crypto/ed25519"
	"fmt"
	"time"

	"go.sia.tech/core/types"
	"verifmc/vf"
)

// specification constants of Oracle 3 (DESIGN C14: 255 children, 1024
// sub-policies, decode depth 32)
const (
	specMaxChildren    = 255
	specMaxSubPolicies = 1024
	specMaxDecodeDepth = 32 // deepest node of a decodable policy (root = level 0)
)

func always() types.SpendPolicy { return types.PolicyAbove(0) }

func allOf(children []types.SpendPolicy) types.SpendPolicy {
	return types.PolicyThreshold(uint8(len(children)), children)
}

func repeat(p types.SpendPolicy, n int) []types.SpendPolicy {
	out := make([]types.SpendPolicy, n)
	for i := range out {
		out[i] = p
	}
	return out
}

// limits is Oracle 3: complexity limits reject at limit+1, do not reject at the
// limit, and always terminate with an error value (no panic).
func (r *runner) limits() {
	e := r.e
	cases := r.c.Counter("limit_cases")
	opaque := types.SpendPolicy{Type: types.PolicyTypeOpaque(e.opaqueAddr)}
	verifyCase := func(name string, p types.SpendPolicy, wantAccept bool) {
		cases.Add(1)
		r.evals.Add(1)
		var err error
		pv, _ := vf.Try(func() { err = p.Verify(0, time.Unix(0, 0), e.sigHash, nil, nil) })
		if pv != nil {
			r.violate("SpendPolicy.Verify|panic|complexity:"+name, fmt.Sprintf("Verify panicked on %s: %v", name, pv), vcase{Kind: "limit", Name: name})
			return
		}
		if (err == nil) != wantAccept {
			cls := "rejects-policy-at-complexity-limit"
			if !wantAccept {
				cls = "accepts-policy-beyond-complexity-limit"
			}
			r.violate("SpendPolicy.Verify|"+cls+"|"+name, fmt.Sprintf("%s: Verify error = %v, expected accept=%v", name, err, wantAccept),
				vcase{Kind: "limit", Name: name, Expect: fmt.Sprint(wantAccept), Got: fmt.Sprint(err == nil)})
		}
	}
	// (a) children of one threshold: 255 vs 256
	verifyCase("255-revealed-children", allOf(repeat(always(), specMaxChildren)), true)
	verifyCase("255-opaque-children", types.PolicyThreshold(0, repeat(opaque, specMaxChildren)), true)
	verifyCase("256-opaque-children", types.PolicyThreshold(0, repeat(opaque, specMaxChildren+1)), false)
	verifyCase("1-revealed-254-opaque-children", types.PolicyThreshold(1, append([]types.SpendPolicy{always()}, repeat(opaque, specMaxChildren-1)...)), true)
	verifyCase("1-revealed-255-opaque-children", types.PolicyThreshold(1, append([]types.SpendPolicy{always()}, repeat(opaque, specMaxChildren)...)), false)
	verifyCase("255-opaque-1-revealed-children", types.PolicyThreshold(1, append(repeat(opaque, specMaxChildren), always())), false)
	// (b) total sub-policies: 1024 vs 1025
	full := allOf(repeat(always(), 255))
	verifyCase("total-1024:4x255+4", allOf(repeat(full, 4)), true)
	verifyCase("total-1025:4x255+5", allOf(append(repeat(full, 4), always())), false)
	verifyCase("total-1025:leaf-first", allOf(append([]types.SpendPolicy{always()}, repeat(full, 4)...)), false)
	chain := func(n int) types.SpendPolicy { // n sub-policies in a chain of single-child thresholds
		p := always()
		for i := 0; i < n; i++ {
			p = allOf([]types.SpendPolicy{p})
		}
		return p
	}
	verifyCase("total-1024:chain", chain(specMaxSubPolicies), true)
	verifyCase("total-1025:chain", chain(specMaxSubPolicies+1), false)
	wide := func(extra int) types.SpendPolicy { // 255 + 3*255 + extra
		ch := repeat(full, 3)
		ch = append(ch, allOf(repeat(always(), extra)))
		ch = append(ch, repeat(always(), 255-4)...)
		return allOf(ch)
	}
	verifyCase("total-1024:255+3x255+4", wide(4), true)
	verifyCase("total-1025:255+3x255+5", wide(5), false)
	allOpaque := types.PolicyThreshold(0, repeat(opaque, 255))
	verifyCase("total-1024:opaque-leaves", allOf(repeat(allOpaque, 4)), true)
	verifyCase("total-1025:opaque-leaves", types.PolicyThreshold(4, append(repeat(allOpaque, 4), opaque)), false)
	// sanity of the shapes themselves: the same shapes well below the limit accept
	verifyCase("total-small:2x255+2", allOf(repeat(full, 2)), true)

	// (c) binary decoding: nesting depth at the limit vs beyond
	encodeChain := func(depth int, emptyInner bool) []byte {
		// version, then `depth` single-child thresholds (levels 0..depth-1),
		// then at level `depth` a leaf above(0) or, with emptyInner, an empty
		// threshold
		buf := []byte{1}
		for i := 0; i < depth; i++ {
			buf = append(buf, 5, 1, 1)
		}
		if emptyInner {
			return append(buf, 5, 0, 0)
		}
		return append(append(buf, 1), le64(0)...)
	}
	decodeCase := func(depth int, emptyInner bool, wantOK bool) {
		name := fmt.Sprintf("decode-depth-%d", depth)
		if emptyInner {
			name += "-empty-threshold"
		}
		cases.Add(1)
		r.evals.Add(1)
		buf := encodeChain(depth, emptyInner)
		var p types.SpendPolicy
		var err error
		pv, _ := vf.Try(func() {
			d := types.NewBufDecoder(buf)
			p.DecodeFrom(d)
			err = d.Err()
		})
		if pv != nil {
			r.violate("SpendPolicy.DecodeFrom|panic|nesting", fmt.Sprintf("%s: decoder panicked: %v", name, pv), vcase{Kind: "limit", Name: name})
			return
		}
		if (err == nil) != wantOK {
			cls := "rejects-nesting-at-limit"
			if !wantOK {
				cls = "accepts-nesting-beyond-limit"
			}
			r.violate("SpendPolicy.DecodeFrom|"+cls, fmt.Sprintf("%s: decode error = %v, expected ok=%v (limit: deepest node at level %d)", name, err, wantOK, specMaxDecodeDepth),
				vcase{Kind: "limit", Name: name, Expect: fmt.Sprint(wantOK), Got: fmt.Sprint(err == nil)})
			return
		}
		if err != nil {
			return
		}
		// decoded at/below the limit: must be the policy that was encoded, and usable
		want := always()
		if emptyInner {
			want = types.PolicyThreshold(0, nil)
		}
		for i := 0; i < depth; i++ {
			want = types.PolicyThreshold(1, []types.SpendPolicy{want})
		}
		var verr error
		var a1, a2 types.Address
		pv, _ = vf.Try(func() {
			verr = p.Verify(0, time.Unix(0, 0), e.sigHash, nil, nil)
			a1, a2 = p.Address(), want.Address()
		})
		if pv != nil {
			r.violate("SpendPolicy.Verify|panic|decoded-nesting", fmt.Sprintf("%s: Verify/Address panicked on the decoded policy: %v", name, pv), vcase{Kind: "limit", Name: name})
			return
		}
		if p.String() != want.String() || a1 != a2 {
			r.violate("SpendPolicy.DecodeFrom|decodes-different-policy|nesting", fmt.Sprintf("%s: decoded %.80s..., encoded %.80s...", name, p.String(), want.String()), vcase{Kind: "limit", Name: name})
		}
		// a chain of thresholds requiring 1 of 1 down to above(0) holds; one
		// ending in an empty threshold with N=0 holds as well
		if verr != nil {
			r.violate("SpendPolicy.Verify|rejects-satisfied-policy|decoded-nesting", fmt.Sprintf("%s: Verify = %v on a satisfied chain", name, verr), vcase{Kind: "limit", Name: name})
		}
	}
	for _, d := range []int{0, 1, 2, specMaxDecodeDepth - 1, specMaxDecodeDepth} {
		decodeCase(d, false, true)
		decodeCase(d, true, true)
	}
	for _, d := range []int{specMaxDecodeDepth + 1, specMaxDecodeDepth + 2, 64, 255, 1000, 100000} {
		decodeCase(d, false, false)
		decodeCase(d, true, false)
	}
}

// standard is Oracle 4: the precomputed fast paths equal the generic
// derivations and the independent ones.
func (r *runner) standard() {
	e := r.e
	cases := r.c.Counter("standard_address_cases")
	var ed [16]byte
	copy(ed[:], "ed25519")
	bad := func(name, what string, i int) {
		r.violate("types."+name+"|differs-from-generic-derivation", fmt.Sprintf("key #%d: %s", i, what), vcase{Kind: "standard", Name: fmt.Sprintf("%s key %d", name, i)})
	}
	for i := 0; i < 64; i++ {
		s := derive(e.seed, "stdkey", i)
		var pk types.PublicKey
		copy(pk[:], ed25519.NewKeyFromSeed(s[:]).Public().(ed25519.PublicKey))
		if i == 0 {
			pk = types.PublicKey{} // the zero key as a corner
		}
		cases.Add(1)
		r.evals.Add(1)
		pv, _ := vf.Try(func() {
			refA := types.Address(b2([]byte("sia/address|"), []byte{1, 3}, pk[:]))
			if a, b := types.StandardAddress(pk), types.PolicyPublicKey(pk).Address(); a != b || a != refA {
				bad("StandardAddress", fmt.Sprintf("StandardAddress=%v PolicyPublicKey.Address=%v independent=%v", a, b, refA), i)
			}
			refU := types.Address(refUnlockHash(0, [][2][]byte{{ed[:], pk[:]}}, 1))
			uc := types.StandardUnlockConditions(pk)
			a := types.StandardUnlockHash(pk)
			b := uc.UnlockHash()
			c := types.SpendPolicy{Type: types.PolicyTypeUnlockConditions(uc)}.Address()
			if a != b || a != c || a != refU {
				bad("StandardUnlockHash", fmt.Sprintf("StandardUnlockHash=%v UnlockHash=%v policy Address=%v independent Merkle root=%v", a, b, c, refU), i)
			}
		})
		if pv != nil {
			r.violate("types.StandardAddress|panic", fmt.Sprintf("key #%d: %v", i, pv), vcase{Kind: "standard"})
		}
	}
	// unlock conditions around the fast path of UnlockHash and over all small
	// Merkle shapes: UnlockHash == policy Address == independent root
	type ucCase struct {
		name string
		uc   types.UnlockConditions
	}
	k := func(alg string, key []byte) types.UnlockKey {
		return types.UnlockKey{Algorithm: types.NewSpecifier(alg), Key: key}
	}
	pk := e.pk[0][:]
	var ucs []ucCase
	ucs = append(ucs,
		ucCase{"standard", types.UnlockConditions{PublicKeys: []types.UnlockKey{k("ed25519", pk)}, SignaturesRequired: 1}},
		ucCase{"timelock-1", types.UnlockConditions{Timelock: 1, PublicKeys: []types.UnlockKey{k("ed25519", pk)}, SignaturesRequired: 1}},
		ucCase{"required-0", types.UnlockConditions{PublicKeys: []types.UnlockKey{k("ed25519", pk)}, SignaturesRequired: 0}},
		ucCase{"required-2", types.UnlockConditions{PublicKeys: []types.UnlockKey{k("ed25519", pk)}, SignaturesRequired: 2}},
		ucCase{"required-2^32+1", types.UnlockConditions{PublicKeys: []types.UnlockKey{k("ed25519", pk)}, SignaturesRequired: 1<<32 + 1}},
		ucCase{"key-31-bytes", types.UnlockConditions{PublicKeys: []types.UnlockKey{k("ed25519", pk[:31])}, SignaturesRequired: 1}},
		ucCase{"key-33-bytes", types.UnlockConditions{PublicKeys: []types.UnlockKey{k("ed25519", append(append([]byte(nil), pk...), 7))}, SignaturesRequired: 1}},
		ucCase{"key-empty", types.UnlockConditions{PublicKeys: []types.UnlockKey{k("ed25519", nil)}, SignaturesRequired: 1}},
		ucCase{"entropy", types.UnlockConditions{PublicKeys: []types.UnlockKey{k("entropy", pk)}, SignaturesRequired: 1}},
		ucCase{"unknown", types.UnlockConditions{PublicKeys: []types.UnlockKey{k("verif-unknown", pk)}, SignaturesRequired: 1}},
		ucCase{"no-keys", types.UnlockConditions{SignaturesRequired: 1}},
		ucCase{"empty", types.UnlockConditions{}},
	)
	for n := 2; n <= 9; n++ {
		var keys []types.UnlockKey
		for i := 0; i < n; i++ {
			s := derive(e.seed, "mkey", i)
			keys = append(keys, k([]string{"ed25519", "entropy", "verif-unknown"}[i%3], s[:16+i]))
		}
		ucs = append(ucs, ucCase{fmt.Sprintf("%d-keys", n), types.UnlockConditions{Timelock: uint64(n), PublicKeys: keys, SignaturesRequired: uint64(n - 1)}})
	}
	for _, u := range ucs {
		cases.Add(1)
		r.evals.Add(1)
		var keys [][2][]byte
		for i := range u.uc.PublicKeys {
			keys = append(keys, [2][]byte{u.uc.PublicKeys[i].Algorithm[:], u.uc.PublicKeys[i].Key})
		}
		want := types.Address(refUnlockHash(u.uc.Timelock, keys, u.uc.SignaturesRequired))
		pv, _ := vf.Try(func() {
			a, b := u.uc.UnlockHash(), types.SpendPolicy{Type: types.PolicyTypeUnlockConditions(u.uc)}.Address()
			if a != want || b != want {
				r.violate("types.UnlockConditions.UnlockHash|differs-from-independent-merkle-root|"+u.name,
					fmt.Sprintf("%s: UnlockHash=%v policy Address=%v independent Merkle root=%v", u.name, a, b, want), vcase{Kind: "standard", Name: u.name})
			}
		})
		if pv != nil {
			r.violate("types.UnlockConditions.UnlockHash|panic|"+u.name, fmt.Sprint(pv), vcase{Kind: "standard", Name: u.name})
		}
	}
}
