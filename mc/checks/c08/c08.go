// Package c08: height- and time-dependent rules flip exactly at their
// boundaries. For every rule, every network configuration (maturity delay x
// allow/require placement) and every probe height in a window around the bound
// the otherwise-valid transaction is submitted to the real ValidateBlock and the
// verdict compared, in both directions, with an independent rule table.
package c08

import (
	"math"
	"encoding/json"
	"fmt"
	"sort"
	"time"

	"go.sia.tech/core/types"
	"verifmc/chain"
	"verifmc/spec"
	"verifmc/vf"
)

func init() {
	vf.Register(&vf.Check{ID: "C08", Level: "model_checking", Run: run, Replay: replay})
}

type probeCase struct {
	Net    chain.NetSpec `json:"network"`
	Rule   string        `json:"rule"`
	Create uint64        `json:"created_at"`
	Bound  int64         `json:"bound_parameter"`
	Height uint64        `json:"probe_height"`
	Want   bool          `json:"want_accept"`
	Seed   int64         `json:"seed"`
}

// planned timestamp deltas (irregular but never below the median rule)
func delta(n chain.NetSpec, h uint64) time.Duration {
	switch h % 4 {
	case 0:
		return n.Interval
	case 1:
		return time.Second
	case 2:
		return n.Interval / 3
	}
	return 2 * n.Interval
}

// plannedTimes: irregular AND non-monotone timestamps: a steadily growing base plus a far-future spike at heights 4 and
// 9 (a block only has to be at or after the median of its ancestors, so the following blocks may go back in time).
func plannedTimes(n chain.NetSpec, upto uint64) []time.Time {
	base := []time.Time{chain.GenesisTime}
	for h := uint64(1); h <= upto; h++ {
		base = append(base, base[h-1].Add(delta(n, h)))
	}
	ts := make([]time.Time, len(base))
	for h := range base {
		ts[h] = base[h]
		if h == 4 || h == 9 {
			ts[h] = base[h].Add(10 * n.Interval)
		}
		if h == 6 {
			ts[h] = base[h-2].Add(time.Second) // earlier than its parent, still above the median
		}
	}
	return ts
}

func plannedTime(n chain.NetSpec, h uint64) *time.Time {
	t := plannedTimes(n, h)[h]
	return &t
}

// refMedian is the median of the last min(h,11) timestamps of the chain whose tip has height h-1 (i.e. the parent state of child h).
func refMedian(ts []time.Time, child uint64) time.Time {
	n := child
	if n > 11 {
		n = 11
	}
	w := append([]time.Time(nil), ts[child-n:child]...)
	sort.Slice(w, func(i, j int) bool { return w[i].Before(w[j]) })
	if len(w)%2 == 1 {
		return w[len(w)/2]
	}
	l, r := w[len(w)/2-1], w[len(w)/2]
	return l.Add(r.Sub(l) / 2)
}

// unknownAlgUC: unlock conditions with one key of an algorithm the validator does not know.
func unknownAlgUC() types.UnlockConditions {
	return types.UnlockConditions{PublicKeys: []types.UnlockKey{{Algorithm: types.NewSpecifier("c08-unknown"), Key: []byte{1, 2, 3}}}, SignaturesRequired: 1}
}

func ucLock(k *chain.Keys, T uint64) types.UnlockConditions {
	uc := k.StdUC(0)
	uc.Timelock = T
	return uc
}

const maxH = 14

// farLocks are lock values far beyond any reachable height (a comparison through a signed difference or a narrower
// integer would treat them as reached); they are probed at every height and must always be rejected.
var farLocks = []uint64{1<<31 + 3, 1<<32 + 3, 1<<63 - 1, 1 << 63, 1<<63 + 7, math.MaxUint64 - 1, math.MaxUint64}

func lockValues() []uint64 {
	var ts []uint64
	for T := uint64(1); T <= maxH; T++ {
		ts = append(ts, T)
	}
	return append(ts, farLocks...)
}

// farInstants: after(t) with t far in the future must be rejected at every height, far in the past accepted.
var farInstants = []int64{-62167219200, -1, 0, 1 << 31, 1<<32 + 5, 253402300799}

func alloc(n chain.NetSpec) func(k *chain.Keys) chain.GenesisAlloc {
	return func(k *chain.Keys) chain.GenesisAlloc {
		g := chain.DefaultAlloc(k)
		for i := 0; i < 24; i++ {
			g.SC = append(g.SC, types.SiacoinOutput{Value: types.Siacoins(uint32(500 + i)), Address: k.Addr([]int{chain.AddrV1, chain.AddrV2, chain.AddrACS}[i%3])})
		}
		ts := plannedTimes(n, maxH+2)
		for i, T := range lockValues() {
			// timelocked unlock conditions: two outputs each (v1 spender, v2 legacy-policy spender)
			a := ucLock(k, T).UnlockHash()
			g.SC = append(g.SC, types.SiacoinOutput{Value: types.Siacoins(uint32(21 + i)), Address: a}, types.SiacoinOutput{Value: types.Siacoins(uint32(41 + i)), Address: a})
			g.SC = append(g.SC, types.SiacoinOutput{Value: types.Siacoins(uint32(61 + i)), Address: types.PolicyAbove(T).Address()})
		}
		for i, s := range farInstants {
			g.SC = append(g.SC, types.SiacoinOutput{Value: types.Siacoins(uint32(120 + i)), Address: types.PolicyAfter(time.Unix(s, 0)).Address()})
		}
		g.SC = append(g.SC, types.SiacoinOutput{Value: types.Siacoins(77), Address: unknownAlgUC().UnlockHash()})
		for p := uint64(1); p <= maxH; p++ {
			m := refMedian(ts, p)
			for d := -1; d <= 1; d++ {
				g.SC = append(g.SC, types.SiacoinOutput{Value: types.Siacoins(uint32(80 + p)), Address: types.PolicyAfter(m.Add(time.Duration(d) * time.Second)).Address()})
			}
		}
		// the same locks on siafund outputs (the siafund input loops are separate code); the total stays 10000
		var sf uint64
		addSF := func(a types.Address) {
			g.SF = append(g.SF, types.SiafundOutput{Value: 1, Address: a})
			sf++
		}
		for _, T := range lockValues() {
			addSF(ucLock(k, T).UnlockHash())
			addSF(types.PolicyAbove(T).Address())
			if T > maxH {
				continue
			}
			m := refMedian(ts, T)
			for d := -1; d <= 1; d++ {
				addSF(types.PolicyAfter(m.Add(time.Duration(d) * time.Second)).Address())
			}
		}
		for _, s := range farInstants {
			addSF(types.PolicyAfter(time.Unix(s, 0)).Address())
		}
		g.SF[0].Value -= sf
		return g
	}
}

func nets(c *vf.Ctx) []chain.NetSpec {
	var out []chain.NetSpec
	mats := []uint64{0, 1, 2, 3}
	place := [][2]uint64{{4, 9}, {2, 5}, {6, 7}}
	if c.Quick() {
		place = place[:2]
	} else {
		// thorough: longer maturity delays and every (allow, require) placement pattern: adjacent, far apart, allow at
		// the first block, require late
		mats = []uint64{0, 1, 2, 3, 4, 5}
		place = append(place, [2]uint64{1, 2}, [2]uint64{1, 10}, [2]uint64{3, 4}, [2]uint64{5, 11}, [2]uint64{8, 9}, [2]uint64{2, 12})
	}
	for _, m := range mats {
		for _, pl := range place {
			s := chain.Spec("mixed")
			s.Name = fmt.Sprintf("mixed(m=%d,allow=%d,require=%d)", m, pl[0], pl[1])
			s.Maturity, s.Allow, s.Require, s.FinalCut = m, pl[0], pl[1], pl[1]+2
			out = append(out, s)
		}
		if m == 2 {
			// one configuration whose ephemeral-output height lies ABOVE the allow height (as on the networks that
			// activated v2 before that rule existed): the in-block parent rules are probed on both sides of it
			s := chain.Spec("mixed")
			s.Name = "mixed(m=2,allow=2,require=7,ephemeral=5)"
			s.Maturity, s.Allow, s.Require, s.FinalCut, s.Ephemeral = m, 2, 7, 9, 5
			out = append(out, s)
		}
		s := chain.Spec("v1-eras")
		s.Name = fmt.Sprintf("v1-eras(m=%d)", m)
		s.Maturity = m
		out = append(out, s)
	}
	return out
}

type runner struct {
	c    *vf.Ctx
	keys *chain.Keys
	spec chain.NetSpec
}

func (r *runner) base() *chain.World {
	w, p := chain.NewWorld(r.spec, r.keys, alloc(r.spec)(r.keys), chain.Options{CheckLedger: true})
	if p != nil {
		r.c.HarnessError("genesis: %v", p)
		return nil
	}
	return w
}

// mine applies one block with the given uses (nil = empty) using the planned timestamp.
func (r *runner) mine(w *chain.World, uses ...chain.Use) bool {
	b, bs := w.BlockOfUsesOpts(chain.BlockOpts{AbsTime: plannedTime(r.spec, w.ChildHeight())}, uses...)
	err, p := w.Apply(b, bs)
	if p != nil {
		r.c.Violate("C08|"+p.Sig, p.Desc, probeCase{Net: r.spec, Rule: "history", Height: w.ChildHeight(), Seed: r.c.Seed})
		return false
	}
	if err != nil {
		r.c.Violate("C08|honest-rejected|setup", fmt.Sprintf("setup block rejected at height %d on %s: %v", w.ChildHeight(), r.spec.Name, err), probeCase{Net: r.spec, Rule: "setup", Height: w.ChildHeight(), Seed: r.c.Seed})
		return false
	}
	return true
}

// probe submits a block containing only u at the current child height and compares the verdict.
func (r *runner) probe(w *chain.World, rule string, created uint64, bound int64, u chain.Use, want bool) {
	h := w.ChildHeight()
	b, bs := w.BlockOfUsesOpts(chain.BlockOpts{AbsTime: plannedTime(r.spec, h)}, u)
	var err error
	pv, _ := vf.Try(func() { err = w.Validate(b, bs) })
	r.c.Count("evaluations", 1)
	r.c.Count("transitions", 1)
	pc := probeCase{Net: r.spec, Rule: rule, Create: created, Bound: bound, Height: h, Want: want, Seed: r.c.Seed}
	r.c.Distinct(r.spec.Name, rule, created, bound, h)
	if pv != nil {
		r.c.Violate("C08|panic|"+rule, fmt.Sprintf("ValidateBlock panicked: %v", pv), pc)
		return
	}
	got := err == nil
	if got == want {
		if want {
			r.c.Count("accept_at_or_after_bound", 1)
			r.c.Count("rule_accept:"+rule, 1)
		} else {
			r.c.Count("reject_before_bound", 1)
			r.c.Count("rule_reject:"+rule, 1)
		}
		return
	}
	dir := "early"
	if want {
		dir = "late"
	}
	r.c.Violate("C08|boundary|"+rule+"|"+dir, fmt.Sprintf("[%s] rule %q (bound parameter %d, element created at %d): probe at height %d was %s but the rule table says %s (%v)",
		r.spec.Name, rule, bound, created, h, verdict(got), verdict(want), err), pc)
}

func verdict(b bool) string {
	if b {
		return "ACCEPTED"
	}
	return "REJECTED"
}

func (r *runner) v1ok(h uint64) bool { return h < r.spec.Require }
func (r *runner) v2ok(h uint64) bool { return h >= r.spec.Allow }

func findSF(w *chain.World, addr types.Address) (types.SiafundElement, bool) {
	var es []types.SiafundElement
	for _, e := range w.Store.SF {
		if e.SiafundOutput.Address == addr {
			es = append(es, e)
		}
	}
	sort.Slice(es, func(i, j int) bool { return es[i].StateElement.LeafIndex < es[j].StateElement.LeafIndex })
	if len(es) > 0 {
		return es[0].Copy(), true
	}
	return types.SiafundElement{}, false
}

// lockedContractsTxn forms one v1 contract per timelock T whose unlock hash is that of ucLock(T) (window far beyond the horizon),
// so that revisions authorised by time-locked unlock conditions can be probed at every height.
func (r *runner) lockedContractsTxn(w *chain.World) (chain.Use, bool) {
	k := r.keys
	h := w.ChildHeight()
	payout := types.Siacoins(10)
	bc := w.NewBlockCtx()
	p, ok := bc.PickSC(func(cl int) bool { return cl == chain.AddrV1 }, payout.Mul64(uint64(len(lockValues()))).Add(chain.Fee))
	if !ok {
		return chain.Use{}, false
	}
	tax := chain.CurOf(chain.RefTaxV1(w.Net, h, payout))
	t := types.Transaction{SiacoinInputs: []types.SiacoinInput{{ParentID: p.ID, UnlockConditions: k.StdUC(0)}}, MinerFees: []types.Currency{chain.Fee},
		SiacoinOutputs: []types.SiacoinOutput{{Value: p.SiacoinOutput.Value.Sub(payout.Mul64(uint64(len(lockValues())))).Sub(chain.Fee), Address: k.Addr(chain.AddrV1)}}}
	for _, T := range lockValues() {
		out := []types.SiacoinOutput{{Value: payout.Sub(tax), Address: k.Addr(chain.AddrV1)}}
		t.FileContracts = append(t.FileContracts, types.FileContract{WindowStart: maxH + 3, WindowEnd: maxH + 5, Payout: payout,
			ValidProofOutputs: out, MissedProofOutputs: out, UnlockHash: ucLock(k, T).UnlockHash(), RevisionNumber: T % 1000})
	}
	w.SignV1Whole(&t)
	return chain.Use{Name: "locked-contracts", V1: &t, SuppSC: []types.SiacoinElement{p}}, true
}

func findSC(w *chain.World, addr types.Address, nth int) (types.SiacoinElement, bool) {
	var es []types.SiacoinElement
	for _, e := range w.Store.SC {
		if e.SiacoinOutput.Address == addr {
			es = append(es, e)
		}
	}
	sort.Slice(es, func(i, j int) bool { return es[i].StateElement.LeafIndex < es[j].StateElement.LeafIndex })
	if nth < len(es) {
		return es[nth].Copy(), true
	}
	return types.SiacoinElement{}, false
}

// locks: genesis-funded timelock / above / after / version rules probed at every height.
func (r *runner) locks() {
	w := r.base()
	if w == nil {
		return
	}
	k := r.keys
	ts := plannedTimes(r.spec, maxH+2)
	locked := map[uint64]types.FileContractID{} // timelock T -> v1 contract whose unlock hash is ucLock(T)
	for h := uint64(1); h <= maxH; h++ {
		if r.c.Expired() {
			return
		}
		// version rules
		bc := w.NewBlockCtx()
		if p, ok := bc.PickSC(func(cl int) bool { return cl == chain.AddrV1 }, types.Siacoins(100)); ok {
			r.probe(w, "v1 transaction before v2 require height", 0, int64(r.spec.Require), w.UseV1SC(p, 1), h < r.spec.Require)
		}
		if p, ok := bc.PickSC(func(cl int) bool { return cl == chain.AddrV2 }, types.Siacoins(100)); ok {
			r.probe(w, "v2 transaction from v2 allow height", 0, int64(r.spec.Allow), w.UseV2SC(p, 1), h >= r.spec.Allow)
		}
		for _, T := range lockValues() {
			if T <= maxH && (T+2 < h || T > h+2) {
				continue
			}
			uc := ucLock(k, T)
			if p, ok := findSC(w, uc.UnlockHash(), 0); ok {
				if r.v1ok(h) {
					t := types.Transaction{SiacoinInputs: []types.SiacoinInput{{ParentID: p.ID, UnlockConditions: uc}}, SiacoinOutputs: []types.SiacoinOutput{{Value: p.SiacoinOutput.Value, Address: k.Addr(chain.AddrV1)}}}
					w.SignV1Whole(&t)
					r.probe(w, "v1 unlock-conditions timelock", 0, int64(T), chain.Use{Name: "uc-lock", V1: &t, SuppSC: []types.SiacoinElement{p}}, h >= T)
				}
				if r.v2ok(h) {
					t := types.V2Transaction{SiacoinInputs: []types.V2SiacoinInput{{Parent: p.Copy(), SatisfiedPolicy: types.SatisfiedPolicy{Policy: types.SpendPolicy{Type: types.PolicyTypeUnlockConditions(uc)}}}},
						SiacoinOutputs: []types.SiacoinOutput{{Value: p.SiacoinOutput.Value, Address: k.Addr(chain.AddrV2)}}}
					t.SiacoinInputs[0].SatisfiedPolicy.Signatures = []types.Signature{k.Priv[0].SignHash(w.CS.InputSigHash(t))}
					r.probe(w, "v2 legacy unlock-conditions policy timelock (parent height)", 0, int64(T), chain.Use{Name: "uc-policy-lock", V2: &t}, h-1 >= T)
				}
			}
			if p, ok := findSC(w, types.PolicyAbove(T).Address(), 0); ok && r.v2ok(h) {
				t := types.V2Transaction{SiacoinInputs: []types.V2SiacoinInput{{Parent: p.Copy(), SatisfiedPolicy: types.SatisfiedPolicy{Policy: types.PolicyAbove(T)}}},
					SiacoinOutputs: []types.SiacoinOutput{{Value: p.SiacoinOutput.Value, Address: k.Addr(chain.AddrV2)}}}
				r.probe(w, "v2 above(h) policy (parent height)", 0, int64(T), chain.Use{Name: "above", V2: &t}, h-1 >= T)
			}
			// the same three lock kinds on siafund inputs
			if p, ok := findSF(w, uc.UnlockHash()); ok {
				if r.v1ok(h) {
					t := types.Transaction{SiafundInputs: []types.SiafundInput{{ParentID: p.ID, UnlockConditions: uc, ClaimAddress: k.Addr(chain.AddrV1)}}, SiafundOutputs: []types.SiafundOutput{{Value: p.SiafundOutput.Value, Address: k.Addr(chain.AddrV1)}}}
					w.SignV1Whole(&t)
					r.probe(w, "v1 unlock-conditions timelock (siafund input)", 0, int64(T), chain.Use{Name: "uc-lock-sf", V1: &t, SuppSF: []types.SiafundElement{p}}, h >= T)
				}
				if r.v2ok(h) {
					t := types.V2Transaction{SiafundInputs: []types.V2SiafundInput{{Parent: p.Copy(), ClaimAddress: k.Addr(chain.AddrV2), SatisfiedPolicy: types.SatisfiedPolicy{Policy: types.SpendPolicy{Type: types.PolicyTypeUnlockConditions(uc)}}}},
						SiafundOutputs: []types.SiafundOutput{{Value: p.SiafundOutput.Value, Address: k.Addr(chain.AddrV2)}}}
					t.SiafundInputs[0].SatisfiedPolicy.Signatures = []types.Signature{k.Priv[0].SignHash(w.CS.InputSigHash(t))}
					r.probe(w, "v2 legacy unlock-conditions policy timelock on a siafund input (parent height)", 0, int64(T), chain.Use{Name: "uc-policy-lock-sf", V2: &t}, h-1 >= T)
				}
			}
			if p, ok := findSF(w, types.PolicyAbove(T).Address()); ok && r.v2ok(h) {
				t := types.V2Transaction{SiafundInputs: []types.V2SiafundInput{{Parent: p.Copy(), ClaimAddress: k.Addr(chain.AddrV2), SatisfiedPolicy: types.SatisfiedPolicy{Policy: types.PolicyAbove(T)}}},
					SiafundOutputs: []types.SiafundOutput{{Value: p.SiafundOutput.Value, Address: k.Addr(chain.AddrV2)}}}
				r.probe(w, "v2 above(h) policy on a siafund input (parent height)", 0, int64(T), chain.Use{Name: "above-sf", V2: &t}, h-1 >= T)
			}
			// v1 contract revision authorised by time-locked unlock conditions
			if fce, ok := locked[T]; ok && r.v1ok(h) {
				if cur, ok := w.Store.FC[fce]; ok {
					rev := cur.FileContract
					rev.RevisionNumber++
					t := types.Transaction{FileContractRevisions: []types.FileContractRevision{{ParentID: fce, UnlockConditions: uc, FileContract: rev}}}
					w.SignV1Whole(&t)
					r.probe(w, "v1 unlock-conditions timelock (contract revision)", 1, int64(T), chain.Use{Name: "uc-lock-rev", V1: &t, SuppFC: []types.FileContractElement{cur.Copy()}}, h >= T)
				}
			}
			// v1 signature timelock on a standard output
			if r.v1ok(h) {
				if p, ok := bc.PickSC(func(cl int) bool { return cl == chain.AddrV1 }, types.Siacoins(100)); ok {
					t := types.Transaction{SiacoinInputs: []types.SiacoinInput{{ParentID: p.ID, UnlockConditions: k.StdUC(0)}}, SiacoinOutputs: []types.SiacoinOutput{{Value: p.SiacoinOutput.Value, Address: k.Addr(chain.AddrV1)}},
						Signatures: []types.TransactionSignature{{ParentID: types.Hash256(p.ID), PublicKeyIndex: 0, Timelock: T, CoveredFields: types.CoveredFields{WholeTransaction: true}}}}
					w.FillV1Signatures(&t)
					r.probe(w, "v1 signature timelock", 0, int64(T), chain.Use{Name: "sig-lock", V1: &t, SuppSC: []types.SiacoinElement{p}}, h >= T)
					// the same lock on a signature over an explicit field list (another hashing path)
					cf := types.CoveredFields{SiacoinInputs: []uint64{0}, SiacoinOutputs: []uint64{0}}
					tp := types.Transaction{SiacoinInputs: t.SiacoinInputs, SiacoinOutputs: t.SiacoinOutputs,
						Signatures: []types.TransactionSignature{{ParentID: types.Hash256(p.ID), PublicKeyIndex: 0, Timelock: T, CoveredFields: cf}}}
					sg := k.Priv[0].SignHash(w.CS.PartialSigHash(tp, cf))
					tp.Signatures[0].Signature = sg[:]
					r.probe(w, "v1 signature timelock (partial covered fields)", 0, int64(T), chain.Use{Name: "sig-lock-partial", V1: &tp, SuppSC: []types.SiacoinElement{p}}, h >= T)
				}
				// and on a signature for a key of an unrecognised algorithm (valid by default, the lock still applies)
				if p, ok := findSC(w, unknownAlgUC().UnlockHash(), 0); ok {
					tu := types.Transaction{SiacoinInputs: []types.SiacoinInput{{ParentID: p.ID, UnlockConditions: unknownAlgUC()}}, SiacoinOutputs: []types.SiacoinOutput{{Value: p.SiacoinOutput.Value, Address: k.Addr(chain.AddrV1)}},
						Signatures: []types.TransactionSignature{{ParentID: types.Hash256(p.ID), PublicKeyIndex: 0, Timelock: T, CoveredFields: types.CoveredFields{WholeTransaction: true}, Signature: []byte("any bytes")}}}
					r.probe(w, "v1 signature timelock (unrecognised key algorithm)", 0, int64(T), chain.Use{Name: "sig-lock-unknown", V1: &tu, SuppSC: []types.SiacoinElement{p}}, h >= T)
				}
			}
		}
		// after(t): three outputs around the median of THIS child height
		if r.v2ok(h) {
			m := refMedian(ts, h)
			for d := -1; d <= 1; d++ {
				pol := types.PolicyAfter(m.Add(time.Duration(d) * time.Second))
				// only the whole seconds of the lock time are part of a policy (address, encoding): next to a half-second
				// median the lock "median + d s" held in memory IS the lock floor(median) + d s
				open := m.After(time.Unix(m.Add(time.Duration(d)*time.Second).Unix(), 0))
				if p, ok := findSC(w, pol.Address(), 0); ok {
					t := types.V2Transaction{SiacoinInputs: []types.V2SiacoinInput{{Parent: p.Copy(), SatisfiedPolicy: types.SatisfiedPolicy{Policy: pol}}},
						SiacoinOutputs: []types.SiacoinOutput{{Value: p.SiacoinOutput.Value, Address: k.Addr(chain.AddrV2)}}}
					r.probe(w, "v2 after(t) policy (median of last 11 timestamps, strict)", 0, int64(d), chain.Use{Name: "after", V2: &t}, open)
				}
				if p, ok := findSF(w, pol.Address()); ok {
					t := types.V2Transaction{SiafundInputs: []types.V2SiafundInput{{Parent: p.Copy(), ClaimAddress: k.Addr(chain.AddrV2), SatisfiedPolicy: types.SatisfiedPolicy{Policy: pol}}},
						SiafundOutputs: []types.SiafundOutput{{Value: p.SiafundOutput.Value, Address: k.Addr(chain.AddrV2)}}}
					r.probe(w, "v2 after(t) policy on a siafund input (median of last 11 timestamps, strict)", 0, int64(d), chain.Use{Name: "after-sf", V2: &t}, open)
				}
				// with an even number of ancestors the median is a midpoint and may fall on a half second: the lock times
				// that can be written down are whole seconds, so the whole seconds next to such a median are probed too
				// (same address: the encoding carries seconds)
				if whole := time.Unix(m.Add(time.Duration(d)*time.Second).Unix(), 0); !whole.Equal(m.Add(time.Duration(d) * time.Second)) {
					for _, lock := range []time.Time{whole, whole.Add(time.Second)} {
						pol2 := types.PolicyAfter(lock)
						if p, ok := findSC(w, pol2.Address(), 0); ok {
							t := types.V2Transaction{SiacoinInputs: []types.V2SiacoinInput{{Parent: p.Copy(), SatisfiedPolicy: types.SatisfiedPolicy{Policy: pol2}}},
								SiacoinOutputs: []types.SiacoinOutput{{Value: p.SiacoinOutput.Value, Address: k.Addr(chain.AddrV2)}}}
							r.probe(w, "v2 after(t) policy, whole-second lock next to a half-second median", 0, lock.Unix()-m.Unix(), chain.Use{Name: "after-half", V2: &t}, m.After(lock))
						}
					}
				}
			}
		}
		// after(t) far from the median (both directions), on siacoin and siafund inputs
		if r.v2ok(h) {
			m := refMedian(ts, h)
			for _, s := range farInstants {
				pol := types.PolicyAfter(time.Unix(s, 0))
				if p, ok := findSC(w, pol.Address(), 0); ok {
					t := types.V2Transaction{SiacoinInputs: []types.V2SiacoinInput{{Parent: p.Copy(), SatisfiedPolicy: types.SatisfiedPolicy{Policy: pol}}},
						SiacoinOutputs: []types.SiacoinOutput{{Value: p.SiacoinOutput.Value, Address: k.Addr(chain.AddrV2)}}}
					r.probe(w, "v2 after(t) policy (median of last 11 timestamps, strict)", 0, s, chain.Use{Name: "after-far", V2: &t}, m.Unix() > s)
				}
				if p, ok := findSF(w, pol.Address()); ok {
					t := types.V2Transaction{SiafundInputs: []types.V2SiafundInput{{Parent: p.Copy(), ClaimAddress: k.Addr(chain.AddrV2), SatisfiedPolicy: types.SatisfiedPolicy{Policy: pol}}},
						SiafundOutputs: []types.SiafundOutput{{Value: p.SiafundOutput.Value, Address: k.Addr(chain.AddrV2)}}}
					r.probe(w, "v2 after(t) policy on a siafund input (median of last 11 timestamps, strict)", 0, s, chain.Use{Name: "after-far-sf", V2: &t}, m.Unix() > s)
				}
			}
		}
		// formation rules at this height
		if r.v1ok(h) {
			for _, ws := range []uint64{h - 1, h, h + 1} {
				bc2 := w.NewBlockCtx()
				a := chain.V1FormAbs(ws, ws+2, 100)
				if a.Do(bc2) {
					t := bc2.V1[0]
					r.probe(w, "v1 formation window start >= height", 0, int64(ws), chain.Use{Name: "v1form", V1: &t}, ws >= h)
				}
			}
		}
		if r.v2ok(h) {
			for _, ph := range []uint64{h - 1, h, h + 1} {
				bc2 := w.NewBlockCtx()
				a := chain.V2FormAbs(ph, ph+2, 100)
				if a.Do(bc2) {
					t := bc2.V2[0]
					r.probe(w, "v2 formation proof height >= height", 0, int64(ph), chain.Use{Name: "v2form", V2: &t}, ph >= h)
				}
			}
		}
		if h == 1 && r.v1ok(1) {
			if u, ok := r.lockedContractsTxn(w); ok {
				if !r.mine(w, u) {
					return
				}
				for i, T := range lockValues() {
					locked[T] = u.V1.FileContractID(i)
				}
				continue
			}
		}
		if !r.mine(w) {
			return
		}
	}
}

// maturity: a history that creates delayed outputs of every kind; every delayed output is probed at every height up to maturity+1.
func (r *runner) maturity() {
	w := r.base()
	if w == nil {
		return
	}
	k := r.keys
	type step func(bc *chain.BlockCtx) bool
	for h := uint64(1); h <= maxH; h++ {
		if r.c.Expired() {
			return
		}
		// probe every unspent delayed output known to the reference ledger (created with a maturity height)
		for _, e := range w.Ref.Live(chain.KSC) {
			if e.Created == 0 || e.Created+r.spec.Maturity+2 < h {
				continue
			}
			if (e.Maturity == 0 && e.Created > 0) || e.SC.Value.IsZero() {
				continue // ordinary outputs have no delay; zero-valued payouts cannot be re-spent into a non-zero output
			}
			se, ok := w.Store.SC[types.SiacoinOutputID(e.ID)]
			if !ok {
				continue
			}
			cl := k.ClassOf(se.SiacoinOutput.Address)
			want := h >= e.Created+r.spec.Maturity // independent: creation height + delay
			kind := "delayed output maturity"
			if r.v1ok(h) && (cl == chain.AddrV1 || cl == chain.AddrV1b || cl == chain.AddrFnd) {
				r.probe(w, kind+" (v1 spender)", e.Created, int64(e.Created+r.spec.Maturity), w.UseV1SC(se.Copy(), 1), want)
			}
			if r.v2ok(h) && cl >= 0 && cl != chain.AddrVoid {
				r.probe(w, kind+" (v2 spender)", e.Created, int64(e.Created+r.spec.Maturity), w.UseV2SC(se.Copy(), 1), want)
			}
		}
		// one creating action per block, cycling; miner payout alternates between a v1 and a v2 address
		bc := w.NewBlockCtx()
		acts := []chain.Action{chain.V1SF(true), chain.V2SF(true), chain.V1Form(1, 1, 10), chain.V2Form(0, 1, 10), chain.V1Proof(false), chain.V2Proof(), chain.V2Expire(), chain.V2Renew("partial")}
		for i := 0; i < len(acts); i++ {
			if acts[(int(h)+i)%len(acts)].Do(bc) {
				break
			}
		}
		// in addition, a longer-lived v2 contract is formed now and then and renewed with a partial rollover as soon as
		// that is possible: the final outputs of a renewal are delayed outputs too
		if h%4 == 1 {
			chain.V2Form(4, 2, 100).Do(bc)
		} else if chain.V2Renew("partial").Do(bc) {
			r.c.Count("maturity_history_renewals", 1)
		}
		addr := k.Addr([]int{chain.AddrV1, chain.AddrV2}[h%2])
		// in-block: every output the creating transactions of THIS block produce, spent by a later transaction of the
		// same block (the parent is then looked up among the block's own creations, not in the accumulator / supplement)
		if len(bc.V1)+len(bc.V2) > 0 {
			wc := w.Clone()
			b0, bs0 := wc.BuildBlock(bc.V1, bc.V2, chain.BlockOpts{AbsTime: plannedTime(r.spec, h), MinerAddr: &addr})
			if err, p := wc.Apply(b0, bs0); err == nil && p == nil {
				var before []chain.Use
				for i := range bc.V1 {
					before = append(before, chain.Use{Name: "creator", V1: &bc.V1[i]})
				}
				for i := range bc.V2 {
					before = append(before, chain.Use{Name: "creator", V2: &bc.V2[i]})
				}
				skip := map[types.SiacoinOutputID]bool{b0.ID().FoundationOutputID(): true}
				for i := range b0.MinerPayouts {
					skip[b0.ID().MinerOutputID(i)] = true
				}
				for _, id := range chain.SortedIDs(wc.Store.SC) {
					se := wc.Store.SC[types.SiacoinOutputID(id)]
					if _, old := w.Store.SC[se.ID]; old || skip[se.ID] || se.SiacoinOutput.Value.IsZero() || !(isDelayedID(bc, se.ID) || isOrdinaryID(bc, se.ID)) {
						continue // only what the block's TRANSACTIONS create (expiry payouts, miner payout, subsidy come after them)
					}
					cl := k.ClassOf(se.SiacoinOutput.Address)
					want := se.MaturityHeight <= h
					kind := "ordinary output"
					if se.MaturityHeight > h || (r.spec.Maturity == 0 && isDelayedID(bc, se.ID)) {
						kind = "delayed output"
					}
					eph := se.Copy()
					eph.StateElement = types.StateElement{LeafIndex: types.UnassignedLeafIndex}
					if r.v1ok(h) && len(bc.V2) == 0 && (cl == chain.AddrV1 || cl == chain.AddrV1b || cl == chain.AddrFnd) {
						u := w.UseV1SC(eph, 1)
						u.Before, u.SuppSC = before, nil
						r.probe(w, kind+" spent in the block that creates it (v1 spender)", h, int64(se.MaturityHeight), u, want)
					}
					if r.v2ok(h) && cl >= 0 && cl != chain.AddrVoid {
						u := w.UseV2SC(eph, 1)
						u.Before = before
						r.probe(w, kind+" spent in the block that creates it (v2 spender)", h, int64(se.MaturityHeight), u, want)
						if !want {
							// the same with a claimed maturity height of 0. From the ephemeral-output height on the claimed
							// parent must equal the created one; below it the legacy rule compares nothing - the probe has its
							// own rule name there (a recorded known finding)
							lie := eph.Copy()
							lie.MaturityHeight = 0
							u2 := w.UseV2SC(lie, 2)
							u2.Before = before
							rule := "delayed output spent in the block that creates it under a claimed maturity of 0 (v2 spender)"
							if h < r.spec.Ephemeral {
								rule += ", below the ephemeral-output height (legacy rule)"
							}
							r.probe(w, rule, h, int64(se.MaturityHeight), u2, false)
						}
					}
				}
			}
		}
		b, bs := w.BuildBlock(bc.V1, bc.V2, chain.BlockOpts{AbsTime: plannedTime(r.spec, h), MinerAddr: &addr})
		if err, p := w.Apply(b, bs); err != nil || p != nil {
			r.c.Violate("C08|honest-rejected|maturity-history", fmt.Sprintf("history block rejected at %d: %v %v", h, err, p), probeCase{Net: r.spec, Rule: "history", Height: h, Seed: r.c.Seed})
			return
		}
	}
}

// isOrdinaryID: is id an ordinary siacoin output of one of the block's transactions?
func isOrdinaryID(bc *chain.BlockCtx, id types.SiacoinOutputID) bool {
	for _, t := range bc.V1 {
		for i := range t.SiacoinOutputs {
			if t.SiacoinOutputID(i) == id {
				return true
			}
		}
	}
	for _, t := range bc.V2 {
		txid := t.ID()
		for i := range t.SiacoinOutputs {
			if t.SiacoinOutputID(txid, i) == id {
				return true
			}
		}
	}
	return false
}

// isDelayedID: is id one of the delayed outputs (siafund claims, contract payouts) of the block's transactions?
func isDelayedID(bc *chain.BlockCtx, id types.SiacoinOutputID) bool {
	for _, t := range bc.V1 {
		for _, in := range t.SiafundInputs {
			if in.ParentID.ClaimOutputID() == id {
				return true
			}
		}
		for _, sp := range t.StorageProofs {
			for i := 0; i < 4; i++ {
				if sp.ParentID.ValidOutputID(i) == id {
					return true
				}
			}
		}
	}
	for _, t := range bc.V2 {
		for _, in := range t.SiafundInputs {
			if in.Parent.ID.V2ClaimOutputID() == id {
				return true
			}
		}
		for _, r := range t.FileContractResolutions {
			if r.Parent.ID.V2RenterOutputID() == id || r.Parent.ID.V2HostOutputID() == id {
				return true
			}
		}
	}
	return false
}

// contracts: revision / proof / expiration windows, every (creation height, a, b) shape, every probe height.
func (r *runner) contracts() {
	for c0 := uint64(1); c0 <= 8; c0++ {
		for _, ab := range [][2]uint64{{0, 1}, {1, 1}, {1, 2}, {2, 2}, {3, 1}} {
			if r.c.Expired() {
				return
			}
			a, b := ab[0], ab[1]
			// v1
			if r.v1ok(c0) {
				w := r.base()
				for w != nil && w.ChildHeight() < c0 {
					if !r.mine(w) {
						w = nil
					}
				}
				if w != nil {
					bc := w.NewBlockCtx()
					if chain.V1Form(a, b, 100).Do(bc) {
						t := bc.V1[0]
						if r.mine(w, chain.Use{Name: "v1form", V1: &t}) {
							ws, we := c0+a, c0+a+b
							for h := c0 + 1; h <= we+1 && r.v1ok(h); h++ {
								var fce types.FileContractElement
								n := 0
								for _, e := range w.Store.FC {
									fce = e
									n++
								}
								if n == 1 {
									fc := fce.FileContract
									r.probe(w, "v1 revision not after window start", c0, int64(ws), w.UseV1Revise(fce, fc, 1), h <= ws)
									// the same with the revised window moved to the future, so that ONLY the parent's window can reject
									mv := fc
									if mv.WindowStart < h {
										mv.WindowStart, mv.WindowEnd = h, h+b
									}
									mv.RevisionNumber++
									r.probe(w, "v1 revision not after window start", c0, int64(ws), w.UseV1Revise(fce, mv, 0), h <= ws)
									// the window that counts is the one of the LATEST revision, also when that revision sits earlier in the
									// same block: (i) window moved later by an in-block revision - the proof (honest for the challenge the
									// code derives from the tip) comes before the revised window-start block exists; (ii) window moved up to
									// this very block - the proof is exactly at the permitted height
									if h <= ws {
										tip := w.Hist[len(w.Hist)-1].B.ID()
										later := fc
										later.WindowStart, later.WindowEnd = h+2, h+2+b
										later.RevisionNumber++
										t1 := w.V1ProofTxn(fce.ID, later, tip)
										r.probe(w, "v1 proof after an in-block revision that moved the window later", c0, int64(h+2),
											chain.Use{Name: "v1proof-after-revision", V1: &t1, Resolves: true, SuppFC: []types.FileContractElement{fce}, Before: []chain.Use{w.UseV1Revise(fce, later, 0)}}, false)
										if h < ws {
											now := fc
											now.WindowStart, now.WindowEnd = h, h+b
											now.RevisionNumber++
											t2 := w.V1ProofTxn(fce.ID, now, tip)
											r.probe(w, "v1 proof after an in-block revision that moved the window to this block", c0, int64(h),
												chain.Use{Name: "v1proof-after-revision", V1: &t2, Resolves: true, SuppFC: []types.FileContractElement{fce}, Before: []chain.Use{w.UseV1Revise(fce, now, 0)}}, true)
										}
									}
									if h < ws {
										if u, ok := useV1ProofForce(w, fce); ok {
											r.probe(w, "v1 proof not before the window-start block exists", c0, int64(ws), u, false)
										} else {
											r.c.Count("v1_proof_unbuildable_before_window_block", 1)
										}
									} else if h < we {
										if u, ok := w.UseV1Proof(fce, fc); ok {
											r.probe(w, "v1 proof not before the window-start block exists", c0, int64(ws), u, true)
										}
									}
								}
								if !r.mine(w) {
									break
								}
							}
						}
					}
				}
			}
			// v2
			if r.v2ok(c0) {
				w := r.base()
				for w != nil && w.ChildHeight() < c0 {
					if !r.mine(w) {
						w = nil
					}
				}
				if w == nil {
					continue
				}
				bc := w.NewBlockCtx()
				if !chain.V2Form(a, b, 100).Do(bc) {
					continue
				}
				t := bc.V2[0]
				if !r.mine(w, chain.Use{Name: "v2form", V2: &t}) {
					continue
				}
				ph, eh := c0+a, c0+a+b
				for h := c0 + 1; h <= eh+2; h++ {
					var fce types.V2FileContractElement
					n := 0
					for _, e := range w.Store.V2FC {
						fce = e
						n++
					}
					if n == 1 {
						fc := fce.V2FileContract
						r.probe(w, "v2 revision not after proof height", c0, int64(ph), w.UseV2Revise(fce, fc, 1), h <= ph)
						mv := fc
						if mv.ProofHeight < h {
							mv.ProofHeight, mv.ExpirationHeight = h, h+b
						}
						r.probe(w, "v2 revision not after proof height", c0, int64(ph), w.UseV2Revise(fce, mv, 1), h <= ph)
						if u, ok := w.UseV2Proof(fce); ok {
							r.probe(w, "v2 proof only once the block at proof height is an ancestor", c0, int64(ph), u, h >= ph+1)
						} else if h <= ph {
							// the chain index of the proof height does not exist yet: present the newest existing chain index instead
							u := useV2ProofWithTip(w, fce)
							r.probe(w, "v2 proof only once the block at proof height is an ancestor", c0, int64(ph), u, false)
						}
						// a proof that is honest for ANOTHER block (every existing chain index): only the block at the proof
						// height may seed the challenge, before and after the bound
						for ih := uint64(0); ih < uint64(len(w.Store.CI)); ih++ {
							if ih != ph {
								r.probe(w, "v2 proof only against the chain index of the proof height", c0, int64(ph), useV2ProofAtIndex(w, fce, ih), false)
							}
						}
						r.probe(w, "v2 expiration only after expiration height", c0, int64(eh), w.UseV2Expire(fce), h >= eh+1)
						// renewal: the NEW contract's proof height rule
						bc2 := w.NewBlockCtx()
						if f, ok := bc2.PickSC(func(cl int) bool { return cl == chain.AddrACS || cl == chain.AddrV2 }, types.Siacoins(400)); ok && h <= ph {
							for _, nph := range []uint64{h - 1, h, h + 1} {
								if u, ok := useRenewWithPH(w, fce, f, nph); ok {
									r.probe(w, "v2 renewal new contract proof height >= height", c0, int64(nph), u, nph >= h)
								}
							}
						}
					}
					if !r.mine(w) {
						break
					}
				}
			}
		}
	}
}

func useV1ProofForce(w *chain.World, fce types.FileContractElement) (chain.Use, bool) {
	// before the window-start block exists there is no window ID; a node cannot even assemble the supplement.
	// Present the proof with the tip as pretended window block (what an early prover would have to do).
	fc := fce.FileContract
	tip := w.Hist[len(w.Hist)-1].B.ID()
	t := w.V1ProofTxn(fce.ID, fc, tip)
	// an honest node cannot supply a window ID (the block does not exist), so none is supplied
	return chain.Use{Name: "v1proof-early", V1: &t, Resolves: true, SuppFC: []types.FileContractElement{fce}}, true
}

func useV2ProofWithTip(w *chain.World, fce types.V2FileContractElement) chain.Use {
	return useV2ProofAtIndex(w, fce, uint64(len(w.Store.CI)-1))
}

// useV2ProofAtIndex builds a storage proof that is HONEST for the chain index element of the given height (the leaf
// the challenge derived from that block's id selects, with its Merkle path), whatever the contract's proof height is.
func useV2ProofAtIndex(w *chain.World, fce types.V2FileContractElement, height uint64) chain.Use {
	ci := w.Store.CI[height].Copy()
	fc := fce.V2FileContract
	sp := &types.V2StorageProof{ProofIndex: ci}
	if fc.Filesize > 0 && fc.Filesize <= 1<<20 {
		idx := w.CS.StorageProofLeafIndex(fc.Filesize, ci.ChainIndex.ID, fce.ID)
		sp.Leaf, sp.Proof = spec.FileProof(spec.FileData(int(fc.Filesize), byte(fc.Filesize%251)), int(idx))
	}
	t := types.V2Transaction{FileContractResolutions: []types.V2FileContractResolution{{Parent: fce.Copy(), Resolution: sp}}}
	return chain.Use{Name: "v2proof-other-index", V2: &t, Resolves: true}
}

func useRenewWithPH(w *chain.World, fce types.V2FileContractElement, f types.SiacoinElement, nph uint64) (chain.Use, bool) {
	u, ok := w.UseV2Renew(fce, f)
	if !ok {
		return u, false
	}
	t := u.V2.DeepCopy()
	rn := *t.FileContractResolutions[0].Resolution.(*types.V2FileContractRenewal)
	rn.NewContract.ProofHeight = nph
	rn.NewContract.ExpirationHeight = nph + 2
	cur := fce.V2FileContract
	ki := func(pk types.PublicKey) int {
		for i := range w.Keys.Pub {
			if w.Keys.Pub[i] == pk {
				return i
			}
		}
		return 0
	}
	w.SignRenewal(&rn, ki(cur.RenterPublicKey), ki(cur.HostPublicKey))
	t.FileContractResolutions[0].Resolution = &rn
	w.SignV2(&t)
	return chain.Use{Name: "v2renew", V2: &t, Resolves: true}, true
}

func run(c *vf.Ctx) {
	c.FullScope = true // the whole stated space takes about a minute: both tiers run it
	c.Set("scope_note", "quick and thorough tiers run the same (full) scope")
	c.Set("rule", "for every network configuration (maturity delay 0..3 (thorough 0..5) x allow/require placements (quick 2, thorough 9), v1-only variants) and every rule of the boundary table: the otherwise-valid transaction is probed in a block at EVERY height of a window covering bound-2..bound+1 (timestamps irregular; after(t) probed with t = median-1s, median, median+1s at every height); oracle: accepted iff the independent rule predicate holds (both directions); states = (network, rule, creation height, bound) tuples, transitions = ValidateBlock probes")
	keys := chain.NewKeys(c.Seed)
	ns := nets(c)
	c.Set("network_configurations", len(ns))
	vf.ParallelFor(len(ns)*3, func(i int) {
		r := &runner{c: c, keys: keys, spec: ns[i/3]}
		switch i % 3 {
		case 0:
			r.locks()
		case 1:
			r.maturity()
		case 2:
			r.contracts()
		}
		c.Count("states", 1)
		c.Count("traces_validated_against_impl", 1)
	})
	need := []string{"accept_at_or_after_bound", "reject_before_bound"}
	for _, rule := range []string{"v1 transaction before v2 require height", "v2 transaction from v2 allow height", "v1 unlock-conditions timelock", "v2 legacy unlock-conditions policy timelock (parent height)",
		"v2 above(h) policy (parent height)", "v1 signature timelock", "v1 signature timelock (partial covered fields)", "v1 signature timelock (unrecognised key algorithm)", "v1 unlock-conditions timelock (siafund input)", "v1 unlock-conditions timelock (contract revision)",
		"v2 legacy unlock-conditions policy timelock on a siafund input (parent height)", "v2 above(h) policy on a siafund input (parent height)", "v2 after(t) policy on a siafund input (median of last 11 timestamps, strict)", "v2 after(t) policy, whole-second lock next to a half-second median", "v2 after(t) policy (median of last 11 timestamps, strict)", "v1 formation window start >= height", "v2 formation proof height >= height",
		"delayed output maturity (v1 spender)", "delayed output maturity (v2 spender)", "v1 revision not after window start", "v1 proof not before the window-start block exists",
		"v2 revision not after proof height", "v2 proof only once the block at proof height is an ancestor", "v2 expiration only after expiration height", "v2 renewal new contract proof height >= height"} {
		need = append(need, "rule_accept:"+rule, "rule_reject:"+rule)
	}
	need = append(need, "maturity_history_renewals")
	c.RequireFeature(need...)
	c.Sample(probeCase{Net: ns[0], Rule: "v2 above(h) policy (parent height)", Bound: 5, Height: 6, Want: true, Seed: c.Seed})
	c.Assume("renewal timing relative to the OLD contract and v1 proofs in the very block in which the window ends are not asserted (the statement does not determine them)")
}

func replay(c *vf.Ctx, raw json.RawMessage) {
	var pc probeCase
	if err := json.Unmarshal(raw, &pc); err != nil {
		c.HarnessError("bad case: %v", err)
		return
	}
	// replay = re-run the three sweeps for that network (cheap) and report only matching rule violations
	r := &runner{c: c, keys: chain.NewKeys(pc.Seed), spec: pc.Net}
	r.locks()
	r.maturity()
	r.contracts()
	c.Count("states", 1)
}
