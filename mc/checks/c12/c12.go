// Package c12: IDs and signature hashes bind exactly the effect-bearing
// content; block IDs bind everything.
//
// Families (each exhaustive over a finite menu):
//
//	A  transaction IDs / derived IDs / FullHash / MerkleLeafHash / per-field sighash binding under every
//	   single-field (thorough: every independent pair) mutation of field-rich v1 and v2 templates, with an
//	   explicit effect / witness / unspec classification table written from the statement
//	B  derived IDs of all kinds x indices x parents are pairwise distinct
//	C  sighashes bind purpose (reference preimage model) and era (replay prefix), end to end through
//	   ValidateBlock on a compact network with wide eras
//	D  block IDs: every content mutation of real v1 / v2 blocks is rejected or changes the ID; the v2
//	   commitment binds every encoded field of the parent state and the miner address
//	E  end to end: a signed v2 transaction with one effect-bearing field changed and NOT re-signed is rejected
package c12

import (
	"encoding/json"
	"fmt"
	"sort"
	"sync"
	"time"

	"go.sia.tech/core/types"
	"verifmc/vf"
)

func init() {
	vf.Register(&vf.Check{ID: "C12", Level: "exploration", Run: run, Replay: replay})
}

// caseDesc is the replayable descriptor of one evaluated case.
type caseDesc struct {
	Family string `json:"family"`
	Sub    string `json:"sub"`            // template / network / object
	Path   string `json:"path,omitempty"` // mutation path (concrete)
	Path2  string `json:"path2,omitempty"`
	Hash   string `json:"hash,omitempty"`
	Seed   int64  `json:"seed"`
	Tier   string `json:"tier"`
	Note   string `json:"note,omitempty"`
}

type runner struct {
	c      *vf.Ctx
	g      gen
	filter *caseDesc // replay: only this case

	mu     sync.Mutex
	unspec map[string]map[string]int // hash family -> field -> observed "changed"/"unchanged" tallies
}

func (r *runner) desc(family, sub, path, path2, hash string) caseDesc {
	return caseDesc{Family: family, Sub: sub, Path: path, Path2: path2, Hash: hash, Seed: r.g.seed, Tier: r.c.Tier}
}

// wantSub / wantPath implement the replay filter.
func (r *runner) wantFamily(f string) bool { return r.filter == nil || r.filter.Family == f }
func (r *runner) wantSub(s string) bool {
	return r.filter == nil || r.filter.Sub == "" || r.filter.Sub == s
}
func (r *runner) wantPath(p, p2 string) bool {
	return r.filter == nil || r.filter.Path == "" || (r.filter.Path == p && r.filter.Path2 == p2)
}

func (r *runner) noteUnspec(hash, field string, changed bool) {
	r.mu.Lock()
	defer r.mu.Unlock()
	if r.unspec == nil {
		r.unspec = map[string]map[string]int{}
	}
	k := hash
	if r.unspec[k] == nil {
		r.unspec[k] = map[string]int{}
	}
	if changed {
		r.unspec[k][field+" => changes"]++
	} else {
		r.unspec[k][field+" => unchanged"]++
	}
}

func run(c *vf.Ctx) {
	c.FullScope = true // the whole stated space takes well under a minute: both tiers run it
	c.Set("scope_note", "quick and thorough tiers run the same (full) scope")
	r := &runner{c: c, g: gen{seed: c.Seed}}
	c.Set("rule", "A: v1 + v2 (renewal / storage proof / expiration / mixed) transaction templates with every field populated and every slice >= 2 entries; every single-point mutation of a reflection walk "+
		"(ints +-1, byte arrays & byte strings first/last byte flipped, currencies lo/hi +1, slices drop/dup/swap/element-wise, pointers nil, resolution kind replaced, strings, bools, times) "+
		"[thorough: every independent pair]; each field path classified effect/witness/unspec by an explicit table; oracle: ID and every derived ID change iff effect, FullHash/MerkleLeafHash/sighashes change for every effect field. "+
		"B: all (kind,index,parent) derived IDs incl. second-level derivations inserted in one hash set, must be pairwise distinct. "+
		"C: v2 sighashes == reference preimage model with pairwise distinct purposes; v1 whole/partial sighash of one transaction pairwise distinct over eras at robust heights of every network; every ordered era pair x {siacoin spend whole-sig, siafund spend whole-sig, siacoin spend partial-sig}: signed in era A, submitted unchanged in era B => ValidateBlock rejects, re-signed => accepts, same-era different height => accepts; object sighashes under every field mutation. "+
		"D: every block of chain-engine histories (full honest menu per block, plus empty blocks and v2 blocks carrying only v1 transactions) x every content mutation with header fields kept => rejected or ID differs (no-ops by encoding excluded); v2: commitment differs for every content mutation, every encoded parent-state field (walker + every byte of the state encoding) and the miner address. "+
		"E: signed v2 transactions x every effect-field mutation without re-signing => ValidateV2Transaction rejects. F: a storage-proof resolution whose ID preimage is re-read byte for byte as a renewal resolution: the two transactions must have different IDs. A case is non-trivial when the mutation changes the full encoding; distinct = (family, template/network, field path, operation)")
	times := map[string]float64{}
	for _, f := range []struct {
		n  string
		fn func()
	}{{"A", r.familyA}, {"B", r.familyB}, {"C", r.familyC}, {"D", r.familyD}, {"E", r.familyE}, {"F", r.familyF}} {
		t0 := time.Now()
		f.fn()
		times[f.n] = time.Since(t0).Seconds()
	}
	c.Set("family_wall_s(informational)", times)
	r.finishEvidence()
	c.RequireFeature("evaluations", "A:effect_changed", "A:witness_unchanged", "A:unspec_observed", "A:derived_ids_checked", "B:ids_compared",
		"C:purpose_model_match", "C:era_pairs_distinct", "C:e2e_cross_era_rejected", "C:e2e_resigned_accepted", "C:e2e_same_era_accepted", "C:object_sighash_changed", "C:object_sighash_own_sig_unchanged",
		"D:v1_id_changed", "D:v2_rejected", "D:commitment_changed", "D:state_field_commitment_changed", "D:state_byteflips", "D:miner_addr_commitment_changed", "D:original_accepted", "D:blocks_v1", "D:blocks_v2_empty", "D:blocks_v2_with_v1_transactions_only", "D:blocks_v2_with_v1_and_v2_transactions",
		"E:control_accepted", "E:mutant_rejected", "F:kind_pairs_compared")
	c.Assume("BLAKE2b, SHA-256 (token derivation) and Ed25519 are trusted; 'changes' / 'distinct' means different 32-byte digests (a collision would be reported as a violation)")
	c.Assume("the binary encoders (EncodeTo) are used to decide whether a block / state mutation is a no-op; their faithfulness is property C11's subject")
	c.Assume("block / transaction mutants that cannot be encoded at all (a zero-valued v2 input with a nil spend policy makes EncodeTo panic) are skipped and counted; panics of ValidateBlock / ValidateV2Transaction on mutants are counted as rejections (they are property C10's subject)")
	c.Assume("era membership of a height is decided by a naive threshold function and only 'robust' heights are used (heights where the thresholds applied to the parent height and to the child height agree), so the check does not depend on which of the two the implementation uses")
}

func (r *runner) finishEvidence() {
	c := r.c
	r.mu.Lock()
	defer r.mu.Unlock()
	n := 0
	out := map[string][]string{}
	for h, m := range r.unspec {
		var ks []string
		for k, v := range m {
			ks = append(ks, fmt.Sprintf("%s (x%d)", k, v))
			n++
		}
		sort.Strings(ks)
		out[h] = ks
	}
	c.Set("unspec_observed_behaviour", out)
	c.Set("unspec_path_outcomes", n)
}

func replay(c *vf.Ctx, raw json.RawMessage) {
	var d caseDesc
	if err := json.Unmarshal(raw, &d); err != nil {
		c.HarnessError("bad case: %v", err)
		return
	}
	if d.Tier != "" {
		c.Tier = d.Tier
	}
	r := &runner{c: c, g: gen{seed: d.Seed}, filter: &d}
	switch d.Family {
	case "A":
		r.familyA()
	case "B":
		r.familyB()
	case "C":
		r.familyC()
	case "D":
		r.familyD()
	case "E":
		r.familyE()
	case "F":
		r.familyF()
	default:
		c.HarnessError("unknown family %q", d.Family)
	}
}

func hx(h types.Hash256) string { return fmt.Sprintf("%x", h[:6]) }
