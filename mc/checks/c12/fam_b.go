package c12

import (
	"fmt"

	"go.sia.tech/core/types"
	"verifmc/vf"
)

// idKey names one derivation: kind, parent (hex of the 32 parent bytes or the
// template name) and index (-1 for index-less kinds).
type idKey struct {
	Kind   string
	Parent string
	Idx    int
}

type idSet struct {
	r   *runner
	m   map[types.Hash256]idKey
	n   int64
	lvl []types.Hash256 // IDs added since the last mark (parents of the next level)
}

func (s *idSet) add(id types.Hash256, k idKey) {
	s.n++
	s.r.c.Count("evaluations", 1)
	if prev, ok := s.m[id]; ok {
		if prev == k {
			return
		}
		a, b := prev.Kind, k.Kind
		if a > b {
			a, b = b, a
		}
		trigger := "different-parent"
		if prev.Parent == k.Parent {
			trigger = "same-parent"
			if prev.Idx != k.Idx {
				trigger = "same-parent-different-index"
			}
		}
		s.r.c.Violate("derived-id|collision|"+a+"="+b+"|"+trigger,
			fmt.Sprintf("two distinct derivations yield the same ID %x: %s(parent %s, index %d) and %s(parent %s, index %d)", id[:8], prev.Kind, prev.Parent, prev.Idx, k.Kind, k.Parent, k.Idx),
			s.r.desc("B", "", "", "", a+"="+b))
		return
	}
	s.m[id] = k
	s.lvl = append(s.lvl, id)
}

// fromParent adds every derivation that takes a 32-byte parent.
func (s *idSet) fromParent(p types.Hash256, nIdx int) {
	ps := fmt.Sprintf("%x", p[:8])
	var v2 types.V2Transaction
	k := func(kind string, i int) idKey { return idKey{kind, ps, i} }
	s.add(types.Hash256(types.BlockID(p).FoundationOutputID()), k("BlockID.FoundationOutputID", -1))
	s.add(types.Hash256(types.SiafundOutputID(p).ClaimOutputID()), k("SiafundOutputID.ClaimOutputID", -1))
	s.add(types.Hash256(types.SiafundOutputID(p).V2ClaimOutputID()), k("SiafundOutputID.V2ClaimOutputID", -1))
	s.add(types.Hash256(types.FileContractID(p).V2RenterOutputID()), k("FileContractID.V2RenterOutputID", -1))
	s.add(types.Hash256(types.FileContractID(p).V2HostOutputID()), k("FileContractID.V2HostOutputID", -1))
	s.add(types.Hash256(types.FileContractID(p).V2RenewalID()), k("FileContractID.V2RenewalID", -1))
	for i := 0; i < nIdx; i++ {
		s.add(types.Hash256(types.BlockID(p).MinerOutputID(i)), k("BlockID.MinerOutputID", i))
		s.add(types.Hash256(types.FileContractID(p).ValidOutputID(i)), k("FileContractID.ValidOutputID", i))
		s.add(types.Hash256(types.FileContractID(p).MissedOutputID(i)), k("FileContractID.MissedOutputID", i))
		s.add(types.Hash256(v2.SiacoinOutputID(types.TransactionID(p), i)), k("V2Transaction.SiacoinOutputID", i))
		s.add(types.Hash256(v2.SiafundOutputID(types.TransactionID(p), i)), k("V2Transaction.SiafundOutputID", i))
		s.add(types.Hash256(v2.V2FileContractID(types.TransactionID(p), i)), k("V2Transaction.V2FileContractID", i))
		s.add(types.Hash256(v2.AttestationID(types.TransactionID(p), i)), k("V2Transaction.AttestationID", i))
	}
}

func (r *runner) familyB() {
	if !r.wantFamily("B") {
		return
	}
	c := r.c
	nPar := vf.Pick(c, 3, 8)
	nIdx := vf.Pick(c, 8, 64)
	s := &idSet{r: r, m: map[types.Hash256]idKey{}}
	// level 0: the parents themselves (a derived ID must not equal its parent either)
	var raws []types.Hash256
	for p := 0; p < nPar; p++ {
		raw := r.g.h(fmt.Sprintf("B/raw%d", p))
		raws = append(raws, raw)
		s.add(raw, idKey{"raw-parent", fmt.Sprintf("raw%d", p), -1})
	}
	// level 1a: transaction-parented derivations of v1 / v2 templates
	for p := 0; p < nPar; p++ {
		tag := fmt.Sprintf("B%d", p)
		t1 := v1Template(r.g, tag)
		name := "v1tmpl" + tag
		s.add(types.Hash256(t1.ID()), idKey{"Transaction.ID", name, -1})
		s.add(t1.FullHash(), idKey{"Transaction.FullHash", name, -1})
		s.add(t1.MerkleLeafHash(), idKey{"Transaction.MerkleLeafHash", name, -1})
		for i := 0; i < nIdx; i++ {
			s.add(types.Hash256(t1.SiacoinOutputID(i)), idKey{"Transaction.SiacoinOutputID", name, i})
			sfo := t1.SiafundOutputID(i)
			s.add(types.Hash256(sfo), idKey{"Transaction.SiafundOutputID", name, i})
			s.add(types.Hash256(t1.FileContractID(i)), idKey{"Transaction.FileContractID", name, i})
			// by definition the claim output of the i-th siafund output: keyed as the derivation it is
			s.add(types.Hash256(t1.SiafundClaimOutputID(i)), idKey{"SiafundOutputID.ClaimOutputID", fmt.Sprintf("%x", sfo[:8]), -1})
		}
		for kind := kRenewal; kind <= kExpiration; kind++ {
			t2 := v2Template(r.g, tag, kind)
			n2 := "v2tmpl-" + kindName[kind] + tag
			id := t2.ID()
			s.add(types.Hash256(id), idKey{"V2Transaction.ID", n2, -1})
			s.add(t2.FullHash(), idKey{"V2Transaction.FullHash", n2, -1})
			s.add(t2.MerkleLeafHash(), idKey{"V2Transaction.MerkleLeafHash", n2, -1})
			s.add(synthState(13).InputSigHash(t2), idKey{"State.InputSigHash", n2, -1})
		}
	}
	// level 1b: every ID-parented derivation of every raw parent (same 32 bytes under every kind)
	for _, raw := range raws {
		s.fromParent(raw, nIdx)
	}
	c.Count("B:first_level_ids", s.n)
	// level 2: every first-level ID as the parent of every ID-parented derivation (indices 0..1)
	lvl1 := append([]types.Hash256(nil), s.lvl...)
	s.lvl = nil
	for _, p := range lvl1 {
		if c.Expired() {
			break
		}
		s.fromParent(p, 2)
	}
	if !c.Quick() {
		// level 3 on the (large) second level, index 0 only
		lvl2 := append([]types.Hash256(nil), s.lvl...)
		s.lvl = nil
		for _, p := range lvl2 {
			if c.Expired() {
				break
			}
			s.fromParent(p, 1)
		}
	}
	c.Count("B:ids_compared", s.n)
	c.Count("B:distinct_ids", int64(len(s.m)))
	c.Set("B:bounds", map[string]int{"parents": nPar, "indices": nIdx, "kinds": 13 + 4 + 3 + 1})
	c.Distinct("B", nPar, nIdx)
	c.Sample(map[string]any{"family": "B", "kinds": "MinerOutputID, FoundationOutputID, ClaimOutputID, V2ClaimOutputID, ValidOutputID, MissedOutputID, V2RenterOutputID, V2HostOutputID, V2RenewalID, v1 Siacoin/Siafund/FileContract/SiafundClaim output IDs, v2 Siacoin/Siafund/FileContract/Attestation IDs, txn IDs, FullHash, MerkleLeafHash, InputSigHash", "ids": s.n})
}
