package c12

import (
	"bytes"
	"fmt"

	"go.sia.tech/core/consensus"
	"go.sia.tech/core/types"
	"golang.org/x/crypto/blake2b"
	"verifmc/chain"
	"verifmc/vf"
)

// erasSpec: a compact network whose four v1 signature eras are each four
// blocks wide, so that every era has heights that are unambiguously inside it.
func erasSpec() chain.NetSpec {
	return chain.NetSpec{Name: "c12-eras", DevAddr: 1, Tax: 1, StorageProof: 1, Oak: 1, OakFix: 1, ASIC: 4, Fnd: 8, Allow: 12, Require: 18, FinalCut: 20,
		Maturity: 0, Interval: chain.SubsidyInterval}
}

var eraName = []string{"pre-ASIC", "ASIC", "Foundation", "v2-allow"}

// eraAt: the reference era function (naive thresholds).
func eraAt(sp chain.NetSpec, h uint64) int {
	switch {
	case h >= sp.Allow:
		return 3
	case h >= sp.Fnd:
		return 2
	case h >= sp.ASIC:
		return 1
	}
	return 0
}

// robust: the era of a parent state of height h does not depend on whether the
// thresholds are applied to the parent height or to the child height.
func robust(sp chain.NetSpec, h uint64) bool { return eraAt(sp, h) == eraAt(sp, h+1) }

// ---------- reference preimage model of the v2 signature hashes ----------

func encOf(f func(e *types.Encoder)) []byte {
	var buf bytes.Buffer
	e := types.NewEncoder(&buf)
	f(e)
	e.Flush()
	return buf.Bytes()
}

// refTagged = BLAKE2b-256("sia/" + purpose + "|" || prefix... || content)
func refTagged(purpose string, prefix []byte, content []byte) types.Hash256 {
	pre := append([]byte("sia/"+purpose+"|"), prefix...)
	return blake2b.Sum256(append(pre, content...))
}

type purpose struct {
	name   string // entry point
	tag    string // distinguisher of the model
	prefix []byte
}

var (
	pInput   = purpose{"State.InputSigHash", "sig/input", []byte{2}}
	pFC      = purpose{"State.ContractSigHash", "sig/filecontract", []byte{2}}
	pRenewal = purpose{"State.RenewalSigHash", "sig/filecontractrenewal", []byte{2}}
	pAtt     = purpose{"State.AttestationSigHash", "sig/attestation", []byte{2}}
	pTxnID   = purpose{"V2Transaction.ID", "id/transaction", nil}
	purposes = []purpose{pInput, pFC, pRenewal, pAtt, pTxnID}
)

func (r *runner) purposeModel() {
	c := r.c
	if !r.wantSub("purpose") {
		return
	}
	// the model's purposes must be pairwise distinct strings
	for i := range purposes {
		for j := i + 1; j < len(purposes); j++ {
			if purposes[i].tag == purposes[j].tag {
				c.HarnessError("model purposes not distinct")
			}
		}
	}
	cs := synthState(13)
	// pairwise distinctness of every hash computed here: same digest for a different (purpose, content) is a collision
	type member struct {
		purpose string
		content types.Hash256
		what    string
	}
	all := map[types.Hash256]member{}
	note := func(h types.Hash256, purposeName, what string, content []byte) {
		m := member{purposeName, types.HashBytes(content), what}
		if prev, ok := all[h]; ok && (prev.purpose != m.purpose || prev.content != m.content) {
			c.Violate("sighash|purpose-collision|"+prev.purpose+"="+m.purpose,
				fmt.Sprintf("two different purposes / contents give the same hash: %s %s and %s %s", prev.purpose, prev.what, m.purpose, m.what), r.desc("C", "purpose", "", "", what))
		}
		all[h] = m
		c.Count("C:purpose_pairwise_members", 1)
	}
	check := func(p purpose, what string, real types.Hash256, content []byte) {
		c.Count("evaluations", 1)
		if want := refTagged(p.tag, p.prefix, content); real != want {
			c.Violate(p.name+"|preimage-model-mismatch|"+p.tag,
				fmt.Sprintf("%s of %s is %s, reference model H(\"sia/%s|\" || %v || content) gives %s: the hash does not bind its purpose tag / replay prefix as specified", p.name, what, hx(real), p.tag, p.prefix, hx(want)),
				r.desc("C", "purpose", "", "", p.name))
		} else {
			c.Count("C:purpose_model_match", 1)
		}
		for _, q := range purposes {
			if q.tag == p.tag {
				continue
			}
			c.Count("evaluations", 1)
			if real == refTagged(q.tag, q.prefix, content) {
				c.Violate(p.name+"|purpose-not-bound|same-as-"+q.tag,
					fmt.Sprintf("%s of %s equals the hash of the same content under purpose %q: a signature for one purpose is valid for the other", p.name, what, q.tag),
					r.desc("C", "purpose", "", "", p.name))
			} else {
				c.Count("C:purpose_cross_distinct", 1)
			}
		}
		note(real, p.name, what, content)
		c.Distinct("C", "purpose", p.name, what)
	}
	for kind := kRenewal; kind <= kMixed; kind++ {
		t := v2Template(r.g, "a", kind)
		name := "v2-" + kindName[kind]
		sem := encOf(func(e *types.Encoder) { types.V2TransactionSemantics(t).EncodeTo(e) })
		check(pInput, name, cs.InputSigHash(t), sem)
		check(pTxnID, name, types.Hash256(t.ID()), sem)
		fcs := append([]types.V2FileContract(nil), t.FileContracts...)
		for _, rev := range t.FileContractRevisions {
			fcs = append(fcs, rev.Revision)
		}
		for _, res := range t.FileContractResolutions {
			if rn, ok := res.Resolution.(*types.V2FileContractRenewal); ok {
				fcs = append(fcs, rn.NewContract)
				x := *rn
				x.RenterSignature, x.HostSignature, x.NewContract.RenterSignature, x.NewContract.HostSignature = types.Signature{}, types.Signature{}, types.Signature{}, types.Signature{}
				check(pRenewal, name+" renewal", cs.RenewalSigHash(*rn), encOf(x.EncodeTo))
			}
		}
		for i, fc := range fcs {
			x := fc
			x.RenterSignature, x.HostSignature = types.Signature{}, types.Signature{}
			check(pFC, fmt.Sprintf("%s contract#%d", name, i), cs.ContractSigHash(fc), encOf(x.EncodeTo))
		}
		for i, a := range t.Attestations {
			x := a
			x.Signature = types.Signature{}
			check(pAtt, fmt.Sprintf("%s attestation#%d", name, i), cs.AttestationSigHash(a), encOf(x.EncodeTo))
		}
	}
	// v1 whole / partial hashes of one transaction in every era join the pairwise-distinct set
	t1 := v1Template(r.g, "a")
	sp := erasSpec()
	cf := types.CoveredFields{SiacoinInputs: []uint64{0, 1}, SiacoinOutputs: []uint64{0, 1}, SiafundInputs: []uint64{0}}
	for _, h := range []uint64{1, 5, 9, 13} {
		st := synthState(h)
		note(st.WholeSigHash(t1, t1.Signatures[0].ParentID, 0, 0, nil), "State.WholeSigHash/"+eraName[eraAt(sp, h)], "v1 template", nil)
		note(st.PartialSigHash(t1, cf), "State.PartialSigHash/"+eraName[eraAt(sp, h)], "v1 template", nil)
	}
	note(types.Hash256(t1.ID()), "Transaction.ID", "v1 template", nil)
	note(t1.FullHash(), "Transaction.FullHash", "v1 template", nil)
	c.Set("C:purpose_pairwise_distinct_set", len(all))
}

// ---------- era binding of the v1 signature hashes (hash level) ----------

func (r *runner) eraHashes(sp chain.NetSpec) {
	c := r.c
	if !r.wantSub("erahash/" + sp.Name) {
		return
	}
	n := sp.Network(chain.NewKeys(r.g.seed))
	maxH := uint64(24)
	t := v1Template(r.g, "a")
	cfIn := types.CoveredFields{SiacoinInputs: []uint64{1}, SiacoinOutputs: []uint64{0}}
	cfSF := types.CoveredFields{SiafundInputs: []uint64{0}, MinerFees: []uint64{0}}
	noIn := v1Template(r.g, "a")
	noIn.SiacoinInputs, noIn.SiafundInputs = nil, nil
	onlySC := v1Template(r.g, "a")
	onlySC.SiafundInputs = nil
	onlySF := v1Template(r.g, "a")
	onlySF.SiacoinInputs = nil
	const nv = 5
	type hs struct {
		h    uint64
		era  int
		v    [nv]types.Hash256
		noIn types.Hash256
	}
	var list []hs
	for h := uint64(0); h <= maxH; h++ {
		if !robust(sp, h) {
			continue
		}
		st := consensus.State{Network: n, Index: types.ChainIndex{Height: h}}
		list = append(list, hs{h, eraAt(sp, h), [nv]types.Hash256{st.WholeSigHash(t, t.Signatures[0].ParentID, 1, 0, nil), st.PartialSigHash(t, cfIn), st.PartialSigHash(t, cfSF),
			st.WholeSigHash(onlySC, t.Signatures[0].ParentID, 1, 0, nil), st.WholeSigHash(onlySF, t.Signatures[0].ParentID, 1, 0, nil)},
			st.WholeSigHash(noIn, noIn.Signatures[0].ParentID, 1, 0, nil)})
	}
	names := [nv]string{"State.WholeSigHash", "State.PartialSigHash", "State.PartialSigHash", "State.WholeSigHash", "State.WholeSigHash"}
	trig := [nv]string{"whole-transaction", "covered-siacoin-input", "covered-siafund-input", "whole-transaction-siacoin-inputs-only", "whole-transaction-siafund-inputs-only"}
	for i := range list {
		for j := i + 1; j < len(list); j++ {
			a, b := list[i], list[j]
			for k := 0; k < nv; k++ {
				c.Count("evaluations", 1)
				if a.era != b.era {
					if a.v[k] == b.v[k] {
						c.Violate(names[k]+"|era-not-bound|"+trig[k]+"|"+eraName[a.era]+"="+eraName[b.era],
							fmt.Sprintf("%s (%s) of the same transaction is identical at parent heights %d (era %s) and %d (era %s) of network %s: a signature can be replayed across the hardfork", names[k], trig[k], a.h, eraName[a.era], b.h, eraName[b.era], sp.Name),
							r.desc("C", "erahash/"+sp.Name, fmt.Sprint(a.h), fmt.Sprint(b.h), names[k]))
					} else {
						c.Count("C:era_pairs_distinct", 1)
					}
				} else if a.v[k] == b.v[k] {
					c.Count("C:same_era_equal(observed)", 1)
				} else {
					c.Count("C:same_era_differs(observed)", 1)
				}
			}
			if a.era != b.era {
				c.Count("evaluations", 1)
				if a.noIn == b.noIn {
					c.Count("C:inputless_whole_sighash_equal_across_eras", 1)
					c.Violate("State.WholeSigHash|era-not-bound|v1-transaction-without-siacoin-or-siafund-inputs",
						fmt.Sprintf("WholeSigHash of a v1 transaction WITHOUT siacoin/siafund inputs (contracts, revisions, proofs, outputs, fees, arbitrary data only) is identical at parent heights %d (era %s) and %d (era %s) of network %s: the replay prefix is only written in front of siacoin and siafund inputs, so the signature of e.g. a revision-only transaction binds no era", a.h, eraName[a.era], b.h, eraName[b.era], sp.Name),
						r.desc("C", "erahash/"+sp.Name, fmt.Sprint(a.h), fmt.Sprint(b.h), "WholeSigHash/no-inputs"))
				} else {
					c.Count("C:inputless_whole_sighash_distinct_across_eras", 1)
				}
			}
		}
		c.Distinct("C", "erahash", sp.Name, list[i].h)
	}
}

// ---------- era binding end to end ----------

type e2eKind struct {
	name string
	mk   func(w *chain.World) (chain.Use, bool) // signs with w.CS
	// expected per the statement: a cross-era submission is rejected
}

func partialSpend(w *chain.World, p types.SiacoinElement) chain.Use {
	c := w.Keys.ClassOf(p.SiacoinOutput.Address)
	txn := types.Transaction{SiacoinInputs: []types.SiacoinInput{{ParentID: p.ID, UnlockConditions: w.Keys.StdUC(chain.KeyOf(c))}},
		SiacoinOutputs: []types.SiacoinOutput{{Value: p.SiacoinOutput.Value, Address: w.Keys.Addr(chain.AddrV1)}}, ArbitraryData: [][]byte{{'p'}}}
	txn.Signatures = []types.TransactionSignature{{ParentID: types.Hash256(p.ID), PublicKeyIndex: 0,
		CoveredFields: types.CoveredFields{SiacoinInputs: []uint64{0}, SiacoinOutputs: []uint64{0}, ArbitraryData: []uint64{0}}}}
	w.FillV1Signatures(&txn)
	return chain.Use{Name: "v1spend-partial", V1: &txn, Resolves: true, SuppSC: []types.SiacoinElement{p.Copy()}}
}

func (r *runner) e2eEras(sp chain.NetSpec) {
	c := r.c
	sub := "e2e/" + sp.Name
	if !r.wantSub(sub) {
		return
	}
	if sp.Require <= 2 {
		return // no v1 transactions on this network
	}
	keys := chain.NewKeys(r.g.seed)
	w, p := chain.NewWorld(sp, keys, chain.DefaultAlloc(keys), chain.Options{CheckLedger: true, CheckSupply: true})
	if p != nil {
		c.HarnessError("C e2e %s: genesis: %v", sp.Name, p)
		return
	}
	top := uint64(16)
	if sp.Require-2 < top {
		top = sp.Require - 2
	}
	worlds := map[uint64]*chain.World{0: w.Clone()}
	for w.Height() < top {
		bc := w.NewBlockCtx()
		if w.Height() == 0 {
			// a long-lived v1 contract for the revision-only kind
			chain.V1Form(top+4, 2, 100).Do(bc)
		}
		b, bs := w.BuildBlock(bc.V1, bc.V2, chain.BlockOpts{})
		err, pr := w.Apply(b, bs)
		if err != nil || pr != nil {
			c.HarnessError("C e2e %s: base chain block %d rejected: %v %v", sp.Name, w.Height()+1, err, pr)
			return
		}
		worlds[w.Height()] = w.Clone()
	}
	// representative robust heights per era (first two of each era, >= 1 so that the contract exists)
	reps := map[int][]uint64{}
	for h := uint64(1); h <= top; h++ {
		if robust(sp, h) && len(reps[eraAt(sp, h)]) < 2 {
			reps[eraAt(sp, h)] = append(reps[eraAt(sp, h)], h)
		}
	}
	pickSC := func(w *chain.World) (types.SiacoinElement, bool) {
		return w.NewBlockCtx().PickSC(func(cl int) bool { return cl == chain.AddrV1 }, types.Siacoins(10))
	}
	kinds := []e2eKind{
		{"siacoin-spend/whole-signature", func(w *chain.World) (chain.Use, bool) {
			p, ok := pickSC(w)
			if !ok {
				return chain.Use{}, false
			}
			return w.UseV1SC(p, 'c'), true
		}},
		{"siafund-spend/whole-signature", func(w *chain.World) (chain.Use, bool) {
			p, ok := w.NewBlockCtx().PickSF(func(cl int) bool { return cl == chain.AddrV1 })
			if !ok {
				return chain.Use{}, false
			}
			return w.UseV1SF(p, 'c'), true
		}},
		{"siacoin-spend/partial-signature", func(w *chain.World) (chain.Use, bool) {
			p, ok := pickSC(w)
			if !ok {
				return chain.Use{}, false
			}
			return partialSpend(w, p), true
		}},
		{"revision-only/whole-signature", func(w *chain.World) (chain.Use, bool) {
			for _, e := range w.Ref.Live(chain.KFC) {
				if fce, ok := w.Store.FC[types.FileContractID(e.ID)]; ok {
					return w.UseV1Revise(fce, fce.FileContract, 1), true
				}
			}
			return chain.Use{}, false
		}},
	}
	submit := func(w *chain.World, u chain.Use) (accepted bool, ok bool) {
		cl := w.Clone()
		b, bs := cl.BlockOfUses(u)
		err, pr := cl.Apply(b, bs)
		if pr != nil {
			c.HarnessError("C e2e %s: oracle problem while submitting %s at height %d: %v", sp.Name, u.Name, w.Height()+1, pr)
			return false, false
		}
		return err == nil, true
	}
	for _, k := range kinds {
		inputless := k.name == "revision-only/whole-signature"
		for ea := 0; ea < 4; ea++ {
			for eb := 0; eb < 4; eb++ {
				if len(reps[ea]) == 0 || len(reps[eb]) == 0 {
					continue
				}
				ha := reps[ea][0]
				hb := reps[eb][0]
				if ea == eb {
					if len(reps[ea]) < 2 {
						continue
					}
					hb = reps[ea][1]
				}
				if !r.wantPath(k.name, fmt.Sprintf("%d->%d", ha, hb)) {
					continue
				}
				wa, wb := worlds[ha], worlds[hb]
				ua, ok := k.mk(wa)
				if !ok {
					continue
				}
				// control: signed and submitted in the same state
				c.Count("evaluations", 1)
				if acc, ok := submit(wa, ua); !ok {
					continue
				} else if !acc {
					c.Violate("ValidateBlock|control-rejected|"+k.name, fmt.Sprintf("network %s: honest %s signed at parent height %d rejected in the next block", sp.Name, k.name, ha), r.desc("C", sub, k.name, fmt.Sprintf("%d->%d", ha, hb), ""))
					continue
				}
				c.Count("C:e2e_control_accepted", 1)
				c.Count("evaluations", 1)
				acc, ok := submit(wb, ua)
				if !ok {
					continue
				}
				c.Distinct("C", "e2e", sp.Name, k.name, ea, eb)
				if ea == eb {
					if !acc {
						c.Violate("ValidateBlock|same-era-rejected|"+k.name, fmt.Sprintf("network %s: %s signed at parent height %d rejected at parent height %d although both are in era %s", sp.Name, k.name, ha, hb, eraName[ea]), r.desc("C", sub, k.name, fmt.Sprintf("%d->%d", ha, hb), ""))
					} else {
						c.Count("C:e2e_same_era_accepted", 1)
					}
					continue
				}
				if acc {
					if inputless {
						c.Count("C:e2e_inputless_cross_era_accepted", 1)
						c.Violate("ValidateBlock|cross-era-replay-accepted|v1-transaction-without-siacoin-or-siafund-inputs",
							fmt.Sprintf("network %s: a revision-only v1 transaction (no siacoin/siafund inputs) whose 2-of-2 whole-transaction signatures were made at parent height %d (era %s) is accepted unchanged by ValidateBlock at parent height %d (era %s): its signature hash contains no replay prefix", sp.Name, ha, eraName[ea], hb, eraName[eb]),
							r.desc("C", sub, k.name, fmt.Sprintf("%d->%d", ha, hb), ""))
					} else {
						c.Violate("ValidateBlock|cross-era-replay-accepted|"+k.name+"|"+eraName[ea]+"->"+eraName[eb],
							fmt.Sprintf("network %s: %s signed at parent height %d (era %s) is accepted unchanged at parent height %d (era %s)", sp.Name, k.name, ha, eraName[ea], hb, eraName[eb]),
							r.desc("C", sub, k.name, fmt.Sprintf("%d->%d", ha, hb), ""))
					}
				} else {
					if inputless {
						c.Count("C:e2e_inputless_cross_era_rejected", 1)
					} else {
						c.Count("C:e2e_cross_era_rejected", 1)
					}
				}
				// re-signed in era B
				ub, ok := k.mk(wb)
				if !ok {
					continue
				}
				c.Count("evaluations", 1)
				if acc, ok := submit(wb, ub); ok && !acc {
					c.Violate("ValidateBlock|control-rejected|"+k.name, fmt.Sprintf("network %s: %s re-signed at parent height %d rejected", sp.Name, k.name, hb), r.desc("C", sub, k.name, fmt.Sprintf("%d->%d", ha, hb), ""))
				} else if ok {
					c.Count("C:e2e_resigned_accepted", 1)
				}
			}
		}
	}
	c.Set("C:e2e_heights/"+sp.Name, reps)
}

// ---------- object signature hashes under field mutation ----------

func (r *runner) objectSigHashes() {
	c := r.c
	if !r.wantSub("object") {
		return
	}
	cs := synthState(13)
	one := func(name, entry string, ptr any, tab *table, f func() types.Hash256) {
		base := f()
		for _, m := range mutations(ptr, nil) {
			cls := tab.classify(m.Field)
			if cls == unclassified {
				c.HarnessError("unclassified-field:%s (%s)", m.Field, name)
				continue
			}
			if !r.wantPath(name+m.Path, "") {
				continue
			}
			m.Apply()
			now := f()
			m.Undo()
			c.Count("evaluations", 1)
			c.Distinct("C", "object", name, m.Field, m.Op)
			switch {
			case cls == effect && now == base:
				c.Violate(entry+"|field-not-bound|"+m.Field, fmt.Sprintf("%s of %s unchanged under mutation %q: the signature does not cover the field", entry, name, m.Path), r.desc("C", "object", name+m.Path, "", entry))
			case cls == effect:
				c.Count("C:object_sighash_changed", 1)
			case cls == witness && now != base:
				c.Violate(entry+"|own-signature-bound|"+m.Field, fmt.Sprintf("%s of %s changes with the object's own signature field (%q): the two parties could never sign the same hash", entry, name, m.Path), r.desc("C", "object", name+m.Path, "", entry))
			case cls == witness:
				c.Count("C:object_sighash_own_sig_unchanged", 1)
			}
		}
		if f() != base {
			c.HarnessError("object %s not restored", name)
		}
	}
	fc := r.g.v2fc("objfc")
	one("contract", "State.ContractSigHash", &fc, contractSigTable(), func() types.Hash256 { return cs.ContractSigHash(fc) })
	rn := *r.g.renewal("objrn")
	one("renewal", "State.RenewalSigHash", &rn, renewalSigTable(), func() types.Hash256 { return cs.RenewalSigHash(rn) })
	at := types.Attestation{PublicKey: r.g.pk("objatt"), Key: "HostAnnouncement", Value: r.g.bytes("objattv", 12), Signature: r.g.sig("objatt")}
	one("attestation", "State.AttestationSigHash", &at, attestationSigTable(), func() types.Hash256 { return cs.AttestationSigHash(at) })
}

func (r *runner) familyC() {
	if !r.wantFamily("C") {
		return
	}
	c := r.c
	r.purposeModel()
	r.objectSigHashes()
	nets := []chain.NetSpec{erasSpec(), chain.Spec("v1-eras"), chain.Spec("mixed")}
	if !c.Quick() {
		nets = append([]chain.NetSpec{erasSpec()}, chain.Specs()...)
	}
	for _, sp := range nets {
		r.eraHashes(sp)
	}
	vf.ParallelFor(len(nets), func(i int) { r.e2eEras(nets[i]) })
	c.Sample(map[string]any{"family": "C", "network": "c12-eras (ASIC 4, Foundation 8, v2 allow 12, require 18)", "case": "v1 siacoin spend, whole-transaction signature made at parent height 5 (ASIC era), submitted unchanged at parent height 9 (Foundation era)", "expected": "ValidateBlock rejects; re-signed at height 9: accepts; submitted at height 6: accepts"})
}
