package c12

import "strings"

// Field classification written from the property statement (DESIGN Appendix C).
//
//	effect  : changing the field MUST change the ID (and every derived ID) and the signature hash
//	witness : changing the field MUST NOT change the ID
//	unspec  : the statement is silent; nothing is asserted, the observed behaviour is counted
//
// Keys are the walker's Field strings (indices replaced by [*], dynamic types of
// interface values in parentheses). A Field the walk produces that is in no
// table is a harness error, so that a new struct field cannot slip through.
type class int

const (
	unclassified class = iota
	effect
	witness
	unspec
)

func (c class) String() string {
	return [...]string{"unclassified", "effect", "witness", "unspec"}[c]
}

type table struct {
	exact    map[string]class
	subtrees map[string]class // explicit subtree rules (kept to the bare minimum)
}

func newTable() *table { return &table{exact: map[string]class{}, subtrees: map[string]class{}} }

func (t *table) set(c class, prefix string, fields ...string) {
	for _, f := range fields {
		t.exact[prefix+f] = c
	}
}

func (t *table) classify(field string) class {
	if c, ok := t.exact[field]; ok {
		return c
	}
	for p, c := range t.subtrees {
		if field == p || strings.HasPrefix(field, p+".") || strings.HasPrefix(field, p+"(") || strings.HasPrefix(field, p+"[") {
			return c
		}
	}
	return unclassified
}

func (t *table) size() int { return len(t.exact) + len(t.subtrees) }

var ucFields = []string{".Timelock", ".PublicKeys", ".PublicKeys[*].Algorithm", ".PublicKeys[*].Key", ".SignaturesRequired"}
var scoFields = []string{".Value", ".Address"}
var v1fcFieldsNoPayout = []string{".Filesize", ".FileMerkleRoot", ".WindowStart", ".WindowEnd",
	".ValidProofOutputs", ".ValidProofOutputs[*].Value", ".ValidProofOutputs[*].Address",
	".MissedProofOutputs", ".MissedProofOutputs[*].Value", ".MissedProofOutputs[*].Address", ".UnlockHash", ".RevisionNumber"}

// v1IDTable: "everything effect except Signatures[*] (witness) and
// FileContractRevisions[*].Payout (unspec, not transmitted)".
func v1IDTable() *table {
	t := newTable()
	t.set(effect, "", ".SiacoinInputs", ".SiacoinInputs[*].ParentID")
	t.set(effect, ".SiacoinInputs[*].UnlockConditions", ucFields...)
	t.set(effect, "", ".SiacoinOutputs")
	t.set(effect, ".SiacoinOutputs[*]", scoFields...)
	t.set(effect, "", ".FileContracts")
	t.set(effect, ".FileContracts[*]", v1fcFieldsNoPayout...)
	t.set(effect, ".FileContracts[*]", ".Payout")
	t.set(effect, "", ".FileContractRevisions", ".FileContractRevisions[*].ParentID")
	t.set(effect, ".FileContractRevisions[*].UnlockConditions", ucFields...)
	t.set(effect, ".FileContractRevisions[*].FileContract", v1fcFieldsNoPayout...)
	t.set(unspec, ".FileContractRevisions[*].FileContract", ".Payout")
	t.set(effect, "", ".StorageProofs", ".StorageProofs[*].ParentID", ".StorageProofs[*].Leaf", ".StorageProofs[*].Proof", ".StorageProofs[*].Proof[*]")
	t.set(effect, "", ".SiafundInputs", ".SiafundInputs[*].ParentID", ".SiafundInputs[*].ClaimAddress")
	t.set(effect, ".SiafundInputs[*].UnlockConditions", ucFields...)
	t.set(effect, "", ".SiafundOutputs")
	t.set(effect, ".SiafundOutputs[*]", scoFields...)
	t.set(effect, "", ".MinerFees", ".MinerFees[*]", ".ArbitraryData", ".ArbitraryData[*]")
	t.set(witness, "", ".Signatures")
	t.set(witness, ".Signatures[*]", ".ParentID", ".PublicKeyIndex", ".Timelock", ".Signature", ".CoveredFields.WholeTransaction")
	for _, f := range []string{"SiacoinInputs", "SiacoinOutputs", "FileContracts", "FileContractRevisions", "StorageProofs", "SiafundInputs", "SiafundOutputs", "MinerFees", "ArbitraryData", "Signatures"} {
		t.set(witness, ".Signatures[*].CoveredFields.", f, f+"[*]")
	}
	return t
}

var stateElementFields = []string{".StateElement.LeafIndex", ".StateElement.MerkleProof", ".StateElement.MerkleProof[*]"}
var v2fcContentFields = []string{".Capacity", ".Filesize", ".FileMerkleRoot", ".ProofHeight", ".ExpirationHeight",
	".RenterOutput.Value", ".RenterOutput.Address", ".HostOutput.Value", ".HostOutput.Address", ".MissedHostValue", ".TotalCollateral",
	".RenterPublicKey", ".HostPublicKey", ".RevisionNumber"}
var v2fcSigFields = []string{".RenterSignature", ".HostSignature"}

// v2IDTable transcribes DESIGN Appendix C for V2Transaction.
func v2IDTable() *table {
	t := newTable()
	// siacoin inputs: parent ID effect; rest of the parent element and the satisfied policy witness
	t.set(effect, "", ".SiacoinInputs", ".SiacoinInputs[*].Parent.ID")
	t.set(witness, ".SiacoinInputs[*].Parent", stateElementFields...)
	t.set(witness, ".SiacoinInputs[*].Parent", ".SiacoinOutput.Value", ".SiacoinOutput.Address", ".MaturityHeight")
	t.subtrees[".SiacoinInputs[*].SatisfiedPolicy"] = witness
	t.set(effect, "", ".SiacoinOutputs")
	t.set(effect, ".SiacoinOutputs[*]", scoFields...)
	// siafund inputs: parent ID and CLAIM ADDRESS effect
	t.set(effect, "", ".SiafundInputs", ".SiafundInputs[*].Parent.ID", ".SiafundInputs[*].ClaimAddress")
	t.set(witness, ".SiafundInputs[*].Parent", stateElementFields...)
	t.set(witness, ".SiafundInputs[*].Parent", ".SiafundOutput.Value", ".SiafundOutput.Address", ".ClaimStart")
	t.subtrees[".SiafundInputs[*].SatisfiedPolicy"] = witness
	t.set(effect, "", ".SiafundOutputs")
	t.set(effect, ".SiafundOutputs[*]", scoFields...)
	// contracts: every field effect except the two signatures
	t.set(effect, "", ".FileContracts")
	t.set(effect, ".FileContracts[*]", v2fcContentFields...)
	t.set(witness, ".FileContracts[*]", v2fcSigFields...)
	// revisions
	t.set(effect, "", ".FileContractRevisions", ".FileContractRevisions[*].Parent.ID")
	t.set(witness, ".FileContractRevisions[*].Parent", stateElementFields...)
	t.set(witness, ".FileContractRevisions[*].Parent.V2FileContract", v2fcContentFields...)
	t.set(witness, ".FileContractRevisions[*].Parent.V2FileContract", v2fcSigFields...)
	t.set(effect, ".FileContractRevisions[*].Revision", v2fcContentFields...)
	t.set(witness, ".FileContractRevisions[*].Revision", v2fcSigFields...)
	// resolutions
	t.set(effect, "", ".FileContractResolutions", ".FileContractResolutions[*].Parent.ID", ".FileContractResolutions[*].Resolution")
	t.set(witness, ".FileContractResolutions[*].Parent", stateElementFields...)
	t.set(witness, ".FileContractResolutions[*].Parent.V2FileContract", v2fcContentFields...)
	t.set(witness, ".FileContractResolutions[*].Parent.V2FileContract", v2fcSigFields...)
	rn := ".FileContractResolutions[*].Resolution(V2FileContractRenewal)"
	t.set(effect, rn, ".FinalRenterOutput.Value", ".FinalRenterOutput.Address", ".FinalHostOutput.Value", ".FinalHostOutput.Address", ".RenterRollover", ".HostRollover")
	t.set(effect, rn+".NewContract", v2fcContentFields...)
	t.set(witness, rn+".NewContract", v2fcSigFields...)
	t.set(witness, rn, ".RenterSignature", ".HostSignature")
	sp := ".FileContractResolutions[*].Resolution(V2StorageProof)"
	t.set(witness, sp, ".ProofIndex.StateElement.MerkleProof", ".ProofIndex.StateElement.MerkleProof[*]")
	t.set(unspec, sp, ".ProofIndex.ID", ".ProofIndex.StateElement.LeafIndex", ".ProofIndex.ChainIndex.Height", ".ProofIndex.ChainIndex.ID", ".Leaf", ".Proof", ".Proof[*]")
	// attestations
	t.set(effect, "", ".Attestations", ".Attestations[*].PublicKey", ".Attestations[*].Key", ".Attestations[*].Value")
	t.set(unspec, "", ".Attestations[*].Signature")
	t.set(effect, "", ".ArbitraryData", ".NewFoundationAddress", ".MinerFee")
	return t
}

// fullClass: FullHash / MerkleLeafHash cover every field; the one documented
// exception is the Payout of a v1 revision, which is not part of the encoding
// at all (DESIGN Appendix D).
func fullClass(v1 bool, field string) class {
	if v1 && field == ".FileContractRevisions[*].FileContract.Payout" {
		return unspec
	}
	return effect
}

// object sighash tables: effect = must change the hash, witness = the object's
// own signature field(s), must not change it.
func contractSigTable() *table {
	t := newTable()
	t.set(effect, "", v2fcContentFields...)
	t.set(witness, "", v2fcSigFields...)
	return t
}

func renewalSigTable() *table {
	t := newTable()
	t.set(effect, "", ".FinalRenterOutput.Value", ".FinalRenterOutput.Address", ".FinalHostOutput.Value", ".FinalHostOutput.Address", ".RenterRollover", ".HostRollover")
	t.set(effect, ".NewContract", v2fcContentFields...)
	t.set(witness, ".NewContract", v2fcSigFields...)
	t.set(witness, "", ".RenterSignature", ".HostSignature")
	return t
}

func attestationSigTable() *table {
	t := newTable()
	t.set(effect, "", ".PublicKey", ".Key", ".Value")
	t.set(witness, "", ".Signature")
	return t
}
