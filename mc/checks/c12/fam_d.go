package c12

import (
	"bytes"
	"fmt"
	"strings"

	"go.sia.tech/core/consensus"
	"go.sia.tech/core/types"
	"verifmc/chain"
	"verifmc/vf"
)

// richMenu: every honest action of the chain engine; the builder keeps the
// ones whose preconditions hold, so blocks carry several transactions of
// several kinds.
func richMenu(h uint64) []chain.Action {
	m := []chain.Action{
		chain.V1Pay(true, 2), chain.V1Chain(), chain.V1SF(true), chain.V1Form(2, 3, 100), chain.V1Revise("pay"), chain.V1Proof(false),
		chain.V2Pay(chain.AddrV2, true, 2), chain.V2Pay(chain.AddrV1, false, 1), chain.V2Chain(chain.AddrV2), chain.V2SF(true),
		chain.V2Form(1, 2, 100), chain.V2Revise("pay"), chain.V2Proof(), chain.V2Expire(), chain.V2Attest(),
	}
	switch h % 5 {
	case 4:
		return nil // an empty block (v2: commitment over the parent state and miner address only)
	case 2:
		return m[:6] // v1 transactions only (a v2 block without v2 transactions between allow and require height)
	}
	if h%2 == 0 {
		m = append(m, chain.V2Renew("partial"))
	}
	if h%3 == 0 {
		m = append(m, chain.V2Foundation(false), chain.V1Foundation())
	}
	return m
}

// richHistory builds a chain whose blocks are as full as the honest menu allows.
func (r *runner) richHistory(sp chain.NetSpec, H uint64) *chain.World {
	c := r.c
	keys := chain.NewKeys(r.g.seed)
	w, p := chain.NewWorld(sp, keys, chain.DefaultAlloc(keys), chain.Options{CheckLedger: true, CheckSupply: true, HasAtt: true})
	if p != nil {
		c.HarnessError("D %s: genesis: %v", sp.Name, p)
		return nil
	}
	for w.Height() < H {
		menu := richMenu(w.ChildHeight())
		applied := false
		// try the full menu; if the combination is rejected drop actions from the end
		for n := len(menu); n >= 0 && !applied; n-- {
			cl := w.Clone()
			bc := cl.NewBlockCtx()
			for _, a := range menu[:n] {
				a.Do(bc)
			}
			b, bs := cl.BuildBlock(bc.V1, bc.V2, chain.BlockOpts{})
			err, pr := cl.Apply(b, bs)
			if pr != nil {
				c.HarnessError("D %s: oracle problem in base chain at height %d: %v", sp.Name, cl.Height(), pr)
				return nil
			}
			if err == nil {
				if n < len(menu) {
					c.Count("D:menu_truncated_blocks", 1)
				}
				*w = *cl
				applied = true
			}
		}
		if !applied {
			c.HarnessError("D %s: even the empty block is rejected at height %d", sp.Name, w.ChildHeight())
			return nil
		}
	}
	return w
}

// blockEnc: full encoding of the block CONTENT (everything except parent ID,
// nonce, timestamp and the v2 commitment field), used only to recognise no-op
// mutations.
func blockEnc(b *types.Block) []byte {
	return encOf(func(e *types.Encoder) {
		e.WriteUint64(uint64(len(b.MinerPayouts)))
		for _, mp := range b.MinerPayouts {
			types.V2SiacoinOutput(mp).EncodeTo(e)
		}
		e.WriteUint64(uint64(len(b.Transactions)))
		for _, t := range b.Transactions {
			t.EncodeTo(e)
		}
		e.WriteBool(b.V2 != nil)
		if b.V2 != nil {
			e.WriteUint64(b.V2.Height)
			e.WriteUint64(uint64(len(b.V2.Transactions)))
			for _, t := range b.V2.Transactions {
				t.EncodeTo(e)
			}
		}
	})
}

func headerKept(field string) bool {
	switch field {
	case ".ParentID", ".Nonce", ".Timestamp", ".V2.Commitment":
		return true
	}
	return false
}

func committed(field string) bool {
	return strings.HasPrefix(field, ".MinerPayouts[*].Address") || strings.HasPrefix(field, ".Transactions") || strings.HasPrefix(field, ".V2.Transactions")
}

func (r *runner) blockMutations(sp chain.NetSpec, a *chain.Applied) {
	c := r.c
	b := deepCopy(a.B)
	cs, bs := a.PrevCS, a.BS
	h := cs.Index.Height + 1
	sub := fmt.Sprintf("%s/block%d", sp.Name, h)
	if !r.wantSub(sub) {
		return
	}
	ver := "v1"
	if b.V2 != nil {
		ver = "v2"
	}
	validate := func(s consensus.State) (err error, panicked bool) {
		p, _ := vf.Try(func() { err = consensus.ValidateBlock(s, b, bs) })
		return err, p != nil
	}
	origID := b.ID()
	enc0 := blockEnc(&b)
	if err, pn := validate(cs); err != nil || pn {
		c.HarnessError("D %s: original block rejected: %v", sub, err)
		return
	}
	c.Count("D:original_accepted", 1)
	c.Count("D:blocks_"+ver, 1)
	switch {
	case len(b.Transactions)+len(b.V2Transactions()) == 0:
		c.Count("D:blocks_"+ver+"_empty", 1)
	case b.V2 != nil && len(b.V2.Transactions) == 0:
		c.Count("D:blocks_v2_with_v1_transactions_only", 1)
	case b.V2 != nil && len(b.Transactions) > 0:
		c.Count("D:blocks_v2_with_v1_and_v2_transactions", 1)
	}
	c.Count("D:transactions_in_blocks", int64(len(b.Transactions)+len(b.V2Transactions())))
	for _, m := range mutations(&b, headerKept) {
		if !r.wantPath(m.Path, "") {
			continue
		}
		m.Apply()
		var id types.BlockID
		var enc []byte
		var err error
		var pn, hasCom bool
		var com types.Hash256
		// a mutant that cannot even be encoded (zero-valued input with a nil policy) cannot be transmitted at all
		encPanic, _ := vf.Try(func() {
			id = b.ID()
			enc = blockEnc(&b)
		})
		if encPanic == nil {
			err, pn = validate(cs)
			if b.V2 != nil && len(b.MinerPayouts) > 0 && committed(m.Field) {
				if p, _ := vf.Try(func() { com = cs.Commitment(b.MinerPayouts[0].Address, b.Transactions, b.V2Transactions()) }); p == nil {
					hasCom = true
				}
			}
		}
		m.Undo()
		c.Count("evaluations", 1)
		if encPanic != nil {
			c.Count("D:unencodable_mutants(skipped)", 1)
			continue
		}
		if bytes.Equal(enc, enc0) {
			c.Count("D:noop_mutations", 1)
			r.noteUnspec("block-content no-op (not encoded)", m.Field, false)
			continue
		}
		c.Distinct("D", sp.Name, h, m.Field, m.Op)
		if pn {
			c.Count("D:validate_panicked(counted as rejected)", 1)
		}
		rejected := err != nil || pn
		switch {
		case !rejected && id == origID:
			c.Violate("ValidateBlock|content-change-accepted-with-same-id|"+ver+"|"+m.Field,
				fmt.Sprintf("%s block at height %d of network %s: after mutation %q (parent ID, nonce, timestamp%s kept) ValidateBlock still accepts the block and its ID is unchanged (%s): the block ID does not bind this content", ver, h, sp.Name, m.Path, map[string]string{"v1": "", "v2": ", commitment"}[ver], hx(types.Hash256(id))),
				r.desc("D", sub, m.Path, "", "Block.ID"))
		case rejected && id != origID:
			c.Count("D:"+ver+"_rejected_and_id_changed", 1)
		case rejected:
			c.Count("D:"+ver+"_rejected", 1)
		default:
			c.Count("D:"+ver+"_accepted_with_new_id", 1)
		}
		if ver == "v1" && b.V2 == nil {
			if id == origID {
				c.Violate("Block.ID|content-not-bound|v1|"+m.Field, fmt.Sprintf("v1 block at height %d of %s: ID unchanged after mutation %q", h, sp.Name, m.Path), r.desc("D", sub, m.Path, "", "Block.ID"))
			} else {
				c.Count("D:v1_id_changed", 1)
			}
		}
		if hasCom {
			if com == a.B.V2.Commitment {
				c.Violate("State.Commitment|content-not-bound|"+m.Field, fmt.Sprintf("v2 block at height %d of %s: commitment unchanged after mutation %q", h, sp.Name, m.Path), r.desc("D", sub, m.Path, "", "State.Commitment"))
			} else {
				c.Count("D:commitment_changed", 1)
				if strings.HasPrefix(m.Field, ".MinerPayouts[*].Address") {
					c.Count("D:miner_addr_commitment_changed", 1)
				}
			}
		}
	}
	if b.ID() != origID || !bytes.Equal(blockEnc(&b), enc0) {
		c.HarnessError("D %s: block not restored after the mutation loop", sub)
	}
	if ver == "v2" {
		r.parentStateMutations(sp, sub, a, b, bs)
	}
}

// parentStateMutations: one changed (encoded) field of the parent state => the
// block's commitment no longer matches and the block is rejected.
func (r *runner) parentStateMutations(sp chain.NetSpec, sub string, a *chain.Applied, b types.Block, bs consensus.V1BlockSupplement) {
	c := r.c
	cs := a.PrevCS
	want := b.V2.Commitment
	addr := b.MinerPayouts[0].Address
	base := chain.StateBytes(cs)
	if cs.Commitment(addr, b.Transactions, b.V2.Transactions) != want {
		c.HarnessError("D %s: commitment of the accepted block not reproducible", sub)
		return
	}
	judge := func(s consensus.State, field, path string) {
		c.Count("evaluations", 1)
		c.Distinct("D", "state", sp.Name, cs.Index.Height, path)
		if s.Commitment(addr, b.Transactions, b.V2.Transactions) == want {
			c.Violate("State.Commitment|parent-state-not-bound|"+field,
				fmt.Sprintf("v2 block at height %d of %s: the commitment computed on a parent state that differs in %s (%s) equals the block's commitment: the block ID does not bind this part of the parent state", cs.Index.Height+1, sp.Name, field, path),
				r.desc("D", sub, "state:"+path, "", "State.Commitment"))
			return
		}
		c.Count("D:state_field_commitment_changed", 1)
		var err error
		p, _ := vf.Try(func() { err = consensus.ValidateBlock(s, b, bs) })
		if err == nil && p == nil {
			c.Violate("ValidateBlock|parent-state-change-accepted|"+field, fmt.Sprintf("v2 block at height %d of %s accepted on a parent state differing in %s", cs.Index.Height+1, sp.Name, path), r.desc("D", sub, "state:"+path, "", "ValidateBlock"))
		} else {
			c.Count("D:state_mutant_block_rejected", 1)
		}
	}
	s2 := cs
	for _, m := range mutations(&s2, func(f string) bool { return f == ".Network" }) {
		if !r.wantPath("state:"+m.Path, "") {
			continue
		}
		m.Apply()
		if bytes.Equal(chain.StateBytes(s2), base) {
			c.Count("D:state_field_not_encoded", 1)
			r.noteUnspec("parent-state field not encoded", m.Field, false)
		} else {
			judge(s2, m.Field, m.Path)
		}
		m.Undo()
	}
	if !bytes.Equal(chain.StateBytes(s2), base) {
		c.HarnessError("D %s: state not restored", sub)
	}
	// every byte of the state encoding (covers unexported fields such as Work)
	masks := vf.Pick(c, []byte{0x01}, []byte{0x01, 0x02, 0x04, 0x08, 0x10, 0x20, 0x40, 0x80})
	for pos := range base {
		for _, mask := range masks {
			path := fmt.Sprintf("encoding byte %d ^ %#x", pos, mask)
			if !r.wantPath("state:"+path, "") {
				continue
			}
			mb := append([]byte(nil), base...)
			mb[pos] ^= mask
			var s3 consensus.State
			s3.Network = cs.Network
			d := types.NewBufDecoder(mb)
			p, _ := vf.Try(func() { s3.DecodeFrom(d) })
			if p != nil || d.Err() != nil || !bytes.Equal(chain.StateBytes(s3), mb) {
				c.Count("D:state_byteflip_undecodable", 1)
				continue
			}
			c.Count("D:state_byteflips", 1)
			judge(s3, "encoded-state-byte", path)
		}
	}
}

func (r *runner) familyD() {
	if !r.wantFamily("D") {
		return
	}
	c := r.c
	nets := []chain.NetSpec{chain.Spec("mixed"), chain.Spec("v1-eras"), chain.Spec("v2-only")}
	H := uint64(12)
	if !c.Quick() {
		nets = append(nets, chain.Spec("v2-eph5"), chain.Spec("v1-mid"), chain.Spec("v1-early"), chain.Spec("acc"), erasSpec())
		H = 16
	}
	type job struct {
		sp chain.NetSpec
		a  *chain.Applied
	}
	var jobs []job
	hist := make([]*chain.World, len(nets))
	vf.ParallelFor(len(nets), func(i int) { hist[i] = r.richHistory(nets[i], H) })
	for i, w := range hist {
		if w == nil {
			continue
		}
		ntx := 0
		for _, a := range w.Hist[1:] {
			jobs = append(jobs, job{nets[i], a})
			ntx += len(a.B.Transactions) + len(a.B.V2Transactions())
		}
		c.Set("D:history/"+nets[i].Name, map[string]any{"blocks": len(w.Hist) - 1, "transactions": ntx})
	}
	vf.ParallelFor(len(jobs), func(i int) {
		if c.Expired() {
			return
		}
		r.blockMutations(jobs[i].sp, jobs[i].a)
	})
	c.Sample(map[string]any{"family": "D", "network": "mixed", "block": "height 6 (v2 block with v1 and v2 transactions)", "mutation": ".V2.Transactions[2].SiacoinOutputs[0].Address [byte 31]^1", "expected": "rejected (commitment mismatch), commitment of mutated content differs"})
}
