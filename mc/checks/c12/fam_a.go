package c12

import (
	"fmt"
	"strings"
	"sync"

	"go.sia.tech/core/consensus"
	"go.sia.tech/core/types"
	"verifmc/chain"
	"verifmc/vf"
)

// hvec is a vector of hashes computed from the walked subject together with
// the classification that says how it must react to a mutation.
type hvec struct {
	name          string
	compute       func() ([]string, []types.Hash256) // entry point names (for signatures), digests
	classOf       func(m mut) class
	assertWitness bool             // witness => every entry unchanged is asserted (IDs); otherwise only observed
	skip          func(m mut) bool // mutation not applicable to this vector
	counter       string           // counter prefix
}

type subject struct {
	name string
	ptr  any
	vecs []hvec
}

// synthetic state for the per-field sighash vectors (only the replay prefix depends on it)
func synthState(height uint64) consensus.State {
	n := erasSpec().Network(chain.NewKeys(1))
	return consensus.State{Network: n, Index: types.ChainIndex{Height: height}}
}

func isTopSliceOp(m mut) bool {
	return !strings.Contains(m.Field, "[*]") && strings.HasPrefix(m.Op, "[") && !strings.HasPrefix(m.Op, "[byte")
}

func v1Subject(g gen, tag string) subject {
	t := v1Template(g, tag)
	tab := v1IDTable()
	cs := synthState(9) // foundation era of the c12-eras network
	idc := func(m mut) class { return tab.classify(m.Field) }
	sigc := func(m mut) class { return tab.classify(m.Field) }
	allCovered := types.CoveredFields{SiacoinInputs: []uint64{0, 1}, SiacoinOutputs: []uint64{0, 1}, FileContracts: []uint64{0, 1}, FileContractRevisions: []uint64{0, 1},
		StorageProofs: []uint64{0, 1}, SiafundInputs: []uint64{0, 1}, SiafundOutputs: []uint64{0, 1}, MinerFees: []uint64{0, 1}, ArbitraryData: []uint64{0, 1}}
	return subject{name: "v1/" + tag, ptr: &t, vecs: []hvec{
		{name: "v1.ID+derived", classOf: idc, assertWitness: true, counter: "A:", compute: func() ([]string, []types.Hash256) {
			n := []string{"Transaction.ID"}
			h := []types.Hash256{types.Hash256(t.ID())}
			for i := 0; i < 2; i++ {
				n = append(n, "Transaction.SiacoinOutputID", "Transaction.SiafundOutputID", "Transaction.FileContractID", "Transaction.SiafundClaimOutputID")
				h = append(h, types.Hash256(t.SiacoinOutputID(i)), types.Hash256(t.SiafundOutputID(i)), types.Hash256(t.FileContractID(i)), types.Hash256(t.SiafundClaimOutputID(i)))
			}
			return n, h
		}},
		{name: "v1.FullHash", classOf: func(m mut) class { return fullClass(true, m.Field) }, counter: "A:full_", compute: func() ([]string, []types.Hash256) {
			return []string{"Transaction.FullHash", "Transaction.MerkleLeafHash"}, []types.Hash256{t.FullHash(), t.MerkleLeafHash()}
		}},
		{name: "v1.WholeSigHash", classOf: sigc, counter: "C:field_", compute: func() ([]string, []types.Hash256) {
			return []string{"State.WholeSigHash"}, []types.Hash256{cs.WholeSigHash(t, t.Signatures[0].ParentID, 0, 0, nil)}
		}, skip: func(m mut) bool { return m.Field == ".Signatures" }},
		{name: "v1.PartialSigHash(all indices 0,1 covered)", classOf: sigc, counter: "C:field_", skip: isTopSliceOp, compute: func() ([]string, []types.Hash256) {
			return []string{"State.PartialSigHash"}, []types.Hash256{cs.PartialSigHash(t, allCovered)}
		}},
	}}
}

func v2Subject(g gen, tag string, kind int) subject {
	t := v2Template(g, tag, kind)
	tab := v2IDTable()
	cs := synthState(13)
	idc := func(m mut) class { return tab.classify(m.Field) }
	sigc := func(m mut) class { return tab.classify(m.Field) }
	return subject{name: "v2-" + kindName[kind] + "/" + tag, ptr: &t, vecs: []hvec{
		{name: "v2.ID+derived", classOf: idc, assertWitness: true, counter: "A:", compute: func() ([]string, []types.Hash256) {
			id := t.ID()
			n := []string{"V2Transaction.ID"}
			h := []types.Hash256{types.Hash256(id)}
			for i := 0; i < 2; i++ {
				n = append(n, "V2Transaction.SiacoinOutputID", "V2Transaction.SiafundOutputID", "V2Transaction.V2FileContractID", "V2Transaction.AttestationID")
				h = append(h, types.Hash256(t.SiacoinOutputID(id, i)), types.Hash256(t.SiafundOutputID(id, i)), types.Hash256(t.V2FileContractID(id, i)), types.Hash256(t.AttestationID(id, i)))
			}
			if len(t.SiacoinOutputs) > 0 && len(t.SiafundOutputs) > 0 {
				n = append(n, "V2Transaction.EphemeralSiacoinOutput.ID", "V2Transaction.EphemeralSiafundOutput.ID")
				h = append(h, types.Hash256(t.EphemeralSiacoinOutput(0).ID), types.Hash256(t.EphemeralSiafundOutput(0).ID))
			} else {
				n = append(n, "V2Transaction.EphemeralSiacoinOutput.ID", "V2Transaction.EphemeralSiafundOutput.ID")
				h = append(h, types.Hash256(t.SiacoinOutputID(id, 0)), types.Hash256(t.SiafundOutputID(id, 0)))
			}
			return n, h
		}},
		{name: "v2.FullHash", classOf: func(m mut) class { return fullClass(false, m.Field) }, counter: "A:full_", compute: func() ([]string, []types.Hash256) {
			return []string{"V2Transaction.FullHash", "V2Transaction.MerkleLeafHash"}, []types.Hash256{t.FullHash(), t.MerkleLeafHash()}
		}},
		{name: "v2.InputSigHash", classOf: sigc, counter: "C:field_", compute: func() ([]string, []types.Hash256) {
			return []string{"State.InputSigHash"}, []types.Hash256{cs.InputSigHash(t)}
		}},
	}}
}

// checkClassified reports every field path of the walk that no table knows.
func (r *runner) checkClassified(s subject, ms []mut) bool {
	ok := true
	seen := map[string]bool{}
	for _, m := range ms {
		for _, v := range s.vecs {
			if v.classOf(m) == unclassified && !seen[m.Field] {
				seen[m.Field] = true
				r.c.HarnessError("unclassified-field:%s (%s, e.g. mutation %q)", m.Field, s.name, m.Path)
				ok = false
			}
		}
	}
	return ok
}

func combine(a, b class) class {
	switch {
	case a == effect || b == effect:
		return effect
	case a == witness && b == witness:
		return witness
	}
	return unspec
}

// judge compares one vector before / after a mutation of class cls.
func (r *runner) judge(s subject, v hvec, cls class, field, path, path2 string, names []string, base, now []types.Hash256) {
	c := r.c
	c.Count("evaluations", 1)
	if len(now) != len(base) {
		c.HarnessError("vector %s changed length under %s", v.name, path)
		return
	}
	switch cls {
	case effect:
		for i := range base {
			if v.assertWitness && i > 0 {
				c.Count("A:derived_ids_checked", 1)
			}
			if now[i] == base[i] {
				if v.assertWitness && i > 0 && now[0] == base[0] {
					continue // derived from the unchanged ID: reported once, under the ID
				}
				extra := ""
				if v.assertWitness && i == 0 {
					n := 0
					for j := 1; j < len(base); j++ {
						if now[j] == base[j] {
							n++
						}
					}
					extra = fmt.Sprintf("; %d of %d derived output / contract / attestation IDs are unchanged as well", n, len(base)-1)
				}
				c.Violate(names[i]+"|effect-field-not-bound|"+field,
					fmt.Sprintf("%s is unchanged (%s) although the effect-bearing field %s was changed (template %s, mutation %q %s)%s", names[i], hx(base[i]), field, s.name, path, path2, extra),
					r.desc("A", s.name, path, path2, v.name))
			} else {
				c.Count(v.counter+"effect_changed", 1)
			}
		}
	case witness:
		if !v.assertWitness {
			// signature hashes: the statement does not say how they react to witness data; only counted
			ch := false
			for i := range base {
				ch = ch || now[i] != base[i]
			}
			if ch {
				c.Count(v.counter+"witness_changed(observed)", 1)
			} else {
				c.Count(v.counter+"witness_unchanged(observed)", 1)
			}
			return
		}
		for i := range base {
			if i > 0 {
				c.Count("A:derived_ids_checked", 1)
			}
			if now[i] != base[i] {
				if i > 0 && now[0] != base[0] {
					continue // follows from the changed ID
				}
				c.Violate(names[i]+"|witness-field-bound|"+field,
					fmt.Sprintf("%s changed (%s -> %s) although only the witness field %s was changed (template %s, mutation %q %s): the ID is malleable", names[i], hx(base[i]), hx(now[i]), field, s.name, path, path2),
					r.desc("A", s.name, path, path2, v.name))
			} else {
				c.Count(v.counter+"witness_unchanged", 1)
			}
		}
	case unspec:
		if path2 != "" {
			c.Count("A:unspec_pairs", 1)
			return
		}
		changed := false
		for i := range base {
			changed = changed || now[i] != base[i]
		}
		c.Count("A:unspec_observed", 1)
		r.noteUnspec(v.name, field, changed)
	}
}

func (r *runner) singles(mk func() subject) {
	c := r.c
	s := mk()
	if !r.wantSub(s.name) {
		return
	}
	ms := mutations(s.ptr, nil)
	if !r.checkClassified(s, ms) {
		return
	}
	c.Count("A:templates", 1)
	c.Count("A:single_mutations", int64(len(ms)))
	type bv struct {
		names []string
		h     []types.Hash256
	}
	base := make([]bv, len(s.vecs))
	for i, v := range s.vecs {
		base[i].names, base[i].h = v.compute()
	}
	fields := map[string]bool{}
	for _, m := range ms {
		fields[m.Field] = true
		if !r.wantPath(m.Path, "") {
			continue
		}
		m.Apply()
		now := make([][]types.Hash256, len(s.vecs))
		p, st := vf.Try(func() {
			for i, v := range s.vecs {
				if v.skip != nil && v.skip(m) {
					continue
				}
				_, now[i] = v.compute()
			}
		})
		m.Undo()
		if p != nil {
			c.HarnessError("hash computation panicked under mutation %q of %s: %v\n%s", m.Path, s.name, p, st)
			continue
		}
		for i, v := range s.vecs {
			if now[i] == nil {
				continue
			}
			r.judge(s, v, v.classOf(m), m.Field, m.Path, "", base[i].names, base[i].h, now[i])
		}
		c.Distinct("A", s.name, m.Field, m.Op)
	}
	// undo integrity
	for i, v := range s.vecs {
		_, h := v.compute()
		for j := range h {
			if h[j] != base[i].h[j] {
				c.HarnessError("template %s not restored after the mutation loop (vector %s)", s.name, v.name)
			}
		}
	}
	r.mu.Lock()
	r.fieldsSeen(s.name, len(fields))
	r.mu.Unlock()
}

var fieldCounts sync.Map

func (r *runner) fieldsSeen(name string, n int) { fieldCounts.Store(name, n) }

// pairs: every independent pair of single mutations (thorough tier).
func (r *runner) pairs(mk func() subject) {
	c := r.c
	s0 := mk()
	if !r.wantSub(s0.name) {
		return
	}
	n := len(mutations(s0.ptr, nil))
	W := vf.Workers()
	vf.ParallelFor(W, func(k int) {
		s := mk()
		ms := mutations(s.ptr, nil)
		base := make([][]types.Hash256, len(s.vecs))
		names := make([][]string, len(s.vecs))
		for i, v := range s.vecs {
			names[i], base[i] = v.compute()
		}
		for i := k; i < n; i += W {
			if c.Expired() {
				return
			}
			a := ms[i]
			for j := i + 1; j < n; j++ {
				b := ms[j]
				if !independent(a, b) || !r.wantPath(a.Path, b.Path) {
					continue
				}
				a.Apply()
				b.Apply()
				now := make([][]types.Hash256, len(s.vecs))
				p, st := vf.Try(func() {
					for x, v := range s.vecs {
						if v.skip != nil && (v.skip(a) || v.skip(b)) {
							continue
						}
						_, now[x] = v.compute()
					}
				})
				b.Undo()
				a.Undo()
				if p != nil {
					c.HarnessError("hash computation panicked under mutations %q + %q of %s: %v\n%s", a.Path, b.Path, s.name, p, st)
					continue
				}
				c.Count("A:pair_mutations", 1)
				for x, v := range s.vecs {
					if now[x] == nil {
						continue
					}
					cls := combine(v.classOf(a), v.classOf(b))
					field := a.Field
					if v.classOf(a) != cls {
						field = b.Field
					}
					if cls == witness {
						field = a.Field + " + " + b.Field
					}
					r.judge(s, v, cls, field, a.Path, b.Path, names[x], base[x], now[x])
				}
			}
		}
	})
}

func (r *runner) familyA() {
	if !r.wantFamily("A") {
		return
	}
	c := r.c
	g := r.g
	var mks []func() subject
	for _, tag := range vf.Pick(c, []string{"a"}, []string{"a", "b"}) {
		tag := tag
		mks = append(mks, func() subject { return v1Subject(g, tag) })
		for kind := kRenewal; kind <= kMixed; kind++ {
			kind := kind
			mks = append(mks, func() subject { return v2Subject(g, tag, kind) })
		}
	}
	vf.ParallelFor(len(mks), func(i int) { r.singles(mks[i]) })
	if !c.Quick() {
		for _, mk := range mks[:5] { // pairs on the first tag only (the second tag differs in tokens only)
			if c.Expired() {
				break
			}
			r.pairs(mk)
		}
	} else {
		c.Set("A:pairwise", "thorough tier only")
	}
	t1, t2 := v1IDTable(), v2IDTable()
	c.Set("A:classification_table_size", map[string]int{"v1_exact_paths": len(t1.exact), "v2_exact_paths": len(t2.exact), "v2_subtree_rules(SatisfiedPolicy)": len(t2.subtrees),
		"contract_sighash": contractSigTable().size(), "renewal_sighash": renewalSigTable().size(), "attestation_sighash": attestationSigTable().size()})
	cnt := map[string]int{"v1": 0, "v2": 0}
	for _, tb := range []struct {
		n string
		t *table
	}{{"v1", t1}, {"v2", t2}} {
		for _, cl := range tb.t.exact {
			if cl == unspec {
				cnt[tb.n]++
			}
		}
	}
	c.Set("A:unspec_paths_in_table", cnt)
	fc := map[string]int{}
	fieldCounts.Range(func(k, v any) bool { fc[k.(string)] = v.(int); return true })
	c.Set("A:distinct_field_paths_walked", fc)
	// dead table entries would mean the templates do not exercise a classified path
	if r.filter == nil {
		r.deadEntries()
	}
	c.Sample(map[string]any{"family": "A", "template": "v2-renewal/a", "mutation": ".FileContractResolutions[0].Resolution(V2FileContractRenewal).NewContract.HostOutput.Value lo+1", "class": "effect", "expected": "ID, all derived IDs, FullHash, MerkleLeafHash, InputSigHash change"})
	c.Sample(map[string]any{"family": "A", "template": "v2-storageproof/a", "mutation": ".FileContractResolutions[1].Resolution(V2StorageProof).ProofIndex.StateElement.MerkleProof[0] [byte 31]^1", "class": "witness", "expected": "ID and derived IDs unchanged, FullHash changes"})
}

// deadEntries: every exact table entry must be hit by at least one template
// (otherwise the table claims coverage the walk does not deliver).
func (r *runner) deadEntries() {
	hit := map[string]bool{}
	for _, s := range []subject{v1Subject(r.g, "a")} {
		for _, m := range mutations(s.ptr, nil) {
			hit["v1"+m.Field] = true
		}
	}
	for kind := kRenewal; kind <= kMixed; kind++ {
		s := v2Subject(r.g, "a", kind)
		for _, m := range mutations(s.ptr, nil) {
			hit["v2"+m.Field] = true
		}
	}
	for f := range v1IDTable().exact {
		if !hit["v1"+f] {
			r.c.HarnessError("table entry never exercised: v1 %s", f)
		}
	}
	for f := range v2IDTable().exact {
		if !hit["v2"+f] {
			r.c.HarnessError("table entry never exercised: v2 %s", f)
		}
	}
}
