package c12

import (
	"fmt"
	"reflect"
	"strings"
	"time"

	"go.sia.tech/core/types"
)

// A mut is one single-point mutation of a walked value. It is the local
// superset of chain.Mutations: same basic menu (integers +-1, byte arrays with
// first/last byte flipped, currency lo/hi +1, slices element-wise + drop last +
// dup last, bool flip, string append) plus: dynamic type tags of interface
// values in the path, a settable copy for non-pointer interface contents
// (spend policies), "set nil"/"set new" for pointers, "swap first two" for
// slices (order), replacement of a v2 resolution by each other kind,
// time +1s, and []byte treated like a byte string (first/last byte flipped,
// drop last, dup last).
type mut struct {
	Path  string // concrete location + operation, e.g. ".SiacoinInputs[1].Parent.ID[byte 0]^1"
	Loc   string // concrete location without the operation
	Field string // classification key: indices replaced by [*], no operation
	Op    string
	Apply func()
	Undo  func()
}

var (
	tCurrency   = reflect.TypeOf(types.Currency{})
	tTime       = reflect.TypeOf(time.Time{})
	tResolution = reflect.TypeOf((*types.V2FileContractResolutionType)(nil)).Elem()
)

type walker struct {
	out  []mut
	skip func(field string) bool
}

func (w *walker) add(loc, field, op string, apply, undo func()) {
	w.out = append(w.out, mut{Path: loc + " " + op, Loc: loc, Field: field, Op: op, Apply: apply, Undo: undo})
}

// mutations enumerates the single-point mutations of *ptr.
func mutations(ptr any, skip func(field string) bool) []mut {
	w := &walker{skip: skip}
	w.walk(reflect.ValueOf(ptr).Elem(), "", "")
	return w.out
}

func (w *walker) walk(v reflect.Value, loc, field string) {
	if w.skip != nil && w.skip(field) {
		return
	}
	switch v.Kind() {
	case reflect.Uint64, reflect.Uint8, reflect.Uint32, reflect.Uint, reflect.Uint16:
		if !v.CanSet() {
			return
		}
		old := v.Uint()
		w.add(loc, field, "+1", func() { v.SetUint(old + 1) }, func() { v.SetUint(old) })
		if old > 0 {
			w.add(loc, field, "-1", func() { v.SetUint(old - 1) }, func() { v.SetUint(old) })
		}
	case reflect.Int64, reflect.Int:
		if !v.CanSet() {
			return
		}
		old := v.Int()
		w.add(loc, field, "+1", func() { v.SetInt(old + 1) }, func() { v.SetInt(old) })
	case reflect.Bool:
		if !v.CanSet() {
			return
		}
		old := v.Bool()
		w.add(loc, field, "!", func() { v.SetBool(!old) }, func() { v.SetBool(old) })
	case reflect.String:
		if !v.CanSet() {
			return
		}
		old := v.String()
		w.add(loc, field, "+x", func() { v.SetString(old + "x") }, func() { v.SetString(old) })
	case reflect.Array:
		if v.Type().Elem().Kind() == reflect.Uint8 {
			if !v.CanSet() || v.Len() == 0 {
				return
			}
			for _, i := range []int{0, v.Len() - 1} {
				e := v.Index(i)
				old := e.Uint()
				w.add(loc, field, fmt.Sprintf("[byte %d]^1", i), func() { e.SetUint(old ^ 1) }, func() { e.SetUint(old) })
			}
			return
		}
		for i := 0; i < v.Len(); i++ {
			w.walk(v.Index(i), fmt.Sprintf("%s[%d]", loc, i), field+"[*]")
		}
	case reflect.Struct:
		if v.Type() == tCurrency {
			lo, hi := v.Field(0), v.Field(1)
			if !lo.CanSet() {
				return
			}
			ol, oh := lo.Uint(), hi.Uint()
			w.add(loc, field, "lo+1", func() { lo.SetUint(ol + 1) }, func() { lo.SetUint(ol) })
			w.add(loc, field, "hi+1", func() { hi.SetUint(oh + 1) }, func() { hi.SetUint(oh) })
			return
		}
		if v.Type() == tTime || v.Type().ConvertibleTo(tTime) && v.NumField() == tTime.NumField() {
			if !v.CanSet() {
				return
			}
			old := reflect.New(v.Type()).Elem()
			old.Set(v)
			w.add(loc, field, "+1s", func() {
				t := old.Convert(tTime).Interface().(time.Time).Add(time.Second)
				v.Set(reflect.ValueOf(t).Convert(v.Type()))
			}, func() { v.Set(old) })
			return
		}
		for i := 0; i < v.NumField(); i++ {
			f := v.Type().Field(i)
			if !f.IsExported() {
				continue
			}
			w.walk(v.Field(i), loc+"."+f.Name, field+"."+f.Name)
		}
	case reflect.Slice:
		if !v.CanSet() {
			return
		}
		n := v.Len()
		old := reflect.ValueOf(v.Interface())
		if v.Type().Elem().Kind() == reflect.Uint8 {
			// byte string
			var idx []int
			if n >= 1 {
				idx = append(idx, 0)
			}
			if n >= 2 {
				idx = append(idx, n-1)
			}
			for _, i := range idx {
				e := v.Index(i)
				ob := e.Uint()
				w.add(loc, field, fmt.Sprintf("[byte %d]^1", i), func() { e.SetUint(ob ^ 1) }, func() { e.SetUint(ob) })
			}
		} else {
			for i := 0; i < n; i++ {
				w.walk(v.Index(i), fmt.Sprintf("%s[%d]", loc, i), field+"[*]")
			}
		}
		if n > 0 {
			w.add(loc, field, "[drop last]", func() { v.Set(old.Slice(0, n-1)) }, func() { v.Set(old) })
			w.add(loc, field, "[dup last]", func() {
				nv := reflect.MakeSlice(v.Type(), n+1, n+1)
				reflect.Copy(nv, old)
				nv.Index(n).Set(old.Index(n - 1))
				v.Set(nv)
			}, func() { v.Set(old) })
		} else {
			w.add(loc, field, "[append zero]", func() { v.Set(reflect.MakeSlice(v.Type(), 1, 1)) }, func() { v.Set(old) })
		}
		if n >= 2 && !reflect.DeepEqual(old.Index(0).Interface(), old.Index(1).Interface()) {
			w.add(loc, field, "[swap 0,1]", func() {
				nv := reflect.MakeSlice(v.Type(), n, n)
				reflect.Copy(nv, old)
				nv.Index(0).Set(old.Index(1))
				nv.Index(1).Set(old.Index(0))
				v.Set(nv)
			}, func() { v.Set(old) })
		}
	case reflect.Pointer:
		if v.IsNil() {
			if v.CanSet() {
				w.add(loc, field, "[nil->new]", func() { v.Set(reflect.New(v.Type().Elem())) }, func() { v.Set(reflect.Zero(v.Type())) })
			}
			return
		}
		if v.CanSet() {
			old := reflect.ValueOf(v.Interface())
			w.add(loc, field, "[->nil]", func() { v.Set(reflect.Zero(v.Type())) }, func() { v.Set(old) })
		}
		w.walk(v.Elem(), loc, field)
	case reflect.Interface:
		if v.IsNil() {
			return
		}
		el := v.Elem()
		name := el.Type().String()
		if i := strings.LastIndexByte(name, '.'); i >= 0 {
			name = name[i+1:]
		}
		tag := "(" + name + ")"
		if v.CanSet() && v.Type() == tResolution {
			old := reflect.ValueOf(v.Interface())
			for _, alt := range []types.V2FileContractResolutionType{&types.V2FileContractRenewal{}, &types.V2StorageProof{}, &types.V2FileContractExpiration{}} {
				av := reflect.ValueOf(alt)
				if av.Type() == el.Type() {
					continue
				}
				w.add(loc, field, "[kind->"+strings.TrimPrefix(av.Type().String(), "*types.")+"]", func() { v.Set(av) }, func() { v.Set(old) })
			}
		}
		if el.Kind() == reflect.Pointer {
			if !el.IsNil() {
				w.walk(el.Elem(), loc+tag, field+tag)
			}
			return
		}
		if !v.CanSet() {
			return
		}
		// non-addressable contents: mutate a settable copy and store it back
		cp := reflect.New(el.Type()).Elem()
		cp.Set(el)
		sub := &walker{skip: w.skip}
		sub.walk(cp, loc+tag, field+tag)
		for _, m := range sub.out {
			m := m
			w.out = append(w.out, mut{Path: m.Path, Loc: m.Loc, Field: m.Field, Op: m.Op,
				Apply: func() { m.Apply(); v.Set(cp) },
				Undo:  func() { m.Undo(); v.Set(cp) }})
		}
	}
}

// independent reports whether two mutations touch unrelated locations (neither
// location contains the other), so that applying both is a genuine double
// deviation.
func independent(a, b mut) bool {
	if a.Loc == b.Loc {
		return false
	}
	return !isUnder(a.Loc, b.Loc) && !isUnder(b.Loc, a.Loc)
}

func isUnder(p, parent string) bool {
	if !strings.HasPrefix(p, parent) {
		return false
	}
	if len(p) == len(parent) {
		return true
	}
	switch p[len(parent)] {
	case '.', '[', '(':
		return true
	}
	return false
}

// deepCopy returns a copy of v that shares no slice / pointer memory with it.
func deepCopy[T any](x T) T {
	v := reflect.ValueOf(&x).Elem()
	return deepVal(v).Interface().(T)
}

func deepVal(v reflect.Value) reflect.Value {
	switch v.Kind() {
	case reflect.Slice:
		if v.IsNil() {
			return reflect.Zero(v.Type())
		}
		nv := reflect.MakeSlice(v.Type(), v.Len(), v.Len())
		for i := 0; i < v.Len(); i++ {
			nv.Index(i).Set(deepVal(v.Index(i)))
		}
		return nv
	case reflect.Array:
		nv := reflect.New(v.Type()).Elem()
		nv.Set(v)
		switch v.Type().Elem().Kind() {
		case reflect.Slice, reflect.Pointer, reflect.Interface, reflect.Struct, reflect.Array:
			for i := 0; i < v.Len(); i++ {
				nv.Index(i).Set(deepVal(v.Index(i)))
			}
		}
		return nv
	case reflect.Pointer:
		if v.IsNil() {
			return reflect.Zero(v.Type())
		}
		nv := reflect.New(v.Type().Elem())
		nv.Elem().Set(deepVal(v.Elem()))
		return nv
	case reflect.Interface:
		if v.IsNil() {
			return reflect.Zero(v.Type())
		}
		nv := reflect.New(v.Type()).Elem()
		nv.Set(deepVal(v.Elem()))
		return nv
	case reflect.Struct:
		nv := reflect.New(v.Type()).Elem()
		nv.Set(v) // copies unexported fields by value
		if v.Type() == tTime {
			return nv
		}
		for i := 0; i < v.NumField(); i++ {
			if !v.Type().Field(i).IsExported() {
				continue
			}
			nv.Field(i).Set(deepVal(v.Field(i)))
		}
		return nv
	}
	return v
}
