package c12

import (
	"bytes"
	"encoding/binary"
	"fmt"

	"go.sia.tech/core/types"
)

// familyF: the KIND of a v2 resolution is effect-bearing (a storage proof pays the valid outputs, a renewal its own
// final outputs and creates a contract). A transaction A with a storage-proof resolution is built whose semantic
// encoding - the preimage of the transaction ID - is re-read byte for byte as a transaction B with a renewal
// resolution (the storage proof's Merkle hashes supply the renewal's fields). A and B are different transactions; their
// IDs must differ.
func (r *runner) familyF() {
	if !r.wantFamily("F") {
		return
	}
	c := r.c
	c.Count("evaluations", 1)
	pid := types.FileContractID(r.g.h("F/parent"))
	sp := &types.V2StorageProof{
		ProofIndex: types.ChainIndexElement{StateElement: types.StateElement{LeafIndex: 12345}, ID: types.BlockID(r.g.h("F/ci")), ChainIndex: types.ChainIndex{Height: 77, ID: types.BlockID(r.g.h("F/ci"))}},
		Proof:      make([]types.Hash256, 16),
	}
	for i := range sp.Leaf {
		sp.Leaf[i] = byte(i + 1)
	}
	for i := range sp.Proof {
		for j := range sp.Proof[i] {
			sp.Proof[i][j] = byte(16*i + j + 1)
		}
	}
	// the region that a renewal's (stripped, i.e. zeroed) signatures occupy, the attestation count and the length of
	// the arbitrary data of B
	for j := 8; j < 32; j++ {
		sp.Proof[7][j] = 0
	}
	for i := 8; i < 15; i++ {
		sp.Proof[i] = types.Hash256{}
	}
	arbA := []byte("hello")
	for j := 0; j < 16; j++ {
		sp.Proof[15][j] = 0
	}
	binary.LittleEndian.PutUint64(sp.Proof[15][16:24], uint64(len(arbA)+24))
	a := types.V2Transaction{
		FileContractResolutions: []types.V2FileContractResolution{{Parent: types.V2FileContractElement{ID: pid}, Resolution: sp}},
		ArbitraryData:           arbA, MinerFee: types.NewCurrency64(999),
	}
	var buf bytes.Buffer
	e := types.NewEncoder(&buf)
	types.V2TransactionSemantics(a).EncodeTo(e)
	e.Flush()
	d := types.NewBufDecoder(buf.Bytes())
	ok := true
	for i := 0; i < 6; i++ {
		ok = ok && d.ReadUint64() == 0
	}
	ok = ok && d.ReadUint64() == 1
	var pid2 types.FileContractID
	pid2.DecodeFrom(d)
	var ren types.V2FileContractRenewal
	ren.DecodeFrom(d)
	ok = ok && d.ReadUint64() == 0
	arbB := d.ReadBytes()
	ok = ok && !d.ReadBool()
	var fee types.V2Currency
	fee.DecodeFrom(d)
	if !ok || d.Err() != nil {
		// the semantic encoding no longer has the layout this construction relies on: nothing to compare
		c.Count("F:construction_not_applicable", 1)
		return
	}
	b := types.V2Transaction{
		FileContractResolutions: []types.V2FileContractResolution{{Parent: types.V2FileContractElement{ID: pid2}, Resolution: &ren}},
		ArbitraryData:           arbB, MinerFee: types.Currency(fee),
	}
	c.Count("F:kind_pairs_compared", 1)
	r.c.Distinct("F", "storage-proof-vs-renewal")
	if a.FullHash() != b.FullHash() && a.ID() == b.ID() {
		c.Violate("V2Transaction.ID|resolution-kind-not-bound|storage-proof=renewal",
			fmt.Sprintf("a transaction whose resolution is a storage proof (16 proof hashes) and a transaction whose resolution is a RENEWAL of the same contract (final outputs, rollover and new contract read from those hashes) have the same ID %v (and hence the same derived IDs and input signature hash); their full hashes differ", a.ID()),
			r.desc("F", "storage-proof-vs-renewal", "", "", "V2Transaction.ID"))
	}
}
