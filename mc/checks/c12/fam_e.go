package c12

import (
	"fmt"

	"go.sia.tech/core/consensus"
	"go.sia.tech/core/types"
	"verifmc/chain"
	"verifmc/vf"
)

// Family E: the consequence of the ID / sighash binding, end to end. A signed,
// valid v2 transaction taken from the chain engine has ONE effect-bearing
// field changed and is NOT re-signed: ValidateV2Transaction must reject it.
func (r *runner) familyE() {
	if !r.wantFamily("E") {
		return
	}
	c := r.c
	nets := []string{"v2-only"}
	if !c.Quick() {
		nets = append(nets, "mixed", "v2-eph5")
	}
	for _, n := range nets {
		r.unsignedChanges(chain.Spec(n))
	}
	c.Sample(map[string]any{"family": "E", "network": "v2-only", "transaction": "v2 siafund spend signed by the owner (pk policy)", "mutation": ".SiafundOutputs[0].Address [byte 0]^1 without re-signing", "expected": "ValidateV2Transaction rejects"})
}

type signedTxn struct {
	name string
	txn  types.V2Transaction
}

func (r *runner) unsignedChanges(sp chain.NetSpec) {
	c := r.c
	sub := "unsigned/" + sp.Name
	if !r.wantSub(sub) {
		return
	}
	keys := chain.NewKeys(r.g.seed)
	w, p := chain.NewWorld(sp, keys, chain.DefaultAlloc(keys), chain.Options{CheckLedger: true, CheckSupply: true})
	if p != nil {
		c.HarnessError("E %s: genesis: %v", sp.Name, p)
		return
	}
	for w.ChildHeight() < sp.Allow+1 || w.Height() < 2 {
		b, bs := w.BuildBlock(nil, nil, chain.BlockOpts{})
		if err, pr := w.Apply(b, bs); err != nil || pr != nil {
			c.HarnessError("E %s: base chain: %v %v", sp.Name, err, pr)
			return
		}
	}
	// one block with contract formations, so that siafund claims are non-zero
	{
		bc0 := w.NewBlockCtx()
		chain.V2Form(3, 2, 100).Do(bc0)
		chain.V2Form(4, 2, 64).Do(bc0)
		b, bs := w.BuildBlock(bc0.V1, bc0.V2, chain.BlockOpts{})
		if err, pr := w.Apply(b, bs); err != nil || pr != nil {
			c.HarnessError("E %s: formation block: %v %v", sp.Name, err, pr)
			return
		}
	}
	var txns []signedTxn
	bc := w.NewBlockCtx()
	for _, cl := range []int{chain.AddrV2, chain.AddrV1} {
		cl := cl
		if e, ok := bc.PickSC(func(x int) bool { return x == cl }, types.Siacoins(10)); ok {
			u := w.UseV2SC(e, 'e')
			txns = append(txns, signedTxn{fmt.Sprintf("siacoin-spend(parent class %d)", cl), *u.V2})
		}
		if e, ok := bc.PickSF(func(x int) bool { return x == cl }); ok {
			u := w.UseV2SF(e, 'e')
			txns = append(txns, signedTxn{fmt.Sprintf("siafund-spend(parent class %d)", cl), *u.V2})
		}
	}
	bc2 := w.NewBlockCtx()
	if chain.V2Form(1, 2, 100).Do(bc2) && len(bc2.V2) == 1 {
		txns = append(txns, signedTxn{"contract-formation", bc2.V2[0]})
	}
	// contract revision (no inputs: signed by the contract parties only) and renewal (inputs + renewal signatures)
	ids := chain.SortedIDs(w.Store.V2FC)
	if len(ids) >= 2 {
		fce := w.Store.V2FC[types.FileContractID(ids[0])]
		u := w.UseV2Revise(fce, fce.V2FileContract, 1)
		txns = append(txns, signedTxn{"contract-revision(no inputs)", *u.V2})
		fce2 := w.Store.V2FC[types.FileContractID(ids[1])]
		bc3 := w.NewBlockCtx()
		if f, ok := bc3.PickSC(func(x int) bool { return x == chain.AddrV2 }, types.Siacoins(300)); ok {
			if u, ok := w.UseV2Renew(fce2, f); ok {
				txns = append(txns, signedTxn{"contract-renewal", *u.V2})
			}
		}
	}
	tab := v2IDTable()
	valid := func(t types.V2Transaction) (ok bool, panicked bool) {
		var err error
		p, _ := vf.Try(func() { err = consensus.ValidateV2Transaction(consensus.NewMidState(w.CS), t) })
		return p == nil && err == nil, p != nil
	}
	for _, st := range txns {
		t := st.txn.DeepCopy()
		if ok, _ := valid(t); !ok {
			c.HarnessError("E %s: honest signed %s rejected", sp.Name, st.name)
			continue
		}
		c.Count("E:control_accepted", 1)
		for _, m := range mutations(&t, nil) {
			cls := tab.classify(m.Field)
			if cls == unclassified {
				c.HarnessError("unclassified-field:%s (E %s)", m.Field, st.name)
				continue
			}
			if cls != effect || !r.wantPath(st.name+m.Path, "") {
				continue
			}
			if len(t.SiacoinInputs)+len(t.SiafundInputs) == 0 && m.Field == ".ArbitraryData" {
				c.Count("E:unspec_arbitrary_data_of_inputless_txn", 1)
				continue // a transaction without inputs carries no transaction-level signature (Appendix C: unspec)
			}
			m.Apply()
			ok, pn := valid(t)
			desc := ""
			if ok {
				desc = r.demonstrate(w, t, st.txn, m)
			}
			m.Undo()
			c.Count("evaluations", 1)
			c.Distinct("E", sp.Name, st.name, m.Field, m.Op)
			if pn {
				c.Count("E:mutant_panicked(counted as rejected)", 1)
				r.noteUnspec("E: ValidateV2Transaction panicked (C10 territory, counted as rejected)", m.Field+" "+m.Op, false)
			}
			if ok {
				c.Violate("ValidateV2Transaction|unsigned-effect-change-accepted|"+m.Field,
					fmt.Sprintf("network %s, height %d: the signed %s is still accepted by ValidateV2Transaction after mutation %q WITHOUT re-signing (signatures untouched). %s", sp.Name, w.ChildHeight(), st.name, m.Path, desc),
					r.desc("E", sub, st.name+m.Path, "", "ValidateV2Transaction"))
			} else {
				c.Count("E:mutant_rejected", 1)
			}
		}
	}
}

// demonstrate puts the tampered transaction in a block, applies it and
// describes where the value went.
func (r *runner) demonstrate(w *chain.World, tampered, orig types.V2Transaction, m mut) string {
	cl := w.Clone()
	b, bs := cl.BuildBlock(nil, []types.V2Transaction{tampered.DeepCopy()}, chain.BlockOpts{})
	var verr error
	var cs2 consensus.State
	var au consensus.ApplyUpdate
	if p, _ := vf.Try(func() {
		verr = consensus.ValidateBlock(cl.CS, b, bs)
		if verr == nil {
			cs2, au = consensus.ApplyBlock(cl.CS, b, bs, cl.TargetTimestamp())
		}
	}); p != nil {
		return fmt.Sprintf("(block demonstration panicked: %v)", p)
	}
	if verr != nil {
		return fmt.Sprintf("(a block carrying it is rejected: %v)", verr)
	}
	_ = cs2
	out := fmt.Sprintf("A block carrying the tampered transaction is accepted by ValidateBlock and applied; transaction ID %v == original ID %v: %v; InputSigHash equal: %v.",
		tampered.ID(), orig.ID(), tampered.ID() == orig.ID(), cl.CS.InputSigHash(tampered) == cl.CS.InputSigHash(orig))
	for i, in := range tampered.SiafundInputs {
		want := in.Parent.ID.V2ClaimOutputID()
		for _, d := range au.SiacoinElementDiffs() {
			if d.SiacoinElement.ID == want && d.Created {
				out += fmt.Sprintf(" The siafund claim output %v (%v) was created for address %v; the owner signed for claim address %v.", want, d.SiacoinElement.SiacoinOutput.Value, d.SiacoinElement.SiacoinOutput.Address, orig.SiafundInputs[i].ClaimAddress)
			}
		}
	}
	return out
}
