package c12

import (
	"crypto/sha256"
	"encoding/binary"
	"time"

	"go.sia.tech/core/types"
)

// gen derives deterministic tokens from the seed (data independence: the seed
// only salts hashes / keys / addresses, never what is enumerated).
type gen struct{ seed int64 }

func (g gen) h(label string) (out types.Hash256) {
	var b [8]byte
	binary.LittleEndian.PutUint64(b[:], uint64(g.seed))
	s := sha256.Sum256(append(b[:], label...))
	return s
}

func (g gen) bytes(label string, n int) []byte {
	var out []byte
	for i := 0; len(out) < n; i++ {
		x := g.h(label + string(rune('a'+i)))
		out = append(out, x[:]...)
	}
	return out[:n]
}

func (g gen) addr(label string) types.Address { return types.Address(g.h("addr" + label)) }
func (g gen) pk(label string) types.PublicKey { return types.PublicKey(g.h("pk" + label)) }
func (g gen) u64(label string) uint64 {
	x := g.h("u" + label)
	return binary.LittleEndian.Uint64(x[:8])%1000000 + 2
}
func (g gen) cur(label string) types.Currency {
	return types.NewCurrency(g.u64("lo"+label), g.u64("hi"+label)%5+1)
}
func (g gen) sig(label string) (s types.Signature) { copy(s[:], g.bytes("sig"+label, 64)); return }
func (g gen) sco(label string) types.SiacoinOutput {
	return types.SiacoinOutput{Value: g.cur("v" + label), Address: g.addr(label)}
}
func (g gen) sfo(label string) types.SiafundOutput {
	return types.SiafundOutput{Value: g.u64("sfv" + label), Address: g.addr("sf" + label)}
}
func (g gen) proof(label string, n int) []types.Hash256 {
	p := make([]types.Hash256, n)
	for i := range p {
		p[i] = g.h(label + string(rune('0'+i)))
	}
	return p
}
func (g gen) leaf(label string) (l [64]byte) { copy(l[:], g.bytes("leaf"+label, 64)); return }

func (g gen) uc(label string) types.UnlockConditions {
	return types.UnlockConditions{
		Timelock: g.u64("tl" + label),
		PublicKeys: []types.UnlockKey{
			{Algorithm: types.SpecifierEd25519, Key: g.bytes("uk0"+label, 32)},
			{Algorithm: types.SpecifierEd25519, Key: g.bytes("uk1"+label, 32)},
		},
		SignaturesRequired: 2,
	}
}

func (g gen) v1fc(label string) types.FileContract {
	return types.FileContract{
		Filesize: g.u64("fs" + label), FileMerkleRoot: g.h("root" + label),
		WindowStart: g.u64("ws" + label), WindowEnd: g.u64("we" + label), Payout: g.cur("payout" + label),
		ValidProofOutputs:  []types.SiacoinOutput{g.sco("v0" + label), g.sco("v1" + label)},
		MissedProofOutputs: []types.SiacoinOutput{g.sco("m0" + label), g.sco("m1" + label), g.sco("m2" + label)},
		UnlockHash:         g.addr("uh" + label), RevisionNumber: g.u64("rev" + label),
	}
}

// v1Template: a v1 transaction with every slice holding >= 2 distinct entries.
func v1Template(g gen, tag string) types.Transaction {
	l := func(s string) string { return tag + s }
	cf := func(whole bool) types.CoveredFields {
		if whole {
			return types.CoveredFields{WholeTransaction: true, Signatures: []uint64{1, 0}}
		}
		two := func() []uint64 { return []uint64{0, 1} }
		return types.CoveredFields{SiacoinInputs: two(), SiacoinOutputs: two(), FileContracts: two(), FileContractRevisions: two(), StorageProofs: two(),
			SiafundInputs: two(), SiafundOutputs: two(), MinerFees: two(), ArbitraryData: two(), Signatures: []uint64{0, 1}}
	}
	return types.Transaction{
		SiacoinInputs: []types.SiacoinInput{
			{ParentID: types.SiacoinOutputID(g.h(l("sci0"))), UnlockConditions: g.uc(l("sci0"))},
			{ParentID: types.SiacoinOutputID(g.h(l("sci1"))), UnlockConditions: g.uc(l("sci1"))},
		},
		SiacoinOutputs: []types.SiacoinOutput{g.sco(l("sco0")), g.sco(l("sco1"))},
		FileContracts:  []types.FileContract{g.v1fc(l("fc0")), g.v1fc(l("fc1"))},
		FileContractRevisions: []types.FileContractRevision{
			{ParentID: types.FileContractID(g.h(l("fcr0"))), UnlockConditions: g.uc(l("fcr0")), FileContract: g.v1fc(l("fcr0"))},
			{ParentID: types.FileContractID(g.h(l("fcr1"))), UnlockConditions: g.uc(l("fcr1")), FileContract: g.v1fc(l("fcr1"))},
		},
		StorageProofs: []types.StorageProof{
			{ParentID: types.FileContractID(g.h(l("sp0"))), Leaf: g.leaf(l("sp0")), Proof: g.proof(l("sp0"), 3)},
			{ParentID: types.FileContractID(g.h(l("sp1"))), Leaf: g.leaf(l("sp1")), Proof: g.proof(l("sp1"), 2)},
		},
		SiafundInputs: []types.SiafundInput{
			{ParentID: types.SiafundOutputID(g.h(l("sfi0"))), UnlockConditions: g.uc(l("sfi0")), ClaimAddress: g.addr(l("claim0"))},
			{ParentID: types.SiafundOutputID(g.h(l("sfi1"))), UnlockConditions: g.uc(l("sfi1")), ClaimAddress: g.addr(l("claim1"))},
		},
		SiafundOutputs: []types.SiafundOutput{g.sfo(l("sfo0")), g.sfo(l("sfo1"))},
		MinerFees:      []types.Currency{g.cur(l("fee0")), g.cur(l("fee1"))},
		ArbitraryData:  [][]byte{g.bytes(l("arb0"), 7), g.bytes(l("arb1"), 5)},
		Signatures: []types.TransactionSignature{
			{ParentID: g.h(l("sci0")), PublicKeyIndex: 1, Timelock: 4, CoveredFields: cf(true), Signature: g.bytes(l("sg0"), 64)},
			{ParentID: g.h(l("sci1")), PublicKeyIndex: 2, Timelock: 6, CoveredFields: cf(false), Signature: g.bytes(l("sg1"), 64)},
		},
	}
}

func (g gen) se(label string, n int) types.StateElement {
	return types.StateElement{LeafIndex: g.u64("leafidx" + label), MerkleProof: g.proof("mp"+label, n)}
}

func (g gen) v2fc(label string) types.V2FileContract {
	return types.V2FileContract{
		Capacity: g.u64("cap" + label), Filesize: g.u64("fs" + label), FileMerkleRoot: g.h("root" + label),
		ProofHeight: g.u64("ph" + label), ExpirationHeight: g.u64("eh" + label),
		RenterOutput: g.sco("ro" + label), HostOutput: g.sco("ho" + label),
		MissedHostValue: g.cur("mhv" + label), TotalCollateral: g.cur("tc" + label),
		RenterPublicKey: g.pk("r" + label), HostPublicKey: g.pk("h" + label), RevisionNumber: g.u64("rev" + label),
		RenterSignature: g.sig("r" + label), HostSignature: g.sig("h" + label),
	}
}

func (g gen) v2fce(label string) types.V2FileContractElement {
	return types.V2FileContractElement{ID: types.FileContractID(g.h("fceid" + label)), StateElement: g.se("fce"+label, 3), V2FileContract: g.v2fc("fce" + label)}
}

func (g gen) sp(label string, pol types.SpendPolicy) types.SatisfiedPolicy {
	return types.SatisfiedPolicy{Policy: pol, Signatures: []types.Signature{g.sig("a" + label), g.sig("b" + label)},
		Preimages: [][32]byte{g.h("pre0" + label), g.h("pre1" + label)}}
}

func (g gen) renewal(label string) *types.V2FileContractRenewal {
	return &types.V2FileContractRenewal{
		FinalRenterOutput: g.sco("fro" + label), FinalHostOutput: g.sco("fho" + label),
		RenterRollover: g.cur("rr" + label), HostRollover: g.cur("hr" + label),
		NewContract:     g.v2fc("new" + label),
		RenterSignature: g.sig("rnr" + label), HostSignature: g.sig("rnh" + label),
	}
}

func (g gen) storageProof(label string) *types.V2StorageProof {
	return &types.V2StorageProof{
		ProofIndex: types.ChainIndexElement{ID: types.BlockID(g.h("ci" + label)), StateElement: g.se("ci"+label, 2),
			ChainIndex: types.ChainIndex{Height: g.u64("cih" + label), ID: types.BlockID(g.h("ci" + label))}},
		Leaf: g.leaf(label), Proof: g.proof("sp"+label, 3),
	}
}

// resolution kinds of the templates
const (
	kRenewal = iota
	kStorageProof
	kExpiration
	kMixed // all three kinds in one transaction
)

var kindName = []string{"renewal", "storageproof", "expiration", "mixed"}

// v2Template: a v2 transaction with every field populated and every slice
// holding >= 2 distinct entries; kind selects the resolution type(s).
func v2Template(g gen, tag string, kind int) types.V2Transaction {
	l := func(s string) string { return tag + s }
	res := func(i int) types.V2FileContractResolutionType {
		k := kind
		if kind == kMixed {
			k = i % 3
		}
		switch k {
		case kRenewal:
			return g.renewal(l("res") + string(rune('0'+i)))
		case kStorageProof:
			return g.storageProof(l("res") + string(rune('0'+i)))
		}
		return &types.V2FileContractExpiration{}
	}
	nres := 2
	if kind == kMixed {
		nres = 3
	}
	var ress []types.V2FileContractResolution
	for i := 0; i < nres; i++ {
		ress = append(ress, types.V2FileContractResolution{Parent: g.v2fce(l("resp") + string(rune('0'+i))), Resolution: res(i)})
	}
	nfa := g.addr(l("nfa"))
	pThresh := types.PolicyThreshold(2, []types.SpendPolicy{types.PolicyPublicKey(g.pk(l("p0"))), types.PolicyHash(g.h(l("p0h"))), types.PolicyOpaque(types.PolicyAbove(7))})
	pUC := types.SpendPolicy{Type: types.PolicyTypeUnlockConditions(g.uc(l("puc")))}
	pPK := types.PolicyPublicKey(g.pk(l("p2")))
	pTime := types.PolicyThreshold(1, []types.SpendPolicy{types.PolicyAbove(5), types.PolicyAfter(time.Unix(1700000000, 0))})
	return types.V2Transaction{
		SiacoinInputs: []types.V2SiacoinInput{
			{Parent: types.SiacoinElement{ID: types.SiacoinOutputID(g.h(l("sci0"))), StateElement: g.se(l("sci0"), 3), SiacoinOutput: g.sco(l("scip0")), MaturityHeight: 3}, SatisfiedPolicy: g.sp(l("sci0"), pThresh)},
			{Parent: types.SiacoinElement{ID: types.SiacoinOutputID(g.h(l("sci1"))), StateElement: g.se(l("sci1"), 2), SiacoinOutput: g.sco(l("scip1")), MaturityHeight: 9}, SatisfiedPolicy: g.sp(l("sci1"), pUC)},
		},
		SiacoinOutputs: []types.SiacoinOutput{g.sco(l("sco0")), g.sco(l("sco1"))},
		SiafundInputs: []types.V2SiafundInput{
			{Parent: types.SiafundElement{ID: types.SiafundOutputID(g.h(l("sfi0"))), StateElement: g.se(l("sfi0"), 2), SiafundOutput: g.sfo(l("sfip0")), ClaimStart: g.cur(l("cs0"))}, ClaimAddress: g.addr(l("claim0")), SatisfiedPolicy: g.sp(l("sfi0"), pPK)},
			{Parent: types.SiafundElement{ID: types.SiafundOutputID(g.h(l("sfi1"))), StateElement: g.se(l("sfi1"), 3), SiafundOutput: g.sfo(l("sfip1")), ClaimStart: g.cur(l("cs1"))}, ClaimAddress: g.addr(l("claim1")), SatisfiedPolicy: g.sp(l("sfi1"), pTime)},
		},
		SiafundOutputs: []types.SiafundOutput{g.sfo(l("sfo0")), g.sfo(l("sfo1"))},
		FileContracts:  []types.V2FileContract{g.v2fc(l("fc0")), g.v2fc(l("fc1"))},
		FileContractRevisions: []types.V2FileContractRevision{
			{Parent: g.v2fce(l("rev0")), Revision: g.v2fc(l("revr0"))},
			{Parent: g.v2fce(l("rev1")), Revision: g.v2fc(l("revr1"))},
		},
		FileContractResolutions: ress,
		Attestations: []types.Attestation{
			{PublicKey: g.pk(l("att0")), Key: "HostAnnouncement", Value: g.bytes(l("attv0"), 9), Signature: g.sig(l("att0"))},
			{PublicKey: g.pk(l("att1")), Key: "k2", Value: g.bytes(l("attv1"), 4), Signature: g.sig(l("att1"))},
		},
		ArbitraryData:        g.bytes(l("arb"), 11),
		NewFoundationAddress: &nfa,
		MinerFee:             g.cur(l("fee")),
	}
}
