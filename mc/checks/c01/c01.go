// Package c01: value conservation, constant siafunds, exact claims — explicit
// state exploration of block histories over focused alphabets and network
// families, with an independent ledger as oracle on every state.
package c01

import (
	"sort"
	"strings"
	"encoding/json"
	"fmt"

	"verifmc/chain"
	"verifmc/vf"
)

func init() {
	vf.Register(&vf.Check{ID: "C01", Level: "model_checking", Run: run, Replay: replay})
}

type alpha struct {
	name string
	menu func(w *chain.World) []chain.Action
}

func models(c *vf.Ctx) []*chain.Model {
	pay := chain.AlphaPayments
	if !c.Quick() {
		pay = chain.AlphaPaymentsThorough
	}
	alphas := []alpha{{"payments", pay}, {"siafunds", chain.AlphaSiafunds}, {"v1contracts", chain.AlphaV1Contracts}, {"v2contracts", chain.AlphaV2Contracts}}
	nets := []string{"v1-eras", "mixed", "v2-only", "v2-eph5"}
	if !c.Quick() {
		nets = append(nets, "v1-early", "v1-mid")
	}
	opt := chain.Options{CheckForest: true, CheckLedger: true, CheckSupply: true, CheckProofs: !c.Quick(), HasAtt: false}
	var ms []*chain.Model
	for _, n := range nets {
		sp := chain.Spec(n)
		for _, a := range alphas {
			if a.name == "v1contracts" && sp.Require <= 2 {
				continue
			}
			if a.name == "v2contracts" && sp.Allow > 100 {
				continue
			}
			variants := [][3]int{{2, 2, 1}} // (D, K, R)
			if !c.Quick() {
				variants = [][3]int{{2, 2, 2}, {3, 1, 2}}
			} else if a.name == "v1contracts" || a.name == "v2contracts" {
				// contract life cycles need three non-empty blocks (form, revise, resolve): also explored in the quick tier
				variants = append(variants, [3]int{3, 1, 0})
			}
			for _, v := range variants {
				m := &chain.Model{Name: a.name, Spec: sp, Opt: opt, Menu: a.menu,
					H: vf.Pick[uint64](c, 8, 10), D: v[0], K: v[1], R: v[2]}
				if a.name == "v1contracts" || a.name == "v2contracts" {
					m.H = vf.Pick[uint64](c, 9, 11)
				}
				if sp.Name == "mixed" {
					m.SkipStart = 3 // start just below the allow height so both versions are explored
					m.H += 3
				}
				ms = append(ms, m)
			}
		}
		// block combinatorics: one setup block, then every ordered tuple of <= 3 actions in one block
		mc := &chain.Model{Name: "combo", Spec: sp, Opt: opt, Menu: chain.ComboMenu, H: 6, D: 2, K: 3, R: 0, StopWhenSpent: true}
		if sp.Name == "mixed" {
			mc.SkipStart = 3
			mc.H += 3
		}
		ms = append(ms, mc)
		if sp.Require > 3 {
			// a v1 contract formed and revised inside one block, and its later life
			mi := &chain.Model{Name: "v1inblock", Spec: sp, Opt: opt, Menu: chain.V1InBlockMenu, H: 7, D: 3, K: 1, R: 1}
			if sp.Name == "mixed" {
				mi.SkipStart = 3
				mi.H += 3
			}
			ms = append(ms, mi)
		}
		// transaction combinatorics: one setup block, then every ordered pair (thorough: triple) of actions merged into
		// ONE transaction
		mm := &chain.Model{Name: "merged", Spec: sp, Opt: opt, Menu: chain.MergedMenu, H: 8, D: 2, K: 1, R: 0}
		if !c.Quick() {
			mm.Menu = chain.MergedMenu3
		}
		if sp.Name == "mixed" {
			mm.SkipStart = 3
			mm.H += 3
		}
		ms = append(ms, mm)
	}
	// the small combinatorics models first: under a loaded machine the budget must not starve them
	sort.SliceStable(ms, func(i, j int) bool {
		small := func(m *chain.Model) bool { return m.Name == "combo" || m.Name == "merged" || m.Name == "v1inblock" }
		return small(ms[i]) && !small(ms[j])
	})
	return ms
}

func run(c *vf.Ctx) {
	c.Set("rule", "explicit-state DFS over block histories: default move = empty block, deviations = every ordered tuple of <=K honest menu actions as one block, or revert(k<=R); deviation bound D, horizon H; states merged by an ID-free canonical key; every state checked against the independent ledger (supply equation, store==ledger, siafund total, exact claims, fees in miner payout, forest roots)")
	pureSweep(c, chain.NewKeys(c.Seed))
	var total int
	for _, m := range models(c) {
		if c.Expired() {
			break
		}
		if m.Name == "payments" || m.Name == "siafunds" {
			m.OnState = func(x *chain.Explorer, w *chain.World, path []string) { wrapAttacks(c, x, w, path) }
		}
		x := chain.NewExplorer(c, m, "C01")
		x.Run()
		x.Report(fmt.Sprintf("%s/%s(D=%d,K=%d,R=%d)/", m.Spec.Name, m.Name, m.D, m.K, m.R))
		total++
		c.Distinct(m.Spec.Name, m.Name)
		// hash-symmetry check (DESIGN 2.3): the same model under different key material / salts must visit the
		// same number of distinct canonical states (quick: payments alphabet only; thorough: every model).
		if (!c.Quick() || (m.Name == "payments" && m.Spec.Name == "v2-only")) && !c.Expired() && c.NumViolations() == 0 {
			x2 := chain.NewExplorer(c, m, "C01")
			x2.Keys = chain.NewKeys(c.Seed + 7919)
			x2.Run()
			c.Count("symmetry_reruns", 1)
			if x2.States.Load() != x.States.Load() && !c.Expired() {
				c.HarnessError("hash-symmetry check failed for %s/%s: %d states with seed %d, %d with seed %d (the canonical key merges or splits states depending on hash values)",
					m.Spec.Name, m.Name, x.States.Load(), c.Seed, x2.States.Load(), c.Seed+7919)
			}
		}
	}
	c.Set("models_run", total)
	c.Sample(map[string]any{"network": "mixed", "trace": []string{"empty", "empty", "empty", "block[v1form(a=2,b=2,F=100) + v2sf(split=true)]", "empty", "revert(1)", "..."}})
	c.Assume("hash functions / Ed25519 treated as uninterpreted tokens; state merging relies on hash symmetry (DESIGN 2.3)")
	c.Assume("ephemeral parents below the network's ephemeral-output fix height carry their true values in honest actions (the unchecked window is outside the claim)")
	c.RequireFeature("states", "transitions", "wraparound_rejected", "feature:v1_sc_spend", "feature:v2_sc_spend", "feature:v2_ephemeral_spend", "feature:v1_sf_spend_claim", "feature:v2_sf_spend_claim",
		"feature:v1_fc_form", "feature:v1_fc_revise", "feature:v1_fc_proof", "feature:v1_fc_expire", "feature:v2_fc_form", "feature:v2_fc_revise", "feature:v2_fc_renew", "feature:v2_fc_proof", "feature:v2_fc_expire",
		"feature:revert_depth_1", "feature:mixed_v1_v2_block", "feature:v1_fee", "feature:v2_fee")
}

func replay(c *vf.Ctx, raw json.RawMessage) {
	var pf struct {
		Fn string `json:"policy_function"`
	}
	if json.Unmarshal(raw, &pf) == nil && pf.Fn != "" {
		pureSweep(c, chain.NewKeys(c.Seed))
		return
	}
	var tc chain.TraceCase
	json.Unmarshal(raw, &tc)
	attack := false
	for len(tc.Trace) > 0 && strings.HasPrefix(tc.Trace[len(tc.Trace)-1], "attack:") {
		tc.Trace, attack = tc.Trace[:len(tc.Trace)-1], true
	}
	raw, _ = json.Marshal(tc)
	w := chain.ReplayTraceWorld(c, raw, func(name string) func(w *chain.World) []chain.Action {
		switch name {
		case "payments":
			return chain.AlphaPaymentsThorough
		case "siafunds":
			return chain.AlphaSiafunds
		case "v1contracts":
			return chain.AlphaV1Contracts
		case "v2contracts":
			return chain.AlphaV2Contracts
		case "combo":
			return chain.ComboMenu
		case "merged":
			return chain.MergedMenu3
		case "v1inblock":
			return chain.V1InBlockMenu
		}
		return nil
	}, "C01", chain.Options{CheckForest: true, CheckLedger: true, CheckSupply: true, CheckProofs: true})
	if w != nil && attack {
		x := chain.NewExplorer(c, &chain.Model{Name: tc.Model, Spec: chain.Spec(tc.Network), Menu: chain.AlphaPayments}, "C01")
		wrapAttacks(c, x, w, tc.Trace)
	}
}
