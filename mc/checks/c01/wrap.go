package c01

import (
	"fmt"
	"math"
	"strings"

	"go.sia.tech/core/types"
	"verifmc/chain"
	"verifmc/vf"
)

// wrapAttacks: value conservation is checked by the code under test in fixed-width arithmetic (uint64 siafund counts,
// 128-bit currencies). At every state one otherwise-honest spend of each kind is re-built with outputs whose TRUE sum
// exceeds the inputs by exactly 2^64 (siafunds) or 2^128 (siacoins) - i.e. whose fixed-width sum equals the inputs -
// in every split {2^(w-1), 2^(w-1)+v}, {2^w-1, v+1}, {v, 2^w-1, 1}. Oracle: rejected, without a panic. (If one were
// accepted the block creates value; the big-integer ledger oracles of this check would then fail as well.)
func wrapAttacks(c *vf.Ctx, x *chain.Explorer, w *chain.World, path []string) {
	h := w.ChildHeight()
	v1ok := h < w.Net.HardforkV2.RequireHeight
	v2ok := h >= w.Net.HardforkV2.AllowHeight
	k := w.Keys
	try := func(name string, u chain.Use) {
		b, bs := w.BlockOfUses(u)
		err, pv := x.TryBlock(w, b, bs)
		c.Distinct(w.Spec.Name, "wrap", name)
		switch {
		case pv != nil:
			x.Violate("wraparound|panic|"+name, fmt.Sprintf("ValidateBlock panicked on a value-creating block (%s) at height %d: %v", name, h, pv), path)
		case err == nil && strings.Contains(name, " listed "):
			x.Violate("multiplied-parent|accepted|"+name, fmt.Sprintf("block whose transaction lists one parent several times and pays out the multiplied sum (%s) was ACCEPTED at height %d: value created from nothing", name, h), append(append([]string(nil), path...), "attack:wrap:"+name))
		case err == nil:
			x.Violate("wraparound|accepted|"+name, fmt.Sprintf("block whose outputs exceed its inputs by exactly the width of the arithmetic (%s) was ACCEPTED at height %d: value created from nothing", name, h), append(append([]string(nil), path...), "attack:wrap:"+name))
		default:
			c.Count("wraparound_rejected", 1)
		}
	}
	bc := w.NewBlockCtx()
	// siafunds (uint64)
	sfSplits := func(v uint64) [][]uint64 {
		return [][]uint64{{1 << 63, 1<<63 + v}, {math.MaxUint64, v + 1}, {v, math.MaxUint64, 1}}
	}
	if p, ok := bc.PickSF(func(cl int) bool { return cl == chain.AddrV2 || cl == chain.AddrV1 }); ok {
		for i, split := range sfSplits(p.SiafundOutput.Value) {
			if v2ok {
				u := w.UseV2SF(p, 7)
				u.V2.SiafundOutputs = nil
				for _, val := range split {
					u.V2.SiafundOutputs = append(u.V2.SiafundOutputs, types.SiafundOutput{Value: val, Address: k.Addr(chain.AddrV2)})
				}
				w.SignV2(u.V2)
				try(fmt.Sprintf("v2 siafund outputs, split %d", i), u)
			}
			if v1ok && k.ClassOf(p.SiafundOutput.Address) == chain.AddrV1 {
				u := w.UseV1SF(p, 7)
				u.V1.SiafundOutputs = nil
				for _, val := range split {
					u.V1.SiafundOutputs = append(u.V1.SiafundOutputs, types.SiafundOutput{Value: val, Address: k.Addr(chain.AddrV1)})
				}
				u.V1.Signatures = nil
				w.SignV1Whole(u.V1)
				try(fmt.Sprintf("v1 siafund outputs, split %d", i), u)
			}
		}
	}
	// siacoins (128 bit)
	top := types.NewCurrency(0, 1<<63)
	max := types.MaxCurrency
	one := types.NewCurrency64(1)
	scSplits := func(v types.Currency) [][]types.Currency {
		return [][]types.Currency{{top, top.Add(v)}, {max, v.Add(one)}, {v, max, one}}
	}
	if p, ok := bc.PickSC(func(cl int) bool { return cl == chain.AddrV1 }, types.Siacoins(5)); ok {
		for i, split := range scSplits(p.SiacoinOutput.Value) {
			if v2ok {
				u := w.UseV2SC(p, 7)
				u.V2.SiacoinOutputs = nil
				for _, val := range split {
					u.V2.SiacoinOutputs = append(u.V2.SiacoinOutputs, types.SiacoinOutput{Value: val, Address: k.Addr(chain.AddrV2)})
				}
				w.SignV2(u.V2)
				try(fmt.Sprintf("v2 siacoin outputs, split %d", i), u)
				// the same excess hidden in the miner fee
				u2 := w.UseV2SC(p, 8)
				u2.V2.SiacoinOutputs = []types.SiacoinOutput{{Value: split[0], Address: k.Addr(chain.AddrV2)}}
				u2.V2.MinerFee = split[len(split)-1]
				if len(split) == 3 {
					u2.V2.SiacoinOutputs = append(u2.V2.SiacoinOutputs, types.SiacoinOutput{Value: split[1], Address: k.Addr(chain.AddrV2)})
				}
				w.SignV2(u2.V2)
				try(fmt.Sprintf("v2 siacoin outputs + miner fee, split %d", i), u2)
			}
			if v1ok {
				u := w.UseV1SC(p, 7)
				u.V1.SiacoinOutputs = nil
				for _, val := range split {
					u.V1.SiacoinOutputs = append(u.V1.SiacoinOutputs, types.SiacoinOutput{Value: val, Address: k.Addr(chain.AddrV1)})
				}
				u.V1.Signatures = nil
				w.SignV1Whole(u.V1)
				try(fmt.Sprintf("v1 siacoin outputs, split %d", i), u)
				u2 := w.UseV1SC(p, 8)
				u2.V1.SiacoinOutputs = []types.SiacoinOutput{{Value: split[0], Address: k.Addr(chain.AddrV1)}}
				u2.V1.MinerFees = split[1:]
				u2.V1.Signatures = nil
				w.SignV1Whole(u2.V1)
				try(fmt.Sprintf("v1 siacoin outputs + miner fees, split %d", i), u2)
			}
		}
	}
	// the same parent listed n times inside ONE transaction, the outputs equal to the n-fold input sum (every address
	// class, including unlock conditions that need no signature: nothing but the spend bookkeeping can reject these)
	dedupe := func(t *types.Transaction) {
		seen := map[[2]types.Hash256]bool{}
		var sigs []types.TransactionSignature
		for _, sg := range t.Signatures {
			key := [2]types.Hash256{sg.ParentID, {byte(sg.PublicKeyIndex)}}
			if !seen[key] {
				seen[key] = true
				sigs = append(sigs, sg)
			}
		}
		t.Signatures = sigs
		w.FillV1Signatures(t)
	}
	classes, maxN := []int{chain.AddrNoSig, chain.AddrV2}, 2
	if !c.Quick() {
		classes, maxN = []int{chain.AddrV1, chain.AddrV1b, chain.AddrNoSig, chain.AddrFnd, chain.AddrV2, chain.AddrACS}, 3
	}
	for _, cl := range classes {
		cl := cl
		for n := 2; n <= maxN; n++ {
			if p, ok := w.NewBlockCtx().PickSC(func(c int) bool { return c == cl }, types.Siacoins(5)); ok {
				if v1ok && (cl == chain.AddrV1 || cl == chain.AddrV1b || cl == chain.AddrNoSig || cl == chain.AddrFnd) {
					u := w.UseV1SC(p, 9)
					for len(u.V1.SiacoinInputs) < n {
						u.V1.SiacoinInputs = append(u.V1.SiacoinInputs, u.V1.SiacoinInputs[0])
					}
					u.V1.SiacoinOutputs[0].Value = p.SiacoinOutput.Value.Mul64(uint64(n))
					u.V1.Signatures = nil
					w.SignV1Whole(u.V1)
					dedupe(u.V1)
					try(fmt.Sprintf("v1 siacoin parent of class %d listed %d times in one transaction", cl, n), u)
				}
				if v2ok {
					u := w.UseV2SC(p, 9)
					for len(u.V2.SiacoinInputs) < n {
						u.V2.SiacoinInputs = append(u.V2.SiacoinInputs, types.V2SiacoinInput{Parent: p.Copy()})
					}
					u.V2.SiacoinOutputs[0].Value = p.SiacoinOutput.Value.Mul64(uint64(n))
					w.SignV2(u.V2)
					try(fmt.Sprintf("v2 siacoin parent of class %d listed %d times in one transaction", cl, n), u)
				}
			}
			if p, ok := w.NewBlockCtx().PickSF(func(c int) bool { return c == cl }); ok && p.SiafundOutput.Value < 1<<60 {
				if v1ok && (cl == chain.AddrV1 || cl == chain.AddrV1b || cl == chain.AddrNoSig) {
					u := w.UseV1SF(p, 9)
					for len(u.V1.SiafundInputs) < n {
						u.V1.SiafundInputs = append(u.V1.SiafundInputs, u.V1.SiafundInputs[0])
					}
					u.V1.SiafundOutputs[0].Value = p.SiafundOutput.Value * uint64(n)
					u.V1.Signatures = nil
					w.SignV1Whole(u.V1)
					dedupe(u.V1)
					try(fmt.Sprintf("v1 siafund parent of class %d listed %d times in one transaction", cl, n), u)
				}
				if v2ok {
					u := w.UseV2SF(p, 9)
					for len(u.V2.SiafundInputs) < n {
						u.V2.SiafundInputs = append(u.V2.SiafundInputs, types.V2SiafundInput{Parent: p.Copy(), ClaimAddress: k.Addr(chain.AddrV2)})
					}
					u.V2.SiafundOutputs[0].Value = p.SiafundOutput.Value * uint64(n)
					w.SignV2(u.V2)
					try(fmt.Sprintf("v2 siafund parent of class %d listed %d times in one transaction", cl, n), u)
				}
			}
		}
	}
	// an output created earlier in the block, spent under a LARGER claimed value (from the ephemeral-output height on the
	// claimed value must be the created one; below it the legacy rule does not check it - a recorded known finding)
	if v2ok {
		if p, ok := bc.PickSC(func(cl int) bool { return cl == chain.AddrV2 || cl == chain.AddrV1 }, types.Siacoins(5)); ok {
			u1 := w.UseV2SC(p, 5)
			for i, extra := range []types.Currency{one, types.Siacoins(1000000), top} {
				eph := u1.V2.EphemeralSiacoinOutput(0)
				var over bool
				if eph.SiacoinOutput.Value, over = eph.SiacoinOutput.Value.AddWithOverflow(extra); over {
					continue
				}
				t2 := types.V2Transaction{SiacoinInputs: []types.V2SiacoinInput{{Parent: eph}}, SiacoinOutputs: []types.SiacoinOutput{{Value: eph.SiacoinOutput.Value, Address: k.Addr(chain.AddrV2b)}}}
				w.SignV2(&t2)
				b, bs := w.BuildBlock(nil, []types.V2Transaction{*u1.V2, t2}, chain.BlockOpts{})
				err, pv := x.TryBlock(w, b, bs)
				name := fmt.Sprintf("in-block output spent under an inflated value, variant %d", i)
				c.Distinct(w.Spec.Name, "wrap", name)
				switch {
				case pv != nil:
					x.Violate("wraparound|panic|"+name, fmt.Sprintf("ValidateBlock panicked (%s) at height %d: %v", name, h, pv), path)
				case err == nil && h < w.Net.HardforkV2.EphemeralOutputHeight:
					x.Violate("inflated-in-block-parent|accepted|below the ephemeral-output height (legacy rule)", fmt.Sprintf("a v2 transaction spent an output created earlier in the block under a value larger than the one created (%s) and the block was ACCEPTED at height %d (below the ephemeral-output height %d the claimed parent is not compared with the created one): value created from nothing", name, h, w.Net.HardforkV2.EphemeralOutputHeight), append(append([]string(nil), path...), "attack:wrap:"+name))
				case err == nil:
					x.Violate("inflated-in-block-parent|accepted", fmt.Sprintf("a v2 transaction spent an output created earlier in the block under a value larger than the one created (%s) and the block was ACCEPTED at height %d: value created from nothing", name, h), append(append([]string(nil), path...), "attack:wrap:"+name))
				default:
					c.Count("wraparound_rejected", 1)
				}
			}
		}
	}
	// contracts: the value locked in a new contract is a sum as well
	if v2ok {
		bc2 := w.NewBlockCtx()
		if chain.V2FormAbs(h+1, h+3, 100).Do(bc2) && len(bc2.V2) == 1 {
			for i, f := range []func(fc *types.V2FileContract){
				func(fc *types.V2FileContract) { // renter + host wraps to the honest total
					tot := fc.RenterOutput.Value.Add(fc.HostOutput.Value)
					fc.RenterOutput.Value, fc.HostOutput.Value = top, top.Add(tot)
					fc.MissedHostValue, fc.TotalCollateral = types.ZeroCurrency, types.ZeroCurrency
				},
				func(fc *types.V2FileContract) {
					tot := fc.RenterOutput.Value.Add(fc.HostOutput.Value)
					fc.RenterOutput.Value, fc.HostOutput.Value = tot.Add(one), max
					fc.MissedHostValue, fc.TotalCollateral = types.ZeroCurrency, types.ZeroCurrency
				},
			} {
				t := bc2.V2[0].DeepCopy()
				fc := &t.FileContracts[0]
				f(fc)
				w.SignContract(fc, 0, 1)
				w.SignV2(&t)
				try(fmt.Sprintf("v2 contract formation, renter + host output, split %d", i), chain.Use{Name: "v2form", V2: &t})
			}
		}
	}
	if v1ok {
		bc2 := w.NewBlockCtx()
		if chain.V1FormAbs(h+1, h+3, 100).Do(bc2) && len(bc2.V1) == 1 {
			base := bc2.V1[0]
			for i, which := range []string{"valid", "missed"} {
				t := base
				t.FileContracts = append([]types.FileContract(nil), base.FileContracts...)
				fc := &t.FileContracts[0]
				var sum types.Currency
				for _, o := range fc.ValidProofOutputs {
					sum = sum.Add(o.Value)
				}
				outs := []types.SiacoinOutput{{Value: top, Address: k.Addr(chain.AddrV1)}, {Value: top.Add(sum), Address: k.Addr(chain.AddrV1b)}}
				if which == "valid" {
					fc.ValidProofOutputs = outs
				} else {
					fc.MissedProofOutputs = outs
				}
				t.Signatures = nil
				w.SignV1Whole(&t)
				try(fmt.Sprintf("v1 contract formation, %s proof outputs, split %d", which, i), chain.Use{Name: "v1form", V1: &t})
			}
		}
	}
}
