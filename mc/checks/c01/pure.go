package c01

import (
	"fmt"
	"math/big"
	"time"

	"go.sia.tech/core/consensus"
	"go.sia.tech/core/types"
	"verifmc/chain"
	"verifmc/vf"
)

// pureSweep: the monetary policy functions of State are pure functions of (network, child height, arguments). They
// are compared with the big-integer reference on EVERY child height of a window covering all fork heights of every
// network family (plus far heights where the reward reaches its floor and subsidy months recur) x a boundary set of
// amounts: block reward, Foundation subsidy (amount, recipient, which heights pay), v1 contract tax (both eras,
// rounding to the siafund count), v2 contract tax, maturity height.
func pureSweep(c *vf.Ctx, keys *chain.Keys) {
	amounts := []types.Currency{types.ZeroCurrency, types.NewCurrency64(1), types.NewCurrency64(25), types.NewCurrency64(38), types.NewCurrency64(39), types.NewCurrency64(40),
		types.NewCurrency64(9999), types.NewCurrency64(10000), types.NewCurrency64(256409), types.NewCurrency64(256410), types.NewCurrency64(256411), types.NewCurrency64(1<<63 + 11),
		types.NewCurrency(0, 1), types.NewCurrency(12345, 1), types.Siacoins(1), types.Siacoins(200).Add(types.NewCurrency64(12345)), types.Siacoins(1e9).Mul64(1000), types.NewCurrency(7, 1<<40), types.NewCurrency(0, 1<<58)}
	for _, name := range []string{"v1-eras", "v1-early", "v1-mid", "mixed", "v2-only", "v2-eph5", "acc"} {
		sp := chain.Spec(name)
		n0 := sp.Network(keys)
		// block intervals whose blocks-per-year are and are not multiples of twelve (the monthly subsidy is paid per
		// floor(blocks per year / 12) blocks - not a twelfth of the yearly amount)
		for _, iv := range []time.Duration{n0.BlockInterval, 50 * time.Hour, 100 * time.Hour, 7 * time.Minute, 9 * time.Minute, 10 * time.Minute, 11 * time.Hour} {
			for cbi, cb := range [][2]types.Currency{{n0.InitialCoinbase, n0.MinimumCoinbase}, {types.Siacoins(300000), types.Siacoins(30000)}, {types.Siacoins(10).Add(types.NewCurrency64(1)), types.Siacoins(3)}, {types.Siacoins(7), types.Siacoins(7)}, {types.NewCurrency64(5), types.ZeroCurrency}} {
				if cbi > 0 && iv != n0.BlockInterval {
					continue // coinbase parameters and block interval are varied one at a time
				}
				nn := *n0
				nn.BlockInterval = iv
				nn.InitialCoinbase, nn.MinimumCoinbase = cb[0], cb[1]
				if cbi > 0 {
					nn.MaturityDelay = uint64(cbi) * 48
				}
				n := &nn
				perMonth := uint64(365*24*3600/int64(n.BlockInterval.Seconds())) / 12
				var heights []uint64
				for h := uint64(0); h <= 40; h++ {
					heights = append(heights, h)
				}
				fh := n.HardforkFoundation.Height
				for _, k := range []uint64{1, 2, 3, 12, 13} {
					heights = append(heights, fh+k*perMonth-1, fh+k*perMonth, fh+k*perMonth+1)
				}
				heights = append(heights, 269999, 270000, 270001, 299999, 300000, 300001, 1<<32+5, 1<<62)
				for _, h := range heights {
					for _, primary := range []types.Address{n.HardforkFoundation.PrimaryAddress, types.VoidAddress, keys.Addr(chain.AddrV2)} {
						cs := consensus.State{Network: n, Index: types.ChainIndex{Height: h - 1}, FoundationSubsidyAddress: primary, FoundationManagementAddress: n.HardforkFoundation.FailsafeAddress}
						bad := func(what, got, want string) {
							c.Violate("C01|policy-function|"+what, fmt.Sprintf("[%s child height %d] %s = %s, reference %s", name, h, what, got, want),
								map[string]any{"policy_function": what, "network": name, "child_height": h, "seed": c.Seed})
						}
						c.Count("evaluations", 1)
						if got, want := cs.BlockReward().Big(), chain.RefReward(n, h); got.Cmp(want) != 0 {
							bad("BlockReward", got.String(), want.String())
						}
						if got, want := cs.MaturityHeight(), h+n.MaturityDelay; got != want {
							bad("MaturityHeight", fmt.Sprint(got), fmt.Sprint(want))
						}
						sub, ok := cs.FoundationSubsidy()
						want := chain.RefSubsidy(n, h, primary)
						switch {
						case ok != (want != nil):
							bad("FoundationSubsidy(paid at this height)", fmt.Sprint(ok), fmt.Sprint(want != nil))
						case ok && (sub.Value.Big().Cmp(want) != 0 || sub.Address != primary):
							bad("FoundationSubsidy(amount, recipient)", fmt.Sprintf("%v to %v", sub.Value, sub.Address), fmt.Sprintf("%v to %v", want, primary))
						}
						c.Count("policy_function_checks", 3)
						if primary != n.HardforkFoundation.PrimaryAddress || iv != n0.BlockInterval || cbi > 0 {
							continue
						}
						for _, a := range amounts {
							c.Count("evaluations", 1)
							c.Distinct("policy", name, h, a.String())
							var got *big.Int
							if p, _ := vf.Try(func() { got = cs.FileContractTax(types.FileContract{Payout: a}).Big() }); p != nil {
								bad("FileContractTax(panic)", fmt.Sprint(p), "a value")
							} else if want := chain.RefTaxV1(n, h, a); got.Cmp(want) != 0 {
								bad("FileContractTax", got.String()+" for payout "+a.String(), want.String())
							}
							for _, b := range []types.Currency{types.ZeroCurrency, types.NewCurrency64(24), a} {
								fc := types.V2FileContract{RenterOutput: types.SiacoinOutput{Value: a}, HostOutput: types.SiacoinOutput{Value: b}}
								if _, over := a.AddWithOverflow(b); over {
									continue
								}
								if got, want := cs.V2FileContractTax(fc).Big(), chain.RefTaxV2(fc); got.Cmp(want) != 0 {
									bad("V2FileContractTax", got.String(), want.String())
								}
							}
							c.Count("policy_function_checks", 4)
						}
					}
				}
			}
		}
	}
}
