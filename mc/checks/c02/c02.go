// Package c02: no double spend / double resolution. At every reachable state
// of a union-alphabet exploration the full second-use attack menu is executed
// against the real ValidateBlock; every attack block is re-signed and sealed,
// and has a control block (second use removed) that must be accepted.
package c02

import (
	"encoding/json"
	"fmt"

	"go.sia.tech/core/consensus"
	"go.sia.tech/core/types"
	"verifmc/chain"
	"verifmc/vf"
)

func init() {
	vf.Register(&vf.Check{ID: "C02", Level: "model_checking", Run: run, Replay: replay})
}

func menu(w *chain.World) []chain.Action {
	return []chain.Action{
		chain.V1Pay(true, 2), chain.V1Chain(), chain.V1SF(true), chain.V1SFChain(), chain.V1Form(1, 2, 100), chain.V1Form(0, 2, 10), chain.V1FormNoSig(1, 2, 10), chain.V1Revise("pay"), chain.V1Proof(false), chain.V1Proof(true),
		chain.V2Pay(chain.AddrV2, true, 2), chain.V2Pay(chain.AddrV1, false, 1), chain.V2Chain(chain.AddrV2), chain.V2SF(true), chain.V2Form(1, 2, 100), chain.V2Form(0, 1, 10), chain.V2Form(0, 1, 0),
		chain.V2Revise("pay"), chain.V2Renew("partial"), chain.V2Proof(), chain.V2Expire(),
	}
}

// mk builds uses for an element at world w (tag distinguishes otherwise identical transactions).
type useGen struct {
	name string
	gen  func(w *chain.World, tag byte) (chain.Use, bool)
	// app reports whether the use would be valid BY ITSELF (element still live) in a block of height h.
	app func(n *consensus.Network, h uint64) bool
}

func v1app(n *consensus.Network, h uint64) bool { return h < n.HardforkV2.RequireHeight }
func v2app(n *consensus.Network, h uint64) bool { return h >= n.HardforkV2.AllowHeight }

func run(c *vf.Ctx) {
	c.Set("rule", "explicit-state DFS over the union alphabet; at every distinct state, for one canonical live element of every kind (v1-address SC incl. its use as the miner fee of a storage proof transaction, v2-address SC, zero-signature SC and SF, in-block ephemeral output, SF, SF at the old developer address incl. the dev-address override, v1 contract, v2 contract) every ordered pair (first use, second use) of applicable uses x every placement {same transaction, same transaction separated by the same kind of use of another element, later transaction of the same block, later transaction of the same block after an in-block revision of the contract, next block with stale proof, next block with proof maintained through the update, next block presenting the contract in its revised form after a block [revision, first use], after a reorg that re-applies the first use}; plus, for every live v1 contract, its resolution (storage proof / natural expiration) followed by a next block whose SUPPLEMENT lists it as expiring again (pre-resolution proof and proof maintained through the resolving block), and the contract listed twice in the supplement of its expiration block; oracle: attack block rejected, control blocks (each use alone) accepted; a case is distinct per (network, height, element kind, first use, second use, placement)")
	nets := []string{"v1-eras", "mixed", "v2-only"}
	// (thorough tier: the same three network families at K=2; a fourth (v2-eph5) and a fifth (v1-mid) network did not fit
	// the 25-minute budget with the present attack menu; with ordered pairs per block (K=2) the horizon is 7: H=8 hit the
	// 1500 s cap at 148 M evaluations)
	for _, n := range nets {
		if c.Expired() {
			break
		}
		sp := chain.Spec(n)
		m := &chain.Model{Name: "union", Spec: sp, Menu: menu,
			Opt: chain.Options{CheckLedger: true, CheckForest: true, CheckSupply: true},
			H:   vf.Pick[uint64](c, 8, 7), D: vf.Pick(c, 2, 2), K: vf.Pick(c, 1, 2), R: vf.Pick(c, 1, 1)}
		if n == "v2-eph5" {
			m.K = 1 // the extra network of the thorough tier: single-action blocks
			m.H = 6
		}
		if sp.Name == "mixed" {
			m.SkipStart = 3
			m.H += 3
		}
		m.OnState = func(x *chain.Explorer, w *chain.World, path []string) { attacks(c, x, w, path) }
		x := chain.NewExplorer(c, m, "C02")
		x.Run()
		x.Report(n + "/")
	}
	c.RequireFeature("attack_rejected", "control_accepted", "attack:same-block", "attack:same-block-after-revision", "attack:same-tx", "attack:same-tx-separated", "attack:next-block-stale", "attack:next-block-updated", "attack:next-block-ephemeral", "attack:next-block-revised-form", "attack:same-block-alias", "attack:reorg", "attack:next-block-stale-supplement", "attack:next-block-updated-supplement", "attack:expiring-listed-twice",
		"kind:sc-v1addr", "kind:sc-v2addr", "kind:sc-nosig", "kind:sf-nosig", "kind:sf", "kind:sf-devaddr", "kind:fc", "kind:v2fc", "kind:ephemeral")
	c.Assume("every attack block is built by the harness' own builder: correct parent, timestamp, commitment/Merkle root, miner payout and nonce; the control experiment (same block without the second use) must be accepted, so an attack cannot be rejected merely for being badly sealed")
}

func accept(x *chain.Explorer, w *chain.World, b types.Block, bs consensus.V1BlockSupplement) (bool, any) {
	err, p := x.TryBlock(w, b, bs)
	return err == nil && p == nil, p
}

// attacks runs the second-use menu at state w.
func attacks(c *vf.Ctx, x *chain.Explorer, w *chain.World, path []string) {
	h := w.ChildHeight()
	v1ok := h < w.Net.HardforkV2.RequireHeight
	v2ok := h >= w.Net.HardforkV2.AllowHeight
	bc := w.NewBlockCtx()

	type target struct {
		kind string
		uses []useGen
		// revised: the use generators for the same contract presented in its REVISED form (revision ur applied by
		// update au): element contents = the revision, proof maintained through au
		revised func(ur chain.Use, au consensus.ApplyUpdate) []useGen
	}
	var targets []target

	// siacoin output with a v1-class address: spendable by v1 and v2 transactions
	if p, ok := bc.PickSC(func(cl int) bool { return cl == chain.AddrV1 }, types.Siacoins(10)); ok {
		var us []useGen
		if v1ok {
			us = append(us, useGen{"v1spend", func(w *chain.World, tag byte) (chain.Use, bool) { return w.UseV1SC(p, tag), true }, v1app})
		}
		if v2ok {
			us = append(us, useGen{"v2spend", func(w *chain.World, tag byte) (chain.Use, bool) { return w.UseV2SC(p, tag), true }, v2app})
		}
		if v1ok {
			// the output spent entirely as the miner fee of a storage proof transaction (the only thing besides proofs
			// such a transaction may carry): a spend travelling with another feature
			for _, e := range w.Ref.Live(chain.KFC) {
				fce, ok := w.Store.FC[types.FileContractID(e.ID)]
				if !ok || !(fce.FileContract.WindowStart <= h && h < fce.FileContract.WindowEnd) {
					continue
				}
				us = append(us, useGen{"v1spend-as-proof-fee", func(w *chain.World, tag byte) (chain.Use, bool) {
					cur, live := w.Store.FC[fce.ID]
					if !live {
						return chain.Use{}, false
					}
					return w.UseV1SCAsProofFee(p, cur, cur.FileContract)
				}, func(n *consensus.Network, hh uint64) bool {
					return v1app(n, hh) && fce.FileContract.WindowStart <= hh && hh < fce.FileContract.WindowEnd
				}})
				break
			}
		}
		targets = append(targets, target{"sc-v1addr", us, nil})
	}
	// outputs whose unlock conditions need no signature at all (authorisation-shape variant of the same attack)
	if p, ok := bc.PickSC(func(cl int) bool { return cl == chain.AddrNoSig }, types.Siacoins(10)); ok {
		var us []useGen
		if v1ok {
			us = append(us, useGen{"v1spend", func(w *chain.World, tag byte) (chain.Use, bool) { return w.UseV1SC(p, tag), true }, v1app})
		}
		if v2ok {
			us = append(us, useGen{"v2spend", func(w *chain.World, tag byte) (chain.Use, bool) { return w.UseV2SC(p, tag), true }, v2app})
		}
		targets = append(targets, target{"sc-nosig", us, nil})
	}
	if p, ok := bc.PickSF(func(cl int) bool { return cl == chain.AddrNoSig }); ok {
		var us []useGen
		if v1ok {
			us = append(us, useGen{"v1sfspend", func(w *chain.World, tag byte) (chain.Use, bool) { return w.UseV1SF(p, tag), true }, v1app})
		}
		if v2ok {
			us = append(us, useGen{"v2sfspend", func(w *chain.World, tag byte) (chain.Use, bool) { return w.UseV2SF(p, tag), true }, v2app})
		}
		targets = append(targets, target{"sf-nosig", us, nil})
	}
	if p, ok := bc.PickSC(func(cl int) bool { return cl == chain.AddrV2 }, types.Siacoins(10)); ok && v2ok {
		targets = append(targets, target{"sc-v2addr", []useGen{{"v2spend", func(w *chain.World, tag byte) (chain.Use, bool) { return w.UseV2SC(p, tag), true }, v2app}}, nil})
	}
	if p, ok := bc.PickSF(func(cl int) bool { return cl == chain.AddrV1 }); ok {
		var us []useGen
		if v1ok {
			us = append(us, useGen{"v1sfspend", func(w *chain.World, tag byte) (chain.Use, bool) { return w.UseV1SF(p, tag), true }, v1app})
		}
		if v2ok {
			us = append(us, useGen{"v2sfspend", func(w *chain.World, tag byte) (chain.Use, bool) { return w.UseV2SF(p, tag), true }, v2app})
		}
		targets = append(targets, target{"sf", us, nil})
	}
	// a siafund output still held by the OLD developer address: from the dev-address hardfork on it may also be spent by
	// revealing the unlock conditions of the NEW address (a special case on the v1 siafund path)
	if p, ok := bc.PickSF(func(cl int) bool { return cl == chain.AddrV1b }); ok && w.Net.HardforkDevAddr.OldAddress == w.Keys.Addr(chain.AddrV1b) {
		var us []useGen
		if v1ok {
			us = append(us, useGen{"v1sfspend", func(w *chain.World, tag byte) (chain.Use, bool) { return w.UseV1SF(p, tag), true }, v1app})
			us = append(us, useGen{"v1sfspend-devaddr-override", func(w *chain.World, tag byte) (chain.Use, bool) {
				u := w.UseV1SF(p, tag)
				u.V1.SiafundInputs[0].UnlockConditions = w.Keys.StdUC(0) // the new developer address' conditions
				u.V1.Signatures = nil
				w.SignV1Whole(u.V1)
				u.Name = "v1sfspend-devaddr-override"
				return u, true
			}, func(n *consensus.Network, hh uint64) bool { return v1app(n, hh) && hh >= n.HardforkDevAddr.Height }})
		}
		if v2ok {
			us = append(us, useGen{"v2sfspend", func(w *chain.World, tag byte) (chain.Use, bool) { return w.UseV2SF(p, tag), true }, v2app})
		}
		targets = append(targets, target{"sf-devaddr", us, nil})
	}
	// v1 contracts: every live contract (few)
	v1Uses := func(fce types.FileContractElement, fc types.FileContract) []useGen {
		var us []useGen
		if fc.RevisionNumber < 1<<62 {
			us = append(us, useGen{"v1revise", func(w *chain.World, tag byte) (chain.Use, bool) { return w.UseV1Revise(fce, fc, uint64(tag)), true },
				func(n *consensus.Network, h uint64) bool { return v1app(n, h) && fc.WindowStart >= h }})
		}
		us = append(us, useGen{"v1proof", func(w *chain.World, tag byte) (chain.Use, bool) { return w.UseV1Proof(fce, fc) },
			func(n *consensus.Network, h uint64) bool {
				return v1app(n, h) && fc.WindowStart <= h && h < fc.WindowEnd
			}})
		return us
	}
	if v1ok {
		for _, e := range w.Ref.Live(chain.KFC) {
			fce, ok := w.Store.FC[types.FileContractID(e.ID)]
			if !ok {
				continue
			}

			if us := v1Uses(fce, fce.FileContract); len(us) > 0 {
				targets = append(targets, target{"fc", us, func(ur chain.Use, au consensus.ApplyUpdate) []useGen {
					if ur.V1 == nil || len(ur.V1.FileContractRevisions) != 1 {
						return nil
					}
					r := fce.Copy()
					r.FileContract = ur.V1.FileContractRevisions[0].FileContract
					r.FileContract.Payout = fce.FileContract.Payout
					au.UpdateElementProof(&r.StateElement)
					return v1Uses(r, r.FileContract)
				}})
			}
		}
	}
	v2Uses := func(fce types.V2FileContractElement) []useGen {
		fc := fce.V2FileContract
		var us []useGen
		early := func(n *consensus.Network, h uint64) bool { return v2app(n, h) && fc.ProofHeight >= h }
		if fc.RevisionNumber < 1<<62 {
			us = append(us, useGen{"v2revise", func(w *chain.World, tag byte) (chain.Use, bool) { return w.UseV2Revise(fce, fc, uint64(tag)), true }, early})
			us = append(us, useGen{"v2renew", func(w *chain.World, tag byte) (chain.Use, bool) {
				bc2 := w.NewBlockCtx()
				// pick a funding output distinct per tag so that the two renewals do not also collide on funding
				var f types.SiacoinElement
				var ok bool
				for i := byte(0); i <= tag%2; i++ {
					f, ok = bc2.PickSC(func(cl int) bool { return cl == chain.AddrACS || cl == chain.AddrV2 }, types.Siacoins(200))
					if ok {
						bc2.Used[types.Hash256(f.ID)] = true
					}
				}
				if !ok {
					return chain.Use{}, false
				}
				return w.UseV2Renew(fce, f)
			}, early})
		}
		us = append(us, useGen{"v2proof", func(w *chain.World, tag byte) (chain.Use, bool) { return w.UseV2Proof(fce) },
			func(n *consensus.Network, h uint64) bool { return v2app(n, h) && h >= fc.ProofHeight+1 }})
		us = append(us, useGen{"v2expire", func(w *chain.World, tag byte) (chain.Use, bool) { return w.UseV2Expire(fce), true },
			func(n *consensus.Network, h uint64) bool { return v2app(n, h) && h > fc.ExpirationHeight }})
		return us
	}
	if v2ok {
		for _, e := range w.Ref.Live(chain.KV2FC) {
			fce, ok := w.Store.V2FC[types.FileContractID(e.ID)]
			if !ok {
				continue
			}

			if us := v2Uses(fce); len(us) > 0 {
				targets = append(targets, target{"v2fc", us, func(ur chain.Use, au consensus.ApplyUpdate) []useGen {
					if ur.V2 == nil || len(ur.V2.FileContractRevisions) != 1 {
						return nil
					}
					r := fce.Copy()
					r.V2FileContract = ur.V2.FileContractRevisions[0].Revision
					au.UpdateElementProof(&r.StateElement)
					return v2Uses(r)
				}})
			}
		}
	}

	resolves := func(name string) bool { return name != "v1revise" && name != "v2revise" }

	for ti, t := range targets {
		for _, g1 := range t.uses {
			if !resolves(g1.name) || !g1.app(w.Net, h) {
				continue // a revision followed by anything is legal
			}
			u1, ok1 := g1.gen(w, 1)
			if !ok1 {
				continue
			}
			// control 1: the first use alone is accepted
			b1, bs1 := w.BlockOfUses(u1)
			if ok, p := accept(x, w, b1, bs1); !ok {
				x.Violate("control-rejected|"+g1.name, fmt.Sprintf("control block with the single use %s of a live %s element rejected at height %d (panic=%v)", g1.name, t.kind, h, p), path)
				continue
			}
			c.Count("control_accepted", 1)
			// contracts: the same first use preceded by a revision of the contract in an earlier transaction of the block
			// (the in-block bookkeeping of a revised-then-resolved contract is a separate code path); used only if the
			// block [revision, first use] is itself accepted.
			var ur *chain.Use
			if t.kind == "fc" || t.kind == "v2fc" {
				for _, gr := range t.uses {
					if resolves(gr.name) || !gr.app(w.Net, h) {
						continue
					}
					if u, ok := gr.gen(w, 1); ok {
						bp, bsp := w.BlockOfUses(u, u1)
						if ok, _ := accept(x, w, bp, bsp); ok {
							ur = &u
							c.Count("control_accepted_after_revision", 1)
						} else {
							c.Count("revision_prefix_not_applicable", 1)
						}
					}
					break
				}
			}
			for _, g2 := range t.uses {
				sameBlockOK := g2.app(w.Net, h)
				nextBlockOK := g2.app(w.Net, h+1)
				if !sameBlockOK && !nextBlockOK {
					continue
				}
				var u2 chain.Use
				if sameBlockOK {
					var ok2 bool
					if u2, ok2 = g2.gen(w, 2); !ok2 {
						continue
					}
					b2, bs2 := w.BlockOfUses(u2)
					if ok, _ := accept(x, w, b2, bs2); !ok {
						x.Violate("control-rejected|"+g2.name, fmt.Sprintf("control block with the single use %s of a live %s element rejected at height %d", g2.name, t.kind, h), path)
						continue
					}
					c.Count("control_accepted", 1)
				}
				c.Count("kind:"+t.kind, 1)
				report := func(placement string) {
					x.Violate("second-use-accepted|"+t.kind+"|"+g1.name+"->"+g2.name+"|"+placement,
						fmt.Sprintf("block with a second use (%s after %s, %s) of one %s element was ACCEPTED at height %d", g2.name, g1.name, placement, t.kind, h), append(append([]string(nil), path...), "attack:"+placement+":"+g1.name+"->"+g2.name))
				}
				try := func(placement string, wv *chain.World, uses ...chain.Use) {
					c.Count("attack:"+placement, 1)
					c.Distinct(w.Spec.Name, h, t.kind, g1.name, g2.name, placement)
					b, bs := wv.BlockOfUses(uses...)
					ok, p := accept(x, wv, b, bs)
					if p != nil {
						x.Violate("attack|panic|"+placement, fmt.Sprintf("ValidateBlock panicked on attack %s->%s (%s): %v", g1.name, g2.name, placement, p), path)
					} else if ok {
						report(placement)
					} else {
						c.Count("attack_rejected", 1)
					}
				}
				if sameBlockOK {
					// (b) later transaction of the same block (v1 transactions always precede v2 ones)
					if !(u1.V2 != nil && u2.V1 != nil) {
						try("same-block", w, u1, u2)
					}
					// (a) same transaction
					if m, ok := merge(w, u1, u2); ok {
						try("same-tx", w, m)
					}
					// (a') same transaction, the two uses SEPARATED by the same kind of use of another element (a duplicate
					// check that only compares neighbours): [first use, other element's use, second use]
				sep:
					for tj, t2 := range targets {
						if tj == ti {
							continue
						}
						for _, gx := range t2.uses {
							if gx.name != g1.name || !gx.app(w.Net, h) {
								continue
							}
							ux, okx := gx.gen(w, 3)
							if !okx {
								continue
							}
							m1, ok := merge(w, u1, ux)
							if !ok {
								continue
							}
							bm, bsm := w.BlockOfUses(m1)
							if ok, _ := accept(x, w, bm, bsm); !ok {
								continue // the two different elements do not combine into one transaction here
							}
							if m2, ok := merge(w, m1, u2); ok {
								try("same-tx-separated", w, m2)
								break sep
							}
						}
					}
					// (b') revision, first use, second use in three transactions of one block
					if ur != nil {
						try("same-block-after-revision", w, *ur, u1, u2)
					}
				}
				// (f) the block [revision, first use] applied; the second use arrives in the NEXT block and presents the
				// contract in its REVISED form with a proof maintained through that block's update (a resolution that the
				// in-block bookkeeping of a revised-then-resolved contract failed to record leaves exactly that leaf "live")
				if ur != nil && t.revised != nil {
					bp, bsp := w.BlockOfUses(*ur, u1)
					wr := w.Clone()
					if err, p := wr.ApplyFrom(w, bp, bsp); err == nil && p == nil {
						aur := lastUpdate(w, bp, bsp)
						for _, gr := range t.revised(*ur, aur) {
							if gr.name != g2.name || !gr.app(w.Net, h+1) {
								continue
							}
							if u2r, ok := gr.gen(wr, 2); ok {
								try("next-block-revised-form", wr, u2r)
							}
						}
					} else if p != nil {
						x.Violate(p.Sig, p.Desc, path)
					}
				}
				if !nextBlockOK {
					continue
				}
				// (c)(d)(e) need the first use applied
				w1 := w.Clone()
				if err, p := w1.ApplyFrom(w, b1, bs1); err != nil || p != nil {
					if p != nil {
						x.Violate(p.Sig, p.Desc, path)
					}
					continue
				}
				au := lastUpdate(w, b1, bs1)
				// (c) next block, stale proof: regenerate the second use against the OLD world's elements but sign for the new state
				if u2s, ok := g2.gen(w1, 2); ok {
					try("next-block-stale", w1, u2s)
				}
				// (d) next block, proof maintained through the update (spent leaf re-presented as unspent)
				if u2u, ok := g2.gen(w1, 2); ok {
					u2u = updateProofs(u2u, au)
					try("next-block-updated", w1, u2u)
				}
				// (e) after a reorg that re-applies the first use
				w2 := w1.Clone()
				if p := w2.Revert(); p != nil {
					x.Violate(p.Sig, p.Desc, path)
					continue
				}
				if err, p := w2.Apply(b1, bs1); err != nil || p != nil {
					x.Violate("reorg|reapply-rejected", fmt.Sprintf("re-applying the same block after a revert failed: %v %v", err, p), path)
					continue
				}
				if u2s, ok := g2.gen(w2, 2); ok {
					try("reorg", w2, u2s)
				}
			}
		}
	}
	// ephemeral outputs: created and double-spent inside one block
	ephemeral(c, x, w, path, v1ok, v2ok)
	if v1ok {
		expiryAfterResolution(c, x, w, path)
	}
}

// expiryAfterResolution: a v1 contract needs no transaction to be resolved a second time - listing it in the block
// supplement's ExpiringFileContracts is enough. First resolution = storage proof or the natural expiration at the window
// end; the next block lists the contract as expiring again, with the pre-resolution proof and with the proof maintained
// through the resolving block (which then opens the RESOLVED leaf). Also: the contract listed twice in one supplement.
func expiryAfterResolution(c *vf.Ctx, x *chain.Explorer, w *chain.World, path []string) {
	h := w.ChildHeight()
	for _, e := range w.Ref.Live(chain.KFC) {
		fce, ok := w.Store.FC[types.FileContractID(e.ID)]
		if !ok {
			continue
		}
		fc := fce.FileContract
		type first struct {
			name string
			uses []chain.Use
		}
		var firsts []first
		if fc.WindowStart <= h && h < fc.WindowEnd {
			if u, ok := w.UseV1Proof(fce, fc); ok {
				firsts = append(firsts, first{"v1proof", []chain.Use{u}})
			}
		}
		if fc.WindowEnd == h {
			firsts = append(firsts, first{"v1expire", nil})
			// the contract listed twice in the supplement of its expiration block: accepted only if it resolves once
			b, bs := w.BlockOfUses()
			bs.ExpiringFileContracts = append(bs.ExpiringFileContracts, fce.Copy())
			c.Count("attack:expiring-listed-twice", 1)
			if ok, p := accept(x, w, b, bs); p != nil {
				x.Violate("attack|panic|expiring-listed-twice", fmt.Sprintf("ValidateBlock panicked on a supplement listing an expiring contract twice: %v", p), path)
			} else if ok {
				wd := w.Clone()
				if err, p := wd.ApplyFrom(w, b, bs); err != nil || p != nil {
					desc := fmt.Sprint(err)
					if p != nil {
						desc = p.Sig + ": " + p.Desc
					}
					x.Violate("second-use-accepted|fc|v1expire->v1expire|same-supplement", fmt.Sprintf("block whose supplement lists one expiring contract twice was accepted at height %d and resolved it twice: %s", h, desc), append(append([]string(nil), path...), "attack:expiring-listed-twice"))
				} else {
					c.Count("expiring_listed_twice_resolved_once", 1)
				}
			} else {
				c.Count("attack_rejected", 1)
			}
		}
		if h+1 >= w.Net.HardforkV2.RequireHeight {
			continue
		}
		for _, f := range firsts {
			b1, bs1 := w.BlockOfUses(f.uses...)
			if ok, _ := accept(x, w, b1, bs1); !ok {
				continue // reported as a control by the main loop
			}
			w1 := w.Clone()
			if err, p := w1.ApplyFrom(w, b1, bs1); err != nil || p != nil {
				if p != nil {
					x.Violate(p.Sig, p.Desc, path)
				}
				continue
			}
			au := lastUpdate(w, b1, bs1)
			b2, bs2 := w1.BlockOfUses()
			if ok, p := accept(x, w1, b2, bs2); !ok {
				x.Violate("control-rejected|empty-next-block", fmt.Sprintf("empty block after the %s of a v1 contract rejected at height %d (panic=%v)", f.name, h+1, p), path)
				continue
			}
			c.Count("control_accepted", 1)
			for _, form := range []string{"stale", "updated"} {
				r := fce.Copy()
				if form == "updated" {
					au.UpdateElementProof(&r.StateElement)
				}
				bs := deepCopySupp(bs2)
				bs.ExpiringFileContracts = append(bs.ExpiringFileContracts, r)
				placement := "next-block-" + form + "-supplement"
				c.Count("attack:"+placement, 1)
				c.Distinct(w.Spec.Name, h, "fc", f.name, "v1expire", placement)
				if ok, p := accept(x, w1, b2, bs); p != nil {
					x.Violate("attack|panic|"+placement, fmt.Sprintf("ValidateBlock panicked on attack %s->v1expire (%s): %v", f.name, placement, p), path)
				} else if ok {
					x.Violate("second-use-accepted|fc|"+f.name+"->v1expire|"+placement,
						fmt.Sprintf("block whose supplement lists an already resolved v1 contract (%s in the previous block) as expiring (%s proof) was ACCEPTED at height %d", f.name, form, h+1),
						append(append([]string(nil), path...), "attack:"+placement+":"+f.name+"->v1expire"))
				} else {
					c.Count("attack_rejected", 1)
				}
			}
		}
	}
}

func lastUpdate(w *chain.World, b types.Block, bs consensus.V1BlockSupplement) consensus.ApplyUpdate {
	_, au := consensus.ApplyBlock(w.CS, deepCopyBlock(b), deepCopySupp(bs), w.TargetTimestamp())
	return au
}

func deepCopyBlock(b types.Block) types.Block {
	c := b
	c.Transactions = append([]types.Transaction(nil), b.Transactions...)
	if b.V2 != nil {
		v := *b.V2
		v.Transactions = make([]types.V2Transaction, len(b.V2.Transactions))
		for i := range v.Transactions {
			v.Transactions[i] = b.V2.Transactions[i].DeepCopy()
		}
		c.V2 = &v
	}
	return c
}

func deepCopySupp(bs consensus.V1BlockSupplement) consensus.V1BlockSupplement {
	var c consensus.V1BlockSupplement
	for _, ts := range bs.Transactions {
		var t consensus.V1TransactionSupplement
		for _, e := range ts.SiacoinInputs {
			t.SiacoinInputs = append(t.SiacoinInputs, e.Copy())
		}
		for _, e := range ts.SiafundInputs {
			t.SiafundInputs = append(t.SiafundInputs, e.Copy())
		}
		for _, e := range ts.RevisedFileContracts {
			t.RevisedFileContracts = append(t.RevisedFileContracts, e.Copy())
		}
		for _, e := range ts.StorageProofs {
			t.StorageProofs = append(t.StorageProofs, consensus.V1StorageProofSupplement{FileContract: e.FileContract.Copy(), WindowID: e.WindowID})
		}
		c.Transactions = append(c.Transactions, t)
	}
	for _, e := range bs.ExpiringFileContracts {
		c.ExpiringFileContracts = append(c.ExpiringFileContracts, e.Copy())
	}
	return c
}

// updateProofs maintains every parent proof of the use through au.
func updateProofs(u chain.Use, au consensus.ApplyUpdate) chain.Use {
	upd := func(se *types.StateElement) {
		if se.LeafIndex != types.UnassignedLeafIndex {
			au.UpdateElementProof(se)
		}
	}
	for i := range u.SuppSC {
		upd(&u.SuppSC[i].StateElement)
	}
	for i := range u.SuppSF {
		upd(&u.SuppSF[i].StateElement)
	}
	for i := range u.SuppFC {
		upd(&u.SuppFC[i].StateElement)
	}
	if u.V2 != nil {
		t := u.V2.DeepCopy()
		for i := range t.SiacoinInputs {
			upd(&t.SiacoinInputs[i].Parent.StateElement)
		}
		for i := range t.SiafundInputs {
			upd(&t.SiafundInputs[i].Parent.StateElement)
		}
		for i := range t.FileContractRevisions {
			upd(&t.FileContractRevisions[i].Parent.StateElement)
		}
		for i := range t.FileContractResolutions {
			upd(&t.FileContractResolutions[i].Parent.StateElement)
			if sp, ok := t.FileContractResolutions[i].Resolution.(*types.V2StorageProof); ok {
				upd(&sp.ProofIndex.StateElement)
			}
		}
		u.V2 = &t
	}
	return u
}

// merge puts both uses into ONE transaction (same version only).
func merge(w *chain.World, a, b chain.Use) (chain.Use, bool) {
	switch {
	case a.V1 != nil && b.V1 != nil:
		t := types.Transaction{}
		for _, s := range []*types.Transaction{a.V1, b.V1} {
			t.SiacoinInputs = append(t.SiacoinInputs, s.SiacoinInputs...)
			t.SiacoinOutputs = append(t.SiacoinOutputs, s.SiacoinOutputs...)
			t.SiafundInputs = append(t.SiafundInputs, s.SiafundInputs...)
			t.SiafundOutputs = append(t.SiafundOutputs, s.SiafundOutputs...)
			t.FileContractRevisions = append(t.FileContractRevisions, s.FileContractRevisions...)
			t.StorageProofs = append(t.StorageProofs, s.StorageProofs...)
		}
		w.SignV1Whole(&t)
		return chain.Use{Name: "merged", V1: &t, SuppSC: append(a.SuppSC, b.SuppSC...), SuppSF: append(a.SuppSF, b.SuppSF...), SuppFC: append(a.SuppFC, b.SuppFC...)}, true
	case a.V2 != nil && b.V2 != nil:
		t := types.V2Transaction{}
		for _, s := range []*types.V2Transaction{a.V2, b.V2} {
			d := s.DeepCopy()
			t.SiacoinInputs = append(t.SiacoinInputs, d.SiacoinInputs...)
			t.SiacoinOutputs = append(t.SiacoinOutputs, d.SiacoinOutputs...)
			t.SiafundInputs = append(t.SiafundInputs, d.SiafundInputs...)
			t.SiafundOutputs = append(t.SiafundOutputs, d.SiafundOutputs...)
			t.FileContractRevisions = append(t.FileContractRevisions, d.FileContractRevisions...)
			t.FileContractResolutions = append(t.FileContractResolutions, d.FileContractResolutions...)
		}
		w.SignV2(&t)
		return chain.Use{Name: "merged", V2: &t}, true
	}
	return chain.Use{}, false
}

// ephemeral: an output created by the first transaction of a block and spent
// by two later transactions of the same block, for every version pairing.
func ephemeral(c *vf.Ctx, x *chain.Explorer, w *chain.World, path []string, v1ok, v2ok bool) {
	h := w.ChildHeight()
	bc := w.NewBlockCtx()
	type variant struct {
		name          string
		creator       string // "v1" or "v2"
		first, second string
	}
	var vs []variant
	if v1ok {
		vs = append(vs, variant{"v1->v1,v1", "v1", "v1", "v1"})
	}
	if v1ok && v2ok {
		vs = append(vs, variant{"v1->v1,v2", "v1", "v1", "v2"}, variant{"v1->v2,v2", "v1", "v2", "v2"})
	}
	if v2ok {
		vs = append(vs, variant{"v2->v2,v2", "v2", "v2", "v2"})
	}
	// second use under another NAME: a v1 transaction spends an output and forms a contract; a later v1 transaction of the
	// block names the CONTRACT's id (and every other id the first transaction touched) as its siacoin parent and spends
	// the value of the first transaction's input again
	if v1ok {
		bcA := w.NewBlockCtx()
		if chain.V1FormAbs(h+3, h+5, 100).Do(bcA) && len(bcA.V1) == 1 && len(bcA.V1[0].SiacoinInputs) == 1 {
			t1 := bcA.V1[0]
			in := t1.SiacoinInputs[0]
			if pe, ok := w.Store.SC[in.ParentID]; ok {
				names := map[string]types.Hash256{"file contract": types.Hash256(t1.FileContractID(0))}
				for i := range t1.SiacoinOutputs {
					names[fmt.Sprintf("siacoin output %d", i)] = types.Hash256(t1.SiacoinOutputID(i))
				}
				for name, id := range names {
					t2 := types.Transaction{SiacoinInputs: []types.SiacoinInput{{ParentID: types.SiacoinOutputID(id), UnlockConditions: in.UnlockConditions}},
						SiacoinOutputs: []types.SiacoinOutput{{Value: pe.SiacoinOutput.Value, Address: w.Keys.Addr(chain.AddrV1b)}}}
					w.SignV1Whole(&t2)
					c.Count("attack:same-block-alias", 1)
					c.Distinct(w.Spec.Name, h, "alias", name)
					b, bs := w.BuildBlock([]types.Transaction{t1, t2}, nil, chain.BlockOpts{})
					if ok, p := accept(x, w, b, bs); p != nil {
						x.Violate("attack|panic|alias", fmt.Sprintf("ValidateBlock panicked when a v1 input named the id of the %s of the previous transaction: %v", name, p), path)
					} else if ok {
						x.Violate("second-use-accepted|alias|"+name, fmt.Sprintf("the siacoin input of a v1 transaction was spent AGAIN by the next transaction of the block under the id of that transaction's %s: ACCEPTED at height %d", name, h), path)
					} else {
						c.Count("attack_rejected", 1)
					}
				}
			}
		}
	}
	for _, v := range vs {
		var creator chain.Use
		var eph types.SiacoinElement
		if v.creator == "v1" {
			p, ok := bc.PickSC(func(cl int) bool { return cl == chain.AddrV1 }, types.Siacoins(10))
			if !ok {
				continue
			}
			creator = w.UseV1SC(p, 0)
			eph = types.SiacoinElement{ID: creator.V1.SiacoinOutputID(0), SiacoinOutput: creator.V1.SiacoinOutputs[0],
				StateElement: types.StateElement{LeafIndex: types.UnassignedLeafIndex}}
		} else {
			p, ok := bc.PickSC(func(cl int) bool { return cl == chain.AddrV2 || cl == chain.AddrV1 }, types.Siacoins(10))
			if !ok {
				continue
			}
			creator = w.UseV2SC(p, 0)
			// v2 creator pays to AddrV2: only v2 spenders possible
			eph = creator.V2.EphemeralSiacoinOutput(0)
		}
		mk := func(ver string, tag byte) chain.Use {
			if ver == "v1" {
				u := w.UseV1SC(eph, tag)
				u.SuppSC = nil
				return u
			}
			return w.UseV2SC(eph, tag)
		}
		if v.creator == "v2" && (v.first == "v1" || v.second == "v1") {
			continue
		}
		u1, u2 := mk(v.first, 1), mk(v.second, 2)
		// controls
		b, bs := w.BlockOfUses(creator, u1)
		if ok, _ := accept(x, w, b, bs); !ok {
			x.Violate("ephemeral-control-rejected|"+v.name, fmt.Sprintf("block creating and spending an output once (%s) rejected at height %d", v.name, h), path)
			continue
		}
		c.Count("control_accepted", 1)
		c.Count("kind:ephemeral", 1)
		c.Count("attack:same-block", 1)
		c.Distinct(w.Spec.Name, h, "ephemeral", v.name)
		b, bs = w.BlockOfUses(creator, u1, u2)
		if ok, p := accept(x, w, b, bs); p != nil {
			x.Violate("attack|panic|ephemeral", fmt.Sprintf("panic: %v", p), path)
		} else if ok {
			x.Violate("second-use-accepted|ephemeral|"+v.name, fmt.Sprintf("in-block output spent twice (%s) ACCEPTED at height %d", v.name, h), path)
		} else {
			c.Count("attack_rejected", 1)
		}
		// later block: the output that was created AND spent in block [creator, u1] is presented again, with the
		// element (leaf index, proof) that block's own update reported for it
		b1, bs1 := w.BlockOfUses(creator, u1)
		w1 := w.Clone()
		if err, p := w1.ApplyFrom(w, b1, bs1); err != nil || p != nil {
			if p != nil {
				x.Violate(p.Sig, p.Desc, path)
			}
			continue
		}
		au := lastUpdate(w, b1, bs1)
		for _, d := range au.SiacoinElementDiffs() {
			if d.SiacoinElement.ID != eph.ID {
				continue
			}
			stale := d.SiacoinElement.Copy()
			var again chain.Use
			switch {
			case w1.ChildHeight() >= w1.Net.HardforkV2.AllowHeight && (v.creator == "v2" || true) && w1.Keys.ClassOf(stale.SiacoinOutput.Address) >= 0 && v2ok:
				again = w1.UseV2SC(stale, 3)
			case w1.ChildHeight() < w1.Net.HardforkV2.RequireHeight && v.creator == "v1":
				again = w1.UseV1SC(stale, 3)
			default:
				continue
			}
			c.Count("attack:next-block-ephemeral", 1)
			c.Distinct(w.Spec.Name, h, "ephemeral-next-block", v.name)
			b2, bs2 := w1.BlockOfUses(again)
			if ok, p := accept(x, w1, b2, bs2); p != nil {
				x.Violate("attack|panic|ephemeral-next-block", fmt.Sprintf("panic: %v", p), path)
			} else if ok {
				x.Violate("second-use-accepted|ephemeral|"+v.name+"|next-block", fmt.Sprintf("output created and spent inside the block at height %d (%s) was spent AGAIN in the next block with the element reported by that block's update: ACCEPTED", h, v.name), path)
			} else {
				c.Count("attack_rejected", 1)
			}
		}
	}
}

func replay(c *vf.Ctx, raw json.RawMessage) {
	var tc chain.TraceCase
	json.Unmarshal(raw, &tc)
	// strip the trailing attack marker and replay the history; then run the attack menu on the final state
	tr := tc.Trace
	for len(tr) > 0 && len(tr[len(tr)-1]) > 7 && tr[len(tr)-1][:7] == "attack:" {
		tr = tr[:len(tr)-1]
	}
	tc.Trace = tr
	raw2, _ := json.Marshal(tc)
	keys := chain.NewKeys(tc.Seed)
	_ = keys
	m := &chain.Model{Name: "union", Spec: chain.Spec(tc.Network), Menu: menu}
	x := chain.NewExplorer(c, m, "C02")
	w := chain.ReplayTraceWorld(c, raw2, func(string) func(w *chain.World) []chain.Action { return menu }, "C02", chain.Options{CheckLedger: true, CheckForest: true, CheckSupply: true})
	if w != nil {
		attacks(c, x, w, tr)
	}
}
