// Package c17: RHP contract constructors conserve funds and yield
// consensus-valid contracts.
//
// Part A (rhp/v4): explicit-state BFS. A state is a v2 contract formed on a real
// chain; the moves are all exported constructors of rhp/v4 (NewContract,
// PayWithContract, ReviseFor{AppendSectors,FreeSectors,SectorRoots,FundAccounts,
// Replenish}, RenewContract, RefreshContract{Partial,Full}Rollover) with the
// cost functions (ContractCost, RenewalCost, RefreshCost). Oracle: math/big
// algebra written from the property statement, plus the real consensus code
// (ValidateBlock / ValidateV2Transaction) on signed, exactly funded transactions,
// with negative controls.
//
// Part B (rhp/v2, rhp/v3): the v1-era tax inversion through
// PrepareContractFormation / PrepareContractRenewal / CalculateHostPayouts for
// every target in a dense range and a boundary set, validated by
// consensus.ValidateTransaction; PayByContract keeps both payout sums.
package c17

import (
	"encoding/json"
	"fmt"
	"math/big"
	"sort"
	"strings"
	"sync/atomic"

	rhp4 "go.sia.tech/core/rhp/v4"
	"go.sia.tech/core/types"
	"verifmc/vf"
)

func init() {
	vf.Register(&vf.Check{ID: "C17", Level: "model_checking", Run: run, Replay: replay})
}

// typical prices (hastings): contract price 0.2 SC; collateral and storage per
// byte per block (~ 200 and 100 SC/TB/month); ingress/egress per byte (~10 and
// 100 SC/TB); free-sector price per sector. Deliberately not round.
var typPrice = [6]string{
	"200000000000000000000003", // contract
	"46296296297",              // collateral
	"23148148149",              // storage
	"10000000000007",           // ingress
	"100000000000003",          // egress
	"4194304000000000001",      // free sector
}

var priceNames = [6]string{"contract", "collateral", "storage", "ingress", "egress", "freeSector"}

func largePrice(i int) string {
	return add(new(big.Int).Lsh(big.NewInt(1), 70), bi(int64(12345+i))).String()
}

func priceValue(i int, level string) string {
	switch level {
	case "0":
		return "0"
	case "1":
		return "1"
	case "large":
		return largePrice(i)
	}
	return typPrice[i]
}

const typFee = "10000000000000000000007" // 0.01 SC

// fundings derives the (allowance, collateral) variants for a price table from
// the exact cost / risked collateral of appending one sector to the fresh
// contract (the reference operation), computed with the reference arithmetic.
func fundings(pr [6]string, proofDelta uint64, tipOffset int, baseHeight uint64, which []string) (out [][3]string) {
	p := refPrices{Contract: parseBig(pr[0]), Collateral: parseBig(pr[1]), Storage: parseBig(pr[2]), Ingress: parseBig(pr[3]), Egress: parseBig(pr[4]), FreeSector: parseBig(pr[5])}
	tip := int64(baseHeight) + int64(tipOffset)
	if tip < 0 {
		tip = 0
	}
	p.Tip = uint64(tip)
	proof := max(baseHeight, p.Tip) + minDuration + proofDelta
	rc := refContract{ProofHeight: proof, ExpHeight: proof + proofWindow}
	u, _ := usageAppend(p, rc, 1)
	EA, EC := u.cost(), u.Risked
	one := bi(1)
	bigC := maxCollateralFor(p, bigA)
	typA := parseBig("10000000000000000000000000") // 10 SC
	typC := minB(parseBig("20000000000000000000000000"), maxCollateralFor(p, typA))
	for _, w := range which {
		var a, c *big.Int
		switch w {
		case "big":
			a, c = bigA, bigC
		case "exact":
			a, c = EA, EC
		case "A-1":
			a, c = sub(EA, one), EC
		case "C-1":
			a, c = bigA, sub(EC, one)
		case "+1":
			a, c = add(EA, one), add(EC, one)
		case "min":
			a, c = one, new(big.Int)
		case "typ":
			a, c = typA, typC
		case "A=0": // refused by the request validation
			a, c = new(big.Int), typC
		case "A<min": // allowance below what the collateral justifies
			a, c = one, bigC
		case "C>max": // collateral above the host's maximum
			a, c = bigA, add(toBig(maxCollateral), one)
		}
		if a.Sign() < 0 || c.Sign() < 0 {
			continue
		}
		out = append(out, [3]string{w, a.String(), c.String()})
	}
	return
}

// buildGrid enumerates the grid points: price tables = typical base, every
// single and (by tier) pairwise deviation to {0,1,large}; funding variants;
// duration/tip/fee deviations.
func buildGrid(baseHeight uint64) []gridPoint {
	type pt struct {
		label  string
		prices [6]string
		order  int // 0 base, 1 single, 2 pair
	}
	base := typPrice
	tables := []pt{{"base", base, 0}}
	levels := []string{"0", "1", "large"}
	for i := 0; i < 6; i++ {
		for _, l := range levels {
			p := base
			p[i] = priceValue(i, l)
			tables = append(tables, pt{fmt.Sprintf("%s=%s", priceNames[i], l), p, 1})
		}
	}
	// two tables that leave the 128-bit domain for most operations (nothing asserted there)
	for _, i := range []int{1, 2} {
		p := base
		p[i] = new(big.Int).Lsh(big.NewInt(1), 110).String()
		tables = append(tables, pt{fmt.Sprintf("%s=2^110", priceNames[i]), p, 3})
	}
	for i := 0; i < 6; i++ {
		for j := i + 1; j < 6; j++ {
			for _, li := range levels {
				for _, lj := range levels {
					p := base
					p[i] = priceValue(i, li)
					p[j] = priceValue(j, lj)
					tables = append(tables, pt{fmt.Sprintf("%s=%s,%s=%s", priceNames[i], li, priceNames[j], lj), p, 2})
				}
			}
		}
	}
	allF := []string{"big", "exact", "A-1", "C-1", "+1", "min", "typ"}
	var grid []gridPoint
	seen := map[string]bool{}
	late := false
	addPoint := func(t pt, f [3]string, delta uint64, off int, fee string, extra string) {
		gp := gridPoint{Label: t.label + ";fund=" + f[0] + extra, Prices: t.prices, Allowance: f[1], Collateral: f[2], ProofDelta: delta, TipOffset: off, MinerFee: fee, Late: late}
		k := fmt.Sprintf("%v|%s|%s|%d|%d|%s|%v", gp.Prices, gp.Allowance, gp.Collateral, delta, off, fee, late)
		if seen[k] {
			return
		}
		seen[k] = true
		grid = append(grid, gp)
	}
	for _, t := range tables {
		var which []string
		switch {
		case t.order == 3:
			which = []string{"min", "typ"}
		case t.order <= 1:
			which = allF
		default:
			which = []string{"exact", "typ"}
		}
		for _, f := range fundings(t.prices, 30, 0, baseHeight, which) {
			addPoint(t, f, 30, 0, typFee, "")
		}
		if t.order <= 1 {
			// duration / tip / fee deviations with typical funding
			for _, dev := range []struct {
				delta uint64
				off   int
				fee   string
				tag   string
			}{{0, 0, typFee, ";delta=0"}, {30, -2, typFee, ";tip-2"}, {30, 3, typFee, ";tip+3"}, {30, 0, "1", ";fee=1"}} {
				for _, f := range fundings(t.prices, dev.delta, dev.off, baseHeight, []string{"typ"}) {
					addPoint(t, f, dev.delta, dev.off, dev.fee, dev.tag)
				}
			}
		}
		if t.order == 0 {
			// contracts used at the very end of their revision window
			late = true
			for _, dev := range []struct {
				delta uint64
				off   int
			}{{0, 0}, {0, -2}, {5, 0}} {
				for _, f := range fundings(t.prices, dev.delta, dev.off, baseHeight, []string{"typ", "big"}) {
					addPoint(t, f, dev.delta, dev.off, typFee, fmt.Sprintf(";late;delta=%d;tip%+d", dev.delta, dev.off))
				}
			}
			late = false
			// formation requests the request validation must refuse
			for _, f := range fundings(t.prices, 30, 0, baseHeight, []string{"A=0", "A<min", "C>max"}) {
				addPoint(t, f, 30, 0, typFee, "")
			}
		}
	}
	return grid
}

const baseEmpties = 2 // empty v2 blocks mined before the contract is formed

func newShared(c *vf.Ctx) (*shared, error) {
	k := newKeys(c.Seed)
	n := v2Network()
	base, err := genesisWorld(n, k, bankValue, baseEmpties)
	if err != nil {
		return nil, err
	}
	return &shared{c: c, k: k, net: n, base: base, states: newStateSet(), depth: vf.Pick(c, 3, 4), tier: c.Tier}, nil
}

func run(c *vf.Ctx) {
	c.Assume("Domain: price tables, sizes and durations whose products (price x 4 MiB x sectors x blocks, storage price x (collateral / collateral price), sums of contract values) fit in 128 bits, and prices.TipHeight <= contract proof height; outside it the cost functions panic on Currency overflow by design and nothing is asserted (such points are counted under outcome/*/out_of_domain).")
	c.Assume("HostPrices are signed by the host key with ValidUntil in year 2500, so HostPrices.Validate's wall-clock comparison is constant; no elapsed time is used as an oracle.")
	c.Assume("Ed25519 and BLAKE2b are uninterpreted; keys are derived from VERIF_SEED (data independence).")
	c.Assume("The chain world is a compact network (testnet() template, v2 allowed and required from height 1, near-maximal target); contracts are formed two blocks after genesis; chain heights stay below every proof height (the six \"late\" grid points revise at the last height consensus admits: next block height == proof height; what happens one block later is recorded under info_revision_at_tip_equal_proof_height_*, not asserted).")
	c.Assume("Expansion reduction: boundary variants (exact, +-1) of a move are evaluated with the full oracle on every node, but only the moves marked 'expand' (one representative per move class) produce successor nodes; successor nodes with equal canonical contract state, chain height and pending flag are merged.")
	c.Assume("v1 part: ValidateTransaction takes the spent outputs from the supplement (as ValidateBlock does after validateSupplement); accumulator membership of v1 inputs is outside C17.")

	sh, err := newShared(c)
	if err != nil {
		c.HarnessError("cannot build base chain: %v", err)
		return
	}
	grid := buildGrid(sh.base.cs.Index.Height)
	c.Set("grid_points", len(grid))
	c.Set("max_sequence_length", sh.depth)
	c.Set("rule", "Part A: for every grid point (price tables = typical base + all single"+
		" + all pairwise deviations (fundings: exact, typical)"+
		" to {0,1,large=2^70}; funding (allowance, collateral) in {1/0, exact cost of one sector, exact-1, exact+1, typical, 2^118}; proof-height slack {0,30}; host tip offset {-2,0,+3}; miner fee {1, 0.01SC}) NewContract is run, validated and formed on chain; then BFS over all sequences of constructor calls up to the stated length using the boundary-relative move alphabet of moves.go (append k, free k, roots n, fund/replenish amount, PayWithContract usage, renew/refreshPartial/refreshFull (allowance, collateral, proof height)); every move of the alphabet is evaluated on every reached node, the non-final positions of a sequence range over the moves marked expanding (one representative per move class and boundary side). A case is non-trivial (distinct) if its request passed the request's own Validate and the constructor was executed; it is keyed by (contract numeric state, price table, tip, move). Part B: every v1 payout target in the dense range plus a boundary set through rhp/v2 and rhp/v3 Prepare*/Calculate*, and PayByContract sequences.")

	// Part B first (fast, fixed size)
	runV1(c)
	outsideDomainProbes(c, sh)

	// Part A
	var maxNodes atomic.Int64
	order := make([]int, len(grid))
	for i := range order {
		order[i] = i
	}
	vf.ParallelFor(len(grid), func(i int) {
		if c.Expired() {
			c.Count("grid_points_skipped_budget", 1)
			return
		}
		ex := newExplorer(sh, grid[order[i]])
		ex.explore()
		c.Count("grid_points_done", 1)
		c.Count("nodes_expanded", ex.nodes)
		for {
			cur := maxNodes.Load()
			if ex.nodes <= cur || maxNodes.CompareAndSwap(cur, ex.nodes) {
				break
			}
		}
	})
	c.Set("max_nodes_expanded_in_one_grid_point", maxNodes.Load())
	sh.flushViolations()
	c.Set("states", sh.states.n.Load())
	c.Count("states", sh.states.n.Load())

	// samples: a few concrete cases
	for _, i := range []int{0, 1, len(grid) / 2, len(grid) - 1} {
		if i < len(grid) {
			c.Sample(map[string]any{"part": "v4", "grid_point": grid[i]})
		}
	}
	if p := samplePath(sh, grid[0]); p != nil {
		c.Sample(p)
	}

	// outcome histogram and vacuity guards
	hist := map[string]int64{}
	for _, kind := range []string{"form", "pay", "append", "free", "roots", "fund", "replenish", "renew", "refreshPartial", "refreshFull"} {
		for _, o := range []string{"ok", "insufficient_funds_error", "filtered_by_validate", "out_of_domain"} {
			if v := c.Get("outcome/" + kind + "/" + o); v > 0 {
				hist[kind+"/"+o] = v
			}
		}
	}
	c.Set("outcome_histogram", hist)
	c.Set("distinct_outcome_classes", len(hist))
	need := []string{"evaluations", "transitions", "traces_validated_against_impl", "consensus_accepted", "controls_rejected", "formations",
		"flush_blocks", "renewal_blocks"}
	for _, kind := range []string{"pay", "append", "free", "roots", "fund", "replenish", "renew", "refreshPartial", "refreshFull"} {
		need = append(need, "outcome/"+kind+"/ok")
	}
	for _, kind := range []string{"pay", "append", "free", "fund", "replenish"} {
		need = append(need, "outcome/"+kind+"/insufficient_funds_error")
	}
	for _, kind := range []string{"form", "append", "free", "roots", "fund", "renew", "refreshPartial", "refreshFull"} {
		need = append(need, "outcome/"+kind+"/filtered_by_validate")
	}
	if !c.Expired() {
		c.RequireFeature(need...)
	}
	if c.Get("controls_run") != c.Get("controls_rejected") {
		c.HarnessError("some negative controls were accepted")
	}
}

// outsideDomainProbes records (never asserts) what the request validations do
// with renter-chosen amounts outside the 128-bit domain, with typical prices.
func outsideDomainProbes(c *vf.Ctx, sh *shared) {
	ex := newExplorer(sh, gridPoint{Prices: typPrice, Allowance: "1", Collateral: "0", MinerFee: "1"})
	hp, _ := ex.pricesAt(sh.base.cs.Index.Height)
	k := sh.k
	existing := types.V2FileContract{ProofHeight: 1000, ExpirationHeight: 1000 + proofWindow, Filesize: sectorSize, Capacity: sectorSize,
		TotalCollateral: types.Siacoins(20), MissedHostValue: types.Siacoins(10), RenterPublicKey: k.renter.pk, HostPublicKey: k.host.pk,
		HostOutput: types.SiacoinOutput{Value: types.Siacoins(21), Address: k.host.addr}, RenterOutput: types.SiacoinOutput{Value: types.Siacoins(10), Address: k.renter.addr}}
	res := map[string]string{}
	probe := func(name string, fn func() error) {
		var err error
		if p, _ := vf.Try(func() { err = fn() }); p != nil {
			res[name] = fmt.Sprintf("panic: %v", p)
		} else if err != nil {
			res[name] = "rejected with an error"
		} else {
			res[name] = "accepted"
		}
	}
	tip := sh.base.cs.Index
	probe("RPCRenewContractRequest.Validate(collateral=MaxCurrency, contract holding one sector)", func() error {
		req := rhp4.RPCRenewContractRequest{Prices: hp, MinerFee: types.NewCurrency64(1), Basis: tip,
			Renewal: rhp4.RPCRenewContractParams{Allowance: types.MaxCurrency, Collateral: types.MaxCurrency, ProofHeight: 2000}}
		return req.Validate(k.host.pk, tip, existing, maxCollateral, maxDuration)
	})
	probe("RPCRefreshContractRequest.Validate(collateral=MaxCurrency, full rollover)", func() error {
		req := rhp4.RPCRefreshContractRequest{Prices: hp, MinerFee: types.NewCurrency64(1), Basis: tip,
			Refresh: rhp4.RPCRefreshContractParams{Allowance: types.MaxCurrency, Collateral: types.MaxCurrency}}
		return req.Validate(k.host.pk, tip, existing, maxCollateral, false)
	})
	probe("RPCRefreshContractRequest.Validate(collateral=MaxCurrency, partial rollover)", func() error {
		req := rhp4.RPCRefreshContractRequest{Prices: hp, MinerFee: types.NewCurrency64(1), Basis: tip,
			Refresh: rhp4.RPCRefreshContractParams{Allowance: types.MaxCurrency, Collateral: types.MaxCurrency}}
		return req.Validate(k.host.pk, tip, existing, maxCollateral, true)
	})
	probe("RPCFormContractRequest.Validate(collateral=MaxCurrency)", func() error {
		req := rhp4.RPCFormContractRequest{Prices: hp, MinerFee: types.NewCurrency64(1), Basis: tip, RenterInputs: []types.SiacoinElement{{}},
			Contract: rhp4.RPCFormContractParams{Allowance: types.Siacoins(10), Collateral: types.MaxCurrency, ProofHeight: 1000}}
		return req.Validate(k.host.pk, tip, maxCollateral, maxDuration)
	})
	c.Set("info_outside_domain_request_validation", res)
}

// samplePath returns one concrete explored sequence for the evidence file.
func samplePath(sh *shared, gp gridPoint) any {
	probe := vf.NewCtx("C17-sample", sh.tier, sh.c.Seed, "model_checking")
	sh2 := shared{c: probe, k: sh.k, net: sh.net, base: sh.base, states: newStateSet(), depth: sh.depth, tier: sh.tier}
	ex := newExplorer(&sh2, gp)
	n := ex.form()
	if n == nil {
		return nil
	}
	var labels []string
	for d := 0; d < 3 && n != nil; d++ {
		var nxt *node
		for _, m := range ex.genMoves(n, d) {
			if !m.expand || (d == 1 && !isRenewalKind(m.Kind)) {
				continue
			}
			if s := ex.eval(n, m, true); s != nil {
				labels = append(labels, m.Kind+"("+m.Label+")")
				nxt = s
				break
			}
		}
		n = nxt
	}
	if n == nil {
		return nil
	}
	return map[string]any{"part": "v4", "grid_point": gp.Label, "sequence": strings.Join(labels, " -> "), "moves": n.path,
		"final_contract": map[string]any{"capacity": n.fc.Capacity, "filesize": n.fc.Filesize, "renter": n.fc.RenterOutput.Value.ExactString(),
			"host": n.fc.HostOutput.Value.ExactString(), "missed": n.fc.MissedHostValue.ExactString(), "total_collateral": n.fc.TotalCollateral.ExactString(),
			"proof_height": n.fc.ProofHeight, "revision": n.fc.RevisionNumber}}
}

// replay re-runs one recorded case through the same oracle.
func replay(c *vf.Ctx, raw json.RawMessage) {
	var head struct {
		Part string `json:"part"`
	}
	if err := json.Unmarshal(raw, &head); err != nil {
		c.HarnessError("bad case: %v", err)
		return
	}
	switch head.Part {
	case "v4":
		var cs v4Case
		if err := json.Unmarshal(raw, &cs); err != nil {
			c.HarnessError("bad v4 case: %v", err)
			return
		}
		sh, err := newShared(c)
		if err != nil {
			c.HarnessError("cannot build base chain: %v", err)
			return
		}
		ex := newExplorer(sh, cs.GP)
		n := ex.form()
		for i, m := range cs.Moves {
			if n == nil {
				break
			}
			m.expand = true
			s := ex.eval(n, m, true)
			if s == nil && i < len(cs.Moves)-1 {
				fmt.Printf("replay: move %d (%s %s) produced no successor\n", i, m.Kind, m.Label)
			}
			n = s
		}
		sh.flushViolations()
		c.Count("states", sh.states.n.Load())
	case "v1":
		replayV1(c, raw)
	default:
		c.HarnessError("unknown case part %q", head.Part)
	}
	keys := []string{}
	for _, k := range []string{"evaluations", "transitions", "consensus_validations", "consensus_accepted"} {
		keys = append(keys, fmt.Sprintf("%s=%d", k, c.Get(k)))
	}
	sort.Strings(keys)
	fmt.Println("replay:", strings.Join(keys, " "))
}
