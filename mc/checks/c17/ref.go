package c17

// Reference arithmetic for C17. Everything here is plain math/big written from
// the property statement and the documented meaning of the price fields; none
// of it calls the rhp packages.

import (
	"math/big"

	"go.sia.tech/core/types"
)

const (
	sectorSize  = 1 << 22
	proofWindow = 144
	minDuration = 18
	maxBatch    = (1 << 40) / sectorSize
)

var (
	two128 = new(big.Int).Lsh(big.NewInt(1), 128)
	two64  = new(big.Int).Lsh(big.NewInt(1), 64)
	mask64 = new(big.Int).Sub(two64, big.NewInt(1))
)

func bi(x int64) *big.Int  { return big.NewInt(x) }
func bu(x uint64) *big.Int { return new(big.Int).SetUint64(x) }
func add(a ...*big.Int) *big.Int {
	r := new(big.Int)
	for _, x := range a {
		r.Add(r, x)
	}
	return r
}
func sub(a, b *big.Int) *big.Int { return new(big.Int).Sub(a, b) }
func mul(a ...*big.Int) *big.Int {
	r := big.NewInt(1)
	for _, x := range a {
		r.Mul(r, x)
	}
	return r
}
func quo(a, b *big.Int) *big.Int { return new(big.Int).Quo(a, b) }
func minB(a, b *big.Int) *big.Int {
	if a.Cmp(b) <= 0 {
		return a
	}
	return b
}
func fits(x *big.Int) bool { return x.Sign() >= 0 && x.Cmp(two128) < 0 }

func toBig(c types.Currency) *big.Int {
	r := new(big.Int).SetUint64(c.Hi)
	r.Lsh(r, 64)
	return r.Add(r, new(big.Int).SetUint64(c.Lo))
}

func fromBig(b *big.Int) types.Currency {
	if !fits(b) {
		panic("c17: fromBig out of range: " + b.String())
	}
	lo := new(big.Int).And(b, mask64).Uint64()
	hi := new(big.Int).Rsh(b, 64).Uint64()
	return types.NewCurrency(lo, hi)
}

func parseBig(s string) *big.Int {
	r, ok := new(big.Int).SetString(s, 10)
	if !ok {
		panic("c17: bad decimal " + s)
	}
	return r
}

// refPrices are the six price fields plus the tip height of a price table.
type refPrices struct {
	Contract, Collateral, Storage, Ingress, Egress, FreeSector *big.Int
	Tip                                                        uint64
}

// refContract holds the numeric fields of a v2 contract.
type refContract struct {
	Capacity, Filesize        uint64
	ProofHeight, ExpHeight    uint64
	Renter, Host, Missed, Tot *big.Int
	Rev                       uint64
}

func refOf(fc types.V2FileContract) refContract {
	return refContract{
		Capacity: fc.Capacity, Filesize: fc.Filesize,
		ProofHeight: fc.ProofHeight, ExpHeight: fc.ExpirationHeight,
		Renter: toBig(fc.RenterOutput.Value), Host: toBig(fc.HostOutput.Value),
		Missed: toBig(fc.MissedHostValue), Tot: toBig(fc.TotalCollateral),
		Rev: fc.RevisionNumber,
	}
}

// refUsage mirrors the six usage components.
type refUsage struct {
	RPC, Storage, Egress, Ingress, Fund, Risked *big.Int
}

func zeroUsage() refUsage {
	return refUsage{new(big.Int), new(big.Int), new(big.Int), new(big.Int), new(big.Int), new(big.Int)}
}

func (u refUsage) cost() *big.Int { return add(u.RPC, u.Storage, u.Egress, u.Ingress, u.Fund) }

func (u refUsage) all() []*big.Int {
	return []*big.Int{u.RPC, u.Storage, u.Egress, u.Ingress, u.Fund, u.Risked}
}

func roundUp4K(n uint64) uint64 { return (n + 4095) / 4096 * 4096 }

// appendGrowth is the number of sectors by which capacity has to grow to hold
// k more sectors.
func appendGrowth(rc refContract, k uint64) uint64 {
	free := (rc.Capacity - rc.Filesize) / sectorSize
	if k <= free {
		return 0
	}
	return k - free
}

// usageAppend: storage and collateral are per byte per block for the capacity
// growth until the contract expires; ingress is per byte of the transferred
// roots, rounded up to 4 KiB.
func usageAppend(p refPrices, rc refContract, k uint64) (u refUsage, inDomain bool) {
	u = zeroUsage()
	if rc.ExpHeight < p.Tip {
		return u, false
	}
	g := appendGrowth(rc, k)
	dur := rc.ExpHeight - p.Tip
	// domain: the product with every factor replaced by max(1, factor) fits
	gg, dd := max(g, 1), max(dur, 1)
	for _, pr := range []*big.Int{p.Storage, p.Collateral} {
		if !fits(mul(pr, bu(sectorSize), bu(gg), bu(dd))) {
			return u, false
		}
	}
	if !fits(mul(p.Ingress, bu(roundUp4K(32*gg)))) {
		return u, false
	}
	u.Storage = mul(p.Storage, bu(sectorSize), bu(g), bu(dur))
	u.Risked = mul(p.Collateral, bu(sectorSize), bu(g), bu(dur))
	u.Ingress = mul(p.Ingress, bu(roundUp4K(32*g)))
	return u, true
}

func usageFree(p refPrices, k uint64) (u refUsage, inDomain bool) {
	u = zeroUsage()
	u.RPC = mul(p.FreeSector, bu(k))
	return u, fits(mul(p.FreeSector, bu(max(k, 1))))
}

func usageRoots(p refPrices, n uint64) (u refUsage, inDomain bool) {
	u = zeroUsage()
	u.Egress = mul(p.Egress, bu(roundUp4K(32*n)))
	return u, fits(mul(p.Egress, bu(roundUp4K(32*max(n, 1)))))
}

func usageFund(amount *big.Int) refUsage {
	u := zeroUsage()
	u.Fund = new(big.Int).Set(amount)
	return u
}

// v2Tax is 4% of the contract value, rounded down.
func v2Tax(renter, host *big.Int) *big.Int { return quo(add(renter, host), bi(25)) }

// minAllowance is the allowance that justifies a collateral: the storage price
// of as many bytes as the collateral can cover.
func minAllowance(p refPrices, collateral *big.Int) (*big.Int, bool) {
	if p.Collateral.Sign() == 0 {
		return new(big.Int), true
	}
	r := mul(p.Storage, quo(collateral, p.Collateral))
	return r, fits(r)
}

// refRenewal is the expected shape of a renewal/refresh.
type refRenewal struct {
	NewRenter, NewHost, NewMissed, NewTot *big.Int
	RollR, RollH, FinalR, FinalH          *big.Int
	NewCapacity, NewFilesize              uint64
	NewProof, NewExp                      uint64
	Usage                                 refUsage
}

// expectRenew: documented semantics of a renewal. The renter output is the new
// allowance; the host locks the requested collateral plus the collateral for
// the stored data over the whole new duration, and is paid the contract price
// plus storage of the existing data for the extension. Each side rolls over as
// much of its old output as the new contract needs from it.
func expectRenew(p refPrices, rc refContract, allowance, collateral *big.Int, proofHeight uint64) (r refRenewal, inDomain bool) {
	newExp := proofHeight + proofWindow
	if newExp < p.Tip || newExp < rc.ExpHeight {
		return r, false
	}
	fs := bu(rc.Filesize)
	risked := mul(p.Collateral, fs, bu(newExp-p.Tip))
	storage := mul(p.Storage, fs, bu(newExp-rc.ExpHeight))
	if !fits(mul(p.Collateral, bu(max(rc.Filesize, 1)), bu(max(newExp-p.Tip, 1)))) ||
		!fits(mul(p.Storage, bu(max(rc.Filesize, 1)), bu(max(newExp-rc.ExpHeight, 1)))) {
		return r, false
	}
	r.NewTot = add(collateral, risked)
	r.NewMissed = new(big.Int).Set(collateral)
	r.NewHost = add(r.NewTot, storage, p.Contract)
	r.NewRenter = new(big.Int).Set(allowance)
	r.RollH = minB(rc.Tot, r.NewTot)
	r.RollR = minB(rc.Renter, allowance)
	r.FinalH = sub(rc.Host, r.RollH)
	r.FinalR = sub(rc.Renter, r.RollR)
	r.NewCapacity, r.NewFilesize = rc.Filesize, rc.Filesize
	r.NewProof, r.NewExp = proofHeight, newExp
	r.Usage = zeroUsage()
	r.Usage.RPC = p.Contract
	r.Usage.Storage = storage
	r.Usage.Risked = risked
	return r, fits(r.NewHost) && fits(r.NewTot) && r.FinalH.Sign() >= 0
}

// expectRefreshPartial: heights and data are kept; the host output keeps the
// revenue and collateral already at stake, plus new collateral and the contract
// price; only the new collateral is returned on a miss.
func expectRefreshPartial(p refPrices, rc refContract, allowance, collateral *big.Int) (r refRenewal, inDomain bool) {
	riskedRev := sub(rc.Host, rc.Tot)
	riskedCol := sub(rc.Tot, rc.Missed)
	if riskedRev.Sign() < 0 || riskedCol.Sign() < 0 {
		return r, false
	}
	r.NewHost = add(riskedRev, riskedCol, collateral, p.Contract)
	r.NewMissed = new(big.Int).Set(collateral)
	r.NewTot = add(riskedCol, collateral)
	r.NewRenter = new(big.Int).Set(allowance)
	r.RollH = minB(rc.Host, sub(r.NewHost, p.Contract))
	r.RollR = minB(rc.Renter, add(allowance, p.Contract))
	r.FinalH = sub(rc.Host, r.RollH)
	r.FinalR = sub(rc.Renter, r.RollR)
	r.NewCapacity, r.NewFilesize = rc.Capacity, rc.Filesize
	r.NewProof, r.NewExp = rc.ProofHeight, rc.ExpHeight
	r.Usage = zeroUsage()
	r.Usage.RPC = p.Contract
	r.Usage.Risked = riskedCol
	return r, fits(r.NewHost) && fits(add(allowance, p.Contract))
}

// expectRefreshFull: everything is rolled over and the new allowance,
// collateral and contract price are added on top.
func expectRefreshFull(p refPrices, rc refContract, allowance, collateral *big.Int) (r refRenewal, inDomain bool) {
	r.NewRenter = add(rc.Renter, allowance)
	r.NewHost = add(rc.Host, collateral, p.Contract)
	r.NewMissed = add(rc.Missed, collateral)
	r.NewTot = add(rc.Tot, collateral)
	r.RollR, r.RollH = rc.Renter, rc.Host
	r.FinalR, r.FinalH = new(big.Int), new(big.Int)
	r.NewCapacity, r.NewFilesize = rc.Capacity, rc.Filesize
	r.NewProof, r.NewExp = rc.ProofHeight, rc.ExpHeight
	r.Usage = zeroUsage()
	r.Usage.RPC = p.Contract
	r.Usage.Risked = sub(r.NewTot, r.NewMissed)
	return r, fits(r.NewRenter) && fits(r.NewHost)
}

// v1Tax: 3.9% of the payout, rounded down to a multiple of the siafund count
// (rule in force after the tax hardfork).
func v1Tax(payout *big.Int) *big.Int {
	t := quo(mul(payout, bi(39)), bi(1000))
	return sub(t, new(big.Int).Mod(t, bi(10000)))
}
