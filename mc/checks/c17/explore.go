package c17

// Explicit-state exploration of the rhp/v4 constructors. A node is a contract
// (latest revision) together with the chain world in which it was formed; the
// moves are the exported constructors of rhp/v4.

import (
	"crypto/sha256"
	"encoding/binary"
	"fmt"
	"math/big"
	"sync"
	"sync/atomic"
	"time"

	"go.sia.tech/core/consensus"
	rhp4 "go.sia.tech/core/rhp/v4"
	"go.sia.tech/core/types"
	"verifmc/vf"
)

// ---------- descriptors (JSON, replayable) ----------

type gridPoint struct {
	Label      string    `json:"label"`
	Prices     [6]string `json:"prices"` // contract, collateral, storage, ingress, egress, freeSector
	Allowance  string    `json:"allowance"`
	Collateral string    `json:"collateral"`
	ProofDelta uint64    `json:"proofDelta"` // formation proof height = minimum + delta
	TipOffset  int       `json:"tipOffset"`  // prices.TipHeight = chain height + offset
	MinerFee   string    `json:"minerFee"`
	// Late: after formation, empty blocks are mined until the next block height
	// equals the proof height (the last height at which consensus admits revisions).
	Late bool `json:"late,omitempty"`
}

type move struct {
	Kind        string   `json:"kind"`
	Label       string   `json:"label"`
	K           uint64   `json:"k,omitempty"`
	Amount      string   `json:"amount,omitempty"`
	Usage       []string `json:"usage,omitempty"` // pay only: rpc, storage, egress, ingress, fund, risked
	Allowance   string   `json:"allowance,omitempty"`
	Collateral  string   `json:"collateral,omitempty"`
	ProofHeight uint64   `json:"proofHeight,omitempty"`
	expand      bool
}

type v4Case struct {
	Part  string    `json:"part"` // "v4"
	GP    gridPoint `json:"grid_point"`
	Moves []move    `json:"moves"`
}

func (m move) key() string {
	return fmt.Sprintf("%s|%d|%s|%v|%s|%s|%d", m.Kind, m.K, m.Amount, m.Usage, m.Allowance, m.Collateral, m.ProofHeight)
}

// ---------- shared state ----------

var (
	validUntil    = time.Unix(16725225600, 0) // year 2500: the wall clock is not an input
	maxCollateral = fromBig(new(big.Int).Lsh(big.NewInt(1), 122))
	maxDuration   = uint64(100000)
	bigA          = new(big.Int).Lsh(big.NewInt(1), 118)
	bankValue     = fromBig(new(big.Int).Lsh(big.NewInt(1), 126))
	rootsBuf      = make([]types.Hash256, maxBatch+1)
	indexBuf      = func() []uint64 {
		r := make([]uint64, maxBatch+1)
		for i := range r {
			r[i] = uint64(i)
		}
		return r
	}()
)

type stateSet struct {
	shards [64]struct {
		mu sync.Mutex
		m  map[[16]byte]struct{}
	}
	n atomic.Int64
}

func newStateSet() *stateSet {
	s := &stateSet{}
	for i := range s.shards {
		s.shards[i].m = map[[16]byte]struct{}{}
	}
	return s
}

func (s *stateSet) add(k [16]byte) {
	sh := &s.shards[k[0]&63]
	sh.mu.Lock()
	if _, ok := sh.m[k]; !ok {
		sh.m[k] = struct{}{}
		s.n.Add(1)
	}
	sh.mu.Unlock()
}

func contractKey(fc types.V2FileContract) [16]byte {
	var buf [5*8 + 4*16]byte
	binary.LittleEndian.PutUint64(buf[0:], fc.Capacity)
	binary.LittleEndian.PutUint64(buf[8:], fc.Filesize)
	binary.LittleEndian.PutUint64(buf[16:], fc.ProofHeight)
	binary.LittleEndian.PutUint64(buf[24:], fc.ExpirationHeight)
	binary.LittleEndian.PutUint64(buf[32:], fc.RevisionNumber)
	for i, c := range []types.Currency{fc.RenterOutput.Value, fc.HostOutput.Value, fc.MissedHostValue, fc.TotalCollateral} {
		binary.LittleEndian.PutUint64(buf[40+16*i:], c.Lo)
		binary.LittleEndian.PutUint64(buf[48+16*i:], c.Hi)
	}
	h := sha256.Sum256(buf[:])
	var k [16]byte
	copy(k[:], h[:])
	return k
}

type shared struct {
	c      *vf.Ctx
	k      keys
	net    *consensus.Network
	base   world
	states *stateSet
	depth  int
	tier   string
	vmu    sync.Mutex
	viol   map[string]*pendingViolation
}

// ---------- per grid point explorer ----------

type node struct {
	w       world
	fc      types.V2FileContract // latest revision, signed
	pending []types.V2Transaction
	path    []move
	flushed *world
}

type explorer struct {
	sh        *shared
	c         *vf.Ctx
	gp        gridPoint
	pr        [6]*big.Int
	fee       types.Currency
	typA      *big.Int
	typC      *big.Int
	priceMemo map[uint64]rhp4.HostPrices
	controls  map[string]bool
	visited   map[[17]byte]bool
	nodes     int64
}

func newExplorer(sh *shared, gp gridPoint) *explorer {
	ex := &explorer{sh: sh, c: sh.c, gp: gp, priceMemo: map[uint64]rhp4.HostPrices{}, controls: map[string]bool{}, visited: map[[17]byte]bool{}}
	for i, s := range gp.Prices {
		ex.pr[i] = parseBig(s)
	}
	ex.fee = fromBig(parseBig(gp.MinerFee))
	ex.typA = parseBig(gp.Allowance)
	ex.typC = parseBig(gp.Collateral)
	return ex
}

func (ex *explorer) tipFor(height uint64) uint64 {
	t := int64(height) + int64(ex.gp.TipOffset)
	if t < 0 {
		t = 0
	}
	return uint64(t)
}

// pricesAt returns the host's signed price table as of the given chain height.
func (ex *explorer) pricesAt(height uint64) (rhp4.HostPrices, refPrices) {
	tip := ex.tipFor(height)
	hp, ok := ex.priceMemo[tip]
	if !ok {
		hp = rhp4.HostPrices{
			ContractPrice: fromBig(ex.pr[0]), Collateral: fromBig(ex.pr[1]), StoragePrice: fromBig(ex.pr[2]),
			IngressPrice: fromBig(ex.pr[3]), EgressPrice: fromBig(ex.pr[4]), FreeSectorPrice: fromBig(ex.pr[5]),
			TipHeight: tip, ValidUntil: validUntil,
		}
		hp.Signature = ex.sh.k.host.sk.SignHash(hp.SigHash())
		ex.priceMemo[tip] = hp
	}
	return hp, refPrices{Contract: ex.pr[0], Collateral: ex.pr[1], Storage: ex.pr[2], Ingress: ex.pr[3], Egress: ex.pr[4], FreeSector: ex.pr[5], Tip: tip}
}

func (ex *explorer) count(name string) { ex.c.Count(name, 1) }

func (ex *explorer) outcome(kind, what string) { ex.c.Count("outcome/"+kind+"/"+what, 1) }

func (ex *explorer) caseOf(path []move, m *move) v4Case {
	mv := append([]move(nil), path...)
	if m != nil {
		mv = append(mv, *m)
	}
	return v4Case{Part: "v4", GP: ex.gp, Moves: mv}
}

func (ex *explorer) violate(entry, class, trigger, desc string, path []move, m *move) {
	if m != nil {
		trigger = m.Kind
		desc = fmt.Sprintf("[grid point %q, after %d earlier move(s), move %s(%s)] %s", ex.gp.Label, len(path), m.Kind, m.Label, desc)
	} else {
		desc = fmt.Sprintf("[grid point %q] %s", ex.gp.Label, desc)
	}
	ex.sh.report(entry+"|"+class+"|"+trigger, desc, ex.caseOf(path, m), len(path))
}

// report keeps, per signature, the occurrence with the shortest call sequence;
// flushViolations hands them to the framework.
func (sh *shared) report(sig, desc string, cs any, weight int) {
	sh.vmu.Lock()
	defer sh.vmu.Unlock()
	if sh.viol == nil {
		sh.viol = map[string]*pendingViolation{}
	}
	v, ok := sh.viol[sig]
	if !ok {
		sh.viol[sig] = &pendingViolation{desc: desc, cs: cs, weight: weight, n: 1}
		return
	}
	v.n++
	if weight < v.weight {
		v.desc, v.cs, v.weight = desc, cs, weight
	}
}

func (sh *shared) flushViolations() {
	sh.vmu.Lock()
	defer sh.vmu.Unlock()
	for sig, v := range sh.viol {
		sh.c.Violate(sig, fmt.Sprintf("%s (%d occurrence(s) in this run; shortest sequence shown)", v.desc, v.n), v.cs)
	}
	sh.viol = nil
}

type pendingViolation struct {
	desc   string
	cs     any
	weight int
	n      int
}

func entryOf(kind string) string {
	switch kind {
	case "form":
		return "NewContract"
	case "pay":
		return "PayWithContract"
	case "append":
		return "ReviseForAppendSectors"
	case "free":
		return "ReviseForFreeSectors"
	case "roots":
		return "ReviseForSectorRoots"
	case "fund":
		return "ReviseForFundAccounts"
	case "replenish":
		return "ReviseForReplenish"
	case "renew":
		return "RenewContract"
	case "refreshPartial":
		return "RefreshContractPartialRollover"
	case "refreshFull":
		return "RefreshContractFullRollover"
	}
	return kind
}

func reqName(kind string) string {
	switch kind {
	case "append":
		return "RPCAppendSectorsRequest"
	case "free":
		return "RPCFreeSectorsRequest"
	case "roots":
		return "RPCSectorRootsRequest"
	case "fund":
		return "RPCFundAccountsRequest"
	case "replenish":
		return "RPCReplenishAccountsRequest"
	case "renew":
		return "RPCRenewContractRequest"
	case "refreshPartial", "refreshFull":
		return "RPCRefreshContractRequest"
	}
	return kind
}

func isRenewalKind(k string) bool {
	return k == "renew" || k == "refreshPartial" || k == "refreshFull"
}

// ---------- formation ----------

// form runs NewContract for the grid point, checks it and forms the contract on
// the chain. Returns nil if the request is filtered or a violation occurred.
func (ex *explorer) form() *node {
	k := ex.sh.k
	w := ex.sh.base
	hp, rp := ex.pricesAt(w.cs.Index.Height)
	minPH := max(w.cs.Index.Height, rp.Tip) + minDuration
	params := rhp4.RPCFormContractParams{
		RenterPublicKey: k.renter.pk, RenterAddress: k.renter.addr,
		Allowance: fromBig(ex.typA), Collateral: fromBig(ex.typC),
		ProofHeight: minPH + ex.gp.ProofDelta,
	}
	ex.count("evaluations")
	// domain: the minimum-allowance product of the request validation must fit
	if _, ok := minAllowance(rp, ex.typC); !ok {
		ex.outcome("form", "out_of_domain")
		return nil
	}
	if !ex.checkAllowanceCollateralHelpers(hp, rp) {
		return nil
	}
	req := rhp4.RPCFormContractRequest{Prices: hp, Contract: params, MinerFee: ex.fee, Basis: w.cs.Index,
		RenterInputs: []types.SiacoinElement{w.bank.Share()}}
	var verr error
	if p, _ := vf.Try(func() { verr = req.Validate(k.host.pk, w.cs.Index, maxCollateral, maxDuration) }); p != nil {
		ex.violate("RPCFormContractRequest.Validate", "panic-in-domain", "form", fmt.Sprintf("Validate panicked inside the stated domain: %v", p), nil, nil)
		return nil
	}
	// reference verdict of the request validation (allowance > 0, collateral <= max, allowance >= justified minimum)
	minA, _ := minAllowance(rp, ex.typC)
	wantOK := ex.typA.Sign() > 0 && ex.typC.Cmp(toBig(maxCollateral)) <= 0 && ex.typA.Cmp(minA) >= 0
	if (verr == nil) != wantOK {
		ex.violate("RPCFormContractRequest.Validate", "verdict-differs-from-reference", "form",
			fmt.Sprintf("Validate err=%v, reference expects accept=%v (allowance %v, collateral %v, min allowance %v)", verr, wantOK, ex.typA, ex.typC, minA), nil, nil)
		return nil
	}
	if verr != nil {
		ex.outcome("form", "filtered_by_validate")
		return nil
	}
	var fc types.V2FileContract
	var usage rhp4.Usage
	if p, _ := vf.Try(func() { fc, usage = rhp4.NewContract(hp, params, k.host.pk, k.host.addr) }); p != nil {
		ex.violate("NewContract", "panic-in-domain", "form", fmt.Sprintf("NewContract panicked: %v", p), nil, nil)
		return nil
	}
	ex.count("transitions")
	bad := func(class, desc string) *node {
		ex.violate("NewContract", class, "form", desc, nil, nil)
		return nil
	}
	rc := refOf(fc)
	switch {
	case rc.Renter.Cmp(ex.typA) != 0:
		return bad("renter-output-not-allowance", fmt.Sprintf("renter output %v != allowance %v", rc.Renter, ex.typA))
	case rc.Host.Cmp(add(ex.typC, rp.Contract)) != 0:
		return bad("host-output-wrong", fmt.Sprintf("host output %v != collateral+contract price %v", rc.Host, add(ex.typC, rp.Contract)))
	case rc.Missed.Cmp(ex.typC) != 0 || rc.Tot.Cmp(ex.typC) != 0:
		return bad("collateral-fields-wrong", fmt.Sprintf("missed %v total %v, want both %v", rc.Missed, rc.Tot, ex.typC))
	case fc.ProofHeight != params.ProofHeight || fc.ExpirationHeight != params.ProofHeight+proofWindow:
		return bad("heights-wrong", fmt.Sprintf("proof %d exp %d", fc.ProofHeight, fc.ExpirationHeight))
	case fc.Filesize != 0 || fc.Capacity != 0 || fc.RevisionNumber != 0 || fc.FileMerkleRoot != (types.Hash256{}):
		return bad("not-empty", "new contract is not empty / revision 0")
	case fc.RenterPublicKey != k.renter.pk || fc.HostPublicKey != k.host.pk || fc.RenterOutput.Address != k.renter.addr || fc.HostOutput.Address != k.host.addr:
		return bad("keys-or-addresses-wrong", "keys/addresses differ from the request")
	case toBig(usage.RenterCost()).Cmp(rp.Contract) != 0 || !usage.RiskedCollateral.IsZero():
		return bad("usage-mismatch", fmt.Sprintf("formation usage %+v, want RPC=contract price only", usage))
	}
	// cost functions: with UTXOs of exactly ContractCost the transaction balances
	var rCost, hCost types.Currency
	if p, _ := vf.Try(func() { rCost, hCost = rhp4.ContractCost(w.cs, fc, ex.fee) }); p != nil {
		return bad("cost-panic-in-domain", fmt.Sprintf("ContractCost panicked: %v", p))
	}
	tax := v2Tax(rc.Renter, rc.Host)
	if toBig(w.cs.V2FileContractTax(fc)).Cmp(tax) != 0 {
		ex.c.HarnessError("reference v2 tax differs from State.V2FileContractTax")
		return nil
	}
	if add(toBig(rCost), toBig(hCost)).Cmp(add(rc.Renter, rc.Host, tax, toBig(ex.fee))) != 0 {
		ex.violate("ContractCost", "unbalanced", "form", fmt.Sprintf("renter %v + host %v != contract value + tax + fee %v", rCost, hCost, add(rc.Renter, rc.Host, tax, toBig(ex.fee))), nil, nil)
		return nil
	}
	if toBig(hCost).Cmp(ex.typC) != 0 {
		ex.violate("ContractCost", "host-cost-not-collateral", "form", fmt.Sprintf("host cost %v != collateral %v", hCost, ex.typC), nil, nil)
		return nil
	}
	// consensus: funded, signed formation transaction in a real block
	ftxn, rin, hin, changeID, err := fundingTxn(w, k, rCost, hCost)
	if err != nil {
		ex.c.HarnessError("%v", err)
		return nil
	}
	signContract(w.cs, k, &fc)
	txn := types.V2Transaction{SiacoinInputs: inputsOf(rin, hin), FileContracts: []types.V2FileContract{fc}, MinerFee: ex.fee}
	signInputs(w.cs, k, &txn)
	fcid := txn.V2FileContractID(txn.ID(), 0)
	nw, err := mine(w, []types.V2Transaction{ftxn, txn}, fcid, changeID)
	ex.count("consensus_validations")
	if err != nil {
		ex.violate("NewContract", "consensus-rejects", "form", fmt.Sprintf("block with funded signed formation rejected: %v", err), nil, nil)
		return nil
	}
	ex.count("consensus_accepted")
	ex.count("formations")
	ex.outcome("form", "ok")
	if !ex.controls["form"] {
		ex.controls["form"] = true
		bt := txn.DeepCopy()
		bt.MinerFee = bt.MinerFee.Add(types.NewCurrency64(1))
		signInputs(w.cs, k, &bt)
		ms := consensus.NewMidState(w.cs)
		ms.ApplyV2Transaction(ftxn)
		ex.control("form/fee+1", consensus.ValidateV2Transaction(ms, bt))
	}
	ex.sh.states.add(contractKey(fc))
	if ex.gp.Late {
		for nw.cs.Index.Height+1 < fc.ProofHeight {
			if nw, err = mine(nw, nil, types.FileContractID{}, types.SiacoinOutputID{}); err != nil {
				ex.c.HarnessError("empty block rejected: %v", err)
				return nil
			}
		}
		ex.count("late_worlds")
	}
	return &node{w: nw, fc: fc}
}

// lateProbe records (without asserting) what happens one block after the last
// admissible height: the request validations have no height input, consensus
// refuses the revision.
func (ex *explorer) lateProbe(root *node) {
	w, err := mine(root.w, nil, types.FileContractID{}, types.SiacoinOutputID{})
	if err != nil {
		ex.c.HarnessError("empty block rejected: %v", err)
		return
	}
	hp, _ := ex.pricesAt(w.cs.Index.Height)
	if hp.TipHeight > root.fc.ProofHeight {
		return
	}
	req := rhp4.RPCAppendSectorsRequest{Prices: hp, Sectors: rootsBuf[:1], ContractID: w.fce.ID}
	if req.Validate(ex.sh.k.host.pk) != nil {
		return
	}
	rev, _, err := rhp4.ReviseForAppendSectors(root.fc, hp, types.Hash256{1}, 1)
	if err != nil {
		return
	}
	signContract(w.cs, ex.sh.k, &rev)
	txn := types.V2Transaction{FileContractRevisions: []types.V2FileContractRevision{{Parent: w.fce.Share(), Revision: rev}}}
	if consensus.ValidateV2Transaction(consensus.NewMidState(w.cs), txn) != nil {
		ex.count("info_revision_at_tip_equal_proof_height_refused_by_consensus")
	} else {
		ex.count("info_revision_at_tip_equal_proof_height_accepted")
	}
}

// checkAllowanceCollateralHelpers compares MinRenterAllowance and
// MaxHostCollateral with the reference at the grid point's amounts.
func (ex *explorer) checkAllowanceCollateralHelpers(hp rhp4.HostPrices, rp refPrices) bool {
	for _, amt := range []*big.Int{ex.typA, ex.typC, bi(0), bi(1), bigA} {
		wantMin, ok1 := minAllowance(rp, amt)
		var wantMax *big.Int
		ok2 := true
		if rp.Storage.Sign() == 0 {
			wantMax = toBig(types.MaxCurrency)
		} else {
			wantMax = mul(rp.Collateral, quo(amt, rp.Storage))
			ok2 = fits(wantMax)
		}
		ex.count("evaluations")
		var gotMin, gotMax types.Currency
		if ok1 {
			if p, _ := vf.Try(func() { gotMin = rhp4.MinRenterAllowance(hp, fromBig(amt)) }); p != nil {
				ex.violate("MinRenterAllowance", "panic-in-domain", "helper", fmt.Sprintf("panicked for collateral %v: %v", amt, p), nil, nil)
				return false
			}
			if toBig(gotMin).Cmp(wantMin) != 0 {
				ex.violate("MinRenterAllowance", "differs-from-reference", "helper", fmt.Sprintf("collateral %v: got %v, reference %v", amt, gotMin, wantMin), nil, nil)
				return false
			}
		}
		if ok2 {
			if p, _ := vf.Try(func() { gotMax = rhp4.MaxHostCollateral(hp, fromBig(amt)) }); p != nil {
				ex.violate("MaxHostCollateral", "panic-in-domain", "helper", fmt.Sprintf("panicked for allowance %v: %v", amt, p), nil, nil)
				return false
			}
			if toBig(gotMax).Cmp(wantMax) != 0 {
				ex.violate("MaxHostCollateral", "differs-from-reference", "helper", fmt.Sprintf("allowance %v: got %v, reference %v", amt, gotMax, wantMax), nil, nil)
				return false
			}
			// the collateral MaxHostCollateral admits is justified by the allowance
			if back, ok := minAllowance(rp, wantMax); ok && rp.Storage.Sign() > 0 && back.Cmp(amt) > 0 {
				ex.c.HarnessError("reference inconsistency: minAllowance(maxCollateral(a)) > a")
			}
		}
		ex.count("helper_checks")
	}
	return true
}

func (ex *explorer) control(name string, err error) {
	ex.count("controls_run")
	if err == nil {
		ex.c.HarnessError("negative control %s was ACCEPTED by consensus: the consensus oracle would be vacuous", name)
		return
	}
	ex.count("controls_rejected")
}

// ---------- revisions ----------

func usageOf(u rhp4.Usage) refUsage {
	return refUsage{toBig(u.RPC), toBig(u.Storage), toBig(u.Egress), toBig(u.Ingress), toBig(u.AccountFunding), toBig(u.RiskedCollateral)}
}

func usageEq(a, b refUsage) bool {
	x, y := a.all(), b.all()
	for i := range x {
		if x[i].Cmp(y[i]) != 0 {
			return false
		}
	}
	return true
}

func (ex *explorer) midState(n *node) *consensus.MidState {
	ms := consensus.NewMidState(n.w.cs)
	for _, t := range n.pending {
		ms.ApplyV2Transaction(t)
	}
	return ms
}

func (ex *explorer) validateRevision(n *node, rev types.V2FileContract) (types.V2Transaction, error) {
	txn := types.V2Transaction{FileContractRevisions: []types.V2FileContractRevision{{Parent: n.w.fce.Share(), Revision: rev}}}
	return txn, consensus.ValidateV2Transaction(ex.midState(n), txn)
}

// evalRevision executes one revision move on node n. Returns the successor.
func (ex *explorer) evalRevision(n *node, m move) *node {
	k := ex.sh.k
	entry := entryOf(m.Kind)
	hp, rp := ex.pricesAt(n.w.cs.Index.Height)
	rc := refOf(n.fc)
	sectors := rc.Filesize / sectorSize
	ex.count("evaluations")

	// 1. expected usage (reference) and domain
	var want refUsage
	inDomain := true
	var root types.Hash256
	switch m.Kind {
	case "pay":
		want = zeroUsage()
		if len(m.Usage) != 6 {
			ex.c.HarnessError("pay move without six usage components")
			return nil
		}
		for i, p := range want.all() {
			p.Set(parseBig(m.Usage[i]))
		}
		inDomain = fits(want.cost())
	case "append":
		want, inDomain = usageAppend(rp, rc, m.K)
		if rc.Filesize+m.K*sectorSize < rc.Filesize {
			inDomain = false
		}
		root = types.Hash256{0xA1, byte(m.K), byte(rc.Rev)}
	case "free":
		want, inDomain = usageFree(rp, m.K)
		root = types.Hash256{0xF1, byte(m.K), byte(rc.Rev)}
	case "roots":
		want, inDomain = usageRoots(rp, m.K)
	case "fund", "replenish":
		want = usageFund(parseBig(m.Amount))
	default:
		panic("unknown revision kind " + m.Kind)
	}
	if !inDomain {
		ex.outcome(m.Kind, "out_of_domain")
		return nil
	}

	// 2. the request's own validation
	var verr error
	wantValid := true
	if p, _ := vf.Try(func() {
		switch m.Kind {
		case "append":
			req := rhp4.RPCAppendSectorsRequest{Prices: hp, Sectors: rootsBuf[:min(m.K, maxBatch+1)], ContractID: n.w.fce.ID}
			verr = req.Validate(k.host.pk)
			wantValid = m.K >= 1 && m.K <= maxBatch
		case "free":
			req := rhp4.RPCFreeSectorsRequest{Prices: hp, Indices: indexBuf[:min(m.K, maxBatch+1)], ContractID: n.w.fce.ID}
			verr = req.Validate(k.host.pk, n.fc)
			wantValid = m.K <= maxBatch && m.K <= sectors
		case "roots":
			req := rhp4.RPCSectorRootsRequest{Prices: hp, ContractID: n.w.fce.ID, Offset: 0, Length: m.K}
			verr = req.Validate(k.host.pk, n.fc)
			wantValid = m.K >= 1 && m.K <= sectors && m.K <= maxBatch
		case "fund":
			amt := fromBig(parseBig(m.Amount))
			req := rhp4.RPCFundAccountsRequest{ContractID: n.w.fce.ID, RenterSignature: types.Signature{1},
				Deposits: []rhp4.AccountDeposit{{Account: rhp4.Account(k.renter.pk), Amount: amt}}}
			if amt.Cmp(types.NewCurrency64(1)) > 0 { // split over two deposits: the revision pays the total
				req.Deposits = []rhp4.AccountDeposit{{Account: rhp4.Account(k.renter.pk), Amount: types.NewCurrency64(1)},
					{Account: rhp4.Account(k.bank.pk), Amount: amt.Sub(types.NewCurrency64(1))}}
			}
			verr = req.Validate()
			wantValid = !amt.IsZero()
		case "replenish":
			req := rhp4.RPCReplenishAccountsRequest{Accounts: []rhp4.Account{rhp4.Account(k.renter.pk)}, Target: types.NewCurrency64(1),
				ContractID: n.w.fce.ID, ChallengeSignature: types.Signature{1}}
			verr = req.Validate()
		}
	}); p != nil {
		ex.violate(reqName(m.Kind)+".Validate", "panic-in-domain", m.Label, fmt.Sprintf("request Validate panicked: %v", p), n.path, &m)
		return nil
	}
	if (verr == nil) != wantValid {
		ex.violate(reqName(m.Kind)+".Validate", "verdict-differs-from-reference", m.Label, fmt.Sprintf("request Validate err=%v, reference expects accept=%v", verr, wantValid), n.path, &m)
		return nil
	}
	if verr != nil {
		ex.outcome(m.Kind, "filtered_by_validate")
		return nil
	}

	// 3. the constructor
	in := n.fc // value copy handed to the constructor
	saved := n.fc
	var out types.V2FileContract
	var usage rhp4.Usage
	var err error
	if p, _ := vf.Try(func() {
		switch m.Kind {
		case "pay":
			u := rhp4.Usage{RPC: fromBig(want.RPC), Storage: fromBig(want.Storage), Egress: fromBig(want.Egress),
				Ingress: fromBig(want.Ingress), AccountFunding: fromBig(want.Fund), RiskedCollateral: fromBig(want.Risked)}
			out = in
			err = rhp4.PayWithContract(&out, u)
			usage = u
		case "append":
			out, usage, err = rhp4.ReviseForAppendSectors(in, hp, root, m.K)
		case "free":
			out, usage, err = rhp4.ReviseForFreeSectors(in, hp, root, int(m.K))
		case "roots":
			out, usage, err = rhp4.ReviseForSectorRoots(in, hp, m.K)
		case "fund":
			out, usage, err = rhp4.ReviseForFundAccounts(in, fromBig(parseBig(m.Amount)))
		case "replenish":
			out, usage, err = rhp4.ReviseForReplenish(in, fromBig(parseBig(m.Amount)))
		}
	}); p != nil {
		ex.violate(entry, "panic-in-domain", m.Label, fmt.Sprintf("constructor panicked inside the stated domain: %v", p), n.path, &m)
		return nil
	}
	ex.count("transitions")
	ex.c.Distinct("rev", contractKey(n.fc), ex.gp.Prices, rp.Tip, m.key())
	bad := func(class, desc string) *node {
		ex.violate(entry, class, m.Label, desc, n.path, &m)
		return nil
	}
	if in != saved {
		return bad("input-mutated", "the input contract value changed")
	}
	cost := want.cost()
	wantErr := rc.Renter.Cmp(cost) < 0 || rc.Missed.Cmp(want.Risked) < 0
	if wantErr != (err != nil) {
		if err != nil {
			return bad("unexpected-error", fmt.Sprintf("error %v although renter %v >= cost %v and missed %v >= risked %v", err, rc.Renter, cost, rc.Missed, want.Risked))
		}
		return bad("missing-error", fmt.Sprintf("no error although renter %v < cost %v or missed %v < risked %v", rc.Renter, cost, rc.Missed, want.Risked))
	}
	if err != nil {
		ex.outcome(m.Kind, "insufficient_funds_error")
		if m.Kind == "pay" && out != saved {
			return bad("contract-modified-on-error", "PayWithContract returned an error but modified the contract")
		}
		if m.Kind != "pay" && out != saved {
			// the returned value is not the input; the input is intact. Recorded, not asserted.
			ex.count("info_error_return_value_differs_from_input")
		}
		return nil
	}
	got := usageOf(usage)
	if !usageEq(got, want) {
		return bad("usage-mismatch", fmt.Sprintf("reported usage %v, reference %v", got.all(), want.all()))
	}
	rcost := toBig(usage.RenterCost())
	if rcost.Cmp(cost) != 0 {
		return bad("rentercost-not-sum-of-usage", fmt.Sprintf("Usage.RenterCost() %v != sum of components %v", rcost, cost))
	}
	if toBig(usage.HostRiskedCollateral()).Cmp(want.Risked) != 0 {
		return bad("riskedcollateral-accessor", "Usage.HostRiskedCollateral() differs from the field")
	}
	ro := refOf(out)
	switch {
	case add(ro.Renter, ro.Host).Cmp(add(rc.Renter, rc.Host)) != 0:
		return bad("total-value-changed", fmt.Sprintf("renter+host %v -> %v", add(rc.Renter, rc.Host), add(ro.Renter, ro.Host)))
	case ro.Renter.Cmp(sub(rc.Renter, cost)) != 0:
		return bad("renter-not-charged-reported-usage", fmt.Sprintf("renter %v -> %v, reported cost %v", rc.Renter, ro.Renter, cost))
	case ro.Missed.Cmp(rc.Missed) > 0:
		return bad("missed-host-value-raised", fmt.Sprintf("missed %v -> %v", rc.Missed, ro.Missed))
	case ro.Missed.Cmp(sub(rc.Missed, want.Risked)) != 0:
		return bad("risked-collateral-not-deducted", fmt.Sprintf("missed %v -> %v, reported risked collateral %v", rc.Missed, ro.Missed, want.Risked))
	case ro.Tot.Cmp(rc.Tot) != 0:
		return bad("total-collateral-changed", fmt.Sprintf("total collateral %v -> %v", rc.Tot, ro.Tot))
	case ro.Rev <= rc.Rev:
		return bad("revision-number-not-increased", fmt.Sprintf("revision %d -> %d", rc.Rev, ro.Rev))
	case ro.ProofHeight != rc.ProofHeight || ro.ExpHeight != rc.ExpHeight:
		return bad("heights-changed", "a revision changed the proof/expiration height")
	case out.RenterPublicKey != saved.RenterPublicKey || out.HostPublicKey != saved.HostPublicKey ||
		out.RenterOutput.Address != saved.RenterOutput.Address || out.HostOutput.Address != saved.HostOutput.Address:
		return bad("keys-or-addresses-changed", "a revision changed keys or addresses")
	case out.RenterSignature != (types.Signature{}) || out.HostSignature != (types.Signature{}):
		return bad("signatures-not-cleared", "revision carries stale signatures")
	}
	wantSize, wantCap, wantRoot := rc.Filesize, rc.Capacity, saved.FileMerkleRoot
	switch m.Kind {
	case "append":
		wantSize = rc.Filesize + m.K*sectorSize
		wantCap = rc.Capacity + appendGrowth(rc, m.K)*sectorSize
		wantRoot = root
	case "free":
		wantSize = rc.Filesize - m.K*sectorSize
		wantRoot = root
	}
	if ro.Filesize != wantSize || ro.Capacity != wantCap {
		return bad("filesize-capacity-arithmetic", fmt.Sprintf("filesize %d capacity %d, want %d / %d", ro.Filesize, ro.Capacity, wantSize, wantCap))
	}
	if out.FileMerkleRoot != wantRoot {
		return bad("merkle-root", "file Merkle root not as requested / changed unexpectedly")
	}

	// 4. consensus: the signed revision is valid after the previous revisions of the sequence
	signContract(n.w.cs, k, &out)
	txn, cerr := ex.validateRevision(n, out)
	ex.count("consensus_validations")
	if cerr != nil {
		return bad("consensus-rejects", fmt.Sprintf("ValidateV2Transaction rejected the revision: %v", cerr))
	}
	ex.count("consensus_accepted")
	ex.count("traces_validated_against_impl")
	ex.outcome(m.Kind, "ok")
	ex.sh.states.add(contractKey(out))
	if !ex.controls[m.Kind] {
		ex.controls[m.Kind] = true
		c1 := out
		c1.RenterOutput.Value = c1.RenterOutput.Value.Add(types.NewCurrency64(1))
		signContract(n.w.cs, k, &c1)
		_, e1 := ex.validateRevision(n, c1)
		ex.control(m.Kind+"/sum+1", e1)
		c2 := out
		c2.MissedHostValue = saved.MissedHostValue.Add(types.NewCurrency64(1))
		signContract(n.w.cs, k, &c2)
		_, e2 := ex.validateRevision(n, c2)
		ex.control(m.Kind+"/missed-raised", e2)
		c3 := out
		c3.TotalCollateral = c3.TotalCollateral.Add(types.NewCurrency64(1))
		signContract(n.w.cs, k, &c3)
		_, e3 := ex.validateRevision(n, c3)
		ex.control(m.Kind+"/total-collateral+1", e3)
	}
	pend := make([]types.V2Transaction, len(n.pending)+1)
	copy(pend, n.pending)
	pend[len(n.pending)] = txn
	path := make([]move, len(n.path)+1)
	copy(path, n.path)
	path[len(n.path)] = m
	return &node{w: n.w, fc: out, pending: pend, path: path}
}

// ---------- renewals / refreshes ----------

// flush broadcasts the latest revision (one transaction in one block) so that
// the accumulator holds the contract the renewal is built from.
func (ex *explorer) flush(n *node) (*world, bool) {
	if n.flushed != nil {
		return n.flushed, true
	}
	if len(n.pending) == 0 {
		n.flushed = &n.w
		return n.flushed, true
	}
	txn := types.V2Transaction{FileContractRevisions: []types.V2FileContractRevision{{Parent: n.w.fce.Copy(), Revision: n.fc}}}
	nw, err := mine(n.w, []types.V2Transaction{txn}, types.FileContractID{}, types.SiacoinOutputID{})
	ex.count("consensus_validations")
	if err != nil {
		ex.violate("revision-chain", "consensus-rejects-latest-revision", "flush", fmt.Sprintf("block broadcasting the latest revision rejected: %v", err), n.path, nil)
		return nil, false
	}
	ex.count("consensus_accepted")
	ex.count("flush_blocks")
	if nw.fce.V2FileContract != n.fc {
		ex.c.HarnessError("flush: accumulator contract differs from latest revision")
		return nil, false
	}
	n.flushed = &nw
	return n.flushed, true
}

func (ex *explorer) evalRenewal(n *node, m move, needSucc bool) *node {
	k := ex.sh.k
	entry := entryOf(m.Kind)
	fw, ok := ex.flush(n)
	if !ok {
		return nil
	}
	cs := fw.cs
	hp, rp := ex.pricesAt(cs.Index.Height)
	rc := refOf(n.fc)
	allowance, collateral := parseBig(m.Allowance), parseBig(m.Collateral)
	ex.count("evaluations")

	// 1. reference expectation and domain
	var want refRenewal
	var inDomain bool
	minPH := max(cs.Index.Height, rp.Tip) + minDuration
	// heightBad: the request is refused on heights alone, before any price arithmetic
	heightBad := false
	switch m.Kind {
	case "renew":
		heightBad = m.ProofHeight <= rc.ProofHeight || m.ProofHeight < minPH || m.ProofHeight+proofWindow-rp.Tip > maxDuration
		if !heightBad {
			want, inDomain = expectRenew(rp, rc, allowance, collateral, m.ProofHeight)
		}
	case "refreshPartial":
		heightBad = rc.ProofHeight <= minPH
		want, inDomain = expectRefreshPartial(rp, rc, allowance, collateral)
	case "refreshFull":
		heightBad = rc.ProofHeight <= minPH
		want, inDomain = expectRefreshFull(rp, rc, allowance, collateral)
	}
	wantValid := !heightBad
	if !heightBad {
		minA, okA := minAllowance(rp, collateral)
		if !okA || !inDomain {
			ex.outcome(m.Kind, "out_of_domain")
			return nil
		}
		wantValid = allowance.Sign() > 0 && allowance.Cmp(minA) >= 0 && want.NewTot.Cmp(toBig(maxCollateral)) <= 0
	}

	// 2. request validation
	var verr error
	if p, _ := vf.Try(func() {
		switch m.Kind {
		case "renew":
			req := rhp4.RPCRenewContractRequest{Prices: hp, MinerFee: ex.fee, Basis: cs.Index,
				Renewal: rhp4.RPCRenewContractParams{ContractID: fw.fce.ID, Allowance: fromBig(allowance), Collateral: fromBig(collateral), ProofHeight: m.ProofHeight}}
			verr = req.Validate(k.host.pk, cs.Index, n.fc, maxCollateral, maxDuration)
		default:
			req := rhp4.RPCRefreshContractRequest{Prices: hp, MinerFee: ex.fee, Basis: cs.Index,
				Refresh: rhp4.RPCRefreshContractParams{ContractID: fw.fce.ID, Allowance: fromBig(allowance), Collateral: fromBig(collateral)}}
			verr = req.Validate(k.host.pk, cs.Index, n.fc, maxCollateral, m.Kind == "refreshPartial")
		}
	}); p != nil {
		ex.violate(reqName(m.Kind)+".Validate", "panic-in-domain", m.Label, fmt.Sprintf("request Validate panicked: %v", p), n.path, &m)
		return nil
	}
	if (verr == nil) != wantValid {
		ex.violate(reqName(m.Kind)+".Validate", "verdict-differs-from-reference", m.Label, fmt.Sprintf("request Validate err=%v, reference expects accept=%v", verr, wantValid), n.path, &m)
		return nil
	}
	if verr != nil {
		ex.outcome(m.Kind, "filtered_by_validate")
		return nil
	}

	// 3. constructor
	in, saved := n.fc, n.fc
	var r types.V2FileContractRenewal
	var usage rhp4.Usage
	if p, _ := vf.Try(func() {
		switch m.Kind {
		case "renew":
			r, usage = rhp4.RenewContract(in, hp, k.host.addr, rhp4.RPCRenewContractParams{ContractID: fw.fce.ID, Allowance: fromBig(allowance), Collateral: fromBig(collateral), ProofHeight: m.ProofHeight})
		case "refreshPartial":
			r, usage = rhp4.RefreshContractPartialRollover(in, hp, k.host.addr, rhp4.RPCRefreshContractParams{ContractID: fw.fce.ID, Allowance: fromBig(allowance), Collateral: fromBig(collateral)})
		case "refreshFull":
			r, usage = rhp4.RefreshContractFullRollover(in, hp, k.host.addr, rhp4.RPCRefreshContractParams{ContractID: fw.fce.ID, Allowance: fromBig(allowance), Collateral: fromBig(collateral)})
		}
	}); p != nil {
		ex.violate(entry, "panic-in-domain", m.Label, fmt.Sprintf("constructor panicked inside the stated domain: %v", p), n.path, &m)
		return nil
	}
	ex.count("transitions")
	ex.c.Distinct("ren", contractKey(n.fc), ex.gp.Prices, rp.Tip, m.key())
	bad := func(e, class, desc string) *node {
		ex.violate(e, class, m.Label, desc, n.path, &m)
		return nil
	}
	if in != saved {
		return bad(entry, "input-mutated", "the input contract value changed")
	}
	nc := refOf(r.NewContract)
	rollR, rollH := toBig(r.RenterRollover), toBig(r.HostRollover)
	finR, finH := toBig(r.FinalRenterOutput.Value), toBig(r.FinalHostOutput.Value)
	tax := v2Tax(nc.Renter, nc.Host)
	if toBig(cs.V2FileContractTax(r.NewContract)).Cmp(tax) != 0 {
		ex.c.HarnessError("reference v2 tax differs from State.V2FileContractTax")
		return nil
	}
	newCost := add(nc.Renter, nc.Host, tax)
	switch {
	case add(finR, finH, rollR, rollH).Cmp(add(rc.Renter, rc.Host)) != 0:
		return bad(entry, "old-value-not-split-exactly", fmt.Sprintf("final %v+%v + rollover %v+%v != old outputs %v+%v", finR, finH, rollR, rollH, rc.Renter, rc.Host))
	case add(finR, rollR).Cmp(rc.Renter) != 0 || add(finH, rollH).Cmp(rc.Host) != 0:
		return bad(entry, "value-moved-between-parties", fmt.Sprintf("renter final+rollover %v (old %v), host final+rollover %v (old %v)", add(finR, rollR), rc.Renter, add(finH, rollH), rc.Host))
	case add(rollR, rollH).Cmp(newCost) > 0:
		return bad(entry, "rollover-exceeds-new-contract-cost", fmt.Sprintf("rollover %v > new contract cost %v", add(rollR, rollH), newCost))
	case nc.Rev != 0:
		return bad(entry, "new-contract-revision-not-zero", "renewed contract does not start at revision 0")
	case r.NewContract.RenterPublicKey != saved.RenterPublicKey || r.NewContract.HostPublicKey != saved.HostPublicKey:
		return bad(entry, "keys-changed", "renewal changes the contract keys")
	case r.NewContract.RenterSignature != (types.Signature{}) || r.NewContract.HostSignature != (types.Signature{}):
		return bad(entry, "signatures-not-cleared", "new contract carries stale signatures")
	case r.FinalRenterOutput.Address != saved.RenterOutput.Address || r.FinalHostOutput.Address != saved.HostOutput.Address:
		return bad(entry, "final-output-address", "final outputs do not pay the old contract's addresses")
	case r.NewContract.RenterOutput.Address != saved.RenterOutput.Address || r.NewContract.HostOutput.Address != k.host.addr:
		return bad(entry, "new-contract-address", "new contract addresses wrong")
	case r.NewContract.FileMerkleRoot != saved.FileMerkleRoot:
		return bad(entry, "merkle-root", "renewal changed the Merkle root")
	}
	// shape of the new contract against the reference
	switch {
	case nc.Renter.Cmp(want.NewRenter) != 0 || nc.Host.Cmp(want.NewHost) != 0 || nc.Missed.Cmp(want.NewMissed) != 0 || nc.Tot.Cmp(want.NewTot) != 0:
		return bad(entry, "new-contract-values-differ-from-reference", fmt.Sprintf("new contract renter/host/missed/total = %v/%v/%v/%v, reference %v/%v/%v/%v",
			nc.Renter, nc.Host, nc.Missed, nc.Tot, want.NewRenter, want.NewHost, want.NewMissed, want.NewTot))
	case rollR.Cmp(want.RollR) != 0 || rollH.Cmp(want.RollH) != 0:
		return bad(entry, "rollover-differs-from-reference", fmt.Sprintf("rollover renter/host %v/%v, reference %v/%v", rollR, rollH, want.RollR, want.RollH))
	case nc.Capacity != want.NewCapacity || nc.Filesize != want.NewFilesize || nc.ProofHeight != want.NewProof || nc.ExpHeight != want.NewExp:
		return bad(entry, "new-contract-size-or-heights", fmt.Sprintf("capacity/filesize/proof/exp %d/%d/%d/%d, reference %d/%d/%d/%d",
			nc.Capacity, nc.Filesize, nc.ProofHeight, nc.ExpHeight, want.NewCapacity, want.NewFilesize, want.NewProof, want.NewExp))
	case !usageEq(usageOf(usage), want.Usage):
		return bad(entry, "usage-mismatch", fmt.Sprintf("reported usage %v, reference %v", usageOf(usage).all(), want.Usage.all()))
	}
	// 3b. cost functions
	var rCost, hCost types.Currency
	costFn := "RenewalCost"
	if p, _ := vf.Try(func() {
		if m.Kind == "renew" {
			rCost, hCost = rhp4.RenewalCost(cs, r, ex.fee)
		} else {
			costFn = "RefreshCost"
			rCost, hCost = rhp4.RefreshCost(cs, hp, r, ex.fee)
		}
	}); p != nil {
		return bad(costFn, "panic-in-domain", fmt.Sprintf("cost function panicked: %v", p))
	}
	if add(toBig(rCost), toBig(hCost), rollR, rollH).Cmp(add(newCost, toBig(ex.fee))) != 0 {
		return bad(costFn, "unbalanced", fmt.Sprintf("renter %v + host %v + rollover %v != new contract %v + tax %v + fee %v",
			rCost, hCost, add(rollR, rollH), add(nc.Renter, nc.Host), tax, ex.fee))
	}
	// the host funds exactly the collateral it locks beyond what it rolls over
	// (the renter pays contract price, storage, allowance top-up, tax and fee)
	wantHost := sub(want.NewTot, want.RollH)
	if m.Kind != "renew" {
		wantHost = sub(sub(want.NewHost, rp.Contract), want.RollH)
	}
	if toBig(hCost).Cmp(wantHost) != 0 {
		return bad(costFn, "host-cost-differs-from-reference", fmt.Sprintf("host cost %v, reference %v", hCost, wantHost))
	}

	// 4. consensus: full funded signed transaction
	ftxn, rin, hin, changeID, err := fundingTxn(*fw, k, rCost, hCost)
	if err != nil {
		ex.c.HarnessError("%v", err)
		return nil
	}
	signed := r
	signRenewal(cs, k, &signed)
	txn := types.V2Transaction{SiacoinInputs: inputsOf(rin, hin), MinerFee: ex.fee,
		FileContractResolutions: []types.V2FileContractResolution{{Parent: fw.fce.Copy(), Resolution: &signed}}}
	signInputs(cs, k, &txn)
	ex.count("consensus_validations")
	var succ *node
	if needSucc && m.expand {
		newID := fw.fce.ID.V2RenewalID()
		nw, err := mine(*fw, []types.V2Transaction{ftxn, txn}, newID, changeID)
		if err != nil {
			return bad(entry, "consensus-rejects", fmt.Sprintf("block with the funded signed renewal rejected: %v", err))
		}
		ex.count("renewal_blocks")
		path := make([]move, len(n.path)+1)
		copy(path, n.path)
		path[len(n.path)] = m
		succ = &node{w: nw, fc: nw.fce.V2FileContract, path: path}
	} else {
		ms := consensus.NewMidState(cs)
		if err := consensus.ValidateV2Transaction(ms, ftxn); err != nil {
			ex.c.HarnessError("funding transaction rejected: %v", err)
			return nil
		}
		ms.ApplyV2Transaction(ftxn)
		if err := consensus.ValidateV2Transaction(ms, txn); err != nil {
			return bad(entry, "consensus-rejects", fmt.Sprintf("ValidateV2Transaction rejected the funded signed renewal: %v", err))
		}
	}
	ex.count("consensus_accepted")
	ex.count("traces_validated_against_impl")
	ex.outcome(m.Kind, "ok")
	ex.sh.states.add(contractKey(signed.NewContract))
	if !ex.controls[m.Kind] {
		ex.controls[m.Kind] = true
		ctl := func(name string, mut func(r *types.V2FileContractRenewal, t *types.V2Transaction)) {
			rr := r
			tt := types.V2Transaction{SiacoinInputs: inputsOf(rin, hin), MinerFee: ex.fee}
			mut(&rr, &tt)
			signRenewal(cs, k, &rr)
			tt.FileContractResolutions = []types.V2FileContractResolution{{Parent: fw.fce.Copy(), Resolution: &rr}}
			signInputs(cs, k, &tt)
			ms := consensus.NewMidState(cs)
			ms.ApplyV2Transaction(ftxn)
			ex.control(m.Kind+"/"+name, consensus.ValidateV2Transaction(ms, tt))
		}
		ctl("final-renter+1", func(r *types.V2FileContractRenewal, t *types.V2Transaction) {
			r.FinalRenterOutput.Value = r.FinalRenterOutput.Value.Add(types.NewCurrency64(1))
		})
		ctl("fee+1", func(r *types.V2FileContractRenewal, t *types.V2Transaction) {
			t.MinerFee = t.MinerFee.Add(types.NewCurrency64(1))
		})
		ctl("new-missed>host", func(r *types.V2FileContractRenewal, t *types.V2Transaction) {
			r.NewContract.MissedHostValue = r.NewContract.HostOutput.Value.Add(types.NewCurrency64(1))
		})
	}
	return succ
}

// ---------- BFS ----------

func (ex *explorer) eval(n *node, m move, needSucc bool) *node {
	if isRenewalKind(m.Kind) {
		return ex.evalRenewal(n, m, needSucc)
	}
	return ex.evalRevision(n, m)
}

func visitKey(n *node) [17]byte {
	var k [17]byte
	ck := contractKey(n.fc)
	copy(k[:], ck[:])
	k[16] = byte(n.w.cs.Index.Height)<<1 | byte(min(len(n.pending), 1))
	return k
}

// explore runs the BFS for one grid point.
func (ex *explorer) explore() {
	root := ex.form()
	if root == nil {
		return
	}
	if ex.gp.Late {
		ex.lateProbe(root)
	}
	frontier := []*node{root}
	ex.visited[visitKey(root)] = true
	for depth := 0; depth < ex.sh.depth && len(frontier) > 0; depth++ {
		var next []*node
		last := depth == ex.sh.depth-1
		for _, n := range frontier {
			if ex.c.Expired() {
				return
			}
			ex.nodes++
			for _, m := range ex.genMoves(n, depth) {
				succ := ex.eval(n, m, !last)
				if succ == nil || last || !m.expand {
					continue
				}
				vk := visitKey(succ)
				if ex.visited[vk] {
					ex.count("merged_states")
					continue
				}
				ex.visited[vk] = true
				next = append(next, succ)
			}
			n.flushed = nil
		}
		frontier = next
	}
}
