package c17

// Consensus-side machinery: a compact network, deterministic keys, block
// building and transaction signing. Only exported consensus/types API is used.

import (
	"crypto/sha256"
	"fmt"
	"time"

	"go.sia.tech/core/consensus"
	"go.sia.tech/core/types"
)

type party struct {
	sk   types.PrivateKey
	pk   types.PublicKey
	pol  types.SpendPolicy
	addr types.Address
}

func newParty(seed int64, role string) party {
	h := sha256.Sum256([]byte(fmt.Sprintf("verif/c17/%s/%d", role, seed)))
	sk := types.NewPrivateKeyFromSeed(h[:])
	pk := sk.PublicKey()
	pol := types.PolicyPublicKey(pk)
	return party{sk: sk, pk: pk, pol: pol, addr: pol.Address()}
}

type keys struct {
	renter, host, bank party
}

func newKeys(seed int64) keys {
	return keys{newParty(seed, "renter"), newParty(seed, "host"), newParty(seed, "bank")}
}

var genesisTime = time.Unix(1618033988, 0)

// baseNetwork follows the template of testnet() in consensus/validation_test.go.
func baseNetwork(name string) *consensus.Network {
	n := &consensus.Network{
		Name:            name,
		InitialCoinbase: types.Siacoins(300000),
		MinimumCoinbase: types.Siacoins(300000),
		InitialTarget:   types.BlockID{0xFF},
		BlockInterval:   10 * time.Minute,
		MaturityDelay:   5,
	}
	n.HardforkDevAddr.Height = 1
	n.HardforkTax.Height = 2
	n.HardforkStorageProof.Height = 3
	n.HardforkOak.Height = 4
	n.HardforkOak.FixHeight = 5
	n.HardforkOak.GenesisTimestamp = genesisTime
	n.HardforkASIC.Height = 6
	n.HardforkASIC.OakTime = 10000 * time.Second
	n.HardforkASIC.OakTarget = n.InitialTarget
	n.HardforkASIC.NonceFactor = 1009
	n.HardforkFoundation.Height = 7
	n.HardforkFoundation.PrimaryAddress = types.AnyoneCanSpend().Address()
	n.HardforkFoundation.FailsafeAddress = types.VoidAddress
	n.HardforkV2.AllowHeight = 1000
	n.HardforkV2.RequireHeight = 2000
	n.HardforkV2.FinalCutHeight = 3000
	n.HardforkV2.EphemeralOutputHeight = 0
	return n
}

// v2Network: v2 transactions allowed and required from height 1.
func v2Network() *consensus.Network {
	n := baseNetwork("verif-c17-v2")
	n.HardforkOak.Height = 0
	n.HardforkTax.Height = 0
	n.HardforkFoundation.Height = 0
	n.HardforkV2.AllowHeight = 1
	n.HardforkV2.RequireHeight = 1
	return n
}

func findNonce(cs consensus.State, b *types.Block) {
	for b.Nonce%cs.NonceFactor() != 0 {
		b.Nonce++
	}
	for b.ID().CmpWork(cs.PoWTarget()) < 0 {
		b.Nonce += cs.NonceFactor()
	}
}

// world is what a user of the library holds: the chain state and the elements
// (with proofs valid for that state) it cares about.
type world struct {
	cs   consensus.State
	bank types.SiacoinElement
	fce  types.V2FileContractElement // zero ID if no contract yet
}

func (w world) copy() world {
	return world{cs: w.cs, bank: w.bank.Copy(), fce: w.fce.Copy()}
}

// genesisWorld creates the v2 chain: a v1 genesis block paying the bank, then
// `empties` empty v2 blocks.
func genesisWorld(n *consensus.Network, k keys, bankValue types.Currency, empties int) (world, error) {
	gb := types.Block{
		Timestamp: genesisTime,
		Transactions: []types.Transaction{{
			SiacoinOutputs: []types.SiacoinOutput{{Address: k.bank.addr, Value: bankValue}},
		}},
	}
	cs, au := consensus.ApplyBlock(n.GenesisState(), gb, consensus.V1BlockSupplement{Transactions: make([]consensus.V1TransactionSupplement, 1)}, time.Time{})
	var w world
	w.cs = cs
	found := false
	for _, d := range au.SiacoinElementDiffs() {
		if d.Created && !d.Spent && d.SiacoinElement.SiacoinOutput.Address == k.bank.addr {
			w.bank = d.SiacoinElement.Copy()
			found = true
		}
	}
	if !found {
		return w, fmt.Errorf("bank output not found in genesis diffs")
	}
	for i := 0; i < empties; i++ {
		var err error
		w, err = mine(w, nil, types.FileContractID{}, types.SiacoinOutputID{})
		if err != nil {
			return w, err
		}
	}
	return w, nil
}

// mine builds a v2 block with txns on top of w, validates it with the real
// ValidateBlock, applies it and returns the successor world. If wantFC is set,
// the contract element with that ID is taken from the diffs; if wantBank is
// set, the bank element is replaced by the created output with that ID.
func mine(w world, txns []types.V2Transaction, wantFC types.FileContractID, wantBank types.SiacoinOutputID) (world, error) {
	cs := w.cs
	fees := types.ZeroCurrency
	for _, t := range txns {
		fees = fees.Add(t.MinerFee)
	}
	b := types.Block{
		ParentID:     cs.Index.ID,
		Timestamp:    genesisTime.Add(time.Duration(cs.Index.Height+1) * cs.Network.BlockInterval),
		MinerPayouts: []types.SiacoinOutput{{Address: types.VoidAddress, Value: cs.BlockReward().Add(fees)}},
		V2:           &types.V2BlockData{Height: cs.Index.Height + 1, Transactions: txns},
	}
	b.V2.Commitment = cs.Commitment(b.MinerPayouts[0].Address, b.Transactions, b.V2Transactions())
	findNonce(cs, &b)
	if err := consensus.ValidateBlock(cs, b, consensus.V1BlockSupplement{}); err != nil {
		return w, err
	}
	ncs, au := consensus.ApplyBlock(cs, b, consensus.V1BlockSupplement{}, genesisTime)
	nw := world{cs: ncs, bank: w.bank.Copy(), fce: w.fce.Copy()}
	au.UpdateElementProof(&nw.bank.StateElement)
	if nw.fce.ID != (types.FileContractID{}) {
		au.UpdateElementProof(&nw.fce.StateElement)
	}
	for _, d := range au.V2FileContractElementDiffs() {
		switch {
		case wantFC != (types.FileContractID{}) && d.V2FileContractElement.ID == wantFC && d.Created:
			nw.fce = d.V2FileContractElement.Copy()
		case d.V2FileContractElement.ID == nw.fce.ID && d.Revision != nil && d.Resolution == nil:
			e := d.V2FileContractElement.Copy()
			e.V2FileContract = *d.Revision
			nw.fce = e
		}
	}
	if wantBank != (types.SiacoinOutputID{}) {
		ok := false
		for _, d := range au.SiacoinElementDiffs() {
			if d.SiacoinElement.ID == wantBank && d.Created && !d.Spent {
				nw.bank = d.SiacoinElement.Copy()
				ok = true
			}
		}
		if !ok {
			return w, fmt.Errorf("harness: bank change output not found after apply")
		}
	}
	if wantFC != (types.FileContractID{}) && nw.fce.ID != wantFC {
		return w, fmt.Errorf("harness: contract element %v not found after apply", wantFC)
	}
	return nw, nil
}

// signContract signs a contract (revision) with both keys.
func signContract(cs consensus.State, k keys, fc *types.V2FileContract) {
	h := cs.ContractSigHash(*fc)
	fc.RenterSignature = k.renter.sk.SignHash(h)
	fc.HostSignature = k.host.sk.SignHash(h)
}

// signRenewal signs the new contract and the renewal with both keys.
func signRenewal(cs consensus.State, k keys, r *types.V2FileContractRenewal) {
	signContract(cs, k, &r.NewContract)
	h := cs.RenewalSigHash(*r)
	r.RenterSignature = k.renter.sk.SignHash(h)
	r.HostSignature = k.host.sk.SignHash(h)
}

// signInputs signs every siacoin input of txn with the key owning its address.
func signInputs(cs consensus.State, k keys, txn *types.V2Transaction) {
	h := cs.InputSigHash(*txn)
	for i := range txn.SiacoinInputs {
		in := &txn.SiacoinInputs[i]
		var p party
		switch in.Parent.SiacoinOutput.Address {
		case k.renter.addr:
			p = k.renter
		case k.host.addr:
			p = k.host
		default:
			p = k.bank
		}
		in.SatisfiedPolicy = types.SatisfiedPolicy{Policy: p.pol, Signatures: []types.Signature{p.sk.SignHash(h)}}
	}
}

// fundingTxn spends the bank element into exactly renterAmt (to the renter) and
// hostAmt (to the host), change back to the bank. Zero amounts are omitted.
// Returns the signed transaction and the ephemeral elements (zero ID if omitted).
func fundingTxn(w world, k keys, renterAmt, hostAmt types.Currency) (txn types.V2Transaction, renterIn, hostIn types.SiacoinElement, changeID types.SiacoinOutputID, err error) {
	total, over := renterAmt.AddWithOverflow(hostAmt)
	if over || w.bank.SiacoinOutput.Value.Cmp(total) <= 0 {
		return txn, renterIn, hostIn, changeID, fmt.Errorf("harness: bank too small")
	}
	txn.SiacoinInputs = []types.V2SiacoinInput{{Parent: w.bank.Copy()}}
	ri, hi := -1, -1
	if !renterAmt.IsZero() {
		ri = len(txn.SiacoinOutputs)
		txn.SiacoinOutputs = append(txn.SiacoinOutputs, types.SiacoinOutput{Address: k.renter.addr, Value: renterAmt})
	}
	if !hostAmt.IsZero() {
		hi = len(txn.SiacoinOutputs)
		txn.SiacoinOutputs = append(txn.SiacoinOutputs, types.SiacoinOutput{Address: k.host.addr, Value: hostAmt})
	}
	ci := len(txn.SiacoinOutputs)
	txn.SiacoinOutputs = append(txn.SiacoinOutputs, types.SiacoinOutput{Address: k.bank.addr, Value: w.bank.SiacoinOutput.Value.Sub(total)})
	signInputs(w.cs, k, &txn)
	if ri >= 0 {
		renterIn = txn.EphemeralSiacoinOutput(ri)
	}
	if hi >= 0 {
		hostIn = txn.EphemeralSiacoinOutput(hi)
	}
	changeID = txn.SiacoinOutputID(txn.ID(), ci)
	return
}

func inputsOf(renterIn, hostIn types.SiacoinElement) (ins []types.V2SiacoinInput) {
	if renterIn.ID != (types.SiacoinOutputID{}) {
		ins = append(ins, types.V2SiacoinInput{Parent: renterIn})
	}
	if hostIn.ID != (types.SiacoinOutputID{}) {
		ins = append(ins, types.V2SiacoinInput{Parent: hostIn})
	}
	return
}
