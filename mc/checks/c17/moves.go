package c17

// Move alphabet. Parameters are chosen relative to the current contract so that
// every min()/comparison in the constructors is hit exactly at, one below and
// one above its boundary; the recorded move carries absolute values.

import (
	"math/big"
)

// maxCollateralFor is the largest collateral the request validation accepts
// for an allowance (collateral price x bytes the allowance pays storage for),
// capped at 2^118.
func maxCollateralFor(p refPrices, allowance *big.Int) *big.Int {
	if p.Storage.Sign() == 0 || p.Collateral.Sign() == 0 {
		return new(big.Int).Set(bigA)
	}
	// largest c with Storage*floor(c/Collateral) <= allowance
	q := quo(allowance, p.Storage)
	c := add(mul(p.Collateral, q), sub(p.Collateral, bi(1)))
	return minB(c, bigA)
}

func (ex *explorer) genMoves(n *node, depth int) []move {
	thorough := ex.sh.tier == "thorough"
	rc := refOf(n.fc)
	sectors := rc.Filesize / sectorSize
	R, M := rc.Renter, rc.Missed
	one := bi(1)
	var out []move
	seen := map[string]bool{}
	push := func(m move) {
		k := m.key()
		if seen[k] {
			return
		}
		seen[k] = true
		out = append(out, m)
	}
	dec := func(x *big.Int) string { return x.String() }

	// ---- append ----
	push(move{Kind: "append", Label: "k=0", K: 0})
	push(move{Kind: "append", Label: "k=1", K: 1, expand: true})
	push(move{Kind: "append", Label: "k=3", K: 3, expand: true})
	if thorough {
		push(move{Kind: "append", Label: "k=2", K: 2})
		push(move{Kind: "append", Label: "k=max+1", K: maxBatch + 1})
		if depth == 0 {
			push(move{Kind: "append", Label: "k=max", K: maxBatch, expand: true})
		}
	}
	// ---- free ----
	push(move{Kind: "free", Label: "k=0", K: 0})
	push(move{Kind: "free", Label: "k=1", K: 1, expand: true})
	push(move{Kind: "free", Label: "k=all", K: sectors, expand: sectors > 0})
	push(move{Kind: "free", Label: "k=all+1", K: sectors + 1})
	// ---- sector roots ----
	push(move{Kind: "roots", Label: "n=0", K: 0})
	push(move{Kind: "roots", Label: "n=1", K: 1})
	push(move{Kind: "roots", Label: "n=all", K: sectors})
	push(move{Kind: "roots", Label: "n=all+1", K: sectors + 1})
	// ---- fund accounts ----
	push(move{Kind: "fund", Label: "amount=0", Amount: "0"})
	push(move{Kind: "fund", Label: "amount=1", Amount: "1"})
	push(move{Kind: "fund", Label: "amount=renter", Amount: dec(R), expand: R.Sign() > 0})
	push(move{Kind: "fund", Label: "amount=renter+1", Amount: dec(add(R, one))})
	// ---- replenish ----
	push(move{Kind: "replenish", Label: "amount=0", Amount: "0"})
	push(move{Kind: "replenish", Label: "amount=1", Amount: "1"})
	if thorough {
		push(move{Kind: "replenish", Label: "amount=renter", Amount: dec(R)})
		push(move{Kind: "replenish", Label: "amount=renter+1", Amount: dec(add(R, one))})
	}
	// ---- PayWithContract with explicit usages ----
	usage := func(label string, parts [6]*big.Int, expand bool) {
		var u [6]string
		for i, p := range parts {
			u[i] = p.String()
		}
		push(move{Kind: "pay", Label: label, Usage: u[:], expand: expand})
	}
	z := new(big.Int)
	usage("rpc=1", [6]*big.Int{one, z, z, z, z, z}, false)
	{ // renter drained over all five cost components, all remaining collateral risked
		q := quo(R, bi(5))
		rest := sub(R, mul(q, bi(4)))
		usage("cost=renter,risked=missed", [6]*big.Int{q, q, q, q, rest, M}, R.Sign() > 0 || M.Sign() > 0)
	}
	usage("cost=renter+1", [6]*big.Int{z, z, add(R, one), z, z, z}, false)
	usage("risked=missed+1", [6]*big.Int{z, z, z, z, z, add(M, one)}, false)
	usage("cost=renter,risked=0", [6]*big.Int{z, R, z, z, z, z}, false)
	usage("cost=0,risked=missed", [6]*big.Int{z, z, z, z, z, M}, false)

	// ---- renew / refresh ----
	// prices as of the height at which the renewal would be built
	h := n.w.cs.Index.Height
	if len(n.pending) > 0 {
		h++
	}
	_, rp := ex.pricesAt(h)
	A0, C0 := ex.typA, ex.typC
	bigC := maxCollateralFor(rp, bigA)
	maxC0 := maxCollateralFor(rp, A0)
	minPH := max(h, rp.Tip) + minDuration
	H1 := max(rc.ProofHeight+1, minPH)
	H2 := H1 + 9
	ren := func(kind, label string, a, c *big.Int, ph uint64, expand bool) {
		if a.Sign() < 0 || c.Sign() < 0 {
			return
		}
		push(move{Kind: kind, Label: label, Allowance: dec(a), Collateral: dec(c), ProofHeight: ph, expand: expand})
	}
	// renew
	ren("renew", "base", A0, C0, H1, true)
	ren("renew", "base,ext+9", A0, C0, H2, thorough)
	ren("renew", "height=old", A0, C0, rc.ProofHeight, false)
	ren("renew", "A=1,C=0", one, z, H1, false)
	ren("renew", "A=renter-1", sub(R, one), C0, H1, false)
	ren("renew", "A=renter", R, C0, H1, false)
	ren("renew", "A=renter+1", add(R, one), C0, H1, false)
	ren("renew", "A=big", bigA, C0, H1, false)
	ren("renew", "C=0", A0, z, H1, false)
	ren("renew", "C=max", A0, maxC0, H1, false)
	ren("renew", "C=max+1", A0, add(maxC0, one), H1, false)
	ren("renew", "big", bigA, bigC, H1, thorough)
	{ // host rollover boundary: old total collateral == new total collateral
		risked := mul(rp.Collateral, bu(rc.Filesize), bu(H1+proofWindow-min(rp.Tip, H1+proofWindow)))
		B := sub(rc.Tot, risked)
		ren("renew", "C=rollover-1", A0, sub(B, one), H1, false)
		ren("renew", "C=rollover", A0, B, H1, false)
		ren("renew", "C=rollover+1", A0, add(B, one), H1, false)
		ren("renew", "A=renter,C=rollover,ext+9", R, sub(rc.Tot, mul(rp.Collateral, bu(rc.Filesize), bu(H2+proofWindow-min(rp.Tip, H2+proofWindow)))), H2, false)
	}
	// refresh, partial rollover
	Ab := sub(R, rp.Contract) // renter rollover boundary: renter output == allowance + contract price
	ren("refreshPartial", "base", A0, C0, 0, true)
	ren("refreshPartial", "A=1,C=0", one, z, 0, false)
	ren("refreshPartial", "A=rollover-1", sub(Ab, one), C0, 0, false)
	ren("refreshPartial", "A=rollover", Ab, C0, 0, false)
	ren("refreshPartial", "A=rollover+1", add(Ab, one), C0, 0, false)
	ren("refreshPartial", "A=big", bigA, C0, 0, false)
	ren("refreshPartial", "C=0", A0, z, 0, false)
	ren("refreshPartial", "C=missed-1", A0, sub(M, one), 0, false) // host rollover boundary: host output == new locked value
	ren("refreshPartial", "C=missed", A0, M, 0, false)
	ren("refreshPartial", "C=missed+1", A0, add(M, one), 0, false)
	ren("refreshPartial", "C=max", A0, maxC0, 0, false)
	ren("refreshPartial", "big", bigA, bigC, 0, thorough)
	// refresh, full rollover
	ren("refreshFull", "base", A0, C0, 0, true)
	ren("refreshFull", "A=1,C=0", one, z, 0, false)
	ren("refreshFull", "big", bigA, bigC, 0, false)
	ren("refreshFull", "C=0", A0, z, 0, false)
	ren("refreshFull", "A=1", one, C0, 0, false)
	ren("refreshFull", "C=max+1", A0, add(maxC0, one), 0, false)
	return out
}
