package c17

// Part B: v1-era contracts (rhp/v2, rhp/v3). The tax inversion is reached
// through the exported Prepare*/Calculate* functions only.

import (
	"crypto/sha256"
	"encoding/json"
	"fmt"
	"math/big"
	"sort"
	"time"

	"go.sia.tech/core/consensus"
	rhp2 "go.sia.tech/core/rhp/v2"
	rhp3 "go.sia.tech/core/rhp/v3"
	"go.sia.tech/core/types"
	"verifmc/vf"
)

type v1Case struct {
	Part string            `json:"part"` // "v1"
	Sub  string            `json:"sub"`  // formation-v2 | renewal-v2 | renewal-v3 | paybycontract
	P    map[string]string `json:"params"`
}

type v1World struct {
	c  *vf.Ctx
	k  keys
	cs consensus.State
	uc types.UnlockConditions // 2-of-2 contract unlock conditions
}

func newV1World(c *vf.Ctx) (*v1World, error) {
	k := newKeys(c.Seed)
	n := baseNetwork("verif-c17-v1")
	gb := types.Block{Timestamp: genesisTime}
	cs, _ := consensus.ApplyBlock(n.GenesisState(), gb, consensus.V1BlockSupplement{}, time.Time{})
	for i := 0; i < 3; i++ {
		b := types.Block{
			ParentID:     cs.Index.ID,
			Timestamp:    genesisTime.Add(time.Duration(cs.Index.Height+1) * n.BlockInterval),
			MinerPayouts: []types.SiacoinOutput{{Address: types.VoidAddress, Value: cs.BlockReward()}},
		}
		findNonce(cs, &b)
		if err := consensus.ValidateBlock(cs, b, consensus.V1BlockSupplement{}); err != nil {
			return nil, fmt.Errorf("v1 empty block rejected: %w", err)
		}
		cs, _ = consensus.ApplyBlock(cs, b, consensus.V1BlockSupplement{}, genesisTime)
	}
	if cs.Index.Height+1 < n.HardforkTax.Height {
		return nil, fmt.Errorf("v1 state is not past the tax hardfork")
	}
	uc := types.UnlockConditions{
		PublicKeys:         []types.UnlockKey{k.renter.pk.UnlockKey(), k.host.pk.UnlockKey()},
		SignaturesRequired: 2,
	}
	return &v1World{c: c, k: k, cs: cs, uc: uc}, nil
}

func (w *v1World) violate(entry, class, trigger, desc, sub string, p map[string]string) {
	w.c.Violate(entry+"|"+class+"|"+trigger, desc, v1Case{Part: "v1", Sub: sub, P: p})
}

func sumOutputs(outs []types.SiacoinOutput) *big.Int {
	s := new(big.Int)
	for _, o := range outs {
		s.Add(s, toBig(o.Value))
	}
	return s
}

// fundedContractTxn builds a signed v1 transaction creating fc, funded by one
// renter input and (if non-zero) one host input of exactly the given values.
func (w *v1World) fundedContractTxn(fc types.FileContract, renterAmt, hostAmt, minerFee types.Currency, tag string) (types.Transaction, consensus.V1TransactionSupplement) {
	var txn types.Transaction
	var ts consensus.V1TransactionSupplement
	addInput := func(p party, amt types.Currency, role string) {
		if amt.IsZero() {
			return
		}
		id := types.SiacoinOutputID(sha256.Sum256([]byte("c17/v1/" + role + "/" + tag)))
		uc := types.StandardUnlockConditions(p.pk)
		txn.SiacoinInputs = append(txn.SiacoinInputs, types.SiacoinInput{ParentID: id, UnlockConditions: uc})
		ts.SiacoinInputs = append(ts.SiacoinInputs, types.SiacoinElement{ID: id, SiacoinOutput: types.SiacoinOutput{Value: amt, Address: uc.UnlockHash()}})
	}
	addInput(w.k.renter, renterAmt, "renter")
	addInput(w.k.host, hostAmt, "host")
	txn.FileContracts = []types.FileContract{fc}
	if !minerFee.IsZero() {
		txn.MinerFees = []types.Currency{minerFee}
	}
	owner := func(in types.SiacoinInput) party {
		if in.UnlockConditions.UnlockHash() == types.StandardUnlockConditions(w.k.renter.pk).UnlockHash() {
			return w.k.renter
		}
		return w.k.host
	}
	for _, in := range txn.SiacoinInputs {
		txn.Signatures = append(txn.Signatures, types.TransactionSignature{
			ParentID: types.Hash256(in.ParentID), PublicKeyIndex: 0, CoveredFields: types.CoveredFields{WholeTransaction: true}})
	}
	for i := range txn.Signatures {
		sig := owner(txn.SiacoinInputs[i]).sk.SignHash(w.cs.WholeSigHash(txn, txn.Signatures[i].ParentID, 0, 0, nil))
		txn.Signatures[i].Signature = sig[:]
	}
	return txn, ts
}

// checkTaxEquation asserts the consensus equations on a prepared contract.
func (w *v1World) checkTaxEquation(entry, subcase string, p map[string]string, fc types.FileContract) bool {
	valid, missed, payout := sumOutputs(fc.ValidProofOutputs), sumOutputs(fc.MissedProofOutputs), toBig(fc.Payout)
	tax := v1Tax(payout)
	if toBig(w.cs.FileContractTax(fc)).Cmp(tax) != 0 {
		w.c.HarnessError("reference v1 tax %v differs from State.FileContractTax %v (payout %v)", tax, w.cs.FileContractTax(fc), payout)
		return false
	}
	if valid.Cmp(missed) != 0 {
		w.violate(entry, "valid-sum-differs-from-missed-sum", subcase, fmt.Sprintf("valid sum %v != missed sum %v", valid, missed), subcase, p)
		return false
	}
	if d := sub(payout, tax); d.Cmp(valid) != 0 {
		w.violate(entry, "payout-violates-tax-equation", subcase, fmt.Sprintf("payout %v - tax %v = %v != valid sum %v", payout, tax, d, valid), subcase, p)
		return false
	}
	return true
}

var mulLimit = quo(two128, bi(1000)) // taxAdjustedPayout multiplies the target by 1000

// formationV2 checks PrepareContractFormation for one (renterPayout, collateral, contractPrice).
func (w *v1World) formationV2(rp, coll, price *big.Int, withConsensus bool) {
	c := w.c
	c.Count("evaluations", 1)
	c.Count("v1_formations", 1)
	target := add(rp, coll, price)
	p := map[string]string{"renterPayout": rp.String(), "collateral": coll.String(), "contractPrice": price.String()}
	if target.Cmp(mulLimit) >= 0 {
		c.Count("v1_out_of_domain", 1)
		return
	}
	hs := rhp2.HostSettings{ContractPrice: fromBig(price), WindowSize: 144, Address: w.k.host.addr}
	end := w.cs.Index.Height + 50
	var fc types.FileContract
	if pv, _ := vf.Try(func() {
		fc = rhp2.PrepareContractFormation(w.k.renter.pk, w.k.host.pk, fromBig(rp), fromBig(coll), end, hs, w.k.renter.addr)
	}); pv != nil {
		w.violate("rhp/v2.PrepareContractFormation", "panic-in-domain", "formation", fmt.Sprintf("panicked: %v", pv), "formation-v2", p)
		return
	}
	if sumOutputs(fc.ValidProofOutputs).Cmp(target) != 0 {
		w.violate("rhp/v2.PrepareContractFormation", "valid-sum-not-target", "formation", fmt.Sprintf("valid sum %v != renter payout + collateral + contract price %v", sumOutputs(fc.ValidProofOutputs), target), "formation-v2", p)
		return
	}
	if !w.checkTaxEquation("rhp/v2.PrepareContractFormation", "formation-v2", p, fc) {
		return
	}
	if fc.UnlockHash != w.uc.UnlockHash() || fc.WindowStart != end || fc.WindowEnd != end+144 || fc.RevisionNumber != 0 {
		w.violate("rhp/v2.PrepareContractFormation", "contract-fields", "formation", "unlock hash / window / revision number wrong", "formation-v2", p)
		return
	}
	c.Distinct("v1form", rp, coll, price)
	if !withConsensus || fc.Payout.IsZero() {
		return
	}
	// the renter funds ContractFormationCost, the host its collateral: together exactly the payout
	var rCost types.Currency
	if pv, _ := vf.Try(func() { rCost = rhp2.ContractFormationCost(w.cs, fc, hs.ContractPrice) }); pv != nil {
		w.violate("rhp/v2.ContractFormationCost", "panic-in-domain", "formation", fmt.Sprintf("panicked: %v", pv), "formation-v2", p)
		return
	}
	if add(toBig(rCost), coll).Cmp(toBig(fc.Payout)) != 0 {
		w.violate("rhp/v2.ContractFormationCost", "unbalanced", "formation", fmt.Sprintf("renter cost %v + collateral %v != payout %v", rCost, coll, fc.Payout), "formation-v2", p)
		return
	}
	txn, ts := w.fundedContractTxn(fc, rCost, fromBig(coll), types.ZeroCurrency, target.String())
	c.Count("consensus_validations", 1)
	if err := consensus.ValidateTransaction(consensus.NewMidState(w.cs), txn, ts); err != nil {
		w.violate("rhp/v2.PrepareContractFormation", "consensus-rejects", "formation", fmt.Sprintf("ValidateTransaction: %v", err), "formation-v2", p)
		return
	}
	c.Count("consensus_accepted", 1)
	c.Count("v1_consensus_accepted", 1)
}

// controlV1 checks that consensus refuses a payout that is off.
func (w *v1World) controlV1(rp *big.Int) {
	hs := rhp2.HostSettings{WindowSize: 144, Address: w.k.host.addr}
	fc := rhp2.PrepareContractFormation(w.k.renter.pk, w.k.host.pk, fromBig(rp), types.ZeroCurrency, w.cs.Index.Height+50, hs, w.k.renter.addr)
	for _, d := range []uint64{1, 10000} {
		bad := fc
		bad.Payout = fc.Payout.Add(types.NewCurrency64(d))
		txn, ts := w.fundedContractTxn(bad, bad.Payout, types.ZeroCurrency, types.ZeroCurrency, "ctl")
		err := consensus.ValidateTransaction(consensus.NewMidState(w.cs), txn, ts)
		w.c.Count("controls_run", 1)
		if err == nil {
			w.c.HarnessError("v1 negative control (payout+%d) accepted", d)
		} else {
			w.c.Count("controls_rejected", 1)
		}
	}
}

func (w *v1World) baseRevision(filesize uint64, windowStart uint64) types.FileContractRevision {
	fc := types.FileContract{
		Filesize: filesize, FileMerkleRoot: types.Hash256{7}, WindowStart: windowStart, WindowEnd: windowStart + 144,
		UnlockHash: w.uc.UnlockHash(), RevisionNumber: 5,
		ValidProofOutputs:  []types.SiacoinOutput{{Value: types.Siacoins(1), Address: w.k.renter.addr}, {Value: types.Siacoins(2), Address: w.k.host.addr}},
		MissedProofOutputs: []types.SiacoinOutput{{Value: types.Siacoins(1), Address: w.k.renter.addr}, {Value: types.Siacoins(1), Address: w.k.host.addr}, {Value: types.Siacoins(1)}},
	}
	return types.FileContractRevision{ParentID: types.FileContractID{9}, UnlockConditions: w.uc, FileContract: fc}
}

// renewalV2 checks rhp/v2 PrepareContractRenewal / CalculateHostPayouts.
func (w *v1World) renewalV2(filesize, ext uint64, sp, cp, price, newColl, rp *big.Int) {
	c := w.c
	c.Count("evaluations", 1)
	c.Count("v1_renewals_v2", 1)
	p := map[string]string{"filesize": fmt.Sprint(filesize), "extension": fmt.Sprint(ext), "storagePrice": sp.String(), "collateral": cp.String(),
		"contractPrice": price.String(), "newCollateral": newColl.String(), "renterPayout": rp.String()}
	oldStart := w.cs.Index.Height + 20
	cur := w.baseRevision(filesize, oldStart)
	end := oldStart + ext
	basePrice := mul(sp, bu(filesize), bu(ext))
	baseColl := mul(cp, bu(filesize), bu(ext))
	hostValid := add(price, basePrice, baseColl, newColl)
	if add(rp, hostValid).Cmp(mulLimit) >= 0 {
		c.Count("v1_out_of_domain", 1)
		return
	}
	hs := rhp2.HostSettings{ContractPrice: fromBig(price), StoragePrice: fromBig(sp), Collateral: fromBig(cp), WindowSize: 144, Address: w.k.host.addr}
	var fc types.FileContract
	var gotBase types.Currency
	var hv, hm, vm, bp types.Currency
	if pv, _ := vf.Try(func() {
		fc, gotBase = rhp2.PrepareContractRenewal(cur, w.k.renter.addr, fromBig(rp), fromBig(newColl), hs, end)
		hv, hm, vm, bp = rhp2.CalculateHostPayouts(cur.FileContract, fromBig(newColl), hs, end)
	}); pv != nil {
		w.violate("rhp/v2.PrepareContractRenewal", "panic-in-domain", "renewal", fmt.Sprintf("panicked: %v", pv), "renewal-v2", p)
		return
	}
	bad := func(class, desc string) {
		w.violate("rhp/v2.PrepareContractRenewal", class, "renewal", desc, "renewal-v2", p)
	}
	switch {
	case toBig(hv).Cmp(hostValid) != 0 || toBig(vm).Cmp(add(basePrice, baseColl)) != 0 || toBig(bp).Cmp(basePrice) != 0 || toBig(gotBase).Cmp(basePrice) != 0:
		bad("host-payouts-differ-from-reference", fmt.Sprintf("valid %v void %v base %v, reference %v %v %v", hv, vm, bp, hostValid, add(basePrice, baseColl), basePrice))
		return
	case add(toBig(hm), toBig(vm)).Cmp(toBig(hv)) != 0:
		bad("missed-plus-void-not-valid", fmt.Sprintf("host missed %v + void %v != host valid %v", hm, vm, hv))
		return
	case len(fc.ValidProofOutputs) != 2 || len(fc.MissedProofOutputs) != 3 ||
		fc.ValidProofOutputs[0].Value != fromBig(rp) || fc.ValidProofOutputs[1].Value != hv ||
		fc.MissedProofOutputs[0].Value != fromBig(rp) || fc.MissedProofOutputs[1].Value != hm || fc.MissedProofOutputs[2].Value != vm:
		bad("outputs-not-the-calculated-payouts", "contract outputs differ from CalculateHostPayouts")
		return
	case fc.Filesize != filesize || fc.FileMerkleRoot != cur.FileContract.FileMerkleRoot || fc.WindowStart != end || fc.WindowEnd != end+144 || fc.UnlockHash != cur.FileContract.UnlockHash || fc.RevisionNumber != 0:
		bad("contract-fields", "filesize/root/window/unlock hash/revision number wrong")
		return
	}
	if !w.checkTaxEquation("rhp/v2.PrepareContractRenewal", "renewal-v2", p, fc) {
		return
	}
	c.Distinct("v1ren2", filesize, ext, sp, cp, price, newColl, rp)
	fee := types.NewCurrency64(3)
	var rCost types.Currency
	if pv, _ := vf.Try(func() { rCost = rhp2.ContractRenewalCost(w.cs, fc, hs.ContractPrice, fee, gotBase) }); pv != nil {
		bad("cost-panic-in-domain", fmt.Sprintf("ContractRenewalCost panicked: %v", pv))
		return
	}
	hostAmt := sub(add(toBig(fc.Payout), toBig(fee)), toBig(rCost))
	if hostAmt.Cmp(add(baseColl, newColl)) != 0 {
		w.violate("rhp/v2.ContractRenewalCost", "unbalanced", "renewal", fmt.Sprintf("payout+fee-renter cost = %v, host collateral contribution %v", hostAmt, add(baseColl, newColl)), "renewal-v2", p)
		return
	}
	txn, ts := w.fundedContractTxn(fc, rCost, fromBig(hostAmt), fee, "ren2")
	c.Count("consensus_validations", 1)
	if err := consensus.ValidateTransaction(consensus.NewMidState(w.cs), txn, ts); err != nil {
		bad("consensus-rejects", fmt.Sprintf("ValidateTransaction: %v", err))
		return
	}
	c.Count("consensus_accepted", 1)
	c.Count("v1_consensus_accepted", 1)
}

// renewalV3 checks rhp/v3 PrepareContractRenewal / CalculateHostPayouts / RenewalCosts.
func (w *v1World) renewalV3(filesize, ext uint64, ws, cc, price, renewCost, maxColl, minNew, rp *big.Int, expNew uint64, withConsensus bool) {
	c := w.c
	c.Count("evaluations", 1)
	c.Count("v1_renewals_v3", 1)
	p := map[string]string{"filesize": fmt.Sprint(filesize), "extension": fmt.Sprint(ext), "writeStoreCost": ws.String(), "collateralCost": cc.String(),
		"contractPrice": price.String(), "renewContractCost": renewCost.String(), "maxCollateral": maxColl.String(), "minNewCollateral": minNew.String(),
		"renterPayout": rp.String(), "expectedNewStorage": fmt.Sprint(expNew)}
	oldStart := w.cs.Index.Height + 20
	cur := w.baseRevision(filesize, oldStart)
	end := oldStart + ext
	hostHeight := w.cs.Index.Height
	pt := rhp3.HostPriceTable{ContractPrice: fromBig(price), RenewContractCost: fromBig(renewCost), WriteStoreCost: fromBig(ws), CollateralCost: fromBig(cc),
		MaxCollateral: fromBig(maxColl), WindowSize: 144, HostBlockHeight: hostHeight}
	// reference: storage and collateral of the existing data for the extension; collateral for the
	// expected new data over the whole duration; total collateral capped at MaxCollateral (existing data first)
	basePrice := add(renewCost, mul(ws, bu(filesize), bu(ext)))
	baseColl := minB(mul(cc, bu(filesize), bu(ext)), maxColl)
	newColl := minB(mul(cc, bu(expNew), bu(end+144-hostHeight)), sub(maxColl, baseColl))
	wantErr := newColl.Cmp(minNew) < 0
	hostValid := add(price, basePrice, baseColl, newColl)
	if add(rp, hostValid).Cmp(mulLimit) >= 0 {
		c.Count("v1_out_of_domain", 1)
		return
	}
	var fc types.FileContract
	var gotBase types.Currency
	var err error
	if pv, _ := vf.Try(func() {
		fc, gotBase, err = rhp3.PrepareContractRenewal(cur, w.k.host.addr, w.k.renter.addr, fromBig(rp), fromBig(minNew), pt, expNew, end)
	}); pv != nil {
		w.violate("rhp/v3.PrepareContractRenewal", "panic-in-domain", "renewal", fmt.Sprintf("panicked: %v", pv), "renewal-v3", p)
		return
	}
	bad := func(class, desc string) {
		w.violate("rhp/v3.PrepareContractRenewal", class, "renewal", desc, "renewal-v3", p)
	}
	if (err != nil) != wantErr {
		bad("error-verdict-differs-from-reference", fmt.Sprintf("err=%v, reference expects error=%v (new collateral %v, minimum %v)", err, wantErr, newColl, minNew))
		return
	}
	if err != nil {
		c.Count("v1_renewal_v3_refused", 1)
		return
	}
	void := add(basePrice, baseColl)
	switch {
	case len(fc.ValidProofOutputs) != 2 || len(fc.MissedProofOutputs) != 3:
		bad("output-count", "unexpected number of outputs")
		return
	case toBig(fc.ValidProofOutputs[0].Value).Cmp(rp) != 0 || toBig(fc.MissedProofOutputs[0].Value).Cmp(rp) != 0:
		bad("renter-payout", "renter outputs differ from the requested payout")
		return
	case toBig(fc.ValidProofOutputs[1].Value).Cmp(hostValid) != 0 || toBig(fc.MissedProofOutputs[2].Value).Cmp(void) != 0 || toBig(gotBase).Cmp(basePrice) != 0:
		bad("host-payouts-differ-from-reference", fmt.Sprintf("host valid %v void %v base %v, reference %v %v %v", fc.ValidProofOutputs[1].Value, fc.MissedProofOutputs[2].Value, gotBase, hostValid, void, basePrice))
		return
	case add(toBig(fc.MissedProofOutputs[1].Value), void).Cmp(hostValid) != 0:
		bad("missed-plus-void-not-valid", "host missed + void != host valid")
		return
	case fc.Filesize != filesize || fc.WindowStart != end || fc.WindowEnd != end+144 || fc.UnlockHash != cur.FileContract.UnlockHash || fc.RevisionNumber != 0:
		bad("contract-fields", "filesize/window/unlock hash/revision number wrong")
		return
	}
	if !w.checkTaxEquation("rhp/v3.PrepareContractRenewal", "renewal-v3", p, fc) {
		return
	}
	c.Distinct("v1ren3", filesize, ext, ws, cc, price, renewCost, maxColl, minNew, rp, expNew)
	if !withConsensus || fc.Payout.IsZero() {
		return
	}
	fee := types.NewCurrency64(3)
	var rCost types.Currency
	if pv, _ := vf.Try(func() { rCost = rhp3.ContractRenewalCost(w.cs, pt, fc, fee, gotBase) }); pv != nil {
		bad("cost-panic-in-domain", fmt.Sprintf("ContractRenewalCost panicked: %v", pv))
		return
	}
	hostAmt := sub(add(toBig(fc.Payout), toBig(fee)), toBig(rCost))
	if hostAmt.Cmp(add(baseColl, newColl)) != 0 {
		w.violate("rhp/v3.ContractRenewalCost", "unbalanced", "renewal", fmt.Sprintf("payout+fee-renter cost = %v, host collateral contribution %v", hostAmt, add(baseColl, newColl)), "renewal-v3", p)
		return
	}
	txn, ts := w.fundedContractTxn(fc, rCost, fromBig(hostAmt), fee, "ren3")
	c.Count("consensus_validations", 1)
	if err := consensus.ValidateTransaction(consensus.NewMidState(w.cs), txn, ts); err != nil {
		bad("consensus-rejects", fmt.Sprintf("ValidateTransaction: %v", err))
		return
	}
	c.Count("consensus_accepted", 1)
	c.Count("v1_consensus_accepted", 1)
}

func cloneRev(r types.FileContractRevision) types.FileContractRevision {
	c := r
	c.FileContract.ValidProofOutputs = append([]types.SiacoinOutput(nil), r.FileContract.ValidProofOutputs...)
	c.FileContract.MissedProofOutputs = append([]types.SiacoinOutput(nil), r.FileContract.MissedProofOutputs...)
	c.UnlockConditions.PublicKeys = append([]types.UnlockKey(nil), r.UnlockConditions.PublicKeys...)
	return c
}

func revEqual(a, b types.FileContractRevision) bool {
	ja, _ := json.Marshal(a)
	jb, _ := json.Marshal(b)
	return string(ja) == string(jb) && a.FileContract.Payout == b.FileContract.Payout
}

func (w *v1World) signRevisionTxn(rev types.FileContractRevision) types.Transaction {
	txn := types.Transaction{FileContractRevisions: []types.FileContractRevision{rev}}
	for i := uint64(0); i < 2; i++ {
		txn.Signatures = append(txn.Signatures, types.TransactionSignature{ParentID: types.Hash256(rev.ParentID), PublicKeyIndex: i, CoveredFields: types.CoveredFields{WholeTransaction: true}})
	}
	for i, p := range []party{w.k.renter, w.k.host} {
		sig := p.sk.SignHash(w.cs.WholeSigHash(txn, txn.Signatures[i].ParentID, uint64(i), 0, nil))
		txn.Signatures[i].Signature = sig[:]
	}
	return txn
}

// payByContract runs a sequence of PayByContract calls on a contract with the
// given renter valid/missed payouts.
func (w *v1World) payByContract(validR, missedR *big.Int, amounts []*big.Int) {
	c := w.c
	hostV := parseBig("2000000000000000000000000")
	total := add(validR, hostV)
	if missedR.Cmp(total) > 0 {
		return
	}
	fc := types.FileContract{
		Filesize: sectorSize, FileMerkleRoot: types.Hash256{3}, WindowStart: w.cs.Index.Height + 30, WindowEnd: w.cs.Index.Height + 174,
		Payout: types.Siacoins(9), UnlockHash: w.uc.UnlockHash(), RevisionNumber: 1,
		ValidProofOutputs:  []types.SiacoinOutput{{Value: fromBig(validR), Address: w.k.renter.addr}, {Value: fromBig(hostV), Address: w.k.host.addr}},
		MissedProofOutputs: []types.SiacoinOutput{{Value: fromBig(missedR), Address: w.k.renter.addr}, {Value: fromBig(quo(sub(total, missedR), bi(2))), Address: w.k.host.addr}, {Value: fromBig(sub(sub(total, missedR), quo(sub(total, missedR), bi(2))))}},
	}
	parent := types.FileContractElement{ID: types.FileContractID{0xC1, 0x7}, FileContract: fc}
	ts := consensus.V1TransactionSupplement{RevisedFileContracts: []types.FileContractElement{parent}}
	ms := consensus.NewMidState(w.cs)
	rev := types.FileContractRevision{ParentID: parent.ID, UnlockConditions: w.uc, FileContract: fc}
	rev.FileContract.ValidProofOutputs = append([]types.SiacoinOutput(nil), fc.ValidProofOutputs...)
	rev.FileContract.MissedProofOutputs = append([]types.SiacoinOutput(nil), fc.MissedProofOutputs...)
	p := map[string]string{"validRenter": validR.String(), "missedRenter": missedR.String()}
	for i, a := range amounts {
		p[fmt.Sprintf("amount%d", i)] = a.String()
	}
	bad := func(class, desc string) {
		w.violate("rhp/v3.PayByContract", class, "payment", desc, "paybycontract", p)
	}
	for _, amt := range amounts {
		c.Count("evaluations", 1)
		c.Count("v1_paybycontract", 1)
		pre := cloneRev(rev)
		vr, mr := toBig(rev.FileContract.ValidProofOutputs[0].Value), toBig(rev.FileContract.MissedProofOutputs[0].Value)
		wantOK := amt.Cmp(vr) <= 0 && amt.Cmp(mr) <= 0
		var req rhp3.PayByContractRequest
		var ok bool
		if pv, _ := vf.Try(func() { req, ok = rhp3.PayByContract(&rev, fromBig(amt), rhp3.Account(w.k.renter.pk), w.k.renter.sk) }); pv != nil {
			bad("panic-in-domain", fmt.Sprintf("panicked: %v", pv))
			return
		}
		c.Distinct("v1pay", validR, missedR, vr, mr, amt)
		if ok != wantOK {
			bad("verdict-differs-from-reference", fmt.Sprintf("ok=%v, reference %v (amount %v, valid %v, missed %v)", ok, wantOK, amt, vr, mr))
			return
		}
		if !ok {
			c.Count("v1_paybycontract_refused", 1)
			if !revEqual(rev, pre) {
				bad("revision-modified-on-failure", "PayByContract refused the payment but modified the revision")
				return
			}
			continue
		}
		c.Count("v1_paybycontract_ok", 1)
		f, g := rev.FileContract, pre.FileContract
		switch {
		case len(f.ValidProofOutputs) != len(g.ValidProofOutputs) || len(f.MissedProofOutputs) != len(g.MissedProofOutputs):
			bad("output-count-changed", "number of outputs changed")
			return
		case sumOutputs(f.ValidProofOutputs).Cmp(sumOutputs(g.ValidProofOutputs)) != 0:
			bad("valid-sum-changed", "valid payout sum changed")
			return
		case sumOutputs(f.MissedProofOutputs).Cmp(sumOutputs(g.MissedProofOutputs)) != 0:
			bad("missed-sum-changed", "missed payout sum changed")
			return
		case toBig(f.ValidProofOutputs[0].Value).Cmp(sub(vr, amt)) != 0 || toBig(f.MissedProofOutputs[0].Value).Cmp(sub(mr, amt)) != 0:
			bad("renter-not-charged-amount", "renter outputs not reduced by the amount")
			return
		case toBig(f.ValidProofOutputs[1].Value).Cmp(add(toBig(g.ValidProofOutputs[1].Value), amt)) != 0 ||
			toBig(f.MissedProofOutputs[1].Value).Cmp(add(toBig(g.MissedProofOutputs[1].Value), amt)) != 0:
			bad("host-not-credited-amount", "host outputs not increased by the amount")
			return
		case f.MissedProofOutputs[2] != g.MissedProofOutputs[2]:
			bad("void-output-changed", "void output changed")
			return
		case f.RevisionNumber != g.RevisionNumber+1:
			bad("revision-number", "revision number not incremented by one")
			return
		case f.Filesize != g.Filesize || f.FileMerkleRoot != g.FileMerkleRoot || f.WindowStart != g.WindowStart || f.WindowEnd != g.WindowEnd || f.UnlockHash != g.UnlockHash || rev.ParentID != pre.ParentID:
			bad("other-fields-changed", "payment changed unrelated fields")
			return
		case req.RevisionNumber != f.RevisionNumber || req.ContractID != rev.ParentID || len(req.ValidProofValues) != len(f.ValidProofOutputs) || len(req.MissedProofValues) != len(f.MissedProofOutputs):
			bad("request-does-not-describe-revision", "request fields differ from the revision")
			return
		}
		for i := range f.ValidProofOutputs {
			if req.ValidProofValues[i] != f.ValidProofOutputs[i].Value {
				bad("request-does-not-describe-revision", "request valid values differ")
				return
			}
		}
		for i := range f.MissedProofOutputs {
			if req.MissedProofValues[i] != f.MissedProofOutputs[i].Value {
				bad("request-does-not-describe-revision", "request missed values differ")
				return
			}
		}
		if !w.k.renter.pk.VerifyHash(req.SigHash(rev), req.Signature) {
			bad("request-signature", "request signature does not verify")
			return
		}
		txn := w.signRevisionTxn(cloneRev(rev))
		c.Count("consensus_validations", 1)
		if err := consensus.ValidateTransaction(ms, txn, ts); err != nil {
			bad("consensus-rejects", fmt.Sprintf("ValidateTransaction rejected the payment revision: %v", err))
			return
		}
		c.Count("consensus_accepted", 1)
		c.Count("v1_consensus_accepted", 1)
		if c.Get("v1_pay_controls") < 8 {
			c.Count("v1_pay_controls", 1)
			b := cloneRev(rev)
			b.FileContract.ValidProofOutputs[1].Value = b.FileContract.ValidProofOutputs[1].Value.Add(types.NewCurrency64(1))
			err := consensus.ValidateTransaction(ms, w.signRevisionTxn(b), ts)
			c.Count("controls_run", 1)
			if err == nil {
				c.HarnessError("v1 revision control (valid sum + 1) accepted")
			} else {
				c.Count("controls_rejected", 1)
			}
		}
		ms.ApplyTransaction(txn, ts)
	}
}

// v1Targets is the boundary set of payout targets below 2^120.
func v1Targets() []*big.Int {
	set := map[string]*big.Int{}
	put := func(b *big.Int) {
		if b.Sign() >= 0 && b.BitLen() <= 120 {
			set[b.String()] = b
		}
	}
	pm := func(b *big.Int, r int64) {
		for d := -r; d <= r; d++ {
			put(add(b, bi(d)))
		}
	}
	for k := uint(17); k < 120; k++ {
		pm(new(big.Int).Lsh(big.NewInt(1), k), 1)
	}
	ms := []*big.Int{}
	for i := int64(20); i <= 60; i++ {
		ms = append(ms, bi(i))
	}
	for e := 3; e <= 30; e += 3 {
		ms = append(ms, new(big.Int).Exp(bi(10), bi(int64(e)), nil))
		ms = append(ms, add(new(big.Int).Exp(bi(10), bi(int64(e)), nil), bi(7)))
	}
	for _, m := range ms {
		pm(mul(m, bi(10000)), 1)                         // multiples of the siafund count
		pm(mul(m, bi(961)), 1)                           // multiples of 961: the guess is exact
		pm(quo(mul(m, bi(10000), bi(961)), bi(1000)), 2) // guess lands next to a multiple of 10000
		pm(quo(mul(m, bi(10000000)), bi(39)), 2)         // tax steps to the next multiple of 10000
		pm(quo(mul(m, bi(10000000), bi(961)), bi(39000)), 2)
	}
	// largest targets for which target*1000 still fits in 128 bits, and the first that do not
	pm(mulLimit, 2)
	out := make([]*big.Int, 0, len(set))
	for _, b := range set {
		out = append(out, b)
	}
	sort.Slice(out, func(i, j int) bool { return out[i].Cmp(out[j]) < 0 })
	return out
}

func runV1(c *vf.Ctx) {
	w, err := newV1World(c)
	if err != nil {
		c.HarnessError("%v", err)
		return
	}
	const dense = 200000
	zero := new(big.Int)
	// dense range, rhp/v2 formation (all with consensus) and rhp/v3 renewal (consensus on every 16th)
	const chunk = 1000
	vf.ParallelFor(dense/chunk+1, func(ci int) {
		for t := ci * chunk; t < (ci+1)*chunk && t <= dense; t++ {
			if c.Expired() {
				return
			}
			tb := bi(int64(t))
			w.formationV2(tb, zero, zero, true)
			w.renewalV3(0, 0, zero, zero, zero, zero, zero, zero, tb, 0, t%16 == 0)
		}
	})
	c.Set("v1_dense_targets", dense+1)
	// boundary set: three splits of the target over renter payout / collateral / contract price
	targets := v1Targets()
	c.Set("v1_boundary_targets", len(targets))
	vf.ParallelFor(len(targets), func(i int) {
		t := targets[i]
		w.formationV2(t, zero, zero, true)
		third := quo(t, bi(3))
		w.formationV2(third, third, sub(t, mul(third, bi(2))), true)
		w.formationV2(zero, t, zero, true)
		w.renewalV3(0, 0, zero, zero, zero, zero, zero, zero, t, 0, true)
		w.renewalV3(0, 0, zero, zero, third, sub(t, mul(third, bi(2))), zero, zero, third, 0, true)
	})
	w.controlV1(bi(123456789))
	w.controlV1(parseBig("5000000000000000000000000"))

	// renewal grids
	typ := func(s string) *big.Int { return parseBig(s) }
	lvl := []*big.Int{zero, bi(1), typ("23148148149")}
	prices := []*big.Int{zero, typ("200000000000000000000003")}
	colls := []*big.Int{zero, bi(1), typ("20000000000000000000000001")}
	payouts := []*big.Int{bi(1), typ("10000000000000000000000007")}
	type rcase struct {
		fs, ext                 uint64
		sp, cp, price, coll, rp *big.Int
	}
	var rcases []rcase
	for _, fs := range []uint64{0, sectorSize, 10 * sectorSize} {
		for _, ext := range []uint64{0, 1, 1000} {
			for _, sp := range lvl {
				for _, cp := range lvl {
					for _, pr := range prices {
						for _, nc := range colls {
							for _, rp := range payouts {
								rcases = append(rcases, rcase{fs, ext, sp, cp, pr, nc, rp})
							}
						}
					}
				}
			}
		}
	}
	c.Set("v1_renewal_grid", len(rcases))
	maxes := []*big.Int{zero, bi(1000), typ("1000000000000000000000000000")}
	vf.ParallelFor(len(rcases), func(i int) {
		r := rcases[i]
		w.renewalV2(r.fs, r.ext, r.sp, r.cp, r.price, r.coll, r.rp)
		for _, mx := range maxes {
			for _, expNew := range []uint64{0, sectorSize} {
				for _, rcost := range []*big.Int{zero, typ("100000000000000000000001")} {
					// r.coll doubles as the minimum new collateral demanded by the renter
					w.renewalV3(r.fs, r.ext, r.sp, r.cp, r.price, rcost, mx, r.coll, r.rp, expNew, true)
				}
			}
		}
	})

	// PayByContract: sequences of length <= 2 over boundary amounts
	R := typ("1000000000000000000000007")
	for _, vr := range []*big.Int{zero, bi(1), bi(10), R} {
		for _, mr := range []*big.Int{zero, vr, sub(vr, bi(3)), add(vr, bi(3))} {
			if mr.Sign() < 0 {
				continue
			}
			lim := minB(vr, mr)
			cand := []*big.Int{zero, bi(1), sub(lim, bi(1)), lim, add(lim, bi(1)), quo(lim, bi(2)), vr, mr}
			var amts []*big.Int
			seen := map[string]bool{}
			for _, a := range cand {
				if a.Sign() >= 0 && !seen[a.String()] {
					seen[a.String()] = true
					amts = append(amts, a)
				}
			}
			for _, a := range amts {
				w.payByContract(vr, mr, []*big.Int{a})
				for _, b := range amts {
					w.payByContract(vr, mr, []*big.Int{a, b})
				}
			}
		}
	}
	c.Sample(v1Case{Part: "v1", Sub: "formation-v2", P: map[string]string{"renterPayout": "87654321", "collateral": "0", "contractPrice": "0"}})
	c.Sample(v1Case{Part: "v1", Sub: "formation-v2", P: map[string]string{"renterPayout": targets[len(targets)/2].String(), "collateral": "0", "contractPrice": "0"}})
	if !c.Expired() {
		c.RequireFeature("v1_formations", "v1_renewals_v2", "v1_renewals_v3", "v1_paybycontract_ok", "v1_paybycontract_refused",
			"v1_consensus_accepted", "v1_renewal_v3_refused", "v1_out_of_domain")
	}
}

func replayV1(c *vf.Ctx, raw json.RawMessage) {
	var cs v1Case
	if err := json.Unmarshal(raw, &cs); err != nil {
		c.HarnessError("bad v1 case: %v", err)
		return
	}
	w, err := newV1World(c)
	if err != nil {
		c.HarnessError("%v", err)
		return
	}
	g := func(k string) *big.Int {
		if s, ok := cs.P[k]; ok {
			return parseBig(s)
		}
		return new(big.Int)
	}
	switch cs.Sub {
	case "formation-v2":
		w.formationV2(g("renterPayout"), g("collateral"), g("contractPrice"), true)
	case "renewal-v2":
		w.renewalV2(g("filesize").Uint64(), g("extension").Uint64(), g("storagePrice"), g("collateral"), g("contractPrice"), g("newCollateral"), g("renterPayout"))
	case "renewal-v3":
		w.renewalV3(g("filesize").Uint64(), g("extension").Uint64(), g("writeStoreCost"), g("collateralCost"), g("contractPrice"), g("renewContractCost"),
			g("maxCollateral"), g("minNewCollateral"), g("renterPayout"), g("expectedNewStorage").Uint64(), true)
	case "paybycontract":
		var amts []*big.Int
		for i := 0; ; i++ {
			s, ok := cs.P[fmt.Sprintf("amount%d", i)]
			if !ok {
				break
			}
			amts = append(amts, parseBig(s))
		}
		w.payByContract(g("validRenter"), g("missedRenter"), amts)
	default:
		c.HarnessError("unknown v1 sub-case %q", cs.Sub)
	}
}
