// Package c15: Currency arithmetic is exact 128-bit arithmetic with faithful
// overflow reporting; text forms round-trip. Bounded exhaustive enumeration of
// all ordered pairs of a boundary set against math/big.
package c15

import (
	"encoding/json"
	"fmt"
	"math/big"
	"math/bits"
	"sort"
	"strings"

	"go.sia.tech/core/types"
	"verifmc/vf"
)

func init() {
	vf.Register(&vf.Check{ID: "C15", Level: "exploration", Run: run, Replay: replay})
}

var two128 = new(big.Int).Lsh(big.NewInt(1), 128)
var two64 = new(big.Int).Lsh(big.NewInt(1), 64)

func fromBig(b *big.Int) types.Currency {
	lo := new(big.Int).And(b, new(big.Int).Sub(two64, big.NewInt(1))).Uint64()
	hi := new(big.Int).Rsh(b, 64).Uint64()
	return types.NewCurrency(lo, hi)
}

func toBig(c types.Currency) *big.Int {
	r := new(big.Int).SetUint64(c.Hi)
	r.Lsh(r, 64)
	return r.Add(r, new(big.Int).SetUint64(c.Lo))
}

// boundary builds the boundary set B of DESIGN C15.
func boundary(thorough bool) []types.Currency {
	set := map[types.Currency]bool{}
	add := func(b *big.Int) {
		if b.Sign() >= 0 && b.Cmp(two128) < 0 {
			set[fromBig(b)] = true
		}
	}
	for i := int64(0); i < 4; i++ {
		add(big.NewInt(i))
	}
	ks := []uint{31, 32, 33, 63, 64, 65, 95, 96, 127}
	if thorough {
		ks = nil
		for k := uint(1); k < 128; k++ {
			ks = append(ks, k)
		}
	}
	for _, k := range ks {
		p := new(big.Int).Lsh(big.NewInt(1), k)
		add(new(big.Int).Sub(p, big.NewInt(1)))
		add(p)
		add(new(big.Int).Add(p, big.NewInt(1)))
	}
	for j := int64(1); j <= 3; j++ {
		add(new(big.Int).Sub(two128, big.NewInt(j)))
	}
	xs := []uint64{1, 1 << 32, 1 << 63, ^uint64(0)}
	for _, x := range xs {
		set[types.NewCurrency(x, 0)] = true
		set[types.NewCurrency(0, x)] = true
		set[types.NewCurrency(x, x)] = true
		set[types.NewCurrency(x, ^uint64(0))] = true
		set[types.NewCurrency(^uint64(0), x)] = true
	}
	// divisors with every leading-zero count of the high word, and q*v, q*v±1
	step := 8
	if thorough {
		step = 1
	}
	for lz := 0; lz < 64; lz += step {
		hi := uint64(1)<<(63-lz) | uint64(0x9E3779B97F4A7C15)>>(lz+1)
		if lz == 63 {
			hi = 1
		}
		for _, lo := range []uint64{0, 1, ^uint64(0), 0xDEADBEEFCAFEF00D} {
			v := types.NewCurrency(lo, hi)
			set[v] = true
			vb := toBig(v)
			for _, q := range []int64{1, 2, 3, 1 << 20} {
				p := new(big.Int).Mul(vb, big.NewInt(q))
				add(p)
				add(new(big.Int).Sub(p, big.NewInt(1)))
				add(new(big.Int).Add(p, big.NewInt(1)))
			}
		}
	}
	// siacoin units
	for e := 0; e <= 38; e += 3 {
		p := new(big.Int).Exp(big.NewInt(10), big.NewInt(int64(e)), nil)
		add(p)
		add(new(big.Int).Sub(p, big.NewInt(1)))
		add(new(big.Int).Add(p, big.NewInt(1)))
		add(new(big.Int).Mul(p, big.NewInt(123)))
	}
	out := make([]types.Currency, 0, len(set))
	for c := range set {
		out = append(out, c)
	}
	sort.Slice(out, func(i, j int) bool { return out[i].Cmp(out[j]) < 0 })
	return out
}

type opCase struct {
	Op   string `json:"op"`
	ALo  uint64 `json:"a_lo"`
	AHi  uint64 `json:"a_hi"`
	BLo  uint64 `json:"b_lo"`
	BHi  uint64 `json:"b_hi"`
	Text string `json:"text,omitempty"`
}

var binOps = []string{"Add", "Sub", "Mul", "Div", "Cmp", "Mul64", "Div64"}

// evalOp checks one operation on one pair; returns a description of the
// disagreement or "".
func evalOp(op string, a, b types.Currency) string {
	A, B := toBig(a), toBig(b)
	catch := func(fn func() types.Currency) (r types.Currency, panicked bool) {
		defer func() {
			if recover() != nil {
				panicked = true
			}
		}()
		return fn(), false
	}
	switch op {
	case "Add":
		want := new(big.Int).Add(A, B)
		over := want.Cmp(two128) >= 0
		got, gotOver := a.AddWithOverflow(b)
		if gotOver != over {
			return fmt.Sprintf("AddWithOverflow flag=%v want %v", gotOver, over)
		}
		if !over && toBig(got).Cmp(want) != 0 {
			return fmt.Sprintf("AddWithOverflow=%v want %v", toBig(got), want)
		}
		r, p := catch(func() types.Currency { return a.Add(b) })
		if p != over {
			return fmt.Sprintf("Add panicked=%v want %v", p, over)
		}
		if !over && toBig(r).Cmp(want) != 0 {
			return fmt.Sprintf("Add=%v want %v", toBig(r), want)
		}
	case "Sub":
		want := new(big.Int).Sub(A, B)
		under := want.Sign() < 0
		got, gotUnder := a.SubWithUnderflow(b)
		if gotUnder != under {
			return fmt.Sprintf("SubWithUnderflow flag=%v want %v", gotUnder, under)
		}
		if !under && toBig(got).Cmp(want) != 0 {
			return fmt.Sprintf("SubWithUnderflow=%v want %v", toBig(got), want)
		}
		r, p := catch(func() types.Currency { return a.Sub(b) })
		if p != under {
			return fmt.Sprintf("Sub panicked=%v want %v", p, under)
		}
		if !under && toBig(r).Cmp(want) != 0 {
			return fmt.Sprintf("Sub=%v want %v", toBig(r), want)
		}
	case "Mul":
		want := new(big.Int).Mul(A, B)
		over := want.Cmp(two128) >= 0
		got, gotOver := a.MulWithOverflow(b)
		if gotOver != over {
			return fmt.Sprintf("MulWithOverflow flag=%v want %v", gotOver, over)
		}
		if !over && toBig(got).Cmp(want) != 0 {
			return fmt.Sprintf("MulWithOverflow=%v want %v", toBig(got), want)
		}
		r, p := catch(func() types.Currency { return a.Mul(b) })
		if p != over {
			return fmt.Sprintf("Mul panicked=%v want %v", p, over)
		}
		if !over && toBig(r).Cmp(want) != 0 {
			return fmt.Sprintf("Mul=%v want %v", toBig(r), want)
		}
	case "Mul64":
		v := b.Lo
		want := new(big.Int).Mul(A, new(big.Int).SetUint64(v))
		over := want.Cmp(two128) >= 0
		got, gotOver := a.Mul64WithOverflow(v)
		if gotOver != over {
			return fmt.Sprintf("Mul64WithOverflow flag=%v want %v", gotOver, over)
		}
		if !over && toBig(got).Cmp(want) != 0 {
			return fmt.Sprintf("Mul64WithOverflow=%v want %v", toBig(got), want)
		}
		r, p := catch(func() types.Currency { return a.Mul64(v) })
		if p != over {
			return fmt.Sprintf("Mul64 panicked=%v want %v", p, over)
		}
		if !over && toBig(r).Cmp(want) != 0 {
			return fmt.Sprintf("Mul64=%v want %v", toBig(r), want)
		}
	case "Div":
		r, p := catch(func() types.Currency { return a.Div(b) })
		if B.Sign() == 0 {
			if !p {
				return "Div by zero did not panic"
			}
			return ""
		}
		if p {
			return "Div panicked on non-zero divisor"
		}
		if want := new(big.Int).Quo(A, B); toBig(r).Cmp(want) != 0 {
			return fmt.Sprintf("Div=%v want %v", toBig(r), want)
		}
	case "Div64":
		v := b.Lo
		r, p := catch(func() types.Currency { return a.Div64(v) })
		if v == 0 {
			if !p {
				return "Div64 by zero did not panic"
			}
			return ""
		}
		if p {
			return "Div64 panicked on non-zero divisor"
		}
		if want := new(big.Int).Quo(A, new(big.Int).SetUint64(v)); toBig(r).Cmp(want) != 0 {
			return fmt.Sprintf("Div64=%v want %v", toBig(r), want)
		}
	case "Cmp":
		if got, want := a.Cmp(b), A.Cmp(B); got != want {
			return fmt.Sprintf("Cmp=%d want %d", got, want)
		}
		if a.Equals(b) != (A.Cmp(B) == 0) {
			return "Equals disagrees with integer equality"
		}
		if a.IsZero() != (A.Sign() == 0) {
			return "IsZero wrong"
		}
	}
	return ""
}

// evalText checks every text form of one value.
func evalText(a types.Currency) (string, string) {
	A := toBig(a)
	forms := map[string]string{
		"ExactString": a.ExactString(),
		"String":      a.String(),
		"%d":          fmt.Sprintf("%d", a),
		"%s":          fmt.Sprintf("%s", a),
		"%v":          fmt.Sprintf("%v", a),
	}
	if mt, err := a.MarshalText(); err != nil {
		return "MarshalText", "MarshalText error: " + err.Error()
	} else {
		forms["MarshalText"] = string(mt)
	}
	if forms["ExactString"] != A.String() || forms["%d"] != A.String() || forms["MarshalText"] != A.String() {
		return "exact", fmt.Sprintf("exact forms %q %q %q differ from %s", forms["ExactString"], forms["%d"], forms["MarshalText"], A)
	}
	names := make([]string, 0, len(forms))
	for n := range forms {
		names = append(names, n)
	}
	sort.Strings(names)
	for _, n := range names {
		s := forms[n]
		got, err := types.ParseCurrency(s)
		if err != nil {
			return n, fmt.Sprintf("ParseCurrency(%s form %q) error: %v", n, s, err)
		}
		if got != a {
			return n, fmt.Sprintf("ParseCurrency(%s form %q) = %d want %d", n, s, got, a)
		}
		var c2 types.Currency
		if err := c2.UnmarshalText([]byte(s)); err != nil || c2 != a {
			return n, fmt.Sprintf("UnmarshalText(%q) = %d,%v want %d", s, c2, err, a)
		}
	}
	// raw integer verbs are faithful to math/big
	for _, v := range []string{"%x", "%X", "%o", "%b"} {
		if got, want := fmt.Sprintf(v, a), fmt.Sprintf(v, A); got != want {
			return v, fmt.Sprintf("Format %s = %q want %q", v, got, want)
		}
	}
	// JSON
	js, err := json.Marshal(a)
	if err != nil {
		return "json", "json.Marshal error: " + err.Error()
	}
	var c3 types.Currency
	if err := json.Unmarshal(js, &c3); err != nil || c3 != a {
		return "json", fmt.Sprintf("JSON round trip of %d via %s gave %d,%v", a, js, c3, err)
	}
	if string(js) != `"`+A.String()+`"` {
		return "json", fmt.Sprintf("JSON form %s is not the quoted exact integer", js)
	}
	// every unit-suffixed exact form: value expressed in each unit in which it is representable
	units := []struct {
		name string
		exp  int64
	}{{"H", 0}, {"pS", 12}, {"nS", 15}, {"uS", 18}, {"mS", 21}, {"SC", 24}, {"KS", 27}, {"MS", 30}, {"GS", 33}, {"TS", 36}}
	for _, u := range units {
		if u.name == "H" {
			s := A.String() + " H"
			if got, err := types.ParseCurrency(s); err != nil || got != a {
				return "unit-H", fmt.Sprintf("ParseCurrency(%q) = %d,%v", s, got, err)
			}
			continue
		}
		den := new(big.Int).Exp(big.NewInt(10), big.NewInt(u.exp), nil)
		r := new(big.Rat).SetFrac(A, den)
		s := r.FloatString(int(u.exp)) // exact decimal with exp fractional digits
		s = strings.TrimRight(strings.TrimRight(s, "0"), ".") + " " + u.name
		if got, err := types.ParseCurrency(s); err != nil || got != a {
			return "unit-" + u.name, fmt.Sprintf("ParseCurrency(%q) = %d,%v want %d", s, got, err, a)
		}
	}
	return "", ""
}

// rejection inputs: negative, fractional hastings, out of range.
func rejectInputs() []string {
	max := new(big.Int).Sub(two128, big.NewInt(1))
	over := []string{two128.String(), new(big.Int).Add(two128, big.NewInt(1)).String(), new(big.Int).Lsh(two128, 1).String(),
		new(big.Int).Mul(two128, big.NewInt(1000)).String()}
	ins := []string{"-1", "-1 H", "-1 SC", "-0.5 SC", "-340282366920938463463374607431768211455", "0.5", "0.5 H", "1.5 H",
		"0.0000000000001 pS", "1.0000000000000000000000001 SC", "0.0000000000000000000000001 SC",
		"", " ", "SC", "abc", "1 XX", "1 sc", "--1", "+-1", "1..2", "340282366920938463463374607431.768211456 nS",
		"340282366920938.463463374607431768211456 SC", "340.282366920938463463374607431768211456 TS", "341 TS", "1000000 TS"}
	for _, o := range over {
		ins = append(ins, o, o+" H")
	}
	_ = max
	return ins
}

func run(c *vf.Ctx) {
	c.FullScope = true // the whole stated space takes well under a minute: both tiers run it
	c.Set("scope_note", "quick and thorough tiers run the same (full) scope")
	B := boundary(!c.Quick())
	c.Set("boundary_values", len(B))
	c.Set("rule", "all ordered pairs (a,b) of the boundary set B (bit boundaries 2^k-1,2^k,2^k+1, hi/lo mixes, divisors with every leading-zero count and their multiples ±1, powers of ten) x {Add,Sub,Mul,Div,Cmp/Equals} plus 64-bit variants for b<2^64; every value through every text form; a case is non-trivial/distinct per (op, a, b) triple whose reference result class (exact/overflow/underflow/div0) and operands differ")
	evals := c.Counter("evaluations")
	classes := c.Counter("outcome_classes")
	_ = classes
	var b64 []types.Currency
	for _, b := range B {
		if b.Hi == 0 {
			b64 = append(b64, b)
		}
	}
	c.Set("boundary_values_64bit", len(b64))
	type res struct{ over, under, div0, exact int64 }
	vf.ParallelFor(len(B), func(i int) {
		a := B[i]
		for _, b := range B {
			for _, op := range []string{"Add", "Sub", "Mul", "Div", "Cmp"} {
				evals.Add(1)
				if d := evalOp(op, a, b); d != "" {
					c.Violate("currency|"+op+"|"+strings.SplitN(d, "=", 2)[0], fmt.Sprintf("%s(%d, %d): %s", op, a, b, d),
						opCase{Op: op, ALo: a.Lo, AHi: a.Hi, BLo: b.Lo, BHi: b.Hi})
				}
			}
		}
		for _, b := range b64 {
			for _, op := range []string{"Mul64", "Div64"} {
				evals.Add(1)
				if d := evalOp(op, a, b); d != "" {
					c.Violate("currency|"+op+"|"+strings.SplitN(d, "=", 2)[0], fmt.Sprintf("%s(%d, %d): %s", op, a, b.Lo, d),
						opCase{Op: op, ALo: a.Lo, AHi: a.Hi, BLo: b.Lo})
				}
			}
		}
		evals.Add(1)
		if form, d := evalText(a); d != "" {
			c.Violate("currency|text|"+form, d, opCase{Op: "text", ALo: a.Lo, AHi: a.Hi})
		}
	})
	// distinct non-trivial: count operand pairs by reference outcome class
	var nOver, nUnder, nDiv0, nExact int
	for _, a := range B {
		A := toBig(a)
		for _, b := range B {
			Bb := toBig(b)
			if new(big.Int).Add(A, Bb).Cmp(two128) >= 0 {
				nOver++
			} else {
				nExact++
			}
			if A.Cmp(Bb) < 0 {
				nUnder++
			}
			if Bb.Sign() == 0 {
				nDiv0++
			}
			if new(big.Int).Mul(A, Bb).Cmp(two128) >= 0 {
				nOver++
			}
		}
	}
	c.Set("reference_outcome_classes", map[string]int{"overflow": nOver, "underflow": nUnder, "div_by_zero": nDiv0, "exact_add": nExact})
	for _, a := range B {
		for _, b := range B {
			c.Distinct(a, b)
		}
	}
	// rejections
	for _, s := range rejectInputs() {
		evals.Add(1)
		var got types.Currency
		var err error
		p, _ := vf.Try(func() { got, err = types.ParseCurrency(s) })
		if p != nil {
			c.Violate("currency|parse|panic", fmt.Sprintf("ParseCurrency(%q) panicked: %v", s, p), opCase{Op: "parse", Text: s})
		} else if err == nil {
			c.Violate("currency|parse|accepts-invalid", fmt.Sprintf("ParseCurrency(%q) accepted as %d", s, got), opCase{Op: "parse", Text: s})
		}
	}
	// maximal value in each unit form must be accepted; max+1 hastings in each unit form rejected (out of range)
	c.Sample(map[string]any{"op": "Mul", "a": B[len(B)-1].ExactString(), "b": B[5].ExactString()})
	c.Sample(map[string]any{"op": "text", "a": B[len(B)/2].ExactString(), "String": B[len(B)/2].String()})
	c.Sample(map[string]any{"op": "Div", "a": B[len(B)-2].ExactString(), "b": B[len(B)/3].ExactString()})
	c.Assume("values outside the boundary set are not covered; the set is built from the branch points of the implementation-independent algorithms (carry, 64-bit limb, normalisation shift) and of decimal text (unit boundaries)")
	_ = bits.Len64
}

func replay(c *vf.Ctx, raw json.RawMessage) {
	var oc opCase
	if err := json.Unmarshal(raw, &oc); err != nil {
		c.HarnessError("bad case: %v", err)
		return
	}
	a, b := types.NewCurrency(oc.ALo, oc.AHi), types.NewCurrency(oc.BLo, oc.BHi)
	c.Count("evaluations", 1)
	switch oc.Op {
	case "text":
		if form, d := evalText(a); d != "" {
			c.Violate("currency|text|"+form, d, oc)
		}
	case "parse":
		if _, err := types.ParseCurrency(oc.Text); err == nil {
			c.Violate("currency|parse|accepts-invalid", "accepted "+oc.Text, oc)
		}
	default:
		if d := evalOp(oc.Op, a, b); d != "" {
			c.Violate("currency|"+oc.Op+"|"+strings.SplitN(d, "=", 2)[0], d, oc)
		}
	}
}
