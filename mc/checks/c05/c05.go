// Package c05: element proofs survive every apply/revert; roots equal the true
// Merkle forest. (a) exhaustive (size, updated subset, growth) model through the
// exported API on anyone-can-spend outputs; (b) union-alphabet exploration with
// leaf positions in the state key (revisions, resolutions, all six leaf kinds).
package c05

import (
	"encoding/json"
	"fmt"
	"sort"

	"go.sia.tech/core/types"
	"verifmc/chain"
	"verifmc/vf"
)

func init() {
	vf.Register(&vf.Check{ID: "C05", Level: "model_checking", Run: run, Replay: replay})
}

var opt = chain.AllChecks()

type accCase struct {
	M       int   `json:"genesis_outputs"`
	S       []int `json:"spent_leaf_positions"`
	Outs    int   `json:"new_outputs"`
	S2      []int `json:"second_block_spends_newest,omitempty"`
	Outs2   int   `json:"second_block_outputs"`
	Seed    int64 `json:"seed"`
	Stage   string `json:"stage"`
}

// liveByLeaf returns the live siacoin elements sorted by leaf index.
func liveByLeaf(w *chain.World) []types.SiacoinElement {
	var es []types.SiacoinElement
	for _, e := range w.Store.SC {
		es = append(es, e)
	}
	sort.Slice(es, func(i, j int) bool { return es[i].StateElement.LeafIndex < es[j].StateElement.LeafIndex })
	return es
}

// spendBlock applies a block whose single transaction spends the live elements
// at positions idx (in leaf order) and creates nOut outputs.
func spendBlock(w *chain.World, prev *chain.World, idx []int, nOut int) *chain.Problem {
	live := liveByLeaf(w)
	var txns []types.V2Transaction
	if len(idx) > 0 {
		var txn types.V2Transaction
		var sum types.Currency
		for _, i := range idx {
			txn.SiacoinInputs = append(txn.SiacoinInputs, types.V2SiacoinInput{Parent: live[i].Copy(), SatisfiedPolicy: types.SatisfiedPolicy{Policy: types.AnyoneCanSpend()}})
			sum = sum.Add(live[i].SiacoinOutput.Value)
		}
		if nOut == 0 {
			txn.MinerFee = sum
		} else {
			per := sum.Div64(uint64(nOut))
			rem := sum.Sub(per.Mul64(uint64(nOut)))
			for k := 0; k < nOut; k++ {
				v := per
				if k == 0 {
					v = v.Add(rem)
				}
				txn.SiacoinOutputs = append(txn.SiacoinOutputs, types.SiacoinOutput{Value: v, Address: w.Keys.Addr(chain.AddrACS)})
			}
		}
		txns = append(txns, txn)
	}
	b, bs := w.BuildBlock(nil, txns, chain.BlockOpts{})
	err, p := w.ApplyFrom(prev, b, bs)
	if p != nil {
		return p
	}
	if err != nil {
		return &chain.Problem{Sig: "honest-rejected|accumulator-spend", Desc: fmt.Sprintf("honest spend block rejected: %v", err)}
	}
	return nil
}

func subsets(live int, all bool) [][]int {
	var out [][]int
	if live <= 10 && all {
		for m := 0; m < 1<<live; m++ {
			var s []int
			for i := 0; i < live; i++ {
				if m&(1<<i) != 0 {
					s = append(s, i)
				}
			}
			out = append(out, s)
		}
		return out
	}
	out = append(out, nil)
	for i := 0; i < live; i++ {
		out = append(out, []int{i})
		for j := i + 1; j < live; j++ {
			out = append(out, []int{i, j})
		}
	}
	var full, alt, pre, suf []int
	for i := 0; i < live; i++ {
		full = append(full, i)
		if i%2 == 0 {
			alt = append(alt, i)
		}
		if i < live/2 {
			pre = append(pre, i)
		} else {
			suf = append(suf, i)
		}
	}
	return append(out, full, alt, pre, suf)
}

func runCase(c *vf.Ctx, base *chain.World, ac accCase, depth int) {
	fail := func(p *chain.Problem, stage string) {
		ac.Stage = stage
		c.Violate("C05|"+p.Sig, fmt.Sprintf("[accumulator model, %d genesis outputs, spend leaves %v, %d new outputs, stage %s] %s", ac.M, ac.S, ac.Outs, stage, p.Desc), ac)
	}
	w := base.Clone()
	c.Count("transitions", 1)
	c.Count("evaluations", 1)
	if p := spendBlock(w, base, ac.S, ac.Outs); p != nil {
		fail(p, "apply-1")
		return
	}
	c.Count("proofs_checked", int64(len(w.Store.SC)+len(w.Store.DeadSC)+len(w.Store.CI)))
	if p := w.ReorgRoundTrip(1); p != nil {
		fail(p, "revert-reapply-1")
		return
	}
	c.Count("reverts", 1)
	if depth < 2 {
		return
	}
	// second block, reduced menu: empty block; spend the two newest; spend oldest+newest with 3 outputs
	live := len(w.Store.SC)
	var menus [][]int
	menus = append(menus, nil)
	if live >= 2 {
		menus = append(menus, []int{live - 2, live - 1}, []int{0, live - 1})
	}
	for mi, s2 := range menus {
		for _, o2 := range []int{0, 3} {
			if len(s2) == 0 && o2 > 0 {
				continue
			}
			w2 := w.Clone()
			c.Count("transitions", 1)
	c.Count("evaluations", 1)
			ac2 := ac
			ac2.S2, ac2.Outs2 = s2, o2
			if p := spendBlock(w2, w, s2, o2); p != nil {
				ac = ac2
				fail(p, fmt.Sprintf("apply-2(menu %d)", mi))
				return
			}
			if p := w2.ReorgRoundTrip(2); p != nil {
				ac = ac2
				fail(p, "revert-reapply-2")
				return
			}
			c.Count("reverts", 2)
			if depth >= 3 && mi == 1 {
				w3 := w2.Clone()
				c.Count("transitions", 1)
	c.Count("evaluations", 1)
				l3 := len(w3.Store.SC)
				idx3 := []int{0}
				if l3/2 > 0 {
					idx3 = append(idx3, l3/2)
				}
				if l3-1 > l3/2 {
					idx3 = append(idx3, l3-1)
				}
				if p := spendBlock(w3, w2, idx3, 2); p != nil {
					ac = ac2
					fail(p, "apply-3")
					return
				}
				if p := w3.ReorgRoundTrip(3); p != nil {
					ac = ac2
					fail(p, "revert-reapply-3")
					return
				}
				c.Count("reverts", 3)
			}
		}
	}
}

func accAlloc(k *chain.Keys, m int) chain.GenesisAlloc {
	var g chain.GenesisAlloc
	for i := 0; i < m; i++ {
		g.SC = append(g.SC, types.SiacoinOutput{Value: types.Siacoins(uint32(100 + i)), Address: k.Addr(chain.AddrACS)})
	}
	return g
}

func unionMenu(w *chain.World) []chain.Action {
	return []chain.Action{
		chain.V1Pay(true, 2), chain.V1Chain(), chain.V1SF(true), chain.V1SFChain(), chain.V1Form(1, 2, 100), chain.V1Form(0, 1, 10), chain.V1Revise("pay"), chain.V1Revise("grow"), chain.V1Proof(false), chain.V1ProofFee(), chain.V1Proof(true),
		chain.V2Pay(chain.AddrV2, true, 2), chain.V2Chain(chain.AddrACS), chain.V2SF(true), chain.V2Form(1, 2, 100), chain.V2Form(0, 1, 10),
		chain.V2Revise("pay"), chain.V2Revise("grow"), chain.V2Renew("partial"), chain.V2Proof(), chain.V2Expire(), chain.V2Attest(),
		// several MidState code paths for ONE element inside a block (the leaf that revert restores / apply writes)
		chain.Seq("v1revise-twice", chain.V1Revise("pay"), chain.V1Revise("grow")), chain.Seq("v1revise+proof", chain.V1Revise("pay"), chain.V1Proof(false)), chain.V1FormRevise(true),
		chain.Seq("v2revise-twice", chain.V2Revise("pay"), chain.V2Revise("grow")), chain.Seq("v2form+revise", chain.V2Form(1, 2, 100), chain.V2Revise("pay")), chain.Seq("v2revise+renew", chain.V2Revise("pay"), chain.V2Renew("none")),
	}
}

func run(c *vf.Ctx) {
	N := vf.Pick(c, 33, 100)
	depth := vf.Pick(c, 2, 3)
	c.Set("rule", fmt.Sprintf("(a) for every genesis size m<=%d (leaf counts m+1: all bit patterns), every subset S of live leaves spent in one block (all subsets when <=10 live leaves, else all subsets of size <=2, full, alternating, prefix and suffix halves), every growth g in 2..9, followed by a reduced second (and third) block and by revert+re-apply of depth 1..%d; (b) union-alphabet DFS with leaf positions in the state key. Oracle: every tracked element (live, spent, chain index, attestation) has proof == reference path and leaf == reference leaf with its current spent status; roots and leaf count == naive forest; ForEachTreeNode == reference nodes of exactly the touched paths", N, depth))
	keys := chain.NewKeys(c.Seed)
	sp := chain.Spec("acc")
	vf.ParallelFor(N+1, func(m int) {
		if c.Expired() {
			return
		}
		base, p := chain.NewWorld(sp, keys, accAlloc(keys, m), opt)
		if p != nil {
			c.Violate("C05|genesis|"+p.Sig, p.Desc, accCase{M: m, Stage: "genesis", Seed: c.Seed})
			return
		}
		c.Count("states", 1)
		for _, s := range subsets(m, true) {
			for outs := 0; outs <= 7; outs++ {
				if len(s) == 0 && outs > 0 {
					continue
				}
				if c.Expired() {
					return
				}
				c.Count("states", 1)
				c.Distinct(m, fmt.Sprint(s), outs)
				d := depth
				if m > vf.Pick(c, 12, 40) && len(s) == 2 && (s[0]+s[1])%vf.Pick(c, 8, 4) != 0 {
					d = 1 // thin out the follow-up blocks for large trees (first-level triple still enumerated)
				}
				runCase(c, base, accCase{M: m, S: s, Outs: outs, Seed: c.Seed}, d)
				// the same leaves touched in DESCENDING order (inputs listed from the highest leaf down): what an update
				// reports must not depend on the order in which a block touches its leaves (growth 0 and 3, first level only)
				if len(s) >= 2 && (outs == 0 || outs == 3) && (len(s) <= 3 || !c.Quick()) {
					rev := make([]int, len(s))
					for i := range s {
						rev[i] = s[len(s)-1-i]
					}
					c.Distinct(m, fmt.Sprint(rev), outs)
					c.Count("descending_order_cases", 1)
					runCase(c, base, accCase{M: m, S: rev, Outs: outs, Seed: c.Seed}, 1)
				}
			}
		}
		c.Count("traces_validated_against_impl", 1)
	})
	c.Set("accumulator_model", map[string]any{"max_genesis_outputs": N, "depth": depth, "growth": "2..9"})
	// (b) union alphabet with leaf positions in the key
	nets := []string{"mixed", "v1-eras"}
	if !c.Quick() {
		nets = append(nets, "v2-only", "v2-eph5")
	}
	for _, n := range nets {
		if c.Expired() {
			break
		}
		spn := chain.Spec(n)
		m := &chain.Model{Name: "union-leafkey", Spec: spn, Menu: unionMenu, Opt: opt, LeafKey: true,
			H: vf.Pick[uint64](c, 7, 9), D: vf.Pick(c, 3, 3), K: vf.Pick(c, 1, 1), R: vf.Pick(c, 2, 2)}
		if spn.Name == "mixed" {
			m.SkipStart = 3
			m.H += 3
		}
		{
			// transaction combinatorics (first: small): one setup block, then every ordered pair (thorough: triple) of
			// actions merged into ONE transaction; every such block is also reverted
			mm := *m
			mm.Name, mm.Menu, mm.D, mm.K, mm.R, mm.H = "merged", chain.MergedMenu, 2, 1, 0, m.H
			if !c.Quick() {
				mm.Menu = chain.MergedMenu3
			}
			mm.OnTransition = func(x *chain.Explorer, prev, w *chain.World, path []string) {
				nw := w.Clone()
				if p := nw.Revert(); p != nil {
					x.Violate(p.Sig, p.Desc, append(append([]string(nil), path...), "revert(1)"))
				}
				c.Count("merged_blocks_reverted", 1)
			}
			xm := chain.NewExplorer(c, &mm, "C05")
			xm.Run()
			xm.Report(n + "/merged/")
		}
		// a valid block may present the parents it created itself (ephemeral parents) with ANY Merkle proof: the update,
		// the refreshed proofs and the reported tree nodes must not depend on it
		m.OnTransition = func(x *chain.Explorer, prev, w *chain.World, path []string) {
			a := w.Hist[len(w.Hist)-1]
			for _, n := range []int{1, 3} {
				nb, ok := chain.JunkEphemeralProofs(prev.CS, a.B, n)
				if !ok {
					return
				}
				wv := prev.Clone()
				err, p := wv.ApplyFrom(prev, nb, a.BS)
				switch {
				case p != nil:
					x.Violate("junk-ephemeral-proof|"+p.Sig, fmt.Sprintf("the same block with %d arbitrary hashes as Merkle proof of its ephemeral parents (still valid): %s", n, p.Desc), append(append([]string(nil), path...), fmt.Sprintf("variant:junk-ephemeral-proof(%d)", n)))
				case err != nil:
					c.Count("junk_ephemeral_variant_rejected", 1)
				default:
					c.Count("junk_ephemeral_variant_applied", 1)
				}
			}
		}
		x := chain.NewExplorer(c, m, "C05")
		x.Run()
		x.Report(n + "/")
		if !c.Expired() {
			// block combinatorics: one setup block, then every ordered tuple of <= 3 actions in one block; every such
			// block is also reverted (proofs of all tracked elements are checked after the apply and after the revert)
			mc := *m
			mc.Name, mc.Menu, mc.D, mc.K, mc.R, mc.H, mc.StopWhenSpent = "combo", chain.ComboMenu, 2, 3, 0, m.H-1, true
			mc.OnTransition = func(x *chain.Explorer, prev, w *chain.World, path []string) {
				nw := w.Clone()
				if p := nw.Revert(); p != nil {
					x.Violate(p.Sig, p.Desc, append(append([]string(nil), path...), "revert(1)"))
				}
				c.Count("combo_blocks_reverted", 1)
			}
			xc := chain.NewExplorer(c, &mc, "C05")
			xc.Run()
			xc.Report(n + "/combo/")
		}
	}
	c.Sample(accCase{M: 12, S: []int{3, 11}, Outs: 5, S2: []int{14, 15}, Outs2: 3, Seed: c.Seed, Stage: "example"})
	c.RequireFeature("descending_order_cases", "reverts", "proofs_checked", "feature:v1_fc_revise", "feature:v2_fc_revise", "feature:v2_attestation", "feature:v1_fc_expire", "feature:revert_depth_2")
	c.Assume("leaf POSITIONS are taken from what the implementation reports (range- and uniqueness-checked); leaf HASHES and every interior node come from the independent reference only")
}

func replay(c *vf.Ctx, raw json.RawMessage) {
	var ac accCase
	if err := json.Unmarshal(raw, &ac); err == nil && ac.Stage != "" {
		keys := chain.NewKeys(ac.Seed)
		base, p := chain.NewWorld(chain.Spec("acc"), keys, accAlloc(keys, ac.M), opt)
		if p != nil {
			c.Violate("C05|genesis|"+p.Sig, p.Desc, ac)
			return
		}
		c.Count("states", 1)
		runCase(c, base, ac, 3)
		return
	}
	chain.ReplayTrace(c, raw, func(string) func(w *chain.World) []chain.Action { return unionMenu }, "C05", opt)
}
