// Package checks links every property check into the vcheck binary.
package checks

import (
	_ "verifmc/checks/c01"
	_ "verifmc/checks/c15"
)
