// Package checks links every property check into the vcheck binary.
package checks

import (
	_ "verifmc/checks/c01"
	_ "verifmc/checks/c02"
	_ "verifmc/checks/c03"
	_ "verifmc/checks/c04"
	_ "verifmc/checks/c05"
	_ "verifmc/checks/c06"
	_ "verifmc/checks/c07"
	_ "verifmc/checks/c08"
	_ "verifmc/checks/c09"
	_ "verifmc/checks/c10"
	_ "verifmc/checks/c11"
	_ "verifmc/checks/c12"
	_ "verifmc/checks/c13"
	_ "verifmc/checks/c14"
	_ "verifmc/checks/c15"
	_ "verifmc/checks/c16"
	_ "verifmc/checks/c17"
	_ "verifmc/checks/c18"
	_ "verifmc/checks/c19"
	_ "verifmc/checks/c20"
)
