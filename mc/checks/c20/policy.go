package c20

import (
	"crypto/sha256"
	"encoding/binary"
	"math"
	"strings"
	"sync"
	"time"

	"go.sia.tech/core/types"
)

func seedBytes(seed int64, tag string, n int) []byte {
	out := make([]byte, 0, n+32)
	var k [8]byte
	binary.LittleEndian.PutUint64(k[:], uint64(seed))
	for i := 0; len(out) < n; i++ {
		h := sha256.Sum256(append(append(k[:], byte(i)), tag...))
		out = append(out, h[:]...)
	}
	out = out[:n]
	if n > 0 {
		out[0] |= 0x10
		out[n-1] |= 0x01
	}
	return out
}

func hash32(seed int64, tag string) (h [32]byte) { copy(h[:], seedBytes(seed, tag, 32)); return }

// key kinds of legacy unlock conditions.
type keyKind struct {
	name string
	uk   types.UnlockKey
}

func mkSpec(s string) (sp types.Specifier) { copy(sp[:], s); return }

// baseKeyKinds: the four kinds named by the property text.
func baseKeyKinds(seed int64) []keyKind {
	return []keyKind{
		{"ed25519", types.UnlockKey{Algorithm: types.SpecifierEd25519, Key: seedBytes(seed, "k-ed", 32)}},
		{"entropy", types.UnlockKey{Algorithm: types.SpecifierEntropy, Key: seedBytes(seed, "k-en", 32)}},
		{"unknown", types.UnlockKey{Algorithm: mkSpec("blake2b"), Key: seedBytes(seed, "k-un", 7)}},
		{"quoted", types.UnlockKey{Algorithm: mkSpec("my algo:v2"), Key: seedBytes(seed, "k-q", 3)}},
	}
}

// extraKeyKinds: every other key-algorithm shape (non-alphanumeric
// algorithms, empty algorithm, empty / nil keys).
func extraKeyKinds(seed int64) []keyKind {
	k := seedBytes(seed, "k-x", 2)
	var out []keyKind
	for _, a := range []string{`a"b`, `a\b`, "a,b", "a(b", "a)b", "a[b", "a]b", "é✓", "\xff", "a\x00b", "", "a.b-c_d", "0123456789abcdef", "sp ace", "\t"} {
		out = append(out, keyKind{"alg=" + a, types.UnlockKey{Algorithm: mkSpec(a), Key: k}})
	}
	out = append(out,
		keyKind{"nil-key", types.UnlockKey{Algorithm: types.SpecifierEd25519, Key: nil}},
		keyKind{"empty-key", types.UnlockKey{Algorithm: types.SpecifierEd25519, Key: []byte{}}},
		keyKind{"long-key", types.UnlockKey{Algorithm: types.SpecifierEd25519, Key: seedBytes(seed, "k-l", 65)}},
	)
	return out
}

var sigsRequiredDomain = []uint64{0, 1, 2, 255, 256, 1 << 32, math.MaxUint64}
var threshNDomain = []uint8{0, 1, 255}

func afterTimes() []time.Time {
	return []time.Time{
		time.Date(0, 1, 1, 0, 0, 0, 0, time.UTC),
		time.Date(1, 1, 1, 0, 0, 0, 0, time.UTC),
		time.Date(1969, 12, 31, 23, 59, 59, 0, time.UTC),
		time.Unix(0, 0),
		time.Unix(1, 0),
		time.Date(2038, 1, 19, 3, 14, 8, 0, time.UTC),
		time.Date(2500, 6, 15, 12, 0, 0, 0, time.UTC),
		time.Date(9999, 12, 31, 23, 59, 59, 0, time.UTC),
	}
}

func ucPolicy(timelock uint64, keys []types.UnlockKey, sigs uint64) types.SpendPolicy {
	return types.SpendPolicy{Type: types.PolicyTypeUnlockConditions{Timelock: timelock, PublicKeys: keys, SignaturesRequired: sigs}}
}

var (
	repsMu    sync.Mutex
	repsCache = map[int64][]types.SpendPolicy{}
)

// policyReps: a small representative set (all seven kinds, string- and
// JSON-representable) used wherever a policy is a FIELD of a larger value.
// Policies whose string/JSON forms are checked exhaustively live in
// enumeratePolicies.
func policyReps(seed int64) []types.SpendPolicy {
	repsMu.Lock()
	defer repsMu.Unlock()
	if r, ok := repsCache[seed]; ok {
		return r
	}
	kk := baseKeyKinds(seed)
	pk := types.PublicKey(hash32(seed, "pk"))
	r := []types.SpendPolicy{
		types.PolicyAbove(0), types.PolicyAbove(math.MaxUint64),
		types.PolicyAfter(time.Date(2030, 1, 2, 3, 4, 5, 0, time.UTC)), types.PolicyAfter(time.Date(0, 1, 1, 0, 0, 0, 0, time.UTC)),
		types.PolicyPublicKey(pk), types.PolicyHash(hash32(seed, "h")),
		types.SpendPolicy{Type: types.PolicyTypeOpaque(hash32(seed, "op"))},
		types.AnyoneCanSpend(),
		types.PolicyThreshold(1, []types.SpendPolicy{types.PolicyPublicKey(pk), types.PolicyAbove(7)}),
		types.PolicyThreshold(255, []types.SpendPolicy{types.PolicyThreshold(2, []types.SpendPolicy{types.PolicyHash(hash32(seed, "h2")), types.SpendPolicy{Type: types.PolicyTypeOpaque(hash32(seed, "op2"))}})}),
		ucPolicy(0, []types.UnlockKey{kk[0].uk}, 1),
		ucPolicy(math.MaxUint64, []types.UnlockKey{kk[0].uk, kk[1].uk, kk[2].uk}, 2),
		ucPolicy(5, nil, 0),
		ucPolicy(5, []types.UnlockKey{kk[3].uk}, 255),
	}
	repsCache[seed] = r
	return r
}

// enumeratePolicies builds the structured finite domain of DESIGN C20:
// all seven kinds, nesting <= 3, uc policies with 0..3 keys over the key kinds,
// SignaturesRequired in sigsRequiredDomain, thresholds n in {0,1,255},
// after(t) over afterTimes.
func enumeratePolicies(seed int64, thorough bool) []types.SpendPolicy {
	pk1, pk0 := types.PublicKey(hash32(seed, "pk1")), types.PublicKey{}
	var leaves []types.SpendPolicy
	for _, h := range []uint64{0, 1, 255, 1 << 32, 1<<53 + 1, math.MaxUint64} {
		leaves = append(leaves, types.PolicyAbove(h))
	}
	for _, t := range afterTimes() {
		leaves = append(leaves, types.PolicyAfter(t))
	}
	var ff [32]byte
	for i := range ff {
		ff[i] = 0xFF
	}
	leaves = append(leaves, types.PolicyPublicKey(pk1), types.PolicyPublicKey(pk0), types.PolicyPublicKey(ff),
		types.PolicyHash(hash32(seed, "h1")), types.PolicyHash(types.Hash256{}),
		types.SpendPolicy{Type: types.PolicyTypeOpaque(hash32(seed, "o1"))}, types.SpendPolicy{Type: types.PolicyTypeOpaque{}})

	// unlock-condition policies
	base, extra := baseKeyKinds(seed), extraKeyKinds(seed)
	var keyLists [][]types.UnlockKey
	var rec func(cur []types.UnlockKey, kinds []keyKind, max int)
	rec = func(cur []types.UnlockKey, kinds []keyKind, max int) {
		keyLists = append(keyLists, append([]types.UnlockKey(nil), cur...))
		if len(cur) == max {
			return
		}
		for _, k := range kinds {
			rec(append(cur, k.uk), kinds, max)
		}
	}
	if thorough {
		rec(nil, append(append([]keyKind(nil), base...), extra...), 3)
	} else {
		rec(nil, base, 3)
		for _, e := range extra {
			keyLists = append(keyLists, []types.UnlockKey{e.uk}, []types.UnlockKey{base[0].uk, e.uk}, []types.UnlockKey{e.uk, base[1].uk}, []types.UnlockKey{base[2].uk, e.uk, base[3].uk}, []types.UnlockKey{e.uk, e.uk})
		}
	}
	keyLists = append(keyLists, []types.UnlockKey{}) // empty (non-nil) list
	var ucs []types.SpendPolicy
	for _, kl := range keyLists {
		for _, sr := range sigsRequiredDomain {
			for _, tl := range []uint64{0, math.MaxUint64} {
				ucs = append(ucs, ucPolicy(tl, kl, sr))
			}
		}
	}
	// representatives used as children of thresholds
	r0 := []types.SpendPolicy{
		types.PolicyAbove(3), types.PolicyAfter(time.Date(2031, 1, 1, 0, 0, 0, 0, time.UTC)), types.PolicyPublicKey(pk1), types.PolicyHash(hash32(seed, "h1")),
		types.SpendPolicy{Type: types.PolicyTypeOpaque(hash32(seed, "o1"))}, ucPolicy(1, []types.UnlockKey{base[0].uk, base[3].uk}, 2), ucPolicy(0, nil, 0),
	}
	thresh := func(children []types.SpendPolicy, pairs bool) (out []types.SpendPolicy) {
		for _, n := range threshNDomain {
			out = append(out, types.PolicyThreshold(n, nil), types.PolicyThreshold(n, []types.SpendPolicy{}))
			for _, x := range children {
				out = append(out, types.PolicyThreshold(n, []types.SpendPolicy{x}))
			}
			if pairs {
				for _, x := range children {
					for _, y := range children {
						out = append(out, types.PolicyThreshold(n, []types.SpendPolicy{x, y}))
					}
				}
			}
			out = append(out, types.PolicyThreshold(n, append([]types.SpendPolicy(nil), children...)))
		}
		return
	}
	t1 := thresh(r0, true)
	// level 2: children = r0 + one threshold of each shape from level 1
	pick := func(ps []types.SpendPolicy, k int) []types.SpendPolicy {
		var out []types.SpendPolicy
		step := len(ps)/k + 1
		for i := 0; i < len(ps); i += step {
			out = append(out, ps[i])
		}
		return out
	}
	c2 := append(append([]types.SpendPolicy(nil), r0[:3]...), pick(t1, 6)...)
	t2 := thresh(c2, true)
	c3 := append(append([]types.SpendPolicy(nil), r0[2:4]...), pick(t2, 5)...)
	t3 := thresh(c3, true)
	var all []types.SpendPolicy
	all = append(all, leaves...)
	all = append(all, ucs...)
	all = append(all, t1...)
	all = append(all, t2...)
	all = append(all, t3...)
	return all
}

func policyDepth(p types.SpendPolicy) int {
	if t, ok := p.Type.(types.PolicyTypeThreshold); ok {
		d := 0
		for _, c := range t.Of {
			if cd := policyDepth(c); cd > d {
				d = cd
			}
		}
		return d + 1
	}
	return 0
}

func policyKind(p types.SpendPolicy) string {
	switch p.Type.(type) {
	case types.PolicyTypeAbove:
		return "above"
	case types.PolicyTypeAfter:
		return "after"
	case types.PolicyTypePublicKey:
		return "pk"
	case types.PolicyTypeHash:
		return "h"
	case types.PolicyTypeThreshold:
		return "thresh"
	case types.PolicyTypeOpaque:
		return "opaque"
	case types.PolicyTypeUnlockConditions:
		return "uc"
	}
	return "?"
}

// mapPolicy rebuilds p with fn applied to every unlock-conditions node.
func mapPolicy(p types.SpendPolicy, fn func(types.PolicyTypeUnlockConditions) types.PolicyTypeUnlockConditions) types.SpendPolicy {
	switch t := p.Type.(type) {
	case types.PolicyTypeUnlockConditions:
		return types.SpendPolicy{Type: fn(t)}
	case types.PolicyTypeThreshold:
		of := make([]types.SpendPolicy, len(t.Of))
		for i := range t.Of {
			of[i] = mapPolicy(t.Of[i], fn)
		}
		if t.Of == nil {
			of = nil
		}
		return types.PolicyThreshold(t.N, of)
	}
	return p
}

const policyDelims = ",()[]"

// clampSigs / plainAlgos are the two "repairs" used ONLY to name the trigger
// of a failing case in the violation signature (causal classification: the
// case is attributed to a feature iff removing that feature makes it pass).
func clampSigs(p types.SpendPolicy) types.SpendPolicy {
	return mapPolicy(p, func(uc types.PolicyTypeUnlockConditions) types.PolicyTypeUnlockConditions {
		if uc.SignaturesRequired > 255 {
			uc.SignaturesRequired = 255
		}
		return uc
	})
}

func plainAlgos(p types.SpendPolicy) types.SpendPolicy {
	return mapPolicy(p, func(uc types.PolicyTypeUnlockConditions) types.PolicyTypeUnlockConditions {
		keys := make([]types.UnlockKey, len(uc.PublicKeys))
		for i, k := range uc.PublicKeys {
			if strings.ContainsAny(string(k.Algorithm[:]), policyDelims) {
				k.Algorithm = mkSpec("plain")
			}
			keys[i] = k
		}
		if uc.PublicKeys == nil {
			keys = nil
		}
		uc.PublicKeys = keys
		return uc
	})
}
