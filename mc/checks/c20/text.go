package c20

import (
	"encoding"
	"encoding/hex"
	"encoding/json"
	"fmt"
	"reflect"
	"strings"

	xblake "golang.org/x/crypto/blake2b"

	rhp3 "go.sia.tech/core/rhp/v3"
	rhp4 "go.sia.tech/core/rhp/v4"
	"go.sia.tech/core/types"
)

// A textType describes one identifier type with a textual form
// <prefix><hex of n bytes>.
type textType struct {
	name   string
	n      int    // bytes of the hex part
	prefix string // textual prefix (may be empty)
	// print is the INDEPENDENT expected text of a value with these bytes
	// (written from the format description, not by calling the code).
	print func(b []byte) string
	// make builds the value from its bytes without going through text.
	make func(b []byte) any
	// parse parses through the type's UnmarshalText into a fresh value.
	parse func(s string) (any, error)
	// extra parse entry points that must agree (ParseAddress, ...)
	parse2 func(s string) (any, error)
}

func plainHex(b []byte) string { return hex.EncodeToString(b) }

func arrType[T any, PT interface {
	*T
	encoding.TextUnmarshaler
}](name string, n int, prefix string, mk func(b []byte) T) textType {
	return textType{
		name: name, n: n, prefix: prefix,
		print: func(b []byte) string { return prefix + plainHex(b) },
		make:  func(b []byte) any { return mk(b) },
		parse: func(s string) (any, error) {
			var x T
			err := PT(&x).UnmarshalText([]byte(s))
			return x, err
		},
	}
}

func from32[T ~[32]byte](b []byte) (t T) { copy(t[:], b); return }

// addressText is the reference printer of an address: hex(addr || first 6
// bytes of blake2b-256(addr)), computed with x/crypto (not the repository's
// hashing wrapper).
func addressText(b []byte) string {
	sum := xblake.Sum256(b)
	return hex.EncodeToString(b) + hex.EncodeToString(sum[:6])
}

func textTypes() []textType {
	tts := []textType{
		arrType[types.Hash256]("types.Hash256", 32, "", from32[types.Hash256]),
		arrType[types.BlockID]("types.BlockID", 32, "", from32[types.BlockID]),
		arrType[types.TransactionID]("types.TransactionID", 32, "", from32[types.TransactionID]),
		arrType[types.AttestationID]("types.AttestationID", 32, "", from32[types.AttestationID]),
		arrType[types.SiacoinOutputID]("types.SiacoinOutputID", 32, "", from32[types.SiacoinOutputID]),
		arrType[types.SiafundOutputID]("types.SiafundOutputID", 32, "", from32[types.SiafundOutputID]),
		arrType[types.FileContractID]("types.FileContractID", 32, "", from32[types.FileContractID]),
		arrType[types.Signature]("types.Signature", 64, "", func(b []byte) (s types.Signature) { copy(s[:], b); return }),
		arrType[types.PublicKey]("types.PublicKey", 32, "ed25519:", from32[types.PublicKey]),
		arrType[rhp3.Account]("rhp/v3.Account", 32, "ed25519:", from32[rhp3.Account]),
		arrType[rhp4.Account]("rhp/v4.Account", 32, "ed25519:", from32[rhp4.Account]),
	}
	addr := arrType[types.Address]("types.Address", 32, "", from32[types.Address])
	addr.print = addressText
	addr.parse2 = func(s string) (any, error) { return types.ParseAddress(s) }
	tts = append(tts, addr)
	return tts
}

// idValues: byte patterns used for identifier round trips.
func idValues(seed int64, n int) [][]byte {
	ff := make([]byte, n)
	ramp := make([]byte, n)
	for i := range ff {
		ff[i] = 0xFF
		ramp[i] = byte(0xA1 + i*13)
	}
	last1 := make([]byte, n)
	last1[n-1] = 1
	first1 := make([]byte, n)
	first1[0] = 0x10
	return [][]byte{make([]byte, n), ff, ramp, last1, first1, seedBytes(seed, "id-a", n), seedBytes(seed, "id-b", n), seedBytes(seed, "id-c", n)}
}

// A corruption is one corrupted input together with its class.
type corruption struct {
	class string
	input string
}

// boundary characters just outside the three hex ranges, plus a few others.
var nonHexChars = []byte{'/', ':', '@', 'G', '`', 'g', 'z', ' ', 'x', '-', 0x00, '+'}

// corruptHex enumerates the length / alphabet / case corruptions of the hex
// part h of an identifier (wrap builds the full text around the hex part).
func corruptHex(h string, wrap func(string) string) []corruption {
	var out []corruption
	add := func(class, s string) { out = append(out, corruption{class, wrap(s)}) }
	n := len(h)
	add("hex-odd-length", h[:n-1])
	add("hex-odd-length", h[1:])
	add("hex-odd-length", h+"a")
	add("hex-odd-length", "a"+h)
	add("hex-odd-length", h[:n/2]+h[n/2+1:])
	add("hex-too-short", h[:n-2])
	add("hex-too-short", h[2:])
	add("hex-too-short", h[:n/2])
	add("hex-too-short", h[:2])
	add("hex-too-short", "")
	add("hex-too-long", h+"ab")
	add("hex-too-long", "ab"+h)
	add("hex-too-long", h+h)
	add("hex-too-long", h+h[:n/2])
	for i := 0; i < n; i++ {
		for _, c := range nonHexChars {
			add("non-hex-char", h[:i]+string([]byte{c})+h[i+1:])
		}
	}
	if up := strings.ToUpper(h); up != h {
		add("upper-case-hex", up)
		// mixed case: only the first letter digit upper-cased
		for i := 0; i < n; i++ {
			if h[i] >= 'a' && h[i] <= 'f' {
				add("upper-case-hex", h[:i]+strings.ToUpper(h[i:i+1])+h[i+1:])
				break
			}
		}
	}
	return out
}

// corruptPrefix enumerates every single-character change of a textual prefix:
// replacement by every other printable ASCII character, deletion, duplication.
func corruptPrefix(p string, wrap func(string) string) []corruption {
	var out []corruption
	for j := 0; j < len(p); j++ {
		for c := byte(0x20); c < 0x7f; c++ {
			if c == p[j] {
				continue
			}
			out = append(out, corruption{"prefix-char-replaced", wrap(p[:j] + string([]byte{c}) + p[j+1:])})
		}
		out = append(out, corruption{"prefix-char-deleted", wrap(p[:j] + p[j+1:])})
		out = append(out, corruption{"prefix-char-duplicated", wrap(p[:j+1] + p[j:])})
	}
	if len(p) > 0 {
		out = append(out, corruption{"prefix-missing", wrap("")})
		out = append(out, corruption{"prefix-twice", wrap(p + p)})
	}
	return out
}

// outcome of parsing a corrupted input.
const (
	outRejected = "rejected"
	outSame     = "accepted_same_value"
	outDiff     = "accepted_DIFFERENT_value"
	outPanic    = "panic"
)

func classify(parse func(string) (any, error), input string, want any) (string, string) {
	var got any
	var err error
	p, _ := tryFn(func() { got, err = parse(input) })
	switch {
	case p != nil:
		return outPanic, fmt.Sprint(p)
	case err != nil:
		return outRejected, ""
	case diffAny(got, want) == "":
		return outSame, ""
	}
	return outDiff, fmt.Sprintf("%v", got)
}

func tryFn(fn func()) (p any, st string) {
	defer func() {
		if r := recover(); r != nil {
			p = r
		}
	}()
	fn()
	return
}

// jsonParse wraps a text parser type into "parse the JSON string s".
func jsonParseInto(newPtr func() any, deref func(any) any) func(string) (any, error) {
	return func(s string) (any, error) {
		q, err := json.Marshal(s)
		if err != nil {
			return nil, err
		}
		p := newPtr()
		if err := json.Unmarshal(q, p); err != nil {
			return nil, err
		}
		return deref(p), nil
	}
}

func jsonEntry(tt textType) func(string) (any, error) {
	zero := tt.make(make([]byte, tt.n))
	t := reflect.TypeOf(zero)
	return jsonParseInto(func() any { return reflect.New(t).Interface() }, func(p any) any { return reflect.ValueOf(p).Elem().Interface() })
}

func validUTF8JSONString(s string) bool {
	for i := 0; i < len(s); i++ {
		if s[i] >= 0x80 {
			return false
		}
	}
	return true
}
