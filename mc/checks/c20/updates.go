package c20

import (
	"encoding/json"
	"fmt"
	"reflect"
	"sort"

	"go.sia.tech/core/consensus"
	"go.sia.tech/core/types"
	"verifmc/chain"
	"verifmc/spec"
	"verifmc/vf"
)

// Part C: updates on real chains.

var updOpt = chain.Options{TrackDead: true, HasAtt: true, CheckForest: true}

func updMenu(w *chain.World) []chain.Action {
	return []chain.Action{
		chain.V1Pay(true, 2), chain.V1Chain(), chain.V1SF(true), chain.V1Form(1, 2, 100), chain.V1Form(0, 1, 10), chain.V1Revise("pay"), chain.V1Revise("grow"), chain.V1Proof(false), chain.V1Proof(true),
		chain.V2Pay(chain.AddrV2, true, 2), chain.V2Pay(chain.AddrV1, false, 1), chain.V2Chain(chain.AddrACS), chain.V2SF(true), chain.V2Form(1, 2, 100), chain.V2Form(0, 1, 10),
		chain.V2Revise("pay"), chain.V2Revise("grow"), chain.V2Renew("partial"), chain.V2Proof(), chain.V2Expire(), chain.V2Attest(), chain.V2Foundation(false),
	}
}

// tracked is one tracked element (copy of its state element).
type tracked struct {
	kind string
	id   types.Hash256
	se   types.StateElement
}

func copySE(se types.StateElement) types.StateElement {
	return types.StateElement{LeafIndex: se.LeafIndex, MerkleProof: append([]types.Hash256(nil), se.MerkleProof...)}
}

// allTracked lists every element of a store in a canonical order.
func allTracked(s *chain.Store) []tracked {
	var out []tracked
	for _, id := range chain.SortedIDs(s.SC) {
		out = append(out, tracked{"siacoin", id, s.SC[types.SiacoinOutputID(id)].StateElement})
	}
	for _, id := range chain.SortedIDs(s.DeadSC) {
		out = append(out, tracked{"siacoin(spent)", id, s.DeadSC[types.SiacoinOutputID(id)].StateElement})
	}
	for _, id := range chain.SortedIDs(s.SF) {
		out = append(out, tracked{"siafund", id, s.SF[types.SiafundOutputID(id)].StateElement})
	}
	for _, id := range chain.SortedIDs(s.DeadSF) {
		out = append(out, tracked{"siafund(spent)", id, s.DeadSF[types.SiafundOutputID(id)].StateElement})
	}
	for _, id := range chain.SortedIDs(s.FC) {
		out = append(out, tracked{"filecontract", id, s.FC[types.FileContractID(id)].StateElement})
	}
	for _, id := range chain.SortedIDs(s.DeadFC) {
		out = append(out, tracked{"filecontract(resolved)", id, s.DeadFC[types.FileContractID(id)].StateElement})
	}
	for _, id := range chain.SortedIDs(s.V2FC) {
		out = append(out, tracked{"v2filecontract", id, s.V2FC[types.FileContractID(id)].StateElement})
	}
	for _, id := range chain.SortedIDs(s.DeadV2FC) {
		out = append(out, tracked{"v2filecontract(resolved)", id, s.DeadV2FC[types.FileContractID(id)].StateElement})
	}
	for _, e := range s.CI {
		out = append(out, tracked{"chainindex", types.Hash256(e.ID), e.StateElement})
	}
	for _, e := range s.Att {
		out = append(out, tracked{"attestation", types.Hash256(e.ID), e.StateElement})
	}
	return out
}

type proofUpdater interface {
	UpdateElementProof(e *types.StateElement)
	ForEachTreeNode(fn func(row, col uint64, h types.Hash256))
	SiacoinElementDiffs() []consensus.SiacoinElementDiff
	SiafundElementDiffs() []consensus.SiafundElementDiff
	FileContractElementDiffs() []consensus.FileContractElementDiff
	V2FileContractElementDiffs() []consensus.V2FileContractElementDiff
	ChainIndexElement() types.ChainIndexElement
}

type treeNode struct {
	Row, Col uint64
	H        types.Hash256
}

func treeNodes(u proofUpdater) (ns []treeNode, p any) {
	p, _ = vf.Try(func() { u.ForEachTreeNode(func(r, c uint64, h types.Hash256) { ns = append(ns, treeNode{r, c, h}) }) })
	return
}

func hashesEq(a, b []types.Hash256) bool {
	if len(a) != len(b) {
		return false
	}
	for i := range a {
		if a[i] != b[i] {
			return false
		}
	}
	return true
}

// updatedLeavesIn reports, per tree height (= proof length before the update),
// the leaf indices the update modifies in place.
func updatedLeaves(u proofUpdater, limit uint64) map[uint64]bool {
	m := map[uint64]bool{}
	add := func(se types.StateElement, created bool) {
		if !created && se.LeafIndex < limit {
			m[se.LeafIndex] = true
		}
	}
	for _, d := range u.SiacoinElementDiffs() {
		add(d.SiacoinElement.StateElement, d.Created)
	}
	for _, d := range u.SiafundElementDiffs() {
		add(d.SiafundElement.StateElement, d.Created)
	}
	for _, d := range u.FileContractElementDiffs() {
		add(d.FileContractElement.StateElement, d.Created)
	}
	for _, d := range u.V2FileContractElementDiffs() {
		add(d.V2FileContractElement.StateElement, d.Created)
	}
	return m
}

// compareUpdate is the oracle of part C for one update u (original) and its
// JSON round trip u2. elems are the tracked elements as they were before the
// update, limit excludes elements the update must not be given (leaf >= limit),
// forest is the reference forest of the state the update leads to.
func (e *env) compareUpdate(what string, u, u2 proofUpdater, elems []tracked, limit uint64, forest *spec.Forest, report func(sig, desc string)) {
	e.compareUpdateOpt(what, u, u2, elems, limit, false, forest, report)
}

// compareUpdateOpt: with includeNew the elements at or beyond limit (created by the block itself) are refreshed too.
func (e *env) compareUpdateOpt(what string, u, u2 proofUpdater, elems []tracked, limit uint64, includeNew bool, forest *spec.Forest, report func(sig, desc string)) {
	c := e.c
	// (1) diffs deep-equal
	for _, p := range []struct {
		name string
		a, b any
	}{
		{"SiacoinElementDiffs", u.SiacoinElementDiffs(), u2.SiacoinElementDiffs()},
		{"SiafundElementDiffs", u.SiafundElementDiffs(), u2.SiafundElementDiffs()},
		{"FileContractElementDiffs", u.FileContractElementDiffs(), u2.FileContractElementDiffs()},
		{"V2FileContractElementDiffs", u.V2FileContractElementDiffs(), u2.V2FileContractElementDiffs()},
		{"ChainIndexElement", u.ChainIndexElement(), u2.ChainIndexElement()},
	} {
		c.Count("updates:diff_lists_compared", 1)
		if d := diffAny(p.a, p.b); d != "" {
			report("consensus."+what+"|json round trip|"+p.name+" changed|"+sigPath(d), fmt.Sprintf("%s after JSON round trip reports different %s: %s", what, p.name, d))
		}
	}
	for _, d := range u.V2FileContractElementDiffs() {
		switch d.Resolution.(type) {
		case *types.V2FileContractRenewal:
			c.Count("updates:v2fc_diff_renewal", 1)
		case *types.V2StorageProof:
			c.Count("updates:v2fc_diff_storageProof", 1)
		case *types.V2FileContractExpiration:
			c.Count("updates:v2fc_diff_expiration", 1)
		}
		if d.Revision != nil {
			c.Count("updates:v2fc_diff_revision", 1)
		}
	}
	for _, d := range u.FileContractElementDiffs() {
		if d.Revision != nil {
			c.Count("updates:fc_diff_revision", 1)
		}
		if d.Resolved {
			c.Count("updates:fc_diff_resolved", 1)
		}
	}
	// (2) tree nodes
	n1, p1 := treeNodes(u)
	n2, p2 := treeNodes(u2)
	c.Count("updates:tree_node_lists_compared", 1)
	if p1 != nil {
		report("consensus."+what+"|ForEachTreeNode|original panics", fmt.Sprint(p1))
	} else if p2 != nil {
		report("consensus."+what+"|json round trip|ForEachTreeNode panics", fmt.Sprint(p2))
	} else if !reflect.DeepEqual(n1, n2) {
		report("consensus."+what+"|json round trip|ForEachTreeNode differs", fmt.Sprintf("%d vs %d nodes or different hashes", len(n1), len(n2)))
	}
	// (3) every tracked element
	upd := updatedLeaves(u, limit)
	if len(upd) > 0 {
		c.Count("updates:blocks_with_updated_leaves", 1)
	}
	for _, t := range elems {
		if t.se.LeafIndex >= limit && !includeNew {
			continue
		}
		a, b := copySE(t.se), copySE(t.se)
		pa, _ := vf.Try(func() { u.UpdateElementProof(&a) })
		pb, _ := vf.Try(func() { u2.UpdateElementProof(&b) })
		c.Count("updates:proofs_compared", 1)
		// trigger (for the signature only): is the element itself rewritten by
		// the update, or does it merely share a tree with a rewritten leaf?
		trigger := "element in a tree without updated leaves"
		if upd[t.se.LeafIndex] {
			trigger = "element is itself an updated leaf"
		} else {
			for l := range upd {
				if forestSameTree(uint64(len(t.se.MerkleProof)), t.se.LeafIndex, l) {
					trigger = "element shares a tree with an updated leaf"
					break
				}
			}
		}
		switch {
		case pa != nil:
			report("consensus."+what+".UpdateElementProof|original panics on an up-to-date element", fmt.Sprintf("%s leaf %d: %v", t.kind, t.se.LeafIndex, pa))
			continue
		case pb != nil:
			report("consensus."+what+"|json round trip|UpdateElementProof panics|"+trigger, fmt.Sprintf("%s leaf %d: %v", t.kind, t.se.LeafIndex, pb))
			continue
		}
		if want := forest.Proof(a.LeafIndex); !hashesEq(want, a.MerkleProof) {
			report("consensus."+what+".UpdateElementProof|original differs from reference forest", fmt.Sprintf("%s leaf %d (proof len %d, reference %d)", t.kind, t.se.LeafIndex, len(a.MerkleProof), len(want)))
		}
		if a.LeafIndex != b.LeafIndex || !hashesEq(a.MerkleProof, b.MerkleProof) {
			c.Count("updates:proofs_differ", 1)
			first := -1
			for i := range a.MerkleProof {
				if i >= len(b.MerkleProof) || a.MerkleProof[i] != b.MerkleProof[i] {
					first = i
					break
				}
			}
			report("consensus."+what+"|json round trip|UpdateElementProof gives a different proof|"+trigger,
				fmt.Sprintf("%s element (leaf %d, proof length %d -> %d): proof refreshed by the JSON-round-tripped %s differs from the original's at level %d (lengths %d vs %d); the original's equals the reference forest path", t.kind, t.se.LeafIndex, len(t.se.MerkleProof), len(a.MerkleProof), what, first, len(a.MerkleProof), len(b.MerkleProof)))
		} else {
			c.Count("updates:proofs_equal", 1)
		}
	}
}

// forestSameTree: do leaves x and y lie in the same tree of height h?
func forestSameTree(h uint64, x, y uint64) bool {
	if h >= 64 {
		return false
	}
	return x>>h == y>>h
}

func jsonCopy[T any](v T) (out T, js []byte, err error) {
	if p, _ := vf.Try(func() { js, err = json.Marshal(v) }); p != nil {
		return out, nil, fmt.Errorf("json.Marshal panicked: %v", p)
	}
	if err != nil {
		return
	}
	if p, _ := vf.Try(func() { err = json.Unmarshal(js, &out) }); p != nil {
		return out, js, fmt.Errorf("json.Unmarshal panicked: %v", p)
	}
	return
}

// checkTip runs part C on the tip block of w.
func (e *env) checkTip(w *chain.World, report func(sig, desc string)) {
	c := e.c
	a := w.Hist[len(w.Hist)-1]
	// --- ApplyUpdate
	c.Count("evaluations", 1)
	c.Count("updates:apply_updates", 1)
	au2, js, err := jsonCopy(a.AU)
	if err != nil {
		report("consensus.ApplyUpdate|json round trip|own output rejected", err.Error())
	} else {
		c.DistinctBytes(append([]byte("C/apply|"), js...))
		fo := w.Forest.Clone()
		fo.Build()
		e.compareUpdate("ApplyUpdate", a.AU, au2, allTracked(a.Snap.Store), a.PrevCS.Elements.NumLeaves, &fo, report)
		// elements CREATED by this block: a wallet adds them and then refreshes everything it tracks with the same
		// update, which must leave them untouched - for the round-tripped update as well
		var created []tracked
		for _, t := range allTracked(w.Store) {
			if t.se.LeafIndex >= a.PrevCS.Elements.NumLeaves {
				created = append(created, t)
			}
		}
		c.Count("updates:created_elements_refreshed", int64(len(created)))
		e.compareUpdateOpt("ApplyUpdate", a.AU, au2, created, a.PrevCS.Elements.NumLeaves, true, &fo, report)
		// idempotence of the JSON form
		if js2, err := json.Marshal(au2); err != nil || string(js2) != string(js) {
			report("consensus.ApplyUpdate|json round trip|re-marshalled form differs", fmt.Sprint(err))
		}
		e.sample("C/apply-update", map[string]any{"height": w.Height(), "network": w.Spec.Name, "json": clip(js)})
		// a RE-USED receiver (the subscriber's loop "var au ApplyUpdate; for ... { json.Unmarshal(msg, &au) }"): the
		// previous block's update is decoded first, then this block's update into the same variable; nothing of the
		// previous one may survive
		if len(w.Hist) >= 2 {
			var reused consensus.ApplyUpdate
			jsPrev, errPrev := json.Marshal(w.Hist[len(w.Hist)-2].AU)
			var err1, err2 error
			if p, _ := vf.Try(func() {
				if errPrev == nil {
					err1 = json.Unmarshal(jsPrev, &reused)
				}
				err2 = json.Unmarshal(js, &reused)
			}); p != nil || errPrev != nil || err1 != nil || err2 != nil {
				report("consensus.ApplyUpdate|json decoded into a re-used receiver|own output rejected", fmt.Sprint(p, errPrev, err1, err2))
			} else {
				c.Count("updates:reused_receiver_decodes", 1)
				e.compareUpdate("ApplyUpdate(re-used receiver)", a.AU, reused, allTracked(a.Snap.Store), a.PrevCS.Elements.NumLeaves, &fo, report)
				if js3, err := json.Marshal(reused); err != nil || string(js3) != string(js) {
					report("consensus.ApplyUpdate|json decoded into a re-used receiver|re-marshalled form differs", fmt.Sprint(err))
				}
			}
		}
	}
	// --- RevertUpdate of the same block
	if len(w.Hist) >= 2 {
		c.Count("evaluations", 1)
		c.Count("updates:revert_updates", 1)
		var ru consensus.RevertUpdate
		if p, _ := vf.Try(func() { ru = consensus.RevertBlock(a.PrevCS, a.B, a.BS) }); p != nil {
			report("consensus.RevertBlock|panic", fmt.Sprint(p))
		} else {
			ru2, js, err := jsonCopy(ru)
			if err != nil {
				report("consensus.RevertUpdate|json round trip|own output rejected", err.Error())
			} else {
				c.DistinctBytes(append([]byte("C/revert|"), js...))
				fo := a.Snap.Forest.Clone()
				fo.Build()
				e.compareUpdate("RevertUpdate", ru, ru2, allTracked(w.Store), a.PrevCS.Elements.NumLeaves, &fo, report)
				// re-used receiver: the ApplyUpdate... of a different shape decoded first is not possible across types, so the
				// receiver is primed with the revert update of the PREVIOUS block
				if len(w.Hist) >= 3 {
					pa := w.Hist[len(w.Hist)-2]
					var reused consensus.RevertUpdate
					var e1, e2 error
					if p, _ := vf.Try(func() {
						prev := consensus.RevertBlock(pa.PrevCS, pa.B, pa.BS)
						jsPrev, _ := json.Marshal(prev)
						e1 = json.Unmarshal(jsPrev, &reused)
						e2 = json.Unmarshal(js, &reused)
					}); p != nil || e1 != nil || e2 != nil {
						report("consensus.RevertUpdate|json decoded into a re-used receiver|own output rejected", fmt.Sprint(p, e1, e2))
					} else {
						c.Count("updates:reused_receiver_decodes", 1)
						e.compareUpdate("RevertUpdate(re-used receiver)", ru, reused, allTracked(w.Store), a.PrevCS.Elements.NumLeaves, &fo, report)
						if js3, err := json.Marshal(reused); err != nil || string(js3) != string(js) {
							report("consensus.RevertUpdate|json decoded into a re-used receiver|re-marshalled form differs", fmt.Sprint(err))
						}
					}
				}
			}
		}
	}
	// --- real values of the record types
	for _, v := range []struct {
		name string
		v    any
	}{{"types.Block", a.B}, {"consensus.State", w.CS}, {"consensus.V1BlockSupplement", a.BS}, {"consensus.Network", *w.Net}} {
		c.Count("evaluations", 1)
		c.Count("updates:real_values_roundtripped", 1)
		rv := reflect.ValueOf(v.v)
		if o := rtJSON(rv); o.class != "" {
			e.reportRT("C/real-values", 0, "real chain value", v.name, rv, report)
		}
	}
	// the decoded state must be usable: same encoding as the original
	if cs2, _, err := jsonCopy(w.CS); err == nil {
		cs2.Network = w.CS.Network
		if string(chain.StateBytes(cs2)) != string(chain.StateBytes(w.CS)) {
			report("consensus.State|json round trip|binary encoding differs", "state decoded from JSON encodes differently")
		}
	}
}

func (e *env) runUpdates() {
	c := e.c
	nets := []string{"mixed", "v1-eras", "v2-only"}
	if e.thorough {
		nets = append(nets, "v2-eph5", "v1-mid")
	}
	for _, n := range nets {
		if c.Expired() {
			break
		}
		sp := chain.Spec(n)
		m := &chain.Model{Name: "c20-updates", Spec: sp, Menu: updMenu, Opt: updOpt, LeafKey: true,
			H: vfPick[uint64](e.thorough, 6, 8), D: vfPick(e.thorough, 2, 3), K: 1, R: vfPick(e.thorough, 1, 2)}
		if sp.Name == "mixed" {
			m.SkipStart = 3
			m.H += 3
		}
		m.OnTransition = func(x *chain.Explorer, prev, w *chain.World, path []string) {
			e.checkTip(w, func(sig, desc string) { x.Violate(sig, desc, path) })
		}
		x := chain.NewExplorer(c, m, "C20")
		x.Run()
		// copy the explorer's counters under a prefix (evaluations are counted by checkTip)
		c.Count("updates:states", x.States.Load())
		c.Count("updates:blocks_applied", x.Accepted.Load())
		reportExplorer(c, x, n)
	}
}

func reportExplorer(c *vf.Ctx, x *chain.Explorer, net string) {
	c.Set("updates/"+net+"/bounds", map[string]any{"H": x.M.H, "D": x.M.D, "K": x.M.K, "R": x.M.R, "states": x.States.Load(), "transitions": x.Transitions.Load(), "accepted": x.Accepted.Load(), "rejected": x.Rejected.Load()})
}

// replayUpdate replays a recorded chain trace and runs part C on every block.
func replayUpdate(c *vf.Ctx, raw json.RawMessage) {
	var tc chain.TraceCase
	if err := json.Unmarshal(raw, &tc); err != nil || tc.Network == "" {
		c.HarnessError("bad case descriptor")
		return
	}
	e := newEnv(c, false, tc.Seed)
	// re-execute the trace step by step so that part C runs on every applied block
	for n := 1; n <= len(tc.Trace); n++ {
		sub := tc
		sub.Trace = tc.Trace[:n]
		if len(sub.Trace) > 0 && len(sub.Trace[n-1]) >= 6 && sub.Trace[n-1][:6] == "revert" {
			continue
		}
		r, _ := json.Marshal(sub)
		w := chain.ReplayTraceWorld(c, r, func(string) func(w *chain.World) []chain.Action { return updMenu }, "C20", updOpt)
		if w == nil {
			return
		}
		e.checkTip(w, func(sig, desc string) { c.Violate("C20|"+sig, desc, sub) })
	}
}

var _ = sort.Strings
