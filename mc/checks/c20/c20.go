// Package c20: text and JSON forms round-trip and reject corrupted identifiers.
//
//	A. parse(print(v)) == v over structured finite domains for every public type
//	   with a textual or JSON form (scalars exhaustively over boundary sets,
//	   records by single-field deviations from four reflection-generated bases);
//	B. every enumerated corruption of an identifier (checksum, length, alphabet,
//	   prefix) is rejected with an error - never a panic, never a different value;
//	C. on real chains, an ApplyUpdate / RevertUpdate that went through JSON
//	   refreshes the proof of EVERY tracked element exactly as the original.
package c20

import (
	"encoding/json"
	"fmt"
	"reflect"
	"sort"
	"strings"
	"sync"
	"time"

	"verifmc/vf"
)

func init() {
	vf.Register(&vf.Check{ID: "C20", Level: "exploration", Run: run, Replay: replay})
}

// caseRef is the replayable descriptor of one case: the family, the index
// inside the family's deterministic enumeration and (for record families) the
// deviation inside the job.
type caseRef struct {
	Family string `json:"family"`
	Index  int    `json:"index"`
	Sub    string `json:"sub,omitempty"`
	Tier   string `json:"tier"`
	Seed   int64  `json:"seed"`
	Desc   string `json:"desc,omitempty"`
}

type env struct {
	c        *vf.Ctx
	thorough bool
	seed     int64
	onlySub  string // replay: restrict a job to one deviation

	mu       sync.Mutex
	outcomes map[string]map[string]int64 // family -> outcome -> n
	sampled  map[string]bool
}

func newEnv(c *vf.Ctx, thorough bool, seed int64) *env {
	return &env{c: c, thorough: thorough, seed: seed, outcomes: map[string]map[string]int64{}, sampled: map[string]bool{}}
}

func (e *env) tier() string {
	if e.thorough {
		return "thorough"
	}
	return "quick"
}

func (e *env) violate(sig, desc, fam string, idx int, sub string) {
	e.c.Violate("C20|"+sig, desc, caseRef{Family: fam, Index: idx, Sub: sub, Tier: e.tier(), Seed: e.seed, Desc: desc})
}

func (e *env) outcome(fam, out string) {
	e.mu.Lock()
	m := e.outcomes[fam]
	if m == nil {
		m = map[string]int64{}
		e.outcomes[fam] = m
	}
	m[out]++
	e.mu.Unlock()
}

// sample records one actual case per family.
func (e *env) sample(fam string, v any) {
	e.mu.Lock()
	ok := !e.sampled[fam]
	e.sampled[fam] = true
	e.mu.Unlock()
	if ok {
		e.c.Sample(map[string]any{"family": fam, "case": v})
	}
}

// eval counts one executed case.
func (e *env) eval(fam string) {
	e.c.Count("evaluations", 1)
	e.c.Count("cases:"+fam, 1)
}

// A family is one deterministic enumeration of cases.
type family struct {
	name string
	n    int
	run  func(i int)
}

func (e *env) families() []*family {
	var fs []*family
	fs = append(fs, e.scalarFamilies()...)
	fs = append(fs, e.policyFamilies()...)
	fs = append(fs, e.recordFamilies()...)
	fs = append(fs, e.corruptionFamilies()...)
	return fs
}

func run(c *vf.Ctx) {
	e := newEnv(c, !c.Quick(), c.Seed)
	c.Set("rule", "A: every value of per-type structured finite domains (boundary sets for integers/currencies/times, all 256 one-byte specifiers and quoting-relevant multi-byte ones, every key-algorithm shape, all seven policy kinds nested <=3, and for every record type four reflection-generated bases x every single-field deviation over the field type's domain; thorough adds pairwise deviations) is printed (MarshalText/String/MarshalJSON) and parsed back; oracle: equal after the allowed normalisations. B: for every identifier type every enumerated corruption (16 addresses x 76 positions x 15 other hex digits, length +-1/+-2/x2/half/empty, a non-hex character at every position, every single-character change of a textual prefix) must be rejected (error; never panic, never a different value). C: explicit-state exploration of mixed v1/v2 chains; for every applied block the ApplyUpdate and the RevertUpdate go through JSON and refresh EVERY tracked element; oracle: proofs byte-equal to the original's and to the reference forest path, diffs deep-equal, tree nodes equal. A case is distinct/non-trivial when its printed form (A), corrupted input (B) or canonical chain state (C) differs from every other case of its family")
	inv := inventory(c)
	fams := e.families()
	sizes := map[string]int{}
	walls := map[string]float64{}
	for _, f := range fams {
		if c.Expired() {
			break
		}
		f := f
		sizes[f.name] += f.n
		t0 := time.Now()
		vf.ParallelFor(f.n, func(i int) {
			if c.Expired() {
				return
			}
			f.run(i)
		})
		walls[f.name] += time.Since(t0).Seconds()
	}
	c.Set("family_jobs", sizes)
	t0 := time.Now()
	e.runUpdates()
	walls["C/updates"] = time.Since(t0).Seconds()
	c.Set("family_wall_s (informational, never an oracle)", walls)
	c.Set("outcomes", e.outcomes)
	// coverage of the mechanically built inventory by the registry of types
	covered, uncovered := coverInventory(inv)
	c.Set("inventory_types_covered", covered)
	c.Set("inventory_types_not_covered", uncovered)
	if len(uncovered) > 0 {
		c.NotExhaustive(fmt.Sprintf("%d inventory types have no generator (see inventory_types_not_covered)", len(uncovered)))
	}
	// vacuity guards
	c.RequireFeature("evaluations", "corrupt:rejected", "roundtrip:ok", "updates:apply_updates", "updates:revert_updates", "updates:proofs_compared",
		"updates:blocks_with_updated_leaves", "updates:v2fc_diff_renewal", "updates:v2fc_diff_storageProof", "updates:v2fc_diff_expiration", "updates:fc_diff_revision")
	c.Assume("hash functions are uninterpreted: identifier bytes come from a seed-salted stream; the seed never selects what is explored")
	c.Assume("values JSON cannot represent (strings that are not valid UTF-8, timestamps outside years 0-9999, time zones with a seconds component) and invalid values (nil policy, nil resolution, accumulator roots at heights without a tree) are outside the domain")
	c.Assume("records: single-field (thorough: also pairwise) deviations from four bases; combinations of three or more simultaneous unusual fields are not covered")
}

func replay(c *vf.Ctx, raw json.RawMessage) {
	var cr caseRef
	if err := json.Unmarshal(raw, &cr); err == nil && cr.Family != "" {
		e := newEnv(c, cr.Tier == "thorough", cr.Seed)
		e.onlySub = cr.Sub
		for _, f := range e.families() {
			if f.name == cr.Family {
				if cr.Index < 0 || cr.Index >= f.n {
					c.HarnessError("case index %d outside family %s (size %d)", cr.Index, f.name, f.n)
					return
				}
				f.run(cr.Index)
				return
			}
		}
		c.HarnessError("unknown family %q", cr.Family)
		return
	}
	replayUpdate(c, raw)
}

// ---------------------------------------------------------------------------
// JSON round trip of one value (the oracle of every record family).
// ---------------------------------------------------------------------------

func sigPath(d string) string {
	if i := strings.Index(d, ": "); i >= 0 {
		d = d[:i]
	}
	return stripIdx(d)
}

// rtOutcome is the result of one JSON round trip of a value.
type rtOutcome struct {
	class  string // "" = ok
	detail string
	js     []byte
}

// rtJSON marshals v, unmarshals into a fresh value of the same type, compares.
func rtJSON(v reflect.Value) rtOutcome {
	var b []byte
	var err error
	if p, _ := vf.Try(func() { b, err = json.Marshal(v.Interface()) }); p != nil {
		return rtOutcome{class: "json.Marshal panics", detail: fmt.Sprint(p)}
	}
	if err != nil {
		return rtOutcome{class: "json.Marshal fails", detail: err.Error()}
	}
	out := reflect.New(v.Type())
	if p, _ := vf.Try(func() { err = json.Unmarshal(b, out.Interface()) }); p != nil {
		return rtOutcome{class: "json.Unmarshal of own output panics", detail: fmt.Sprint(p), js: b}
	}
	if err != nil {
		return rtOutcome{class: "own JSON output rejected", detail: err.Error(), js: b}
	}
	if d := diffValues(v, out.Elem(), ""); d != "" {
		return rtOutcome{class: "value changed", detail: d, js: b}
	}
	return rtOutcome{js: b}
}

// atomicForDescent: types whose insides are not separately JSON values.
func atomicForDescent(t reflect.Type) bool {
	switch t {
	case typTime, typCurrency, typPolicy, typWork, typAccumulator, typSpecifier, typProtoVer, typNetworkPtr:
		return true
	}
	return false
}

// minimalFailing descends from a failing value to the smallest component
// (field, element, pointee, resolution) that still fails its own JSON round
// trip. Used only to give a violation the signature of the DEFECT (the type
// whose marshaler is wrong) instead of the type the case happened to start from.
func minimalFailing(v reflect.Value) reflect.Value {
	t := v.Type()
	if atomicForDescent(t) {
		return v
	}
	try := func(c reflect.Value) (reflect.Value, bool) {
		if !c.IsValid() || !c.CanInterface() {
			return c, false
		}
		switch c.Kind() {
		case reflect.Struct, reflect.Slice, reflect.Array, reflect.Pointer, reflect.Interface:
		default:
			return c, false
		}
		if (c.Kind() == reflect.Pointer || c.Kind() == reflect.Interface || c.Kind() == reflect.Slice) && c.IsNil() {
			return c, false
		}
		if c.Kind() == reflect.Interface {
			c = c.Elem()
		}
		if rtJSON(c).class != "" {
			return minimalFailing(c), true
		}
		return c, false
	}
	switch v.Kind() {
	case reflect.Struct:
		for i := 0; i < t.NumField(); i++ {
			if !t.Field(i).IsExported() {
				continue
			}
			if m, ok := try(v.Field(i)); ok {
				return m
			}
		}
	case reflect.Slice, reflect.Array:
		if t.Elem().Kind() == reflect.Uint8 {
			return v
		}
		for i := 0; i < v.Len(); i++ {
			if m, ok := try(v.Index(i)); ok {
				return m
			}
		}
	case reflect.Pointer:
		if !v.IsNil() {
			if m, ok := try(v.Elem()); ok {
				return m
			}
		}
	}
	return v
}

// typeName: package-qualified name with the repository-relative package path.
func typeName(t reflect.Type) string {
	if t.Name() != "" && t.PkgPath() != "" {
		return strings.TrimPrefix(t.PkgPath(), "go.sia.tech/core/") + "." + t.Name()
	}
	switch t.Kind() {
	case reflect.Pointer:
		return "*" + typeName(t.Elem())
	case reflect.Slice:
		return "[]" + typeName(t.Elem())
	}
	return t.String()
}

// firstField returns the first component of a diff path (two components when
// the first one is an embedded struct).
func firstField(t reflect.Type, d string) string {
	p := sigPath(d)
	parts := strings.Split(strings.TrimPrefix(p, "."), ".")
	if len(parts) == 0 || parts[0] == "" {
		return p
	}
	for t.Kind() == reflect.Pointer || t.Kind() == reflect.Slice || t.Kind() == reflect.Array {
		t = t.Elem()
	}
	if t.Kind() == reflect.Struct && len(parts) > 1 {
		name := parts[0]
		if i := strings.IndexByte(name, '('); i >= 0 {
			name = name[:i]
		}
		if f, ok := t.FieldByName(name); ok && f.Anonymous {
			return "." + parts[0] + "." + parts[1]
		}
	}
	return "." + parts[0]
}

// reportRT turns a failed round trip of root into a violation whose signature
// names the smallest failing component.
func (e *env) reportRT(fam string, idx int, sub, rootName string, root reflect.Value, report func(sig, desc string)) {
	m := minimalFailing(root)
	o := rtJSON(m)
	if o.class == "" { // cannot happen: minimalFailing only returns failing values (or root)
		m, o = root, rtJSON(root)
	}
	name := typeName(m.Type())
	sig := name + "|json round trip|" + o.class
	if o.class == "value changed" {
		sig += "|" + firstField(m.Type(), o.detail)
	}
	desc := fmt.Sprintf("%s: %s: %s; smallest failing component %s json=%s [case: %s %s]", name, o.class, o.detail, name, clip(o.js), rootName, sub)
	if report != nil {
		report(sig, desc)
		return
	}
	e.violate(sig, desc, fam, idx, sub)
}

// jsonRoundTrip is the oracle of every record family. It returns false if a
// violation was reported.
func (e *env) jsonRoundTrip(fam string, idx int, sub, typName string, v reflect.Value) bool {
	o := rtJSON(v)
	if o.js != nil {
		e.c.DistinctBytes(append([]byte(fam+"|"+typName+"|"), o.js...))
	}
	if o.class != "" {
		e.reportRT(fam, idx, sub, typName, v, nil)
		return false
	}
	e.c.Count("roundtrip:ok", 1)
	e.sample(fam, map[string]any{"type": typName, "deviation": sub, "json": clip(o.js)})
	return true
}

func clip(b []byte) string {
	if len(b) > 600 {
		return string(b[:600]) + "...(" + fmt.Sprint(len(b)) + " bytes)"
	}
	return string(b)
}

func sortedKeys[V any](m map[string]V) []string {
	ks := make([]string, 0, len(m))
	for k := range m {
		ks = append(ks, k)
	}
	sort.Strings(ks)
	return ks
}
