package c20

import (
	"fmt"
	"reflect"
	"strings"
	"time"

	"go.sia.tech/core/consensus"
	"go.sia.tech/core/types"
)

// diffValues is the "equal" of the property: deep equality after the
// normalisations the property allows. It returns "" when a and b are equal,
// otherwise "<path of the first difference>: <short description>".
//
// Normalisations (each one is something JSON cannot distinguish or that the
// code documents as not carried):
//   - time.Time (and PolicyTypeAfter) are compared as instants;
//   - nil and empty slices are the same collection;
//   - StateElement.shared (unexported ownership flag) is ignored;
//   - State.Network (json:"-", "network parameters are not encoded") is ignored;
//   - ElementAccumulator.Trees[h] for heights h without a tree (bit h of
//     NumLeaves clear) are ignored: neither encoding carries them;
//   - FileContractRevision.Payout (documented as invalid in a revision, a
//     sentinel is stored when decoding) is ignored.
//
// Unexported fields (Work.n) are compared through kind-specific getters.
func diffValues(a, b reflect.Value, path string) string {
	var d differ
	if d.eq(a, b) {
		return ""
	}
	// segments were pushed innermost first
	var sb strings.Builder
	sb.WriteString(path)
	for i := len(d.segs) - 1; i >= 0; i-- {
		sb.WriteString(d.segs[i])
	}
	return sb.String() + ": " + d.desc
}

type differ struct {
	desc string
	segs []string
}

func (d *differ) fail(format string, a ...any) bool {
	d.desc = fmt.Sprintf(format, a...)
	return false
}

func (d *differ) at(seg string) bool {
	d.segs = append(d.segs, seg)
	return false
}

func (d *differ) eq(a, b reflect.Value) bool {
	if a.Type() != b.Type() {
		return d.fail("type %v vs %v", a.Type(), b.Type())
	}
	t := a.Type()
	switch t {
	case typTime:
		if a.CanInterface() {
			ta, tb := a.Interface().(time.Time), b.Interface().(time.Time)
			if !ta.Equal(tb) {
				return d.fail("instant %s vs %s", ta.UTC().Format(time.RFC3339Nano), tb.UTC().Format(time.RFC3339Nano))
			}
			return true
		}
	case typPolicyAfter:
		if a.CanInterface() {
			ta, tb := time.Time(a.Interface().(types.PolicyTypeAfter)), time.Time(b.Interface().(types.PolicyTypeAfter))
			if !ta.Equal(tb) {
				return d.fail("after() instant %d vs %d", ta.Unix(), tb.Unix())
			}
			return true
		}
	case typAccumulator:
		na, nb := a.Field(1).Uint(), b.Field(1).Uint()
		if na != nb {
			d.fail("%d vs %d", na, nb)
			return d.at(".NumLeaves")
		}
		for i := 0; i < 64; i++ {
			if na&(1<<uint(i)) != 0 {
				if !d.eq(a.Field(0).Index(i), b.Field(0).Index(i)) {
					return d.at(fmt.Sprintf(".Trees[%d]", i))
				}
			}
		}
		return true
	}
	switch a.Kind() {
	case reflect.Bool:
		if a.Bool() != b.Bool() {
			return d.fail("%v vs %v", a.Bool(), b.Bool())
		}
	case reflect.Int, reflect.Int8, reflect.Int16, reflect.Int32, reflect.Int64:
		if a.Int() != b.Int() {
			return d.fail("%d vs %d", a.Int(), b.Int())
		}
	case reflect.Uint, reflect.Uint8, reflect.Uint16, reflect.Uint32, reflect.Uint64:
		if a.Uint() != b.Uint() {
			return d.fail("%d vs %d", a.Uint(), b.Uint())
		}
	case reflect.String:
		if a.String() != b.String() {
			return d.fail("%q vs %q", a.String(), b.String())
		}
	case reflect.Array:
		if t.Elem().Kind() == reflect.Uint8 {
			for i := 0; i < a.Len(); i++ {
				if a.Index(i).Uint() != b.Index(i).Uint() {
					return d.fail("bytes %x vs %x", arrayBytes(a), arrayBytes(b))
				}
			}
			return true
		}
		for i := 0; i < a.Len(); i++ {
			if !d.eq(a.Index(i), b.Index(i)) {
				return d.at(fmt.Sprintf("[%d]", i))
			}
		}
	case reflect.Slice:
		if a.Len() != b.Len() {
			return d.fail("length %d vs %d", a.Len(), b.Len())
		}
		if t.Elem().Kind() == reflect.Uint8 {
			for i := 0; i < a.Len(); i++ {
				if a.Index(i).Uint() != b.Index(i).Uint() {
					return d.fail("bytes differ at %d", i)
				}
			}
			return true
		}
		for i := 0; i < a.Len(); i++ {
			if !d.eq(a.Index(i), b.Index(i)) {
				return d.at(fmt.Sprintf("[%d]", i))
			}
		}
	case reflect.Pointer:
		if a.IsNil() != b.IsNil() {
			return d.fail("nil=%v vs nil=%v", a.IsNil(), b.IsNil())
		}
		if !a.IsNil() {
			return d.eq(a.Elem(), b.Elem())
		}
	case reflect.Interface:
		if a.IsNil() != b.IsNil() {
			return d.fail("nil=%v vs nil=%v", a.IsNil(), b.IsNil())
		}
		if !a.IsNil() {
			if a.Elem().Type() != b.Elem().Type() {
				return d.fail("dynamic type %v vs %v", a.Elem().Type(), b.Elem().Type())
			}
			if !d.eq(a.Elem(), b.Elem()) {
				return d.at("(" + a.Elem().Type().String() + ")")
			}
		}
	case reflect.Struct:
		for i := 0; i < t.NumField(); i++ {
			f := t.Field(i)
			if t == typStateElement && f.Name == "shared" {
				continue
			}
			if t == typState && f.Name == "Network" {
				continue
			}
			if t == typFCRevision && f.Name == "FileContract" {
				// compare the embedded contract without Payout
				fa, fb := a.Field(i), b.Field(i)
				for j := 0; j < f.Type.NumField(); j++ {
					if f.Type.Field(j).Name == "Payout" {
						continue
					}
					if !d.eq(fa.Field(j), fb.Field(j)) {
						return d.at(".FileContract." + f.Type.Field(j).Name)
					}
				}
				continue
			}
			if !d.eq(a.Field(i), b.Field(i)) {
				return d.at("." + f.Name)
			}
		}
	case reflect.Map:
		if a.Len() != b.Len() {
			return d.fail("map length %d vs %d", a.Len(), b.Len())
		}
		for _, k := range a.MapKeys() {
			bv := b.MapIndex(k)
			if !bv.IsValid() {
				d.fail("missing key")
				return d.at(fmt.Sprintf("[%v]", k))
			}
			if !d.eq(a.MapIndex(k), bv) {
				return d.at(fmt.Sprintf("[%v]", k))
			}
		}
	default:
		return d.fail("unsupported kind %v", a.Kind())
	}
	return true
}

func arrayBytes(v reflect.Value) []byte {
	b := make([]byte, v.Len())
	for i := range b {
		b[i] = byte(v.Index(i).Uint())
	}
	return b
}

func diffAny(a, b any) string {
	return diffValues(reflect.ValueOf(a), reflect.ValueOf(b), "")
}

var (
	typTime         = reflect.TypeOf(time.Time{})
	typPolicyAfter  = reflect.TypeOf(types.PolicyTypeAfter{})
	typStateElement = reflect.TypeOf(types.StateElement{})
	typState        = reflect.TypeOf(consensus.State{})
	typFCRevision   = reflect.TypeOf(types.FileContractRevision{})
)

// stripIdx removes indices from a path so it can be used in a signature.
func stripIdx(p string) string {
	out := make([]byte, 0, len(p))
	depth := 0
	for i := 0; i < len(p); i++ {
		switch p[i] {
		case '[':
			depth++
		case ']':
			depth--
		default:
			if depth == 0 {
				out = append(out, p[i])
			}
		}
	}
	return string(out)
}
