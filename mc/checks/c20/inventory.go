package c20

import (
	"go/ast"
	"go/parser"
	"go/token"
	"os"
	"path/filepath"
	"sort"
	"strings"

	"verifmc/vf"
)

// inv is the mechanically built inventory of textual / JSON forms: parsed from
// the source tree under test at run time, so that a marshaler or a tagged
// struct added later shows up as "not covered" without touching the harness.
type inv struct {
	methods     []string        // "pkg.Type.Method" for MarshalText/UnmarshalText/MarshalJSON/UnmarshalJSON/String and "pkg.ParseX"
	taggedTypes []string        // exported struct types with at least one json tag
	methodTypes map[string]bool // types owning at least one custom (un)marshaler or Stringer+Parse
}

var invPkgs = []string{"types", "consensus", "rhp/v2", "rhp/v3", "rhp/v4", "gateway"}

func inventory(c *vf.Ctx) *inv {
	repo := os.Getenv("VERIF_REPO")
	if repo == "" {
		repo = "/repo"
	}
	res := &inv{methodTypes: map[string]bool{}}
	fset := token.NewFileSet()
	for _, pkg := range invPkgs {
		files, _ := filepath.Glob(filepath.Join(repo, pkg, "*.go"))
		for _, fn := range files {
			if strings.HasSuffix(fn, "_test.go") {
				continue
			}
			f, err := parser.ParseFile(fset, fn, nil, 0)
			if err != nil {
				c.HarnessError("inventory: cannot parse %s: %v", fn, err)
				continue
			}
			for _, d := range f.Decls {
				switch d := d.(type) {
				case *ast.FuncDecl:
					name := d.Name.Name
					if d.Recv == nil {
						if strings.HasPrefix(name, "Parse") && ast.IsExported(name) {
							res.methods = append(res.methods, pkg+"."+name)
						}
						continue
					}
					switch name {
					case "MarshalText", "UnmarshalText", "MarshalJSON", "UnmarshalJSON", "String":
					default:
						continue
					}
					tn := recvName(d.Recv.List[0].Type)
					if !ast.IsExported(tn) {
						continue
					}
					res.methods = append(res.methods, pkg+"."+tn+"."+name)
					if name != "String" {
						res.methodTypes[pkg+"."+tn] = true
					}
				case *ast.GenDecl:
					if d.Tok != token.TYPE {
						continue
					}
					for _, s := range d.Specs {
						ts := s.(*ast.TypeSpec)
						st, ok := ts.Type.(*ast.StructType)
						if !ok || !ast.IsExported(ts.Name.Name) {
							continue
						}
						if hasJSONTag(st) {
							res.taggedTypes = append(res.taggedTypes, pkg+"."+ts.Name.Name)
						}
					}
				}
			}
		}
	}
	sort.Strings(res.methods)
	sort.Strings(res.taggedTypes)
	nm := map[string]int{}
	for _, m := range res.methods {
		nm[m[strings.LastIndex(m, ".")+1:]]++
	}
	c.Set("inventory", map[string]any{
		"custom_methods_and_parse_functions":   len(res.methods),
		"by_method":                            nm,
		"types_with_custom_marshalers":         len(res.methodTypes),
		"exported_struct_types_with_json_tags": len(res.taggedTypes),
		"packages":                             invPkgs,
	})
	return res
}

func recvName(e ast.Expr) string {
	switch t := e.(type) {
	case *ast.StarExpr:
		return recvName(t.X)
	case *ast.Ident:
		return t.Name
	case *ast.IndexExpr:
		return recvName(t.X)
	}
	return ""
}

func hasJSONTag(st *ast.StructType) bool {
	for _, f := range st.Fields.List {
		if f.Tag != nil && strings.Contains(f.Tag.Value, `json:"`) {
			return true
		}
	}
	return false
}

// coverInventory compares the inventory with the registry of covered types.
func coverInventory(in *inv) (covered int, uncovered []string) {
	reg := registryNames()
	all := map[string]bool{}
	for t := range in.methodTypes {
		all[t] = true
	}
	for _, t := range in.taggedTypes {
		all[t] = true
	}
	// types with only a String method + Parse function are in methods; attribute by name
	for _, m := range in.methods {
		parts := strings.Split(m, ".")
		if len(parts) == 3 {
			all[parts[0]+"."+parts[1]] = true
		}
	}
	for t := range all {
		if reg[t] {
			covered++
		} else {
			uncovered = append(uncovered, t)
		}
	}
	sort.Strings(uncovered)
	return
}
