package c20

import (
	"bytes"
	"encoding"
	"encoding/hex"
	"encoding/json"
	"fmt"
	"math/big"
	"reflect"
	"strings"

	"go.sia.tech/core/consensus"
	rhp3 "go.sia.tech/core/rhp/v3"
	rhp4 "go.sia.tech/core/rhp/v4"
	"go.sia.tech/core/types"
)

// textRoundTrip: MarshalText -> UnmarshalText into a fresh value of the same type.
func (e *env) textRoundTrip(fam string, idx int, typName string, v any) (string, bool) {
	m, ok := v.(encoding.TextMarshaler)
	if !ok {
		e.c.HarnessError("%s is not a TextMarshaler", typName)
		return "", false
	}
	var b []byte
	var err error
	if p, _ := tryFn(func() { b, err = m.MarshalText() }); p != nil || err != nil {
		e.violate(typName+"|MarshalText|fails", fmt.Sprintf("%s.MarshalText failed: %v %v", typName, p, err), fam, idx, "")
		return "", false
	}
	e.c.DistinctBytes(append([]byte(fam+"|text|"+typName+"|"), b...))
	out := reflect.New(reflect.TypeOf(v))
	if p, _ := tryFn(func() { err = out.Interface().(encoding.TextUnmarshaler).UnmarshalText(b) }); p != nil {
		e.violate(typName+"|UnmarshalText(own output)|panic", fmt.Sprintf("%s.UnmarshalText(%q) panicked: %v", typName, b, p), fam, idx, "")
		return string(b), false
	}
	if err != nil {
		e.violate(typName+"|UnmarshalText(own output)|rejected", fmt.Sprintf("%s does not parse its own text %q: %v", typName, b, err), fam, idx, "")
		return string(b), false
	}
	if d := diffValues(reflect.ValueOf(v), out.Elem(), ""); d != "" {
		e.violate(typName+"|text round trip|value changed", fmt.Sprintf("%s text round trip via %q changed the value: %s", typName, b, d), fam, idx, "")
		return string(b), false
	}
	e.c.Count("roundtrip:ok", 1)
	return string(b), true
}

func bigToCurrency(b *big.Int) types.Currency {
	lo := new(big.Int).And(b, new(big.Int).SetUint64(^uint64(0))).Uint64()
	hi := new(big.Int).Rsh(b, 64).Uint64()
	return types.NewCurrency(lo, hi)
}

func currencyValues(thorough bool) []*big.Int {
	seen := map[string]bool{}
	var out []*big.Int
	two128 := new(big.Int).Lsh(big.NewInt(1), 128)
	add := func(b *big.Int) {
		if b.Sign() < 0 || b.Cmp(two128) >= 0 || seen[b.String()] {
			return
		}
		seen[b.String()] = true
		out = append(out, new(big.Int).Set(b))
	}
	step := 4
	if thorough {
		step = 1
	}
	for k := 0; k <= 128; k += step {
		p := new(big.Int).Lsh(big.NewInt(1), uint(k))
		add(new(big.Int).Sub(p, big.NewInt(1)))
		add(p)
		add(new(big.Int).Add(p, big.NewInt(1)))
	}
	for ex := 0; ex <= 38; ex++ {
		p := new(big.Int).Exp(big.NewInt(10), big.NewInt(int64(ex)), nil)
		add(p)
		add(new(big.Int).Sub(p, big.NewInt(1)))
		add(new(big.Int).Add(p, big.NewInt(1)))
		add(new(big.Int).Mul(p, big.NewInt(123)))
		add(new(big.Int).Mul(p, big.NewInt(1005)))
	}
	add(big.NewInt(0))
	return out
}

var currencyUnits = []struct {
	name string
	exp  int
}{{"pS", 12}, {"nS", 15}, {"uS", 18}, {"mS", 21}, {"SC", 24}, {"KS", 27}, {"MS", 30}, {"GS", 33}, {"TS", 36}}

// decimalIn writes the exact decimal expansion of b / 10^exp (reference printer).
func decimalIn(b *big.Int, exp int) string {
	s := b.String()
	for len(s) <= exp {
		s = "0" + s
	}
	ip, fp := s[:len(s)-exp], strings.TrimRight(s[len(s)-exp:], "0")
	if fp == "" {
		return ip
	}
	return ip + "." + fp
}

func (e *env) scalarFamilies() []*family {
	var fs []*family
	// ---- currencies: exact / unit-suffixed / JSON
	{
		vals := currencyValues(e.thorough)
		fam := "A/currency"
		fs = append(fs, &family{name: fam, n: len(vals), run: func(i int) {
			B := vals[i]
			c := bigToCurrency(B)
			check := func(form, s string) {
				e.eval(fam)
				var got types.Currency
				var err error
				if p, _ := tryFn(func() { got, err = types.ParseCurrency(s) }); p != nil || err != nil {
					e.violate("types.Currency|ParseCurrency("+form+")|rejected", fmt.Sprintf("ParseCurrency(%q) (form %s of %s) failed: %v %v", s, form, B, p, err), fam, i, form)
					return
				}
				if got != c {
					e.violate("types.Currency|ParseCurrency("+form+")|value changed", fmt.Sprintf("ParseCurrency(%q) = %d, want %s", s, got, B), fam, i, form)
					return
				}
				e.c.Count("roundtrip:ok", 1)
				e.c.DistinctBytes([]byte(fam + "|" + s))
			}
			check("ExactString", c.ExactString())
			check("String", c.String())
			check("%d", fmt.Sprintf("%d", c))
			check("%v", fmt.Sprintf("%v", c))
			if c.ExactString() != B.String() {
				e.violate("types.Currency|ExactString|wrong digits", fmt.Sprintf("ExactString()=%q want %s", c.ExactString(), B), fam, i, "ExactString")
			}
			e.eval(fam)
			e.textRoundTrip(fam, i, "types.Currency", c)
			e.eval(fam)
			e.jsonRoundTrip(fam, i, "json", "types.Currency", reflect.ValueOf(c))
			if js, _ := json.Marshal(c); string(js) != `"`+B.String()+`"` {
				e.violate("types.Currency|MarshalJSON|not the quoted exact integer", fmt.Sprintf("JSON form %s, want \"%s\"", js, B), fam, i, "json")
			}
			// reference-printed unit forms (independent of Currency.String)
			check("ref-H", B.String()+" H")
			for _, u := range currencyUnits {
				check("ref-"+u.name, decimalIn(B, u.exp)+" "+u.name)
			}
		}})
	}
	// ---- identifiers: reference print == code print; parse back
	{
		tts := textTypes()
		fam := "A/identifier"
		type item struct {
			tt textType
			b  []byte
		}
		var items []item
		for _, tt := range tts {
			for _, b := range idValues(e.seed, tt.n) {
				items = append(items, item{tt, b})
			}
		}
		fs = append(fs, &family{name: fam, n: len(items), run: func(i int) {
			it := items[i]
			v := it.tt.make(it.b)
			want := it.tt.print(it.b)
			e.eval(fam)
			got, ok := e.textRoundTrip(fam, i, it.tt.name, v)
			if ok && got != want {
				e.violate(it.tt.name+"|MarshalText|differs from documented format", fmt.Sprintf("MarshalText=%q, format description gives %q", got, want), fam, i, "")
			}
			if s, ok := v.(fmt.Stringer); ok {
				e.eval(fam)
				if s.String() != want {
					e.violate(it.tt.name+"|String|differs from MarshalText", fmt.Sprintf("String()=%q MarshalText=%q", s.String(), want), fam, i, "")
				}
			}
			// the reference text parses to the value
			e.eval(fam)
			if out, why := classify(it.tt.parse, want, v); out != outSame {
				e.violate(it.tt.name+"|UnmarshalText(reference text)|"+out, fmt.Sprintf("parsing %q: %s %s", want, out, why), fam, i, "")
			}
			if it.tt.parse2 != nil {
				e.eval(fam)
				if out, why := classify(it.tt.parse2, want, v); out != outSame {
					e.violate(it.tt.name+"|Parse(reference text)|"+out, fmt.Sprintf("parsing %q: %s %s", want, out, why), fam, i, "")
				}
			}
			e.eval(fam)
			e.jsonRoundTrip(fam, i, "json", it.tt.name, reflect.ValueOf(v))
			if js, err := json.Marshal(v); err == nil && string(js) != `"`+want+`"` {
				e.violate(it.tt.name+"|MarshalJSON|not the quoted text form", fmt.Sprintf("JSON %s want \"%s\"", js, want), fam, i, "json")
			}
		}})
	}
	// ---- rhp/v3 SettingsID (JSON only)
	{
		fam := "A/settings-id"
		vals := idValues(e.seed, 16)
		fs = append(fs, &family{name: fam, n: len(vals), run: func(i int) {
			var id rhp3.SettingsID
			copy(id[:], vals[i])
			e.eval(fam)
			e.jsonRoundTrip(fam, i, "json", "rhp/v3.SettingsID", reflect.ValueOf(id))
			if js, _ := json.Marshal(id); string(js) != `"`+hex.EncodeToString(vals[i])+`"` || id.String() != hex.EncodeToString(vals[i]) {
				e.violate("rhp/v3.SettingsID|MarshalJSON|not quoted hex", fmt.Sprintf("JSON %s", js), fam, i, "")
			}
		}})
	}
	// ---- specifiers
	{
		fam := "A/specifier"
		var vals []types.Specifier
		for b := 0; b < 256; b++ {
			vals = append(vals, types.Specifier{byte(b)})
		}
		nOne := len(vals)
		vals = append(vals, specifierSpecials()...)
		vals = append(vals, types.SpecifierEd25519, types.SpecifierEntropy, types.SpecifierSiacoinOutput, types.SpecifierFoundation)
		special := []byte{'"', '\\', ' ', ':', ',', '(', ')', '[', ']', 0x00, 'a', 'Z', '9', 0xC3, 0xA9, 0xFF, '\n', '\'', '`', '/'}
		if e.thorough {
			for a := 0; a < 256; a++ {
				for b := 0; b < 256; b++ {
					vals = append(vals, types.Specifier{byte(a), byte(b)})
				}
			}
		} else {
			for _, a := range special {
				for _, b := range special {
					vals = append(vals, types.Specifier{a, b}, types.Specifier{'x', a, b, 'y'})
				}
			}
		}
		// padding rules: content followed by NULs, embedded NULs, full 16 bytes
		for _, a := range special {
			var full types.Specifier
			for i := range full {
				full[i] = a
			}
			vals = append(vals, full, types.Specifier{0, a}, types.Specifier{a, 0, a}, types.Specifier{0, 0, 0, 0, 0, 0, 0, 0, 0, 0, 0, 0, 0, 0, 0, a})
		}
		e.c.Set("specifier_domain", map[string]int{"one_byte": nOne, "total": len(vals)})
		key := seedBytes(e.seed, "spk", 4)
		fs = append(fs, &family{name: fam, n: len(vals), run: func(i int) {
			sp := vals[i]
			e.eval(fam)
			txt, ok := e.textRoundTrip(fam, i, "types.Specifier", sp)
			if ok && sp.String() != txt {
				e.violate("types.Specifier|String|differs from MarshalText", fmt.Sprintf("%q vs %q", sp.String(), txt), fam, i, "")
			}
			e.eval(fam)
			e.jsonRoundTrip(fam, i, "json", "types.Specifier", reflect.ValueOf(sp))
			// as the algorithm of an unlock key (text and JSON)
			uk := types.UnlockKey{Algorithm: sp, Key: key}
			e.eval(fam)
			e.textRoundTrip(fam, i, "types.UnlockKey", uk)
			e.eval(fam)
			e.jsonRoundTrip(fam, i, "json", "types.UnlockKey", reflect.ValueOf(uk))
			e.sample(fam, map[string]any{"specifier_bytes": hex.EncodeToString(sp[:]), "text": txt})
		}})
	}
	// ---- unlock keys: every algorithm shape x key shape
	{
		fam := "A/unlock-key"
		var vals []types.UnlockKey
		kinds := append(baseKeyKinds(e.seed), extraKeyKinds(e.seed)...)
		keys := [][]byte{nil, {}, {0}, {0xFF}, seedBytes(e.seed, "uk32", 32), seedBytes(e.seed, "uk33", 33), seedBytes(e.seed, "uk64", 64)}
		for _, k := range kinds {
			for _, kb := range keys {
				vals = append(vals, types.UnlockKey{Algorithm: k.uk.Algorithm, Key: kb})
			}
		}
		fs = append(fs, &family{name: fam, n: len(vals), run: func(i int) {
			e.eval(fam)
			e.textRoundTrip(fam, i, "types.UnlockKey", vals[i])
			e.eval(fam)
			e.jsonRoundTrip(fam, i, "json", "types.UnlockKey", reflect.ValueOf(vals[i]))
			ucs := types.UnlockConditions{Timelock: 7, PublicKeys: []types.UnlockKey{vals[i], vals[(i+1)%len(vals)]}, SignaturesRequired: 1<<64 - 1}
			e.eval(fam)
			e.jsonRoundTrip(fam, i, "json-in-uc", "types.UnlockConditions", reflect.ValueOf(ucs))
		}})
	}
	// ---- chain indices
	{
		fam := "A/chain-index"
		var vals []types.ChainIndex
		for _, h := range []uint64{0, 1, 9, 10, 1<<32 - 1, 1 << 32, 1<<53 + 1, 1<<63 - 1, 1 << 63, 1<<64 - 1} {
			for _, b := range idValues(e.seed, 32) {
				vals = append(vals, types.ChainIndex{Height: h, ID: from32[types.BlockID](b)})
			}
		}
		fs = append(fs, &family{name: fam, n: len(vals), run: func(i int) {
			ci := vals[i]
			want := fmt.Sprintf("%d::%s", ci.Height, hex.EncodeToString(ci.ID[:]))
			e.eval(fam)
			got, ok := e.textRoundTrip(fam, i, "types.ChainIndex", ci)
			if ok && got != want {
				e.violate("types.ChainIndex|MarshalText|differs from documented format", fmt.Sprintf("%q vs %q", got, want), fam, i, "")
			}
			e.eval(fam)
			if out, why := classify(func(s string) (any, error) { return types.ParseChainIndex(s) }, want, ci); out != outSame {
				e.violate("types.ChainIndex|ParseChainIndex(reference text)|"+out, fmt.Sprintf("%q: %s", want, why), fam, i, "")
			}
			e.eval(fam)
			e.jsonRoundTrip(fam, i, "json", "types.ChainIndex", reflect.ValueOf(ci))
			// the abbreviated String() form must never parse to a DIFFERENT index
			e.eval(fam)
			out, why := classify(func(s string) (any, error) { return types.ParseChainIndex(s) }, ci.String(), ci)
			e.outcome("chainindex-short-string-form", out)
			if out == outPanic || out == outDiff {
				e.violate("types.ChainIndex|ParseChainIndex(String())|"+out, fmt.Sprintf("abbreviated form %q: %s %s", ci.String(), out, why), fam, i, "")
			}
		}})
	}
	// ---- Work
	{
		fam := "A/work"
		var vals [][32]byte
		var ff [32]byte
		for i := range ff {
			ff[i] = 0xFF
		}
		vals = append(vals, [32]byte{}, [32]byte{31: 1}, [32]byte{31: 0xFF}, [32]byte{23: 1}, [32]byte{0: 0x80}, [32]byte{0: 1}, ff)
		for _, b := range idValues(e.seed, 32) {
			vals = append(vals, [32]byte(b))
		}
		for k := 0; k < 256; k += vfPick(e.thorough, 8, 1) {
			var b [32]byte
			b[31-k/8] = 1 << uint(k%8)
			vals = append(vals, b)
		}
		fs = append(fs, &family{name: fam, n: len(vals), run: func(i int) {
			w := workFromBytes(vals[i])
			want := new(big.Int).SetBytes(vals[i][:]).String()
			e.eval(fam)
			got, ok := e.textRoundTrip(fam, i, "consensus.Work", w)
			if ok && (got != want || w.String() != want) {
				e.violate("consensus.Work|MarshalText|not the decimal integer", fmt.Sprintf("%q / %q vs %s", got, w.String(), want), fam, i, "")
			}
			e.eval(fam)
			e.jsonRoundTrip(fam, i, "json", "consensus.Work", reflect.ValueOf(w))
		}})
	}
	// ---- rhp/v4 ProtocolVersion
	{
		fam := "A/protocol-version"
		comp := []uint8{0, 1, 9, 10, 99, 100, 127, 128, 255}
		var vals []rhp4.ProtocolVersion
		if e.thorough {
			vals = make([]rhp4.ProtocolVersion, 0, 1<<24)
			for a := 0; a < 256; a++ {
				for b := 0; b < 256; b++ {
					for c := 0; c < 256; c++ {
						vals = append(vals, rhp4.ProtocolVersion{uint8(a), uint8(b), uint8(c)})
					}
				}
			}
		} else {
			for _, a := range comp {
				for _, b := range comp {
					for _, c := range comp {
						vals = append(vals, rhp4.ProtocolVersion{a, b, c})
					}
				}
			}
		}
		chunk := 4096
		jobs := (len(vals) + chunk - 1) / chunk
		fs = append(fs, &family{name: fam, n: jobs, run: func(j int) {
			for i := j * chunk; i < (j+1)*chunk && i < len(vals); i++ {
				v := vals[i]
				want := fmt.Sprintf("v%d.%d.%d", v[0], v[1], v[2])
				e.eval(fam)
				var out rhp4.ProtocolVersion
				txt, _ := v.MarshalText()
				if err := out.UnmarshalText(txt); err != nil || out != v || string(txt) != want || v.String() != want {
					e.violate("rhp/v4.ProtocolVersion|text round trip|value changed", fmt.Sprintf("%v -> %q -> %v (%v)", v, txt, out, err), fam, j, want)
					continue
				}
				e.c.Count("roundtrip:ok", 1)
				if !e.thorough || i%251 == 0 {
					e.eval(fam)
					e.jsonRoundTrip(fam, j, want, "rhp/v4.ProtocolVersion", reflect.ValueOf(v))
					// legacy array form accepted by UnmarshalJSON
					var out2 rhp4.ProtocolVersion
					e.eval(fam)
					if err := json.Unmarshal([]byte(fmt.Sprintf("[%d,%d,%d]", v[0], v[1], v[2])), &out2); err != nil || out2 != v {
						e.violate("rhp/v4.ProtocolVersion|UnmarshalJSON(array form)|value changed", fmt.Sprintf("%v -> %v (%v)", v, out2, err), fam, j, want)
					}
				} else if v[2] == 0 {
					e.c.DistinctBytes([]byte(fam + want)) // one distinct entry per (major, minor): keeps the hash set small
				}
			}
		}})
	}
	// ---- parsing the own text into a receiver that already holds another value
	{
		fam := "A/reused-receiver"
		type item struct {
			typ  string
			v, w any
		}
		var items []item
		pairs := func(typ string, vals []any) {
			for i, v := range vals {
				for j, w := range vals {
					if i != j {
						items = append(items, item{typ, v, w})
					}
				}
			}
		}
		for _, tt := range textTypes() {
			var vals []any
			for _, b := range idValues(e.seed, tt.n)[:5] {
				vals = append(vals, tt.make(b))
			}
			pairs(tt.name, vals)
		}
		pairs("types.Specifier", []any{types.Specifier{}, mkSpec("a"), types.SpecifierEd25519, mkSpec("0123456789abcdef"), mkSpec(`a"b`), mkSpec("siacoin output")})
		pairs("types.ChainIndex", []any{types.ChainIndex{}, types.ChainIndex{Height: 1<<64 - 1, ID: from32[types.BlockID](seedBytes(e.seed, "rr-ci", 32))}, types.ChainIndex{Height: 7, ID: types.BlockID{31: 1}}})
		pairs("types.Currency", []any{types.ZeroCurrency, types.NewCurrency64(1), types.NewCurrency(^uint64(0), ^uint64(0)), types.NewCurrency(0, 1)})
		pairs("consensus.Work", []any{workFromBytes([32]byte{}), workFromBytes([32]byte{31: 1}), workFromBytes([32]byte{0: 0xFF, 31: 0xFF})})
		pairs("rhp/v4.ProtocolVersion", []any{rhp4.ProtocolVersion{}, rhp4.ProtocolVersion{255, 255, 255}, rhp4.ProtocolVersion{1, 2, 3}})
		fs = append(fs, &family{name: fam, n: len(items), run: func(i int) {
			it := items[i]
			e.eval(fam)
			txt, err := it.v.(encoding.TextMarshaler).MarshalText()
			if err != nil {
				e.violate(it.typ+"|MarshalText|fails", err.Error(), fam, i, "")
				return
			}
			recv := reflect.New(reflect.TypeOf(it.v))
			recv.Elem().Set(reflect.ValueOf(it.w))
			if p, _ := tryFn(func() { err = recv.Interface().(encoding.TextUnmarshaler).UnmarshalText(txt) }); p != nil || err != nil {
				e.violate(it.typ+"|UnmarshalText(own output) into a used receiver|fails", fmt.Sprintf("%q: %v %v", txt, p, err), fam, i, "")
				return
			}
			e.c.DistinctBytes([]byte(fmt.Sprintf("%s|%s|%q|%v", fam, it.typ, txt, it.w)))
			if d := diffValues(reflect.ValueOf(it.v), recv.Elem(), ""); d != "" {
				e.violate(it.typ+"|UnmarshalText(own output) into a used receiver|value changed",
					fmt.Sprintf("%s: UnmarshalText(%q) into a variable that held %v gives a value different from the one printed: %s", it.typ, txt, it.w, d), fam, i, "")
				return
			}
			e.c.Count("roundtrip:ok", 1)
		}})
	}
	return fs
}

func vfPick[T any](thorough bool, q, t T) T {
	if thorough {
		return t
	}
	return q
}

var _ = bytes.Equal
var _ = consensus.Work{}
