package c20

import (
	"encoding/hex"
	"encoding/json"
	"fmt"
	"reflect"
	"strings"

	"go.sia.tech/core/consensus"
	rhp2 "go.sia.tech/core/rhp/v2"
	rhp3 "go.sia.tech/core/rhp/v3"
	rhp4 "go.sia.tech/core/rhp/v4"
	"go.sia.tech/core/types"
)

// ---------------------------------------------------------------------------
// Spend policies: string form and object form.
// ---------------------------------------------------------------------------

// policyStringRT returns "" if ParseSpendPolicy(p.String()) == p, else what failed.
func policyStringRT(p types.SpendPolicy) (text string, class string, detail string) {
	var s string
	if pn, _ := tryFn(func() { s = p.String() }); pn != nil {
		return "", "String panics", fmt.Sprint(pn)
	}
	var got types.SpendPolicy
	var err error
	if pn, _ := tryFn(func() { got, err = types.ParseSpendPolicy(s) }); pn != nil {
		return s, "panic", fmt.Sprint(pn)
	}
	if err != nil {
		return s, "own output rejected", err.Error()
	}
	if d := diffAny(p, got); d != "" {
		return s, "value changed", d
	}
	return s, "", ""
}

// policyTrigger names, for the violation signature only, the feature of a
// failing policy that is causal: the failure disappears when that feature is
// removed. Features are tried alone first, then together.
func policyTrigger(p types.SpendPolicy, ok func(types.SpendPolicy) bool) []string {
	if q := clampSigs(p); diffAny(p, q) != "" && ok(q) {
		return []string{"uc signaturesRequired > 255"}
	}
	if q := plainAlgos(p); diffAny(p, q) != "" && ok(q) {
		return []string{"uc key algorithm contains one of , ( ) [ ]"}
	}
	if q := plainAlgos(clampSigs(p)); diffAny(p, q) != "" && ok(q) {
		return []string{"uc signaturesRequired > 255", "uc key algorithm contains one of , ( ) [ ]"}
	}
	return []string{"kind=" + policyKind(p)}
}

func (e *env) checkPolicyString(fam string, i int, p types.SpendPolicy) {
	e.eval(fam)
	s, class, detail := policyStringRT(p)
	e.c.DistinctBytes([]byte(fam + "|" + s))
	e.c.Count("policy_string:kind="+policyKind(p), 1)
	e.c.Count(fmt.Sprintf("policy_string:depth=%d", policyDepth(p)), 1)
	if class == "" {
		e.c.Count("roundtrip:ok", 1)
		e.sample(fam, map[string]any{"policy": s})
		return
	}
	okFn := func(q types.SpendPolicy) bool { _, c, _ := policyStringRT(q); return c == "" }
	for _, trig := range policyTrigger(p, okFn) {
		e.violate("types.SpendPolicy String/ParseSpendPolicy|"+class+"|"+trig,
			fmt.Sprintf("ParseSpendPolicy(p.String()) for p.String()=%q: %s (%s)", s, class, detail), fam, i, "")
	}
}

func (e *env) policyFamilies() []*family {
	var fs []*family
	pols := enumeratePolicies(e.seed, e.thorough)
	kinds := map[string]int{}
	depths := map[int]int{}
	for _, p := range pols {
		kinds[policyKind(p)]++
		depths[policyDepth(p)]++
	}
	e.c.Set("policy_domain", map[string]any{"total": len(pols), "by_kind": kinds, "by_nesting_depth": depths})
	fs = append(fs, &family{name: "A/policy-string", n: len(pols), run: func(i int) { e.checkPolicyString("A/policy-string", i, pols[i]) }})
	fs = append(fs, &family{name: "A/policy-json", n: len(pols), run: func(i int) {
		e.eval("A/policy-json")
		e.jsonRoundTrip("A/policy-json", i, "kind="+policyKind(pols[i]), "types.SpendPolicy", reflect.ValueOf(pols[i]))
	}})
	// satisfied policies: signature / preimage shapes around every 7th policy and all representatives
	{
		fam := "A/satisfied-policy-json"
		var sps []types.SatisfiedPolicy
		sig1, sig2 := types.Signature(seedBytes(e.seed, "sig1", 64)), types.Signature(seedBytes(e.seed, "sig2", 64))
		pre1, pre2 := hash32(e.seed, "pre1"), [32]byte{}
		shapes := []struct {
			s []types.Signature
			p [][32]byte
		}{{nil, nil}, {[]types.Signature{}, [][32]byte{}}, {[]types.Signature{sig1}, nil}, {nil, [][32]byte{pre1}}, {[]types.Signature{sig1, sig2, {}}, [][32]byte{pre1, pre2}}}
		src := append([]types.SpendPolicy(nil), policyReps(e.seed)...)
		for i := 0; i < len(pols); i += 7 {
			src = append(src, pols[i])
		}
		for _, p := range src {
			for _, sh := range shapes {
				sps = append(sps, types.SatisfiedPolicy{Policy: p, Signatures: sh.s, Preimages: sh.p})
			}
		}
		fs = append(fs, &family{name: fam, n: len(sps), run: func(i int) {
			e.eval(fam)
			e.jsonRoundTrip(fam, i, fmt.Sprintf("kind=%s sigs=%d preimages=%d", policyKind(sps[i].Policy), len(sps[i].Signatures), len(sps[i].Preimages)), "types.SatisfiedPolicy", reflect.ValueOf(sps[i]))
		}})
	}
	// every one-byte key algorithm inside the string form of a uc policy
	{
		fam := "A/policy-string-1byte-algorithm"
		key := seedBytes(e.seed, "pk1b", 2)
		fs = append(fs, &family{name: fam, n: 256, run: func(i int) {
			p := ucPolicy(0, []types.UnlockKey{{Algorithm: types.Specifier{byte(i)}, Key: key}}, 1)
			e.checkPolicyString(fam, i, p)
		}})
	}
	return fs
}

// ---------------------------------------------------------------------------
// Records: four bases x single-field deviations, via reflection.
// ---------------------------------------------------------------------------

type recType struct {
	name string
	t    reflect.Type
}

func rt[T any](name string) recType { var z T; return recType{name, reflect.TypeOf(z)} }

// registry lists every record type with a JSON form that the check covers.
func registry() []recType {
	return []recType{
		rt[types.UnlockConditions]("types.UnlockConditions"), rt[types.UnlockKey]("types.UnlockKey"), rt[types.ChainIndex]("types.ChainIndex"),
		rt[types.SiacoinOutput]("types.SiacoinOutput"), rt[types.SiacoinInput]("types.SiacoinInput"),
		rt[types.SiafundOutput]("types.SiafundOutput"), rt[types.SiafundInput]("types.SiafundInput"),
		rt[types.FileContract]("types.FileContract"), rt[types.FileContractRevision]("types.FileContractRevision"), rt[types.StorageProof]("types.StorageProof"),
		rt[types.FoundationAddressUpdate]("types.FoundationAddressUpdate"), rt[types.CoveredFields]("types.CoveredFields"),
		rt[types.TransactionSignature]("types.TransactionSignature"), rt[types.Transaction]("types.Transaction"),
		rt[types.V2FileContract]("types.V2FileContract"), rt[types.V2SiacoinInput]("types.V2SiacoinInput"), rt[types.V2SiafundInput]("types.V2SiafundInput"),
		rt[types.V2FileContractRevision]("types.V2FileContractRevision"), rt[types.V2FileContractResolution]("types.V2FileContractResolution"),
		rt[types.V2FileContractRenewal]("types.V2FileContractRenewal"), rt[types.V2StorageProof]("types.V2StorageProof"), rt[types.V2FileContractExpiration]("types.V2FileContractExpiration"),
		rt[types.Attestation]("types.Attestation"), rt[types.StateElement]("types.StateElement"), rt[types.ChainIndexElement]("types.ChainIndexElement"),
		rt[types.SiacoinElement]("types.SiacoinElement"), rt[types.SiafundElement]("types.SiafundElement"), rt[types.FileContractElement]("types.FileContractElement"),
		rt[types.V2FileContractElement]("types.V2FileContractElement"), rt[types.AttestationElement]("types.AttestationElement"),
		rt[types.V2Transaction]("types.V2Transaction"), rt[types.V2BlockData]("types.V2BlockData"), rt[types.BlockHeader]("types.BlockHeader"), rt[types.Block]("types.Block"),
		rt[types.SpendPolicy]("types.SpendPolicy"), rt[types.SatisfiedPolicy]("types.SatisfiedPolicy"), rt[types.PolicyTypeThreshold]("types.PolicyTypeThreshold"),
		rt[types.Currency]("types.Currency"), rt[types.Specifier]("types.Specifier"),

		rt[consensus.Network]("consensus.Network"), rt[consensus.State]("consensus.State"), rt[consensus.Work]("consensus.Work"), rt[consensus.ElementAccumulator]("consensus.ElementAccumulator"),
		rt[consensus.SiacoinElementDiff]("consensus.SiacoinElementDiff"), rt[consensus.SiafundElementDiff]("consensus.SiafundElementDiff"),
		rt[consensus.FileContractElementDiff]("consensus.FileContractElementDiff"), rt[consensus.V2FileContractElementDiff]("consensus.V2FileContractElementDiff"),
		rt[consensus.V1StorageProofSupplement]("consensus.V1StorageProofSupplement"), rt[consensus.V1TransactionSupplement]("consensus.V1TransactionSupplement"), rt[consensus.V1BlockSupplement]("consensus.V1BlockSupplement"),

		rt[rhp2.HostSettings]("rhp/v2.HostSettings"),
		rt[rhp3.HostPriceTable]("rhp/v3.HostPriceTable"),

		rt[rhp4.ProtocolVersion]("rhp/v4.ProtocolVersion"), rt[rhp4.Usage]("rhp/v4.Usage"), rt[rhp4.HostPrices]("rhp/v4.HostPrices"), rt[rhp4.HostSettings]("rhp/v4.HostSettings"), rt[rhp4.AccountToken]("rhp/v4.AccountToken"),
		rt[rhp4.RPCSettingsResponse]("rhp/v4.RPCSettingsResponse"), rt[rhp4.RPCFormContractParams]("rhp/v4.RPCFormContractParams"), rt[rhp4.RPCFormContractRequest]("rhp/v4.RPCFormContractRequest"),
		rt[rhp4.RPCFormContractResponse]("rhp/v4.RPCFormContractResponse"), rt[rhp4.RPCFormContractSecondResponse]("rhp/v4.RPCFormContractSecondResponse"), rt[rhp4.RPCFormContractThirdResponse]("rhp/v4.RPCFormContractThirdResponse"),
		rt[rhp4.RPCRefreshContractParams]("rhp/v4.RPCRefreshContractParams"), rt[rhp4.RPCRefreshContractRequest]("rhp/v4.RPCRefreshContractRequest"), rt[rhp4.RPCRefreshContractResponse]("rhp/v4.RPCRefreshContractResponse"),
		rt[rhp4.RPCRefreshContractSecondResponse]("rhp/v4.RPCRefreshContractSecondResponse"), rt[rhp4.RPCRefreshContractThirdResponse]("rhp/v4.RPCRefreshContractThirdResponse"),
		rt[rhp4.RPCRenewContractParams]("rhp/v4.RPCRenewContractParams"), rt[rhp4.RPCRenewContractRequest]("rhp/v4.RPCRenewContractRequest"), rt[rhp4.RPCRenewContractResponse]("rhp/v4.RPCRenewContractResponse"),
		rt[rhp4.RPCRenewContractSecondResponse]("rhp/v4.RPCRenewContractSecondResponse"), rt[rhp4.RPCRenewContractThirdResponse]("rhp/v4.RPCRenewContractThirdResponse"),
		rt[rhp4.RPCFreeSectorsRequest]("rhp/v4.RPCFreeSectorsRequest"), rt[rhp4.RPCFreeSectorsResponse]("rhp/v4.RPCFreeSectorsResponse"), rt[rhp4.RPCFreeSectorsSecondResponse]("rhp/v4.RPCFreeSectorsSecondResponse"), rt[rhp4.RPCFreeSectorsThirdResponse]("rhp/v4.RPCFreeSectorsThirdResponse"),
		rt[rhp4.RPCLatestRevisionRequest]("rhp/v4.RPCLatestRevisionRequest"), rt[rhp4.RPCLatestRevisionResponse]("rhp/v4.RPCLatestRevisionResponse"),
		rt[rhp4.RPCReadSectorRequest]("rhp/v4.RPCReadSectorRequest"), rt[rhp4.RPCReadSectorResponse]("rhp/v4.RPCReadSectorResponse"),
		rt[rhp4.RPCAppendSectorsRequest]("rhp/v4.RPCAppendSectorsRequest"), rt[rhp4.RPCAppendSectorsResponse]("rhp/v4.RPCAppendSectorsResponse"), rt[rhp4.RPCAppendSectorsSecondResponse]("rhp/v4.RPCAppendSectorsSecondResponse"), rt[rhp4.RPCAppendSectorsThirdResponse]("rhp/v4.RPCAppendSectorsThirdResponse"),
		rt[rhp4.RPCWriteSectorRequest]("rhp/v4.RPCWriteSectorRequest"), rt[rhp4.RPCWriteSectorResponse]("rhp/v4.RPCWriteSectorResponse"),
		rt[rhp4.RPCSectorRootsRequest]("rhp/v4.RPCSectorRootsRequest"), rt[rhp4.RPCSectorRootsResponse]("rhp/v4.RPCSectorRootsResponse"),
		rt[rhp4.RPCAccountBalanceRequest]("rhp/v4.RPCAccountBalanceRequest"), rt[rhp4.RPCAccountBalanceResponse]("rhp/v4.RPCAccountBalanceResponse"),
		rt[rhp4.RPCReplenishAccountsRequest]("rhp/v4.RPCReplenishAccountsRequest"), rt[rhp4.RPCReplenishAccountsResponse]("rhp/v4.RPCReplenishAccountsResponse"),
		rt[rhp4.RPCReplenishAccountsSecondResponse]("rhp/v4.RPCReplenishAccountsSecondResponse"), rt[rhp4.RPCReplenishAccountsThirdResponse]("rhp/v4.RPCReplenishAccountsThirdResponse"),
		rt[rhp4.RPCVerifySectorRequest]("rhp/v4.RPCVerifySectorRequest"), rt[rhp4.RPCVerifySectorResponse]("rhp/v4.RPCVerifySectorResponse"),
		rt[rhp4.AccountDeposit]("rhp/v4.AccountDeposit"), rt[rhp4.RPCFundAccountsRequest]("rhp/v4.RPCFundAccountsRequest"), rt[rhp4.RPCFundAccountsResponse]("rhp/v4.RPCFundAccountsResponse"),
		rt[rhp4.PoolAttachment]("rhp/v4.PoolAttachment"), rt[rhp4.PoolDetachment]("rhp/v4.PoolDetachment"), rt[rhp4.RPCAttachPoolsRequest]("rhp/v4.RPCAttachPoolsRequest"), rt[rhp4.RPCDetachPoolsRequest]("rhp/v4.RPCDetachPoolsRequest"),
	}
}

// registryNames: names covered by record, scalar and update families.
func registryNames() map[string]bool {
	m := map[string]bool{}
	for _, r := range registry() {
		m[r.name] = true
	}
	for _, tt := range textTypes() {
		m[tt.name] = true
	}
	for _, n := range []string{"rhp/v3.SettingsID", "consensus.ApplyUpdate", "consensus.RevertUpdate"} {
		m[n] = true
	}
	return m
}

const locChunk = 12

type recJob struct {
	rt      recType
	base    int
	lo, hi  int // location range
	runBase bool
}

func (e *env) recordFamilies() []*family {
	var jobs []recJob
	locCount := map[string]int{}
	for _, r := range registry() {
		for b := range baseNames {
			n := len(locations(makeBase(r.t, b, e.seed), e.seed))
			if b == 2 {
				locCount[r.name] = n
			}
			if n == 0 {
				jobs = append(jobs, recJob{rt: r, base: b, runBase: true})
			}
			for lo := 0; lo < n; lo += locChunk {
				hi := lo + locChunk
				if hi > n {
					hi = n
				}
				jobs = append(jobs, recJob{rt: r, base: b, lo: lo, hi: hi, runBase: lo == 0})
			}
		}
	}
	e.c.Set("record_types", len(registry()))
	e.c.Set("record_deviation_points_in_full_base", locCount)
	fam := "A/record-json"
	fs := []*family{{name: fam, n: len(jobs), run: func(j int) {
		job := jobs[j]
		root := makeBase(job.rt.t, job.base, e.seed)
		prefix := job.rt.name + "@" + baseNames[job.base] + ":"
		if job.runBase && (e.onlySub == "" || e.onlySub == prefix+"base") {
			e.eval(fam)
			e.c.Count("cases:A/record-json:"+pkgOf(job.rt.name), 1)
			e.jsonRoundTrip(fam, j, prefix+"base", job.rt.name, root)
		}
		locs := locations(root, e.seed)
		for li := job.lo; li < job.hi && li < len(locs); li++ {
			l := locs[li]
			old := reflect.New(l.v.Type()).Elem()
			old.Set(l.v)
			for k, alt := range l.dom {
				sub := prefix + l.path + "=" + l.tags[k]
				if e.onlySub != "" && e.onlySub != sub {
					continue
				}
				if reflect.DeepEqual(old.Interface(), alt.Interface()) {
					continue
				}
				l.v.Set(alt)
				e.eval(fam)
				e.c.Count("cases:A/record-json:"+pkgOf(job.rt.name), 1)
				e.jsonRoundTrip(fam, j, sub, job.rt.name, root)
				l.v.Set(old)
			}
		}
	}}}
	if e.thorough {
		// pairwise deviations (first two alternatives of each point) for types of moderate size, from the fully populated base
		type pjob struct {
			rt recType
			l1 int
		}
		var pj []pjob
		for _, r := range registry() {
			if n := locCount[r.name]; n >= 2 && n <= 280 {
				for l1 := 0; l1 < n-1; l1++ {
					pj = append(pj, pjob{r, l1})
				}
			}
		}
		pfam := "A/record-json-pairs"
		fs = append(fs, &family{name: pfam, n: len(pj), run: func(j int) {
			job := pj[j]
			root := makeBase(job.rt.t, 2, e.seed)
			locs := locations(root, e.seed)
			if job.l1 >= len(locs) {
				return
			}
			l1 := locs[job.l1]
			old1 := reflect.New(l1.v.Type()).Elem()
			old1.Set(l1.v)
			for k1 := 0; k1 < len(l1.dom) && k1 < 2; k1++ {
				l1.v.Set(l1.dom[k1])
				// locations below l1 may have changed shape: re-walk
				locs2 := locations(root, e.seed)
				for l2i := job.l1 + 1; l2i < len(locs2); l2i++ {
					l2 := locs2[l2i]
					if strings.HasPrefix(l2.path, l1.path) && l2.path != l1.path && len(l2.path) > len(l1.path) && (l2.path[len(l1.path)] == '.' || l2.path[len(l1.path)] == '[' || l2.path[len(l1.path)] == '(') {
						continue // inside the first deviation
					}
					old2 := reflect.New(l2.v.Type()).Elem()
					old2.Set(l2.v)
					for k2 := 0; k2 < len(l2.dom) && k2 < 2; k2++ {
						sub := fmt.Sprintf("%s@fullA:%s=%s & %s=%s", job.rt.name, l1.path, l1.tags[k1], l2.path, l2.tags[k2])
						if e.onlySub != "" && e.onlySub != sub {
							continue
						}
						l2.v.Set(l2.dom[k2])
						e.eval(pfam)
						e.jsonRoundTrip(pfam, j, sub, job.rt.name, root)
						l2.v.Set(old2)
					}
				}
				l1.v.Set(old1)
			}
		}})
	}
	return fs
}

func pkgOf(name string) string {
	if i := strings.LastIndex(name, "."); i >= 0 {
		return name[:i]
	}
	return name
}

// ---------------------------------------------------------------------------
// Corruptions.
// ---------------------------------------------------------------------------

// hexShape describes a corrupted input the way a hex decoder sees it (used
// only to name the trigger in a violation signature, so that one defect
// reached through several corruption classes keeps one signature).
func hexShape(prefix string, n int) func(string) string {
	return func(in string) string {
		rest := in
		if prefix != "" && strings.HasPrefix(in, prefix) {
			rest = in[len(prefix):]
		}
		for i := 0; i < len(rest); i++ {
			c := rest[i]
			if !(c >= '0' && c <= '9' || c >= 'a' && c <= 'f' || c >= 'A' && c <= 'F') {
				return "input contains a non-hex character"
			}
		}
		switch {
		case len(rest) > 2*n:
			return "more hex digits than the type holds"
		case len(rest) < 2*n:
			return "fewer hex digits than the type holds"
		}
		return "exact number of hex digits"
	}
}

func (e *env) corruptCase(fam string, idx int, typ, class, input string, parse func(string) (any, error), want any, shape ...func(string) string) {
	if e.onlySub != "" && e.onlySub != input {
		return // replay of one recorded input
	}
	e.eval(fam)
	out, why := classify(parse, input, want)
	e.outcome(fam, out)
	e.outcome(fam+"/"+class, out)
	e.c.Count("corrupt:"+out, 1)
	e.c.DistinctBytes([]byte(fam + "|" + typ + "|" + input))
	// Accepting the SAME value is tolerated only where the code defines the
	// form as equivalent: upper-case hex digits (encoding/hex is case
	// insensitive) and an absent optional prefix. Everything else must be an error.
	if out == outSame && class != "upper-case-hex" && class != "prefix-missing" {
		out = "accepted"
	}
	switch out {
	case outPanic, outDiff, "accepted":
		trig := class
		if len(shape) > 0 && (out == outPanic || !strings.HasPrefix(class, "prefix-")) {
			trig = shape[0](input)
		}
		e.violate(typ+"|corrupted text form|"+out+"|"+trig, fmt.Sprintf("%s: input %q (class %s) -> %s %s; must be rejected with an error", typ, input, class, out, why), fam, idx, input)
	}
}

func (e *env) corruptionFamilies() []*family {
	var fs []*family
	hexDigits := "0123456789abcdef"
	// ---- addresses: every position x every other hex digit
	{
		fam := "B/address"
		var addrs [][]byte
		addrs = append(addrs, make([]byte, 32)) // void address
		ff := make([]byte, 32)
		for i := range ff {
			ff[i] = 0xFF
		}
		addrs = append(addrs, ff)
		for i := 0; len(addrs) < 16; i++ {
			addrs = append(addrs, seedBytes(e.seed, fmt.Sprintf("addr%d", i), 32))
		}
		parse := func(s string) (any, error) {
			var a types.Address
			err := a.UnmarshalText([]byte(s))
			return a, err
		}
		parse2 := func(s string) (any, error) { return types.ParseAddress(s) }
		jparse := jsonParseInto(func() any { return new(types.Address) }, func(p any) any { return *p.(*types.Address) })
		fs = append(fs, &family{name: fam, n: len(addrs) * 76, run: func(i int) {
			ab, pos := addrs[i/76], i%76
			want := from32[types.Address](ab)
			s := addressText(ab)
			for _, d := range []byte(hexDigits) {
				if d == s[pos] {
					continue
				}
				in := s[:pos] + string([]byte{d}) + s[pos+1:]
				e.corruptCase(fam, i, "types.Address", "one-hex-digit-changed", in, parse, want)
				e.corruptCase(fam, i, "types.Address", "one-hex-digit-changed", in, parse2, want)
				e.corruptCase(fam, i, "types.Address", "one-hex-digit-changed", in, jparse, want)
			}
			if pos == 0 {
				e.sample(fam, map[string]any{"address": s, "corrupted": s[:5] + string(hexDigits[(strings.IndexByte(hexDigits, s[5])+1)%16]) + s[6:]})
				for _, c := range corruptHex(s, func(h string) string { return h }) {
					e.corruptCase(fam, i, "types.Address", c.class, c.input, parse, want)
					if validUTF8JSONString(c.input) {
						e.corruptCase(fam, i, "types.Address", c.class, c.input, jparse, want)
					}
				}
				// checksum of a different address / zero checksum / swapped halves
				other := addressText(addrs[(i/76+1)%len(addrs)])
				for _, in := range []string{s[:64] + other[64:], s[:64] + "000000000000", other[:64] + s[64:], s[:64]} {
					e.corruptCase(fam, i, "types.Address", "wrong-checksum", in, parse, want)
				}
			}
		}})
	}
	// ---- every other identifier type
	{
		fam := "B/identifier"
		type item struct {
			tt textType
			b  []byte
		}
		var items []item
		for _, tt := range textTypes() {
			if tt.name == "types.Address" {
				continue
			}
			for _, b := range [][]byte{seedBytes(e.seed, "cid-a", tt.n), seedBytes(e.seed, "cid-b", tt.n)} {
				items = append(items, item{tt, b})
			}
		}
		fs = append(fs, &family{name: fam, n: len(items), run: func(i int) {
			it := items[i]
			want := it.tt.make(it.b)
			h := hex.EncodeToString(it.b)
			jparse := jsonEntry(it.tt)
			var cs []corruption
			cs = append(cs, corruptHex(h, func(x string) string { return it.tt.prefix + x })...)
			cs = append(cs, corruptPrefix(it.tt.prefix, func(p string) string { return p + h })...)
			shape := hexShape(it.tt.prefix, it.tt.n)
			for _, c := range cs {
				e.corruptCase(fam, i, it.tt.name, c.class, c.input, it.tt.parse, want, shape)
				if validUTF8JSONString(c.input) {
					e.corruptCase(fam, i, it.tt.name, c.class, c.input, jparse, want, shape)
				}
			}
			e.sample(fam, map[string]any{"type": it.tt.name, "valid": it.tt.prefix + h, "corrupted": cs[10].input, "class": cs[10].class})
		}})
	}
	// ---- chain index "<height>::<hex>"
	{
		fam := "B/chain-index"
		type item struct {
			h uint64
			b []byte
		}
		items := []item{{5, seedBytes(e.seed, "ci-a", 32)}, {1<<64 - 1, seedBytes(e.seed, "ci-b", 32)}, {0, seedBytes(e.seed, "ci-c", 32)}}
		fs = append(fs, &family{name: fam, n: len(items), run: func(i int) {
			it := items[i]
			want := types.ChainIndex{Height: it.h, ID: from32[types.BlockID](it.b)}
			hs, h := fmt.Sprint(it.h), hex.EncodeToString(it.b)
			parse := func(s string) (any, error) {
				var ci types.ChainIndex
				err := ci.UnmarshalText([]byte(s))
				return ci, err
			}
			parse2 := func(s string) (any, error) { return types.ParseChainIndex(s) }
			var cs []corruption
			cs = append(cs, corruptHex(h, func(x string) string { return hs + "::" + x })...)
			cs = append(cs, corruptPrefix("::", func(p string) string { return hs + p + h })...)
			// height part: not a decimal number / out of range
			for _, bad := range []string{"", "-1", "+5", "5 ", " 5", "0x5", "5.0", "18446744073709551616", "five", "5e3"} {
				cs = append(cs, corruption{"height-not-a-uint64", bad + "::" + h})
			}
			shape := hexShape(hs+"::", 32)
			for _, c := range cs {
				e.corruptCase(fam, i, "types.ChainIndex", c.class, c.input, parse, want, shape)
				e.corruptCase(fam, i, "types.ChainIndex", c.class, c.input, parse2, want, shape)
			}
			e.sample(fam, map[string]any{"valid": hs + "::" + h})
		}})
	}
	// ---- hex tokens inside policy strings: pk(0x..), h(0x..), opaque(0x..)
	{
		fam := "B/policy-string-hex"
		b := seedBytes(e.seed, "pol-hex", 32)
		h := hex.EncodeToString(b)
		kinds := []struct {
			name string
			p    types.SpendPolicy
		}{{"pk", types.PolicyPublicKey(from32[types.PublicKey](b))}, {"h", types.PolicyHash(from32[types.Hash256](b))}, {"opaque", types.SpendPolicy{Type: types.PolicyTypeOpaque(from32[types.Address](b))}}}
		parse := func(s string) (any, error) { return types.ParseSpendPolicy(s) }
		fs = append(fs, &family{name: fam, n: len(kinds) * 2, run: func(i int) {
			k := kinds[i/2]
			nested := i%2 == 1
			wrapP := func(tok string) string {
				s := k.name + "(" + tok + ")"
				if nested {
					s = "thresh(1,[above(5)," + s + "])"
				}
				return s
			}
			var want any = k.p
			if nested {
				want = types.PolicyThreshold(1, []types.SpendPolicy{types.PolicyAbove(5), k.p})
			}
			// sanity: the uncorrupted string parses to the expected policy
			e.eval(fam)
			if out, why := classify(parse, wrapP("0x"+h), want); out != outSame {
				e.violate("types.ParseSpendPolicy|valid "+k.name+" token|"+out, why, fam, i, "")
			}
			var cs []corruption
			cs = append(cs, corruptHex(h, func(x string) string { return wrapP("0x" + x) })...)
			cs = append(cs, corruptPrefix("0x", func(p string) string { return wrapP(p + h) })...)
			for _, c := range cs {
				e.corruptCase(fam, i, "types.SpendPolicy("+k.name+" token)", c.class, c.input, parse, want)
			}
			e.sample(fam, map[string]any{"valid": wrapP("0x" + h)})
		}})
	}
	// ---- hex strings carried as JSON fields: storage proof leaves, preimages, settings id
	{
		fam := "B/json-hex-field"
		leaf := seedBytes(e.seed, "leaf", 64)
		pre := seedBytes(e.seed, "preimg", 32)
		sid := seedBytes(e.seed, "sid", 16)
		type item struct {
			typ   string
			hexv  string
			want  any
			parse func(js string) (any, error)
		}
		mk := func(typ string, v any, hexv string, newPtr func() any, deref func(any) any) item {
			js, err := json.Marshal(v)
			if err != nil || strings.Count(string(js), hexv) != 1 {
				e.c.HarnessError("json-hex-field template for %s: %v (occurrences %d)", typ, err, strings.Count(string(js), hexv))
			}
			tmpl := string(js)
			return item{typ, hexv, v, func(corrupted string) (any, error) {
				q, err := json.Marshal(corrupted)
				if err != nil {
					return nil, err
				}
				doc := strings.Replace(tmpl, `"`+hexv+`"`, string(q), 1)
				p := newPtr()
				if err := json.Unmarshal([]byte(doc), p); err != nil {
					return nil, err
				}
				return deref(p), nil
			}}
		}
		sp := types.StorageProof{ParentID: types.FileContractID(hash32(e.seed, "sp-parent")), Leaf: [64]byte(leaf), Proof: []types.Hash256{hash32(e.seed, "sp-p0")}}
		v2sp := types.V2StorageProof{Leaf: [64]byte(leaf), Proof: []types.Hash256{hash32(e.seed, "sp-p1")}}
		v2sp.ProofIndex.ChainIndex.Height = 9
		sat := types.SatisfiedPolicy{Policy: types.PolicyHash(hash32(e.seed, "sat-h")), Preimages: [][32]byte{[32]byte(pre)}}
		var id rhp3.SettingsID
		copy(id[:], sid)
		items := []item{
			mk("types.StorageProof.Leaf", sp, hex.EncodeToString(leaf), func() any { return new(types.StorageProof) }, func(p any) any { return *p.(*types.StorageProof) }),
			mk("types.V2StorageProof.Leaf", v2sp, hex.EncodeToString(leaf), func() any { return new(types.V2StorageProof) }, func(p any) any { return *p.(*types.V2StorageProof) }),
			mk("types.SatisfiedPolicy.Preimages", sat, hex.EncodeToString(pre), func() any { return new(types.SatisfiedPolicy) }, func(p any) any { return *p.(*types.SatisfiedPolicy) }),
			mk("rhp/v3.SettingsID", id, hex.EncodeToString(sid), func() any { return new(rhp3.SettingsID) }, func(p any) any { return *p.(*rhp3.SettingsID) }),
		}
		fs = append(fs, &family{name: fam, n: len(items), run: func(i int) {
			it := items[i]
			e.eval(fam)
			if out, why := classify(it.parse, it.hexv, it.want); out != outSame {
				e.violate(it.typ+"|valid JSON hex field|"+out, why, fam, i, "")
			}
			for _, c := range corruptHex(it.hexv, func(x string) string { return x }) {
				if validUTF8JSONString(c.input) {
					e.corruptCase(fam, i, it.typ, c.class, c.input, it.parse, it.want)
				}
			}
		}})
	}
	// ---- unlock key "<algorithm>:<hex>" (any even length is a key; alphabet and odd length must be rejected)
	{
		fam := "B/unlock-key"
		kb := seedBytes(e.seed, "ukc", 32)
		h := hex.EncodeToString(kb)
		want := types.UnlockKey{Algorithm: types.SpecifierEd25519, Key: kb}
		parse := func(s string) (any, error) {
			var uk types.UnlockKey
			err := uk.UnmarshalText([]byte(s))
			return uk, err
		}
		fs = append(fs, &family{name: fam, n: 1, run: func(i int) {
			for _, c := range corruptHex(h, func(x string) string { return "ed25519:" + x }) {
				if c.class != "non-hex-char" && c.class != "hex-odd-length" && c.class != "upper-case-hex" {
					continue // other lengths are different, valid keys
				}
				if strings.Count(c.input, ":") != 1 {
					continue // a second ':' moves the separator: "<algorithm with ':'>:<shorter key>" is a different well-formed text, not a corrupted one
				}
				e.corruptCase(fam, i, "types.UnlockKey", c.class, c.input, parse, want)
			}
			for _, in := range []string{h, "ed25519" + h, "ed25519;" + h, `"ed25519:` + h, `"unterminated:` + h, "seventeen-chars-xx:" + h, `"seventeen-chars-xx":` + h} {
				e.corruptCase(fam, i, "types.UnlockKey", "separator-or-algorithm-malformed", in, parse, want)
			}
		}})
	}
	// ---- rhp/v4 protocol version "v<a>.<b>.<c>"
	{
		fam := "B/protocol-version"
		want := rhp4.ProtocolVersion{5, 0, 12}
		parse := func(s string) (any, error) {
			var v rhp4.ProtocolVersion
			err := v.UnmarshalText([]byte(s))
			return v, err
		}
		fs = append(fs, &family{name: fam, n: 1, run: func(i int) {
			for _, c := range corruptPrefix("v", func(p string) string { return p + "5.0.12" }) {
				e.corruptCase(fam, i, "rhp/v4.ProtocolVersion", c.class, c.input, parse, want)
			}
			for _, in := range []string{"v5.0", "v5", "v", "", "v5.0.256", "v256.0.12", "v5.-1.12", "v5..12", "v5,0,12", "5.0.12"} {
				e.corruptCase(fam, i, "rhp/v4.ProtocolVersion", "malformed-components", in, parse, want)
			}
		}})
	}
	return fs
}
