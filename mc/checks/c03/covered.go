package c03

import (
	"fmt"

	"go.sia.tech/core/types"
	"verifmc/chain"
	"verifmc/vf"
)

// coveredBinding is the hash-level companion of the tamper walk: a v1 PARTIAL signature hash must bind exactly the
// elements its covered-field lists name, in the order they are named. On a transaction with three elements in every
// list, for every field kind K and every ordered list L of at most two distinct indices out of {0,1,2}:
//   - tampering element j of kind K changes PartialSigHash(txn, {K: L}) if and only if j is in L;
//   - tampering any element of another kind never changes it;
//   - two different lists give different hashes (order and selection are bound).
// Pure function check on every network family (the replay prefix differs by era), no validation involved.
func coveredBinding(c *vf.Ctx, w *chain.World) {
	cs := w.CS
	addr := func(b byte) types.Address { return types.Address{b, 0xAD} }
	h32 := func(b byte) types.Hash256 { return types.Hash256{b, 0x32} }
	uc := func(b byte) types.UnlockConditions {
		return types.UnlockConditions{PublicKeys: []types.UnlockKey{{Algorithm: types.SpecifierEd25519, Key: []byte{b, 1, 2}}}, SignaturesRequired: 1}
	}
	fc := func(b byte) types.FileContract {
		return types.FileContract{Filesize: uint64(b), FileMerkleRoot: h32(b), WindowStart: 5, WindowEnd: 9, Payout: types.Siacoins(uint32(b) + 1),
			ValidProofOutputs: []types.SiacoinOutput{{Value: types.Siacoins(1), Address: addr(b)}}, MissedProofOutputs: []types.SiacoinOutput{{Value: types.Siacoins(1), Address: addr(b + 1)}}, UnlockHash: addr(b + 2), RevisionNumber: uint64(b)}
	}
	mk := func() types.Transaction {
		var t types.Transaction
		for i := byte(0); i < 3; i++ {
			t.SiacoinInputs = append(t.SiacoinInputs, types.SiacoinInput{ParentID: types.SiacoinOutputID(h32(10 + i)), UnlockConditions: uc(i)})
			t.SiacoinOutputs = append(t.SiacoinOutputs, types.SiacoinOutput{Value: types.Siacoins(uint32(i) + 2), Address: addr(20 + i)})
			t.FileContracts = append(t.FileContracts, fc(30+i))
			t.FileContractRevisions = append(t.FileContractRevisions, types.FileContractRevision{ParentID: types.FileContractID(h32(40 + i)), UnlockConditions: uc(40 + i), FileContract: fc(45 + i)})
			t.StorageProofs = append(t.StorageProofs, types.StorageProof{ParentID: types.FileContractID(h32(50 + i)), Leaf: [64]byte{50 + i}, Proof: []types.Hash256{h32(55 + i)}})
			t.SiafundInputs = append(t.SiafundInputs, types.SiafundInput{ParentID: types.SiafundOutputID(h32(60 + i)), UnlockConditions: uc(60 + i), ClaimAddress: addr(65 + i)})
			t.SiafundOutputs = append(t.SiafundOutputs, types.SiafundOutput{Value: uint64(i) + 7, Address: addr(70 + i)})
			t.MinerFees = append(t.MinerFees, types.Siacoins(uint32(i)+1).Div64(1000))
			t.ArbitraryData = append(t.ArbitraryData, []byte{80 + i, 1, 2, 3})
			t.Signatures = append(t.Signatures, types.TransactionSignature{ParentID: h32(10 + i), PublicKeyIndex: uint64(i), Timelock: uint64(i), CoveredFields: types.CoveredFields{WholeTransaction: true}, Signature: []byte{90 + i, 9, 9}})
		}
		return t
	}
	kinds := []struct {
		name   string
		set    func(cf *types.CoveredFields, l []uint64)
		tamper func(t *types.Transaction, j int)
	}{
		{"SiacoinInputs", func(cf *types.CoveredFields, l []uint64) { cf.SiacoinInputs = l }, func(t *types.Transaction, j int) { t.SiacoinInputs[j].ParentID[5] ^= 1 }},
		{"SiacoinOutputs", func(cf *types.CoveredFields, l []uint64) { cf.SiacoinOutputs = l }, func(t *types.Transaction, j int) { t.SiacoinOutputs[j].Address[5] ^= 1 }},
		{"FileContracts", func(cf *types.CoveredFields, l []uint64) { cf.FileContracts = l }, func(t *types.Transaction, j int) { t.FileContracts[j].FileMerkleRoot[5] ^= 1 }},
		{"FileContractRevisions", func(cf *types.CoveredFields, l []uint64) { cf.FileContractRevisions = l }, func(t *types.Transaction, j int) { t.FileContractRevisions[j].FileContract.RevisionNumber++ }},
		{"StorageProofs", func(cf *types.CoveredFields, l []uint64) { cf.StorageProofs = l }, func(t *types.Transaction, j int) { t.StorageProofs[j].Leaf[5] ^= 1 }},
		{"SiafundInputs", func(cf *types.CoveredFields, l []uint64) { cf.SiafundInputs = l }, func(t *types.Transaction, j int) { t.SiafundInputs[j].ClaimAddress[5] ^= 1 }},
		{"SiafundOutputs", func(cf *types.CoveredFields, l []uint64) { cf.SiafundOutputs = l }, func(t *types.Transaction, j int) { t.SiafundOutputs[j].Value++ }},
		{"MinerFees", func(cf *types.CoveredFields, l []uint64) { cf.MinerFees = l }, func(t *types.Transaction, j int) { t.MinerFees[j] = t.MinerFees[j].Add(types.NewCurrency64(1)) }},
		{"ArbitraryData", func(cf *types.CoveredFields, l []uint64) { cf.ArbitraryData = l }, func(t *types.Transaction, j int) { t.ArbitraryData[j][0] ^= 1 }},
		{"Signatures", func(cf *types.CoveredFields, l []uint64) { cf.Signatures = l }, func(t *types.Transaction, j int) { t.Signatures[j].Signature[0] ^= 1 }},
	}
	lists := [][]uint64{{}, {0}, {1}, {2}, {0, 1}, {1, 0}, {0, 2}, {2, 0}, {1, 2}, {2, 1}}
	in := func(l []uint64, j int) bool {
		for _, x := range l {
			if int(x) == j {
				return true
			}
		}
		return false
	}
	tc := tcase{Network: w.Spec.Name, Height: w.ChildHeight(), Template: "partial sighash covered-field binding", Seed: c.Seed}
	// whole-transaction signature hash: binds every element of every list, its own parent / key index / timelock, and
	// exactly the signature entries listed as covered
	for _, l := range lists {
		base := mk()
		parent, idx, tl := h32(10), uint64(1), uint64(7)
		h0 := cs.WholeSigHash(base, parent, idx, tl, l)
		bad := func(what string, got, want bool) {
			t := tc
			t.Template = "whole sighash binding"
			t.Tamper = fmt.Sprintf("covered signatures %v, %s", l, what)
			c.Violate("C03|whole-sighash|binding|"+what[:min(len(what), 24)], fmt.Sprintf("[%s] WholeSigHash with covered signatures %v: %s changed the hash = %v, expected %v", w.Spec.Name, l, what, got, want), t)
		}
		for _, k2 := range kinds {
			for j := 0; j < 3; j++ {
				t2 := mk()
				k2.tamper(&t2, j)
				h1 := cs.WholeSigHash(t2, parent, idx, tl, l)
				c.Count("evaluations", 1)
				want := k2.name != "Signatures" || in(l, j)
				if (h1 != h0) != want {
					bad(fmt.Sprintf("%s[%d] tampered", k2.name, j), h1 != h0, want)
				} else {
					c.Count("whole_sighash_binding_checked", 1)
				}
			}
		}
		if cs.WholeSigHash(base, h32(11), idx, tl, l) == h0 {
			bad("parent id changed", false, true)
		}
		if cs.WholeSigHash(base, parent, idx+1, tl, l) == h0 {
			bad("public key index changed", false, true)
		}
		if cs.WholeSigHash(base, parent, idx, tl+1, l) == h0 {
			bad("timelock changed", false, true)
		}
	}
	for ki, k := range kinds {
		seen := map[types.Hash256]string{}
		for _, l := range lists {
			var cf types.CoveredFields
			k.set(&cf, l)
			base := mk()
			var h0 types.Hash256
			if p, _ := vf.Try(func() { h0 = cs.PartialSigHash(base, cf) }); p != nil {
				t := tc
				t.Tamper = fmt.Sprintf("%s covered %v", k.name, l)
				c.Violate("C03|partial-sighash|panic|"+k.name, fmt.Sprintf("PartialSigHash panicked for covered %s %v on a transaction with three elements per list: %v", k.name, l, p), t)
				continue
			}
			c.Count("evaluations", 1)
			label := fmt.Sprint(l)
			if prev, dup := seen[h0]; dup {
				t := tc
				t.Tamper = fmt.Sprintf("%s covered %s vs %s", k.name, prev, label)
				c.Violate("C03|partial-sighash|selection-not-bound|"+k.name, fmt.Sprintf("[%s] PartialSigHash is the same for covered %s %s and %s", w.Spec.Name, k.name, prev, label), t)
			}
			seen[h0] = label
			for kj, k2 := range kinds {
				for j := 0; j < 3; j++ {
					t2 := mk()
					k2.tamper(&t2, j)
					h1 := cs.PartialSigHash(t2, cf)
					c.Count("evaluations", 1)
					c.Distinct("covered", k.name, label, k2.name, j)
					want := kj == ki && in(l, j)
					if (h1 != h0) != want {
						t := tc
						t.Tamper = fmt.Sprintf("covered %s %s, tampered %s[%d]", k.name, label, k2.name, j)
						cls := "covered-element-not-bound"
						if !want {
							cls = "uncovered-element-bound"
						}
						c.Violate("C03|partial-sighash|"+cls+"|"+k.name, fmt.Sprintf("[%s] PartialSigHash with covered %s %s: tampering %s[%d] changed the hash = %v, expected %v", w.Spec.Name, k.name, label, k2.name, j, h1 != h0, want), t)
					} else {
						c.Count("partial_sighash_binding_checked", 1)
					}
				}
			}
		}
	}
}
