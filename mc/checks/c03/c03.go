// Package c03: spends, revisions, renewals and attestations need
// content-binding authorisation. A library of signed templates is instantiated
// at states of every era; every single-point tampering (reflection walk over
// every field of the signed transaction, plus structured substitutions) is
// applied, the block is re-sealed but NOT re-signed, and must be rejected.
package c03

import (
	"crypto/sha256"
	"reflect"
	"encoding/json"
	"fmt"
	"strings"
	"time"

	"go.sia.tech/core/types"
	"verifmc/chain"
	"verifmc/vf"
)

func init() {
	vf.Register(&vf.Check{ID: "C03", Level: "model_checking", Run: run, Replay: replay})
}

type tcase struct {
	Network  string `json:"network"`
	Height   uint64 `json:"height"`
	Template string `json:"template"`
	Tamper   string `json:"tampering"`
	Seed     int64  `json:"seed"`
}

var preimage = [32]byte{7, 7, 7}

func multisigUC(k *chain.Keys) types.UnlockConditions {
	return types.UnlockConditions{PublicKeys: []types.UnlockKey{k.Pub[0].UnlockKey(), k.Pub[1].UnlockKey(), k.Pub[2].UnlockKey()}, SignaturesRequired: 2}
}

// wideUC: 66 keys (64 filler keys nobody holds, then keys 0 and 2), 2 signatures required.
func wideUC(k *chain.Keys) types.UnlockConditions {
	uc := types.UnlockConditions{SignaturesRequired: 2}
	for i := 0; i < 64; i++ {
		var pk types.PublicKey
		pk[0], pk[1] = 0x77, byte(i)
		uc.PublicKeys = append(uc.PublicKeys, pk.UnlockKey())
	}
	uc.PublicKeys = append(uc.PublicKeys, k.Pub[0].UnlockKey(), k.Pub[2].UnlockKey())
	return uc
}

func lockedUC(k *chain.Keys) types.UnlockConditions {
	uc := k.StdUC(0)
	uc.Timelock = 1
	return uc
}

func threshPolicy(k *chain.Keys) types.SpendPolicy {
	return types.PolicyThreshold(2, []types.SpendPolicy{types.PolicyPublicKey(k.Pub[0]), types.PolicyPublicKey(k.Pub[1]), types.PolicyPublicKey(k.Pub[2])})
}

// nestedPolicy: a threshold inside a threshold, the nested one first or last (2-of-2 of {pk(key 1), 1-of-2 of {pk(key 0),
// pk(key 2)}}).
func nestedPolicy(k *chain.Keys, nestedFirst bool) types.SpendPolicy {
	inner := types.PolicyThreshold(1, []types.SpendPolicy{types.PolicyPublicKey(k.Pub[0]), types.PolicyPublicKey(k.Pub[2])})
	if nestedFirst {
		return types.PolicyThreshold(2, []types.SpendPolicy{inner, types.PolicyPublicKey(k.Pub[1])})
	}
	return types.PolicyThreshold(2, []types.SpendPolicy{types.PolicyPublicKey(k.Pub[1]), inner})
}

// nestedSpend presents nestedPolicy with the inner threshold satisfied by key 0 (key 2's branch opaque).
func nestedSpend(k *chain.Keys, nestedFirst bool) types.SpendPolicy {
	inner := types.PolicyThreshold(1, []types.SpendPolicy{types.PolicyPublicKey(k.Pub[0]), types.PolicyOpaque(types.PolicyPublicKey(k.Pub[2]))})
	if nestedFirst {
		return types.PolicyThreshold(2, []types.SpendPolicy{inner, types.PolicyPublicKey(k.Pub[1])})
	}
	return types.PolicyThreshold(2, []types.SpendPolicy{types.PolicyPublicKey(k.Pub[1]), inner})
}

func hashPolicy() types.SpendPolicy { return types.PolicyHash(sha256.Sum256(preimage[:])) }

func lockPolicy(k *chain.Keys) types.SpendPolicy {
	return types.PolicyThreshold(3, []types.SpendPolicy{types.PolicyAbove(0), types.PolicyAfter(chain.GenesisTime.Add(-time.Hour)), types.PolicyPublicKey(k.Pub[0])})
}

func alloc(k *chain.Keys) chain.GenesisAlloc {
	g := chain.DefaultAlloc(k)
	add := func(a types.Address, n int) {
		for i := 0; i < n; i++ {
			g.SC = append(g.SC, types.SiacoinOutput{Value: types.Siacoins(uint32(300 + len(g.SC))), Address: a})
		}
	}
	add(multisigUC(k).UnlockHash(), 2)
	// 100 of the siafunds move to a 2-of-3 multisig address (a v1-signed address that is neither developer address)
	g.SF[0].Value -= 100
	g.SF = append(g.SF, types.SiafundOutput{Value: 100, Address: multisigUC(k).UnlockHash()})
	add(wideUC(k).UnlockHash(), 2)
	add(lockedUC(k).UnlockHash(), 2)
	add(threshPolicy(k).Address(), 2)
	add(hashPolicy().Address(), 2)
	add(lockPolicy(k).Address(), 2)
	add(nestedPolicy(k, true).Address(), 2)
	add(nestedPolicy(k, false).Address(), 2)
	add(k.Addr(chain.AddrV1), 6)
	add(k.Addr(chain.AddrV2), 6)
	add(k.Addr(chain.AddrFnd), 2)
	add(k.Addr(chain.AddrFndV2), 2)
	return g
}

// keyIndexOfUC returns the index of the harness key behind single-key unlock conditions (-1 if unknown).
func keyIndexOfUC(k *chain.Keys, uc types.UnlockConditions) int {
	if len(uc.PublicKeys) != 1 {
		return -1
	}
	for i := range k.Pub {
		if string(uc.PublicKeys[0].Key) == string(k.Pub[i][:]) {
			return i
		}
	}
	return -1
}

func keyIndex(k *chain.Keys, pk types.PublicKey) int {
	for i := range k.Pub {
		if k.Pub[i] == pk {
			return i
		}
	}
	return 0
}

func findSC(w *chain.World, a types.Address) (types.SiacoinElement, bool) {
	var best *types.SiacoinElement
	for _, e := range w.Store.SC {
		if e.SiacoinOutput.Address == a && e.MaturityHeight <= w.ChildHeight() {
			if best == nil || e.StateElement.LeafIndex < best.StateElement.LeafIndex {
				c := e.Copy()
				best = &c
			}
		}
	}
	if best == nil {
		return types.SiacoinElement{}, false
	}
	return *best, true
}

// template builds a valid signed use; unspec reports mutation paths the signed set does not cover.
type template struct {
	name   string
	build  func(w *chain.World) (chain.Use, bool)
	unspec func(path string) bool
}

func none(string) bool { return false }

func signV1With(w *chain.World, t *types.Transaction, parent types.Hash256, keyIdx []int, pubIdx []uint64, cf types.CoveredFields, timelock uint64) {
	start := len(t.Signatures)
	for i := range keyIdx {
		t.Signatures = append(t.Signatures, types.TransactionSignature{ParentID: parent, PublicKeyIndex: pubIdx[i], CoveredFields: cf, Timelock: timelock})
	}
	for j := start; j < len(t.Signatures); j++ {
		i := j - start
		sig := &t.Signatures[j]
		if sig.Signature != nil {
			continue
		}
		var h types.Hash256
		if sig.CoveredFields.WholeTransaction {
			h = w.CS.WholeSigHash(*t, sig.ParentID, sig.PublicKeyIndex, sig.Timelock, sig.CoveredFields.Signatures)
		} else {
			h = w.CS.PartialSigHash(*t, sig.CoveredFields)
		}
		s := w.Keys.Priv[keyIdx[i]].SignHash(h)
		sig.Signature = s[:]
	}
}

func templates(k *chain.Keys) []template {
	whole := types.CoveredFields{WholeTransaction: true}
	v1base := func(w *chain.World, a types.Address, uc types.UnlockConditions) (types.Transaction, types.SiacoinElement, bool) {
		p, ok := findSC(w, a)
		if !ok || w.ChildHeight() >= w.Net.HardforkV2.RequireHeight {
			return types.Transaction{}, p, false
		}
		v := p.SiacoinOutput.Value.Sub(chain.Fee).Sub(types.NewCurrency64(3))
		half := v.Div64(2)
		return types.Transaction{SiacoinInputs: []types.SiacoinInput{{ParentID: p.ID, UnlockConditions: uc}},
			SiacoinOutputs: []types.SiacoinOutput{{Value: half, Address: k.Addr(chain.AddrV1)}, {Value: v.Sub(half), Address: k.Addr(chain.AddrV2)}},
			MinerFees:      []types.Currency{chain.Fee, types.NewCurrency64(3)}, ArbitraryData: [][]byte{[]byte("memo"), []byte("second memo")}}, p, true
	}
	v2ok := func(w *chain.World) bool { return w.ChildHeight() >= w.Net.HardforkV2.AllowHeight }
	v2base := func(w *chain.World, a types.Address, sp types.SatisfiedPolicy, signer []int) (chain.Use, bool) {
		p, ok := findSC(w, a)
		if !ok || !v2ok(w) {
			return chain.Use{}, false
		}
		v := p.SiacoinOutput.Value.Sub(chain.Fee)
		half := v.Div64(2)
		t := types.V2Transaction{SiacoinInputs: []types.V2SiacoinInput{{Parent: p, SatisfiedPolicy: sp}},
			SiacoinOutputs: []types.SiacoinOutput{{Value: half, Address: k.Addr(chain.AddrV2)}, {Value: v.Sub(half), Address: k.Addr(chain.AddrV1)}},
			MinerFee:       chain.Fee, ArbitraryData: []byte("memo")}
		sh := w.CS.InputSigHash(t)
		for _, s := range signer {
			t.SiacoinInputs[0].SatisfiedPolicy.Signatures = append(t.SiacoinInputs[0].SatisfiedPolicy.Signatures, k.Priv[s].SignHash(sh))
		}
		return chain.Use{Name: "v2", V2: &t}, true
	}
	// a live v2 contract (formed by the setup) for revision / renewal templates
	contract := func(w *chain.World) (types.V2FileContractElement, bool) {
		for _, id := range chain.SortedIDs(w.Store.V2FC) {
			e := w.Store.V2FC[types.FileContractID(id)]
			if e.V2FileContract.ProofHeight >= w.ChildHeight() {
				return e.Copy(), true
			}
		}
		return types.V2FileContractElement{}, false
	}
	return []template{
		{"v1 whole-transaction signature", func(w *chain.World) (chain.Use, bool) {
			t, p, ok := v1base(w, k.Addr(chain.AddrV1), k.StdUC(0))
			if !ok {
				return chain.Use{}, false
			}
			signV1With(w, &t, types.Hash256(p.ID), []int{0}, []uint64{0}, whole, 0)
			return chain.Use{Name: "v1", V1: &t}, true
		}, none},
		{"v1 partial signature covering inputs, outputs and fees", func(w *chain.World) (chain.Use, bool) {
			t, p, ok := v1base(w, k.Addr(chain.AddrV1), k.StdUC(0))
			if !ok {
				return chain.Use{}, false
			}
			cf := types.CoveredFields{SiacoinInputs: []uint64{0}, SiacoinOutputs: []uint64{0, 1}, MinerFees: []uint64{0}}
			signV1With(w, &t, types.Hash256(p.ID), []int{0}, []uint64{0}, cf, 0)
			return chain.Use{Name: "v1", V1: &t}, true
		}, func(path string) bool { return strings.HasPrefix(path, ".ArbitraryData") || strings.HasSuffix(path, "].Timelock+1") }},
		{"v1 partial signature covering input and first output only", func(w *chain.World) (chain.Use, bool) {
			t, p, ok := v1base(w, k.Addr(chain.AddrV1), k.StdUC(0))
			if !ok {
				return chain.Use{}, false
			}
			cf := types.CoveredFields{SiacoinInputs: []uint64{0}, SiacoinOutputs: []uint64{0}}
			signV1With(w, &t, types.Hash256(p.ID), []int{0}, []uint64{0}, cf, 0)
			return chain.Use{Name: "v1", V1: &t}, true
		}, func(path string) bool {
			return strings.HasPrefix(path, ".ArbitraryData") || strings.HasPrefix(path, ".SiacoinOutputs[1]") || strings.HasPrefix(path, ".MinerFees") || strings.HasSuffix(path, "].Timelock+1")
		}},
		{"v1 2-of-3 multisig", func(w *chain.World) (chain.Use, bool) {
			uc := multisigUC(k)
			t, p, ok := v1base(w, uc.UnlockHash(), uc)
			if !ok {
				return chain.Use{}, false
			}
			signV1With(w, &t, types.Hash256(p.ID), []int{0, 2}, []uint64{0, 2}, whole, 0)
			return chain.Use{Name: "v1", V1: &t}, true
		}, none},
		{"v1 2-of-66 multisig (signers at key indices 64 and 65)", func(w *chain.World) (chain.Use, bool) {
			uc := wideUC(k)
			t, p, ok := v1base(w, uc.UnlockHash(), uc)
			if !ok {
				return chain.Use{}, false
			}
			signV1With(w, &t, types.Hash256(p.ID), []int{0, 2}, []uint64{64, 65}, whole, 0)
			return chain.Use{Name: "v1", V1: &t}, true
		}, none},
		{"v1 2-of-3 multisig, second signature covers the first", func(w *chain.World) (chain.Use, bool) {
			uc := multisigUC(k)
			t, p, ok := v1base(w, uc.UnlockHash(), uc)
			if !ok {
				return chain.Use{}, false
			}
			signV1With(w, &t, types.Hash256(p.ID), []int{0}, []uint64{0}, whole, 0)
			signV1With(w, &t, types.Hash256(p.ID), []int{2}, []uint64{2}, types.CoveredFields{WholeTransaction: true, Signatures: []uint64{0}}, 0)
			return chain.Use{Name: "v1", V1: &t}, true
		}, none},
		{"v1 timelocked conditions and timelocked signature", func(w *chain.World) (chain.Use, bool) {
			uc := lockedUC(k)
			t, p, ok := v1base(w, uc.UnlockHash(), uc)
			if !ok {
				return chain.Use{}, false
			}
			signV1With(w, &t, types.Hash256(p.ID), []int{0}, []uint64{0}, whole, 1)
			return chain.Use{Name: "v1", V1: &t}, true
		}, func(path string) bool {
			// lowering a timelock that is already satisfied changes nothing a signature must protect only if it is covered: it is (whole transaction) - nothing unspecified
			return false
		}},
		{"v1 siafund spend", func(w *chain.World) (chain.Use, bool) {
			if w.ChildHeight() >= w.Net.HardforkV2.RequireHeight {
				return chain.Use{}, false
			}
			bc := w.NewBlockCtx()
			p, ok := bc.PickSF(func(c int) bool { return c == chain.AddrV1 })
			if !ok {
				return chain.Use{}, false
			}
			u := w.UseV1SF(p, 1)
			return u, true
		}, none},
		{"v1 siafund spend of an output held by a 2-of-3 multisig address", func(w *chain.World) (chain.Use, bool) {
			if w.ChildHeight() >= w.Net.HardforkV2.RequireHeight {
				return chain.Use{}, false
			}
			uc := multisigUC(k)
			for _, id := range chain.SortedIDs(w.Store.SF) {
				p := w.Store.SF[types.SiafundOutputID(id)]
				if p.SiafundOutput.Address != uc.UnlockHash() {
					continue
				}
				t := types.Transaction{SiafundInputs: []types.SiafundInput{{ParentID: p.ID, UnlockConditions: uc, ClaimAddress: k.Addr(chain.AddrV1)}},
					SiafundOutputs: []types.SiafundOutput{{Value: p.SiafundOutput.Value, Address: uc.UnlockHash()}}, ArbitraryData: [][]byte{[]byte("memo"), []byte("second memo")}}
				signV1With(w, &t, types.Hash256(p.ID), []int{0, 2}, []uint64{0, 2}, whole, 0)
				return chain.Use{Name: "v1", V1: &t, SuppSF: []types.SiafundElement{p.Copy()}}, true
			}
			return chain.Use{}, false
		}, none},
		{"v1 partial signatures covering only the SECOND element of every list", func(w *chain.World) (chain.Use, bool) {
			// covered-field lists that are not the identity prefix [0..m-1]: siacoin outputs [1], siafund outputs [1], miner
			// fees [1], arbitrary data [1]; two inputs (one siacoin, one siafund), each signed over the same covered fields
			t, p, ok := v1base(w, k.Addr(chain.AddrV1), k.StdUC(0))
			if !ok {
				return chain.Use{}, false
			}
			bc := w.NewBlockCtx()
			q, ok := bc.PickSF(func(c int) bool { return c == chain.AddrV1 })
			if !ok || q.SiafundOutput.Value < 2 {
				return chain.Use{}, false
			}
			t.SiafundInputs = []types.SiafundInput{{ParentID: q.ID, UnlockConditions: k.StdUC(0), ClaimAddress: k.Addr(chain.AddrV1)}}
			t.SiafundOutputs = []types.SiafundOutput{{Value: 1, Address: k.Addr(chain.AddrV1b)}, {Value: q.SiafundOutput.Value - 1, Address: k.Addr(chain.AddrV1)}}
			t.ArbitraryData = [][]byte{[]byte("memo-0"), []byte("memo-1")}
			cf := types.CoveredFields{SiacoinInputs: []uint64{0}, SiafundInputs: []uint64{0}, SiacoinOutputs: []uint64{1}, SiafundOutputs: []uint64{1}, MinerFees: []uint64{1}, ArbitraryData: []uint64{1}}
			signV1With(w, &t, types.Hash256(p.ID), []int{0}, []uint64{0}, cf, 0)
			signV1With(w, &t, types.Hash256(q.ID), []int{0}, []uint64{0}, cf, 0)
			return chain.Use{Name: "v1", V1: &t, SuppSF: []types.SiafundElement{q.Copy()}}, true
		}, func(path string) bool {
			for _, un := range []string{".SiacoinOutputs[0]", ".SiafundOutputs[0]", ".MinerFees[0]", ".ArbitraryData[0]"} {
				if strings.HasPrefix(path, un) {
					return true
				}
			}
			// both inputs are signed by the same key over the same partial hash (which binds the covered fields only, not
			// the signature entry's own parent id): exchanging the two parent ids yields an equivalent transaction
			if strings.HasPrefix(path, ".Signatures[") && strings.HasSuffix(path, "].ParentID") {
				return true
			}
			// appending / dropping / duplicating list elements beyond the covered index, and raising a signature timelock
			return strings.HasSuffix(path, "].Timelock+1") || path == ".ArbitraryData[dup last]" || path == ".MinerFees[dup last]" || path == ".SiacoinOutputs[dup last]" || path == ".SiafundOutputs[dup last]"
		}},
		{"v1 partial signature covering the SECOND of two file contract formations", func(w *chain.World) (chain.Use, bool) {
			h := w.ChildHeight()
			if h >= w.Net.HardforkV2.RequireHeight {
				return chain.Use{}, false
			}
			bc := w.NewBlockCtx()
			if !chain.V1FormAbs(h+1, h+3, 100).Do(bc) || len(bc.V1) != 1 {
				return chain.Use{}, false
			}
			t := bc.V1[0]
			fc := t.FileContracts[0]
			if len(t.SiacoinOutputs) == 0 || t.SiacoinOutputs[0].Value.Cmp(fc.Payout) <= 0 || len(t.SiacoinInputs) != 1 {
				return chain.Use{}, false
			}
			fc2 := fc
			fc2.WindowEnd++
			t.FileContracts = []types.FileContract{fc, fc2}
			t.SiacoinOutputs = append([]types.SiacoinOutput(nil), t.SiacoinOutputs...)
			t.SiacoinOutputs[0].Value = t.SiacoinOutputs[0].Value.Sub(fc.Payout)
			t.Signatures = nil
			cf := types.CoveredFields{SiacoinInputs: []uint64{0}, SiacoinOutputs: []uint64{0}, FileContracts: []uint64{1}, MinerFees: []uint64{0}}
			ki := keyIndexOfUC(k, t.SiacoinInputs[0].UnlockConditions)
			if ki < 0 {
				return chain.Use{}, false
			}
			signV1With(w, &t, types.Hash256(t.SiacoinInputs[0].ParentID), []int{ki}, []uint64{0}, cf, 0)
			return chain.Use{Name: "v1", V1: &t}, true
		}, func(path string) bool {
			return strings.HasPrefix(path, ".FileContracts[0]") || strings.HasPrefix(path, ".ArbitraryData") || strings.HasSuffix(path, "].Timelock+1") || path == ".FileContracts[dup last]"
		}},
		{"v1 siafund spend through the dev-address override", func(w *chain.World) (chain.Use, bool) {
			if w.ChildHeight() >= w.Net.HardforkV2.RequireHeight || w.ChildHeight() < w.Net.HardforkDevAddr.Height {
				return chain.Use{}, false
			}
			bc := w.NewBlockCtx()
			p, ok := bc.PickSF(func(c int) bool { return c == chain.AddrV1b }) // the OLD developer address
			if !ok {
				return chain.Use{}, false
			}
			// spent by revealing the unlock conditions of the NEW address (key 0)
			t := types.Transaction{SiafundInputs: []types.SiafundInput{{ParentID: p.ID, UnlockConditions: k.StdUC(0), ClaimAddress: k.Addr(chain.AddrV1)}},
				SiafundOutputs: []types.SiafundOutput{{Value: p.SiafundOutput.Value, Address: k.Addr(chain.AddrV1)}}}
			signV1With(w, &t, types.Hash256(p.ID), []int{0}, []uint64{0}, whole, 0)
			return chain.Use{Name: "v1", V1: &t}, true
		}, none},
		{"v1 contract revision (2-of-2)", func(w *chain.World) (chain.Use, bool) {
			if w.ChildHeight() >= w.Net.HardforkV2.RequireHeight {
				return chain.Use{}, false
			}
			for _, id := range chain.SortedIDs(w.Store.FC) {
				e := w.Store.FC[types.FileContractID(id)]
				if e.FileContract.WindowStart >= w.ChildHeight() {
					return w.UseV1Revise(e, e.FileContract, 1), true
				}
			}
			return chain.Use{}, false
		}, func(path string) bool { return strings.HasSuffix(path, ".FileContract.Payout.Lo+1") || strings.HasSuffix(path, ".FileContract.Payout.Hi+1") }},
		{"v1 contract revision handing the contract over to new unlock conditions", func(w *chain.World) (chain.Use, bool) {
			if w.ChildHeight() >= w.Net.HardforkV2.RequireHeight {
				return chain.Use{}, false
			}
			for _, id := range chain.SortedIDs(w.Store.FC) {
				e := w.Store.FC[types.FileContractID(id)]
				if e.FileContract.WindowStart >= w.ChildHeight() && e.FileContract.UnlockHash == k.ContractUC().UnlockHash() {
					// the CURRENT owners (parent's unlock conditions) sign a revision that names a new owner
					next := e.FileContract
					next.ValidProofOutputs = append([]types.SiacoinOutput(nil), next.ValidProofOutputs...)
					next.MissedProofOutputs = append([]types.SiacoinOutput(nil), next.MissedProofOutputs...)
					next.RevisionNumber++
					next.UnlockHash = k.StdUC(3).UnlockHash()
					t := types.Transaction{FileContractRevisions: []types.FileContractRevision{{ParentID: e.ID, UnlockConditions: k.ContractUC(), FileContract: next}}}
					w.SignV1Whole(&t)
					return chain.Use{Name: "v1revise-handoff", V1: &t, SuppFC: []types.FileContractElement{e}}, true
				}
			}
			return chain.Use{}, false
		}, func(path string) bool { return strings.HasSuffix(path, ".FileContract.Payout.Lo+1") || strings.HasSuffix(path, ".FileContract.Payout.Hi+1") }},
		{"v1 foundation update", func(w *chain.World) (chain.Use, bool) {
			if w.ChildHeight() >= w.Net.HardforkV2.RequireHeight || w.ChildHeight() < w.Net.HardforkFoundation.Height || w.CS.FoundationSubsidyAddress != k.Addr(chain.AddrFnd) {
				return chain.Use{}, false
			}
			p, ok := findSC(w, k.Addr(chain.AddrFnd))
			if !ok {
				return chain.Use{}, false
			}
			arb := append([]byte(nil), types.SpecifierFoundation[:]...)
			np, nf := k.Addr(chain.AddrV1b), k.Addr(chain.AddrFndV2)
			arb = append(append(arb, np[:]...), nf[:]...)
			t := types.Transaction{SiacoinInputs: []types.SiacoinInput{{ParentID: p.ID, UnlockConditions: k.StdUC(3)}},
				SiacoinOutputs: []types.SiacoinOutput{{Value: p.SiacoinOutput.Value, Address: k.Addr(chain.AddrFnd)}}, ArbitraryData: [][]byte{arb}}
			signV1With(w, &t, types.Hash256(p.ID), []int{3}, []uint64{0}, whole, 0)
			return chain.Use{Name: "v1", V1: &t}, true
		}, none},
		{"v2 public-key policy", func(w *chain.World) (chain.Use, bool) {
			return v2base(w, k.Addr(chain.AddrV2), types.SatisfiedPolicy{Policy: types.PolicyPublicKey(k.Pub[0])}, []int{0})
		}, none},
		{"v2 threshold 2-of-3 with one opaque branch", func(w *chain.World) (chain.Use, bool) {
			p := threshPolicy(k)
			pt := p.Type.(types.PolicyTypeThreshold)
			of := append([]types.SpendPolicy(nil), pt.Of...)
			of[1] = types.PolicyOpaque(of[1])
			return v2base(w, p.Address(), types.SatisfiedPolicy{Policy: types.PolicyThreshold(2, of)}, []int{0, 2})
		}, none},
		{"v2 threshold with a nested threshold first", func(w *chain.World) (chain.Use, bool) {
			// signatures in the order the policy is walked: key 0 (inside the nested threshold), then key 1
			return v2base(w, nestedPolicy(k, true).Address(), types.SatisfiedPolicy{Policy: nestedSpend(k, true)}, []int{0, 1})
		}, none},
		{"v2 threshold with a nested threshold last", func(w *chain.World) (chain.Use, bool) {
			return v2base(w, nestedPolicy(k, false).Address(), types.SatisfiedPolicy{Policy: nestedSpend(k, false)}, []int{1, 0})
		}, none},
		{"v2 hash lock", func(w *chain.World) (chain.Use, bool) {
			return v2base(w, hashPolicy().Address(), types.SatisfiedPolicy{Policy: hashPolicy(), Preimages: [][32]byte{preimage}}, nil)
		}, func(path string) bool {
			// a hash-lock-only input carries no signature: nothing binds the rest of the transaction to it
			return !strings.HasPrefix(path, ".SiacoinInputs")
		}},
		{"v2 above/after/public-key threshold", func(w *chain.World) (chain.Use, bool) {
			return v2base(w, lockPolicy(k).Address(), types.SatisfiedPolicy{Policy: lockPolicy(k)}, []int{0})
		}, none},
		{"v2 legacy unlock-conditions policy", func(w *chain.World) (chain.Use, bool) {
			return v2base(w, k.Addr(chain.AddrV1), types.SatisfiedPolicy{Policy: types.SpendPolicy{Type: types.PolicyTypeUnlockConditions(k.StdUC(0))}}, []int{0})
		}, none},
		{"v2 siafund spend", func(w *chain.World) (chain.Use, bool) {
			if !v2ok(w) {
				return chain.Use{}, false
			}
			bc := w.NewBlockCtx()
			p, ok := bc.PickSF(func(c int) bool { return c == chain.AddrV2 || c == chain.AddrV1 })
			if !ok {
				return chain.Use{}, false
			}
			return w.UseV2SF(p, 1), true
		}, none},
		{"v2 contract formation", func(w *chain.World) (chain.Use, bool) {
			if !v2ok(w) {
				return chain.Use{}, false
			}
			bc := w.NewBlockCtx()
			if !chain.V2Form(2, 2, 100).Do(bc) {
				return chain.Use{}, false
			}
			t := bc.V2[0]
			return chain.Use{Name: "v2form", V2: &t}, true
		}, none},
		{"v2 contract revision (current keys)", func(w *chain.World) (chain.Use, bool) {
			e, ok := contract(w)
			if !ok || !v2ok(w) {
				return chain.Use{}, false
			}
			return w.UseV2Revise(e, e.V2FileContract, 1), true
		}, func(path string) bool { return path == ".ArbitraryData[append]" || strings.HasPrefix(path, ".ArbitraryData") }},
		{"v2 contract revision handing the HOST role to another key (signed by the current keys)", func(w *chain.World) (chain.Use, bool) {
			e, ok := contract(w)
			if !ok || !v2ok(w) || e.V2FileContract.RevisionNumber >= 1<<62 {
				return chain.Use{}, false
			}
			cur := e.V2FileContract
			rev := cur
			rev.RevisionNumber++
			rev.HostPublicKey = k.Pub[3]
			if cur.HostPublicKey == k.Pub[3] {
				rev.HostPublicKey = k.Pub[1]
			}
			w.SignContract(&rev, keyIndex(k, cur.RenterPublicKey), keyIndex(k, cur.HostPublicKey))
			return chain.Use{Name: "v2revise-hostkey", V2: &types.V2Transaction{FileContractRevisions: []types.V2FileContractRevision{{Parent: e.Copy(), Revision: rev}}}}, true
		}, func(path string) bool { return strings.HasPrefix(path, ".ArbitraryData") }},
		{"v2 contract revision after a key rotation earlier in the same block", func(w *chain.World) (chain.Use, bool) {
			e, ok := contract(w)
			if !ok || !v2ok(w) || e.V2FileContract.RevisionNumber > 1<<60 {
				return chain.Use{}, false
			}
			cur := e.V2FileContract
			// first transaction: rotate the renter key (signed by the keys as they stand)
			rot := cur
			rot.RevisionNumber++
			newRenter := 2
			if cur.RenterPublicKey == k.Pub[2] {
				newRenter = 0
			}
			rot.RenterPublicKey = k.Pub[newRenter]
			w.SignContract(&rot, keyIndex(k, cur.RenterPublicKey), keyIndex(k, cur.HostPublicKey))
			first := chain.Use{Name: "rotate", V2: &types.V2Transaction{FileContractRevisions: []types.V2FileContractRevision{{Parent: e.Copy(), Revision: rot}}}}
			// second transaction: a further revision, signed by the keys of the contract AS IT NOW STANDS (the rotated key)
			rev := rot
			rev.RevisionNumber++
			w.SignContract(&rev, newRenter, keyIndex(k, cur.HostPublicKey))
			second := chain.Use{Name: "revise-after-rotation", V2: &types.V2Transaction{FileContractRevisions: []types.V2FileContractRevision{{Parent: e.Copy(), Revision: rev}}}, Before: []chain.Use{first}}
			return second, true
		}, func(path string) bool { return strings.HasPrefix(path, ".ArbitraryData") }},
		{"v2 contract renewal", func(w *chain.World) (chain.Use, bool) {
			e, ok := contract(w)
			if !ok || !v2ok(w) {
				return chain.Use{}, false
			}
			f, ok := findSC(w, k.Addr(chain.AddrV2))
			if !ok {
				return chain.Use{}, false
			}
			return w.UseV2Renew(e, f)
		}, none},
		{"v2 signed payment carrying the expiration of a contract", func(w *chain.World) (chain.Use, bool) {
			if !v2ok(w) {
				return chain.Use{}, false
			}
			p, ok := findSC(w, k.Addr(chain.AddrV2))
			if !ok {
				return chain.Use{}, false
			}
			for _, id := range chain.SortedIDs(w.Store.V2FC) {
				e := w.Store.V2FC[types.FileContractID(id)]
				if w.ChildHeight() > e.V2FileContract.ExpirationHeight {
					t := types.V2Transaction{SiacoinInputs: []types.V2SiacoinInput{{Parent: p}},
						SiacoinOutputs:          []types.SiacoinOutput{{Value: p.SiacoinOutput.Value.Sub(chain.Fee), Address: k.Addr(chain.AddrV2b)}},
						FileContractResolutions: []types.V2FileContractResolution{{Parent: e.Copy(), Resolution: &types.V2FileContractExpiration{}}}, MinerFee: chain.Fee}
					w.SignV2(&t)
					return chain.Use{Name: "v2pay+expire", V2: &t}, true
				}
			}
			return chain.Use{}, false
		}, none},
		{"v2 signed payment carrying a contract revision", func(w *chain.World) (chain.Use, bool) {
			e, ok := contract(w)
			if !ok || !v2ok(w) {
				return chain.Use{}, false
			}
			p, ok := findSC(w, k.Addr(chain.AddrV2))
			if !ok {
				return chain.Use{}, false
			}
			u := w.UseV2Revise(e, e.V2FileContract, 1)
			u.V2.SiacoinInputs = []types.V2SiacoinInput{{Parent: p}}
			u.V2.SiacoinOutputs = []types.SiacoinOutput{{Value: p.SiacoinOutput.Value.Sub(chain.Fee), Address: k.Addr(chain.AddrV2b)}}
			u.V2.MinerFee = chain.Fee
			w.SignV2(u.V2)
			return u, true
		}, none},
		{"v2 attestation", func(w *chain.World) (chain.Use, bool) {
			if !v2ok(w) {
				return chain.Use{}, false
			}
			a := types.Attestation{PublicKey: k.Pub[1], Key: "HostAnnouncement", Value: []byte("host.example:9981")}
			a.Signature = k.Priv[1].SignHash(w.CS.AttestationSigHash(a))
			return chain.Use{Name: "attest", V2: &types.V2Transaction{Attestations: []types.Attestation{a}}}, true
		}, func(path string) bool {
			// re-publishing a second copy of a validly self-signed attestation is not a forgery
			return strings.HasPrefix(path, ".ArbitraryData") || path == ".Attestations[dup last]"
		}},
		{"v2 foundation update", func(w *chain.World) (chain.Use, bool) {
			if !v2ok(w) || w.CS.FoundationManagementAddress != k.Addr(chain.AddrFndV2) {
				return chain.Use{}, false
			}
			p, ok := findSC(w, k.Addr(chain.AddrFndV2))
			if !ok {
				return chain.Use{}, false
			}
			na := k.Addr(chain.AddrV2b)
			t := types.V2Transaction{SiacoinInputs: []types.V2SiacoinInput{{Parent: p}}, SiacoinOutputs: []types.SiacoinOutput{{Value: p.SiacoinOutput.Value, Address: k.Addr(chain.AddrFndV2)}}, NewFoundationAddress: &na}
			w.SignV2(&t)
			return chain.Use{Name: "v2fnd", V2: &t}, true
		}, none},
	}
}

// states: worlds at every height of each network, with a v1 and a v2 contract formed (and the v2 contract's keys rotated) on the way.
func worlds(c *vf.Ctx, spec chain.NetSpec, keys *chain.Keys, maxH uint64, each func(w *chain.World)) {
	w, p := chain.NewWorld(spec, keys, alloc(keys), chain.Options{CheckLedger: true})
	if p != nil {
		c.HarnessError("genesis: %v", p)
		return
	}
	rotated, formedV1, formedV2, formedShort := false, false, false, false
	for w.ChildHeight() <= maxH {
		each(w)
		bc := w.NewBlockCtx()
		h := w.ChildHeight()
		// keep contracts alive: form a v1 contract early, a v2 contract as soon as allowed, then two short-lived v2 contracts
		// (left to expire unresolved: from then on there are always two contracts an expiration could name), then rotate
		// the long-lived contract's renter key once
		switch {
		case !formedV1 && h < spec.Require && chain.V1Form(20, 2, 100).Do(bc):
			formedV1 = true
		case !formedV2 && h >= spec.Allow && chain.V2Form(20, 2, 100).Do(bc):
			formedV2 = true
		case formedV2 && !formedShort && chain.Seq("short contracts", chain.V2FormSalted(1, 1, 100, 1), chain.V2FormSalted(1, 1, 100, 2)).Do(bc):
			formedShort = true
		case formedShort && !rotated && chain.V2Revise("keys").Do(bc):
			rotated = true
		}
		b, bs := w.BuildBlock(bc.V1, bc.V2, chain.BlockOpts{})
		if err, p := w.Apply(b, bs); err != nil || p != nil {
			c.Violate("C03|honest-rejected|history", fmt.Sprintf("history block rejected at %d on %s: %v %v", h, spec.Name, err, p), tcase{Network: spec.Name, Height: h, Template: "history", Seed: c.Seed})
			return
		}
	}
}

func probeTemplate(c *vf.Ctx, w *chain.World, tp template) {
	u, ok := tp.build(w)
	if !ok {
		return
	}
	tc := tcase{Network: w.Spec.Name, Height: w.ChildHeight(), Template: tp.name, Seed: c.Seed}
	validate := func(u chain.Use) (accepted bool, panicked any) {
		b, bs := w.BlockOfUses(u)
		var err error
		panicked, _ = vf.Try(func() { err = w.Validate(b, bs) })
		c.Count("evaluations", 1)
		c.Count("transitions", 1)
		return err == nil && panicked == nil, panicked
	}
	if ok, p := validate(u); !ok {
		c.Violate("C03|untampered-rejected|"+tp.name, fmt.Sprintf("[%s height %d] untampered signed template %q rejected (panic=%v)", w.Spec.Name, tc.Height, tp.name, p), tc)
		return
	}
	c.Count("untampered_accepted", 1)
	c.Count("template:"+tp.name, 1)
	var ptr any
	if u.V1 != nil {
		ptr = u.V1
	} else {
		ptr = u.V2
	}
	check := func(label string) {
		acc, p := validate(u)
		c.Distinct(w.Spec.Name, tc.Height, tp.name, label)
		switch {
		case p != nil:
			c.Count("tampered_panicked(see C10)", 1)
		case tp.unspec(label) || moveUnspec(tp, label):
			c.Count("unspecified_not_asserted", 1)
		case acc:
			t := tc
			t.Tamper = label
			sig := "C03|tampered-accepted|" + tp.name + "|" + stable(label)
			if strings.HasPrefix(label, ".Signatures[") && (strings.HasSuffix(label, ".Signature[dup last]") || strings.HasSuffix(label, ".Signature[drop last]")) {
				// one defect, independent of the template: v1 signatures are copied into a 64-byte array without a length
				// check, so trailing bytes are ignored and a missing final zero byte is padded back
				sig = "C03|tampered-accepted|v1 transaction signature|signature length not checked"
			}
			c.Violate(sig, fmt.Sprintf("[%s height %d] template %q: block ACCEPTED after tampering %s without re-signing", w.Spec.Name, tc.Height, tp.name, label), t)
		default:
			c.Count("tampered_rejected", 1)
		}
	}
	for _, m := range chain.Mutations(ptr, nil) {
		m.Apply()
		check(m.Path)
		m.Undo()
	}
	// compensating tamperings: move one hasting between every ordered pair of currency fields (sums unchanged: only a signature can object)
	curs := currencyFields(ptr)
	for i := range curs {
		for j := range curs {
			if i == j || curs[i].v.Lo == 0 || curs[j].v.Lo == ^uint64(0) {
				continue
			}
			curs[i].v.Lo--
			curs[j].v.Lo++
			check("move 1 hasting " + curs[i].path + " -> " + curs[j].path)
			curs[i].v.Lo++
			curs[j].v.Lo--
		}
	}
	// exchange tamperings: the contents of every two distinct same-typed leaves (currencies, addresses, hashes, keys,
	// signatures, integers) and every two elements of one list are exchanged - multisets of values are unchanged, so a
	// signature hash that does not bind positions would not notice
	lvs := leaves(ptr)
	for i := range lvs {
		for j := i + 1; j < len(lvs); j++ {
			a, b := lvs[i], lvs[j]
			if a.v.Type() != b.v.Type() || strings.HasPrefix(b.path, a.path+"[") || strings.HasPrefix(b.path, a.path+".") || reflect.DeepEqual(a.v.Interface(), b.v.Interface()) {
				continue
			}
			tmp := reflect.New(a.v.Type()).Elem()
			tmp.Set(a.v)
			a.v.Set(b.v)
			b.v.Set(tmp)
			check("exchange " + a.path + " <-> " + b.path)
			b.v.Set(a.v)
			a.v.Set(tmp)
		}
	}
	// overwrite tamperings: every element of a list replaced by a copy of every other element of the same list (one
	// signer signing twice instead of the co-signer, one input or output repeated, ...)
	for i := range lvs {
		for j := range lvs {
			a, b := lvs[i], lvs[j]
			if i == j || !a.elem || !b.elem || a.list != b.list || reflect.DeepEqual(a.v.Interface(), b.v.Interface()) {
				continue
			}
			tmp := reflect.New(b.v.Type()).Elem()
			tmp.Set(b.v)
			b.v.Set(a.v)
			check("overwrite " + b.path + " := " + a.path)
			b.v.Set(tmp)
		}
	}
	// structured substitutions
	if u.V2 != nil {
		t := u.V2
		k := w.Keys
		for i := range t.SiacoinInputs {
			sp := &t.SiacoinInputs[i].SatisfiedPolicy
			old := *sp
			// another policy (different address), satisfied correctly by ITS key
			sp.Policy = types.PolicyPublicKey(k.Pub[2])
			sp.Signatures = []types.Signature{k.Priv[2].SignHash(w.CS.InputSigHash(*t))}
			sp.Preimages = nil
			check("substitute another policy satisfied by another key")
			*sp = old
			// same address, satisfied branch made opaque
			if th, ok := old.Policy.Type.(types.PolicyTypeThreshold); ok {
				of := append([]types.SpendPolicy(nil), th.Of...)
				for j := range of {
					if _, isOpaque := of[j].Type.(types.PolicyTypeOpaque); !isOpaque {
						of[j] = types.PolicyOpaque(of[j])
						break
					}
				}
				sp.Policy = types.PolicyThreshold(th.N, of)
				check("make a satisfied branch opaque (same address)")
				*sp = old
			}
			// a co-signer withdrawn: every top-level public-key branch in turn made opaque (same address) AND its signature
			// removed - the threshold is then one short, whatever nested thresholds beside it contributed
			if th, ok := old.Policy.Type.(types.PolicyTypeThreshold); ok {
				var pkLeaves func(p types.SpendPolicy) int
				pkLeaves = func(p types.SpendPolicy) int {
					switch pt := p.Type.(type) {
					case types.PolicyTypePublicKey:
						return 1
					case types.PolicyTypeThreshold:
						n := 0
						for _, q := range pt.Of {
							n += pkLeaves(q)
						}
						return n
					}
					return 0
				}
				before := 0
				for j := range th.Of {
					if _, isPK := th.Of[j].Type.(types.PolicyTypePublicKey); isPK && before < len(old.Signatures) {
						of := append([]types.SpendPolicy(nil), th.Of...)
						of[j] = types.PolicyOpaque(of[j])
						sp.Policy = types.PolicyThreshold(th.N, of)
						sp.Signatures = append(append([]types.Signature(nil), old.Signatures[:before]...), old.Signatures[before+1:]...)
						check(fmt.Sprintf("co-signer %d withdrawn (branch made opaque, signature removed)", j))
						*sp = old
					}
					before += pkLeaves(th.Of[j])
				}
			}
			// drop / duplicate / reorder signatures are part of the reflection walk; add a surplus valid signature
			if len(old.Signatures) > 0 {
				sp.Signatures = append(append([]types.Signature(nil), old.Signatures...), old.Signatures[0])
				check("surplus signature")
				*sp = old
			}
		}
		for i := range t.FileContractRevisions {
			r := &t.FileContractRevisions[i]
			old := r.Revision
			// sign with the PROPOSED keys instead of the current ones
			r.Revision.RenterPublicKey, r.Revision.HostPublicKey = k.Pub[3], k.Pub[3]
			w.SignContract(&r.Revision, 3, 3)
			check("revision signed by the proposed (new) keys instead of the current keys")
			r.Revision = old
			// ONE role taken over: only that role's key is replaced and only that role's signature is made by the new
			// key; the other party signs the new contents with its current key (a renter that appoints itself host)
			curP := r.Parent.V2FileContract
			if ri, hi := keyIndex(k, curP.RenterPublicKey), keyIndex(k, curP.HostPublicKey); len(u.Before) == 0 {
				r.Revision.HostPublicKey = k.Pub[3]
				w.SignContract(&r.Revision, ri, 3)
				if curP.HostPublicKey != k.Pub[3] {
					check("host key replaced and the host signature made by the NEW host key (renter signs with its current key)")
				}
				r.Revision = old
				r.Revision.RenterPublicKey = k.Pub[3]
				w.SignContract(&r.Revision, 3, hi)
				if curP.RenterPublicKey != k.Pub[3] {
					check("renter key replaced and the renter signature made by the NEW renter key (host signs with its current key)")
				}
				r.Revision = old
			}
			r.Revision.RenterSignature, r.Revision.HostSignature = old.HostSignature, old.RenterSignature
			check("swap renter and host signatures")
			r.Revision = old
			// sign with the keys of the contract as it stood BEFORE this block (differs from the current keys only after an in-block rotation)
			pre := r.Parent.V2FileContract
			if len(u.Before) > 0 && (pre.RenterPublicKey != old.RenterPublicKey || pre.HostPublicKey != old.HostPublicKey) {
				w.SignContract(&r.Revision, keyIndex(k, pre.RenterPublicKey), keyIndex(k, pre.HostPublicKey))
				check("revision signed by the pre-block (rotated-out) keys")
				r.Revision = old
			}
		}
		for i := range t.FileContractResolutions {
			if rn, ok := t.FileContractResolutions[i].Resolution.(*types.V2FileContractRenewal); ok {
				old := *rn
				rn.RenterSignature, rn.HostSignature = old.HostSignature, old.RenterSignature
				check("swap renter and host renewal signatures")
				*rn = old
				w.SignRenewal(rn, 3, 3)
				check("renewal signed by foreign keys")
				*rn = old
			}
		}
		// re-targeting: in a transaction with a signed input, every contract a revision or resolution names is replaced
		// by every OTHER live contract (whole element: id, contents and proof) - nothing but the input signature binds it
		signedInput := false
		for i := range t.SiacoinInputs {
			signedInput = signedInput || len(t.SiacoinInputs[i].SatisfiedPolicy.Signatures) > 0
		}
		for i := range t.SiafundInputs {
			signedInput = signedInput || len(t.SiafundInputs[i].SatisfiedPolicy.Signatures) > 0
		}
		if signedInput {
			others := func(id types.FileContractID) (out []types.V2FileContractElement) {
				for _, oid := range chain.SortedIDs(w.Store.V2FC) {
					if e := w.Store.V2FC[types.FileContractID(oid)]; e.ID != id {
						out = append(out, e.Copy())
					}
				}
				return
			}
			for i := range t.FileContractRevisions {
				old := t.FileContractRevisions[i].Parent
				for j, e := range others(old.ID) {
					t.FileContractRevisions[i].Parent = e
					check(fmt.Sprintf("retarget revision %d to other live contract #%d", i, j))
					c.Count("retarget_probes", 1)
				}
				t.FileContractRevisions[i].Parent = old
			}
			for i := range t.FileContractResolutions {
				old := t.FileContractResolutions[i].Parent
				for j, e := range others(old.ID) {
					t.FileContractResolutions[i].Parent = e
					check(fmt.Sprintf("retarget resolution %d to other live contract #%d", i, j))
					c.Count("retarget_probes", 1)
				}
				t.FileContractResolutions[i].Parent = old
			}
		}
		for i := range t.Attestations {
			a := &t.Attestations[i]
			old := *a
			a.PublicKey = k.Pub[2]
			check("attestation attributed to another key")
			*a = old
		}
	}
	if u.V1 != nil {
		t := u.V1
		// the boundary between two consecutive arbitrary-data entries moved by one byte (the concatenation and the number
		// of entries stay the same: only a hash that frames each entry notices)
		for i := 0; i+1 < len(t.ArbitraryData); i++ {
			a, b := t.ArbitraryData[i], t.ArbitraryData[i+1]
			if len(a) > 0 {
				t.ArbitraryData[i], t.ArbitraryData[i+1] = append([]byte(nil), a[:len(a)-1]...), append([]byte{a[len(a)-1]}, b...)
				check(fmt.Sprintf(".ArbitraryData[re-split %d|%d: last byte moved right]", i, i+1))
			}
			if len(b) > 0 {
				t.ArbitraryData[i], t.ArbitraryData[i+1] = append(append([]byte(nil), a...), b[0]), append([]byte(nil), b[1:]...)
				check(fmt.Sprintf(".ArbitraryData[re-split %d|%d: first byte moved left]", i, i+1))
			}
			t.ArbitraryData[i], t.ArbitraryData[i+1] = a, b
		}
		for i := range t.FileContractRevisions {
			// hijack: a third party proposes ITS unlock conditions as the contract's new owner and presents the same
			// conditions as authorisation, signed with its own key (the parent's owners sign nothing)
			r := &t.FileContractRevisions[i]
			oldRev, oldSigs := *r, t.Signatures
			att := w.Keys.StdUC(3)
			r.FileContract.UnlockHash = att.UnlockHash()
			r.UnlockConditions = att
			t.Signatures = nil
			signV1With(w, t, types.Hash256(r.ParentID), []int{3}, []uint64{0}, types.CoveredFields{WholeTransaction: true}, 0)
			check("revision authorised only by the unlock conditions it proposes")
			*r, t.Signatures = oldRev, oldSigs
		}
		for i := range t.SiafundInputs {
			// other unlock conditions than the parent's, signed by their own key: those of key 2 (an outsider) and those
			// of the NEW developer address (key 0), whose special right covers outputs of the OLD developer address only
			oin, osigs := t.SiafundInputs[i], t.Signatures
			for _, ki := range []int{2, 0} {
				uc := w.Keys.StdUC(ki)
				parent, known := w.Store.SF[oin.ParentID]
				if uc.UnlockHash() == oin.UnlockConditions.UnlockHash() || (known && parent.SiafundOutput.Address == w.Net.HardforkDevAddr.OldAddress && uc.UnlockHash() == w.Net.HardforkDevAddr.NewAddress) {
					continue // the parent's own conditions, or the legitimate override
				}
				t.SiafundInputs[i].UnlockConditions = uc
				t.Signatures = nil
				signV1With(w, t, types.Hash256(oin.ParentID), []int{ki}, []uint64{0}, types.CoveredFields{WholeTransaction: true}, 0)
				check(fmt.Sprintf("siafund input %d: unlock conditions of key %d substituted and signed by that key", i, ki))
				t.SiafundInputs[i], t.Signatures = oin, osigs
			}
		}
		if len(t.Signatures) > 0 {
			old := append([]types.TransactionSignature(nil), t.Signatures...)
			t.Signatures = append(append([]types.TransactionSignature(nil), old...), types.TransactionSignature{ParentID: old[0].ParentID, PublicKeyIndex: 0, CoveredFields: types.CoveredFields{WholeTransaction: true}, Signature: make([]byte, 64)})
			check("add a garbage signature")
			t.Signatures = old
			if len(t.SiacoinInputs) > 0 {
				// replace the unlock conditions by the attacker's own and sign with the attacker's key
				oin := t.SiacoinInputs[0]
				t.SiacoinInputs[0].UnlockConditions = w.Keys.StdUC(2)
				t.Signatures = nil
				signV1With(w, t, types.Hash256(oin.ParentID), []int{2}, []uint64{0}, types.CoveredFields{WholeTransaction: true}, 0)
				check("substitute other unlock conditions signed by their own key")
				t.SiacoinInputs[0] = oin
				t.Signatures = old
			}
		}
	}
}

// moveUnspec: a compensating move is outside the signed set if either end is.
func moveUnspec(tp template, label string) bool {
	if strings.HasPrefix(label, "overwrite ") {
		parts := strings.Split(strings.TrimPrefix(label, "overwrite "), " := ")
		for _, suffix := range []string{"", "+1", ".Lo+1", ".Hi+1", "[byte 0]^1", "[drop last]"} {
			if tp.unspec(parts[0] + suffix) {
				return true
			}
		}
		return false
	}
	if strings.HasPrefix(label, "exchange ") {
		parts := strings.Split(strings.TrimPrefix(label, "exchange "), " <-> ")
		// v1 signature entries are self-contained (parent, key index, covered fields, signature) and do not sign each
		// other unless listed in CoveredFields.Signatures: re-ordering whole entries changes nothing that was authorised
		if len(parts) == 2 && wholeV1SigEntry(parts[0]) && wholeV1SigEntry(parts[1]) && !strings.Contains(tp.name, "covers the first") {
			return true
		}
		for _, p := range parts {
			for _, suffix := range []string{"", "+1", ".Lo+1", ".Hi+1", "[byte 0]^1", "[drop last]"} {
				if tp.unspec(p + suffix) {
					return true
				}
			}
		}
		return false
	}
	if !strings.HasPrefix(label, "move 1 hasting ") {
		return false
	}
	parts := strings.Split(strings.TrimPrefix(label, "move 1 hasting "), " -> ")
	return len(parts) == 2 && (tp.unspec(parts[0]+".Lo+1") || tp.unspec(parts[1]+".Lo+1") || tp.unspec(parts[0]) || tp.unspec(parts[1]))
}

type curField struct {
	path string
	v    *types.Currency
}

func wholeV1SigEntry(p string) bool {
	return strings.HasPrefix(p, ".Signatures[") && strings.HasSuffix(p, "]") && strings.Count(p, "[") == 1
}

type leaf struct {
	path string
	v    reflect.Value
	elem bool   // a whole list element
	list string // path of the list it belongs to
}

// leaves collects every settable leaf (currency, byte array, integer, bool, byte slice) and every element of every list
// reachable from ptr.
func leaves(ptr any) (out []leaf) {
	var walk func(v reflect.Value, path string)
	walk = func(v reflect.Value, path string) {
		switch v.Kind() {
		case reflect.Struct:
			if v.Type() == reflect.TypeOf(types.Currency{}) || v.Type() == reflect.TypeOf(time.Time{}) {
				if v.CanSet() {
					out = append(out, leaf{path: path, v: v})
				}
				return
			}
			for i := 0; i < v.NumField(); i++ {
				if v.Type().Field(i).IsExported() {
					walk(v.Field(i), path+"."+v.Type().Field(i).Name)
				}
			}
		case reflect.Slice, reflect.Array:
			if v.Type().Elem().Kind() == reflect.Uint8 {
				if v.CanSet() && v.Len() > 0 {
					out = append(out, leaf{path: path, v: v})
				}
				return
			}
			for i := 0; i < v.Len(); i++ {
				e := v.Index(i)
				if e.CanSet() && (e.Kind() == reflect.Struct || e.Kind() == reflect.Interface || e.Kind() == reflect.Pointer) && e.Type() != reflect.TypeOf(types.Currency{}) {
					out = append(out, leaf{fmt.Sprintf("%s[%d]", path, i), e, true, path}) // whole list element
				}
				walk(e, fmt.Sprintf("%s[%d]", path, i))
			}
		case reflect.Pointer, reflect.Interface:
			if !v.IsNil() {
				walk(v.Elem(), path)
			}
		case reflect.Uint64, reflect.Uint8, reflect.Int, reflect.Bool, reflect.String:
			if v.CanSet() {
				out = append(out, leaf{path: path, v: v})
			}
		}
	}
	walk(reflect.ValueOf(ptr).Elem(), "")
	return
}

// currencyFields collects pointers to every Currency reachable from ptr (reflection walk).
func currencyFields(ptr any) (out []curField) {
	var walk func(v reflect.Value, path string)
	walk = func(v reflect.Value, path string) {
		switch v.Kind() {
		case reflect.Struct:
			if v.Type() == reflect.TypeOf(types.Currency{}) {
				if v.CanAddr() {
					out = append(out, curField{path, v.Addr().Interface().(*types.Currency)})
				}
				return
			}
			for i := 0; i < v.NumField(); i++ {
				if v.Type().Field(i).IsExported() {
					walk(v.Field(i), path+"."+v.Type().Field(i).Name)
				}
			}
		case reflect.Slice, reflect.Array:
			if v.Type().Elem().Kind() == reflect.Uint8 {
				return
			}
			for i := 0; i < v.Len(); i++ {
				walk(v.Index(i), fmt.Sprintf("%s[%d]", path, i))
			}
		case reflect.Pointer, reflect.Interface:
			if !v.IsNil() {
				walk(v.Elem(), path)
			}
		}
	}
	walk(reflect.ValueOf(ptr).Elem(), "")
	return
}

func stable(p string) string {
	var out []rune
	depth := 0
	for _, r := range p {
		switch {
		case r == '[':
			depth++
		case r == ']':
			depth--
		case depth == 0:
			out = append(out, r)
		}
	}
	s := string(out)
	for _, op := range []string{"[dup last]", "[drop last]", "[append zero]"} {
		if strings.HasSuffix(p, op) {
			s += op
		}
	}
	return s
}

// unauthorizedFoundation: a foundation address update carried by a transaction that spends only ORDINARY
// inputs (validly signed by their own keys) must be rejected.
// ephemeralThief: an output created earlier in the block is not backed by the accumulator - the only thing that ties
// a v2 input to the address the output was really sent to is the comparison with the in-block record. A first
// transaction pays a victim; a second one spends that output (a) honestly (control), (b) with a third party's policy and
// signature against the true parent, (c) with the parent re-stated under the third party's address plus that party's
// policy and signature, (d) likewise for a siafund output below the ephemeral-output height where that is legal.
// renewalAfterRotation: "every v2 ... renewal is signed by the renter and host keys of the contract as it currently
// stands". A revision earlier in the block rotates the renter key; a later transaction of the block renews the
// contract (a) signed by the keys as they now stand - must be accepted, (b) signed by the rotated-out key - must be
// rejected. (Revisions are verified against the in-block state of the contract; resolutions against the pre-block
// parent: both expectations fail on the unchanged tree - recorded known findings.)
func renewalAfterRotation(c *vf.Ctx, w *chain.World) {
	k := w.Keys
	h := w.ChildHeight()
	if h < w.Net.HardforkV2.AllowHeight {
		return
	}
	var e types.V2FileContractElement
	found := false
	for _, id := range chain.SortedIDs(w.Store.V2FC) {
		x := w.Store.V2FC[types.FileContractID(id)]
		if x.V2FileContract.ProofHeight >= h && x.V2FileContract.RevisionNumber < 1<<60 {
			e, found = x.Copy(), true
			break
		}
	}
	f, ok := findSC(w, k.Addr(chain.AddrV2))
	if !found || !ok {
		return
	}
	cur := e.V2FileContract
	rot := cur
	rot.RevisionNumber++
	newRenter := 2
	if cur.RenterPublicKey == k.Pub[2] {
		newRenter = 0
	}
	rot.RenterPublicKey = k.Pub[newRenter]
	w.SignContract(&rot, keyIndex(k, cur.RenterPublicKey), keyIndex(k, cur.HostPublicKey))
	first := chain.Use{Name: "rotate", V2: &types.V2Transaction{FileContractRevisions: []types.V2FileContractRevision{{Parent: e.Copy(), Revision: rot}}}}
	name := "v2 contract renewal after a key rotation earlier in the same block"
	tc := tcase{Network: w.Spec.Name, Height: h, Template: name, Seed: c.Seed}
	validate := func(u chain.Use) (bool, any) {
		b, bs := w.BlockOfUses(u)
		var err error
		p, _ := vf.Try(func() { err = w.Validate(b, bs) })
		c.Count("evaluations", 1)
		c.Count("transitions", 1)
		return err == nil && p == nil, p
	}
	// control: the rotation alone is accepted
	if ok, _ := validate(first); !ok {
		return
	}
	// (a) signed by the keys as the contract now stands
	now := e.Copy()
	now.V2FileContract = rot
	if ua, ok := w.UseV2Renew(now, f); ok {
		ua.V2.FileContractResolutions[0].Parent = e.Copy() // the accumulator holds the pre-block form
		w.SignV2(ua.V2)
		ua.Before = []chain.Use{first}
		c.Distinct(w.Spec.Name, h, name, "current keys")
		if acc, p := validate(ua); p == nil && !acc {
			c.Violate("C03|untampered-rejected|"+name, fmt.Sprintf("[%s height %d] renewal signed by the renter and host keys of the contract as it stands after the rotation earlier in the block was rejected", w.Spec.Name, h), tc)
		} else if acc {
			c.Count("renewal_after_rotation_current_keys_accepted", 1)
		}
	}
	// (b) signed by the rotated-out renter key
	if ub, ok := w.UseV2Renew(e, f); ok {
		ub.Before = []chain.Use{first}
		c.Distinct(w.Spec.Name, h, name, "rotated-out keys")
		t := tc
		t.Tamper = "renewal signed by the rotated-out renter key"
		if acc, p := validate(ub); p == nil && acc {
			c.Violate("C03|tampered-accepted|"+name+"|renewal signed by the rotated-out renter key", fmt.Sprintf("[%s height %d] a renewal signed by the renter key that a revision earlier in the block had rotated out was ACCEPTED", w.Spec.Name, h), t)
		} else if !acc {
			c.Count("renewal_after_rotation_old_keys_rejected", 1)
		}
	}
	c.Count("renewal_after_rotation_probes", 1)
}

// foundationAfterHandover: "Foundation subsidy addresses change only in a transaction authorized by the CURRENT Foundation
// keys". A first transaction of the block (authorised by the current key) hands the Foundation address over to another
// key; a later transaction of the same block carries a further update (a) authorised by the key the address was handed
// to - must be accepted, (b) authorised by the handed-over (old) key, spending the first transaction's change - must be
// rejected. v2 form (NewFoundationAddress) and v1 form (arbitrary data).
func foundationAfterHandover(c *vf.Ctx, w *chain.World) {
	k := w.Keys
	h := w.ChildHeight()
	name := "foundation update after a hand-over earlier in the same block"
	whole := types.CoveredFields{WholeTransaction: true}
	v2ok := func(w *chain.World) bool { return w.ChildHeight() >= w.Net.HardforkV2.AllowHeight }
	tc := tcase{Network: w.Spec.Name, Height: h, Template: name, Seed: c.Seed}
	validate := func(u chain.Use) (bool, any) {
		b, bs := w.BlockOfUses(u)
		var err error
		p, _ := vf.Try(func() { err = w.Validate(b, bs) })
		c.Count("evaluations", 1)
		c.Count("transitions", 1)
		return err == nil && p == nil, p
	}
	verdicts := func(form string, first, byNew, byOld chain.Use, haveNew bool) {
		if ok, _ := validate(first); !ok {
			return
		}
		c.Count("foundation_handover_probes", 1)
		if haveNew {
			byNew.Before = []chain.Use{first}
			c.Distinct(w.Spec.Name, h, name, form, "new key")
			if acc, p := validate(byNew); p == nil && !acc {
				c.Violate("C03|untampered-rejected|"+name+"|"+form, fmt.Sprintf("[%s height %d] %s foundation update authorised by the key the address was handed to earlier in the block was rejected", w.Spec.Name, h, form), tc)
			} else if acc {
				c.Count("foundation_handover_new_key_accepted", 1)
			}
		}
		byOld.Before = []chain.Use{first}
		c.Distinct(w.Spec.Name, h, name, form, "old key")
		t := tc
		t.Tamper = form + " update authorised by the handed-over (old) key"
		if acc, p := validate(byOld); p == nil && acc {
			c.Violate("C03|tampered-accepted|"+name+"|"+t.Tamper, fmt.Sprintf("[%s height %d] a %s foundation update authorised only by the key that a transaction earlier in the block had handed the address away from was ACCEPTED", w.Spec.Name, h, form), t)
		} else if !acc {
			c.Count("foundation_handover_old_key_rejected", 1)
		}
	}
	if v2ok(w) && w.CS.FoundationManagementAddress == k.Addr(chain.AddrFndV2) {
		if p, ok := findSC(w, k.Addr(chain.AddrFndV2)); ok {
			to, thief := k.Addr(chain.AddrV2b), k.Addr(chain.AddrV2)
			t1 := types.V2Transaction{SiacoinInputs: []types.V2SiacoinInput{{Parent: p}}, SiacoinOutputs: []types.SiacoinOutput{{Value: p.SiacoinOutput.Value, Address: k.Addr(chain.AddrFndV2)}}, NewFoundationAddress: &to}
			w.SignV2(&t1)
			first := chain.Use{Name: "hand-over", V2: &t1}
			// (b) the old key spends the change of t1 (still at the old address)
			t2 := types.V2Transaction{SiacoinInputs: []types.V2SiacoinInput{{Parent: t1.EphemeralSiacoinOutput(0)}}, SiacoinOutputs: []types.SiacoinOutput{{Value: p.SiacoinOutput.Value, Address: thief}}, NewFoundationAddress: &thief}
			w.SignV2(&t2)
			byOld := chain.Use{Name: "update-by-old-key", V2: &t2}
			var byNew chain.Use
			q, haveNew := findSC(w, to)
			if haveNew {
				t3 := types.V2Transaction{SiacoinInputs: []types.V2SiacoinInput{{Parent: q}}, SiacoinOutputs: []types.SiacoinOutput{{Value: q.SiacoinOutput.Value, Address: to}}, NewFoundationAddress: &thief}
				w.SignV2(&t3)
				byNew = chain.Use{Name: "update-by-new-key", V2: &t3}
			}
			verdicts("v2", first, byNew, byOld, haveNew)
		}
	}
	if h < w.Net.HardforkV2.RequireHeight && h >= w.Net.HardforkFoundation.Height && w.CS.FoundationSubsidyAddress == k.Addr(chain.AddrFnd) && w.CS.FoundationManagementAddress != k.Addr(chain.AddrFnd) {
		if p, ok := findSC(w, k.Addr(chain.AddrFnd)); ok {
			upd := func(np, nf types.Address) []byte {
				arb := append([]byte(nil), types.SpecifierFoundation[:]...)
				return append(append(arb, np[:]...), nf[:]...)
			}
			// hand BOTH addresses to key 1 (class AddrV1b)
			to := k.Addr(chain.AddrV1b)
			t1 := types.Transaction{SiacoinInputs: []types.SiacoinInput{{ParentID: p.ID, UnlockConditions: k.StdUC(3)}},
				SiacoinOutputs: []types.SiacoinOutput{{Value: p.SiacoinOutput.Value, Address: k.Addr(chain.AddrFnd)}}, ArbitraryData: [][]byte{upd(to, to)}}
			signV1With(w, &t1, types.Hash256(p.ID), []int{3}, []uint64{0}, whole, 0)
			first := chain.Use{Name: "hand-over", V1: &t1}
			thief := k.Addr(chain.AddrV1)
			t2 := types.Transaction{SiacoinInputs: []types.SiacoinInput{{ParentID: t1.SiacoinOutputID(0), UnlockConditions: k.StdUC(3)}},
				SiacoinOutputs: []types.SiacoinOutput{{Value: p.SiacoinOutput.Value, Address: thief}}, ArbitraryData: [][]byte{upd(thief, thief)}}
			signV1With(w, &t2, types.Hash256(t1.SiacoinOutputID(0)), []int{3}, []uint64{0}, whole, 0)
			byOld := chain.Use{Name: "update-by-old-key", V1: &t2}
			var byNew chain.Use
			q, haveNew := findSC(w, to)
			if haveNew {
				t3 := types.Transaction{SiacoinInputs: []types.SiacoinInput{{ParentID: q.ID, UnlockConditions: k.StdUC(1)}},
					SiacoinOutputs: []types.SiacoinOutput{{Value: q.SiacoinOutput.Value, Address: to}}, ArbitraryData: [][]byte{upd(thief, thief)}}
				signV1With(w, &t3, types.Hash256(q.ID), []int{1}, []uint64{0}, whole, 0)
				byNew = chain.Use{Name: "update-by-new-key", V1: &t3, SuppSC: []types.SiacoinElement{q.Copy()}}
			}
			first.SuppSC = []types.SiacoinElement{p.Copy()}
			verdicts("v1", first, byNew, byOld, haveNew)
		}
	}
}

func ephemeralThief(c *vf.Ctx, w *chain.World) {
	k := w.Keys
	h := w.ChildHeight()
	if h < w.Net.HardforkV2.AllowHeight || h < w.Net.HardforkV2.EphemeralOutputHeight {
		return
	}
	p, ok := findSC(w, k.Addr(chain.AddrV2))
	if !ok {
		return
	}
	tc := tcase{Network: w.Spec.Name, Height: h, Template: "in-block output spent by a third party", Seed: c.Seed}
	// victim: address class AddrV2b (key 1); thief: AddrV2 (key 0)
	t1 := types.V2Transaction{SiacoinInputs: []types.V2SiacoinInput{{Parent: p}}, SiacoinOutputs: []types.SiacoinOutput{{Value: p.SiacoinOutput.Value, Address: k.Addr(chain.AddrV2b)}}}
	w.SignV2(&t1)
	validate := func(t2 types.V2Transaction) bool {
		b, bs := w.BuildBlock(nil, []types.V2Transaction{t1, t2}, chain.BlockOpts{})
		var err error
		pv, _ := vf.Try(func() { err = w.Validate(b, bs) })
		c.Count("evaluations", 1)
		return pv == nil && err == nil
	}
	mk := func(claimed types.Address, signerClass int) types.V2Transaction {
		eph := t1.EphemeralSiacoinOutput(0)
		eph.SiacoinOutput.Address = claimed
		t2 := types.V2Transaction{SiacoinInputs: []types.V2SiacoinInput{{Parent: eph, SatisfiedPolicy: types.SatisfiedPolicy{Policy: k.PolicyFor(signerClass)}}},
			SiacoinOutputs: []types.SiacoinOutput{{Value: eph.SiacoinOutput.Value, Address: k.Addr(chain.AddrV2)}}}
		t2.SiacoinInputs[0].SatisfiedPolicy.Signatures = []types.Signature{k.Priv[chain.KeyOf(signerClass)].SignHash(w.CS.InputSigHash(t2))}
		return t2
	}
	if !validate(mk(k.Addr(chain.AddrV2b), chain.AddrV2b)) {
		return // control not applicable in this state
	}
	c.Count("ephemeral_owner_spend_accepted", 1)
	for name, t2 := range map[string]types.V2Transaction{
		"third party's policy and signature against the true parent":                   mk(k.Addr(chain.AddrV2b), chain.AddrV2),
		"parent re-stated under the third party's address, its policy and signature": mk(k.Addr(chain.AddrV2), chain.AddrV2),
	} {
		if validate(t2) {
			t := tc
			t.Tamper = name
			c.Violate("C03|in-block-output-spent-by-third-party|"+name, fmt.Sprintf("[%s height %d] an output paid to one address earlier in the block was spent by another key (%s): ACCEPTED", w.Spec.Name, h, name), t)
		} else {
			c.Count("ephemeral_thief_rejected", 1)
		}
	}
}

func unauthorizedFoundation(c *vf.Ctx, w *chain.World) {
	k := w.Keys
	h := w.ChildHeight()
	tc := tcase{Network: w.Spec.Name, Height: h, Template: "unauthorized foundation update", Seed: c.Seed}
	try := func(name string, u chain.Use) {
		b, bs := w.BlockOfUses(u)
		var err error
		p, _ := vf.Try(func() { err = w.Validate(b, bs) })
		c.Count("evaluations", 1)
		c.Count("transitions", 1)
		if p == nil && err == nil {
			t := tc
			t.Tamper = name
			c.Violate("C03|unauthorized-foundation-update-accepted|"+name, fmt.Sprintf("[%s height %d] foundation address update authorised only by a non-foundation key was ACCEPTED (%s)", w.Spec.Name, h, name), t)
		} else {
			c.Count("unauthorized_foundation_rejected", 1)
		}
	}
	if h < w.Net.HardforkV2.RequireHeight && h >= w.Net.HardforkFoundation.Height {
		if p, ok := findSC(w, k.Addr(chain.AddrV1)); ok {
			arb := append([]byte(nil), types.SpecifierFoundation[:]...)
			np, nf := k.Addr(chain.AddrV1), k.Addr(chain.AddrV2)
			arb = append(append(arb, np[:]...), nf[:]...)
			t := types.Transaction{SiacoinInputs: []types.SiacoinInput{{ParentID: p.ID, UnlockConditions: k.StdUC(0)}},
				SiacoinOutputs: []types.SiacoinOutput{{Value: p.SiacoinOutput.Value, Address: k.Addr(chain.AddrV1)}}, ArbitraryData: [][]byte{arb}}
			signV1With(w, &t, types.Hash256(p.ID), []int{0}, []uint64{0}, types.CoveredFields{WholeTransaction: true}, 0)
			try("v1 arbitrary-data update signed by an ordinary key", chain.Use{Name: "v1", V1: &t})
		}
		// piggy-back: the Foundation signs a payment with PARTIAL covered fields (its input, the payee output); somebody
		// else adds an input of theirs signed over the whole transaction and attaches an update naming themselves. No
		// Foundation key has signed the update.
		fk := chain.KeyOf(chain.AddrFnd)
		if w.CS.FoundationSubsidyAddress == k.Addr(chain.AddrFnd) && fk >= 0 {
			p1, ok1 := findSC(w, k.Addr(chain.AddrFnd))
			p2, ok2 := findSC(w, k.Addr(chain.AddrV1))
			if ok1 && ok2 {
				mk := func(withUpdate bool) chain.Use {
					t := types.Transaction{
						SiacoinInputs:  []types.SiacoinInput{{ParentID: p1.ID, UnlockConditions: k.StdUC(fk)}, {ParentID: p2.ID, UnlockConditions: k.StdUC(0)}},
						SiacoinOutputs: []types.SiacoinOutput{{Value: p1.SiacoinOutput.Value, Address: k.Addr(chain.AddrV1b)}, {Value: p2.SiacoinOutput.Value, Address: k.Addr(chain.AddrV1)}}}
					signV1With(w, &t, types.Hash256(p1.ID), []int{fk}, []uint64{0}, types.CoveredFields{SiacoinInputs: []uint64{0}, SiacoinOutputs: []uint64{0}}, 0)
					if withUpdate {
						arb := append([]byte(nil), types.SpecifierFoundation[:]...)
						np, nf := k.Addr(chain.AddrV1), k.Addr(chain.AddrV1)
						t.ArbitraryData = [][]byte{append(append(arb, np[:]...), nf[:]...)}
					}
					signV1With(w, &t, types.Hash256(p2.ID), []int{0}, []uint64{0}, types.CoveredFields{WholeTransaction: true}, 0)
					return chain.Use{Name: "v1", V1: &t}
				}
				// control: the partially signed payment with the stranger's extra input but without the update is fine
				cb, cbs := w.BlockOfUses(mk(false))
				var cerr error
				if pv, _ := vf.Try(func() { cerr = w.Validate(cb, cbs) }); pv == nil && cerr == nil {
					c.Count("foundation_piggyback_control_accepted", 1)
					try("v1 update attached to a partially signed Foundation payment by a third party's whole-transaction signature", mk(true))
				}
			}
		}
	}
	if h >= w.Net.HardforkV2.AllowHeight {
		for _, cl := range []int{chain.AddrV2, chain.AddrFnd} { // an ordinary key, and the SUBSIDY (not management) address
			if w.CS.FoundationManagementAddress == k.Addr(cl) {
				continue
			}
			if p, ok := findSC(w, k.Addr(cl)); ok {
				na := k.Addr(chain.AddrV2)
				t := types.V2Transaction{SiacoinInputs: []types.V2SiacoinInput{{Parent: p}}, SiacoinOutputs: []types.SiacoinOutput{{Value: p.SiacoinOutput.Value, Address: k.Addr(chain.AddrV2)}}, NewFoundationAddress: &na}
				w.SignV2(&t)
				try(fmt.Sprintf("v2 update spending only an input of address class %d", cl), chain.Use{Name: "v2", V2: &t})
			}
		}
	}
}

// eraReplay: a transaction signed for one era and submitted in the next must be rejected (replay prefix).
func eraReplay(c *vf.Ctx, spec chain.NetSpec, keys *chain.Keys) {
	var prev *chain.World
	var prevUse chain.Use
	tps := templates(keys)
	worlds(c, spec, keys, 12, func(w *chain.World) {
		if prev != nil && prevUse.V1 != nil {
			// same transaction, built and signed at the previous height
			b, bs := w.BlockOfUses(prevUse)
			err := w.Validate(b, bs)
			eraChanged := eraOf(spec, prev.Height()) != eraOf(spec, w.Height())
			c.Count("evaluations", 1)
			c.Count("transitions", 1)
			if eraChanged && err == nil {
				c.Violate("C03|replay-across-eras|v1 whole-transaction signature", fmt.Sprintf("[%s] v1 transaction signed at parent height %d accepted at parent height %d (different replay-protection era)", spec.Name, prev.Height(), w.Height()),
					tcase{Network: spec.Name, Height: w.ChildHeight(), Template: "era-replay", Seed: c.Seed})
			} else if eraChanged {
				c.Count("era_replay_rejected", 1)
			} else if err == nil {
				c.Count("same_era_resubmission_accepted", 1)
			}
		}
		if u, ok := tps[0].build(w); ok {
			prev, prevUse = w.Clone(), u
		} else {
			prev = nil
		}
	})
}

func eraOf(s chain.NetSpec, parentHeight uint64) int {
	switch {
	case parentHeight >= s.Allow:
		return 3
	case parentHeight >= s.Fnd:
		return 2
	case parentHeight >= s.ASIC:
		return 1
	}
	return 0
}

func run(c *vf.Ctx) {
	c.FullScope = true // the whole stated space takes about a minute: both tiers run it
	c.Set("scope_note", "quick and thorough tiers run the same (full) scope")
	c.Set("rule", "for every network family and EVERY height up to the horizon (one state per height, contracts formed and keys rotated on the way) every applicable signed template is validated untampered (must be accepted) and under every single-point tampering: reflection walk over every field of the signed transaction (+-1, first/last byte flips of every hash/key/address/signature, drop/duplicate of every list element), exchange of the contents of every two same-typed leaves or list elements, plus structured substitutions (other policy/keys, opaque satisfied branch, surplus/garbage signature, swapped signatures, proposed instead of current keys, foreign renewal keys, re-targeting of every revision/resolution of a transaction with a signed input to every other live contract); the block is re-sealed, never re-signed; oracle: rejected unless the path is outside the template's signed set (counted as unspecified); era replay of v1 signatures across every fork height")
	keys := chain.NewKeys(c.Seed)
	nets := []string{"v1-eras", "mixed", "v2-only"}
	if !c.Quick() {
		nets = append(nets, "v1-mid", "v2-eph5", "v1-early")
	}
	tps := templates(keys)
	c.Set("templates", len(tps))
	vf.ParallelFor(len(nets)*2, func(i int) {
		spec := chain.Spec(nets[i/2])
		if i%2 == 1 {
			eraReplay(c, spec, keys)
			return
		}
		worlds(c, spec, keys, vf.Pick[uint64](c, 10, 13), func(w *chain.World) {
			c.Count("states", 1)
			for _, tp := range tps {
				if c.Expired() {
					return
				}
				probeTemplate(c, w, tp)
			}
			unauthorizedFoundation(c, w)
			ephemeralThief(c, w)
			renewalAfterRotation(c, w)
			foundationAfterHandover(c, w)
			coveredBinding(c, w)
		})
		c.Count("traces_validated_against_impl", 1)
	})
	need := []string{"untampered_accepted", "tampered_rejected", "era_replay_rejected", "unauthorized_foundation_rejected", "partial_sighash_binding_checked", "ephemeral_thief_rejected", "retarget_probes", "renewal_after_rotation_probes", "foundation_handover_probes"}
	for _, tp := range tps {
		need = append(need, "template:"+tp.name)
	}
	c.RequireFeature(need...)
	c.Sample(tcase{Network: "mixed", Height: 6, Template: "v2 threshold 2-of-3 with one opaque branch", Tamper: ".SiacoinOutputs[1].Address[byte 31]^1", Seed: c.Seed})
	c.Assume("fields outside a template's signed set (uncovered fields of partial v1 signatures, arbitrary data of input-less v2 transactions, everything besides the input of a signature-free hash-lock spend) are not asserted")
}

func replay(c *vf.Ctx, raw json.RawMessage) {
	var tc tcase
	if err := json.Unmarshal(raw, &tc); err != nil {
		c.HarnessError("bad case: %v", err)
		return
	}
	keys := chain.NewKeys(tc.Seed)
	if tc.Template == "era-replay" {
		eraReplay(c, chain.Spec(tc.Network), keys)
		return
	}
	if tc.Template == "v2 contract renewal after a key rotation earlier in the same block" {
		worlds(c, chain.Spec(tc.Network), keys, tc.Height, func(w *chain.World) {
			if w.ChildHeight() == tc.Height {
				c.Count("states", 1)
				renewalAfterRotation(c, w)
			}
		})
		return
	}
	if tc.Template == "foundation update after a hand-over earlier in the same block" {
		worlds(c, chain.Spec(tc.Network), keys, tc.Height, func(w *chain.World) {
			if w.ChildHeight() == tc.Height {
				c.Count("states", 1)
				foundationAfterHandover(c, w)
			}
		})
		return
	}
	for _, tp := range templates(keys) {
		if tp.name != tc.Template {
			continue
		}
		worlds(c, chain.Spec(tc.Network), keys, tc.Height, func(w *chain.World) {
			if w.ChildHeight() == tc.Height {
				c.Count("states", 1)
				probeTemplate(c, w, tp)
			}
		})
	}
}
