package c19

import (
	"encoding/binary"
	"fmt"
	"io"
	"sort"
	"strings"
	"sync"
	"time"

	"go.sia.tech/core/gateway"
	"verifmc/vf"
)

var flipMasks = []byte{0x01, 0x80, 0xFF}

// gateway requests are small except relayed transaction sets, responses are
// small except SendTransactions: the dialer->accepter direction is tampered
// under a sequence that starts with a three-packet request.
var gwTamperSeqDir0 = []int{shBigReq, shMultiKiB, shTiny}

// allSeqs enumerates every sequence of at most maxLen shapes (including the empty one).
func allSeqs(maxLen int) [][]int {
	out := [][]int{{}}
	prev := [][]int{{}}
	for l := 1; l <= maxLen; l++ {
		var cur [][]int
		for _, p := range prev {
			for s := 0; s < numShapes; s++ {
				q := append(append([]int(nil), p...), s)
				cur = append(cur, q)
			}
		}
		out = append(out, cur...)
		prev = cur
	}
	return out
}

func (te *transportEnv) run(c *vf.Ctx) {
	var cases []tCase
	// 1. message sequences
	seqs := allSeqs(vf.Pick(c, 3, 4))
	c.Set("sequence_alphabet", shapeNames)
	c.Set("sequence_max_len", vf.Pick(c, 3, 4))
	c.Set("sequences_per_transport", len(seqs))
	for _, tr := range []struct{ t, m string }{{"gateway", ""}, {"rhp3", ""}, {"rhp2", "read"}, {"rhp2", "raw"}} {
		for _, s := range seqs {
			cases = append(cases, tCase{Family: "sequence", Transport: tr.t, Mode: tr.m, Seq: s})
		}
	}
	// 1b. size sweep: one blob message of EVERY length in windows around the minimum frame size, around 16-byte
	// (cipher block / MAC padding) alignment at several magnitudes, both directions, both rhp/v2 read modes and rhp/v3
	var sweep []int
	for _, w := range [][2]int{{0, 40}, {4020, 4110}, {4990, 5030}, {16370, 16410}, {32750, 32790}} {
		for n := w[0]; n <= w[1]; n++ {
			sweep = append(sweep, n)
		}
	}
	c.Set("size_sweep_lengths", len(sweep))
	for _, n := range sweep {
		for _, dm := range []struct{ t, d, m string }{{"rhp2", "request", "read"}, {"rhp2", "response", "read"}, {"rhp2", "response", "raw"}, {"rhp3", "request", ""}, {"rhp3", "response", ""}} {
			cases = append(cases, tCase{Family: "sequence", Transport: dm.t, Mode: dm.m, Dir: dm.d, BlobLen: n, Seq: []int{shBlob}})
		}
	}
	// 2. gateway handshake mismatches
	for _, mm := range []string{"none", "genesis", "unique", "both"} {
		for _, side := range []string{"both", "dialer", "accepter"} {
			cases = append(cases, tCase{Family: "handshake", Transport: "gateway", Mismatch: mm, Side: side, Seq: []int{shTiny}})
		}
	}
	// 3. receive limits of the rhp/v2 and rhp/v3 transports
	for _, ml := range []uint64{100, 5000, 65536} {
		for _, over := range []int{-1, 0, 1} {
			for _, dm := range []struct{ d, m string }{{"request", "read"}, {"response", "read"}, {"response", "raw"}} {
				n := int(max(ml, 4096)) - 36
				if dm.d == "response" {
					n--
				}
				cases = append(cases, tCase{Family: "tlimit", Transport: "rhp2", Mode: dm.m, Dir: dm.d, MaxLen: ml, Over: over, BlobLen: n + over, Seq: []int{shBlob}})
			}
			for _, d := range []string{"request", "response"} {
				cases = append(cases, tCase{Family: "tlimit", Transport: "rhp3", Dir: d, MaxLen: ml, Over: over, BlobLen: int(ml) + 1024 - 17 + over, Seq: []int{shBlob}})
			}
		}
	}
	// 4. man-in-the-middle fault menu
	tampers := te.enumerateTamper(c)
	cases = append(cases, tampers...)
	c.Set("transport_cases", len(cases))

	samples := map[string]bool{}
	var smu sync.Mutex
	vf.ParallelFor(len(cases), func(i int) {
		if c.Expired() {
			return
		}
		tc := cases[i]
		te.runCase(c, tc)
		smu.Lock()
		k := tc.Family + tc.Transport
		if !samples[k] && (tc.Family != "sequence" || len(tc.Seq) == 3) && (tc.Fault == nil || tc.Fault.Off > 5000 || tc.Transport != "rhp2") {
			samples[k] = true
			c.Sample(tc)
		}
		smu.Unlock()
	})
}

// rep collects the verdict of one case. Counters and histograms are only
// applied for the first execution; violations are confirmed by re-running the
// case (a verdict that does not reproduce is a harness problem, not a finding).
type rep struct {
	c     *vf.Ctx
	te    *transportEnv
	dry   bool
	viols []vf.Violation
}

func (r *rep) Violate(sig, desc string, cs any) {
	r.viols = append(r.viols, vf.Violation{Signature: sig, Desc: desc})
}
func (r *rep) Count(name string, n int64) {
	if !r.dry {
		r.c.Count(name, n)
	}
}
func (r *rep) Distinct(desc ...any) {
	if !r.dry {
		r.c.Distinct(desc...)
	}
}
func (r *rep) hist(k string) {
	if !r.dry {
		r.te.hist.add(k)
	}
}
func (r *rep) HarnessError(format string, a ...any) { r.c.HarnessError(format, a...) }
func (r *rep) sigs() string {
	var ss []string
	for _, v := range r.viols {
		ss = append(ss, v.Signature)
		if strings.Contains(v.Signature, "|panic|") {
			ss = append(ss, v.Desc) // make unreproducible panics diagnosable
		}
	}
	sort.Strings(ss)
	return strings.Join(ss, "\n")
}

const confirmRuns = 4

func (te *transportEnv) runOnce(c *vf.Ctx, tc tCase, dry bool) *rep {
	r := &rep{c: c, te: te, dry: dry}
	switch tc.Family {
	case "sequence":
		te.checkSequence(r, tc, te.session(tc))
	case "handshake":
		te.checkHandshake(r, tc)
	case "tlimit":
		te.checkTLimit(r, tc, te.session(tc))
	case "tamper":
		te.checkTamper(r, tc, te.session(tc))
	default:
		c.HarnessError("unknown transport case family %q", tc.Family)
	}
	return r
}

func (te *transportEnv) runCase(c *vf.Ctx, tc tCase) {
	c.Count("evaluations", 1)
	r := te.runOnce(c, tc, false)
	if len(r.viols) == 0 {
		return
	}
	for i := 0; i < confirmRuns; i++ {
		if again := te.runOnce(c, tc, true); again.sigs() != r.sigs() {
			c.HarnessError("verdict of case %+v (fault %+v) does not reproduce: first run %q, rerun %d %q", tc, tc.Fault, r.sigs(), i+1, again.sigs())
			return
		}
	}
	for _, v := range r.viols {
		c.Violate(v.Signature, v.Desc, tc)
	}
}

func trName(tc tCase) string {
	if tc.Mode != "" {
		return tc.Transport + "/" + tc.Mode
	}
	return tc.Transport
}

// common checks: no panic, no hang. Returns false if the result is unusable.
func (te *transportEnv) basic(c *rep, tc tCase, res *sessResult) bool {
	if res == nil {
		c.HarnessError("unknown transport %q", tc.Transport)
		return false
	}
	if res.hung {
		c.HarnessError("session hung (safety watchdog) in case %+v\n%s", tc, res.dump)
		return false
	}
	for i := range res.side {
		if p := res.side[i].Panic; p != "" {
			if tc.Transport == "rhp2" && tc.Mode == "raw" && len(tc.Seq) == 1 && tc.Seq[0] == shReadResp {
				c.Count("rawread_panics", 1)
				c.Violate("rhp2.RPCReadResponse.DecodeFrom|panic-on-tampered-RawResponse-stream|length-prefix-top-bit",
					fmt.Sprintf("a man in the middle flips the top bit of a length prefix inside the encrypted Read response (byte %d of the host->renter direction); the renter, streaming with RawResponse and decoding before VerifyTag as the API prescribes, panics: %s", tc.Fault.Off, p), tc)
				return false
			}
			c.Violate(tc.Transport+"|panic|"+tc.Family, fmt.Sprintf("panic on side %d of a %s session: %s", i, trName(tc), p), tc)
			return false
		}
	}
	return true
}

// integrity: no read may deliver an object different from the one sent.
func (te *transportEnv) integrity(c *rep, tc tCase, res *sessResult) {
	for i := range res.side {
		for _, r := range res.side[i].Reads {
			if r.OK && !r.ExpectFail && !r.Equal {
				c.Violate(tc.Transport+"|different-object-delivered|"+tc.Family, fmt.Sprintf("%s side %d message %d: a read succeeded with an object that differs from the one sent", trName(tc), i, r.Msg), tc)
			}
			if r.OK && r.ExpectFail {
				c.Violate(tc.Transport+"|refused-rpc-read-as-success|"+tc.Family, fmt.Sprintf("%s side %d message %d: the peer closed the stream without responding but ReadResponse succeeded", trName(tc), i, r.Msg), tc)
			}
		}
	}
}

func (te *transportEnv) checkSequence(c *rep, tc tCase, res *sessResult) {
	if !te.basic(c, tc, res) {
		return
	}
	c.Count("seq_sessions", 1)
	sigp := tc.Transport + "|"
	for i := range res.side {
		if err := res.side[i].HandshakeErr; err != nil {
			c.Violate(sigp+"clean-handshake-failed|", fmt.Sprintf("%s side %d: handshake failed on an untampered connection: %v", trName(tc), i, err), tc)
			return
		}
	}
	te.integrity(c, tc, res)
	// expected number of reads per side
	want := [2]int{}
	switch tc.Transport {
	case "rhp2":
		want[0] = len(tc.Seq) + 1
		want[1] = 1
		for _, s := range tc.Seq {
			want[1]++
			if s != shEmpty {
				want[1]++
			}
		}
	case "rhp3":
		want[0] = len(tc.Seq)
		if len(tc.Seq) > 0 {
			want[1] = len(tc.Seq) + 1
			if tc.Seq[0] == shEmpty {
				want[1]--
			}
		}
	case "gateway":
		want[0], want[1] = len(tc.Seq), len(tc.Seq)
	}
	delivered := 0
	for i := range res.side {
		sr := &res.side[i]
		if len(sr.Reads) != want[i] {
			c.Violate(sigp+"message-lost-or-duplicated|", fmt.Sprintf("%s side %d performed %d reads, expected %d (sequence %v): %+v", trName(tc), i, len(sr.Reads), want[i], tc.Seq, sr.Reads), tc)
			continue
		}
		for _, r := range sr.Reads {
			probe := tc.Transport == "rhp2" && r.Msg == len(tc.Seq)
			switch {
			case probe || r.ExpectFail:
				if r.OK {
					c.Violate(sigp+"read-succeeds-without-message|", fmt.Sprintf("%s side %d: a read succeeded although nothing was sent (message index %d)", trName(tc), i, r.Msg), tc)
				}
			case !r.OK:
				c.Violate(sigp+"faithful-delivery-failed|"+shapeOf(tc, r.Msg), fmt.Sprintf("%s side %d: read of message %d (%s) of sequence %v failed: %s", trName(tc), i, r.Msg, shapeOf(tc, r.Msg), tc.Seq, r.Err), tc)
			default:
				delivered++
			}
		}
	}
	c.Count("seq_messages_delivered", int64(delivered))
	if tc.Transport == "gateway" {
		ha, hb := te.gwHeaders("")
		d, a := res.side[0].Extra, res.side[1].Extra
		if d["version"] != "2.0.0" || a["version"] != "2.0.0" || d["unique"] != fmt.Sprintf("%x", hb.UniqueID[:]) || a["unique"] != fmt.Sprintf("%x", ha.UniqueID[:]) ||
			d["addr"] != "10.0.0.2:9982" || a["addr"] != "10.0.0.1:9981" {
			c.Violate("gateway|handshake-metadata-wrong|", fmt.Sprintf("dialer sees %v, accepter sees %v", d, a), tc)
		}
	}
	if len(tc.Seq) > 0 {
		c.Distinct("sequence", trName(tc), fmt.Sprint(tc.Seq))
	}
	c.hist("sequence_ok")
}

func shapeOf(tc tCase, msg int) string {
	if msg >= 0 && msg < len(tc.Seq) && tc.Seq[msg] < len(shapeNames) {
		return shapeNames[tc.Seq[msg]]
	}
	if msg >= 0 && msg < len(tc.Seq) && tc.Seq[msg] == shBlob {
		return "blob-of-swept-length"
	}
	return "?"
}

// ---- gateway handshake mismatches -----------------------------------------------------------

func v1msg(payload []byte) []byte {
	b := make([]byte, 8, 8+len(payload))
	binary.LittleEndian.PutUint64(b, uint64(len(payload)))
	return append(b, payload...)
}

func v1str(s string) []byte {
	b := make([]byte, 8, 8+len(s))
	binary.LittleEndian.PutUint64(b, uint64(len(s)))
	return v1msg(append(b, s...))
}

func v1header(h gateway.Header) []byte {
	var p []byte
	p = append(p, h.GenesisID[:]...)
	p = append(p, h.UniqueID[:]...)
	l := make([]byte, 8)
	binary.LittleEndian.PutUint64(l, uint64(len(h.NetAddress)))
	p = append(p, l...)
	p = append(p, h.NetAddress...)
	return v1msg(p)
}

func readV1(r io.Reader) ([]byte, error) {
	var l [8]byte
	if _, err := io.ReadFull(r, l[:]); err != nil {
		return nil, err
	}
	n := binary.LittleEndian.Uint64(l[:])
	if n > 1<<16 {
		return nil, fmt.Errorf("fake peer: absurd length %d", n)
	}
	p := make([]byte, n)
	_, err := io.ReadFull(r, p)
	return p, err
}

func readV1str(r io.Reader) (string, error) {
	p, err := readV1(r)
	if err != nil {
		return "", err
	}
	if len(p) < 8 {
		return "", fmt.Errorf("fake peer: short string message")
	}
	return string(p[8:]), nil
}

// fakeAccepter speaks the accepting side of the header exchange by hand and is
// permissive: it accepts any header, then presents `ours`. It returns the
// verdict string the real dialer sent about our header.
func fakeAccepter(conn io.ReadWriter, ours gateway.Header) (string, error) {
	if _, err := readV1str(conn); err != nil { // dialer version
		return "", err
	}
	conn.Write(v1str("2.0.0"))
	if _, err := readV1(conn); err != nil { // dialer header
		return "", err
	}
	conn.Write(v1str("accept"))
	conn.Write(v1header(ours))
	return readV1str(conn)
}

// fakeDialer speaks the dialing side by hand; it returns the verdict string the
// real accepter sent about our header.
func fakeDialer(conn io.ReadWriter, ours gateway.Header) (string, error) {
	conn.Write(v1str("2.0.0"))
	if _, err := readV1str(conn); err != nil {
		return "", err
	}
	conn.Write(v1header(ours))
	return readV1str(conn)
}

func (te *transportEnv) checkHandshake(c *rep, tc tCase) {
	mismatch := tc.Mismatch
	if mismatch == "none" {
		mismatch = ""
	}
	ha, hb := te.gwHeaders(mismatch)
	wantReject := mismatch != ""
	sig := "gateway." + map[string]string{"both": "Dial+Accept", "dialer": "Dial", "accepter": "Accept"}[tc.Side] + "|"
	verdictOK := func(rejected bool, what string) {
		switch {
		case wantReject && !rejected:
			c.Violate(sig+"mismatching-header-accepted|"+tc.Mismatch, fmt.Sprintf("handshake with %s mismatch: %s", tc.Mismatch, what), tc)
		case !wantReject && rejected:
			c.Violate(sig+"matching-header-rejected|", "handshake without mismatch: "+what, tc)
		case wantReject:
			c.Count("handshake_mismatch_rejected", 1)
			c.hist("handshake_rejected")
		default:
			c.Count("handshake_match_accepted", 1)
			c.hist("handshake_accepted")
		}
	}
	switch tc.Side {
	case "both":
		tc2 := tc
		tc2.Mismatch = mismatch
		res := te.runGateway(tc2)
		if !te.basic(c, tc, res) {
			return
		}
		te.integrity(c, tc, res)
		de, ae := res.side[0].HandshakeErr, res.side[1].HandshakeErr
		if wantReject {
			verdictOK(de != nil && ae != nil, fmt.Sprintf("Dial error: %v, Accept error: %v (both must fail)", de, ae))
		} else {
			verdictOK(de != nil || ae != nil, fmt.Sprintf("Dial error: %v, Accept error: %v", de, ae))
		}
	case "dialer", "accepter":
		a, b, d := newDuplex(nil)
		var realErr error
		var verdict string
		var fakeErr error
		var pan [2]any
		var wg sync.WaitGroup
		wg.Add(2)
	d.expect(2)
		go func() {
			defer wg.Done()
			d.enter()
			defer d.leave()
			defer func() { pan[0] = recover() }()
			if tc.Side == "dialer" {
				defer a.Close()
				var t *gateway.Transport
				t, realErr = gateway.Dial(a, ha)
				if t != nil && realErr == nil {
					t.Close()
				}
			} else {
				defer b.Close()
				var t *gateway.Transport
				t, realErr = gateway.Accept(b, hb)
				if t != nil && realErr == nil {
					t.Close()
				}
			}
		}()
		go func() {
			defer wg.Done()
			d.enter()
			defer d.leave()
			defer func() { pan[1] = recover() }()
			if tc.Side == "dialer" {
				defer b.Close()
				verdict, fakeErr = fakeAccepter(b, hb)
			} else {
				defer a.Close()
				verdict, fakeErr = fakeDialer(a, ha)
			}
		}()
		if ok, dump := watchdog(60*time.Second, wg.Wait, d.killAll); !ok {
			c.HarnessError("handshake case hung: %+v\n%s", tc, dump)
			return
		}
		if pan[0] != nil {
			c.Violate(sig+"panic|", fmt.Sprint(pan[0]), tc)
			return
		}
		if pan[1] != nil || fakeErr != nil {
			c.HarnessError("fake gateway peer failed: %v %v", pan[1], fakeErr)
			return
		}
		// the real side must have told the fake peer its verdict, and (for a
		// mismatch) must itself return an error. Without mismatch the real side
		// goes on to the mux handshake, which the fake peer does not speak, so
		// only the verdict is meaningful there.
		rejected := verdict != "accept"
		if wantReject {
			verdictOK(rejected && realErr != nil, fmt.Sprintf("verdict sent to the peer: %q, returned error: %v", verdict, realErr))
		} else {
			verdictOK(rejected, fmt.Sprintf("verdict sent to the peer: %q", verdict))
		}
	}
	c.Distinct("handshake", tc.Mismatch, tc.Side)
}

// ---- rhp/v2, rhp/v3 receive limits ------------------------------------------------------

func (te *transportEnv) checkTLimit(c *rep, tc tCase, res *sessResult) {
	if !te.basic(c, tc, res) {
		return
	}
	te.integrity(c, tc, res)
	r := 1 // requests are read by the host
	if tc.Dir == "response" {
		r = 0
	}
	sr := &res.side[r]
	if sr.HandshakeErr != nil || res.side[1-r].HandshakeErr != nil {
		c.Violate(tc.Transport+"|clean-handshake-failed|", fmt.Sprintf("%v / %v", res.side[0].HandshakeErr, res.side[1].HandshakeErr), tc)
		return
	}
	// the read of message 0 in direction tc.Dir (for requests: the read after ReadID)
	var target *readRes
	for i := range sr.Reads {
		if sr.Reads[i].Msg == 0 {
			target = &sr.Reads[i]
		}
	}
	if target == nil {
		c.HarnessError("tlimit: no read of message 0 found: %+v", sr.Reads)
		return
	}
	who := fmt.Sprintf("%s %s of %d payload bytes with maxLen %d (largest fitting %+d)", trName(tc), tc.Dir, tc.BlobLen, tc.MaxLen, tc.Over)
	entry := tc.Transport + ".Read" + roleTitle(tc.Dir)
	switch {
	case tc.Over <= 0 && !(target.OK && target.Equal):
		c.Violate(entry+"|in-limit-message-rejected|"+tc.Mode, who+": "+target.Err, tc)
	case tc.Over > 0 && target.OK:
		c.Violate(entry+"|over-limit-message-accepted|"+tc.Mode, who+": read succeeded", tc)
	case tc.Over > 0:
		c.Count("tlimit_rejected", 1)
	default:
		c.Count("tlimit_accepted", 1)
	}
	c.Distinct("tlimit", trName(tc), tc.Dir, tc.MaxLen, tc.Over)
}

// ---- tamper -----------------------------------------------------------------------------------

// enumerateTamper runs one clean reference session per transport to learn the
// (key independent) wire layout and lists the fault menu.
func (te *transportEnv) enumerateTamper(c *vf.Ctx) []tCase {
	var cases []tCase
	layout := map[string]any{}
	muxL := int64(vf.Pick(c, 2048, 8192))
	c.Set("mux_tamper_prefix_bytes", muxL)
	addMenu := func(base tCase, dir int, from, to int64) {
		for off := from; off < to; off++ {
			for _, m := range flipMasks {
				tc := base
				tc.Fault = &fault{Kind: faultFlip, Dir: dir, Off: off, Mask: m}
				cases = append(cases, tc)
			}
			tc := base
			tc.Fault = &fault{Kind: faultTrunc, Dir: dir, Off: off}
			cases = append(cases, tc)
		}
	}
	addSet8 := func(base tCase, dir int, off int64) {
		for _, v := range hostileValues {
			tc := base
			tc.Fault = &fault{Kind: faultSet8, Dir: dir, Off: off, Val: v}
			cases = append(cases, tc)
		}
	}
	// rhp/v2: every byte of every frame
	seqs := [][]int{tamperSeq}
	if !c.Quick() {
		seqs = append(seqs, []int{shPadded, shJustOver, shEmpty})
	}
	for si, seq := range seqs {
		for _, mode := range []string{"read", "raw"} {
			base := tCase{Family: "tamper", Transport: "rhp2", Mode: mode, Seq: seq}
			ref := te.runRHP2(tCase{Family: "sequence", Transport: "rhp2", Mode: mode, Seq: seq})
			if ref.hung || ref.side[0].HandshakeErr != nil || ref.side[1].HandshakeErr != nil {
				c.HarnessError("rhp2 reference session failed")
				continue
			}
			for dir := 0; dir < 2; dir++ {
				if dir == 0 && mode == "raw" {
					continue // requests are not affected by the response read mode
				}
				_, bounds := ref.d.record(dir)
				total := bounds[len(bounds)-1]
				layout[fmt.Sprintf("rhp2/%s/seq%d/dir%d_frame_ends", mode, si, dir)] = bounds
				from, firstFrame := int64(0), 1
				if mode == "raw" {
					// key exchange and challenge are read by NewRenterTransport in
					// both modes; they are covered by the "read" mode menu
					from, firstFrame = bounds[1], 2
				}
				addMenu(base, dir, from, total)
				for f := firstFrame; f < len(bounds); f++ { // frame 0 is the cleartext key exchange
					addSet8(base, dir, bounds[f-1])
				}
			}
		}
	}
	// rhp/v2 streaming read of an RPCReadResponse (RawResponse, DecodeFrom on the
	// unauthenticated stream, VerifyTag): flip the top bit of the most significant
	// byte of each of the three length prefixes of the response. (Other flips of
	// the data length can request terabytes and would kill the process.)
	{
		base := tCase{Family: "tamper", Transport: "rhp2", Mode: "raw", Seq: []int{shReadResp}}
		ref := te.runRHP2(tCase{Family: "sequence", Transport: "rhp2", Mode: "raw", Seq: base.Seq})
		if ref.hung || ref.side[0].HandshakeErr != nil || ref.side[1].HandshakeErr != nil || len(ref.side[0].Reads) == 0 || !ref.side[0].Reads[0].OK {
			c.HarnessError("rhp2 raw RPCReadResponse reference session failed")
		} else {
			_, bounds := ref.d.record(1)
			start := bounds[1]          // key exchange, challenge, then the response frame
			pt := start + 8 + 12        // length prefix, nonce
			sigLen := pt + 1            // error flag
			dataLen := sigLen + 8 + 64  // signature
			proofLen := dataLen + 8 + 5000
			for _, off := range []int64{sigLen + 7, dataLen + 7, proofLen + 7} {
				tc := base
				tc.Fault = &fault{Kind: faultFlip, Dir: 1, Off: off, Mask: 0x80}
				cases = append(cases, tc)
			}
		}
	}
	// mux based transports: the first muxL bytes of each direction
	// The first message of the tampered direction is chosen to span more than
	// two mux packets (2 x 4296 payload bytes), so that - however the mux
	// batches writes into packets - every byte of the tampered prefix lies in
	// the handshake or in a packet that carries data of message 0. The strict
	// oracle (the receiver reads nothing successfully) relies on this.
	for _, tr := range []string{"gateway", "rhp3"} {
		base := tCase{Family: "tamper", Transport: tr, Seq: tamperSeq}
		ref := te.session(tCase{Family: "sequence", Transport: tr, Seq: tamperSeq})
		if ref.hung || ref.side[0].HandshakeErr != nil || ref.side[1].HandshakeErr != nil {
			c.HarnessError("%s reference session failed", tr)
			continue
		}
		var clear [2]int64
		for dir := 0; dir < 2; dir++ {
			_, bounds := ref.d.record(dir)
			if tr == "gateway" {
				clear[dir] = bounds[3] // version, header, verdict, mux version byte
				// the cleartext messages carry two length prefixes each: the (ignored) message length and the string/inner length
				for f := 0; f < 3; f++ {
					start := int64(0)
					if f > 0 {
						start = bounds[f-1]
					}
					addSet8(base, dir, start)
					if !(dir == 0 && f == 1 || dir == 1 && f == 2) { // string messages: inner length prefix
						addSet8(base, dir, start+8)
					} else {
						addSet8(base, dir, start+8+32+8) // header: NetAddress length prefix
					}
				}
			} else {
				clear[dir] = bounds[0] // mux version byte
			}
			if bounds[len(bounds)-1] < muxL {
				c.HarnessError("%s direction %d carries only %d bytes, fewer than the tamper prefix %d", tr, dir, bounds[len(bounds)-1], muxL)
			}
			b := base
			if tr == "gateway" && dir == 0 {
				b.Seq = gwTamperSeqDir0
			}
			addMenu(b, dir, 0, muxL)
		}
		te.clear[tr] = clear
		layout[tr+"/cleartext_prefix_bytes"] = clear
	}
	c.Set("wire_layout", layout)
	c.Assume("planned restriction: go.sia.tech/mux based transports (gateway, rhp/v3) are tampered only on the first " + fmt.Sprint(muxL) + " bytes of each direction; object-level length prefixes inside mux streams cannot be reached by a man in the middle (they are inside the AEAD): for the gateway the cleartext handshake prefixes are replaced instead, for rhp/v3 there is no reachable length prefix (family A covers hostile prefixes sent by a malicious peer for rhp/v4 and gateway objects)")
	return cases
}

func frameOf(bounds []int64, off int64) int {
	for i, e := range bounds {
		if off < e {
			return i
		}
	}
	return len(bounds)
}

func (te *transportEnv) checkTamper(c *rep, tc tCase, res *sessResult) {
	if !te.basic(c, tc, res) {
		return
	}
	c.Count("tamper_cases", 1)
	f := tc.Fault
	if !res.d.faultApplied() {
		c.HarnessError("fault was not injected (the direction carried fewer bytes than the offset): %+v", tc)
		return
	}
	te.integrity(c, tc, res)
	R := 1 - f.Dir // side index of the receiver of the tampered direction
	sr := &res.side[R]
	_, bounds := res.d.record(f.Dir)
	who := fmt.Sprintf("%s, %s at byte %d of direction %d (mask %#x, value %d), sequence %v", trName(tc), f.Kind, f.Off, f.Dir, f.Mask, f.Val, tc.Seq)
	c.Distinct("tamper", trName(tc), fmt.Sprint(tc.Seq), f.Kind, f.Dir, f.Off, f.Mask, f.Val)

	weak := func(region string) {
		// unauthenticated by design: record what happened
		failed := res.side[0].HandshakeErr != nil || res.side[1].HandshakeErr != nil
		for i := range res.side {
			for _, r := range res.side[i].Reads {
				if !r.OK && !r.ExpectFail && !(tc.Transport == "rhp2" && r.Msg == len(tc.Seq)) {
					failed = true
				}
			}
		}
		if failed {
			c.Count("tamper_cleartext_session_failed", 1)
			c.hist(region + ":session_failed")
		} else {
			c.Count("tamper_cleartext_harmless", 1)
			c.hist(region + ":no_effect_on_messages")
		}
	}

	switch tc.Transport {
	case "rhp2":
		j := frameOf(bounds, f.Off)
		hs := 1 // key exchange
		if f.Dir == 1 {
			hs = 2 // + encrypted challenge, read inside NewRenterTransport
		}
		switch {
		case j == 0:
			weak("rhp2_key_exchange")
			return
		case j < hs:
			if sr.HandshakeErr == nil {
				c.Violate("rhp2.NewRenterTransport|tampered-challenge-frame-accepted|", who+": the renter handshake succeeded", tc)
				return
			}
			c.Count("tamper_detected", 1)
			c.hist("rhp2:handshake_rejected")
			return
		}
		if sr.HandshakeErr != nil {
			c.Violate("rhp2|handshake-fails-with-untouched-handshake-frames|", fmt.Sprintf("%s: %v", who, sr.HandshakeErr), tc)
			return
		}
		bad := false
		for _, r := range sr.Reads {
			switch {
			case r.Frame < j && !(r.OK && r.Equal):
				c.Violate("rhp2|untouched-frame-not-delivered|"+tc.Mode, fmt.Sprintf("%s: the read of frame %d (before the tampered frame %d) failed: %s", who, r.Frame, j, r.Err), tc)
				bad = true
			case r.Frame == j && r.OK:
				c.Violate("rhp2.Transport|tampered-frame-accepted|"+tc.Mode+"|"+f.Kind, fmt.Sprintf("%s: the read of the tampered frame %d succeeded", who, j), tc)
				bad = true
			case r.Frame > j && r.OK:
				c.Violate("rhp2.Transport|read-succeeds-after-tampered-frame|"+tc.Mode+"|"+f.Kind, fmt.Sprintf("%s: the read of frame %d succeeded after frame %d had been tampered with", who, r.Frame, j), tc)
				bad = true
			}
		}
		if bad {
			return
		}
		c.Count("tamper_detected", 1)
		if f.Kind == faultFlip || f.Kind == faultSet8 {
			// the frame was delivered completely: the session must be closed
			start := int64(0)
			if j > 0 {
				start = bounds[j-1]
			}
			where := "ciphertext"
			if f.Off-start < 8 {
				where = "length-prefix"
			}
			if where == "length-prefix" {
				// Was the frame still delivered completely FROM THE RECEIVER'S POINT OF VIEW? If the tampered prefix
				// announces more bytes than were sent, the receiver starves and only sees the connection end
				// (a truncation, for which IsClosed() is not required - DESIGN C19).
				end := bounds[j]
				orig := uint64(end - start - 8)
				var nv uint64
				if f.Kind == faultSet8 {
					nv = f.Val
				} else {
					var le [8]byte
					binary.LittleEndian.PutUint64(le[:], orig)
					le[f.Off-start] ^= f.Mask
					nv = binary.LittleEndian.Uint64(le[:])
				}
				last := bounds[len(bounds)-1]
				if nv > uint64(last-start-8) {
					c.hist("rhp2:length-prefix:receiver_starved(truncation-like)")
					return
				}
			}
			c.Count("tamper_rhp2_closed_checked", 1)
			if sr.ClosedAfter == nil || !*sr.ClosedAfter {
				path := "readMessage"
				if tc.Mode == "raw" && f.Dir == 1 {
					path = "RawResponse"
				}
				c.Violate("rhp2.Transport."+path+"|tampered-frame-detected-but-session-not-closed|"+where,
					fmt.Sprintf("%s: the read of the tampered frame returned an error but IsClosed() is false afterwards (frame %d, offset %d within the frame)", who, j, f.Off-start), tc)
				c.hist("rhp2:" + where + ":detected_not_closed")
				return
			}
			c.hist("rhp2:" + where + ":detected_and_closed")
		} else {
			c.hist("rhp2:truncation:detected")
		}
	default:
		if f.Off < te.clearLen(tc.Transport, f.Dir) && f.Kind != faultTrunc {
			weak(tc.Transport + "_cleartext_preamble")
			return
		}
		for _, r := range sr.Reads {
			if r.OK {
				c.Violate(tc.Transport+"|read-succeeds-after-tampered-packet|"+f.Kind, fmt.Sprintf("%s: the receiving side read message %d successfully", who, r.Msg), tc)
				return
			}
		}
		if sr.HandshakeErr == nil && len(sr.Reads) == 0 && sr.WriteErr == nil {
			c.Violate(tc.Transport+"|tamper-unnoticed|"+f.Kind, who+": the receiving side saw neither a handshake error nor a read error", tc)
			return
		}
		c.Count("tamper_detected", 1)
		if sr.HandshakeErr != nil {
			c.hist(tc.Transport + ":handshake_rejected")
		} else {
			c.hist(tc.Transport + ":read_error")
		}
	}
}

func (te *transportEnv) clearLen(tr string, dir int) int64 {
	if cl, ok := te.clear[tr]; ok {
		return cl[dir]
	}
	// replay: learn it from a clean session
	ref := te.session(tCase{Family: "sequence", Transport: tr, Seq: tamperSeq})
	var clear [2]int64
	for d := 0; d < 2; d++ {
		_, bounds := ref.d.record(d)
		if tr == "gateway" && len(bounds) > 3 {
			clear[d] = bounds[3]
		} else if len(bounds) > 0 {
			clear[d] = bounds[0]
		}
	}
	te.clear[tr] = clear
	return clear[dir]
}

