package c19

import (
	"bytes"
	"fmt"
	"time"

	"go.sia.tech/core/consensus"
	"go.sia.tech/core/gateway"
	"go.sia.tech/core/types"
)

// gateway RPC objects. Every object has a request half and a response half;
// the halves with a zero receive limit (emptyRequest / emptyResponse) are
// included as fixed-size cases.

type gwtype struct {
	name     string
	fresh    func(max uint64) gateway.Object
	reqDims  []dim
	respDims []dim
	emptyReq bool     // embeds emptyRequest
	emptyRsp bool     // embeds emptyResponse
	maxes    []uint64 // values of the Max field that size the response limit (nil: not applicable)
	buildReq func(g *gen, sz []int, max uint64) gateway.Object
	buildRsp func(g *gen, sz []int, max uint64) gateway.Object
}

func mkV1Txn(g *gen, arb int) types.Transaction {
	return types.Transaction{ArbitraryData: [][]byte{g.bytes(arb)}}
}

func mkBlock(g *gen, ntx int, arb int) types.Block {
	b := types.Block{
		ParentID: types.BlockID(g.hash()), Nonce: g.u64(), Timestamp: g.tm(),
		MinerPayouts: []types.SiacoinOutput{{Value: g.cur(), Address: types.Address(g.hash())}},
		V2:           &types.V2BlockData{Height: g.u64(), Commitment: g.hash()},
	}
	for i := 0; i < ntx; i++ {
		b.V2.Transactions = append(b.V2.Transactions, mkTxn(g, arb))
	}
	return b
}

func mkState(g *gen) consensus.State {
	var s consensus.State
	s.Index = types.ChainIndex{Height: 100, ID: types.BlockID(g.hash())}
	for i := range s.PrevTimestamps {
		s.PrevTimestamps[i] = g.tm()
	}
	s.Depth = types.BlockID(g.hash())
	s.ChildTarget = types.BlockID(g.hash())
	s.SiafundTaxRevenue = g.cur()
	s.OakTime = time.Duration(g.u64() >> 2)
	s.OakTarget = types.BlockID(g.hash())
	s.FoundationSubsidyAddress = types.Address(g.hash())
	s.FoundationManagementAddress = types.Address(g.hash())
	s.Attestations = g.u64()
	return s
}

func peerAddr(g *gen, n int) string {
	// an address of exactly n bytes (n >= 9): host padded with letters, fixed port
	if n < 9 {
		n = 9
	}
	return g.text(n-5) + ":9981"
}

func gwtable() []gwtype {
	return []gwtype{
		{name: "RPCShareNodes", emptyReq: true,
			fresh:    func(uint64) gateway.Object { return new(gateway.RPCShareNodes) },
			buildReq: func(g *gen, sz []int, _ uint64) gateway.Object { return &gateway.RPCShareNodes{} },
			buildRsp: func(g *gen, sz []int, _ uint64) gateway.Object {
				r := &gateway.RPCShareNodes{}
				for i := 0; i < sz[0]; i++ {
					r.Peers = append(r.Peers, peerAddr(g, 21))
				}
				r.Peers = append(r.Peers, g.text(sz[1])) // one extra peer carries the string-length dimension
				return r
			}, respDims: []dim{fitDim("Peers(+1)"), fitDim("Peers[last] bytes")}},
		{name: "RPCDiscoverIP", emptyReq: true,
			fresh:    func(uint64) gateway.Object { return new(gateway.RPCDiscoverIP) },
			buildReq: func(g *gen, sz []int, _ uint64) gateway.Object { return &gateway.RPCDiscoverIP{} },
			buildRsp: func(g *gen, sz []int, _ uint64) gateway.Object { return &gateway.RPCDiscoverIP{IP: g.text(sz[0])} },
			respDims: []dim{fitDim("IP bytes")}},
		{name: "RPCSendHeaders", maxes: []uint64{0, 1, 10, 1000},
			fresh: func(max uint64) gateway.Object { return &gateway.RPCSendHeaders{Max: max} },
			buildReq: func(g *gen, sz []int, max uint64) gateway.Object {
				return &gateway.RPCSendHeaders{Index: types.ChainIndex{Height: g.u64(), ID: types.BlockID(g.hash())}, Max: max}
			},
			buildRsp: func(g *gen, sz []int, max uint64) gateway.Object {
				r := &gateway.RPCSendHeaders{Max: max, Remaining: g.u64()}
				for i := 0; i < sz[0]; i++ {
					r.Headers = append(r.Headers, types.BlockHeader{ParentID: types.BlockID(g.hash()), Nonce: g.u64(), Timestamp: g.tm(), Commitment: g.hash()})
				}
				return r
			}, respDims: []dim{{name: "Headers", kind: kindProtocol, pmax: -1, why: "the responder returns at most the Max headers the requester asked for"}}},
		{name: "RPCSendV2Blocks", maxes: []uint64{1, 2},
			fresh: func(max uint64) gateway.Object { return &gateway.RPCSendV2Blocks{Max: max} },
			buildReq: func(g *gen, sz []int, max uint64) gateway.Object {
				r := &gateway.RPCSendV2Blocks{Max: max}
				for i := 0; i < sz[0]; i++ {
					r.History = append(r.History, types.BlockID(g.hash()))
				}
				return r
			},
			buildRsp: func(g *gen, sz []int, max uint64) gateway.Object {
				r := &gateway.RPCSendV2Blocks{Max: max, Remaining: g.u64()}
				for i := 0; i < sz[0]; i++ {
					r.Blocks = append(r.Blocks, mkBlock(g, 0, 0))
				}
				r.Blocks = append(r.Blocks, mkBlock(g, 1, sz[1]+1)) // one extra block carries the block-size dimension
				return r
			}, reqDims: []dim{fitDim("History")}, respDims: []dim{fitDim("Blocks(+1)"), fitDim("Blocks[last] arbitrary data bytes (+1)")}},
		{name: "RPCSendTransactions",
			fresh: func(uint64) gateway.Object { return new(gateway.RPCSendTransactions) },
			buildReq: func(g *gen, sz []int, _ uint64) gateway.Object {
				return &gateway.RPCSendTransactions{Index: types.ChainIndex{Height: g.u64(), ID: types.BlockID(g.hash())}, Hashes: g.hashes(sz[0])}
			},
			buildRsp: func(g *gen, sz []int, _ uint64) gateway.Object {
				r := &gateway.RPCSendTransactions{}
				for i := 0; i < sz[0]; i++ {
					r.Transactions = append(r.Transactions, mkV1Txn(g, 8))
				}
				r.V2Transactions = mkTxns(g, sz[1])
				return r
			}, reqDims: []dim{fitDim("Hashes")}, respDims: []dim{fitDim("Transactions"), fitDim("V2Transactions")}},
		{name: "RPCSendCheckpoint",
			fresh: func(uint64) gateway.Object { return new(gateway.RPCSendCheckpoint) },
			buildReq: func(g *gen, sz []int, _ uint64) gateway.Object {
				return &gateway.RPCSendCheckpoint{Index: types.ChainIndex{Height: g.u64(), ID: types.BlockID(g.hash())}}
			},
			buildRsp: func(g *gen, sz []int, _ uint64) gateway.Object {
				return &gateway.RPCSendCheckpoint{Block: mkBlock(g, sz[0], 8), State: mkState(g)}
			}, respDims: []dim{fitDim("Block.V2.Transactions")}},
		{name: "RPCRelayV2Header", emptyRsp: true,
			fresh: func(uint64) gateway.Object { return new(gateway.RPCRelayV2Header) },
			buildReq: func(g *gen, sz []int, _ uint64) gateway.Object {
				return &gateway.RPCRelayV2Header{Header: types.BlockHeader{ParentID: types.BlockID(g.hash()), Nonce: g.u64(), Timestamp: g.tm(), Commitment: g.hash()}}
			},
			buildRsp: func(g *gen, sz []int, _ uint64) gateway.Object { return &gateway.RPCRelayV2Header{} }},
		{name: "RPCRelayV2BlockOutline", emptyRsp: true,
			fresh: func(uint64) gateway.Object { return new(gateway.RPCRelayV2BlockOutline) },
			buildReq: func(g *gen, sz []int, _ uint64) gateway.Object {
				bo := gateway.V2BlockOutline{Height: g.u64(), ParentID: types.BlockID(g.hash()), Nonce: g.u64(), Timestamp: g.tm(), MinerAddress: types.Address(g.hash())}
				for i := 0; i < sz[0]; i++ {
					bo.Transactions = append(bo.Transactions, gateway.OutlineTransaction{Hash: g.hash()})
				}
				for i := 0; i < sz[1]; i++ {
					t := mkTxn(g, 8)
					bo.Transactions = append(bo.Transactions, gateway.OutlineTransaction{Hash: t.MerkleLeafHash(), V2Transaction: &t})
				}
				for i := 0; i < sz[2]; i++ {
					t := mkV1Txn(g, 8)
					bo.Transactions = append(bo.Transactions, gateway.OutlineTransaction{Hash: t.MerkleLeafHash(), Transaction: &t})
				}
				return &gateway.RPCRelayV2BlockOutline{Block: bo}
			},
			buildRsp: func(g *gen, sz []int, _ uint64) gateway.Object { return &gateway.RPCRelayV2BlockOutline{} },
			reqDims:  []dim{fitDim("omitted transactions (hash only)"), fitDim("included v2 transactions"), fitDim("included v1 transactions")}},
		{name: "RPCRelayV2TransactionSet", emptyRsp: true,
			fresh: func(uint64) gateway.Object { return new(gateway.RPCRelayV2TransactionSet) },
			buildReq: func(g *gen, sz []int, _ uint64) gateway.Object {
				r := &gateway.RPCRelayV2TransactionSet{Index: types.ChainIndex{Height: g.u64(), ID: types.BlockID(g.hash())}, Transactions: mkTxns(g, sz[0])}
				r.Transactions = append(r.Transactions, mkTxn(g, sz[1]+1)) // one extra transaction carries the size dimension
				return r
			},
			buildRsp: func(g *gen, sz []int, _ uint64) gateway.Object { return &gateway.RPCRelayV2TransactionSet{} },
			reqDims:  []dim{fitDim("Transactions(+1)"), fitDim("Transactions[last] arbitrary data bytes (+1)")}},
	}
}

// gwcodecs expands the gateway table into request and response codecs.
func gwcodecs() []*codec {
	var out []*codec
	for _, t := range gwtable() {
		t := t
		maxes := t.maxes
		if maxes == nil {
			maxes = []uint64{0}
		}
		// requests (the limit does not depend on Max)
		out = append(out, &codec{proto: "gateway", name: t.name, role: "request", dims: t.reqDims,
			limit: gateway.VerifMaxRequestLen(t.fresh(0)),
			build: func(seed int64, sz []int) any {
				return t.buildReq(newGen(seed, t.name+"/req"), sz, 7)
			},
			write: func(obj any) ([]byte, int, error) {
				var buf bytes.Buffer
				if err := gateway.VerifWriteID(&buf, obj.(gateway.Object)); err != nil {
					return nil, 0, err
				}
				err := gateway.VerifWriteRequest(&buf, obj.(gateway.Object))
				return buf.Bytes(), 16, err
			},
			read: func(r *endlessReader) (any, error) {
				id, err := gateway.VerifReadID(r)
				if err != nil {
					return nil, fmt.Errorf("ReadID: %w", err)
				}
				o := gateway.ObjectForID(id)
				if o == nil {
					return nil, fmt.Errorf("ObjectForID(%v) returned nil", id)
				}
				if fmt.Sprintf("%T", o) != "*gateway."+t.name {
					return o, fmt.Errorf("ObjectForID(%v) returned %T, want %s", id, o, t.name)
				}
				return o, gateway.VerifReadRequest(r, o)
			}})
		for _, max := range maxes {
			max := max
			dims := append([]dim(nil), t.respDims...)
			for i := range dims {
				if dims[i].pmax == -1 {
					dims[i].pmax = int(max)
				}
			}
			out = append(out, &codec{proto: "gateway", name: t.name, role: "response", max: max, dims: dims,
				limit: gateway.VerifMaxResponseLen(t.fresh(max)),
				build: func(seed int64, sz []int) any {
					return t.buildRsp(newGen(seed, t.name+"/rsp"), sz, max)
				},
				write: func(obj any) ([]byte, int, error) {
					var buf bytes.Buffer
					err := gateway.VerifWriteResponse(&buf, obj.(gateway.Object))
					return buf.Bytes(), 0, err
				},
				read: func(r *endlessReader) (any, error) {
					o := t.fresh(max)
					return o, gateway.VerifReadResponse(r, o)
				}})
		}
	}
	return out
}
