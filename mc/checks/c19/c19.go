// Package c19: RPC framing admits all valid messages and bounds reads;
// transports are faithful (fault enumeration).
//
// Family A (limits):  every rhp/v4 Object and every gateway RPC object at sizes
//
//	0,1,2,max-1,max,max+1 of each variable dimension, written with the real
//	writer and read back with the real reader from a byte-counting endless
//	reader; hostile length prefixes in place of every length field.
//
// Family B (errors):  every predeclared rhp/v4 error, every description length
//
//	and every code as the response to every response type.
//
// Family C (transports): gateway, rhp/v3 and rhp/v2 sessions over an in-memory
//
//	duplex pipe: all message sequences up to a bound, handshake mismatches and
//	a man-in-the-middle fault menu (bit flips, truncations, length prefixes).
package c19

import (
	"encoding/json"
	"fmt"
	"os"
	"sort"

	rhp4 "go.sia.tech/core/rhp/v4"
	"verifmc/vf"
)

func init() {
	vf.Register(&vf.Check{ID: "C19", Level: "fault_enumeration", Run: run, Replay: replay})
}

type env struct {
	le *limitsEnv
	we *worstEnv
	te *transportEnv
}

func setup(c *vf.Ctx) *env {
	pm := computeProtoMaxima(c)
	tab := v4table(pm)
	le := &limitsEnv{tab: tab, byName: v4byName(tab)}
	for i := range tab {
		le.addCodec(v4codec(&tab[i]))
	}
	for _, cd := range gwcodecs() {
		le.addCodec(cd)
	}
	return &env{le: le, we: newWorstEnv(c, le), te: newTransportEnv(c)}
}

func run(c *vf.Ctx) {
	c.Set("rule", "fault enumeration over three finite menus: (A) every rhp/v4 and gateway message type x every variable dimension x sizes {0,1,2,protocol max-1/max/max+1, largest-fitting-1/fitting/fitting+1} (thorough: also 2^j-1,2^j,2^j+1) and x hostile length prefixes {0,1,2^31,2^32,2^40,2^62,2^63,2^64-1}, plus worst-case proof-bearing responses over pattern families x contract sizes; (B) every rhp/v4 response type x {15 predeclared errors, descriptions of every length 0..1014, every code 0..255}; (C) gateway / rhp v3 / rhp v2 sessions: every sequence of <=3 (thorough <=4) messages over a 6-shape alphabet, handshake mismatches, and a MITM menu of bit flips {0x01,0x80,0xFF} x byte offset, truncation at every offset, and length prefixes. A case is counted as distinct/non-trivial when it has a size > 2, is a joint maximum, a hostile prefix, an error response, a message sequence or a fault case (trivial: the 0/1/2-element and fixed-size round trips).")
	c.Assume("SHA/BLAKE2b, Ed25519, X25519, ChaCha20-Poly1305 are sound: a tampered ciphertext is rejected except with negligible probability")
	c.Assume("session keys and nonces of rhp/v2 and go.sia.tech/mux come from frand and are not reproducible; only frame lengths and outcomes (which are key independent) enter the counters; VERIF_SEED salts host keys and payload bytes only")
	c.Assume("the gateway Object codec is only reachable through *mux.Stream; family A drives it through overlay functions that mirror (*Stream).ReadRequest/ReadResponse/WriteRequest/WriteResponse line by line on an io.Reader/io.Writer; the real Stream methods are exercised in family C")
	c.Assume("for message dimensions without a protocol-stated maximum (transaction sets, inputs, policies, peers, blocks) the boundary is derived from the receiver's own limit, so only framing (accept at the limit, reject above, never read beyond) is checked there, not adequacy of the limit")
	c.Assume("go.sia.tech/mux (a dependency) is trusted beyond the tampered prefix: its tamper detection is probed only on the first 2 KiB (thorough 8 KiB) of each direction")
	c.Assume("the gateway version/header exchange and the mux version byte are cleartext and unauthenticated by design; faults there are only required not to panic, not to hang and not to deliver a different RPC object")

	if os.Getenv(workerEnv) == "hostile" {
		workerMain(c) // subprocess: never returns
	}
	e := setup(c)
	nv4 := crossCheckTable(c, "rhp/v4", "maxLen", append(tableNames(e.le.tab), "RPCError"), nil)
	ngwq := crossCheckTable(c, "gateway", "maxRequestLen", gwNamesWith(true), map[string]bool{"emptyRequest": true})
	ngwr := crossCheckTable(c, "gateway", "maxResponseLen", gwNamesWith(false), map[string]bool{"emptyResponse": true})
	crossCheckErrors(c, predeclaredErrors())
	c.Set("rhp4_object_types", nv4)
	c.Set("gateway_objects_with_request_codec", ngwq)
	c.Set("gateway_objects_with_response_codec", ngwr)
	c.Set("gateway_objects", len(gwNames()))
	c.Set("MaxSectorBatchSize", rhp4.MaxSectorBatchSize)
	c.Set("MaxAccountBatchSize", rhp4.MaxAccountBatchSize)

	// development aid: C19_PHASES=limits|transports runs one half only (and says so)
	phases := os.Getenv("C19_PHASES")
	if phases != "" {
		c.NotExhaustive("partial run requested with C19_PHASES=" + phases)
	}
	if phases == "transports" {
		e.te.run(c)
		c.Set("outcome_classes", e.te.hist.snapshot())
		c.RequireFeature("seq_sessions", "seq_messages_delivered", "handshake_mismatch_rejected", "handshake_match_accepted",
			"tamper_cases", "tamper_detected", "tamper_rhp2_closed_checked")
		return
	}

	// phase 1 (sequential, in a worker subprocess with an address-space limit: allocation is measured process-wide)
	hostile := e.le.enumerateHostile(c)
	e.le.runHostileInWorker(c, hostile)
	c.Set("hostile_prefix_values", hostileValues)

	// phase 2: sizes, errors, worst cases (parallel)
	cases := e.le.enumerateLimits(c)
	cases = append(cases, e.we.enumerate(c)...)
	cases = append(cases, e.le.enumerateErrors(c)...)
	// big cases first so that they overlap with the many small ones
	sort.SliceStable(cases, func(i, j int) bool { return weight(cases[i]) > weight(cases[j]) })
	vf.ParallelFor(len(cases), func(i int) {
		if c.Expired() {
			return
		}
		e.dispatchLim(c, cases[i])
	})
	e.we.minimalFreeSectorsOverflow(c)
	if len(cases) > 0 {
		c.Sample(cases[0])
		c.Sample(cases[len(cases)/2])
		c.Sample(hostile[len(hostile)/3])
	}

	// phase 3: transports
	if phases != "limits" {
		e.te.run(c)
	}

	c.Set("outcome_classes", e.te.hist.snapshot())
	c.RequireFeature("limits_rhp4_cases", "limits_gateway_cases", "limits_accepted", "limits_rejected", "limits_protocol_max_cases",
		"hostile_prefix_cases", "hostile_rejected", "error_response_cases", "error_delivered",
		"worstcase_real_proofs", "worstcase_arithmetic", "worstcase_within_limit")
	if phases == "limits" {
		return
	}
	c.RequireFeature("seq_sessions", "seq_messages_delivered", "handshake_mismatch_rejected", "handshake_match_accepted",
		"tamper_cases", "tamper_detected", "tamper_rhp2_closed_checked")
}

func weight(lc limCase) int {
	switch {
	case lc.Family == "worstcase" && lc.N == 1:
		return 3
	case lc.Family == "worstcase":
		return 2
	case lc.Family == "limits" && (lc.N > 10000 || lc.Joint):
		return 2
	}
	return 0
}

func tableNames(tab []v4type) []string {
	var ns []string
	for _, t := range tab {
		ns = append(ns, t.name)
	}
	return ns
}

func gwNames() []string {
	var ns []string
	for _, t := range gwtable() {
		ns = append(ns, t.name)
	}
	return ns
}

// gwNamesWith lists the gateway objects that implement their own request
// (req=true) or response codec, i.e. do not embed emptyRequest/emptyResponse.
func gwNamesWith(req bool) []string {
	var ns []string
	for _, t := range gwtable() {
		if req && !t.emptyReq || !req && !t.emptyRsp {
			ns = append(ns, t.name)
		}
	}
	return ns
}

func (e *env) dispatchLim(c *vf.Ctx, lc limCase) {
	switch lc.Family {
	case "limits":
		e.le.runLimit(c, lc)
	case "hostile":
		e.le.runHostile(c, c.Seed, lc)
	case "errors":
		e.le.runError(c, lc)
	case "worstcase":
		e.we.run(c, lc)
	default:
		c.HarnessError("unknown case family %q", lc.Family)
	}
}

func replay(c *vf.Ctx, raw json.RawMessage) {
	var probe struct {
		Family string `json:"family"`
	}
	if err := json.Unmarshal(raw, &probe); err != nil {
		c.HarnessError("bad replay case: %v", err)
		return
	}
	e := setup(c)
	switch probe.Family {
	case "limits", "hostile", "errors", "worstcase":
		var lc limCase
		if err := json.Unmarshal(raw, &lc); err != nil {
			c.HarnessError("bad replay case: %v", err)
			return
		}
		e.dispatchLim(c, lc)
	case "sequence", "handshake", "tamper", "tlimit":
		var tc tCase
		if err := json.Unmarshal(raw, &tc); err != nil {
			c.HarnessError("bad replay case: %v", err)
			return
		}
		e.te.runCase(c, tc)
	case "proofsize":
		computeProtoMaxima(c)
	default:
		c.HarnessError("unknown replay family %q", probe.Family)
	}
	c.Set("rule", "replay of one recorded case")
	c.Sample(json.RawMessage(raw))
	fmt.Printf("replayed %s case\n", probe.Family)
}
